(* driver.ml — runs the extracted Coq model on a case file and prints one canonical result
   line per case (same text as the Rust harness prints for the implementation). *)
module ZA = Z
open Model
module String = Stdlib.String
module List = Stdlib.List
type string = Stdlib.String.t

let rec pos_of_z (z : ZA.t) : positive =
  if ZA.equal z ZA.one then XH
  else if ZA.testbit z 0 then XI (pos_of_z (ZA.shift_right z 1))
  else XO (pos_of_z (ZA.shift_right z 1))
let n_of_z (z : ZA.t) : n = if ZA.sign z = 0 then N0 else Npos (pos_of_z z)
let rec z_of_pos = function
  | XH -> ZA.one
  | XO p -> ZA.shift_left (z_of_pos p) 1
  | XI p -> ZA.succ (ZA.shift_left (z_of_pos p) 1)
let z_of_n = function N0 -> ZA.zero | Npos p -> z_of_pos p
let n_of_int i = n_of_z (ZA.of_int i)
let int_of_n x = ZA.to_int (z_of_n x)
let n_of_string s = n_of_z (ZA.of_string s)
let string_of_n x = ZA.to_string (z_of_n x)

let hex (bs : n list) : string =
  if bs = [] then "-" else String.concat "" (List.map (fun b -> Printf.sprintf "%02x" (int_of_n b)) bs)
let unhex (s : string) : n list =
  if s = "-" then [] else
  List.init (String.length s / 2) (fun i -> n_of_int (int_of_string ("0x" ^ String.sub s (2*i) 2)))

let err_s = function
  | IncompleteData -> "Err IncompleteData"
  | NonImplemented -> "Err NonImplemented"
  | WrongTag t -> "Err WrongTag:" ^ string_of_n t
  | DuplicateTag t -> "Err DuplicateTag:" ^ string_of_n t
  | MissingRequiredTags ts -> "Err MissingRequiredTags:" ^ String.concat "," (List.map string_of_n ts)
  | Aborted c -> "Err Aborted:" ^ string_of_n c

let res_s (f : 'a -> string) = function
  | Ok a -> "Ok " ^ f a
  | Err e -> err_s e
  | Panic -> "Panic"
  | OutOfFuel -> "Hang"

let style_of_string s =
  match String.split_on_char ':' s with
  | ["Empty"] -> LEmpty
  | ["Tlv"] -> LTlv
  | ["Adpu"] -> LAdpu
  | ["Temperature"] -> LTemperature
  | ["Llv"; d] -> LLlv (n_of_string d)
  | ["Fixed"; k] -> LFixed (n_of_string k)
  | _ -> failwith ("style " ^ s)

let len_ser_s style nn = res_s hex (len_ser (style_of_string style) nn)
let len_de_s style bs =
  res_s (fun (k, r) -> string_of_n k ^ " " ^ hex r) (len_de (style_of_string style) bs)

let z_of_coqz = function Z0 -> ZA.zero | Zpos p -> z_of_pos p | Zneg p -> ZA.neg (z_of_pos p)
let coqz_of_z (z : ZA.t) = if ZA.sign z = 0 then Z0 else if ZA.sign z > 0 then Zpos (pos_of_z z) else Zneg (pos_of_z (ZA.neg z))

let enc_of_string = function
  | "Default" -> EDefault | "BigEndian" -> EBigEndian | "Bcd" -> EBcd | "Hex" -> EHex
  | "Utf8" -> EUtf8 | "Custom" -> ECustom | "ReceiptNo" -> EReceiptNo
  | s -> failwith ("enc " ^ s)
let prim_of_string = function
  | "u8" -> PInt (n_of_int 1) | "u16" -> PInt (n_of_int 2) | "u32" -> PInt (n_of_int 4)
  | "u64" | "usize" -> PInt (n_of_int 8)
  | "String" -> PString | "DateTime" -> PDateTime | "Bytes" -> PBytes
  | s -> failwith ("prim " ^ s)

let show_str (s : n list) =
  if s = [] then "s:-" else "s:" ^ String.concat "." (List.map (fun c -> Printf.sprintf "%x" (int_of_n c)) s)
let parse_str (v : string) : n list =
  let body = String.sub v 2 (String.length v - 2) in
  if body = "-" then [] else List.map (fun c -> n_of_int (int_of_string ("0x" ^ c))) (String.split_on_char '.' body)

let rec show_value = function
  | VInt k -> string_of_n k
  | VStr s -> show_str s
  | VBytes b -> "[" ^ String.concat ";" (List.map string_of_n b) ^ "]"
  | VDate (y, mo, d, h, mi, s) ->
      Printf.sprintf "d:%s,%s,%s,%s,%s,%s" (ZA.to_string (z_of_coqz y)) (string_of_n mo) (string_of_n d)
        (string_of_n h) (string_of_n mi) (string_of_n s)
  | VNone -> "None"
  | VSome v -> "Some(" ^ show_value v ^ ")"
  | VList l -> "[" ^ String.concat ";" (List.map show_value l) ^ "]"
  | VRec l -> "{" ^ String.concat ";" (List.map show_value l) ^ "}"

let parse_prim_value (v : string) : value =
  if String.length v >= 2 && v.[1] = ':' then begin
    match v.[0] with
    | 's' -> VStr (parse_str v)
    | 'b' -> VBytes (unhex (String.sub v 2 (String.length v - 2)))
    | 'd' ->
        (match String.split_on_char ',' (String.sub v 2 (String.length v - 2)) with
         | [y; mo; d; h; mi; s] ->
             VDate (coqz_of_z (ZA.of_string y), n_of_string mo, n_of_string d, n_of_string h, n_of_string mi, n_of_string s)
         | _ -> failwith "date")
    | _ -> failwith ("value " ^ v)
  end else VInt (n_of_string v)

let p_enc_s e p v = res_s hex (prim_enc (enc_of_string e) (prim_of_string p) v)
let p_dec_s e p bs =
  res_s (fun (v, r) -> show_value v ^ " " ^ hex r) (prim_dec (enc_of_string e) (prim_of_string p) bs)
let tag_enc_s big t = "Ok " ^ hex (tag_enc big t)
let tag_dec_s big bs = res_s (fun (t, r) -> string_of_n t ^ " " ^ hex r) (tag_dec big bs)
let all_strings k suffix (f : n list -> unit) =
  for i = 0 to (1 lsl (8 * k)) - 1 do
    f (List.init k (fun j -> n_of_int ((i lsr (8 * (k - 1 - j))) land 255)) @ suffix)
  done

let rec nat_of_int k = if k <= 0 then O else S (nat_of_int (k - 1))

let coq_string (s : string) : Model.string =
  let n = String.length s in
  let rec go i =
    if i = n then EmptyString
    else begin
      let c = Char.code s.[i] in
      let b k = (c lsr k) land 1 = 1 in
      String (Ascii (b 0, b 1, b 2, b 3, b 4, b 5, b 6, b 7), go (i + 1))
    end in
  go 0

let dec_s name bs =
  match run_dec (coq_string name) bs with
  | None -> "NoSuchType"
  | Some (r, re) ->
      (match r with
       | Ok (v, rem) ->
           "Ok " ^ show_value v ^ " rem=" ^ hex rem ^ " re=" ^
           (match re with Ok b -> hex b | Panic -> "Panic" | OutOfFuel -> "Hang" | Err e -> "Model" ^ err_s e)
       | Err e -> err_s e
       | Panic -> "Panic"
       | OutOfFuel -> "Hang")

let enum_s name bs =
  match run_enum (coq_string name) bs with
  | None -> "NoSuchType"
  | Some r -> res_s (fun (i, v) -> string_of_n i ^ " " ^ show_value v) r

(* runtime layouts (C12: randomly generated structs): tokens
     fields := "[" field* "]" ;  field := "F" TAG LS ENC ty ;  ty := "P" prim | "O" ty | "V" ty | "S" fields *)
let parse_layout (s : string) : field list =
  let toks = ref (List.filter (fun t -> t <> "") (String.split_on_char ' ' s)) in
  let next () = match !toks with t :: r -> toks := r; t | [] -> failwith "layout: eof" in
  let peek () = match !toks with t :: _ -> t | [] -> "" in
  let rec fields () =
    if next () <> "[" then failwith "layout: [";
    let acc = ref [] in
    while peek () <> "]" do acc := field () :: !acc done;
    ignore (next ());
    List.rev !acc
  and field () =
    if next () <> "F" then failwith "layout: F";
    let tag = next () in
    let ls = style_of_string (next ()) in
    let e = enc_of_string (next ()) in
    let t = ty () in
    Fld (coq_string "f", (if tag = "-" then None else Some (n_of_string tag)), ls, e, t)
  and ty () =
    match next () with
    | "P" -> TPrim (prim_of_string (next ()))
    | "O" -> TOpt (ty ())
    | "V" -> TVec (ty ())
    | "S" -> TStruct (fields ())
    | t -> failwith ("layout: ty " ^ t) in
  fields ()

let ldec_s cf layout bs =
  let fs = parse_layout layout in
  let fuel = nat_of_int 64 in
  let r, re =
    if cf = "-" then
      (let r = dec_plain fuel fs bs in (r, match r with Ok (v, _) -> enc_struct fs v | _ -> Err NonImplemented))
    else
      (match String.split_on_char ',' cf with
       | [c; i] ->
           let cm = { c_class = n_of_string c; c_instr = n_of_string i; c_fields = fs } in
           let r = dec_cmd fuel cm bs in (r, match r with Ok (v, _) -> enc_cmd cm v | _ -> Err NonImplemented)
       | _ -> failwith "cf") in
  match r with
  | Ok (v, rem) ->
      "Ok " ^ show_value v ^ " rem=" ^ hex rem ^ " re=" ^
      (match re with Ok b -> hex b | Panic -> "Panic" | OutOfFuel -> "Hang" | Err e -> "Model" ^ err_s e)
  | Err e -> err_s e
  | Panic -> "Panic"
  | OutOfFuel -> "Hang"

(* membership of the decoded value in the proved class (CanonClass.v): 1 in class with these very bytes,
   0 outside, 2 the bytes do not decode to (v, nothing left) *)
let canon_s name bs =
  match run_canon (coq_string name) bs with
  | None -> "NoSuchType"
  | Some n -> string_of_n n

let lcanon_s cf layout bs =
  let fs = parse_layout layout in
  let fuel = nat_of_int 64 in
  let same g = if g = bs then "1" else "0" in
  if cf = "-" then
    (match dec_plain fuel fs bs with
     | Ok (v, []) -> (match canon_struct fs v with Some g -> same g | None -> "0")
     | _ -> "2")
  else
    (match String.split_on_char ',' cf with
     | [c; i] ->
         let cm = { c_class = n_of_string c; c_instr = n_of_string i; c_fields = fs } in
         (match dec_cmd fuel cm bs with
          | Ok (v, []) -> (match canon_cmd cm v with Some g -> same g | None -> "0")
          | _ -> "2")
     | _ -> failwith "cf")

let read_s chunks eof k =
  let cs = if chunks = "-" then [] else
    List.map (fun c -> if c = "P" then Pend else Data (unhex c)) (String.split_on_char ',' chunks) in
  let total = List.length (flat cs) in
  let rec go cs k acc =
    if k = 0 then List.rev acc else
    match read_frame_chunks cs with
    | Some (f, rest) ->
        go rest (k - 1) (Printf.sprintf "Ok %s consumed=%d" (hex f) (total - List.length (flat rest)) :: acc)
    | None -> List.rev ((if eof then "Err" else "Blocked") :: acc) in
  String.concat " | " (go cs k [])

let events_s (evs, left) =
  let buf = Buffer.create 256 in
  let last_r = ref false in
  let sep () = if Buffer.length buf > 0 then Buffer.add_char buf ' ' in
  List.iter (fun e ->
    match e with
    | EvR b -> if !last_r then Buffer.add_string buf (if b = [] then "" else hex b)
               else if b <> [] then begin sep (); Buffer.add_string buf ("R:" ^ hex b); last_r := true end
    | EvW b -> sep (); Buffer.add_string buf ("W:" ^ hex b); last_r := false
    | EvY (i, v) -> sep (); Buffer.add_string buf ("Y:" ^ string_of_n i ^ show_value v); last_r := false
    | EvErr -> sep (); Buffer.add_string buf "Y:Err"; last_r := false) evs;
  Buffer.contents buf ^ " left=" ^ string_of_int (List.length left)

let seq_s name input script =
  match run_seq_named (coq_string name) input script with
  | None -> "NoSuchSequenceOrBadInput"
  | Some r -> events_s r

(* upload: files given as id:hexcontent,... ; the announcement is printed canonically *)
let upload_s files block password script =
  let fl = if files = "-" then [] else
    List.map (fun s -> match String.split_on_char ':' s with
                       | [i; c] -> (n_of_string i, unhex c) | _ -> failwith "file") (String.split_on_char ',' files) in
  match run_upload_named fl (n_of_string block) (n_of_string password) script with
  | None -> "ModelError"
  | Some (evs, left) ->
      let man = "W:manifest pw=" ^ password ^ " [" ^
        String.concat ";" (List.map (fun (i, c) -> "(" ^ string_of_n i ^ "," ^ string_of_int (List.length c) ^ ")")
                             (List.sort compare (List.map (fun (i, c) -> (i, c)) fl)
                              |> List.sort (fun (a, _) (b, _) -> compare (int_of_n a) (int_of_n b)))) ^ "]" in
      let evs' = match evs with EvW _ :: r -> r | l -> l in
      let body = events_s (evs', left) in
      (match evs with EvW _ :: _ -> man ^ (if body = "" then "" else " " ^ body) | _ -> body)

(* ---------- client histories ---------- *)
let utf8_cps (s : string) : n list =
  (* a Rust String: its Unicode scalar values (decoded with the model's own UTF-8 decoder) *)
  let bytes = List.init (String.length s) (fun i -> n_of_int (Char.code s.[i])) in
  match utf8_dec bytes with Some cps -> cps | None -> bytes
let string_of_bytes_hex h = String.concat "" (List.map (fun b -> String.make 1 (Char.chr (int_of_n b))) (unhex h))
let show_text (s : string) =
  String.map (fun c -> if (c >= 'a' && c <= 'z') || (c >= 'A' && c <= 'Z') || (c >= '0' && c <= '9')
                          || String.contains "-_.:()/=," c then c else '_') s
let ocaml_string (s : Model.string) : string =
  let b = Buffer.create 32 in
  let rec go = function
    | EmptyString -> ()
    | String (Ascii (b0, b1, b2, b3, b4, b5, b6, b7), r) ->
        let v x k = if x then 1 lsl k else 0 in
        Buffer.add_char b (Char.chr (v b0 0 + v b1 1 + v b2 2 + v b3 3 + v b4 4 + v b5 5 + v b6 6 + v b7 7)); go r in
  go s; Buffer.contents b
let cps_text (l : n list) = String.concat "" (List.map (fun c -> String.make 1 (Char.chr (int_of_n c land 255))) l)

let parse_cfg (s : string) : config =
  let z = ZA.of_int in
  let serial = ref [] and tid = ref [] and cur = ref (z 978) and amount = ref (z 2500) and rct = ref (z 15) and pw = ref (z 0) and mx = ref (z 1) in
  List.iter (fun kv ->
    match String.split_on_char '=' kv with
    | ["serial"; v] -> serial := utf8_cps (string_of_bytes_hex v)
    | ["tid"; v] -> tid := utf8_cps v
    | ["cur"; v] -> cur := ZA.of_string v
    | ["amount"; v] -> amount := ZA.of_string v
    | ["rct"; v] -> rct := ZA.of_string v
    | ["pw"; v] -> pw := ZA.of_string v
    | ["max"; v] -> mx := ZA.of_string v
    | _ -> failwith ("config " ^ kv)) (String.split_on_char ';' s);
  { c_serial = !serial; c_terminal_id = !tid; c_currency = n_of_z !cur; c_amount = n_of_z !amount;
    c_read_card_timeout = n_of_z !rct; c_password = n_of_z !pw; c_max = n_of_z !mx }

let parse_ops (s : string) : op list =
  if s = "-" then [] else
  List.map (fun o ->
    match String.split_on_char ':' o with
    | ["configure"] -> OConfigure
    | ["read_card"] -> OReadCard
    | ["begin"; t] -> OBegin (utf8_cps (string_of_bytes_hex t))
    | ["cancel"; t] -> OCancel (utf8_cps (string_of_bytes_hex t))
    | ["commit"; t; a] -> OCommit (utf8_cps (string_of_bytes_hex t), n_of_string a)
    | _ -> failwith ("op " ^ o)) (String.split_on_char ';' s)

let parse_scripts (s : string) : cscript list =
  if s = "-" then [] else
  List.map (fun c ->
    if c = "refused" then { cs_refused = true; cs_chunks = []; cs_close = false; cs_silent = false }
    else if c = "silent" then { cs_refused = false; cs_chunks = []; cs_close = false; cs_silent = true } else begin
      let close = ref false in
      let chunks = List.filter_map (fun item ->
        match item with
        | "S" | "" -> close := false; None
        | "C" -> close := true; None
        | _ -> (match String.index_opt item ':' with
                | Some k ->
                    let d = String.sub item 0 k and h = String.sub item (k + 1) (String.length item - k - 1) in
                    Some ((if d = "N" then None else Some (n_of_string d)), unhex h)
                | None -> failwith "chunk")) (String.split_on_char ',' c) in
      { cs_refused = false; cs_chunks = chunks; cs_close = !close; cs_silent = false }
    end) (String.split_on_char '|' s)

let err_text = function
  | EActiveMax -> "Err:Active:max" | EActiveInUse -> "Err:Active:inuse" | EUnknownToken -> "Err:UnknownToken"
  | ENoCard -> "Err:NoCard" | ENeedsPin -> "Err:NeedsPin" | EUnexpectedPacket -> "Err:UnexpectedPacket"
  | EAborted c -> "Err:Zvt:Aborted:" ^ string_of_n c
  | EIncomplete -> "Err:Zvt:IncompleteData"
  | EUnknownCode c -> "Err:Msg:" ^ show_text (Printf.sprintf "Unknown error code: 0x%X" (int_of_n c))
  | EUnhandled c ->
      let msg = try (let ((_, _), m) = List.find (fun ((k, _), _) -> int_of_n k = int_of_n c) error_table in ocaml_string m)
                with Not_found -> "?" in
      "Err:Msg:" ^ show_text ("Unhandled error: " ^ msg)
  | EUnknownCardType -> "Err:Msg:" ^ show_text "Unknown card type"
  | EParseTid -> "Err:Msg:" ^ show_text "invalid digit found in string"
  | ETidTooLong -> "Err:Msg:" ^ show_text "The terminal id has more than eight digits"
  | EWrongDevice -> "Err:Io:NotConnected"

let opt_n f = function Some x -> f x | None -> "-"
let opres_text = function
  | PUnit (ROk _) -> "Ok"
  | PUnit (RErr e) | PCard (RErr e) | PSummary (RErr e) -> err_text e
  | PCard (ROk CBank) -> "Ok:Bank"
  | PCard (ROk (CMember id)) -> "Ok:Member:" ^ show_text (cps_text id)
  | PSummary (ROk m) ->
      let txt l = String.concat "" (List.map (fun c -> String.make 1 (Char.chr (int_of_n c))) l) in
      Printf.sprintf "Ok:tid=%s,amount=%s,trace=%s,date=%s,time=%s"
        (opt_n txt m.m_tid) (opt_n string_of_n m.m_amount) (opt_n string_of_n m.m_trace)
        (opt_n txt m.m_date) (opt_n txt m.m_time)

let event_text = function
  | EOpen (id, t) -> Printf.sprintf "O%s@%s" (string_of_n id) (string_of_n t)
  | ERefused t -> "X@" ^ string_of_n t
  | EWrite (id, t, b) -> Printf.sprintf "W%s@%s:%s" (string_of_n id) (string_of_n t) (hex b)
  | EDrop (id, t) -> Printf.sprintf "D%s@%s" (string_of_n id) (string_of_n t)

let client_s cfg ops scripts =
  match feig_history (parse_cfg cfg) (parse_ops ops) (parse_scripts scripts) with
  | None -> "new:Err:Msg:" ^ show_text "Configuration value out of range"       (* Feig::new returned an error: no client *)
  | Some (((tnew, rs), _), w) ->
  let results = ("new@" ^ string_of_n tnew) ::
    List.map (fun ((r, t0), dt) -> Printf.sprintf "%s@%s+%s" (opres_text r) (string_of_n t0) (string_of_n dt)) rs in
  Printf.sprintf "%s || %s || T=%s" (String.concat ";" results)
    (String.concat " " (List.rev_map event_text w.w_log)) (string_of_n w.w_now)

let wr_s len =
  let w =
    if len = 0 then (match run_enc (coq_string "zvt::packets::Ack") (VRec []) with Some (Ok b) -> b | _ -> failwith "ack")
    else (match run_enc (coq_string "zvt::packets::PrintLine")
                  (VRec [VInt (n_of_int 65); VStr (List.init (len - 1) (fun _ -> n_of_int 66))]) with
          | Some (Ok b) -> b | _ -> failwith "printline") in
  let hdr = hex (List.filteri (fun i _ -> i < 5) w) in
  let r = read_s (hex (w @ [n_of_int 0xde; n_of_int 0xad])) true 1 in
  let r = if String.length r > 60 then String.sub r 0 20 ^ ".." ^ String.sub r (String.length r - 30) 30 else r in
  Printf.sprintf "wrote=%d hdr=%s %s" (List.length w) (String.sub hdr 0 (min 10 (String.length hdr))) r

let () =
  let ic = if Array.length Sys.argv > 1 && Sys.argv.(1) <> "-" then open_in Sys.argv.(1) else stdin in
  let oc = if Array.length Sys.argv > 2 then open_out Sys.argv.(2) else stdout in
  let emit s = output_string oc s; output_char oc '\n' in
  (try
    while true do
      let line = input_line ic in
      if line <> "" && line.[0] <> '#' then begin
        let f = Array.of_list (String.split_on_char '\t' line) in
        match f.(0) with
        | "len_ser" -> emit (len_ser_s f.(1) (n_of_string f.(2)))
        | "len_ser_range" ->
            let a = int_of_string f.(2) and b = int_of_string f.(3) in
            for k = a to b do emit (len_ser_s f.(1) (n_of_int k)) done
        | "len_de" -> emit (len_de_s f.(1) (unhex f.(2)))
        | "len_de_all" ->
            let k = int_of_string f.(2) in
            let suffix = unhex f.(3) in
            for i = 0 to (1 lsl (8 * k)) - 1 do
              let bs = List.init k (fun j -> n_of_int ((i lsr (8 * (k - 1 - j))) land 255)) in
              emit (len_de_s f.(1) (bs @ suffix))
            done
        | "client" -> emit (client_s f.(1) f.(2) f.(3))
        | "ldec" -> emit (ldec_s f.(1) f.(2) (unhex f.(3)))
        | "canon" -> emit (canon_s f.(1) (unhex f.(2)))
        | "lcanon" -> emit (lcanon_s f.(1) f.(2) (unhex f.(3)))
        | "seq" -> emit (seq_s f.(1) (unhex f.(2)) (unhex f.(3)))
        | "uploadm" -> emit (upload_s f.(1) f.(2) f.(3) (unhex f.(4)))
        | "wr_range" -> for k = int_of_string f.(1) to int_of_string f.(2) do emit (wr_s k) done
        | "read" -> emit (read_s f.(1) (f.(2) = "eof") (int_of_string f.(3)))
        | "dec_all" | "enum_all" ->
            let g = if f.(0) = "dec_all" then dec_s else enum_s in
            let prefix = unhex f.(2) in
            all_strings (int_of_string f.(3)) [] (fun bs -> emit (g f.(1) (prefix @ bs)))
        | "enum_cf_all" ->
            let body = unhex f.(2) in
            for c = 0 to 255 do for i = 0 to 255 do
              emit (enum_s f.(1) (n_of_int c :: n_of_int i :: n_of_int (List.length body) :: body))
            done done
        | "dec_trunc" | "enum_trunc" ->
            let g = if f.(0) = "dec_trunc" then dec_s else enum_s in
            let bs = Array.of_list (unhex f.(2)) in
            for k = 0 to Array.length bs - 1 do emit (g f.(1) (Array.to_list (Array.sub bs 0 k))) done
        | "dec_subst" | "enum_subst" ->
            let g = if f.(0) = "dec_subst" then dec_s else enum_s in
            let bs = Array.of_list (unhex f.(2)) in
            for off = 0 to Array.length bs - 1 do
              for v = 0 to 255 do
                let b2 = Array.copy bs in
                b2.(off) <- n_of_int v;
                emit (g f.(1) (Array.to_list b2))
              done
            done
        | "dec" -> emit (dec_s f.(1) (unhex f.(2)))
        | "enum" -> emit (enum_s f.(1) (unhex f.(2)))
        | "p_enc" -> emit (p_enc_s f.(1) f.(2) (parse_prim_value f.(3)))
        | "p_dec" -> emit (p_dec_s f.(1) f.(2) (unhex f.(3)))
        | "p_enc_range" ->
            let a = ZA.of_string f.(3) and b = ZA.of_string f.(4) in
            let k = ref a in
            while ZA.leq !k b do emit (p_enc_s f.(1) f.(2) (VInt (n_of_z !k))); k := ZA.succ !k done
        | "p_dec_all" -> all_strings (int_of_string f.(3)) [] (fun bs -> emit (p_dec_s f.(1) f.(2) bs))
        | "tag_enc" -> emit (tag_enc_s (f.(1) = "1") (n_of_string f.(2)))
        | "tag_enc_all" -> for t = 0 to 65535 do emit (tag_enc_s (f.(1) = "1") (n_of_int t)) done
        | "tag_dec" -> emit (tag_dec_s (f.(1) = "1") (unhex f.(2)))
        | "tag_dec_all" ->
            all_strings (int_of_string f.(2)) (unhex f.(3)) (fun bs -> emit (tag_dec_s (f.(1) = "1") bs))
        | other -> failwith ("unknown case kind " ^ other)
      end
    done
  with End_of_file -> ());
  close_out oc
