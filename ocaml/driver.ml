(* driver.ml — runs the extracted Coq model on a case file and prints one canonical result
   line per case (same text as the Rust harness prints for the implementation). *)
module ZA = Z
open Model
module String = Stdlib.String
module List = Stdlib.List
type string = Stdlib.String.t

let rec pos_of_z (z : ZA.t) : positive =
  if ZA.equal z ZA.one then XH
  else if ZA.testbit z 0 then XI (pos_of_z (ZA.shift_right z 1))
  else XO (pos_of_z (ZA.shift_right z 1))
let n_of_z (z : ZA.t) : n = if ZA.sign z = 0 then N0 else Npos (pos_of_z z)
let rec z_of_pos = function
  | XH -> ZA.one
  | XO p -> ZA.shift_left (z_of_pos p) 1
  | XI p -> ZA.succ (ZA.shift_left (z_of_pos p) 1)
let z_of_n = function N0 -> ZA.zero | Npos p -> z_of_pos p
let n_of_int i = n_of_z (ZA.of_int i)
let int_of_n x = ZA.to_int (z_of_n x)
let n_of_string s = n_of_z (ZA.of_string s)
let string_of_n x = ZA.to_string (z_of_n x)

let hex (bs : n list) : string =
  if bs = [] then "-" else String.concat "" (List.map (fun b -> Printf.sprintf "%02x" (int_of_n b)) bs)
let unhex (s : string) : n list =
  if s = "-" then [] else
  List.init (String.length s / 2) (fun i -> n_of_int (int_of_string ("0x" ^ String.sub s (2*i) 2)))

let err_s = function
  | IncompleteData -> "Err IncompleteData"
  | NonImplemented -> "Err NonImplemented"
  | WrongTag t -> "Err WrongTag:" ^ string_of_n t
  | DuplicateTag t -> "Err DuplicateTag:" ^ string_of_n t
  | MissingRequiredTags ts -> "Err MissingRequiredTags:" ^ String.concat "," (List.map string_of_n ts)
  | Aborted c -> "Err Aborted:" ^ string_of_n c

let res_s (f : 'a -> string) = function
  | Ok a -> "Ok " ^ f a
  | Err e -> err_s e
  | Panic -> "Panic"
  | OutOfFuel -> "Hang"

let style_of_string s =
  match String.split_on_char ':' s with
  | ["Empty"] -> LEmpty
  | ["Tlv"] -> LTlv
  | ["Adpu"] -> LAdpu
  | ["Temperature"] -> LTemperature
  | ["Llv"; d] -> LLlv (n_of_string d)
  | ["Fixed"; k] -> LFixed (n_of_string k)
  | _ -> failwith ("style " ^ s)

let len_ser_s style nn = res_s hex (len_ser (style_of_string style) nn)
let len_de_s style bs =
  res_s (fun (k, r) -> string_of_n k ^ " " ^ hex r) (len_de (style_of_string style) bs)

let z_of_coqz = function Z0 -> ZA.zero | Zpos p -> z_of_pos p | Zneg p -> ZA.neg (z_of_pos p)
let coqz_of_z (z : ZA.t) = if ZA.sign z = 0 then Z0 else if ZA.sign z > 0 then Zpos (pos_of_z z) else Zneg (pos_of_z (ZA.neg z))

let enc_of_string = function
  | "Default" -> EDefault | "BigEndian" -> EBigEndian | "Bcd" -> EBcd | "Hex" -> EHex
  | "Utf8" -> EUtf8 | "Custom" -> ECustom | "ReceiptNo" -> EReceiptNo
  | s -> failwith ("enc " ^ s)
let prim_of_string = function
  | "u8" -> PInt (n_of_int 1) | "u16" -> PInt (n_of_int 2) | "u32" -> PInt (n_of_int 4)
  | "u64" | "usize" -> PInt (n_of_int 8)
  | "String" -> PString | "DateTime" -> PDateTime | "Bytes" -> PBytes
  | s -> failwith ("prim " ^ s)

let show_str (s : n list) =
  if s = [] then "s:-" else "s:" ^ String.concat "." (List.map (fun c -> Printf.sprintf "%x" (int_of_n c)) s)
let parse_str (v : string) : n list =
  let body = String.sub v 2 (String.length v - 2) in
  if body = "-" then [] else List.map (fun c -> n_of_int (int_of_string ("0x" ^ c))) (String.split_on_char '.' body)

let rec show_value = function
  | VInt k -> string_of_n k
  | VStr s -> show_str s
  | VBytes b -> "[" ^ String.concat ";" (List.map string_of_n b) ^ "]"
  | VDate (y, mo, d, h, mi, s) ->
      Printf.sprintf "d:%s,%s,%s,%s,%s,%s" (ZA.to_string (z_of_coqz y)) (string_of_n mo) (string_of_n d)
        (string_of_n h) (string_of_n mi) (string_of_n s)
  | VNone -> "None"
  | VSome v -> "Some(" ^ show_value v ^ ")"
  | VList l -> "[" ^ String.concat ";" (List.map show_value l) ^ "]"
  | VRec l -> "{" ^ String.concat ";" (List.map show_value l) ^ "}"

let parse_prim_value (v : string) : value =
  if String.length v >= 2 && v.[1] = ':' then begin
    match v.[0] with
    | 's' -> VStr (parse_str v)
    | 'b' -> VBytes (unhex (String.sub v 2 (String.length v - 2)))
    | 'd' ->
        (match String.split_on_char ',' (String.sub v 2 (String.length v - 2)) with
         | [y; mo; d; h; mi; s] ->
             VDate (coqz_of_z (ZA.of_string y), n_of_string mo, n_of_string d, n_of_string h, n_of_string mi, n_of_string s)
         | _ -> failwith "date")
    | _ -> failwith ("value " ^ v)
  end else VInt (n_of_string v)

let p_enc_s e p v = res_s hex (prim_enc (enc_of_string e) (prim_of_string p) v)
let p_dec_s e p bs =
  res_s (fun (v, r) -> show_value v ^ " " ^ hex r) (prim_dec (enc_of_string e) (prim_of_string p) bs)
let tag_enc_s big t = "Ok " ^ hex (tag_enc big t)
let tag_dec_s big bs = res_s (fun (t, r) -> string_of_n t ^ " " ^ hex r) (tag_dec big bs)
let all_strings k suffix (f : n list -> unit) =
  for i = 0 to (1 lsl (8 * k)) - 1 do
    f (List.init k (fun j -> n_of_int ((i lsr (8 * (k - 1 - j))) land 255)) @ suffix)
  done

let rec nat_of_int k = if k <= 0 then O else S (nat_of_int (k - 1))

let coq_string (s : string) : Model.string =
  let n = String.length s in
  let rec go i =
    if i = n then EmptyString
    else begin
      let c = Char.code s.[i] in
      let b k = (c lsr k) land 1 = 1 in
      String (Ascii (b 0, b 1, b 2, b 3, b 4, b 5, b 6, b 7), go (i + 1))
    end in
  go 0

let dec_s name bs =
  match run_dec (coq_string name) bs with
  | None -> "NoSuchType"
  | Some (r, re) ->
      (match r with
       | Ok (v, rem) ->
           "Ok " ^ show_value v ^ " rem=" ^ hex rem ^ " re=" ^
           (match re with Ok b -> hex b | Panic -> "Panic" | OutOfFuel -> "Hang" | Err e -> "Model" ^ err_s e)
       | Err e -> err_s e
       | Panic -> "Panic"
       | OutOfFuel -> "Hang")

let enum_s name bs =
  match run_enum (coq_string name) bs with
  | None -> "NoSuchType"
  | Some r -> res_s (fun (i, v) -> string_of_n i ^ " " ^ show_value v) r

(* runtime layouts (C12: randomly generated structs): tokens
     fields := "[" field* "]" ;  field := "F" TAG LS ENC ty ;  ty := "P" prim | "O" ty | "V" ty | "S" fields *)
let parse_layout (s : string) : field list =
  let toks = ref (List.filter (fun t -> t <> "") (String.split_on_char ' ' s)) in
  let next () = match !toks with t :: r -> toks := r; t | [] -> failwith "layout: eof" in
  let peek () = match !toks with t :: _ -> t | [] -> "" in
  let rec fields () =
    if next () <> "[" then failwith "layout: [";
    let acc = ref [] in
    while peek () <> "]" do acc := field () :: !acc done;
    ignore (next ());
    List.rev !acc
  and field () =
    if next () <> "F" then failwith "layout: F";
    let tag = next () in
    let ls = style_of_string (next ()) in
    let e = enc_of_string (next ()) in
    let t = ty () in
    Fld (coq_string "f", (if tag = "-" then None else Some (n_of_string tag)), ls, e, t)
  and ty () =
    match next () with
    | "P" -> TPrim (prim_of_string (next ()))
    | "O" -> TOpt (ty ())
    | "V" -> TVec (ty ())
    | "S" -> TStruct (fields ())
    | t -> failwith ("layout: ty " ^ t) in
  fields ()

let ldec_s cf layout bs =
  let fs = parse_layout layout in
  let fuel = nat_of_int 64 in
  let r, re =
    if cf = "-" then
      (let r = dec_plain fuel fs bs in (r, match r with Ok (v, _) -> enc_struct fs v | _ -> Err NonImplemented))
    else
      (match String.split_on_char ',' cf with
       | [c; i] ->
           let cm = { c_class = n_of_string c; c_instr = n_of_string i; c_fields = fs } in
           let r = dec_cmd fuel cm bs in (r, match r with Ok (v, _) -> enc_cmd cm v | _ -> Err NonImplemented)
       | _ -> failwith "cf") in
  match r with
  | Ok (v, rem) ->
      "Ok " ^ show_value v ^ " rem=" ^ hex rem ^ " re=" ^
      (match re with Ok b -> hex b | Panic -> "Panic" | OutOfFuel -> "Hang" | Err e -> "Model" ^ err_s e)
  | Err e -> err_s e
  | Panic -> "Panic"
  | OutOfFuel -> "Hang"

let read_s chunks eof k =
  let cs = if chunks = "-" then [] else
    List.map (fun c -> if c = "P" then Pend else Data (unhex c)) (String.split_on_char ',' chunks) in
  let total = List.length (flat cs) in
  let rec go cs k acc =
    if k = 0 then List.rev acc else
    match read_frame_chunks cs with
    | Some (f, rest) ->
        go rest (k - 1) (Printf.sprintf "Ok %s consumed=%d" (hex f) (total - List.length (flat rest)) :: acc)
    | None -> List.rev ((if eof then "Err" else "Blocked") :: acc) in
  String.concat " | " (go cs k [])

let events_s (evs, left) =
  let buf = Buffer.create 256 in
  let last_r = ref false in
  let sep () = if Buffer.length buf > 0 then Buffer.add_char buf ' ' in
  List.iter (fun e ->
    match e with
    | EvR b -> if !last_r then Buffer.add_string buf (if b = [] then "" else hex b)
               else if b <> [] then begin sep (); Buffer.add_string buf ("R:" ^ hex b); last_r := true end
    | EvW b -> sep (); Buffer.add_string buf ("W:" ^ hex b); last_r := false
    | EvY (i, v) -> sep (); Buffer.add_string buf ("Y:" ^ string_of_n i ^ show_value v); last_r := false
    | EvErr -> sep (); Buffer.add_string buf "Y:Err"; last_r := false) evs;
  Buffer.contents buf ^ " left=" ^ string_of_int (List.length left)

let seq_s name input script =
  match run_seq_named (coq_string name) input script with
  | None -> "NoSuchSequenceOrBadInput"
  | Some r -> events_s r

(* upload: files given as id:hexcontent,... ; the announcement is printed canonically *)
let upload_s files block password script =
  let fl = if files = "-" then [] else
    List.map (fun s -> match String.split_on_char ':' s with
                       | [i; c] -> (n_of_string i, unhex c) | _ -> failwith "file") (String.split_on_char ',' files) in
  match run_upload_named fl (n_of_string block) (n_of_string password) script with
  | None -> "ModelError"
  | Some (evs, left) ->
      let man = "W:manifest pw=" ^ password ^ " [" ^
        String.concat ";" (List.map (fun (i, c) -> "(" ^ string_of_n i ^ "," ^ string_of_int (List.length c) ^ ")")
                             (List.sort compare (List.map (fun (i, c) -> (i, c)) fl)
                              |> List.sort (fun (a, _) (b, _) -> compare (int_of_n a) (int_of_n b)))) ^ "]" in
      let evs' = match evs with EvW _ :: r -> r | l -> l in
      let body = events_s (evs', left) in
      (match evs with EvW _ :: _ -> man ^ (if body = "" then "" else " " ^ body) | _ -> body)

let wr_s len =
  let w =
    if len = 0 then (match run_enc (coq_string "zvt::packets::Ack") (VRec []) with Some (Ok b) -> b | _ -> failwith "ack")
    else (match run_enc (coq_string "zvt::packets::PrintLine")
                  (VRec [VInt (n_of_int 65); VStr (List.init (len - 1) (fun _ -> n_of_int 66))]) with
          | Some (Ok b) -> b | _ -> failwith "printline") in
  let hdr = hex (List.filteri (fun i _ -> i < 5) w) in
  let r = read_s (hex (w @ [n_of_int 0xde; n_of_int 0xad])) true 1 in
  let r = if String.length r > 60 then String.sub r 0 20 ^ ".." ^ String.sub r (String.length r - 30) 30 else r in
  Printf.sprintf "wrote=%d hdr=%s %s" (List.length w) (String.sub hdr 0 (min 10 (String.length hdr))) r

let () =
  let ic = if Array.length Sys.argv > 1 && Sys.argv.(1) <> "-" then open_in Sys.argv.(1) else stdin in
  let oc = if Array.length Sys.argv > 2 then open_out Sys.argv.(2) else stdout in
  let emit s = output_string oc s; output_char oc '\n' in
  (try
    while true do
      let line = input_line ic in
      if line <> "" && line.[0] <> '#' then begin
        let f = Array.of_list (String.split_on_char '\t' line) in
        match f.(0) with
        | "len_ser" -> emit (len_ser_s f.(1) (n_of_string f.(2)))
        | "len_ser_range" ->
            let a = int_of_string f.(2) and b = int_of_string f.(3) in
            for k = a to b do emit (len_ser_s f.(1) (n_of_int k)) done
        | "len_de" -> emit (len_de_s f.(1) (unhex f.(2)))
        | "len_de_all" ->
            let k = int_of_string f.(2) in
            let suffix = unhex f.(3) in
            for i = 0 to (1 lsl (8 * k)) - 1 do
              let bs = List.init k (fun j -> n_of_int ((i lsr (8 * (k - 1 - j))) land 255)) in
              emit (len_de_s f.(1) (bs @ suffix))
            done
        | "ldec" -> emit (ldec_s f.(1) f.(2) (unhex f.(3)))
        | "seq" -> emit (seq_s f.(1) (unhex f.(2)) (unhex f.(3)))
        | "uploadm" -> emit (upload_s f.(1) f.(2) f.(3) (unhex f.(4)))
        | "wr_range" -> for k = int_of_string f.(1) to int_of_string f.(2) do emit (wr_s k) done
        | "read" -> emit (read_s f.(1) (f.(2) = "eof") (int_of_string f.(3)))
        | "dec_all" | "enum_all" ->
            let g = if f.(0) = "dec_all" then dec_s else enum_s in
            let prefix = unhex f.(2) in
            all_strings (int_of_string f.(3)) [] (fun bs -> emit (g f.(1) (prefix @ bs)))
        | "enum_cf_all" ->
            let body = unhex f.(2) in
            for c = 0 to 255 do for i = 0 to 255 do
              emit (enum_s f.(1) (n_of_int c :: n_of_int i :: n_of_int (List.length body) :: body))
            done done
        | "dec_trunc" | "enum_trunc" ->
            let g = if f.(0) = "dec_trunc" then dec_s else enum_s in
            let bs = Array.of_list (unhex f.(2)) in
            for k = 0 to Array.length bs - 1 do emit (g f.(1) (Array.to_list (Array.sub bs 0 k))) done
        | "dec_subst" | "enum_subst" ->
            let g = if f.(0) = "dec_subst" then dec_s else enum_s in
            let bs = Array.of_list (unhex f.(2)) in
            for off = 0 to Array.length bs - 1 do
              for v = 0 to 255 do
                let b2 = Array.copy bs in
                b2.(off) <- n_of_int v;
                emit (g f.(1) (Array.to_list b2))
              done
            done
        | "dec" -> emit (dec_s f.(1) (unhex f.(2)))
        | "enum" -> emit (enum_s f.(1) (unhex f.(2)))
        | "p_enc" -> emit (p_enc_s f.(1) f.(2) (parse_prim_value f.(3)))
        | "p_dec" -> emit (p_dec_s f.(1) f.(2) (unhex f.(3)))
        | "p_enc_range" ->
            let a = ZA.of_string f.(3) and b = ZA.of_string f.(4) in
            let k = ref a in
            while ZA.leq !k b do emit (p_enc_s f.(1) f.(2) (VInt (n_of_z !k))); k := ZA.succ !k done
        | "p_dec_all" -> all_strings (int_of_string f.(3)) [] (fun bs -> emit (p_dec_s f.(1) f.(2) bs))
        | "tag_enc" -> emit (tag_enc_s (f.(1) = "1") (n_of_string f.(2)))
        | "tag_enc_all" -> for t = 0 to 65535 do emit (tag_enc_s (f.(1) = "1") (n_of_int t)) done
        | "tag_dec" -> emit (tag_dec_s (f.(1) = "1") (unhex f.(2)))
        | "tag_dec_all" ->
            all_strings (int_of_string f.(2)) (unhex f.(3)) (fun bs -> emit (tag_dec_s (f.(1) = "1") bs))
        | other -> failwith ("unknown case kind " ^ other)
      end
    done
  with End_of_file -> ());
  close_out oc
