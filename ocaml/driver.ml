(* driver.ml — runs the extracted Coq model on a case file and prints one canonical result
   line per case (same text as the Rust harness prints for the implementation). *)
open Model

let rec pos_of_z (z : Z.t) : positive =
  if Z.equal z Z.one then XH
  else if Z.testbit z 0 then XI (pos_of_z (Z.shift_right z 1))
  else XO (pos_of_z (Z.shift_right z 1))
let n_of_z (z : Z.t) : n = if Z.sign z = 0 then N0 else Npos (pos_of_z z)
let rec z_of_pos = function
  | XH -> Z.one
  | XO p -> Z.shift_left (z_of_pos p) 1
  | XI p -> Z.succ (Z.shift_left (z_of_pos p) 1)
let z_of_n = function N0 -> Z.zero | Npos p -> z_of_pos p
let n_of_int i = n_of_z (Z.of_int i)
let int_of_n x = Z.to_int (z_of_n x)
let n_of_string s = n_of_z (Z.of_string s)
let string_of_n x = Z.to_string (z_of_n x)

let hex (bs : n list) : string =
  if bs = [] then "-" else String.concat "" (List.map (fun b -> Printf.sprintf "%02x" (int_of_n b)) bs)
let unhex (s : string) : n list =
  if s = "-" then [] else
  List.init (String.length s / 2) (fun i -> n_of_int (int_of_string ("0x" ^ String.sub s (2*i) 2)))

let err_s = function
  | IncompleteData -> "Err IncompleteData"
  | NonImplemented -> "Err NonImplemented"
  | WrongTag t -> "Err WrongTag:" ^ string_of_n t
  | DuplicateTag t -> "Err DuplicateTag:" ^ string_of_n t
  | MissingRequiredTags ts -> "Err MissingRequiredTags:" ^ String.concat "," (List.map string_of_n ts)
  | Aborted c -> "Err Aborted:" ^ string_of_n c

let res_s (f : 'a -> string) = function
  | Ok a -> "Ok " ^ f a
  | Err e -> err_s e
  | Panic -> "Panic"
  | OutOfFuel -> "Hang"

let style_of_string s =
  match String.split_on_char ':' s with
  | ["Empty"] -> LEmpty
  | ["Tlv"] -> LTlv
  | ["Adpu"] -> LAdpu
  | ["Temperature"] -> LTemperature
  | ["Llv"; d] -> LLlv (n_of_string d)
  | ["Fixed"; k] -> LFixed (n_of_string k)
  | _ -> failwith ("style " ^ s)

let len_ser_s style nn = res_s hex (len_ser (style_of_string style) nn)
let len_de_s style bs =
  res_s (fun (k, r) -> string_of_n k ^ " " ^ hex r) (len_de (style_of_string style) bs)

let () =
  let ic = if Array.length Sys.argv > 1 && Sys.argv.(1) <> "-" then open_in Sys.argv.(1) else stdin in
  let oc = if Array.length Sys.argv > 2 then open_out Sys.argv.(2) else stdout in
  let emit s = output_string oc s; output_char oc '\n' in
  (try
    while true do
      let line = input_line ic in
      if line <> "" && line.[0] <> '#' then begin
        let f = Array.of_list (String.split_on_char '\t' line) in
        match f.(0) with
        | "len_ser" -> emit (len_ser_s f.(1) (n_of_string f.(2)))
        | "len_ser_range" ->
            let a = int_of_string f.(2) and b = int_of_string f.(3) in
            for k = a to b do emit (len_ser_s f.(1) (n_of_int k)) done
        | "len_de" -> emit (len_de_s f.(1) (unhex f.(2)))
        | "len_de_all" ->
            let k = int_of_string f.(2) in
            let suffix = unhex f.(3) in
            for i = 0 to (1 lsl (8 * k)) - 1 do
              let bs = List.init k (fun j -> n_of_int ((i lsr (8 * (k - 1 - j))) land 255)) in
              emit (len_de_s f.(1) (bs @ suffix))
            done
        | other -> failwith ("unknown case kind " ^ other)
      end
    done
  with End_of_file -> ());
  close_out oc
