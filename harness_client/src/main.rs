//! The real Feig client (feature zvt_verif) against a simulated terminal under tokio's paused clock
//! (C07 C08 C09 C10 C18 C19 C20).  One case = configuration, operations, connection scripts; the
//! output is the result of every operation, the per-connection write log with virtual timestamps,
//! open / refuse / drop events and the final virtual time.
use std::collections::VecDeque;
use std::future::Future;
use std::net::Ipv4Addr;
use std::pin::Pin;
use std::sync::{Arc, Mutex};
use std::task::{Context, Poll};
use std::time::Duration;
use tokio::io::{AsyncRead, AsyncWrite, ReadBuf};
use tokio::time::{Instant, Sleep};
use zvt_feig_terminal::config::{Config, FeigConfig};
use zvt_feig_terminal::feig::{CardInfo, Error as FeigError, Feig};
use zvt_feig_terminal::verif_hook::{install_connector, ConnectFuture, Duplex};
use zvt_verif_harness::*;

type Log = Arc<Mutex<Vec<String>>>;

struct Script {
    refused: bool,
    silent: bool, // the connection attempt is never answered
    chunks: Vec<(Option<u64>, Vec<u8>)>, // delay in ms (None = never), bytes
    close: bool,
}

struct Peer {
    id: usize,
    start: Instant,
    queue: VecDeque<(Option<u64>, Vec<u8>)>, // absolute availability in ms
    close: bool,
    buf: Vec<u8>,
    sleep: Option<Pin<Box<Sleep>>>,
    log: Log,
}

fn now_ms(start: Instant) -> u64 {
    Instant::now().duration_since(start).as_millis() as u64
}

impl AsyncRead for Peer {
    fn poll_read(mut self: Pin<&mut Self>, cx: &mut Context<'_>, out: &mut ReadBuf<'_>) -> Poll<std::io::Result<()>> {
        loop {
            if !self.buf.is_empty() {
                let n = std::cmp::min(out.remaining(), self.buf.len());
                out.put_slice(&self.buf[..n]);
                self.buf.drain(..n);
                return Poll::Ready(Ok(()));
            }
            match self.queue.front() {
                None => {
                    return if self.close { Poll::Ready(Ok(())) } else { Poll::Pending };
                }
                Some((None, _)) => return Poll::Pending, // silence for ever
                Some((Some(at), _)) => {
                    let at = *at;
                    if now_ms(self.start) >= at {
                        let (_, b) = self.queue.pop_front().unwrap();
                        self.buf = b;
                        self.sleep = None;
                        continue;
                    }
                    let deadline = self.start + Duration::from_millis(at);
                    let mut s = Box::pin(tokio::time::sleep_until(deadline));
                    match s.as_mut().poll(cx) {
                        Poll::Ready(()) => continue,
                        Poll::Pending => {
                            self.sleep = Some(s);
                            return Poll::Pending;
                        }
                    }
                }
            }
        }
    }
}

impl AsyncWrite for Peer {
    fn poll_write(self: Pin<&mut Self>, _: &mut Context<'_>, buf: &[u8]) -> Poll<std::io::Result<usize>> {
        self.log.lock().unwrap().push(format!("W{}@{}:{}", self.id, now_ms(self.start), hex(buf)));
        Poll::Ready(Ok(buf.len()))
    }
    fn poll_flush(self: Pin<&mut Self>, _: &mut Context<'_>) -> Poll<std::io::Result<()>> {
        Poll::Ready(Ok(()))
    }
    fn poll_shutdown(self: Pin<&mut Self>, _: &mut Context<'_>) -> Poll<std::io::Result<()>> {
        Poll::Ready(Ok(()))
    }
}

impl Drop for Peer {
    fn drop(&mut self) {
        self.log.lock().unwrap().push(format!("D{}@{}", self.id, now_ms(self.start)));
    }
}

fn parse_conns(s: &str) -> Vec<Script> {
    if s == "-" {
        return vec![];
    }
    s.split('|')
        .map(|c| {
            if c == "refused" {
                return Script { refused: true, silent: false, chunks: vec![], close: false };
            }
            if c == "silent" {
                return Script { refused: false, silent: true, chunks: vec![], close: false };
            }
            let mut chunks = Vec::new();
            let mut close = false;
            for item in c.split(',') {
                match item {
                    "S" | "" => close = false,
                    "C" => close = true,
                    _ => {
                        let (d, h) = item.split_once(':').expect("delay:hex");
                        chunks.push((if d == "N" { None } else { Some(d.parse().unwrap()) }, unhex(h)));
                    }
                }
            }
            Script { refused: false, silent: false, chunks, close }
        })
        .collect()
}

fn parse_config(s: &str) -> Config {
    let mut c = Config { terminal_id: String::new(), feig_serial: String::new(), ip_address: Ipv4Addr::new(10, 0, 0, 1),
                         feig_config: FeigConfig::default(), transactions_max_num: 1 };
    for kv in s.split(';') {
        let (k, v) = kv.split_once('=').unwrap();
        match k {
            "serial" => c.feig_serial = String::from_utf8(unhex(v)).unwrap(),
            "tid" => c.terminal_id = v.to_string(),
            "cur" => c.feig_config.currency = v.parse().unwrap(),
            "amount" => c.feig_config.pre_authorization_amount = v.parse().unwrap(),
            "rct" => c.feig_config.read_card_timeout = v.parse().unwrap(),
            "pw" => c.feig_config.password = v.parse().unwrap(),
            "max" => c.transactions_max_num = v.parse().unwrap(),
            _ => panic!("config key {k}"),
        }
    }
    c
}

fn err_s(e: &anyhow::Error) -> String {
    if let Some(f) = e.downcast_ref::<FeigError>() {
        return match f {
            FeigError::UnexpectedPacket => "Err:UnexpectedPacket".into(),
            FeigError::ActiveTransaction(m) => format!("Err:Active:{}", if m.starts_with("Maximum") { "max" } else { "inuse" }),
            FeigError::NoCardPresented => "Err:NoCard".into(),
            FeigError::UnknownToken(_) => "Err:UnknownToken".into(),
            FeigError::NeedsPinEntry => "Err:NeedsPin".into(),
        };
    }
    if let Some(z) = e.downcast_ref::<zvt::ZVTError>() {
        return format!("Err:Zvt:{}", &zerr(z)[4..]);
    }
    if let Some(i) = e.downcast_ref::<std::io::Error>() {
        return format!("Err:Io:{:?}", i.kind());
    }
    let m = e.to_string();
    format!("Err:Msg:{}", show_text(&m))
}

fn show_text(s: &str) -> String {
    s.chars().map(|c| if c.is_ascii_alphanumeric() || "-_.:()/=,".contains(c) { c } else { '_' }).collect()
}

async fn run_op(feig: &mut Feig, op: &str) -> String {
    let f: Vec<&str> = op.split(':').collect();
    let tok = |h: &str| String::from_utf8(unhex(h)).unwrap();
    match f[0] {
        "configure" => match feig.configure().await {
            Ok(()) => "Ok".into(),
            Err(e) => err_s(&e),
        },
        "read_card" => match feig.read_card().await {
            Ok(CardInfo::Bank) => "Ok:Bank".into(),
            Ok(CardInfo::MembershipCard(id)) => format!("Ok:Member:{}", show_text(&id)),
            Err(e) => err_s(&e),
        },
        "begin" => match feig.begin_transaction(&tok(f[1])).await {
            Ok(()) => "Ok".into(),
            Err(e) => err_s(&e),
        },
        "cancel" => match feig.cancel_transaction(&tok(f[1])).await {
            Ok(()) => "Ok".into(),
            Err(e) => err_s(&e),
        },
        "commit" => match feig.commit_transaction(&tok(f[1]), f[2].parse().unwrap()).await {
            Ok(s) => format!(
                "Ok:tid={},amount={},trace={},date={},time={}",
                s.terminal_id.map(|x| show_text(&x)).unwrap_or("-".into()),
                s.amount.map(|x| x.to_string()).unwrap_or("-".into()),
                s.trace_number.map(|x| x.to_string()).unwrap_or("-".into()),
                s.date.map(|x| show_text(&x)).unwrap_or("-".into()),
                s.time.map(|x| show_text(&x)).unwrap_or("-".into())
            ),
            Err(e) => err_s(&e),
        },
        other => panic!("op {other}"),
    }
}

fn run_case(config: &str, ops: &str, conns: &str) -> String {
    let cfg = parse_config(config);
    let scripts = Arc::new(Mutex::new(parse_conns(conns).into_iter().collect::<VecDeque<_>>()));
    let log: Log = Arc::new(Mutex::new(Vec::new()));
    let rt = tokio::runtime::Builder::new_current_thread().enable_time().start_paused(true).build().unwrap();
    let out = rt.block_on(async {
        let start = Instant::now();
        let counter = Arc::new(Mutex::new(0usize));
        {
            let (scripts, log, counter) = (scripts.clone(), log.clone(), counter.clone());
            let attempts = Arc::new(Mutex::new(0usize));
            install_connector(Box::new(move |_addr| -> ConnectFuture {
                let next = scripts.lock().unwrap().pop_front();
                let (log, counter) = (log.clone(), counter.clone());
                let attempts = {
                    let mut a = attempts.lock().unwrap();
                    *a += 1;
                    *a
                };
                Box::pin(async move {
                    if attempts > 5000 {
                        // a client that reconnects without end and without letting (virtual) time pass would spin for ever:
                        // let two days pass instead, so that the per-operation limit reports it as a hang
                        tokio::time::sleep(Duration::from_secs(2 * 86_400)).await;
                    }
                    match next {
                        None => {
                            log.lock().unwrap().push(format!("X@{}", now_ms(start)));
                            Err(std::io::Error::new(std::io::ErrorKind::ConnectionRefused, "no more scripted connections"))
                        }
                        Some(s) if s.refused => {
                            log.lock().unwrap().push(format!("X@{}", now_ms(start)));
                            Err(std::io::Error::new(std::io::ErrorKind::ConnectionRefused, "refused"))
                        }
                        Some(s) if s.silent => {
                            // nobody answers the attempt: it stays pending for ever (the client's own timeout has to end it)
                            log.lock().unwrap().push(format!("X@{}", now_ms(start)));
                            std::future::pending::<()>().await;
                            unreachable!()
                        }
                        Some(s) => {
                            let id = {
                                let mut c = counter.lock().unwrap();
                                *c += 1;
                                *c - 1
                            };
                            let open = now_ms(start);
                            log.lock().unwrap().push(format!("O{}@{}", id, open));
                            let mut at = Some(open);
                            let queue = s
                                .chunks
                                .into_iter()
                                .map(|(d, b)| {
                                    at = match (at, d) {
                                        (Some(a), Some(d)) => Some(a + d),
                                        _ => None,
                                    };
                                    (at, b)
                                })
                                .collect();
                            let p: Box<dyn Duplex> = Box::new(Peer { id, start, queue, close: s.close, buf: vec![], sleep: None, log });
                            Ok(p)
                        }
                    }
                })
            }));
        }
        let mut results = Vec::new();
        let day = Duration::from_secs(86_400);
        // Feig::new runs configure() once and ignores its outcome
        let mut feig = match tokio::time::timeout(day, Feig::new(cfg)).await {
            Ok(Ok(f)) => f,
            Ok(Err(e)) => return format!("new:{}", err_s(&e)),
            Err(_) => return format!("new:Hang || {} || T={}", log.lock().unwrap().join(" "), now_ms(start)),
        };
        results.push(format!("new@{}", now_ms(start)));
        if ops != "-" {
            for op in ops.split(';') {
                let t0 = now_ms(start);
                let r = match tokio::time::timeout(day, run_op(&mut feig, op)).await {
                    Ok(r) => r,
                    Err(_) => "Hang".to_string(),
                };
                results.push(format!("{}@{}+{}", r, t0, now_ms(start) - t0));
                if r == "Hang" {
                    break;
                }
            }
        }
        drop(feig);
        format!("{} || {} || T={}", results.join(";"), log.lock().unwrap().join(" "), now_ms(start))
    });
    out
}

fn main() {
    silence_panics();
    start_watchdog(20); // a case that takes longer in REAL time (the clock is virtual: cases take milliseconds) spins without yielding
    install_logger(); // every log line of the library is evaluated and formatted, as under RUST_LOG=trace
    run_cases(|f, emit| match f[0] {
        // client <config> <ops> <connection scripts>
        "client" => {
            let (c, o, s) = (f[1].to_string(), f[2].to_string(), f[3].to_string());
            emit(guarded(move || run_case(&c, &o, &s)))
        }
        other => panic!("unknown case kind {other}"),
    });
}
