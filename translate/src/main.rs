//! zvt2coq — re-extracts every *table* of /repo's working tree into Coq (coq/gen/*.v), JSON (for the
//! generators) and Rust (dispatch code of the harness):
//!   * the attribute list of every #[derive(Zvt)] struct (layouts, control fields),
//!   * the variant list of every #[derive(ZvtEnum)] enum,
//!   * per `impl Sequence for X`: input type, reply enum, shape of into_stream and its final variants,
//!   * constants of the client and of the upload (path table, error-message table, timeouts).
//! Anything it does not recognise is listed in `unrecognised` (GenCheck.v demands that list be empty).
use std::collections::{BTreeMap, BTreeSet};
use std::fmt::Write as _;
use std::path::{Path, PathBuf};
use syn::parse::{Parse, ParseStream};

mod seqs;

#[derive(Clone, Debug)]
pub struct FieldDef {
    pub name: String,
    pub tag: Option<u64>,
    pub length: String,   // Coq term of type lenstyle
    pub encoding: String, // Coq term of type enc
    pub enc_name: String,
    pub ty: TyRef,
}

#[derive(Clone, Debug)]
pub enum TyRef {
    Prim(String),        // u8 u16 u32 u64 usize String NaiveDateTime
    Bytes,               // Vec<u8> under the Custom encoding
    Opt(Box<TyRef>),
    Vec(Box<TyRef>),
    Struct(String),      // absolute name
    Unknown(String),
}

#[derive(Clone, Debug)]
pub struct StructDef {
    pub abs: String,
    pub control: Option<(u64, u64)>,
    pub fields: Vec<FieldDef>,
    pub has_debug: bool,
    pub public: bool,
}

#[derive(Clone, Debug)]
pub struct EnumDef {
    pub abs: String,
    pub variants: Vec<(String, String)>, // (variant name, absolute struct name)
    pub has_debug: bool,
}

pub struct FileCtx {
    pub module: Vec<String>,
    pub uses: BTreeMap<String, Vec<String>>,
    pub child_mods: BTreeSet<String>,
    pub local_types: BTreeSet<String>,
}

#[derive(Default)]
pub struct World {
    pub structs: Vec<StructDef>,
    pub enums: Vec<EnumDef>,
    pub aliases: BTreeMap<String, String>, // Llv -> LLlv 2
    pub unrecognised: Vec<String>,
    pub seqs: Vec<seqs::SeqDef>,
    pub consts: seqs::Consts,
}

struct KV {
    key: String,
    int: Option<u64>,
    ty: Option<syn::TypePath>,
}
struct KVList(Vec<KV>);
impl Parse for KVList {
    fn parse(s: ParseStream) -> syn::Result<Self> {
        let mut v = Vec::new();
        while !s.is_empty() {
            let ident: syn::Ident = s.parse()?;
            let _: syn::Token![=] = s.parse()?;
            if s.peek(syn::LitInt) {
                let l: syn::LitInt = s.parse()?;
                v.push(KV { key: ident.to_string(), int: Some(l.base10_parse::<u64>()?), ty: None });
            } else {
                let t: syn::TypePath = s.parse()?;
                v.push(KV { key: ident.to_string(), int: None, ty: Some(t) });
            }
            if s.is_empty() {
                break;
            }
            let _: syn::Token![,] = s.parse()?;
        }
        Ok(KVList(v))
    }
}

fn has_derive(attrs: &[syn::Attribute], what: &str) -> bool {
    for a in attrs {
        if a.path().is_ident("derive") {
            let mut found = false;
            let _ = a.parse_nested_meta(|m| {
                if m.path.segments.last().map(|s| s.ident == what).unwrap_or(false) {
                    found = true;
                }
                Ok(())
            });
            if found {
                return true;
            }
        }
    }
    false
}

fn is_cfg_test(attrs: &[syn::Attribute]) -> bool {
    attrs.iter().any(|a| a.path().is_ident("cfg") && quote::quote!(#a).to_string().contains("test"))
}

pub fn resolve(ctx: &FileCtx, segs: &[String]) -> Vec<String> {
    if segs.is_empty() {
        return vec![];
    }
    let mut m = ctx.module.clone();
    let mut i = 0;
    if segs[0] == "crate" {
        return [vec![ctx.module[0].clone()], segs[1..].to_vec()].concat();
    }
    if segs[0] == "self" {
        return [m, segs[1..].to_vec()].concat();
    }
    if segs[0] == "super" {
        while i < segs.len() && segs[i] == "super" {
            m.pop();
            i += 1;
        }
        return [m, segs[i..].to_vec()].concat();
    }
    if ctx.child_mods.contains(&segs[0]) {
        return [m, segs.to_vec()].concat();
    }
    if let Some(p) = ctx.uses.get(&segs[0]) {
        return [p.clone(), segs[1..].to_vec()].concat();
    }
    if segs.len() == 1 && ctx.local_types.contains(&segs[0]) {
        return [m, segs.to_vec()].concat();
    }
    segs.to_vec()
}

fn collect_use(ctx_module: &[String], tree: &syn::UseTree, prefix: Vec<String>, out: &mut BTreeMap<String, Vec<String>>) {
    match tree {
        syn::UseTree::Path(p) => {
            let mut pre = prefix;
            pre.push(p.ident.to_string());
            collect_use(ctx_module, &p.tree, pre, out);
        }
        syn::UseTree::Name(n) => {
            let mut full = prefix;
            let name = n.ident.to_string();
            if name != "self" {
                full.push(name.clone());
            }
            let key = full.last().cloned().unwrap_or(name);
            out.insert(key, full);
        }
        syn::UseTree::Rename(r) => {
            let mut full = prefix;
            full.push(r.ident.to_string());
            out.insert(r.rename.to_string(), full);
        }
        syn::UseTree::Group(g) => {
            for t in &g.items {
                collect_use(ctx_module, t, prefix.clone(), out);
            }
        }
        syn::UseTree::Glob(_) => {}
    }
}

fn normalise_use(module: &[String], p: &[String]) -> Vec<String> {
    // make `crate::x`, `super::x`, `self::x` absolute
    let ctx = FileCtx { module: module.to_vec(), uses: BTreeMap::new(), child_mods: BTreeSet::new(), local_types: BTreeSet::new() };
    if !p.is_empty() && (p[0] == "crate" || p[0] == "super" || p[0] == "self") {
        resolve(&ctx, p)
    } else {
        p.to_vec()
    }
}

fn path_segs(p: &syn::Path) -> Vec<String> {
    p.segments.iter().map(|s| s.ident.to_string()).collect()
}

fn const_arg(seg: &syn::PathSegment) -> Option<u64> {
    if let syn::PathArguments::AngleBracketed(a) = &seg.arguments {
        for g in &a.args {
            match g {
                syn::GenericArgument::Const(syn::Expr::Lit(l)) => {
                    if let syn::Lit::Int(i) = &l.lit {
                        return i.base10_parse().ok();
                    }
                }
                syn::GenericArgument::Type(syn::Type::Path(_)) => {}
                _ => {}
            }
        }
        // `Fixed<3>` parses the 3 as a const expr literal
        let toks = quote::quote!(#a).to_string();
        let digits: String = toks.chars().filter(|c| c.is_ascii_digit()).collect();
        return digits.parse().ok();
    }
    None
}

fn length_term(w: &mut World, tp: &syn::TypePath, whr: &str) -> String {
    let seg = tp.path.segments.last().unwrap();
    let name = seg.ident.to_string();
    match name.as_str() {
        "Empty" => "LEmpty".into(),
        "Tlv" => "LTlv".into(),
        "Adpu" => "LAdpu".into(),
        "Temperature" => "LTemperature".into(),
        "Fixed" => match const_arg(seg) {
            Some(n) => format!("(LFixed {})", n),
            None => {
                w.unrecognised.push(format!("{whr}: Fixed without a literal width"));
                "LEmpty".into()
            }
        },
        "LlvImpl" => match const_arg(seg) {
            Some(n) => format!("(LLlv {})", n),
            None => {
                w.unrecognised.push(format!("{whr}: LlvImpl without a literal width"));
                "LEmpty".into()
            }
        },
        other => {
            if let Some(t) = w.aliases.get(other) {
                t.clone()
            } else {
                w.unrecognised.push(format!("{whr}: unknown length type {other}"));
                "LEmpty".into()
            }
        }
    }
}

fn encoding_term(w: &mut World, tp: &syn::TypePath, whr: &str) -> (String, String) {
    let name = tp.path.segments.last().unwrap().ident.to_string();
    let t = match name.as_str() {
        "Default" => "EDefault",
        "BigEndian" => "EBigEndian",
        "Bcd" => "EBcd",
        "Hex" => "EHex",
        "Utf8" => "EUtf8",
        "Custom" => "ECustom",
        "PartialReversalReceiptNo" => "EReceiptNo",
        other => {
            w.unrecognised.push(format!("{whr}: unknown encoding type {other}"));
            "EDefault"
        }
    };
    (t.to_string(), name)
}

fn type_ref(ctx: &FileCtx, ty: &syn::Type, enc_name: &str) -> TyRef {
    if let syn::Type::Path(tp) = ty {
        let last = tp.path.segments.last().unwrap();
        let id = last.ident.to_string();
        if id == "Option" || id == "Vec" {
            if let syn::PathArguments::AngleBracketed(a) = &last.arguments {
                if let Some(syn::GenericArgument::Type(inner)) = a.args.first() {
                    if id == "Vec" && enc_name == "Custom" {
                        if let syn::Type::Path(ip) = inner {
                            if ip.path.is_ident("u8") {
                                return TyRef::Bytes;
                            }
                        }
                    }
                    let r = type_ref(ctx, inner, enc_name);
                    return if id == "Option" { TyRef::Opt(Box::new(r)) } else { TyRef::Vec(Box::new(r)) };
                }
            }
            return TyRef::Unknown(quote::quote!(#ty).to_string());
        }
        let segs = path_segs(&tp.path);
        if segs.len() == 1 {
            match id.as_str() {
                "u8" | "u16" | "u32" | "u64" | "usize" | "String" => return TyRef::Prim(id),
                _ => {}
            }
        }
        let abs = resolve(ctx, &segs);
        if abs.last().map(|s| s == "NaiveDateTime").unwrap_or(false) {
            return TyRef::Prim("NaiveDateTime".into());
        }
        return TyRef::Struct(abs.join("::"));
    }
    TyRef::Unknown(quote::quote!(#ty).to_string())
}

fn scan_items(w: &mut World, ctx_module: Vec<String>, items: &[syn::Item], file: &Path) {
    let mut ctx = FileCtx { module: ctx_module.clone(), uses: BTreeMap::new(), child_mods: BTreeSet::new(), local_types: BTreeSet::new() };
    for it in items {
        match it {
            syn::Item::Use(u) => {
                let mut m = BTreeMap::new();
                collect_use(&ctx_module, &u.tree, vec![], &mut m);
                for (k, v) in m {
                    ctx.uses.insert(k, normalise_use(&ctx_module, &v));
                }
            }
            syn::Item::Mod(m) => {
                ctx.child_mods.insert(m.ident.to_string());
            }
            syn::Item::Struct(s) => {
                ctx.local_types.insert(s.ident.to_string());
            }
            syn::Item::Enum(e) => {
                ctx.local_types.insert(e.ident.to_string());
            }
            syn::Item::Type(t) => {
                ctx.local_types.insert(t.ident.to_string());
            }
            _ => {}
        }
    }
    for it in items {
        match it {
            syn::Item::Type(t) => {
                // pub type Llv = LlvImpl<2>;
                if let syn::Type::Path(tp) = &*t.ty {
                    let seg = tp.path.segments.last().unwrap();
                    if seg.ident == "LlvImpl" {
                        if let Some(n) = const_arg(seg) {
                            w.aliases.insert(t.ident.to_string(), format!("(LLlv {})", n));
                        }
                    }
                    if seg.ident == "Fixed" {
                        if let Some(n) = const_arg(seg) {
                            w.aliases.insert(t.ident.to_string(), format!("(LFixed {})", n));
                        }
                    }
                }
            }
            syn::Item::Struct(s) if has_derive(&s.attrs, "Zvt") => {
                let abs = [ctx_module.clone(), vec![s.ident.to_string()]].concat().join("::");
                let mut control = None;
                for a in &s.attrs {
                    if a.path().is_ident("zvt_control_field") {
                        if let Ok(kv) = a.parse_args::<KVList>() {
                            let mut c = None;
                            let mut i = None;
                            for k in kv.0 {
                                if k.key == "class" {
                                    c = k.int;
                                }
                                if k.key == "instr" {
                                    i = k.int;
                                }
                            }
                            if let (Some(c), Some(i)) = (c, i) {
                                control = Some((c, i));
                            } else {
                                w.unrecognised.push(format!("{abs}: control field without class/instr"));
                            }
                        } else {
                            w.unrecognised.push(format!("{abs}: unparsable zvt_control_field"));
                        }
                    }
                }
                let mut fields = Vec::new();
                if let syn::Fields::Named(named) = &s.fields {
                    for f in &named.named {
                        let fname = f.ident.as_ref().unwrap().to_string();
                        let whr = format!("{abs}.{fname}");
                        let mut tag = None;
                        let mut length = "LEmpty".to_string();
                        let mut encoding = ("EDefault".to_string(), "Default".to_string());
                        for a in &f.attrs {
                            let an = a.path().get_ident().map(|i| i.to_string()).unwrap_or_default();
                            if an == "zvt_bmp" || an == "zvt_tlv" {
                                if an == "zvt_tlv" {
                                    length = "LTlv".to_string();
                                }
                                match a.parse_args::<KVList>() {
                                    Ok(kv) => {
                                        for k in kv.0 {
                                            match (an.as_str(), k.key.as_str()) {
                                                ("zvt_bmp", "number") | ("zvt_tlv", "tag") => tag = k.int,
                                                ("zvt_bmp", "length") => {
                                                    if let Some(tp) = &k.ty {
                                                        length = length_term(w, tp, &whr);
                                                    }
                                                }
                                                (_, "encoding") => {
                                                    if let Some(tp) = &k.ty {
                                                        encoding = encoding_term(w, tp, &whr);
                                                    }
                                                }
                                                (_, other) => w.unrecognised.push(format!("{whr}: unknown attribute key {other}")),
                                            }
                                        }
                                    }
                                    Err(e) => w.unrecognised.push(format!("{whr}: unparsable attribute: {e}")),
                                }
                            }
                        }
                        let ty = type_ref(&ctx, &f.ty, &encoding.1);
                        if let TyRef::Unknown(t) = &ty {
                            w.unrecognised.push(format!("{whr}: unknown field type {t}"));
                        }
                        fields.push(FieldDef { name: fname, tag, length, encoding: encoding.0, enc_name: encoding.1, ty });
                    }
                } else {
                    w.unrecognised.push(format!("{abs}: not a named struct"));
                }
                w.structs.push(StructDef {
                    abs,
                    control,
                    fields,
                    has_debug: has_derive(&s.attrs, "Debug"),
                    public: matches!(s.vis, syn::Visibility::Public(_)),
                });
            }
            syn::Item::Enum(e) if has_derive(&e.attrs, "ZvtEnum") => {
                let abs = [ctx_module.clone(), vec![e.ident.to_string()]].concat().join("::");
                let mut variants = Vec::new();
                for v in &e.variants {
                    if let syn::Fields::Unnamed(u) = &v.fields {
                        if let Some(syn::Type::Path(tp)) = u.unnamed.first().map(|f| &f.ty) {
                            let target = resolve(&ctx, &path_segs(&tp.path)).join("::");
                            variants.push((v.ident.to_string(), target));
                            continue;
                        }
                    }
                    w.unrecognised.push(format!("{abs}::{}: not a one-element tuple variant", v.ident));
                }
                w.enums.push(EnumDef { abs, variants, has_debug: has_derive(&e.attrs, "Debug") });
            }
            syn::Item::Impl(im) => {
                seqs::scan_impl(w, &ctx, im);
            }
            syn::Item::Mod(m) if !is_cfg_test(&m.attrs) => {
                if let Some((_, inner)) = &m.content {
                    let mut sub = ctx_module.clone();
                    sub.push(m.ident.to_string());
                    scan_items(w, sub, inner, file);
                }
            }
            _ => {}
        }
    }
    seqs::scan_consts(w, &ctx, items, file);
}

fn module_of(crate_name: &str, src_root: &Path, file: &Path) -> Vec<String> {
    let rel = file.strip_prefix(src_root).unwrap();
    let mut m = vec![crate_name.to_string()];
    let comps: Vec<String> = rel.components().map(|c| c.as_os_str().to_string_lossy().to_string()).collect();
    for (i, c) in comps.iter().enumerate() {
        if i + 1 == comps.len() {
            let stem = c.trim_end_matches(".rs");
            if stem != "mod" && stem != "lib" && stem != "main" {
                m.push(stem.to_string());
            }
        } else {
            m.push(c.clone());
        }
    }
    m
}

fn walk(dir: &Path, out: &mut Vec<PathBuf>) {
    let mut es: Vec<_> = std::fs::read_dir(dir).unwrap().map(|e| e.unwrap().path()).collect();
    es.sort();
    for p in es {
        if p.is_dir() {
            walk(&p, out);
        } else if p.extension().map(|e| e == "rs").unwrap_or(false) {
            out.push(p);
        }
    }
}

pub fn coq_str(s: &str) -> String {
    format!("\"{}\"%string", s.replace('"', "\"\""))
}

fn prim_term(p: &str) -> String {
    match p {
        "u8" => "(TPrim (PInt 1))".into(),
        "u16" => "(TPrim (PInt 2))".into(),
        "u32" => "(TPrim (PInt 4))".into(),
        "u64" | "usize" => "(TPrim (PInt 8))".into(),
        "String" => "(TPrim PString)".into(),
        "NaiveDateTime" => "(TPrim PDateTime)".into(),
        _ => "(TPrim PString)".into(),
    }
}

fn ident_of(abs: &str) -> String {
    format!("S_{}", abs.replace("::", "_"))
}

fn ty_term(w: &World, t: &TyRef, unrec: &mut Vec<String>, whr: &str) -> String {
    match t {
        TyRef::Prim(p) => prim_term(p),
        TyRef::Bytes => "(TPrim PBytes)".into(),
        TyRef::Opt(i) => format!("(TOpt {})", ty_term(w, i, unrec, whr)),
        TyRef::Vec(i) => format!("(TVec {})", ty_term(w, i, unrec, whr)),
        TyRef::Struct(abs) => {
            if w.structs.iter().any(|s| &s.abs == abs) {
                format!("(TStruct {})", ident_of(abs))
            } else {
                unrec.push(format!("{whr}: field type {abs} is not a #[derive(Zvt)] struct"));
                "(TStruct [])".into()
            }
        }
        TyRef::Unknown(_) => "(TStruct [])".into(),
    }
}

fn ty_json(w: &World, t: &TyRef) -> String {
    match t {
        TyRef::Prim(p) => format!("{{\"k\":\"prim\",\"p\":\"{}\"}}", p),
        TyRef::Bytes => "{\"k\":\"prim\",\"p\":\"Bytes\"}".into(),
        TyRef::Opt(i) => format!("{{\"k\":\"opt\",\"t\":{}}}", ty_json(w, i)),
        TyRef::Vec(i) => format!("{{\"k\":\"vec\",\"t\":{}}}", ty_json(w, i)),
        TyRef::Struct(abs) => match w.structs.iter().find(|s| &s.abs == abs) {
            Some(s) => format!("{{\"k\":\"struct\",\"name\":\"{}\",\"fields\":{}}}", abs, fields_json(w, s)),
            None => format!("{{\"k\":\"unknown\",\"name\":\"{}\"}}", abs),
        },
        TyRef::Unknown(u) => format!("{{\"k\":\"unknown\",\"name\":\"{}\"}}", u.replace('"', "'")),
    }
}

fn fields_json(w: &World, s: &StructDef) -> String {
    let mut v = Vec::new();
    for f in &s.fields {
        v.push(format!(
            "{{\"name\":\"{}\",\"tag\":{},\"length\":\"{}\",\"encoding\":\"{}\",\"ty\":{}}}",
            f.name,
            f.tag.map(|t| t.to_string()).unwrap_or("null".into()),
            f.length.trim_matches(|c| c == '(' || c == ')'),
            f.enc_name,
            ty_json(w, &f.ty)
        ));
    }
    format!("[{}]", v.join(","))
}

/// structs in dependency order (a nested struct before its user)
fn topo(w: &World) -> Vec<usize> {
    fn deps(t: &TyRef, out: &mut Vec<String>) {
        match t {
            TyRef::Opt(i) | TyRef::Vec(i) => deps(i, out),
            TyRef::Struct(a) => out.push(a.clone()),
            _ => {}
        }
    }
    let mut done: Vec<usize> = Vec::new();
    let mut state = vec![0u8; w.structs.len()];
    fn visit(i: usize, w: &World, state: &mut Vec<u8>, done: &mut Vec<usize>) {
        if state[i] != 0 {
            return;
        }
        state[i] = 1;
        let mut d = Vec::new();
        for f in &w.structs[i].fields {
            deps(&f.ty, &mut d);
        }
        for a in d {
            if let Some(j) = w.structs.iter().position(|s| s.abs == a) {
                if state[j] == 0 {
                    visit(j, w, state, done);
                }
            }
        }
        state[i] = 2;
        done.push(i);
    }
    for i in 0..w.structs.len() {
        visit(i, w, &mut state, &mut done);
    }
    done
}

fn write_if_changed(path: &Path, content: &str) {
    if let Ok(old) = std::fs::read_to_string(path) {
        if old == content {
            return;
        }
    }
    if let Some(p) = path.parent() {
        std::fs::create_dir_all(p).unwrap();
    }
    std::fs::write(path, content).unwrap();
}

/// `zvt2coq --scan <crate name> <src dir> <out json>`: layouts of an arbitrary crate (the randomly
/// generated derive_gen programs of C12) as JSON only.
fn scan_only(args: &[String]) {
    let (krate, root, out) = (&args[2], PathBuf::from(&args[3]), PathBuf::from(&args[4]));
    let mut w = World::default();
    w.aliases.insert("Llv".into(), "(LLlv 2)".into());
    w.aliases.insert("Lllv".into(), "(LLlv 3)".into());
    let mut files = Vec::new();
    walk(&root, &mut files);
    for f in files {
        let src = std::fs::read_to_string(&f).unwrap();
        match syn::parse_file(&src) {
            Ok(ast) => scan_items(&mut w, module_of(krate, &root, &f), &ast.items, &f),
            Err(e) => w.unrecognised.push(format!("{}: does not parse: {e}", f.display())),
        }
    }
    let mut j = String::new();
    j.push_str("{\"structs\":[");
    j.push_str(
        &w.structs
            .iter()
            .map(|s| {
                format!(
                    "{{\"name\":\"{}\",\"control\":{},\"debug\":{},\"fields\":{}}}",
                    s.abs,
                    s.control.map(|(c, i)| format!("[{},{}]", c, i)).unwrap_or("null".into()),
                    s.has_debug,
                    fields_json(&w, s)
                )
            })
            .collect::<Vec<_>>()
            .join(",\n"),
    );
    j.push_str(&format!(
        "],\n\"unrecognised\":[{}]}}\n",
        w.unrecognised.iter().map(|u| format!("\"{}\"", u.replace('\\', "/").replace('"', "'"))).collect::<Vec<_>>().join(",")
    ));
    std::fs::write(out, j).unwrap();
}

fn main() {
    let args: Vec<String> = std::env::args().collect();
    if args.get(1).map(|s| s == "--scan").unwrap_or(false) {
        return scan_only(&args);
    }
    let repo = PathBuf::from(args.get(1).map(|s| s.as_str()).unwrap_or("/repo"));
    let verif = PathBuf::from(args.get(2).map(|s| s.as_str()).unwrap_or("/verif"));
    let mut w = World::default();

    for (krate, dir) in [("zvt_builder", "zvt_builder/src"), ("zvt", "zvt/src"), ("zvt_feig_terminal", "zvt_feig_terminal/src")] {
        let root = repo.join(dir);
        let mut files = Vec::new();
        walk(&root, &mut files);
        for f in files {
            let src = std::fs::read_to_string(&f).unwrap();
            match syn::parse_file(&src) {
                Ok(ast) => {
                    let module = module_of(krate, &root, &f);
                    scan_items(&mut w, module, &ast.items, &f);
                }
                Err(e) => w.unrecognised.push(format!("{}: does not parse: {e}", f.display())),
            }
        }
    }

    seqs::apply_probe(&mut w);

    // ---------------------------------------------------------------- Coq: Layouts.v
    let mut unrec = w.unrecognised.clone();
    let order = topo(&w);
    let mut v = String::new();
    writeln!(v, "(* GENERATED by zvt2coq from /repo's working tree on every check. Do not edit, do not commit. *)").unwrap();
    writeln!(v, "From Zvt Require Import Base Length Cp437 Encoding Codec.\nOpen Scope N_scope.\n").unwrap();
    for &i in &order {
        let s = &w.structs[i];
        writeln!(v, "Definition {} : list field := [", ident_of(&s.abs)).unwrap();
        let mut lines = Vec::new();
        for f in &s.fields {
            let whr = format!("{}.{}", s.abs, f.name);
            lines.push(format!(
                "  Fld {} {} {} {} {}",
                coq_str(&f.name),
                f.tag.map(|t| format!("(Some {})", t)).unwrap_or("None".into()),
                f.length,
                f.encoding,
                ty_term(&w, &f.ty, &mut unrec, &whr)
            ));
        }
        writeln!(v, "{}].\n", lines.join(";\n")).unwrap();
    }
    writeln!(v, "(* name, control field, fields *)").unwrap();
    writeln!(v, "Definition structs : list (string * option (N * N) * list field) := [").unwrap();
    let mut lines = Vec::new();
    for s in &w.structs {
        lines.push(format!(
            "  ({}, {}, {})",
            coq_str(&s.abs),
            s.control.map(|(c, i)| format!("Some ({}, {})", c, i)).unwrap_or("None".into()),
            ident_of(&s.abs)
        ));
    }
    writeln!(v, "{}].\n", lines.join(";\n")).unwrap();
    writeln!(v, "Definition enums : list (string * list variant) := [").unwrap();
    let mut lines = Vec::new();
    for e in &w.enums {
        let mut vs = Vec::new();
        for (vn, target) in &e.variants {
            match w.structs.iter().find(|s| &s.abs == target) {
                Some(s) if s.control.is_some() => {
                    let (c, i) = s.control.unwrap();
                    vs.push(format!(
                        "({}, {{| c_class := {}; c_instr := {}; c_fields := {} |}})",
                        coq_str(vn), c, i, ident_of(&s.abs)
                    ));
                }
                _ => unrec.push(format!("{}::{}: variant type {} is not a command struct", e.abs, vn, target)),
            }
        }
        lines.push(format!("  ({}, [{}])", coq_str(&e.abs), vs.join(";\n     ")));
    }
    writeln!(v, "{}].\n", lines.join(";\n")).unwrap();
    write_if_changed(&verif.join("coq/gen/Layouts.v"), &v);

    // ---------------------------------------------------------------- Coq: Tables.v (sequences, constants)
    let t = seqs::emit_coq(&w, &mut unrec);
    let mut t2 = t;
    writeln!(t2, "Definition unrecognised : list string := [{}].", unrec.iter().map(|u| coq_str(u)).collect::<Vec<_>>().join(";\n  ")).unwrap();
    write_if_changed(&verif.join("coq/gen/Tables.v"), &t2);

    // ---------------------------------------------------------------- JSON
    let mut j = String::new();
    j.push_str("{\"structs\":[");
    j.push_str(
        &w.structs
            .iter()
            .map(|s| {
                format!(
                    "{{\"name\":\"{}\",\"control\":{},\"debug\":{},\"fields\":{}}}",
                    s.abs,
                    s.control.map(|(c, i)| format!("[{},{}]", c, i)).unwrap_or("null".into()),
                    s.has_debug,
                    fields_json(&w, s)
                )
            })
            .collect::<Vec<_>>()
            .join(",\n"),
    );
    j.push_str("],\n\"enums\":[");
    j.push_str(
        &w.enums
            .iter()
            .map(|e| {
                format!(
                    "{{\"name\":\"{}\",\"variants\":[{}]}}",
                    e.abs,
                    e.variants.iter().map(|(a, b)| format!("[\"{}\",\"{}\"]", a, b)).collect::<Vec<_>>().join(",")
                )
            })
            .collect::<Vec<_>>()
            .join(",\n"),
    );
    j.push_str("],\n");
    j.push_str(&seqs::emit_json(&w));
    j.push_str(&format!(
        "\"unrecognised\":[{}]}}\n",
        unrec.iter().map(|u| format!("\"{}\"", u.replace('\\', "/").replace('"', "'"))).collect::<Vec<_>>().join(",")
    ));
    write_if_changed(&verif.join(".cache/gen/layouts.json"), &j);

    // ---------------------------------------------------------------- Rust dispatch for the harness
    let mut r = String::new();
    writeln!(r, "// GENERATED by zvt2coq. Do not edit, do not commit.").unwrap();
    writeln!(r, "pub fn dispatch_struct(name: &str, bs: &[u8]) -> Option<String> {{\n    Some(match name {{").unwrap();
    for s in &w.structs {
        if s.has_debug && s.public {
            writeln!(r, "        \"{}\" => run_struct::<{}>(bs),", s.abs, s.abs).unwrap();
        }
    }
    writeln!(r, "        _ => return None,\n    }})\n}}\n").unwrap();
    writeln!(r, "pub fn dispatch_enum(name: &str, bs: &[u8]) -> Option<String> {{\n    Some(match name {{").unwrap();
    for e in &w.enums {
        writeln!(r, "        \"{}\" => match <{} as zvt_builder::ZvtParser>::zvt_parse(bs) {{", e.abs, e.abs).unwrap();
        writeln!(r, "            Err(e) => zerr(&e),").unwrap();
        for (i, (vn, _)) in e.variants.iter().enumerate() {
            writeln!(r, "            Ok({}::{}(p)) => show_variant({}, &p),", e.abs, vn, i).unwrap();
        }
        writeln!(r, "        }},").unwrap();
    }
    writeln!(r, "        _ => return None,\n    }})\n}}").unwrap();
    write_if_changed(&verif.join("harness/src/gen_dispatch.rs"), &r);

    // ---------------------------------------------------------------- Rust dispatch for the sequence harness
    let mut q = String::new();
    writeln!(q, "// GENERATED by zvt2coq. Do not edit, do not commit.").unwrap();
    for e in &w.enums {
        if !e.has_debug {
            continue;
        }
        writeln!(q, "#[allow(dead_code)]\npub fn show_{}(v: &{}) -> String {{\n    match v {{", e.abs.replace("::", "_"), e.abs).unwrap();
        for (i, (vn, _)) in e.variants.iter().enumerate() {
            writeln!(q, "        {}::{}(p) => show_variant({}, p),", e.abs, vn, i).unwrap();
        }
        writeln!(q, "    }}\n}}\n").unwrap();
    }
    writeln!(q, "pub async fn dispatch_seq<S>(name: &str, input: &[u8], pt: &mut zvt::io::PacketTransport<S>, log: &Log) -> Option<()>\nwhere\n    S: tokio::io::AsyncRead + tokio::io::AsyncWrite + Unpin + Send,\n{{\n    use futures::StreamExt;\n    use zvt::sequences::Sequence;\n    match name {{").unwrap();
    for sq in &w.seqs {
        if sq.abs.contains("::test::") {
            continue;
        }
        writeln!(q, "        \"{}\" => {{", sq.abs).unwrap();
        writeln!(q, "            let (inp, _) = <{} as zvt_builder::ZvtSerializer>::zvt_deserialize(input).ok()?;", sq.input).unwrap();
        writeln!(q, "            let mut st = <{} as Sequence>::into_stream(&inp, pt);", sq.abs).unwrap();
        writeln!(q, "            while let Some(item) = st.next().await {{\n                match item {{\n                    Ok(v) => push(log, format!(\"Y:{{}}\", show_{}(&v))),\n                    Err(_) => push(log, \"Y:Err\".to_string()),\n                }}\n            }}", sq.output.replace("::", "_")).unwrap();
        writeln!(q, "        }}").unwrap();
    }
    writeln!(q, "        _ => return None,\n    }}\n    Some(())\n}}").unwrap();
    write_if_changed(&verif.join("harness/src/gen_seq_dispatch.rs"), &q);

    for u in &unrec {
        eprintln!("unrecognised: {u}");
    }
    println!(
        "zvt2coq: {} structs, {} enums, {} sequences, {} unrecognised",
        w.structs.len(),
        w.enums.len(),
        w.seqs.len(),
        unrec.len()
    );
}
