//! Sequence tables (impl Sequence for X), constants, the error-message table, the upload path table.
use crate::{coq_str, resolve, FileCtx, World};
use std::collections::BTreeMap;
use std::fmt::Write as _;
use std::path::Path;
use syn::visit::Visit;

#[derive(Clone, Debug)]
pub enum Mode {
    Single,
    Loop(Vec<String>),
    Unrecognised(String),
}

#[derive(Clone, Debug)]
pub struct SeqDef {
    pub abs: String,
    pub input: String,
    pub output: String,
    pub mode: Mode,
}

#[derive(Default)]
pub struct Consts {
    pub nums: Vec<(String, u64)>,
    pub strs: Vec<(String, String)>,
    pub error_codes: Vec<(String, u64)>,
    pub error_msgs: Vec<(String, String)>,
    pub upload_paths: Vec<(String, u64)>,
    pub default_stream_ok: Option<bool>,
    pub currencies: Vec<(String, u64)>,
    /// sequences whose shape was not recognised in the source and was taken from the observation file (ZVT2COQ_PROBE)
    pub probed: Vec<String>,
}

/// every token separated by exactly one blank, punctuation split into single characters
fn norm(ts: &proc_macro2::TokenStream) -> String {
    fn go(ts: proc_macro2::TokenStream, out: &mut Vec<String>) {
        for t in ts {
            match t {
                proc_macro2::TokenTree::Group(g) => {
                    let (o, c) = match g.delimiter() {
                        proc_macro2::Delimiter::Parenthesis => ("(", ")"),
                        proc_macro2::Delimiter::Brace => ("{", "}"),
                        proc_macro2::Delimiter::Bracket => ("[", "]"),
                        proc_macro2::Delimiter::None => ("", ""),
                    };
                    if !o.is_empty() {
                        out.push(o.into());
                    }
                    go(g.stream(), out);
                    if !c.is_empty() {
                        out.push(c.into());
                    }
                }
                proc_macro2::TokenTree::Punct(p) => out.push(p.as_char().to_string()),
                other => out.push(other.to_string()),
            }
        }
    }
    let mut v = Vec::new();
    go(ts.clone(), &mut v);
    v.join(" ")
}

/// finds the token stream handed to `try_stream!` inside a function body
struct MacroFinder {
    name: &'static str,
    found: Vec<proc_macro2::TokenStream>,
}
impl<'ast> Visit<'ast> for MacroFinder {
    fn visit_macro(&mut self, m: &'ast syn::Macro) {
        if m.path.segments.last().map(|s| s.ident == self.name).unwrap_or(false) {
            self.found.push(m.tokens.clone());
        }
        syn::visit::visit_macro(self, m);
    }
}

const ACK: &str = r"src \. write_packet (?:: : < packets :: Ack > )?\( & packets :: Ack \{ \} \) \. await \? ;";

/// Hand-rolled matcher (no regex crate offline): checks the normalised token string of a
/// `try_stream!` body against the loop shape and returns the final variants.
fn match_loop_shape(body: &str) -> Result<Vec<String>, String> {
    let mut s = body.trim();
    let eat = |s: &mut &str, lit: &str| -> bool {
        if s.starts_with(lit) {
            *s = s[lit.len()..].trim_start();
            true
        } else {
            false
        }
    };
    if !eat(&mut s, "src . write_packet_with_ack ( input ) . await ? ;") {
        return Err("does not start with write_packet_with_ack(input)".into());
    }
    if !eat(&mut s, "loop {") {
        return Err("no loop".into());
    }
    if !eat(&mut s, "let ") {
        return Err("no let".into());
    }
    let var: String = s.chars().take_while(|c| c.is_alphanumeric() || *c == '_').collect();
    s = s[var.len()..].trim_start();
    if !eat(&mut s, "= src . read_packet ( ) . await ? ;") {
        return Err("read is not `let p = src.read_packet().await?`".into());
    }
    if !(eat(&mut s, "src . write_packet ( & packets : : Ack { } ) . await ? ;")
        || eat(&mut s, "src . write_packet : : < packets : : Ack > ( & packets : : Ack { } ) . await ? ;"))
    {
        return Err("the read is not followed by an unconditional acknowledgement".into());
    }
    let parse_pats = |pats: &str| -> Result<Vec<String>, String> {
        let mut finals = Vec::new();
        for p in pats.split('|') {
            let p = p.trim();
            if p.is_empty() {
                continue;
            }
            if !p.ends_with("( _ )") {
                return Err(format!("pattern `{p}` is not Variant(_)"));
            }
            let path = p[..p.len() - 5].trim();
            finals.push(path.rsplit(": :").next().unwrap().trim().to_string());
        }
        Ok(finals)
    };
    if !s.starts_with(&format!("match {var} {{")) {
        // the equivalent shape `let last = matches!(p, A(_) | B(_)); yield p; if last { break; }`
        if eat(&mut s, "let ") {
            let flag: String = s.chars().take_while(|c| c.is_alphanumeric() || *c == '_').collect();
            s = s[flag.len()..].trim_start();
            if eat(&mut s, &format!("= matches ! ( {var} ,")) {
                let close = s.find(") ;").ok_or("unterminated matches!")?;
                let finals = parse_pats(&s[..close])?;
                s = s[close + 3..].trim_start();
                if eat(&mut s, &format!("yield {var} ; if {flag} {{ break ; }}")) && eat(&mut s, "}") && s.is_empty() {
                    return Ok(finals);
                }
                return Err("matches! shape: not `yield p; if last { break; }`".into());
            }
        }
        return Err("no match on the packet".into());
    }
    if !eat(&mut s, &format!("match {var} {{")) {
        return Err("no match on the packet".into());
    }
    // patterns up to `=>`
    let arrow = s.find("= >").ok_or("no arm")?;
    let pats = s[..arrow].trim().to_string();
    s = s[arrow + 3..].trim_start();
    let mut finals = Vec::new();
    for p in pats.split('|') {
        let p = p.trim();
        if p.is_empty() {
            continue;
        }
        if !p.ends_with("( _ )") {
            return Err(format!("pattern `{p}` is not Variant(_)"));
        }
        let path = p[..p.len() - 5].trim();
        let v = path.rsplit(": :").next().unwrap().trim().to_string();
        finals.push(v);
    }
    if !eat(&mut s, &format!("{{ yield {var} ; break ; }}")) {
        return Err("final arm is not `{ yield p; break; }`".into());
    }
    let _ = eat(&mut s, ",");
    if !eat(&mut s, &format!("_ = > yield {var} ,")) && !eat(&mut s, &format!("_ = > yield {var}")) {
        return Err("other arm is not `_ => yield p`".into());
    }
    if !eat(&mut s, "}") || !eat(&mut s, "}") {
        return Err("trailing tokens in loop".into());
    }
    let _ = ACK;
    if !s.is_empty() {
        return Err(format!("trailing tokens after loop: {s}"));
    }
    Ok(finals)
}

fn match_single_shape(body: &str) -> bool {
    let b = body.trim();
    b == "src . write_packet_with_ack ( input ) . await ? ; let packet = src . read_packet ( ) . await ? ; src . write_packet : : < packets : : Ack > ( & packets : : Ack { } ) . await ? ; yield packet ;"
        || b == "src . write_packet_with_ack ( input ) . await ? ; let packet = src . read_packet ( ) . await ? ; src . write_packet ( & packets : : Ack { } ) . await ? ; yield packet ;"
}

pub fn scan_impl(w: &mut World, ctx: &FileCtx, im: &syn::ItemImpl) {
    let Some((_, tr, _)) = &im.trait_ else { return };
    let tname = tr.segments.last().unwrap().ident.to_string();
    if tname != "Sequence" {
        return;
    }
    // `impl<St: ?Sized> ResetSequence for St` is filtered by name above; skip test doubles
    let syn::Type::Path(tp) = &*im.self_ty else { return };
    let self_abs = resolve(ctx, &tp.path.segments.iter().map(|s| s.ident.to_string()).collect::<Vec<_>>()).join("::");
    let mut input = String::new();
    let mut output = String::new();
    let mut mode = Mode::Single;
    for it in &im.items {
        match it {
            syn::ImplItem::Type(t) => {
                if let syn::Type::Path(p) = &t.ty {
                    let abs = resolve(ctx, &p.path.segments.iter().map(|s| s.ident.to_string()).collect::<Vec<_>>()).join("::");
                    if t.ident == "Input" {
                        input = abs;
                    } else if t.ident == "Output" {
                        output = abs;
                    }
                }
            }
            syn::ImplItem::Macro(_) => {
                // items produced by a macro (possibly into_stream itself): the shape cannot be read here
                mode = Mode::Unrecognised("the impl contains a macro invocation".into());
            }
            syn::ImplItem::Fn(f) if f.sig.ident == "into_stream" => {
                let mut mf = MacroFinder { name: "try_stream", found: vec![] };
                mf.visit_block(&f.block);
                // the function must be exactly `let s = try_stream! { .. }; Box::pin(s)`
                let outer = norm(&quote::quote!(#f).into());
                let tail_ok = outer.ends_with("} ; Box : : pin ( s ) }");
                if mf.found.len() != 1 || !tail_ok {
                    mode = Mode::Unrecognised("into_stream is not `let s = try_stream!{..}; Box::pin(s)`".into());
                } else {
                    let body = norm(&mf.found[0]);
                    if std::env::var("ZVT2COQ_DEBUG").is_ok() {
                        eprintln!("BODY[{}]: {}", self_abs, body);
                    }
                    mode = match match_loop_shape(&body) {
                        Ok(f) => Mode::Loop(f),
                        Err(e) => {
                            if match_single_shape(&body) {
                                Mode::Single
                            } else {
                                Mode::Unrecognised(e)
                            }
                        }
                    };
                }
            }
            _ => {}
        }
    }
    w.seqs.push(SeqDef { abs: self_abs, input, output, mode });
}

struct ConstFinder<'a> {
    prefix: String,
    out: &'a mut Consts,
}

thread_local! {
    /// numeric `const NAME: T = <literal expression>;` items of the file being scanned: a constant used by name counts as its value
    static CONST_ENV: std::cell::RefCell<BTreeMap<String, u64>> = std::cell::RefCell::new(BTreeMap::new());
}

fn lit_u64(e: &syn::Expr) -> Option<u64> {
    match e {
        syn::Expr::Lit(l) => match &l.lit {
            syn::Lit::Int(i) => i.base10_parse().ok(),
            _ => None,
        },
        syn::Expr::Path(p) if p.path.segments.len() == 1 => {
            let name = p.path.segments[0].ident.to_string();
            CONST_ENV.with(|m| m.borrow().get(&name).copied())
        }
        syn::Expr::Reference(r) => lit_u64(&r.expr),
        syn::Expr::Call(c) => {
            // Some(0x10) / Duration::from_secs(60) / Duration::from_millis(60_000): durations count in seconds
            if c.args.len() == 1 {
                let callee = match &*c.func {
                    syn::Expr::Path(p) => p.path.segments.last().map(|s| s.ident.to_string()).unwrap_or_default(),
                    _ => String::new(),
                };
                match (callee.as_str(), lit_u64(&c.args[0])) {
                    ("from_millis", Some(n)) if n % 1000 == 0 => Some(n / 1000),
                    ("from_millis", _) | ("from_micros", _) | ("from_nanos", _) => None,
                    (_, n) => n,
                }
            } else {
                None
            }
        }
        syn::Expr::MethodCall(m) if m.args.is_empty() => lit_u64(&m.receiver),
        syn::Expr::Paren(p) => lit_u64(&p.expr),
        syn::Expr::Cast(c) => lit_u64(&c.expr),
        _ => None,
    }
}

impl<'a> ConstFinder<'a> {
    fn pair(&mut self, k: String, n: u64) {
        if self.prefix == "zvt_feig_terminal::config" && k.len() == 3 && k.chars().all(|c| c.is_ascii_uppercase()) {
            if !self.out.currencies.iter().any(|(x, _)| *x == k) {
                self.out.currencies.push((k, n));
            }
        } else if self.prefix == "zvt::feig::sequences" && (k.contains('/') || k.contains('.')) {
            if !self.out.upload_paths.iter().any(|(x, _)| *x == k) {
                self.out.upload_paths.push((k, n));
            }
        }
    }
}

impl<'ast, 'a> Visit<'ast> for ConstFinder<'a> {
    fn visit_item_const(&mut self, c: &'ast syn::ItemConst) {
        let name = format!("{}::{}", self.prefix, c.ident);
        if let syn::Expr::Lit(l) = &*c.expr {
            if let syn::Lit::Str(s) = &l.lit {
                self.out.strs.push((name, s.value()));
                return;
            }
        }
        if let Some(n) = lit_u64(&c.expr) {
            self.out.nums.push((name, n));
        }
        syn::visit::visit_item_const(self, c);
    }
    fn visit_item_fn(&mut self, f: &'ast syn::ItemFn) {
        // const fn currency() -> usize { 978 }   and the like: single-literal bodies
        if f.block.stmts.len() == 1 {
            if let syn::Stmt::Expr(e, None) = &f.block.stmts[0] {
                if let Some(n) = lit_u64(e) {
                    self.out.nums.push((format!("{}::{}()", self.prefix, f.sig.ident), n));
                }
            }
        }
        syn::visit::visit_item_fn(self, f);
    }
    fn visit_item_mod(&mut self, m: &'ast syn::ItemMod) {
        let is_test = m.attrs.iter().any(|a| a.path().is_ident("cfg") && quote::quote!(#a).to_string().contains("test"));
        if !is_test {
            syn::visit::visit_item_mod(self, m);
        }
    }
    fn visit_item_enum(&mut self, e: &'ast syn::ItemEnum) {
        if e.ident == "ErrorMessages" {
            for v in &e.variants {
                if let Some((_, d)) = &v.discriminant {
                    if let Some(n) = lit_u64(d) {
                        self.out.error_codes.push((v.ident.to_string(), n));
                    }
                }
            }
        }
    }
    fn visit_item_trait(&mut self, t: &'ast syn::ItemTrait) {
        if t.ident == "Sequence" {
            let mut mf = MacroFinder { name: "try_stream", found: vec![] };
            mf.visit_item_trait(t);
            self.out.default_stream_ok = Some(mf.found.len() == 1 && match_single_shape(&norm(&mf.found[0])));
        }
        // constants inside trait default methods (throttle / take of ResetSequence::into_stream)
        syn::visit::visit_item_trait(self, t);
    }
    fn visit_expr_tuple(&mut self, t: &'ast syn::ExprTuple) {
        // tables kept as lists of pairs, wherever they live in the file: ("EUR", 978) in the configuration module (ISO 4217),
        // ("firmware/kernel.gz", 0x10) / (PathBuf::from("firmware/kernel.gz"), 0x10) in the upload module
        if t.elems.len() == 2 {
            fn first_str(e: &syn::Expr) -> Option<String> {
                match e {
                    syn::Expr::Lit(l) => match &l.lit {
                        syn::Lit::Str(s) => Some(s.value()),
                        _ => None,
                    },
                    syn::Expr::Call(c) => c.args.first().and_then(first_str),
                    syn::Expr::MethodCall(m) => first_str(&m.receiver),
                    syn::Expr::Reference(r) => first_str(&r.expr),
                    syn::Expr::Paren(p) => first_str(&p.expr),
                    _ => None,
                }
            }
            if let (Some(k), Some(n)) = (first_str(&t.elems[0]), lit_u64(&t.elems[1])) {
                self.pair(k, n);
            }
        }
        syn::visit::visit_expr_tuple(self, t);
    }
    fn visit_arm(&mut self, a: &'ast syn::Arm) {
        if let syn::Pat::Lit(l) = &a.pat {
            if let syn::Lit::Str(k) = &l.lit {
                if let Some(n) = lit_u64(&a.body) {
                    self.pair(k.value(), n);
                }
            }
        }
                
        // the text of a result code, wherever the crate keeps it: an arm `Self::X => "text"` or `Self::X => write!(f, "text")`
        // (in `impl Display`, or in a helper that `Display` calls) inside the module that defines ErrorMessages
        if self.prefix == "zvt::constants" {
            fn names(p: &syn::Pat, out: &mut Vec<String>) {
                match p {
                    syn::Pat::Path(p) if p.path.segments.len() == 2 => out.push(p.path.segments[1].ident.to_string()),
                    syn::Pat::Or(o) => o.cases.iter().for_each(|c| names(c, out)),
                    _ => {}
                }
            }
            fn text(e: &syn::Expr) -> Option<String> {
                match e {
                    syn::Expr::Lit(l) => match &l.lit {
                        syn::Lit::Str(s) => Some(s.value()),
                        _ => None,
                    },
                    syn::Expr::Macro(m) => {
                        let toks: Vec<proc_macro2::TokenTree> = m.mac.tokens.clone().into_iter().collect();
                        match toks.last() {
                            Some(proc_macro2::TokenTree::Literal(l)) => match syn::parse_str::<syn::Lit>(&l.to_string()) {
                                Ok(syn::Lit::Str(s)) => Some(s.value()),
                                _ => None,
                            },
                            _ => None,
                        }
                    }
                    syn::Expr::Paren(p) => text(&p.expr),
                    syn::Expr::Block(b) if b.block.stmts.len() == 1 => match &b.block.stmts[0] {
                        syn::Stmt::Expr(e, _) => text(e),
                        _ => None,
                    },
                    _ => None,
                }
            }
            let mut ns = vec![];
            names(&a.pat, &mut ns);
            if let Some(t) = text(&a.body) {
                for n in ns {
                    if !self.out.error_msgs.iter().any(|(k, _)| *k == n) {
                        self.out.error_msgs.push((n, t.clone()));
                    }
                }
            }
        }
        syn::visit::visit_arm(self, a);
    }
    fn visit_expr_method_call(&mut self, m: &'ast syn::ExprMethodCall) {
        let name = m.method.to_string();
        if (name == "take" || name == "throttle") && m.args.len() == 1 {
            if let Some(n) = lit_u64(&m.args[0]) {
                self.out.nums.push((format!("{}::.{}", self.prefix, name), n));
            }
        }
        syn::visit::visit_expr_method_call(self, m);
    }
}

pub fn scan_consts(w: &mut World, ctx: &FileCtx, items: &[syn::Item], _file: &Path) {
    // only called once per module level; nested inline modules are reached by the visitor itself,
    // so only run for file-level item lists (module path == file module)
    let prefix = ctx.module.join("::");
    if !(prefix.starts_with("zvt_feig_terminal") || prefix.starts_with("zvt::constants") || prefix.starts_with("zvt::feig::sequences") || prefix == "zvt::sequences") {
        return;
    }
    // first pass: the file's own numeric constants (to a fixed point, so that one constant may name another)
    struct Collect(Vec<(String, syn::Expr)>);
    impl<'ast> Visit<'ast> for Collect {
        fn visit_item_const(&mut self, c: &'ast syn::ItemConst) {
            self.0.push((c.ident.to_string(), (*c.expr).clone()));
        }
        fn visit_impl_item_const(&mut self, c: &'ast syn::ImplItemConst) {
            self.0.push((c.ident.to_string(), c.expr.clone()));
        }
    }
    let mut col = Collect(vec![]);
    for it in items {
        col.visit_item(it);
    }
    CONST_ENV.with(|m| m.borrow_mut().clear());
    for _ in 0..4 {
        for (name, e) in &col.0 {
            if let Some(n) = lit_u64(e) {
                CONST_ENV.with(|m| m.borrow_mut().insert(name.clone(), n));
            }
        }
    }
    let mut cf = ConstFinder { prefix, out: &mut w.consts };
    for it in items {
        if !matches!(it, syn::Item::Mod(_)) {
            cf.visit_item(it);
        }
    }
}

/// Shapes the source does not show in a form the recogniser knows may be supplied by OBSERVATION: the file named by ZVT2COQ_PROBE
/// holds one line per sequence, `<sequence>\t<final variant>,<final variant>,..`, measured by tools/vlib.py on the real code
/// (which replies end the exchange).  Only unrecognised shapes are filled in; recognised ones are never overridden.
pub fn apply_probe(w: &mut World) {
    // sequences without an into_stream of their own run the trait's default body: if THAT is not recognised, their shape is not
    // known from the source either
    if w.consts.default_stream_ok != Some(true) {
        for s in w.seqs.iter_mut() {
            if let Mode::Single = s.mode {
                s.mode = Mode::Unrecognised("uses the trait's default into_stream, whose body is not recognised".into());
            }
        }
    }
    let Ok(path) = std::env::var("ZVT2COQ_PROBE") else { return };
    let Ok(text) = std::fs::read_to_string(&path) else { return };
    for line in text.lines() {
        if let Some(rest) = line.strip_prefix("errtab\t") {
            // the result-code table as OBSERVED on the running code (code:Variant:hex(text);..): used for every variant whose text the
            // source does not show in a form the recogniser knows
            for row in rest.split(';') {
                let p: Vec<&str> = row.split(':').collect();
                if p.len() == 3 {
                    let bytes: Vec<u8> = (0..p[2].len() / 2).filter_map(|i| u8::from_str_radix(&p[2][2 * i..2 * i + 2], 16).ok()).collect();
                    if let (Ok(code), Ok(text)) = (p[0].parse::<u64>(), String::from_utf8(bytes)) {
                        let name = p[1].to_string();
                        let known_code = w.consts.error_codes.iter().any(|(n, c)| *n == name && *c == code);
                        if !w.consts.error_msgs.iter().any(|(k, _)| *k == name) && known_code {
                            w.consts.error_msgs.push((name.clone(), text));
                            if !w.consts.probed.contains(&"zvt::constants::ErrorMessages (texts)".to_string()) {
                                w.consts.probed.push("zvt::constants::ErrorMessages (texts)".to_string());
                            }
                        }
                    }
                }
            }
            continue;
        }
        let mut it = line.split('\t');
        let (Some(name), Some(finals)) = (it.next(), it.next()) else { continue };
        for s in w.seqs.iter_mut() {
            if s.abs == name {
                if let Mode::Unrecognised(_) = s.mode {
                    s.mode = Mode::Loop(finals.split(',').filter(|x| !x.is_empty()).map(|x| x.to_string()).collect());
                    w.consts.probed.push(name.to_string());
                }
            }
        }
    }
}

pub fn emit_coq(w: &World, unrec: &mut Vec<String>) -> String {
    let mut v = String::new();
    writeln!(v, "(* GENERATED by zvt2coq from /repo's working tree on every check. Do not edit, do not commit. *)").unwrap();
    writeln!(v, "From Zvt Require Import Base.\nOpen Scope N_scope.\n").unwrap();
    writeln!(v, "Inductive seq_mode := SSingle | SLoop (finals : list string).\n").unwrap();
    writeln!(v, "(* sequence, input packet, reply enum, shape of into_stream *)").unwrap();
    writeln!(v, "Definition sequences : list (string * string * string * seq_mode) := [").unwrap();
    let mut lines = Vec::new();
    for s in &w.seqs {
        if s.abs.contains("::test::") {
            continue;
        }
        let mode = match &s.mode {
            Mode::Single => "SSingle".to_string(),
            Mode::Loop(f) => format!("(SLoop [{}])", f.iter().map(|x| coq_str(x)).collect::<Vec<_>>().join("; ")),
            Mode::Unrecognised(why) => {
                unrec.push(format!("{}: into_stream has an unrecognised shape: {}", s.abs, why));
                "SSingle".to_string()
            }
        };
        lines.push(format!("  ({}, {}, {}, {})", coq_str(&s.abs), coq_str(&s.input), coq_str(&s.output), mode));
    }
    writeln!(v, "{}].\n", lines.join(";\n")).unwrap();
    match w.consts.default_stream_ok {
        Some(true) | Some(false) => {}           // Some(false): every sequence using it was marked above and is reported / observed itself
        None => unrec.push("zvt::sequences::Sequence: trait not found".into()),
    }
    writeln!(v, "(* sequences whose shape was OBSERVED on the running code because the source shows it in a form the recogniser does not know *)").unwrap();
    writeln!(v, "Definition probed : list string := [{}].\n", w.consts.probed.iter().map(|x| coq_str(x)).collect::<Vec<_>>().join("; ")).unwrap();
    writeln!(v, "Definition consts : list (string * N) := [").unwrap();
    writeln!(v, "{}].\n", w.consts.nums.iter().map(|(k, n)| format!("  ({}, {})", coq_str(k), n)).collect::<Vec<_>>().join(";\n")).unwrap();
    writeln!(v, "Definition str_consts : list (string * string) := [").unwrap();
    writeln!(v, "{}].\n", w.consts.strs.iter().map(|(k, n)| format!("  ({}, {})", coq_str(k), coq_str(n))).collect::<Vec<_>>().join(";\n")).unwrap();
    writeln!(v, "(* ErrorMessages: code, variant, Display text *)").unwrap();
    writeln!(v, "Definition error_table : list (N * string * string) := [").unwrap();
    let mut lines = Vec::new();
    for (name, code) in &w.consts.error_codes {
        let msg = w.consts.error_msgs.iter().find(|(n, _)| n == name).map(|(_, m)| m.clone());
        match msg {
            Some(m) => lines.push(format!("  ({}, {}, {})", code, coq_str(name), coq_str(&m))),
            None => unrec.push(format!("ErrorMessages::{name}: no Display arm found")),
        }
    }
    writeln!(v, "{}].\n", lines.join(";\n")).unwrap();
    writeln!(v, "Definition upload_paths : list (string * N) := [").unwrap();
    writeln!(v, "{}].\n", w.consts.upload_paths.iter().map(|(k, n)| format!("  ({}, {})", coq_str(k), n)).collect::<Vec<_>>().join(";\n")).unwrap();
    writeln!(v, "Definition currencies : list (string * N) := [").unwrap();
    writeln!(v, "{}].\n", w.consts.currencies.iter().map(|(k, n)| format!("  ({}, {})", coq_str(k), n)).collect::<Vec<_>>().join(";\n")).unwrap();
    v
}

pub fn emit_json(w: &World) -> String {
    let mut j = String::new();
    j.push_str("\"sequences\":[");
    j.push_str(
        &w.seqs
            .iter()
            .filter(|s| !s.abs.contains("::test::"))
            .map(|s| {
                let (mode, finals) = match &s.mode {
                    Mode::Single => ("single", vec![]),
                    Mode::Loop(f) => ("loop", f.clone()),
                    Mode::Unrecognised(_) => ("unrecognised", vec![]),
                };
                format!(
                    "{{\"name\":\"{}\",\"input\":\"{}\",\"output\":\"{}\",\"mode\":\"{}\",\"finals\":[{}]}}",
                    s.abs,
                    s.input,
                    s.output,
                    mode,
                    finals.iter().map(|f| format!("\"{}\"", f)).collect::<Vec<_>>().join(",")
                )
            })
            .collect::<Vec<_>>()
            .join(",\n"),
    );
    j.push_str("],\n\"probed\":[");
    j.push_str(&w.consts.probed.iter().map(|x| format!("\"{}\"", x)).collect::<Vec<_>>().join(","));
    j.push_str("],\n\"consts\":{");
    j.push_str(&w.consts.nums.iter().map(|(k, n)| format!("\"{}\":{}", k, n)).collect::<Vec<_>>().join(","));
    j.push_str("},\n\"str_consts\":{");
    j.push_str(&w.consts.strs.iter().map(|(k, n)| format!("\"{}\":\"{}\"", k, n)).collect::<Vec<_>>().join(","));
    j.push_str("},\n\"error_table\":[");
    j.push_str(
        &w.consts
            .error_codes
            .iter()
            .map(|(name, code)| {
                let msg = w.consts.error_msgs.iter().find(|(n, _)| n == name).map(|(_, m)| m.clone()).unwrap_or_default();
                format!("[{},\"{}\",\"{}\"]", code, name, msg.replace('\\', "\\\\").replace('"', "\\\""))
            })
            .collect::<Vec<_>>()
            .join(","),
    );
    j.push_str("],\n\"upload_paths\":[");
    j.push_str(&w.consts.upload_paths.iter().map(|(k, n)| format!("[\"{}\",{}]", k, n)).collect::<Vec<_>>().join(","));
    j.push_str("],\n\"currencies\":[");
    j.push_str(&w.consts.currencies.iter().map(|(k, n)| format!("[\"{}\",{}]", k, n)).collect::<Vec<_>>().join(","));
    j.push_str("],\n");
    j
}
