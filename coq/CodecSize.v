(* CodecSize.v — C02, the allocation clause: what a decoder builds is bounded by a small multiple of the bytes
   it CONSUMED.  wsize counts what the Rust value holds on the heap: characters of every String (at most two
   per input byte: hex), bytes of every Vec<u8>, one unit per element of every Vec<T> (each element consumes
   at least one byte — the progress check of the fix of F5).  The factor is 2 + the nesting depth of the type. *)
From Zvt Require Import Base Length LengthProps Cp437 Encoding EncodingProps Codec CodecTotal.
From Coq Require Import ZifyBool ZifyNat ZifyN.
Ltac Zify.zify_post_hook ::= Z.div_mod_to_equations.
Open Scope N_scope.

Fixpoint wsize (v : value) : N :=
  match v with
  | VStr s => blen s
  | VBytes b => blen b
  | VSome x => wsize x
  | VList l => (fix go (l : list value) : N := match l with [] => 0 | x :: r => 1 + wsize x + go r end) l
  | VRec l => (fix go (l : list value) : N := match l with [] => 0 | x :: r => wsize x + go r end) l
  | _ => 0
  end.

Fixpoint wsum (l : list value) : N := match l with [] => 0 | x :: r => wsize x + wsum r end.

Lemma wsize_rec l : wsize (VRec l) = wsum l.
Proof. induction l as [|x l IH]; [reflexivity|]. cbn [wsize wsum] in *. rewrite IH. reflexivity. Qed.
Lemma wsize_list l : wsize (VList l) = N.of_nat (length l) + wsum l.
Proof.
  induction l as [|x l IH]; [reflexivity|]. cbn [wsize wsum length] in *. rewrite IH. lia.
Qed.
Lemma wsum_app a b : wsum (a ++ b) = wsum a + wsum b.
Proof. induction a as [|x a IH]; [reflexivity|]. cbn [app wsum]. rewrite IH. lia. Qed.
Lemma wsum_rev a : wsum (rev a) = wsum a.
Proof. induction a as [|x a IH]; [reflexivity|]. cbn [rev wsum]. rewrite wsum_app, IH. cbn [wsum]. lia. Qed.
Lemma wsum_set_nth l : forall i v, wsum (set_nth l i v) <= wsum l + wsize v.
Proof.
  induction l as [|x l IH]; intros [|i] v; cbn [set_nth wsum]; try lia. specialize (IH i v). lia.
Qed.

(* a decoder whose result is bounded by K times what it consumed *)
Definition sizedK {A} (sz : A -> N) (K : N) (k : bytes -> res (A * bytes)) : Prop :=
  forall bs v r, k bs = Ok (v, r) -> blen r <= blen bs /\ sz v + K * blen r <= K * blen bs.

Lemma sizedK_mono {A} (sz : A -> N) K K' (k : bytes -> res (A * bytes)) : K <= K' -> sizedK sz K k -> sizedK sz K' k.
Proof.
  intros HK H bs v r E. destruct (H bs v r E) as [A0 B0]. split; [exact A0|].
  assert (X : K * (blen bs - blen r) <= K' * (blen bs - blen r)) by (apply N.mul_le_mono_r; exact HK).
  rewrite !N.mul_sub_distr_l in X. pose proof (N.mul_le_mono_l _ _ K A0). pose proof (N.mul_le_mono_l _ _ K' A0). lia.
Qed.

Lemma framed_dec_sized {A} (sz : A -> N) K ls big tag (k : bytes -> res (A * bytes)) :
  sizedK sz K k -> sizedK sz K (framed_dec ls big tag k).
Proof.
  intros Hk bs v r. unfold framed_dec.
  assert (T : forall bs1, (match tag with
              | None => Ok bs
              | Some t => let* (a, r) := tag_dec big bs in if a =? t then Ok r else Err (WrongTag a)
              end) = Ok bs1 -> blen bs1 <= blen bs).
  { intros bs1. destruct tag as [t|]; [|intros [= <-]; lia].
    destruct (tag_dec big bs) as [[a r0]| | |] eqn:E; cbn [bind]; try discriminate.
    destruct (a =? t); [|discriminate]. intros [= <-]. apply tag_dec_lt in E. lia. }
  destruct (match tag with None => Ok bs | Some t => _ end) as [bs1| | |] eqn:E1; cbn [bind]; try discriminate.
  specialize (T bs1 eq_refl).
  destruct (len_de ls bs1) as [[len payload]| | |] eqn:E2; cbn [bind]; try discriminate.
  apply len_de_le in E2.
  destruct (blen payload <? len) eqn:E3; [discriminate|].
  destruct (k (take len payload)) as [[data rem]| | |] eqn:E4; cbn [bind]; try discriminate.
  destruct (Hk _ _ _ E4) as [Hr Hs]. rewrite blen_take in Hr, Hs by lia.
  destruct (blen rem <=? len) eqn:E5; [|discriminate]. intros [= <- <-]. rewrite blen_drop.
  split; [lia|].
  pose proof (N.mul_le_mono_l _ _ K T). pose proof (N.mul_le_mono_l _ _ K E2).
  replace (blen payload - (len - blen rem)) with ((blen payload - len) + blen rem) by lia.
  rewrite N.mul_add_distr_l, N.mul_sub_distr_l.
  assert (K * len <= K * blen payload) by (apply N.mul_le_mono_l; lia). lia.
Qed.

(* ---------- primitive decoders: at most two units per byte ---------- *)

Lemma trim_nul_rev_len s : (length (trim_nul_rev s) <= length s)%nat.
Proof. induction s as [|c s IH]; [cbn; lia|]. cbn [trim_nul_rev]. destruct c; cbn [length] in *; lia. Qed.
Lemma cp437_dec_len bs : (length (cp437_dec bs) <= length bs)%nat.
Proof.
  unfold cp437_dec, trim_nul. rewrite rev_length. pose proof (trim_nul_rev_len (rev (map cp437_of_byte bs))).
  rewrite rev_length, map_length in H. exact H.
Qed.
Lemma hex_of_bytes_len bs : length (hex_of_bytes bs) = (2 * length bs)%nat.
Proof. induction bs as [|b bs IH]; [reflexivity|]. cbn [hex_of_bytes length]. lia. Qed.

Lemma utf8_dec_len : forall n bs s, (length bs <= n)%nat -> utf8_dec bs = Some s -> (length s <= length bs)%nat.
Proof.
  induction n as [|n IH]; intros bs s Hn H.
  { destruct bs; [injection H as <-; cbn; lia|cbn in Hn; lia]. }
  destruct bs as [|b0 r0]; [injection H as <-; cbn; lia|]. cbn [utf8_dec] in H.
  assert (STEP : forall c (rest : bytes) s0, (length rest <= n)%nat -> option_map (cons c) (utf8_dec rest) = Some s0 ->
                 (length s0 <= S (length rest))%nat).
  { intros c rest s0 Hl E. destruct (utf8_dec rest) as [t|] eqn:Et; [|discriminate]. injection E as <-.
    specialize (IH rest t Hl Et). cbn [length]. lia. }
  destruct (b0 <? 128).
  { apply STEP in H; cbn [length] in *; lia. }
  destruct r0 as [|b1 r1]; [discriminate|]. destruct (in_range 194 223 b0).
  { destruct (cont b1); [|discriminate]. apply STEP in H; cbn [length] in *; lia. }
  destruct r1 as [|b2 r2]; [discriminate|]. destruct (in_range 224 239 b0).
  { destruct (_ && _); [|discriminate]. apply STEP in H; cbn [length] in *; lia. }
  destruct r2 as [|b3 r3]; [discriminate|]. destruct (in_range 240 244 b0); [|discriminate].
  destruct (_ && _); [|discriminate]. apply STEP in H; cbn [length] in *; lia.
Qed.

Lemma prim_dec_sized e p : sizedK wsize 2 (prim_dec e p).
Proof.
  intros bs v r H. destruct (prim_dec_good e p bs) as [_ [_ G]]. pose proof (G v r H) as Hr. split; [exact Hr|].
  destruct e, p; unfold prim_dec in H; try discriminate.
  - destruct (int_dec false w bs) as [[n r0]| | |]; cbn [bind] in H; try discriminate. injection H as <- <-. cbn [wsize]. lia.
  - injection H as <- <-. cbn [wsize]. unfold blen. pose proof (cp437_dec_len bs). cbn [length]. lia.
  - destruct (datetime_dec bs) as [[v0 r0]| | |] eqn:E; try discriminate.
    unfold datetime_dec in E. destruct (dt_loop _ bs None None) as [[[dt tm] r1]| | |]; cbn [bind] in E; try discriminate.
    destruct dt as [dt|]; [|discriminate]. destruct tm as [tm|]; [|discriminate]. destruct (_ && _); [|discriminate].
    injection E as <- <-. injection H as <- <-. cbn [wsize]. lia.
  - destruct (int_dec true w bs) as [[n r0]| | |]; cbn [bind] in H; try discriminate. injection H as <- <-. cbn [wsize]. lia.
  - destruct (bcd_dec w bs) as [[n r0]| | |]; cbn [bind] in H; try discriminate. injection H as <- <-. cbn [wsize]. lia.
  - injection H as <- <-. cbn [wsize]. unfold blen. rewrite hex_of_bytes_len. cbn [length]. lia.
  - destruct (utf8_dec bs) as [s|] eqn:E; [|discriminate]. injection H as <- <-. cbn [wsize]. unfold blen.
    pose proof (utf8_dec_len (length bs) bs s (le_n _) E). cbn [length]. lia.
  - injection H as <- <-. cbn [wsize]. unfold blen. cbn [length]. lia.
  - destruct bs as [|b0 [|b1 r0]]; try discriminate. destruct (_ && _).
    + injection H as <- <-. cbn [wsize]. lia.
    + destruct (bcd_dec 8 [b0; b1]) as [[n r1]| | |]; cbn [bind] in H; try discriminate. injection H as <- <-. cbn [wsize]. lia.
Qed.

(* ---------- loops ---------- *)

(* Vec<T>: one unit per element on top of the elements themselves; every element consumed at least one byte *)
Lemma vec_loop_sized K n step : sizedK wsize K step -> forall bs acc v r,
  vec_loop n step bs acc = Ok (v, r) ->
  blen r <= blen bs /\ exists l, v = VList l /\
    N.of_nat (length l) + wsum l + (K + 1) * blen r <= N.of_nat (length acc) + wsum acc + (K + 1) * blen bs.
Proof.
  intros Hs. induction n as [|n IH]; intros bs acc v r H; cbn [vec_loop] in H; [discriminate|].
  destruct (step bs) as [[x r1]| | |] eqn:E; try discriminate.
  - destruct (Hs bs x r1 E) as [A B]. destruct (blen r1 =? blen bs) eqn:E2.
    + injection H as <- <-. split; [lia|]. exists (rev acc). split; [reflexivity|]. rewrite rev_length, wsum_rev. lia.
    + destruct (IH r1 (x :: acc) v r H) as [A2 [l [El Bl]]]. split; [lia|]. exists l. split; [exact El|].
      cbn [length wsum] in Bl. lia.
  - injection H as <- <-. split; [lia|]. exists (rev acc). split; [reflexivity|]. rewrite rev_length, wsum_rev. lia.
Qed.

Definition D_sized (D : dec_fn) (fs : list field) (K : N) : Prop :=
  forall f, In f fs -> forall tag, sizedK wsize K (D (f_ls f) (f_enc f) (f_ty f) tag).

Lemma dec_positional_sized D K : forall fs, D_sized D fs K -> forall bs vs r,
  dec_positional D fs bs = Ok (vs, r) -> blen r <= blen bs /\ wsum vs + K * blen r <= K * blen bs.
Proof.
  induction fs as [|[name tg ls e t] fs IH]; intros HD bs vs r H; cbn [dec_positional] in H.
  - injection H as <- <-. cbn [wsum]. lia.
  - assert (HD' : D_sized D fs K) by (intros f Hf; apply HD; right; exact Hf).
    destruct tg as [tg|]; [apply (IH HD' bs vs r H)|].
    destruct (D ls e t None bs) as [[v bs1]| | |] eqn:E; cbn [bind] in H; try discriminate.
    destruct (HD (Fld name None ls e t) (or_introl eq_refl) None bs v bs1 E) as [A B].
    destruct (dec_positional D fs bs1) as [[vs1 bs2]| | |] eqn:E2; cbn [bind] in H; try discriminate.
    injection H as <- <-. destruct (IH HD' bs1 vs1 bs2 E2) as [A2 B2]. cbn [wsum]. lia.
Qed.

Lemma tag_loop_sized D K fs : D_sized D fs K -> forall n bs cl seen vals s vals' r,
  tag_loop n D fs bs cl seen vals = Ok (s, vals', r) ->
  blen r <= blen bs /\ wsum vals' + K * blen r <= wsum vals + K * blen bs.
Proof.
  intros HD. induction n as [|n IH]; intros bs cl seen vals s vals' r H; cbn [tag_loop] in H; [discriminate|].
  destruct bs as [|b0 bs'] eqn:Eb; [injection H as _ <- <-; lia|].
  rewrite <- Eb in *. clear Eb b0 bs'.
  destruct (cl =? blen bs); [injection H as _ <- <-; lia|].
  destruct (tag_dec false bs) as [[num r0]| | |] eqn:E; try discriminate.
  - destruct (find_tagged fs num 0) as [[i [nm tg ls e t]]|] eqn:Ef.
    + destruct (existsb (N.eqb num) seen); [discriminate|].
      destruct (D ls e t (Some num) bs) as [[v r1]| | |] eqn:E2; cbn [bind] in H; try discriminate.
      apply find_tagged_in in Ef. destruct (HD _ Ef (Some num) bs v r1 E2) as [A B].
      destruct (IH r1 (blen bs) (num :: seen) (set_nth vals i v) s vals' r H) as [A2 B2].
      pose proof (wsum_set_nth vals i v). lia.
    + injection H as _ <- <-. lia.
  - injection H as _ <- <-. lia.
Qed.

Lemma wsize_default : forall n t, (depth t <= n)%nat -> wsize (default_value t) = 0.
Proof.
  induction n as [|n IH]; intros t Hd; [destruct t; cbn in Hd; lia|].
  destruct t as [p|u|u|fs]; try reflexivity; [destruct p; reflexivity|].
  change (default_value (TStruct fs)) with
    (VRec ((fix go (fs : list field) : list value :=
              match fs with [] => [] | Fld _ _ _ _ t' :: r => default_value t' :: go r end) fs)).
  rewrite wsize_rec.
  assert (G : forall l, (forall f, In f l -> (depth (f_ty f) <= n)%nat) ->
            wsum ((fix go (fs : list field) : list value :=
                     match fs with [] => [] | Fld _ _ _ _ t' :: r => default_value t' :: go r end) l) = 0).
  { induction l as [|[nm tg ls e t'] l IHl]; intros Hl; [reflexivity|]. cbn [wsum].
    rewrite (IH t') by (apply (Hl (Fld nm tg ls e t')); left; reflexivity).
    rewrite IHl by (intros f Hf; apply Hl; right; exact Hf). reflexivity. }
  apply G. intros f Hf. pose proof (depth_field_lt f fs Hf). lia.
Qed.

Lemma init_slots_wsum fs : forall pos, wsum (init_slots fs pos) <= wsum pos.
Proof.
  induction fs as [|[nm tg ls e t] fs IH]; intros pos; cbn [init_slots]; [cbn; lia|].
  destruct tg as [tg|].
  - cbn [wsum]. rewrite (wsize_default (depth t) t (le_n _)). apply IH.
  - destruct pos as [|v pr]; cbn [wsum]; [specialize (IH []); cbn [wsum wsize] in *; lia|specialize (IH pr); lia].
Qed.

Lemma dec_struct_with_sized D K fs : D_sized D fs K -> sizedK wsize K (dec_struct_with D fs).
Proof.
  intros HD bs v r H. unfold dec_struct_with in H.
  destruct (dec_positional D fs bs) as [[pos bs1]| | |] eqn:E; cbn [bind] in H; try discriminate.
  destruct (dec_positional_sized D K fs HD bs pos bs1 E) as [A B].
  destruct (tag_loop _ D fs bs1 _ _ _) as [[[seen vals] bs2]| | |] eqn:E2; cbn [bind] in H; try discriminate.
  destruct (tag_loop_sized D K fs HD _ _ _ _ _ _ _ _ E2) as [A2 B2].
  destruct (filter _ _); [|discriminate]. injection H as <- <-. rewrite wsize_rec.
  pose proof (init_slots_wsum fs pos). lia.
Qed.

(* ---------- every type ---------- *)

Definition Kt (t : ty) : N := 2 + N.of_nat (depth t).

Theorem dec_sized : forall fuel ls e t tag, sizedK wsize (Kt t) (dec fuel ls e t tag).
Proof.
  induction fuel as [|f IH]; intros ls e t tag bs v r H; [discriminate|].
  cbn [dec] in H. destruct t as [p|u|u|fs].
  - apply (sizedK_mono wsize 2 (Kt (TPrim p)) (framed_dec ls false tag (prim_dec e p))); [unfold Kt; lia| |exact H].
    apply framed_dec_sized. apply prim_dec_sized.
  - assert (M : Kt u <= Kt (TOpt u)) by (unfold Kt; cbn [depth]; lia).
    destruct tag as [tg|].
    + destruct (dec f ls e u (Some tg) bs) as [[x r1]| | |] eqn:E; cbn [bind] in H; try discriminate.
      injection H as <- <-. cbn [wsize]. apply (sizedK_mono wsize _ _ _ M (IH ls e u (Some tg)) bs x r1 E).
    + destruct (dec f ls e u None bs) as [[x r1]| | |] eqn:E; try discriminate.
      * injection H as <- <-. cbn [wsize]. apply (sizedK_mono wsize _ _ _ M (IH ls e u None) bs x r1 E).
      * injection H as <- <-. cbn [wsize]. lia.
  - destruct (vec_loop_sized (Kt u) _ _ (IH ls e u tag) bs [] v r H) as [A [l [-> B]]].
    split; [exact A|]. rewrite wsize_list. cbn [length wsum] in B.
    replace (Kt (TVec u)) with (Kt u + 1) by (unfold Kt; cbn [depth]; lia). lia.
  - destruct e; try discriminate.
    assert (HD : D_sized (dec f) fs (Kt (TStruct fs))).
    { intros g Hg tag0. apply (sizedK_mono wsize (Kt (f_ty g))); [|apply IH].
      pose proof (depth_field_lt g fs Hg). unfold Kt. lia. }
    apply (framed_dec_sized wsize (Kt (TStruct fs)) ls false tag _ (dec_struct_with_sized (dec f) _ fs HD) bs v r H).
Qed.

(* a whole packet: what the decoder builds is at most (2 + depth) units per byte of the APDU *)
Corollary dec_cmd_sized fuel c bs v r : dec_cmd fuel c bs = Ok (v, r) ->
  wsize v <= Kt (TStruct (c_fields c)) * blen bs.
Proof.
  intros H. unfold dec_cmd, dec_struct in H.
  assert (HD : D_sized (dec fuel) (c_fields c) (Kt (TStruct (c_fields c)))).
  { intros g Hg tag0. apply (sizedK_mono wsize (Kt (f_ty g))); [|apply dec_sized].
    pose proof (depth_field_lt g (c_fields c) Hg). unfold Kt. lia. }
  destruct (framed_dec_sized wsize _ LAdpu true (Some (cf c)) _ (dec_struct_with_sized (dec fuel) _ _ HD) bs v r H) as [_ B]. lia.
Qed.

Corollary dec_plain_sized fuel fs bs v r : dec_plain fuel fs bs = Ok (v, r) -> wsize v <= Kt (TStruct fs) * blen bs.
Proof.
  intros H. unfold dec_plain, dec_struct in H.
  assert (HD : D_sized (dec fuel) fs (Kt (TStruct fs))).
  { intros g Hg tag0. apply (sizedK_mono wsize (Kt (f_ty g))); [|apply dec_sized].
    pose proof (depth_field_lt g fs Hg). unfold Kt. lia. }
  destruct (framed_dec_sized wsize _ LEmpty false None _ (dec_struct_with_sized (dec fuel) _ _ HD) bs v r H) as [_ B]. lia.
Qed.

(* reply parsers: the value of the matching variant *)
Corollary parse_enum_sized fuel vs bs i v : parse_enum fuel vs bs = Ok (i, v) ->
  exists c, In c (map snd vs) /\ wsize v <= Kt (TStruct (c_fields c)) * blen bs.
Proof.
  unfold parse_enum. destruct bs as [|b0 [|b1 r]]; try discriminate.
  generalize 0 as k. generalize (b0 :: b1 :: r) as bs0.
  induction vs as [|[nm c] vs IH]; intros bs0 k H; cbn [parse_variants] in H; [discriminate|].
  destruct ((c_class c =? b0) && (c_instr c =? b1)).
  - destruct (dec_cmd fuel c bs0) as [[v0 r0]| | |] eqn:E; cbn [bind] in H; try discriminate. injection H as _ <-.
    exists c. split; [left; reflexivity|]. apply (dec_cmd_sized fuel c bs0 v0 r0 E).
  - destruct (IH bs0 (k + 1) H) as [c0 [Hin Hb]]. exists c0. split; [right; exact Hin|exact Hb].
Qed.
