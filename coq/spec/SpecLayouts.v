(* SpecLayouts.v — HAND-WRITTEN wire layouts of the shipped packets, assembled from three GLOBAL
   tables that do not follow the structure of the Rust source (DESIGN appendix C):
     bmp_table   ZVT "definition of bitmaps" (ch. 9.1): number -> length style, encoding, kind
     tlv_table   ZVT TLV tags (ch. 9.4) and the Feig manual: tag -> encoding, kind
     packets     per command: control field, positional prefix, which numbers it carries under
                 which role name, which are mandatory
   Provenance: (S) specification as I know it, (C) crate docs / captures (weaker independence).
   Nothing here looks at coq/gen. *)
From Zvt Require Import Base Length Cp437 Encoding Codec.
From Zvt.spec Require Import Spec.
Open Scope N_scope.

(* kinds of values *)
Definition U8 : ty := TPrim (PInt 1).          (* one byte binary *)
Definition U16 : ty := TPrim (PInt 2).
Definition U32 : ty := TPrim (PInt 4).
Definition NUM : ty := TPrim (PInt 8).         (* a decimal number (packed BCD); the integer width is not on the wire *)
Definition STR : ty := TPrim PString.
Definition BIN : ty := TPrim PBytes.
Definition DTM : ty := TPrim PDateTime.

(* ------------------------------------------------------------------ C.1 bitmaps *)
Definition bmp_table : list (N * (lenstyle * Encoding.enc * ty)) := [
  (0x01, (LEmpty, EDefault, U8));          (* timeout, 1 byte binary                      S *)
  (0x02, (LEmpty, EDefault, U8));          (* max. number of status informations          S *)
  (0x03, (LEmpty, EDefault, U8));          (* service byte                                S *)
  (0x04, (LFixed 6, EBcd, NUM));           (* amount, 6 byte BCD                          S *)
  (0x05, (LEmpty, EDefault, U8));          (* pump number                                 S *)
  (0x0B, (LFixed 3, EBcd, NUM));           (* trace number, 3 byte BCD                    S *)
  (0x0C, (LFixed 3, EBcd, NUM));           (* time HHMMSS                                 S *)
  (0x0D, (LFixed 2, EBcd, NUM));           (* date MMDD                                   S *)
  (0x0E, (LFixed 2, EBcd, NUM));           (* expiry date YYMM                            S *)
  (0x17, (LFixed 2, EBcd, NUM));           (* card sequence number                        S *)
  (0x19, (LEmpty, EDefault, U8));          (* payment type / status byte                  S *)
  (0x22, (LLlv 2, EBcd, NUM));             (* PAN / EF_ID, LLVAR BCD                      S *)
  (0x23, (LLlv 2, EHex, STR));             (* track 2 data, LLVAR                         S *)
  (0x27, (LEmpty, EDefault, U8));          (* result code, 1 byte                         S *)
  (0x29, (LFixed 4, EBcd, NUM));           (* terminal id, 4 byte BCD                     S *)
  (0x2A, (LFixed 15, EDefault, STR));      (* VU number, 15 byte ASCII                    S *)
  (0x3B, (LFixed 8, EDefault, STR));       (* AID authorisation attribute, 8 byte         S *)
  (0x3C, (LLlv 3, EDefault, STR));         (* additional data / text, LLLVAR              S *)
  (0x49, (LFixed 2, EBcd, NUM));           (* currency code, 2 byte BCD                   S *)
  (0x87, (LFixed 2, EBcd, NUM));           (* receipt number, 2 byte BCD                  S *)
  (0x8A, (LEmpty, EDefault, U8));          (* ZVT card type                               S *)
  (0x8B, (LLlv 2, EDefault, STR));         (* card name, LLVAR                            S *)
  (0x8C, (LEmpty, EDefault, U8));          (* card type id of the network operator        S *)
  (0xAA, (LFixed 3, EBcd, NUM));           (* date YYMMDD                                 S *)
  (0xFC, (LEmpty, EDefault, U8))           (* dialog control                              S *)
].

(* ------------------------------------------------------------------ C.2 TLV tags (all BER-TLV length) *)
Definition tlv_table : list (N * (Encoding.enc * ty)) := [
  (0x07, (EDefault, STR));                 (* text line                                   S *)
  (0x09, (EDefault, U8));                  (* end-of-lines attribute                      C *)
  (0x1A, (EBigEndian, U16));               (* max APDU length, high byte first            S *)
  (0x1B, (EDefault, U8));                  (* diagnosis type                              C *)
  (0x1C, (ECustom, BIN));                  (* file content                                S *)
  (0x1D, (EDefault, U8));                  (* file id                                     S *)
  (0x1E, (EBigEndian, U32));               (* start position, 4 bytes big endian          S *)
  (0x1F00, (EBigEndian, U32));             (* file size, 4 bytes big endian               S *)
  (0x1F07, (EDefault, U8));                (* receipt type                                S *)
  (0x1F0B, (EBcd, NUM));                   (* maximum pre-authorisation amount            S *)
  (0x1F14, (EHex, STR));                   (* card identification item                    S *)
  (0x1F15, (EDefault, U8));                (* card reading control                        S *)
  (0x1F16, (EBcd, NUM));                   (* extended error code                         C *)
  (0x1F17, (EDefault, STR));               (* extended error text                         S *)
  (0x1F40, (EDefault, STR));               (* device name                                 S *)
  (0x1F41, (EDefault, STR));               (* software version                            S *)
  (0x1F42, (EBcd, NUM));                   (* serial number                               S *)
  (0x1F43, (EDefault, U8));                (* device state                                S *)
  (0x1F44, (EBcd, NUM));                   (* terminal id                                 S *)
  (0x1F45, (EHex, STR));                   (* ATS                                         S *)
  (0x1F4C, (EDefault, U8));                (* card type                                   S *)
  (0x1F4D, (EHex, STR));                   (* card sub-type                               S *)
  (0x1F4F, (EHex, STR));                   (* ATQA                                        S *)
  (0x1F50, (EDefault, U8));                (* SAK                                         S *)
  (0x1F60, (EDefault, U8));                (* allowed card types                          C *)
  (0x1F62, (EDefault, STR));               (* BMP60 prefix                                C *)
  (0x1F63, (EDefault, STR));               (* BMP60 data                                  C *)
  (0x1FF2, (EDefault, U8));                (* extended contactless card detection         C *)
  (0x34, (EDefault, DTM));                 (* date/time container 1F0E + 1F0F             C *)
  (0x41, (EHex, STR));                     (* ZVT card-type id                            S *)
  (0x43, (EHex, STR));                     (* application id                              S *)
  (0x4C, (EHex, STR));                     (* UID                                         S *)
  (0xFF40, (EBcd, NUM))                    (* password (Feig)                             C *)
].

Fixpoint lookup {B} (k : N) (l : list (N * B)) : option B :=
  match l with [] => None | (k', v) :: r => if k =? k' then Some v else lookup k r end.

(* an entry nobody should ever see: makes the comparison fail visibly *)
Definition BAD : field := Fld "?" (Some 0) LEmpty EDefault (TStruct []).

(* optional bitmap / mandatory bitmap / optional TLV / mandatory TLV / repeated TLV, by number *)
Definition b (name : string) (n : N) : field :=
  match lookup n bmp_table with Some (ls, e, t) => Fld name (Some n) ls e (TOpt t) | None => BAD end.
Definition b_req (name : string) (n : N) : field :=
  match lookup n bmp_table with Some (ls, e, t) => Fld name (Some n) ls e t | None => BAD end.
Definition t (name : string) (n : N) : field :=
  match lookup n tlv_table with Some (e, y) => Fld name (Some n) LTlv e (TOpt y) | None => BAD end.
Definition t_req (name : string) (n : N) : field :=
  match lookup n tlv_table with Some (e, y) => Fld name (Some n) LTlv e y | None => BAD end.
Definition t_vec (name : string) (n : N) : field :=
  match lookup n tlv_table with Some (e, y) => Fld name (Some n) LTlv e (TVec y) | None => BAD end.
(* containers: BMP 06 (BER-TLV), BMP 60 (LLLVAR) and constructed TLV tags *)
Definition c06 (name : string) (inner : list field) : field := Fld name (Some 0x06) LTlv EDefault (TOpt (TStruct inner)).
Definition c06_req (name : string) (inner : list field) : field := Fld name (Some 0x06) LTlv EDefault (TStruct inner).
Definition ct (name : string) (n : N) (inner : list field) : field := Fld name (Some n) LTlv EDefault (TOpt (TStruct inner)).
Definition ct_req (name : string) (n : N) (inner : list field) : field := Fld name (Some n) LTlv EDefault (TStruct inner).
Definition ct_vec (name : string) (n : N) (inner : list field) : field := Fld name (Some n) LTlv EDefault (TVec (TStruct inner)).
(* positional fields *)
Definition p (name : string) (ls : lenstyle) (e : Encoding.enc) (y : ty) : field := Fld name None ls e y.
Definition password : field := p "password" (LFixed 3) EBcd NUM.            (* 3 byte BCD  S *)

(* ------------------------------------------------------------------ TLV containers *)
Definition tlv_application : list field := [t "card_type" 0x41; t "application_id" 0x43].         (* tag 60  S *)
Definition tlv_applications_on_card : list field := [ct_vec "subs" 0x60 tlv_application].       (* tag 62  S *)
Definition tlv_status_information : list field := [
  t "uuid" 0x4C; t "maximum_pre_autorisation" 0x1F0B; t "card_identification_item" 0x1F14; t "ats" 0x1F45;
  t "card_type" 0x1F4C; t "sub_type" 0x1F4D; t "atqa" 0x1F4F; t "sak" 0x1F50;
  ct_vec "subs" 0x60 tlv_application; ct "subs_on_card" 0x62 tlv_applications_on_card].
Definition tlv_status_enquiry : list field := [t "enable_extended_contactless_card_detection" 0x1FF2].
Definition tlv_device_information : list field := [                                               (* tag E4  S *)
  t "device_name" 0x1F40; t "software_version" 0x1F41; t "serial_number" 0x1F42; t "device_state" 0x1F43].
Definition tlv_receipt_printout_completion : list field := [
  t "terminal_id" 0x1F44; ct "device_information" 0xE4 tlv_device_information; t "date_time" 0x34].
Definition tlv_reservation_abort : list field := [t "extended_error_code" 0x1F16; t "extended_error_text" 0x1F17].
Definition tlv_bmp60 : list field := [t_req "bmp_prefix" 0x1F62; t_req "bmp_data" 0x1F63].         (* tag E9  C *)
Definition tlv_auth_data : list field := [ct "bmp_data" 0xE9 tlv_bmp60].
Definition tlv_diagnosis : list field := [t "diagnosis_type" 0x1B].
Definition tlv_read_card : list field := [t "card_reading_control" 0x1F15; t "card_type" 0x1F60].
Definition tlv_text_lines : list field := [t_vec "lines" 0x07; t "eol" 0x09].                      (* tag 25  S *)
Definition tlv_print_text_block : list field := [t "receipt_type" 0x1F07; ct "lines" 0x25 tlv_text_lines].
Definition tlv_registration : list field := [t "max_len_adpu" 0x1A].
Definition tlv_zvt_string : list field := [t_req "line" 0x07].
(* Feig 6.13 *)
Definition tlv_file : list field := [t "file_id" 0x1D; t "file_offset" 0x1E; t "file_size" 0x1F00; t "payload" 0x1C].  (* tag 2D *)
Definition tlv_write_data : list field := [ct "file" 0x2D tlv_file].
Definition tlv_write_file : list field := [ct_vec "files" 0x2D tlv_file].
(* Feig 6.7-6.16: host configuration = IPv4 4 bytes BE, port 2 bytes BE, flags 1 byte  (C) *)
Definition host_configuration_data : list field := [
  p "ip" LEmpty EBigEndian U32; p "port" LEmpty EBigEndian U16; p "config_byte" LEmpty EBigEndian U8].
Definition tlv_system_information : list field := [
  t_req "password" 0xFF40; ct "host_configuration_data" 0xFF41 host_configuration_data].
Definition tlv_change_configuration : list field := [ct_req "system_information" 0xE4 tlv_system_information].

(* BMP 60: receipt-no from/to 2 x 2 BCD, then 7 x (count 1 byte, total 6 byte BCD)  (S shape, C order) *)
Definition num_and_total : list field := [p "num" LEmpty EDefault U8; p "total" (LFixed 6) EBcd NUM].
Definition single_amounts : list field :=
  [p "receipt_no_start" (LFixed 2) EBcd NUM; p "receipt_no_end" (LFixed 2) EBcd NUM] ++
  map (fun n => p n LEmpty EDefault (TStruct num_and_total))
      ["girocard"; "jcb"; "eurocard"; "amex"; "visa"; "diners"; "others"]%string.

(* ------------------------------------------------------------------ C.3 packets *)
Record packet := { k_rust : string; k_cf : option (N * N); k_fields : list field }.
Definition pk (r : string) (cf : N * N) (fs : list field) := {| k_rust := r; k_cf := Some cf; k_fields := fs |}.
Definition ct_ (r : string) (fs : list field) := {| k_rust := r; k_cf := None; k_fields := fs |}.

Definition payment_bitmaps : list field := [          (* 06 01 authorisation and relatives            S *)
  b "amount" 0x04; b "currency" 0x49; b "payment_type" 0x19; b "expiry_date" 0x0E; b "card_number" 0x22;
  b "track_2_data" 0x23; b "timeout" 0x01; b "maximum_no_of_status_info" 0x02; b "pump_no" 0x05].

Definition packets : list packet := [
  pk "zvt::packets::SetTimeAndDate" CF_SET_DATE_TIME [b_req "date" 0xAA; b_req "time" 0x0C];
  pk "zvt::packets::StatusInformation" CF_STATUS_INFO [
     b "amount" 0x04; b "trace_number" 0x0B; b "time" 0x0C; b "date" 0x0D; b "expiry_date" 0x0E;
     b "card_sequence_number" 0x17; b "card_type" 0x19; b "card_number" 0x22; b "track_2_data" 0x23;
     b "result_code" 0x27; b "terminal_id" 0x29; b "vu_number" 0x2A; b "aid_authorization_attribute" 0x3B;
     b "additional_text" 0x3C;
     Fld "single_amounts" (Some 0x60) (LLlv 3) EDefault (TOpt (TStruct single_amounts));
     b "receipt_no" 0x87; b "currency" 0x49; b "zvt_card_type" 0x8A; b "card_name" 0x8B; b "zvt_card_type_id" 0x8C;
     c06 "tlv" tlv_status_information];
  pk "zvt::packets::IntermediateStatusInformation" CF_INTERMEDIATE [
     p "status" LEmpty EDefault U8; p "timeout" LEmpty EBcd (TOpt U8)];
  pk "zvt::packets::StatusEnquiry" CF_STATUS_ENQUIRY [
     p "password" (LFixed 3) EBcd (TOpt NUM); b "service_byte" 0x03; c06 "tlv" tlv_status_enquiry];
  pk "zvt::packets::Registration" CF_REGISTRATION [
     password; p "config_byte" LEmpty EDefault U8; p "currency" (LFixed 2) EBcd (TOpt NUM); c06 "tlv" tlv_registration];
  pk "zvt::packets::CompletionData" CF_COMPLETION [
     b "result_code" 0x27; b "status_byte" 0x19; b "terminal_id" 0x29; b "currency" 0x49];
  pk "zvt::packets::ReceiptPrintoutCompletion" CF_COMPLETION [
     p "sw_version" (LLlv 3) EUtf8 STR; p "terminal_status_code" LEmpty EDefault U8; c06 "tlv" tlv_receipt_printout_completion];
  pk "zvt::packets::ResetTerminal" CF_RESET_TERMINAL [];
  pk "zvt::packets::PrintSystemConfiguration" CF_PRINT_SYSCONF [];
  pk "zvt::packets::SetTerminalId" CF_SET_TERMINAL_ID [password; b "terminal_id" 0x29];
  pk "zvt::packets::Abort" CF_ABORT [p "error" LEmpty EDefault U8];
  pk "zvt::packets::ReservationAbort" CF_ABORT [
     p "error" LEmpty EDefault U8; p "currency" (LFixed 2) EBcd (TOpt NUM); c06 "tlv" tlv_reservation_abort];
  pk "zvt::packets::PartialReversalAbort" CF_ABORT [
     p "error" LEmpty EDefault U8; Fld "receipt_no" (Some 0x87) (LFixed 2) EReceiptNo (TOpt NUM)];   (* FFFF = none  S *)
  pk "zvt::packets::Authorization" CF_AUTHORIZATION
     (payment_bitmaps ++ [b "additional_text" 0x3C; b "zvt_card_type" 0x8A; c06 "tlv" tlv_auth_data]);
  pk "zvt::packets::Reservation" CF_RESERVATION
     (payment_bitmaps ++ [b "trace_number" 0x0B; b "aid_authorization_attribute" 0x3B; b "additional_text" 0x3C;
                          b "zvt_card_type" 0x8A; c06 "tlv" tlv_auth_data]);
  pk "zvt::packets::PartialReversal" CF_PARTIAL_REVERSAL [
     Fld "receipt_no" (Some 0x87) (LFixed 2) EReceiptNo (TOpt NUM); b "amount" 0x04; b "payment_type" 0x19;
     b "currency" 0x49; c06 "tlv" tlv_auth_data];
  pk "zvt::packets::PreAuthReversal" CF_PREAUTH_REVERSAL [b "payment_type" 0x19; b "currency" 0x49; b "receipt_no" 0x87];
  pk "zvt::packets::EndOfDay" CF_END_OF_DAY [password];
  pk "zvt::packets::Diagnosis" CF_DIAGNOSIS [c06 "tlv" tlv_diagnosis];
  pk "zvt::packets::Initialization" CF_INITIALISATION [password];
  pk "zvt::packets::ReadCard" CF_READ_CARD [
     p "timeout_sec" LEmpty EDefault U8; b "card_type" 0x19; b "dialog_control" 0xFC; c06 "tlv" tlv_read_card];
  pk "zvt::packets::PrintLine" CF_PRINT_LINE [p "attribute" LEmpty EDefault U8; p "text" LEmpty EDefault STR];
  pk "zvt::packets::PrintTextBlock" CF_PRINT_TEXT_BLOCK [c06 "tlv" tlv_print_text_block];
  pk "zvt::packets::SelectLanguage" CF_SELECT_LANGUAGE [p "language" LEmpty EDefault U8];
  pk "zvt::packets::Ack" CF_ACK [];
  (* Feig *)
  pk "zvt::feig::packets::RequestForData" CF_REQUEST_DATA [c06 "tlv" tlv_write_data];
  pk "zvt::feig::packets::CVendFunctionsEnhancedSystemInformationCompletion" CF_COMPLETION [
     p "device_id" (LFixed 8) EDefault STR; p "sw_version" (LFixed 17) EDefault STR;
     p "terminal_id" (LFixed 8) EDefault STR; p "temperature" LTemperature EDefault STR];
  pk "zvt::feig::packets::WriteFile" CF_WRITE_FILE [password; c06 "tlv" tlv_write_file];
  pk "zvt::feig::packets::ChangeConfiguration" CF_CHANGE_CONFIG [c06_req "tlv" tlv_change_configuration];
  pk "zvt::feig::packets::CVendFunctions" CF_CVEND_FUNCTIONS [
     p "password" (LFixed 3) EBcd (TOpt NUM); p "instr" LEmpty EBigEndian U16];
  pk "zvt::feig::packets::WriteData" CF_ACK [c06 "tlv" tlv_write_data];
  (* containers, as types of their own *)
  ct_ "zvt::packets::NumAndTotal" num_and_total;
  ct_ "zvt::packets::SingleAmounts" single_amounts;
  ct_ "zvt::packets::tlv::Subs" tlv_application;
  ct_ "zvt::packets::tlv::SubsOnCard" tlv_applications_on_card;
  ct_ "zvt::packets::tlv::StatusInformation" tlv_status_information;
  ct_ "zvt::packets::tlv::StatusEnquiry" tlv_status_enquiry;
  ct_ "zvt::packets::tlv::DeviceInformation" tlv_device_information;
  ct_ "zvt::packets::tlv::ReceiptPrintoutCompletion" tlv_receipt_printout_completion;
  ct_ "zvt::packets::tlv::ReservationAbort" tlv_reservation_abort;
  ct_ "zvt::packets::tlv::Bmp60" tlv_bmp60;
  ct_ "zvt::packets::tlv::AuthData" tlv_auth_data;
  ct_ "zvt::packets::tlv::PreAuthData" tlv_auth_data;
  ct_ "zvt::packets::tlv::Diagnosis" tlv_diagnosis;
  ct_ "zvt::packets::tlv::ReadCard" tlv_read_card;
  ct_ "zvt::packets::tlv::ZvtString" tlv_zvt_string;
  ct_ "zvt::packets::tlv::TextLines" tlv_text_lines;
  ct_ "zvt::packets::tlv::PrintTextBlock" tlv_print_text_block;
  ct_ "zvt::packets::tlv::Registration" tlv_registration;
  ct_ "zvt::feig::packets::tlv::File" tlv_file;
  ct_ "zvt::feig::packets::tlv::WriteData" tlv_write_data;
  ct_ "zvt::feig::packets::tlv::WriteFile" tlv_write_file;
  ct_ "zvt::feig::packets::tlv::HostConfigurationData" host_configuration_data;
  ct_ "zvt::feig::packets::tlv::SystemInformation" tlv_system_information;
  ct_ "zvt::feig::packets::tlv::ChangeConfiguration" tlv_change_configuration
].

(* ------------------------------------------------------------------ comparison up to what is on the wire *)

(* names erased; a decimal number's integer width erased; Fixed<w> over a w-byte binary integer is the
   same wire format as no length; tagged fields in ascending tag order (bitmaps may come in any order) *)
Definition norm_prim (e : Encoding.enc) (pr : prim) : prim :=
  match e, pr with
  | EBcd, PInt _ => PInt 8
  | EReceiptNo, PInt _ => PInt 8
  | _, _ => pr
  end.
Definition norm_ls (ls : lenstyle) (e : Encoding.enc) (pr : prim) : lenstyle :=
  match ls, e, pr with
  | LFixed n, EDefault, PInt w => if n =? w then LEmpty else ls
  | LFixed n, EBigEndian, PInt w => if n =? w then LEmpty else ls
  | _, _, _ => ls
  end.

Fixpoint insert_field (f : field) (l : list field) : list field :=
  match l with
  | [] => [f]
  | g :: r => match f_tag f, f_tag g with
              | Some a, Some c => if a <=? c then f :: l else g :: insert_field f r
              | _, _ => f :: l
              end
  end.

Fixpoint inner_prim (y : ty) : option prim :=
  match y with TPrim pr => Some pr | TOpt u => inner_prim u | TVec u => inner_prim u | TStruct _ => None end.

Fixpoint norm_ty (e : Encoding.enc) (y : ty) {struct y} : ty :=
  match y with
  | TPrim pr => TPrim (norm_prim e pr)
  | TOpt u => TOpt (norm_ty e u)
  | TVec u => TVec (norm_ty e u)
  | TStruct fs =>
      TStruct ((fix go (fs : list field) : list field :=
                  match fs with
                  | [] => []
                  | Fld _ tg ls e' t' :: r =>
                      let f' := Fld "" tg (match inner_prim t' with Some pr => norm_ls ls e' pr | None => ls end) e' (norm_ty e' t') in
                      match tg with
                      | None => f' :: go r
                      | Some _ => insert_field f' (go r)
                      end
                  end) fs)
  end.
Definition norm_fields (fs : list field) : list field :=
  match norm_ty EDefault (TStruct fs) with TStruct l => l | _ => [] end.

(* decidable equality of layouts *)
Definition ls_eqb (a c : lenstyle) : bool :=
  match a, c with
  | LEmpty, LEmpty | LTlv, LTlv | LAdpu, LAdpu | LTemperature, LTemperature => true
  | LFixed x, LFixed y => x =? y
  | LLlv x, LLlv y => x =? y
  | _, _ => false
  end.
Definition enc_eqb (a c : Encoding.enc) : bool :=
  match a, c with
  | EDefault, EDefault | EBigEndian, EBigEndian | EBcd, EBcd | EHex, EHex | EUtf8, EUtf8
  | ECustom, ECustom | EReceiptNo, EReceiptNo => true
  | _, _ => false
  end.
Definition prim_eqb (a c : prim) : bool :=
  match a, c with
  | PInt x, PInt y => x =? y
  | PString, PString | PDateTime, PDateTime | PBytes, PBytes => true
  | _, _ => false
  end.
Definition opt_eqb (a c : option N) : bool :=
  match a, c with Some x, Some y => x =? y | None, None => true | _, _ => false end.

Fixpoint ty_eqb (a c : ty) {struct a} : bool :=
  match a, c with
  | TPrim x, TPrim y => prim_eqb x y
  | TOpt x, TOpt y => ty_eqb x y
  | TVec x, TVec y => ty_eqb x y
  | TStruct fa, TStruct fc =>
      (fix go (fa fc : list field) : bool :=
         match fa, fc with
         | [], [] => true
         | Fld _ t1 l1 e1 y1 :: r1, Fld _ t2 l2 e2 y2 :: r2 =>
             opt_eqb t1 t2 && ls_eqb l1 l2 && enc_eqb e1 e2 && ty_eqb y1 y2 && go r1 r2
         | _, _ => false
         end) fa fc
  | _, _ => false
  end.
Definition layout_eqb (a c : list field) : bool := ty_eqb (TStruct (norm_fields a)) (TStruct (norm_fields c)).

(* role check: a name the specification knows must sit on the number the specification gives it *)
Definition role_ok (spec gen : list field) : bool :=
  forallb (fun g => match find (fun s => String.eqb (f_name s) (f_name g)) spec with
                    | Some s => opt_eqb (f_tag s) (f_tag g)
                    | None => true
                    end) gen.
