(* Spec.v — HAND-WRITTEN, independent of the Rust source: what the ZVT specification (PA00P015,
   rev. 13.x, chapters 2, 3, 9, 10) and the Feig cVEND manual assign.  Provenance marks as in
   DESIGN.md appendix C: (S) transcribed from the specification as I know it; (C) taken from the
   crate's documentation / captures because the document is not reproducible from memory.
   Nothing in this file is generated and nothing here looks at coq/gen. *)
From Zvt Require Import Base Length Cp437 Encoding Codec.
Open Scope N_scope.

(* ------------------------------------------------------------------ control fields *)
Definition CF_SET_DATE_TIME   : N * N := (4, 1).     (* 04 01 (S) *)
Definition CF_REQUEST_DATA    : N * N := (4, 12).    (* 04 0C (C) Feig 6.13 *)
Definition CF_STATUS_INFO     : N * N := (4, 15).    (* 04 0F (S) *)
Definition CF_INTERMEDIATE    : N * N := (4, 255).   (* 04 FF (S) *)
Definition CF_STATUS_ENQUIRY  : N * N := (5, 1).     (* 05 01 (S) *)
Definition CF_REGISTRATION    : N * N := (6, 0).     (* 06 00 (S) *)
Definition CF_AUTHORIZATION   : N * N := (6, 1).     (* 06 01 (S) *)
Definition CF_COMPLETION      : N * N := (6, 15).    (* 06 0F (S) *)
Definition CF_RESET_TERMINAL  : N * N := (6, 24).    (* 06 18 (S) *)
Definition CF_PRINT_SYSCONF   : N * N := (6, 26).    (* 06 1A (S) *)
Definition CF_SET_TERMINAL_ID : N * N := (6, 27).    (* 06 1B (S) *)
Definition CF_ABORT           : N * N := (6, 30).    (* 06 1E (S) *)
Definition CF_RESERVATION     : N * N := (6, 34).    (* 06 22 (S) *)
Definition CF_PARTIAL_REVERSAL: N * N := (6, 35).    (* 06 23 (S) *)
Definition CF_PREAUTH_REVERSAL: N * N := (6, 37).    (* 06 25 (S) *)
Definition CF_END_OF_DAY      : N * N := (6, 80).    (* 06 50 (S) *)
Definition CF_DIAGNOSIS       : N * N := (6, 112).   (* 06 70 (S) *)
Definition CF_INITIALISATION  : N * N := (6, 147).   (* 06 93 (S) *)
Definition CF_READ_CARD       : N * N := (6, 192).   (* 06 C0 (S) *)
Definition CF_PRINT_LINE      : N * N := (6, 209).   (* 06 D1 (S) *)
Definition CF_PRINT_TEXT_BLOCK: N * N := (6, 211).   (* 06 D3 (S) *)
Definition CF_CHANGE_CONFIG   : N * N := (8, 19).    (* 08 13 (C) *)
Definition CF_WRITE_FILE      : N * N := (8, 20).    (* 08 14 (C) *)
Definition CF_SELECT_LANGUAGE : N * N := (8, 48).    (* 08 30 (S) *)
Definition CF_CVEND_FUNCTIONS : N * N := (15, 161).  (* 0F A1 (C) *)
Definition CF_ACK             : N * N := (128, 0).   (* 80 00 (S) *)

(* ------------------------------------------------------------------ reply sets (appendix C.4)
   per command sequence: the command's control field, and the packets the terminal may send after
   its acknowledgement, each marked final (= ends the exchange) or not *)
Record exchange := {
  x_name : string;               (* ZVT name of the command; matched against the last path segment *)
  x_command : N * N;
  x_replies : list ((N * N) * bool)
}.

Definition progress : list ((N * N) * bool) :=   (* what a payment-type command may emit on the way *)
  [(CF_INTERMEDIATE, false); (CF_STATUS_INFO, false); (CF_PRINT_LINE, false); (CF_PRINT_TEXT_BLOCK, false)].

Definition exchanges : list exchange := [
  {| x_name := "Registration";  x_command := CF_REGISTRATION;    x_replies := [(CF_COMPLETION, true)] |};
  {| x_name := "ResetTerminal"; x_command := CF_RESET_TERMINAL;  x_replies := [(CF_COMPLETION, true)] |};
  {| x_name := "SelectLanguage"; x_command := CF_SELECT_LANGUAGE; x_replies := [(CF_COMPLETION, true)] |};
  {| x_name := "FactoryReset";  x_command := CF_CVEND_FUNCTIONS; x_replies := [(CF_COMPLETION, true)] |};
  {| x_name := "SetTerminalId"; x_command := CF_SET_TERMINAL_ID; x_replies := [(CF_COMPLETION, true); (CF_ABORT, true)] |};
  {| x_name := "ChangeHostConfiguration"; x_command := CF_CHANGE_CONFIG; x_replies := [(CF_COMPLETION, true); (CF_ABORT, true)] |};
  {| x_name := "GetSystemInfo"; x_command := CF_CVEND_FUNCTIONS; x_replies := [(CF_COMPLETION, true); (CF_ABORT, true)] |};
  {| x_name := "ReadCard";      x_command := CF_READ_CARD;
     x_replies := [(CF_INTERMEDIATE, false); (CF_STATUS_INFO, true); (CF_ABORT, true)] |};
  {| x_name := "Initialization"; x_command := CF_INITIALISATION;
     x_replies := [(CF_INTERMEDIATE, false); (CF_PRINT_LINE, false); (CF_PRINT_TEXT_BLOCK, false);
                   (CF_COMPLETION, true); (CF_ABORT, true)] |};
  {| x_name := "Diagnosis";     x_command := CF_DIAGNOSIS;
     x_replies := [(CF_INTERMEDIATE, false); (CF_SET_DATE_TIME, false); (CF_PRINT_LINE, false);
                   (CF_PRINT_TEXT_BLOCK, false); (CF_COMPLETION, true); (CF_ABORT, true)] |};
  {| x_name := "EndOfDay";      x_command := CF_END_OF_DAY;       x_replies := progress ++ [(CF_COMPLETION, true); (CF_ABORT, true)] |};
  {| x_name := "Authorization"; x_command := CF_AUTHORIZATION;    x_replies := progress ++ [(CF_COMPLETION, true); (CF_ABORT, true)] |};
  {| x_name := "Reservation";   x_command := CF_RESERVATION;      x_replies := progress ++ [(CF_COMPLETION, true); (CF_ABORT, true)] |};
  {| x_name := "PartialReversal"; x_command := CF_PARTIAL_REVERSAL; x_replies := progress ++ [(CF_COMPLETION, true); (CF_ABORT, true)] |};
  {| x_name := "PreAuthReversal"; x_command := CF_PREAUTH_REVERSAL; x_replies := progress ++ [(CF_COMPLETION, true); (CF_ABORT, true)] |};
  {| x_name := "PrintSystemConfiguration"; x_command := CF_PRINT_SYSCONF;
     x_replies := [(CF_PRINT_LINE, false); (CF_PRINT_TEXT_BLOCK, false); (CF_COMPLETION, true)] |};
  {| x_name := "StatusEnquiry"; x_command := CF_STATUS_ENQUIRY;
     x_replies := [(CF_INTERMEDIATE, false); (CF_PRINT_LINE, false); (CF_PRINT_TEXT_BLOCK, false); (CF_COMPLETION, true)] |}
].

(* the firmware upload (Feig 6.13) is not a Sequence impl: request for data is answered with data *)
Definition upload_exchange : exchange :=
  {| x_name := "WriteFile"; x_command := CF_WRITE_FILE;
     x_replies := [(CF_REQUEST_DATA, false); (CF_COMPLETION, true); (CF_ABORT, true)] |}.

(* the acknowledgement itself *)
Definition ack_replies : list (N * N) := [CF_ACK].

(* ------------------------------------------------------------------ C.6 Feig file ids (manual 6.13, table 2)  (C) *)
Definition upload_file_ids : list (string * N) := [
  ("firmware/kernel.gz", 0x10); ("firmware/rootfs.gz", 0x11); ("firmware/components.tar.gz", 0x12);
  ("firmware/update.spec", 0x13); ("firmware/update_extended.spec", 0x14);
  ("app0/update.spec", 0x20); ("app0/update.tar.gz", 0x21);
  ("app1/update.spec", 0x22); ("app1/update.tar.gz", 0x23);
  ("app2/update.spec", 0x24); ("app2/update.tar.gz", 0x25);
  ("app3/update.spec", 0x26); ("app3/update.tar.gz", 0x27);
  ("app4/update.spec", 0x28); ("app4/update.tar.gz", 0x29);
  ("app5/update.spec", 0x30); ("app5/update.tar.gz", 0x31);
  ("app6/update.spec", 0x32); ("app6/update.tar.gz", 0x33);
  ("app7/update.spec", 0x34); ("app7/update.tar.gz", 0x35)
]%string.

(* ------------------------------------------------------------------ C.5 result codes (ZVT ch. 10)
   (S) for the set of codes and which meaning belongs to which code; (C) for the exact English wording,
   which is pinned to the crate's text at the baseline commit (the specification's own wording is not
   reproducible from memory) — so a later edit that attaches a message to another code, drops a code or
   rewords a message is a changed table and an obligation of C20. *)
Definition result_codes : list (N * string) := [
  (100, "card not readable (LRC-/parity-error)");
  (101, "card-data not present (neither track-data nor chip found)");
  (102, "processing-error (also for problems with card-reader mechanism)");
  (103, "function not permitted for ec- and Maestro-cards");
  (104, "function not permitted for credit- and tank-cards");
  (106, "turnover-file full");
  (107, "function deactivated (PT not registered)");
  (108, "abort via timeout or abort-key");
  (110, "card in blocked-list (response to command 06 E4)");
  (111, "wrong currency");
  (113, "credit not sufficient (chip-card)");
  (114, "chip error");
  (115, "card-data incorrect (e.g. country-key check, checksum-error)");
  (116, "DUKPT engine exhausted");
  (117, "text not authentic");
  (118, "PAN not in white list");
  (119, "end-of-day batch not possible");
  (120, "card expired");
  (121, "card not yet valid");
  (122, "card unknown");
  (123, "fallback to magnetic stripe for girocard not possible");
  (124, "fallback to magnetic stripe not possible (used for non girocard cards)");
  (125, "communication error (communication module does not answer or is not present)");
  (126, "fallback to magnetic stripe not possible, debit advice possible (used only for giro-card)");
  (131, "function not possible");
  (133, "key missing");
  (137, "PIN-pad defective");
  (154, "ZVT protocol error. e. g. parsing error, mandatory message element missing");
  (155, "error from dial-up/communication fault");
  (156, "please wait");
  (160, "receiver not ready");
  (161, "remote station does not respond");
  (163, "no connection");
  (164, "submission of Geldkarte not possible");
  (165, "function not allowed due to PCI-DSS/P2PE rules");
  (177, "memory full");
  (178, "merchant-journal full");
  (180, "already reversed");
  (181, "reversal not possible");
  (183, "pre-authorization incorrect (amount too high) or amount wrong");
  (184, "error pre-authorization");
  (191, "voltage supply to low (external power supply)");
  (192, "card locking mechanism defective");
  (193, "merchant-card locked");
  (194, "diagnosis required");
  (195, "maximum amount exceeded");
  (196, "card-profile invalid. New card-profiles must be loaded.");
  (197, "payment method not supported");
  (198, "currency not applicable");
  (200, "amount too small");
  (201, "max. transaction-amount too small");
  (203, "function only allowed in EURO");
  (204, "printer not ready");
  (205, "Cashback not possible");
  (210, "function not permitted for service-cards/bank-customer-cards");
  (220, "card inserted");
  (221, "error during card-eject (for motor-insertion reader)");
  (222, "error during card-insertion (for motor-insertion reader)");
  (224, "remote-maintenance activated");
  (226, "card-reader does not answer / card-reader defective");
  (227, "shutter closed");
  (228, "Terminal activation required");
  (231, "min. one goods-group not found");
  (232, "no goods-groups-table loaded");
  (233, "restriction-code not permitted");
  (234, "card-code not permitted (e.g. card not activated via Diagnosis)");
  (235, "function not executable (PIN-algorithm unknown)");
  (236, "PIN-processing not possible");
  (237, "PIN-pad defective");
  (240, "open end-of-day batch present");
  (241, "ec-cash/Maestro offline error");
  (245, "OPT-error");
  (246, "OPT-data not available (= OPT personalization required)");
  (250, "error transmitting offline-transactions (clearing error)");
  (251, "turnover data-set defective");
  (252, "necessary device not present or defective");
  (253, "baudrate not supported");
  (254, "register unknown");
  (255, "system error (= other/unknown error), See TLV tags 1F16 and 1F17")
]%string.

(* ------------------------------------------------------------------ constants of the client (feig.rs / stream.rs / config.rs) *)
Definition client_constants : list (string * N) := [
  ("zvt_feig_terminal::feig::CARD_TYPE", 0x10);                     (* chip card, ZVT table 6            S *)
  ("zvt_feig_terminal::feig::SHORT_CARD_READING_CONTROL", 0xD0);    (* TLV 1F15                           C *)
  ("zvt_feig_terminal::feig::ALLOWED_CARDS", 0x07);                 (* TLV 1F60                           C *)
  ("zvt_feig_terminal::feig::DIALOG_CONTROL", 0x02);                (* BMP FC                             C *)
  ("zvt_feig_terminal::feig::PAYMENT_TYPE", 0x40);                  (* payment type by PT decision        S *)
  ("zvt_feig_terminal::stream::outer::inner::CONFIG_BYTE", 0xDE);   (* registration config byte           C *)
  ("zvt_feig_terminal::stream::TIMEOUT", 60);                       (* seconds per packet                 C *)
  ("zvt_feig_terminal::stream::.take", 20);                         (* retry budget                       C *)
  ("zvt_feig_terminal::stream::.throttle", 2);                      (* seconds between attempts           C *)
  ("zvt_feig_terminal::feig::.take", 20);
  ("zvt_feig_terminal::feig::.throttle", 2)
]%string.
Definition client_str_constants : list (string * string) := [("zvt_feig_terminal::feig::BMP_PREFIX", "AC")]%string.
Definition currencies_iso4217 : list (string * N) := [("SEK", 752); ("GBP", 826); ("EUR", 978)]%string.   (* S *)
