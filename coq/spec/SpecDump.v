(* SpecDump.v — prints the hand-written tables so that the Python oracles use the SAME specification
   (no second copy of the tables exists anywhere). *)
From Zvt Require Import Base.
From Zvt.spec Require Import Spec.
Open Scope N_scope.
Eval vm_compute in (map (fun x => (x_name x, x_command x, x_replies x)) (exchanges ++ [upload_exchange])).

(* ---- the specification layouts as JSON (same schema as .cache/gen/layouts.json) ---- *)
From Zvt Require Import Length Cp437 Encoding Codec.
From Zvt.spec Require Import SpecLayouts.
From Coq Require Import Ascii.
Open Scope string_scope.

Fixpoint n2s_fuel (fuel : nat) (n : N) (acc : string) : string :=
  match fuel with
  | O => acc
  | S f => let acc' := String (ascii_of_N (48 + n mod 10)) acc in
           if (n / 10 =? 0)%N then acc' else n2s_fuel f (n / 10)%N acc'
  end.
Definition n2s (n : N) : string := n2s_fuel 25 n "".

Definition q (s : string) : string := """" ++ s ++ """".
Definition ls_json (ls : lenstyle) : string :=
  match ls with
  | LEmpty => "LEmpty" | LTlv => "LTlv" | LAdpu => "LAdpu" | LTemperature => "LTemperature"
  | LFixed n => "LFixed " ++ n2s n | LLlv d => "LLlv " ++ n2s d
  end.
Definition enc_json (e : Encoding.enc) : string :=
  match e with
  | EDefault => "Default" | EBigEndian => "BigEndian" | EBcd => "Bcd" | EHex => "Hex" | EUtf8 => "Utf8"
  | ECustom => "Custom" | EReceiptNo => "PartialReversalReceiptNo"
  end.
Definition prim_json (p : prim) : string :=
  match p with
  | PInt 1 => "u8" | PInt 2 => "u16" | PInt 4 => "u32" | PInt _ => "usize"
  | PString => "String" | PDateTime => "NaiveDateTime" | PBytes => "Bytes"
  end.
Fixpoint join (sep : string) (l : list string) : string :=
  match l with [] => "" | [x] => x | x :: r => x ++ sep ++ join sep r end.

Fixpoint ty_json (y : ty) {struct y} : string :=
  match y with
  | TPrim p => "{""k"":""prim"",""p"":" ++ q (prim_json p) ++ "}"
  | TOpt u => "{""k"":""opt"",""t"":" ++ ty_json u ++ "}"
  | TVec u => "{""k"":""vec"",""t"":" ++ ty_json u ++ "}"
  | TStruct fs =>
      "{""k"":""struct"",""name"":""spec"",""fields"":[" ++
      join "," ((fix go (fs : list field) : list string :=
                   match fs with
                   | [] => []
                   | Fld n tg ls e t' :: r =>
                       ("{""name"":" ++ q n ++ ",""tag"":" ++ (match tg with Some t0 => n2s t0 | None => "null" end) ++
                        ",""length"":" ++ q (ls_json ls) ++ ",""encoding"":" ++ q (enc_json e) ++
                        ",""ty"":" ++ ty_json t' ++ "}") :: go r
                   end) fs) ++ "]}"
  end.

Definition packet_json (p : packet) : string :=
  "{""name"":" ++ q (k_rust p) ++ ",""control"":" ++
  (match k_cf p with Some (c, i) => "[" ++ n2s c ++ "," ++ n2s i ++ "]" | None => "null" end) ++
  ",""layout"":" ++ ty_json (TStruct (k_fields p)) ++ "}".

Definition spec_json : list string := map (fun p => "SPECJSON" ++ packet_json p) packets.
Eval vm_compute in spec_json.
