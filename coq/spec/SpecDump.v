(* SpecDump.v — prints the hand-written tables so that the Python oracles use the SAME specification
   (no second copy of the tables exists anywhere). *)
From Zvt Require Import Base.
From Zvt.spec Require Import Spec.
Open Scope N_scope.
Eval vm_compute in (map (fun x => (x_name x, x_command x, x_replies x)) (exchanges ++ [upload_exchange])).
