(* SpecLayoutCheck.v — obligation G of C03: every layout regenerated from /repo equals the
   hand-written specification layout (up to what is visible on the wire), control fields included,
   and every field name the specification knows sits at the specified number / position. *)
From Zvt Require Import Base Length Cp437 Encoding Codec Lookup.
From Zvt.gen Require Import Layouts Tables.
From Zvt.spec Require Import Spec SpecLayouts.
Open Scope N_scope.

(* address of each field: its number, or its index among the positional fields *)
Fixpoint addrs (fs : list field) (i : N) : list (string * (option N * N)) :=
  match fs with
  | [] => []
  | Fld n (Some t) _ _ _ :: r => (n, (Some t, 0)) :: addrs r i
  | Fld n None _ _ _ :: r => (n, (None, i)) :: addrs r (i + 1)
  end.
Definition addr_eqb (a c : option N * N) : bool := opt_eqb (fst a) (fst c) && (snd a =? snd c).
Definition roles_ok (spec gen : list field) : bool :=
  let sa := addrs spec 0 in
  forallb (fun g => match find (fun s => String.eqb (fst s) (fst g)) sa with
                    | Some s => addr_eqb (snd s) (snd g)
                    | None => true
                    end) (addrs gen 0).

Definition cf_eqb (a c : option (N * N)) : bool :=
  match a, c with
  | Some (x, y), Some (u, v) => (x =? u) && (y =? v)
  | None, None => true
  | _, _ => false
  end.

Definition packet_ok (p : packet) : bool :=
  match find_struct (k_rust p) with
  | Some (cf, fs) => cf_eqb cf (k_cf p) && layout_eqb fs (k_fields p) && roles_ok (k_fields p) fs
  | None => false
  end.

(* the names of the entries that do not agree (empty on the unchanged tree): this is what the
   check prints and what seeds the search for a failing input *)
Definition disagreeing : list string := map k_rust (filter (fun p => negb (packet_ok p)) packets).
Definition uncovered : list string :=
  map (fun s => fst (fst s)) (filter (fun s => negb (existsb (fun p => String.eqb (k_rust p) (fst (fst s))) packets)) structs).

Definition spec_layouts_ok : bool :=
  forallb packet_ok packets && Nat.eqb (length packets) (length structs) &&
  match uncovered with [] => true | _ => false end.

Lemma spec_layouts_agree : spec_layouts_ok = true.
Proof. vm_compute. reflexivity. Qed.

Lemma shipped_layout_is_specified name cf fs : In (name, cf, fs) structs ->
  exists p, In p packets /\ k_rust p = name.
Proof.
  intros H. pose proof spec_layouts_agree as S. unfold spec_layouts_ok in S.
  apply andb_prop in S. destruct S as [_ S]. destruct uncovered eqn:E; [|discriminate].
  unfold uncovered in E.
  assert (F : existsb (fun p => String.eqb (k_rust p) name) packets = true).
  { destruct (existsb (fun p => String.eqb (k_rust p) name) packets) eqn:X; [reflexivity|].
    assert (In (name, cf, fs) (filter (fun s => negb (existsb (fun p => String.eqb (k_rust p) (fst (fst s))) packets)) structs)).
    { apply filter_In. split; [exact H|]. cbn [fst]. rewrite X. reflexivity. }
    apply (in_map (fun s => fst (fst s))) in H0. rewrite E in H0. contradiction. }
  apply existsb_exists in F. destruct F as [p [Hp Hn]]. exists p. split; [exact Hp|].
  apply String.eqb_eq. exact Hn.
Qed.
