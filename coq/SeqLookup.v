(* SeqLookup.v — name -> regenerated sequence table entry; what the sequence correspondence runs. *)
From Zvt Require Import Base Length Cp437 Encoding Codec Lookup Transport Sequence.
From Zvt.gen Require Import Layouts Tables.
Open Scope N_scope.

Fixpoint find_seq (n : string) (l : list (string * string * string * seq_mode)) : option (string * string * seq_mode) :=
  match l with
  | [] => None
  | (name, i, o, m) :: r => if String.eqb name n then Some (i, o, m) else find_seq n r
  end.

Fixpoint index_of_variant (n : string) (vs : list variant) (i : N) : option N :=
  match vs with
  | [] => None
  | (nm, _) :: r => if String.eqb nm n then Some i else index_of_variant n r (i + 1)
  end.

Definition final_fn (vs : list variant) (fin : list string) : N -> bool :=
  let idx := flat_map (fun n => match index_of_variant n vs 0 with Some i => [i] | None => [] end) fin in
  fun i => existsb (N.eqb i) idx.

Definition ack_enum : list variant := match find_enum "zvt::io::Ack" with Some v => v | None => [] end.

Definition mode_of (vs : list variant) (m : seq_mode) : mode :=
  match m with SSingle => Single | SLoop fin => Loop (final_fn vs fin) end.

(* into_stream(&input, src) where input = Input::zvt_deserialize(input_bytes) *)
Definition run_seq_named (name : string) (input_bytes script : bytes) : option (list ev * bytes) :=
  match find_seq name sequences with
  | None => None
  | Some (i, o, m) =>
      match run_dec i input_bytes, find_enum o with
      | Some (Ok _, Ok cmd), Some vs => Some (run_seq (mode_of vs m) cmd ack_enum vs script)
      | _, _ => None
      end
  end.

Definition upload_env_of (files : list (N * bytes)) (block : N) : option upload_env :=
  match find_struct "zvt::feig::packets::WriteData", find_enum "zvt::feig::sequences::WriteFileResponse" with
  | Some (Some (c, i), fs), Some vs =>
      match index_of_variant "CompletionData" vs 0, index_of_variant "RequestForData" vs 0, index_of_variant "Abort" vs 0 with
      | Some a, Some b, Some d =>
          Some {| u_files := files; u_block := block;
                  u_write_data := {| c_class := c; c_instr := i; c_fields := fs |};
                  u_replies := vs; u_ix_completion := a; u_ix_request := b; u_ix_abort := d |}
      | _, _, _ => None
      end
  | _, _ => None
  end.

Definition announce_value (password : N) (files : list (N * bytes)) : value :=
  VRec [VInt password;
        VSome (VRec [VList (map (fun f => VRec [VSome (VInt (fst f)); VNone; VSome (VInt (blen (snd f) mod 4294967296)); VNone]) files)])].

Definition run_upload_named (files : list (N * bytes)) (block password : N) (script : bytes) : option (list ev * bytes) :=
  match upload_env_of files block, run_enc "zvt::feig::packets::WriteFile" (announce_value password files) with
  | Some E, Some (Ok ann) => Some (run_upload E ann ack_enum script)
  | _, _ => None
  end.
