(* GenCheck.v — side conditions of the tables regenerated from /repo, discharged by computation. *)
From Zvt Require Import Base Length Cp437 Encoding Codec Lookup CodecTotal.
From Zvt.gen Require Import Layouts Tables.
Open Scope N_scope.

Lemma no_unrecognised : unrecognised = [].
Proof. reflexivity. Qed.

Definition shipped_depth_ok : bool :=
  forallb (fun x => match x with (_, _, fs) => Nat.leb (depth_fields fs) (S FUEL) end) structs &&
  forallb (fun x => match x with (_, vs) =>
             forallb (fun y => match y with (_, c) => Nat.leb (depth_fields (c_fields c)) (S FUEL) end) vs end) enums.

Lemma shipped_depth : shipped_depth_ok = true.
Proof. vm_compute. reflexivity. Qed.

Lemma shipped_struct_depth name c fs : In (name, c, fs) structs -> (depth_fields fs <= S FUEL)%nat.
Proof.
  intros H. pose proof shipped_depth as S. unfold shipped_depth_ok in S.
  apply andb_prop in S. destruct S as [S _]. rewrite forallb_forall in S.
  specialize (S _ H). cbn in S. apply Nat.leb_le. exact S.
Qed.

Lemma shipped_enum_depth name vs nm c : In (name, vs) enums -> In (nm, c) vs ->
  (depth_fields (c_fields c) <= S FUEL)%nat.
Proof.
  intros H H2. pose proof shipped_depth as S. unfold shipped_depth_ok in S.
  apply andb_prop in S. destruct S as [_ S]. rewrite forallb_forall in S.
  specialize (S _ H). cbn in S. rewrite forallb_forall in S. specialize (S _ H2). cbn in S.
  apply Nat.leb_le. exact S.
Qed.

(* every shipped command decoder and every shipped reply parser is total *)
Lemma shipped_packets_total name c i fs bs : In (name, Some (c, i), fs) structs ->
  let r := dec_cmd FUEL {| c_class := c; c_instr := i; c_fields := fs |} bs in
  r <> Panic /\ r <> OutOfFuel /\ (forall v rest, r = Ok (v, rest) -> blen rest <= blen bs).
Proof.
  intros H. apply dec_cmd_total. cbn [c_fields]. eapply shipped_struct_depth. exact H.
Qed.

Lemma shipped_plain_total name fs bs : In (name, None, fs) structs ->
  let r := dec_plain FUEL fs bs in r <> Panic /\ r <> OutOfFuel.
Proof.
  intros H. cbn zeta. unfold dec_plain, dec_struct.
  pose proof (framed_dec_np LEmpty false None _ (dec_struct_with_np (dec FUEL) fs (dec_np FUEL)) bs) as [A _].
  split; [exact A|]. apply framed_dec_fuel. intros x. apply dec_struct_with_fuel; [apply dec_np|].
  intros g Hg tag x'. apply dec_fuel_sufficient. pose proof (depth_field_lt g _ Hg).
  pose proof (shipped_struct_depth _ _ _ H). unfold depth_fields in *. lia.
Qed.

Lemma shipped_parsers_total name vs bs : In (name, vs) enums ->
  parse_enum FUEL vs bs <> Panic /\ parse_enum FUEL vs bs <> OutOfFuel.
Proof.
  intros H. apply parse_enum_total. intros nm c Hin. eapply shipped_enum_depth; eassumption.
Qed.

(* ---------- allocation (CodecSize.v): every shipped layout nests at most 10 deep, so a decoded packet holds at
   most 12 units (characters, bytes, list elements) per byte of the APDU ---------- *)
From Zvt Require Import CodecSize.

Definition shipped_small_depth_ok : bool :=
  forallb (fun x => match x with (_, _, fs) => Nat.leb (depth_fields fs) 10 end) structs &&
  forallb (fun x => match x with (_, vs) =>
             forallb (fun y => match y with (_, c) => Nat.leb (depth_fields (c_fields c)) 10 end) vs end) enums.
Lemma shipped_small_depth : shipped_small_depth_ok = true.
Proof. vm_compute. reflexivity. Qed.

Lemma shipped_packets_sized name c i fs fuel bs v r : In (name, Some (c, i), fs) structs ->
  dec_cmd fuel {| c_class := c; c_instr := i; c_fields := fs |} bs = Ok (v, r) -> wsize v <= 12 * blen bs.
Proof.
  intros H E. pose proof (dec_cmd_sized fuel _ bs v r E) as B. cbn [c_fields] in B.
  pose proof shipped_small_depth as S. unfold shipped_small_depth_ok in S. apply andb_prop in S. destruct S as [S _].
  rewrite forallb_forall in S. specialize (S _ H). cbv beta iota in S. apply Nat.leb_le in S.
  unfold Kt, depth_fields in *. assert (2 + N.of_nat (depth (TStruct fs)) <= 12) by lia.
  pose proof (N.mul_le_mono_r _ _ (blen bs) H0). lia.
Qed.

Lemma shipped_parsers_sized name vs fuel bs i v : In (name, vs) enums ->
  parse_enum fuel vs bs = Ok (i, v) -> wsize v <= 12 * blen bs.
Proof.
  intros H E. destruct (parse_enum_sized fuel vs bs i v E) as [c [Hin B]].
  apply in_map_iff in Hin. destruct Hin as [[nm c0] [Ec Hin]]. cbn in Ec. subst c0.
  pose proof shipped_small_depth as S. unfold shipped_small_depth_ok in S. apply andb_prop in S. destruct S as [_ S].
  rewrite forallb_forall in S. specialize (S _ H). cbv beta iota in S. rewrite forallb_forall in S. specialize (S _ Hin). cbv beta iota in S.
  apply Nat.leb_le in S. unfold Kt, depth_fields in *. assert (2 + N.of_nat (depth (TStruct (c_fields c))) <= 12) by lia.
  pose proof (N.mul_le_mono_r _ _ (blen bs) H0). lia.
Qed.
