(* CanonClass.v — step 4 of C01: a DECIDABLE class of (layout, value) pairs, `canon`, and the theorem
   that every pair in it serialises and reads back exactly (CanonRoundtrip.v).  `canon ls e t tag v ctx`
   returns the bytes of the field when (t, v) is in the class.  ctx = Some r: the bytes that follow in the
   same buffer are known to be r;  ctx = None: anything may follow (the field must be self-delimiting). *)
From Zvt Require Import Base Length Cp437 Encoding Codec.
Open Scope N_scope.

Fixpoint list_eqb (a b : list N) : bool :=
  match a, b with
  | [], [] => true
  | x :: a', y :: b' => (x =? y) && list_eqb a' b'
  | _, _ => false
  end.

(* equality of the values primitives produce *)
Definition flat_eqb (a b : value) : bool :=
  match a, b with
  | VInt x, VInt y => x =? y
  | VStr x, VStr y => list_eqb x y
  | VBytes x, VBytes y => list_eqb x y
  | VDate y1 mo1 d1 h1 mi1 s1, VDate y2 mo2 d2 h2 mi2 s2 =>
      (y1 =? y2)%Z && (mo1 =? mo2) && (d1 =? d2) && (h1 =? h2) && (mi1 =? mi2) && (s1 =? s2)
  | _, _ => false
  end.

Definition ok_is (x : res (value * bytes)) (v : value) (r : bytes) : bool :=
  match x with Ok (v', r') => flat_eqb v' v && list_eqb r' r | _ => false end.
Definition is_err {A} (x : res A) : bool := match x with Err _ => true | _ => false end.
Definition is_nil {A} (l : list A) : bool := match l with [] => true | _ => false end.

(* a number the one-or-two byte tag encoding can carry *)
Definition tag_repr_b (t : N) : bool :=
  ((t <? 256) && negb (t =? 31) && negb (t =? 255)) || ((t / 256 =? 31) || (t / 256 =? 255)) && (t <? 65536).
Definition tag_ok_b (tag : option N) : bool := match tag with None => true | Some t => tag_repr_b t end.

(* a fixed-width binary integer: reads exactly its w bytes *)
Definition int_strict (e : Encoding.enc) (p : prim) (v : value) : bool :=
  match e, p, v with
  | EDefault, PInt w, VInt n => n <? 256 ^ w
  | EBigEndian, PInt w, VInt n => n <? 256 ^ w
  | _, _, _ => false
  end.

(* Fixed<k> over BCD: the writer left-pads with zeros *)
Definition bcd_fixed (ls : lenstyle) (e : Encoding.enc) (p : prim) (v : value) : bool :=
  match ls, e, p, v with
  | LFixed k, EBcd, PInt w, VInt n => (n <? 100 ^ k) && (n <? 2 ^ (8 * w)) && (n <? 2 ^ 64)
  | _, _, _, _ => false
  end.

Definition bytes_empty (p : prim) (v : value) : bool :=
  match p, v with PBytes, VBytes [] => true | _, _ => false end.

Definition canon_prim (ls : lenstyle) (e : Encoding.enc) (p : prim) (tag : option N) (v : value) (ctx : option bytes)
  : option bytes :=
  if bytes_empty p v then None else             (* written as nothing at all: reads back as "absent" *)
    match prim_enc e p v with
    | Ok pl =>
        match framed_enc_p ls p tag pl with
        | Ok g =>
            if tag_ok_b tag &&
               ((delimiting ls && len_fits ls (blen pl) && ok_is (prim_dec e p pl) v [])
                || (match ls with LEmpty => int_strict e p v | _ => false end)
                || bcd_fixed ls e p v
                || (match ls with
                    | LFixed k => (blen pl <=? k) && ok_is (prim_dec e p (pad_payload p k pl)) v []
                    | _ => false
                    end)
                || (match ctx with
                    | Some r0 => ok_is (framed_dec ls false tag (prim_dec e p) (g ++ r0)) v r0
                    | None => false
                    end))
            then Some g else None
        | _ => None
        end
    | _ => None
    end.

Definition elem_kind (e : Encoding.enc) (u : ty) : bool :=
  match u with TPrim _ => true | TStruct _ => match e with EDefault => true | _ => false end | _ => false end.

(* a repeated field: tagged (the loop stops at the first other tag), or positional over primitives as the very
   last thing in its buffer (the loop stops because the element reader fails on nothing) *)
Definition vec_ok (ls : lenstyle) (e : Encoding.enc) (u : ty) (tag : option N) (ctx : option bytes) : bool :=
  match tag with
  | Some _ => elem_kind e u
  | None => match u, ctx with
            | TPrim p, Some [] => is_err (framed_dec ls false None (prim_dec e p) [])
            | _, _ => false
            end
  end.

Fixpoint nodup_b (l : list N) : bool :=
  match l with [] => true | x :: r => negb (existsb (N.eqb x) r) && nodup_b r end.

Fixpoint canon (ls : lenstyle) (e : Encoding.enc) (t : ty) (tag : option N) (v : value) (ctx : option bytes) {struct t}
  : option bytes :=
  match t, v with
  | TPrim p, _ => canon_prim ls e p tag v ctx
  | TOpt u, VSome x =>
      match canon ls e u tag x ctx with
      | Some g => if is_nil g && (match tag with Some _ => true | None => false end) then None else Some g
                                                           (* a tagged Some(x) must leave a trace *)
      | None => None
      end
  | TOpt u, VNone =>
      match tag with
      | Some _ => Some []
      | None =>                                            (* positional: absent only where the inner reader fails *)
          match u, ctx with
          | TPrim p, Some r0 => if is_err (framed_dec ls false None (prim_dec e p) r0) then Some [] else None
          | _, _ => None
          end
      end
  | TVec u, VList xs =>
      if vec_ok ls e u tag ctx then
        (fix go (xs : list value) : option bytes :=
           match xs with
           | [] => Some []
           | x :: xr => match canon ls e u tag x None, go xr with
                        | Some g, Some gr => if is_nil g then None else Some (g ++ gr)
                        | _, _ => None
                        end
           end) xs
      else None
  | TStruct fs, VRec vs =>
      match e with
      | EDefault =>
          (* the payload: fields in declaration order; tail = what follows the payload inside its buffer *)
          let tail := match ls with LEmpty => match tag with None => ctx | Some _ => None end | _ => Some [] end in
          let tagged_allowed := match tail with Some [] => true | _ => false end in
          match (fix go (fs : list field) (vs : list value) (after_tagged : bool) : option bytes :=
                   match fs, vs with
                   | [], [] => Some []
                   | Fld _ tg l' e' t' :: fr, x :: vr =>
                       match tg with
                       | None =>
                           if after_tagged then None else
                           match go fr vr false with
                           | Some rest =>
                               match canon l' e' t' None x (match tail with Some tl => Some (rest ++ tl) | None => None end) with
                               | Some g => Some (g ++ rest)
                               | None => None
                               end
                           | None => None
                           end
                       | Some tn =>
                           if tagged_allowed && tag_repr_b tn then
                             match go fr vr true with
                             | Some rest =>
                                 match canon l' e' t' (Some tn) x None with
                                 | Some g => Some (g ++ rest)
                                 | None => None
                                 end
                             | None => None
                             end
                           else None
                       end
                   | _, _ => None
                   end) fs vs false with
          | Some pl =>
              if nodup_b (tags_of fs) then
                match ls with
                | LEmpty => match tag with None => Some pl | Some _ => None end
                | _ =>
                    if delimiting ls && len_fits ls (blen pl) && tag_ok_b tag then
                      match framed_enc ls false tag pl with Ok g => Some g | _ => None end
                    else None
                end
              else None
          | None => None
          end
      | _ => None
      end
  | _, _ => None
  end.

(* the field loop of `canon` for a struct, as a function of its own (CanonRoundtrip.canon_struct_unfold) *)
Fixpoint canon_fields (tail : option bytes) (tagged_allowed : bool) (fs : list field) (vs : list value) (after_tagged : bool)
  : option bytes :=
  match fs, vs with
  | [], [] => Some []
  | Fld _ tg l' e' t' :: fr, x :: vr =>
      match tg with
      | None =>
          if after_tagged then None else
          match canon_fields tail tagged_allowed fr vr false with
          | Some rest =>
              match canon l' e' t' None x (match tail with Some tl => Some (rest ++ tl) | None => None end) with
              | Some g => Some (g ++ rest)
              | None => None
              end
          | None => None
          end
      | Some tn =>
          if tagged_allowed && tag_repr_b tn then
            match canon_fields tail tagged_allowed fr vr true with
            | Some rest =>
                match canon l' e' t' (Some tn) x None with
                | Some g => Some (g ++ rest)
                | None => None
                end
            | None => None
            end
          else None
      end
  | _, _ => None
  end.

(* a struct whose tagged groups may arrive in ANY order: the positional fields must be self-delimiting
   (context None), everything else as in `canon` *)
Definition canon_anyorder (fs : list field) (v : value) : option bytes :=
  match v with
  | VRec vs => if nodup_b (tags_of fs) then canon_fields None true fs vs false else None
  | _ => None
  end.

(* a whole packet without / with a control field *)
Definition canon_struct (fs : list field) (v : value) : option bytes := canon LEmpty EDefault (TStruct fs) None v (Some []).
Definition canon_cmd (c : cmd) (v : value) : option bytes :=
  match canon_struct (c_fields c) v with
  | Some pl => if (blen pl <=? 65535) && (cf c <? 65536) then
                 match framed_enc LAdpu true (Some (cf c)) pl with Ok g => Some g | _ => None end
               else None
  | None => None
  end.
