(* Lookup.v — name -> generated table entry; what the correspondence driver runs. *)
From Zvt Require Import Base Length Cp437 Encoding Codec.
From Zvt.gen Require Import Layouts Tables.
Open Scope N_scope.

Fixpoint assoc {B} (k : string) (l : list (string * B)) : option B :=
  match l with
  | [] => None
  | (k', v) :: r => if String.eqb k k' then Some v else assoc k r
  end.

Definition find_struct (name : string) : option (option (N * N) * list field) :=
  assoc name (map (fun x => match x with (n, c, f) => (n, (c, f)) end) structs).
Definition find_enum (name : string) : option (list variant) := assoc name enums.

Definition FUEL : nat := 64.

(* T::zvt_deserialize, then zvt_serialize of the decoded value *)
Definition run_dec (name : string) (bs : bytes) : option (res (value * bytes) * res bytes) :=
  match find_struct name with
  | None => None
  | Some (Some (c, i), fs) =>
      let cm := {| c_class := c; c_instr := i; c_fields := fs |} in
      let r := dec_cmd FUEL cm bs in
      Some (r, match r with Ok (v, _) => enc_cmd cm v | _ => Err NonImplemented end)
  | Some (None, fs) =>
      let r := dec_plain FUEL fs bs in
      Some (r, match r with Ok (v, _) => enc_struct fs v | _ => Err NonImplemented end)
  end.

Definition run_enc (name : string) (v : value) : option (res bytes) :=
  match find_struct name with
  | None => None
  | Some (Some (c, i), fs) => Some (enc_cmd {| c_class := c; c_instr := i; c_fields := fs |} v)
  | Some (None, fs) => Some (enc_struct fs v)
  end.

Definition run_enum (name : string) (bs : bytes) : option (res (N * value)) :=
  match find_enum name with
  | None => None
  | Some vs => Some (parse_enum FUEL vs bs)
  end.
