(* EncodingProps.v — theorems about Encoding.v (C17 and building blocks for C01/C02). *)
From Zvt Require Import Base Length LengthProps Cp437 Encoding.
From Coq Require Import ZifyBool ZifyNat ZifyN.
Ltac Zify.zify_post_hook ::= Z.div_mod_to_equations.
Open Scope N_scope.

(* ---------- integers ---------- *)

Lemma le_bytes_len k : forall n, length (le_bytes k n) = k.
Proof. induction k as [|k IH]; intros n; cbn [le_bytes length]; [reflexivity|]. rewrite IH. reflexivity. Qed.

Lemma le_bytes_ok k : forall n, bytes_ok (le_bytes k n).
Proof.
  induction k as [|k IH]; intros n; cbn [le_bytes]; constructor; [|apply IH].
  unfold byte_ok. apply N.mod_upper_bound. lia.
Qed.

Lemma le_value_bytes k : forall n, le_value (le_bytes k n) = n mod 256 ^ N.of_nat k.
Proof.
  induction k as [|k IH]; intros n.
  - cbn. rewrite N.mod_1_r. reflexivity.
  - cbn [le_bytes le_value]. rewrite IH, Nat2N.inj_succ, N.pow_succ_r'.
    rewrite (N.mod_mul_r n 256 (256 ^ N.of_nat k)) by (try apply N.pow_nonzero; lia). lia.
Qed.

Lemma le_bytes_value bs : bytes_ok bs -> le_bytes (length bs) (le_value bs) = bs.
Proof.
  induction 1 as [|b r Hb Hr IH]; [reflexivity|]. unfold byte_ok in Hb.
  cbn [length le_bytes le_value]. remember (le_value r) as v. f_equal.
  - lia.
  - replace ((b + 256 * v) / 256) with v by lia. exact IH.
Qed.

Lemma int_enc_len big w n : blen (int_enc big w n) = w.
Proof.
  unfold int_enc, be_bytes, blen. destruct big; rewrite ?rev_length, le_bytes_len; lia.
Qed.

Lemma int_enc_ok big w n : bytes_ok (int_enc big w n).
Proof.
  unfold int_enc, be_bytes. destruct big; [apply Forall_rev|]; apply le_bytes_ok.
Qed.

Lemma int_roundtrip big w n r : n < 256 ^ w ->
  int_dec big w (int_enc big w n ++ r) = Ok (n, r).
Proof.
  intros H. pose proof (int_enc_len big w n) as Hl.
  assert (Hv : (if big then be_value (int_enc big w n) else le_value (int_enc big w n)) = n).
  { unfold int_enc, be_bytes, be_value. destruct big; rewrite ?rev_involutive, le_value_bytes, N2Nat.id;
      apply N.mod_small; exact H. }
  remember (int_enc big w n) as p. unfold int_dec. rewrite blen_app, Hl.
  destruct (w + blen r <? w) eqn:E; [lia|].
  replace (take w (p ++ r)) with p by (rewrite <- Hl; symmetry; apply take_app_exact).
  replace (drop w (p ++ r)) with r by (rewrite <- Hl; symmetry; apply drop_app_exact).
  destruct big; rewrite Hv; reflexivity.
Qed.

Lemma int_dec_short big w q : blen q < w -> int_dec big w q = Err IncompleteData.
Proof. intros H. unfold int_dec. destruct (blen q <? w) eqn:E; [reflexivity|lia]. Qed.

(* ---------- BCD ---------- *)

(* the unbounded reading of a BCD string: what the decoder computes when nothing overflows *)
Fixpoint bcd_acc (bs : bytes) (rv : N) : N :=
  match bs with
  | [] => rv
  | d :: r => bcd_acc r (if d mod 16 =? 15 then rv * 10 + d / 16 else rv * 100 + (d / 16) * 10 + d mod 16)
  end.

Lemma bcd_acc_mono bs : forall rv, rv <= bcd_acc bs rv.
Proof.
  induction bs as [|d r IH]; intros rv; cbn [bcd_acc]; [lia|].
  etransitivity; [|apply IH]. destruct (d mod 16 =? 15); lia.
Qed.

Lemma bcd_acc_app a b rv : bcd_acc (a ++ b) rv = bcd_acc b (bcd_acc a rv).
Proof. revert rv. induction a as [|d r IH]; intros rv; cbn [app bcd_acc]; [reflexivity|apply IH]. Qed.

(* full characterisation of the decoder: the exact value when it fits, an error otherwise —
   never a wrapped value *)
Lemma bcd_dec_loop_spec w bs : forall rv, rv < 2 ^ (8 * w) ->
  bcd_dec_loop w bs rv = if bcd_acc bs rv <? 2 ^ (8 * w) then Ok (bcd_acc bs rv) else Err IncompleteData.
Proof.
  induction bs as [|d r IH]; intros rv Hrv; cbn [bcd_dec_loop bcd_acc].
  - destruct (rv <? 2 ^ (8 * w)) eqn:E; [reflexivity|lia].
  - set (nv := if d mod 16 =? 15 then rv * 10 + d / 16 else rv * 100 + d / 16 * 10 + d mod 16).
    destruct (nv <? 2 ^ (8 * w)) eqn:E.
    + apply IH. lia.
    + pose proof (bcd_acc_mono r nv). destruct (bcd_acc r nv <? 2 ^ (8 * w)) eqn:E2; [lia|reflexivity].
Qed.

Lemma bcd_dec_spec w bs :
  bcd_dec w bs = if bcd_acc bs 0 <? 2 ^ (8 * w) then Ok (bcd_acc bs 0, []) else Err IncompleteData.
Proof.
  unfold bcd_dec. rewrite bcd_dec_loop_spec by (apply N.neq_0_lt_0, N.pow_nonzero; lia).
  destruct (_ <? _); reflexivity.
Qed.

Definition digit_byte (b : N) : Prop := b / 16 <= 9 /\ b mod 16 <= 9 /\ b < 256.

Lemma bcd_enc_loop_spec fuel : forall k acc, k < 100 ^ N.of_nat fuel ->
  exists pre, bcd_enc_loop fuel k acc = Ok (pre ++ acc) /\
              (forall rv, bcd_acc pre rv = rv * 100 ^ blen pre + k) /\
              Forall digit_byte pre /\
              (k <> 0 -> exists b t, pre = b :: t /\ b <> 0) /\
              (k = 0 -> pre = []).
Proof.
  induction fuel as [|fuel IH]; intros k acc Hk.
  - cbn in Hk. assert (k = 0) by lia. subst. exists []. cbn. repeat split; try constructor; try lia.
    intros rv. unfold blen. cbn. lia.
  - cbn [bcd_enc_loop]. destruct (k =? 0) eqn:E0.
    + assert (k = 0) by lia. subst. exists []. repeat split; try constructor; try lia.
      intros rv. unfold blen. cbn. lia.
    + rewrite Nat2N.inj_succ, N.pow_succ_r' in Hk.
      set (b := (k / 10) mod 10 * 16 + k mod 10).
      assert (Hb16 : b / 16 = (k / 10) mod 10) by (unfold b; lia).
      assert (Hbm : b mod 16 = k mod 10) by (unfold b; lia).
      destruct (IH (k / 10 / 10) (b :: acc)) as [pre [Hs [Hv [Hd [Hnz Hz]]]]]; [lia|].
      exists (pre ++ [b]). rewrite <- app_assoc. split; [exact Hs|]. split; [|split; [|split]].
      * intros rv. rewrite bcd_acc_app, Hv. cbn [bcd_acc]. rewrite Hb16, Hbm.
        destruct (k mod 10 =? 15) eqn:E15; [lia|].
        rewrite blen_app. change (blen [b]) with 1. rewrite N.pow_add_r, N.pow_1_r. lia.
      * apply Forall_app. split; [exact Hd|]. constructor; [|constructor].
        unfold digit_byte. rewrite Hb16, Hbm. unfold b. lia.
      * intros _. destruct (N.eq_dec (k / 10 / 10) 0) as [Ez|Enz].
        -- rewrite (Hz Ez). exists b, []. split; [reflexivity|]. unfold b. lia.
        -- destruct (Hnz Enz) as [b0 [t [-> Hb0]]]. exists b0, (t ++ [b]). split; [reflexivity|exact Hb0].
      * lia.
Qed.

Lemma pow100_40 : 2 ^ 64 < 100 ^ 40. Proof. reflexivity. Qed.

(* encoder: digits 0-9 only, most significant first (positional value = n), no leading zero byte,
   0 encodes as the empty string; decoder inverts it in every width that holds n *)
Lemma bcd_roundtrip w n : n < 2 ^ (8 * w) -> n < 2 ^ 64 ->
  exists bs, bcd_enc n = Ok bs /\ Forall digit_byte bs /\ bcd_acc bs 0 = n /\
             (n <> 0 -> exists b t, bs = b :: t /\ b <> 0) /\ (n = 0 -> bs = []) /\
             bcd_dec w bs = Ok (n, []).
Proof.
  intros Hw H64. unfold bcd_enc.
  destruct (bcd_enc_loop_spec 40 n []) as [pre [Hs [Hv [Hd [Hnz Hz]]]]].
  { change (N.of_nat 40) with 40. pose proof pow100_40. lia. }
  rewrite app_nil_r in Hs. exists pre. split; [exact Hs|]. split; [exact Hd|].
  assert (Hv0 : bcd_acc pre 0 = n) by (rewrite Hv; lia).
  split; [exact Hv0|]. split; [exact Hnz|]. split; [exact Hz|].
  rewrite bcd_dec_spec, Hv0. destruct (n <? 2 ^ (8 * w)) eqn:E; [reflexivity|lia].
Qed.

(* F-padded odd-length input: digits then a byte whose low nibble is F contributes one digit *)
Lemma bcd_f_padding bs hi rv : bcd_acc (bs ++ [hi * 16 + 15]) rv = bcd_acc bs rv * 10 + hi.
Proof.
  rewrite bcd_acc_app. cbn [bcd_acc].
  assert ((hi * 16 + 15) mod 16 = 15) by lia. assert ((hi * 16 + 15) / 16 = hi) by lia.
  rewrite H, H0. reflexivity.
Qed.

Lemma bcd_overflow_is_error w bs : 2 ^ (8 * w) <= bcd_acc bs 0 -> bcd_dec w bs = Err IncompleteData.
Proof. intros H. rewrite bcd_dec_spec. destruct (_ <? _) eqn:E; [lia|reflexivity]. Qed.

(* ---------- tags ---------- *)

Definition tag_repr (t : N) : Prop :=
  (t < 256 /\ t <> 31 /\ t <> 255) \/ ((t / 256 = 31 \/ t / 256 = 255) /\ t < 65536).

Lemma tag_roundtrip t r : tag_repr t -> tag_dec false (tag_enc false t ++ r) = Ok (t, r).
Proof.
  unfold tag_repr, tag_enc, tag_dec. intros [[H1 [H2 H3]]|[H1 H2]].
  - destruct ((t / 256 =? 31) || (t / 256 =? 255)) eqn:E; [lia|]. cbn [app].
    rewrite N.mod_small by lia. destruct ((t =? 31) || (t =? 255)) eqn:E2; [lia|reflexivity].
  - destruct ((t / 256 =? 31) || (t / 256 =? 255)) eqn:E; [|lia]. cbn [app]. rewrite E.
    do 2 f_equal. lia.
Qed.

Lemma tag_repr_exact t : t < 65536 -> ~ tag_repr t -> tag_dec false (tag_enc false t) <> Ok (t, []).
Proof.
  unfold tag_repr, tag_enc, tag_dec. intros Ht Hn.
  destruct ((t / 256 =? 31) || (t / 256 =? 255)) eqn:E; [exfalso; apply Hn; right; lia|].
  cbn. destruct ((t mod 256 =? 31) || (t mod 256 =? 255)) eqn:E2; [discriminate|].
  intros [= Heq]. apply Hn. left. lia.
Qed.

Lemma tag_be_roundtrip t r : t < 65536 -> tag_dec true (tag_enc true t ++ r) = Ok (t, r).
Proof. intros H. unfold tag_enc, tag_dec. cbn [app]. do 2 f_equal. lia. Qed.

Lemma tag_enc_ok big t : bytes_ok (tag_enc big t).
Proof.
  unfold tag_enc. destruct big; [|destruct (_ || _) eqn:E]; repeat constructor; unfold byte_ok; lia.
Qed.

Lemma tag_dec_no_panic big bs : tag_dec big bs <> Panic /\ tag_dec big bs <> OutOfFuel.
Proof.
  unfold tag_dec. destruct big.
  - destruct bs as [|a [|b r]]; split; discriminate.
  - destruct bs as [|a [|b r]]; [split; discriminate| |]; destruct (_ || _); split; discriminate.
Qed.

(* ---------- hex ---------- *)

Lemma hex_val_digit d : d < 16 -> hex_val (hex_digit d) = Some d.
Proof.
  intros H. unfold hex_val, hex_digit. destruct (d <? 10) eqn:E.
  - destruct ((48 <=? 48 + d) && (48 + d <=? 57)) eqn:E1; [f_equal; lia|lia].
  - destruct ((48 <=? 87 + d) && (87 + d <=? 57)) eqn:E1; [lia|].
    destruct ((97 <=? 87 + d) && (87 + d <=? 102)) eqn:E2; [f_equal; lia|lia].
Qed.

Lemma hex_roundtrip bs : bytes_ok bs -> bytes_of_hex (hex_of_bytes bs) = Ok bs.
Proof.
  induction 1 as [|b r Hb Hr IH]; [reflexivity|]. unfold byte_ok in Hb.
  cbn [hex_of_bytes bytes_of_hex]. rewrite !hex_val_digit by lia. rewrite IH. cbn [bind].
  do 2 f_equal. lia.
Qed.

Definition lower_hex (c : N) : Prop := (48 <= c <= 57) \/ (97 <= c <= 102).

Lemma hex_digit_val c x : lower_hex c -> hex_val c = Some x -> hex_digit x = c /\ x < 16.
Proof.
  unfold lower_hex, hex_val, hex_digit. intros H.
  destruct ((48 <=? c) && (c <=? 57)) eqn:E1.
  - intros [= <-]. destruct (c - 48 <? 10) eqn:E; lia.
  - destruct ((97 <=? c) && (c <=? 102)) eqn:E2; [|lia].
    intros [= <-]. destruct (c - 87 <? 10) eqn:E; lia.
Qed.

(* every lower-case hex string of even length is the image of the bytes it encodes to *)
Lemma hex_roundtrip_str : forall n s, length s = (2 * n)%nat -> Forall lower_hex s ->
  exists bs, bytes_of_hex s = Ok bs /\ bytes_ok bs /\ hex_of_bytes bs = s.
Proof.
  induction n as [|n IH]; intros s Hl Hs.
  - destruct s; [|discriminate]. exists []. repeat split. constructor.
  - destruct s as [|a [|b r]]; cbn [length] in Hl; try lia.
    pose proof (Forall_inv Hs) as Ha. pose proof (Forall_inv_tail Hs) as Hs'.
    pose proof (Forall_inv Hs') as Hb. pose proof (Forall_inv_tail Hs') as Hr.
    destruct (IH r) as [bs [He [Ho Hh]]]; [cbn in Hl; lia|exact Hr|].
    cbn [bytes_of_hex].
    assert (exists x, hex_val a = Some x) as [x Hx].
    { unfold hex_val, lower_hex in *. destruct ((48 <=? a) && (a <=? 57)) eqn:E1; [eauto|].
      destruct ((97 <=? a) && (a <=? 102)) eqn:E2; [eauto|lia]. }
    assert (exists y, hex_val b = Some y) as [y Hy].
    { unfold hex_val, lower_hex in *. destruct ((48 <=? b) && (b <=? 57)) eqn:E1; [eauto|].
      destruct ((97 <=? b) && (b <=? 102)) eqn:E2; [eauto|lia]. }
    rewrite Hx, Hy, He. cbn [bind]. exists (x * 16 + y :: bs).
    destruct (hex_digit_val a x Ha Hx) as [Hda Hxa]. destruct (hex_digit_val b y Hb Hy) as [Hdb Hyb].
    split; [reflexivity|]. split; [constructor; [unfold byte_ok; lia|exact Ho]|].
    cbn [hex_of_bytes]. replace ((x * 16 + y) / 16) with x by lia. replace ((x * 16 + y) mod 16) with y by lia.
    rewrite Hda, Hdb, Hh. reflexivity.
Qed.

(* ---------- CP437 ---------- *)

Lemma cp437_high_len : length cp437_high = 128%nat. Proof. reflexivity. Qed.

Definition all_bytes : list N := map N.of_nat (seq 0 256).

(* the table is a bijection between bytes and its 256 code points (finite check) *)
Lemma cp437_table_bijective :
  forallb (fun b => match byte_of_cp437 (cp437_of_byte b) with Some b' => b' =? b | None => false end) all_bytes = true.
Proof. vm_compute. reflexivity. Qed.

Lemma in_all_bytes b : b < 256 -> In b all_bytes.
Proof.
  intros H. unfold all_bytes. apply in_map_iff. exists (N.to_nat b). split; [lia|].
  apply in_seq. lia.
Qed.

Lemma cp437_byte_roundtrip b : b < 256 -> byte_of_cp437 (cp437_of_byte b) = Some b.
Proof.
  intros H. pose proof cp437_table_bijective as T. rewrite forallb_forall in T.
  specialize (T b (in_all_bytes b H)). destruct (byte_of_cp437 (cp437_of_byte b)) as [b'|]; [|discriminate].
  f_equal. lia.
Qed.

Lemma cp437_enc_map bs : bytes_ok bs -> cp437_enc (map cp437_of_byte bs) = Ok bs.
Proof.
  induction 1 as [|b r Hb Hr IH]; [reflexivity|]. cbn [map cp437_enc].
  rewrite cp437_byte_roundtrip by exact Hb. rewrite IH. reflexivity.
Qed.

Lemma cp437_nul b : b < 256 -> (cp437_of_byte b = 0 <-> b = 0).
Proof.
  intros H. split; [|intros ->; reflexivity]. intros E.
  pose proof (cp437_byte_roundtrip b H) as R. rewrite E in R.
  assert (Z0 : byte_of_cp437 0 = Some 0) by reflexivity. congruence.
Qed.

Lemma trim_nul_rev_id s : (forall x t, s = x :: t -> x <> 0) -> trim_nul_rev s = s.
Proof. destruct s as [|x t]; [reflexivity|]. intros H. specialize (H x t eq_refl). destruct x; [congruence|reflexivity]. Qed.

(* bytes that do not end in NUL decode to a string that encodes back to them *)
Lemma cp437_roundtrip bs : bytes_ok bs -> (forall p x, bs = p ++ [x] -> x <> 0) ->
  cp437_enc (cp437_dec bs) = Ok bs.
Proof.
  intros Hb Hl. unfold cp437_dec, trim_nul. rewrite trim_nul_rev_id.
  - rewrite rev_involutive. apply cp437_enc_map. exact Hb.
  - intros x t E. rewrite <- map_rev in E.
    destruct (rev bs) as [|y t'] eqn:Er; [discriminate|]. cbn in E. injection E as <- _.
    assert (bs = rev t' ++ [y]) by (rewrite <- (rev_involutive bs), Er; reflexivity).
    assert (In y bs) by (subst bs; apply in_or_app; right; left; reflexivity).
    rewrite cp437_nul; [apply (Hl (rev t')); assumption|].
    unfold bytes_ok in Hb. rewrite Forall_forall in Hb. apply Hb. assumption.
Qed.

(* ---------- receipt number of a partial reversal ---------- *)

Lemma receipt_sentinel r : prim_dec EReceiptNo (PInt 8) (255 :: 255 :: r) = Ok (VInt 65535, r)
  /\ prim_enc EReceiptNo (PInt 8) (VInt 65535) = Ok [255; 255].
Proof. split; reflexivity. Qed.

(* the other direction: a string of table characters not ending in NUL survives encode -> decode *)
Lemma index_of_spec c l : forall i b, index_of c l i = Some b ->
  i <= b /\ nth (N.to_nat (b - i)) l 0 = c /\ b - i < N.of_nat (length l).
Proof.
  induction l as [|x r IH]; intros i b H; cbn [index_of] in H; [discriminate|].
  destruct (x =? c) eqn:E.
  - injection H as <-. replace (i - i) with 0 by lia. change (N.to_nat 0) with 0%nat. cbn [length nth]. split; [lia|]. split; lia.
  - apply IH in H. destruct H as [H1 [H2 H3]]. split; [lia|].
    replace (N.to_nat (b - i)) with (S (N.to_nat (b - (i + 1)))) by lia. cbn [nth length]. split; [exact H2|lia].
Qed.

Lemma byte_of_cp437_spec c b : byte_of_cp437 c = Some b -> b < 256 /\ cp437_of_byte b = c.
Proof.
  unfold byte_of_cp437, cp437_of_byte. destruct (c <? 128) eqn:E.
  - intros [= <-]. rewrite E. lia.
  - intros H. apply index_of_spec in H. rewrite cp437_high_len in H. destruct H as [H1 [H2 H3]].
    destruct (b <? 128) eqn:E2; [lia|]. split; [lia|exact H2].
Qed.

Lemma cp437_enc_spec s : forall bs, cp437_enc s = Ok bs -> bytes_ok bs /\ map cp437_of_byte bs = s.
Proof.
  induction s as [|c r IH]; intros bs H; cbn [cp437_enc] in H.
  - injection H as <-. split; constructor.
  - destruct (byte_of_cp437 c) as [b|] eqn:Eb; [|discriminate].
    destruct (cp437_enc r) as [t| | |] eqn:Er; try discriminate. cbn [bind] in H. injection H as <-.
    destruct (IH t eq_refl) as [Ht Hm]. apply byte_of_cp437_spec in Eb. destruct Eb as [Hb Hc].
    split; [constructor; assumption|]. cbn [map]. rewrite Hc, Hm. reflexivity.
Qed.

Lemma cp437_str_roundtrip s bs : cp437_enc s = Ok bs -> (forall p x, s = p ++ [x] -> x <> 0) ->
  cp437_dec bs = s.
Proof.
  intros He Hl. apply cp437_enc_spec in He. destruct He as [_ Hm].
  unfold cp437_dec, trim_nul. rewrite Hm. rewrite trim_nul_rev_id; [apply rev_involutive|].
  intros x t E. apply (Hl (rev t)). rewrite <- (rev_involutive s), E. reflexivity.
Qed.

Lemma cp437_dec_no_trailing_nul bs : forall p x, cp437_dec bs = p ++ [x] -> x <> 0.
Proof.
  intros p x H. unfold cp437_dec, trim_nul in H.
  apply (f_equal (@rev N)) in H. rewrite rev_involutive, rev_app_distr in H. cbn in H.
  destruct (rev (map cp437_of_byte bs)) as [|y t]; [discriminate|].
  revert H. generalize (y :: t). clear. intros l. induction l as [|a l IH]; cbn [trim_nul_rev]; [discriminate|].
  destruct a; [exact IH|]. intros [= <- _]. discriminate.
Qed.
