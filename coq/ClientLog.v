(* ClientLog.v — C09 at the level of whole histories: in the event log of ANY history of client calls
   against ANY scripted terminal, no byte is ever written to a connection after it was dropped, every
   write goes to a connection that was opened before, and every connection that is opened is a new one.
   The invariant LInv is preserved by every poll of the retrying stream, every consumer loop and every
   public method. *)
From Zvt Require Import Base Length Cp437 Encoding Codec Lookup Transport Sequence SeqLookup Client ClientProps.
From Coq Require Import ZifyBool ZifyNat ZifyN.
Open Scope N_scope.

Definition ev_id (e : event) : option N :=
  match e with EOpen id _ | EWrite id _ _ | EDrop id _ => Some id | ERefused _ => None end.
Definition dropped (l : list event) (id : N) : Prop := exists t, In (EDrop id t) l.
Definition opened (l : list event) (id : N) : Prop := exists t, In (EOpen id t) l.

(* logs are newest first *)
Fixpoint log_safe (l : list event) : Prop :=
  match l with
  | [] => True
  | EWrite id _ _ :: r => ~ dropped r id /\ opened r id /\ log_safe r
  | EOpen id _ :: r => (forall e, In e r -> ev_id e <> Some id) /\ log_safe r
  | _ :: r => log_safe r
  end.

Definition ids_lt (w : world) : Prop :=
  forall e id, In e (w_log w) -> ev_id e = Some id -> id < N.of_nat (length (w_conns w)).

Definition live (w : world) (id : N) : Prop :=
  id < N.of_nat (length (w_conns w)) /\ ~ dropped (w_log w) id /\ opened (w_log w) id.

Record LInv (w : world) : Prop := {
  li_safe : log_safe (w_log w);
  li_ids : ids_lt w;
  li_cur : forall id, w_cur w = Some id -> live w id }.

(* ---------- worlds that differ by writes on one connection ---------- *)

Definition is_write_on (id : N) (e : event) : Prop := match e with EWrite i _ _ => i = id | _ => False end.

Record ext (id : N) (w w' : world) : Prop := {
  x_cur : w_cur w' = w_cur w;
  x_len : length (w_conns w') = length (w_conns w);
  x_scr : w_scripts w' = w_scripts w;
  x_log : exists ws, w_log w' = ws ++ w_log w /\ Forall (is_write_on id) ws }.

Lemma ext_refl id w : ext id w w.
Proof. split; try reflexivity. exists []. split; [reflexivity|constructor]. Qed.

Lemma ext_trans id a b c : ext id a b -> ext id b c -> ext id a c.
Proof.
  intros [c1 l1 s1 [ws1 [e1 f1]]] [c2 l2 s2 [ws2 [e2 f2]]]. split; try congruence.
  exists (ws2 ++ ws1). split; [rewrite e2, e1, app_assoc; reflexivity|apply Forall_app; split; assumption].
Qed.

Lemma ext_write id w b : ext id w (write_t w id b).
Proof. split; try reflexivity. exists [EWrite id (w_now w) b]. split; [reflexivity|constructor; [reflexivity|constructor]]. Qed.

Lemma set_conn_length l : forall i c, length (set_conn l i c) = length l.
Proof. induction l as [|x l IH]; intros [|i] c; cbn [set_conn length]; try reflexivity. rewrite IH. reflexivity. Qed.

Lemma ext_at_put id w i c t : ext id w (at_time (put_conn w i c) t).
Proof. split; cbn; try reflexivity; [apply set_conn_length|]. exists []. split; [reflexivity|constructor]. Qed.
Lemma ext_at id w t : ext id w (at_time w t).
Proof. split; cbn; try reflexivity. exists []. split; [reflexivity|constructor]. Qed.

Lemma read_parse_ext w id vs d :
  match read_parse w id vs d with
  | inl (Some (_, w')) => ext id w w'
  | inl None => True
  | inr w' => ext id w w'
  end.
Proof.
  unfold read_parse. destruct (read_packet_t (get_conn w id) (w_now w)) as [f t c|t|].
  - destruct (t <=? d); [apply ext_at_put|apply ext_at].
  - destruct (t <=? d); [exact I|apply ext_at].
  - apply ext_at.
Qed.

Lemma seq_next_ext q id ph d w :
  match seq_next q id ph d w with
  | NItem _ _ w' => ext id w w'
  | NEnd w' => ext id w w'
  | NTimeout w' => ext id w w'
  end.
Proof.
  assert (REPLY : forall w0, ext id w w0 ->
            match (match read_parse w0 id (q_replies q) d with
                   | inr w' => NTimeout w'
                   | inl None => NItem (IErr 0) PDone w0
                   | inl (Some (Ok (i, v), w1)) => NItem (IOk i v) (if is_final (q_mode q) i then PDone else PLoop) (write_t w1 id ACK)
                   | inl (Some (_, w1)) => NItem (IErr 1) PDone w1
                   end) with
            | NItem _ _ w' => ext id w w'
            | NEnd w' => ext id w w'
            | NTimeout w' => ext id w w'
            end).
  { intros w0 H0. pose proof (read_parse_ext w0 id (q_replies q) d) as R.
    destruct (read_parse w0 id (q_replies q) d) as [[[[[i v]|e| |] w1]|]|w']; try exact H0;
      try (eapply ext_trans; [exact H0|exact R]).
    eapply ext_trans; [exact H0|]. eapply ext_trans; [exact R|apply ext_write]. }
  unfold seq_next. destruct ph.
  - pose proof (read_parse_ext (write_t w id (q_cmd q)) id ack_enum d) as R.
    pose proof (ext_write id w (q_cmd q)) as W.
    destruct (read_parse (write_t w id (q_cmd q)) id ack_enum d) as [[[[[i v]|e| |] w1]|]|w'];
      try exact W; try (eapply ext_trans; [exact W|exact R]).
    apply REPLY. eapply ext_trans; [exact W|exact R].
  - apply REPLY. apply ext_refl.
  - apply ext_refl.
Qed.

(* ---------- the invariant is stable under such extensions ---------- *)

Lemma dropped_app_writes id ws l i : Forall (is_write_on id) ws -> dropped (ws ++ l) i <-> dropped l i.
Proof.
  intros F. split; intros [t H]; exists t; [|apply in_or_app; right; exact H].
  apply in_app_or in H. destruct H as [H|H]; [|exact H]. rewrite Forall_forall in F. specialize (F _ H). contradiction.
Qed.
Lemma opened_app id ws l : opened l id -> opened (ws ++ l) id.
Proof. intros [t H]. exists t. apply in_or_app. right. exact H. Qed.

Lemma log_safe_writes id ws l : Forall (is_write_on id) ws -> ~ dropped l id -> opened l id -> log_safe l -> log_safe (ws ++ l).
Proof.
  intros F Hd Ho Hs. induction ws as [|e ws IH]; [exact Hs|].
  inversion F as [|? ? He Fw]; subst. destruct e; try contradiction. cbn in He. subst id0.
  cbn [app log_safe]. split; [|split; [apply opened_app; exact Ho|apply IH; exact Fw]].
  rewrite (dropped_app_writes id ws l id Fw). exact Hd.
Qed.

Lemma linv_ext id w w' : LInv w -> live w id -> ext id w w' -> LInv w' /\ live w' id.
Proof.
  intros [Hs Hi Hc] [Hlt [Hnd Hop]] [Xc Xl Xs [ws [El Fw]]].
  assert (Hlive : forall i, live w i -> live w' i).
  { intros i [A [B C]]. split; [rewrite Xl; exact A|]. split; [rewrite El, (dropped_app_writes id ws _ i Fw); exact B|rewrite El; apply opened_app; exact C]. }
  split; [|apply Hlive; split; [exact Hlt|split; assumption]].
  split.
  - rewrite El. apply (log_safe_writes id); assumption.
  - intros e i Hin He. rewrite Xl. rewrite El in Hin. apply in_app_or in Hin. destruct Hin as [Hin|Hin]; [|apply (Hi e i Hin He)].
    rewrite Forall_forall in Fw. specialize (Fw _ Hin). destruct e; try contradiction. cbn in Fw, He. injection He as <-. subst. exact Hlt.
  - intros i Hcur. rewrite Xc in Hcur. apply Hlive. apply Hc. exact Hcur.
Qed.

(* ---------- dropping ---------- *)

Lemma linv_drop_conn w id : LInv w -> id < N.of_nat (length (w_conns w)) -> w_cur w <> Some id -> LInv (drop_conn w id).
Proof.
  intros [Hs Hi Hc] Hlt Hne. split.
  - cbn. exact Hs.
  - intros e i [<-|Hin] He; cbn in *; [injection He as <-; exact Hlt|apply (Hi e i Hin He)].
  - intros i Hcur. cbn in Hcur. destruct (Hc i Hcur) as [A [B C]]. split; [exact A|]. split.
    + intros [t [E|Hin]]; [injection E as <- _; congruence|apply B; exists t; exact Hin].
    + destruct C as [t Hin]. exists t. right. exact Hin.
Qed.

Lemma linv_drop_cur w : LInv w -> LInv (drop_cur w) /\ w_cur (drop_cur w) = None.
Proof.
  intros H. split; [|apply drop_cur_clears]. unfold drop_cur. destruct (w_cur w) as [id|] eqn:E; [|exact H].
  destruct H as [Hs Hi Hc]. destruct (Hc id E) as [A _]. split.
  - cbn. exact Hs.
  - intros e i [<-|Hin] He; cbn in *; [injection He as <-; exact A|apply (Hi e i Hin He)].
  - intros i Hcur. cbn in Hcur. discriminate.
Qed.

Lemma linv_at_time w t : LInv w -> LInv (at_time w t).
Proof. intros [Hs Hi Hc]. split; [exact Hs|exact Hi|exact Hc]. Qed.

Lemma linv_set_cur w id : LInv w -> live w id -> LInv (set_cur w (Some id)).
Proof. intros [Hs Hi Hc] Hl. split; [exact Hs|exact Hi|]. intros i Hcur. cbn in Hcur. injection Hcur as <-. exact Hl. Qed.

Lemma linv_refused w w' t : w_conns w' = w_conns w -> w_cur w' = w_cur w -> w_log w' = ERefused t :: w_log w ->
  LInv w -> LInv w'.
Proof.
  intros Ec Eu El [Hs Hi Hc]. split.
  - rewrite El. cbn. exact Hs.
  - intros e i Hin He. unfold ids_lt in Hi. rewrite Ec. rewrite El in Hin. destruct Hin as [<-|Hin]; [discriminate|apply (Hi e i Hin He)].
  - intros i Hcur. rewrite Eu in Hcur. destruct (Hc i Hcur) as [A [B C]]. split; [rewrite Ec; exact A|]. split.
    + intros [t' Hin]. rewrite El in Hin. destruct Hin as [E|Hin]; [discriminate|]. apply B. exists t'. exact Hin.
    + destruct C as [t' Hin]. exists t'. rewrite El. right. exact Hin.
Qed.

(* ---------- inner::connect ---------- *)

Lemma connect_linv cfg d w : LInv w ->
  match connect cfg d w with
  | COk id w' => LInv w' /\ live w' id /\ w_cur w' = w_cur w
  | CErr _ w' => LInv w' /\ w_cur w' = w_cur w
  end.
Proof.
  intros H. pose proof H as [Hs Hi Hc]. unfold connect. destruct (w_scripts w) as [|s rest].
  { split; [|reflexivity]. eapply linv_refused; [| | |exact H]; reflexivity. }
  destruct (cs_refused s).
  { split; [|reflexivity]. eapply linv_refused; [| | |exact H]; reflexivity. }
  destruct (cs_silent s).
  { split; [|reflexivity]. eapply linv_refused; [| | |exact H]; reflexivity. }
  cbv zeta. cbn [w_conns w_scripts w_cur w_now w_log].
  set (id := N.of_nat (length (w_conns w))).
  match goal with |- context [seq_next _ id PStart d ?W] => set (w1 := W) end.
  assert (L1 : length (w_conns w1) = S (length (w_conns w))) by (unfold w1; cbn; rewrite app_length; cbn; lia).
  assert (I1 : LInv w1).
  { split.
    - unfold w1. cbn. split; [|exact Hs]. intros e Hin He. pose proof (Hi e id Hin He). unfold id in *. lia.
    - intros e i Hin He. rewrite L1. unfold w1 in Hin. cbn in Hin. destruct Hin as [<-|Hin].
      + cbn in He. injection He as <-. unfold id. lia.
      + pose proof (Hi e i Hin He). lia.
    - intros i Hcur. unfold w1 in Hcur. cbn in Hcur. destruct (Hc i Hcur) as [A [B C]]. split; [rewrite L1; lia|]. split.
      + intros [t Hin]. unfold w1 in Hin. cbn in Hin. destruct Hin as [E|Hin]; [discriminate|]. apply B. exists t. exact Hin.
      + destruct C as [t Hin]. exists t. unfold w1. cbn. right. exact Hin. }
  assert (V1 : live w1 id).
  { split; [rewrite L1; unfold id; lia|]. split.
    - intros [t Hin]. unfold w1 in Hin. cbn in Hin. destruct Hin as [E|Hin]; [discriminate|].
      pose proof (Hi _ id Hin eq_refl). unfold id in *. lia.
    - exists (w_now w). unfold w1. cbn. left. reflexivity. }
  assert (C1 : w_cur w1 = w_cur w) by reflexivity.
  assert (NE : forall w', ext id w1 w' -> w_cur w' <> Some id).
  { intros w' X E. rewrite (x_cur _ _ _ X), C1 in E. destruct (Hc id E) as [A _]. unfold id in A. lia. }
  assert (DROP : forall (what : N) w', ext id w1 w' -> LInv (drop_conn w' id) /\ w_cur (drop_conn w' id) = w_cur w).
  { intros what w' X. destruct (linv_ext id w1 w' I1 V1 X) as [I' [A _]]. split.
    - apply linv_drop_conn; [exact I'|exact A|apply NE; exact X].
    - cbn. rewrite (x_cur _ _ _ X). exact C1. }
  pose proof (seq_next_ext (seq_of "zvt::sequences::Registration" (registration_cmd cfg)) id PStart d w1) as X1.
  destruct (seq_next _ id PStart d w1) as [[i v|e] ph w'|w'|w']; try (apply (DROP 0); exact X1).
  pose proof (seq_next_ext (seq_of "zvt::feig::sequences::GetSystemInfo" sysinfo_cmd) id PStart d w') as X2.
  assert (X12 : forall w'', ext id w' w'' -> ext id w1 w'') by (intros w'' X; eapply ext_trans; [exact X1|exact X]).
  destruct (seq_next _ id PStart d w') as [[i2 v2|e2] ph2 w2|w2|w2]; try (apply (DROP 0); apply X12; exact X2).
  destruct (i2 =? _); [|apply (DROP 0); apply X12; exact X2].
  destruct (first_pos v2) as [[| dev | | | | | |]|]; try (apply (DROP 0); apply X12; exact X2).
  destruct (list_eqb _ _); [|apply (DROP 0); apply X12; exact X2].
  destruct (linv_ext id w1 w2 I1 V1 (X12 w2 X2)) as [I2 V2]. split; [exact I2|]. split; [exact V2|].
  rewrite (x_cur _ _ _ (X12 w2 X2)). exact C1.
Qed.

(* ---------- the retrying stream, one poll ---------- *)

Lemma retry_next_linv cfg : forall fuel r w, LInv w ->
  let '(_, _, w') := retry_next fuel cfg r w in LInv w'.
Proof.
  induction fuel as [|f IH]; intros r w H; [exact H|]. cbn [retry_next]. destruct (r_ph r) eqn:P.
  - (* RIdle *)
    destruct (r_left r) as [|lft]; [exact H|].
    set (start := if r_first r then w_now w else N.max (w_now w) (r_last r + r_throttle r)).
    pose proof (linv_at_time w start H) as H1.
    destruct (w_cur (at_time w start)) as [id|] eqn:C.
    + apply IH. exact H1.
    + pose proof (connect_linv cfg (start + r_timeout (rs_set r lft false start RIdle)) (at_time w start) H1) as K.
      destruct (connect cfg _ (at_time w start)) as [id w'|what w'].
      * destruct K as [K1 [K2 _]]. apply IH. apply linv_set_cur; assumption.
      * destruct K as [K1 _]. exact K1.
  - (* RInner *)
    destruct (w_cur w) as [id|] eqn:C; [|exact H].
    pose proof (seq_next_ext (r_seq r) id ph (w_now w + r_timeout r) w) as X.
    pose proof (li_cur w H id C) as V.
    destruct (seq_next (r_seq r) id ph (w_now w + r_timeout r) w) as [[i v|e] ph' w'|w'|w'];
      destruct (linv_ext id w w' H V X) as [H' _]; try exact H'.
    apply IH. apply linv_drop_cur. exact H'.
  - (* RAfterErr *)
    apply IH. apply linv_drop_cur. exact H.
  - exact H.
Qed.

(* ---------- consumer loops and the public methods: any world invariant the poll function preserves ---------- *)

Section Lift.
Variable cfg : config.
Variable P : world -> Prop.
Hypothesis poll_preserves : forall fuel r w, P w -> let '(_, _, w') := retry_next fuel cfg r w in P w'.


Lemma consume_inv {A B} (handle : A -> N -> value -> option (cres B) * A) finish :
  forall fuel r w acc, P w -> P (snd (consume fuel cfg r w acc handle finish)).
Proof.
  induction fuel as [|f IH]; intros r w acc H; [exact H|]. cbn [consume].
  pose proof (poll_preserves RFUEL r w H) as K.
  destruct (retry_next RFUEL cfg r w) as [[[[i v|e]|] r'] w']; cbn [snd]; try exact K.
  - destruct (handle acc i v) as [[res|] acc']; [exact K|apply IH; exact K].
  - apply IH. exact K.
Qed.

Ltac by_consume := match goal with |- P (snd (consume _ _ _ _ _ _ _)) => apply consume_inv; assumption end.

(* dropping the current connection is something a poll can do (an Err item was yielded, the budget is used up), so it preserves P *)
Lemma drop_cur_inv w : P w -> P (drop_cur w).
Proof.
  intros H.
  pose proof (poll_preserves 2 {| r_left := 0; r_first := true; r_last := 0; r_ph := RAfterErr; r_timeout := 0; r_throttle := 0;
                                  r_seq := {| q_cmd := []; q_replies := []; q_mode := Single |} |} w H) as K.
  exact K.
Qed.

Lemma get_system_info_inv w : P w -> P (snd (get_system_info cfg w)).
Proof.
  intros H. unfold get_system_info.
  match goal with |- context [consume ?f cfg ?r w ?a ?h ?fin] => pose proof (consume_inv h fin f r w a H) as K; destruct (consume f cfg r w a h fin) as [[si|e] w1] end;
    cbn [snd] in K; [|exact K].
  destruct (first_pos si) as [[| dev | | | | | |]|]; cbn [snd]; try (apply drop_cur_inv; exact K).
  destruct (list_eqb _ _); cbn [snd]; [exact K|apply drop_cur_inv; exact K].
Qed.
Lemma initialize_inv w : P w -> P (snd (initialize cfg w)).
Proof. intros H. unfold initialize. by_consume. Qed.
Lemma get_pending_inv w : P w -> P (snd (get_pending cfg w)).
Proof.
  intros H. unfold get_pending.
  match goal with |- context [consume ?f cfg ?r w ?a ?h ?fin] => pose proof (consume_inv h fin f r w a H) as K; destruct (consume f cfg r w a h fin) as [[l|e] w1] end;
    cbn [snd] in K; [exact K|]. destruct e; try exact K. cbn [snd]. apply drop_cur_inv. exact K.
Qed.
Lemma cancel_by_receipt_inv rn w : P w -> P (snd (cancel_by_receipt cfg rn w)).
Proof. intros H. unfold cancel_by_receipt. by_consume. Qed.
Lemma read_card_inv w : P w -> P (snd (read_card cfg w)).
Proof. intros H. unfold read_card. by_consume. Qed.

Lemma set_terminal_id_inv w : P w -> P (snd (set_terminal_id cfg w)).
Proof.
  intros H. unfold set_terminal_id. pose proof (get_system_info_inv w H) as K.
  destruct (get_system_info cfg w) as [[si|e] w1]; cbn [snd] in *; [|exact K].
  destruct (list_eqb _ _); [exact K|]. destruct (digits_value _) as [n|]; [|exact K]. destruct (99999999 <? n); [exact K|]. by_consume.
Qed.

Lemma end_of_day_inv st w : P w -> P (snd (end_of_day cfg st w)).
Proof.
  intros H. unfold end_of_day. pose proof (get_pending_inv w H) as K.
  destruct (get_pending cfg w) as [[pend|e] w1]; cbn [snd] in *; [|exact K].
  assert (F : forall (l : list N) (acc : cres unit * world), P (snd acc) ->
            P (snd (fold_left (fun acc p => match acc with
                                               | (ROk _, w) => cancel_by_receipt cfg p w
                                               | other => other end) l acc))).
  { induction l as [|p l IHl]; intros acc Ha; [exact Ha|]. cbn [fold_left]. apply IHl.
    destruct acc as [[u|e] w0]; cbn [snd] in *; [apply cancel_by_receipt_inv; exact Ha|exact Ha]. }
  specialize (F pend (ROk tt, w1) K).
  destruct (fold_left _ pend (ROk tt, w1)) as [[u|e] w2]; cbn [snd] in *; [|exact F].
  pose proof (consume_inv (h_eod (variant_ix "zvt::sequences::EndOfDayResponse" "CompletionData") (variant_ix "zvt::sequences::EndOfDayResponse" "Abort"))
                (fun _ => RErr EIncomplete) LOOPFUEL
                (start_retry (seq_of "zvt::sequences::EndOfDay" (mk_cmd "zvt::packets::EndOfDay" [VInt (c_password cfg)] [])) TIMEOUT) w2 tt F) as K3.
  destruct (consume _ _ _ w2 tt _ _) as [r3 w3]. exact K3.
Qed.

Lemma configure_inv st w : P w -> P (snd (configure cfg st w)).
Proof.
  intros H. unfold configure. pose proof (set_terminal_id_inv w H) as K.
  destruct (set_terminal_id cfg w) as [[u|e] w1]; cbn [snd] in *; [|exact K].
  pose proof (initialize_inv w1 K) as K2.
  destruct (initialize cfg w1) as [[u2|e] w2]; cbn [snd] in *; [|exact K2].
  apply end_of_day_inv. exact K2.
Qed.

Lemma begin_inv st tok w : P w -> P (snd (begin_transaction cfg st tok w)).
Proof.
  intros H. unfold begin_transaction. destruct (_ =? _); [exact H|]. destruct (assoc_tok tok (s_txs st)); [exact H|].
  match goal with |- context [consume ?f cfg ?r w ?a ?h ?fin] => pose proof (consume_inv h fin f r w a H) as K; destruct (consume f cfg r w a h fin) as [[rn|e] w1] end;
    exact K.
Qed.

Lemma cancel_inv st tok w : P w -> P (snd (cancel_transaction cfg st tok w)).
Proof.
  intros H. unfold cancel_transaction. destruct (assoc_tok tok (s_txs st)) as [rn|]; [|exact H].
  pose proof (cancel_by_receipt_inv rn w H) as K.
  destruct (cancel_by_receipt cfg rn w) as [[u|e] w1]; cbn [snd] in *; [|exact K].
  destruct (s_txs _); [apply end_of_day_inv; exact K|exact K].
Qed.

Lemma commit_inv st tok amount w : P w -> P (snd (commit_transaction cfg st tok amount w)).
Proof.
  intros H. unfold commit_transaction. destruct (assoc_tok tok (s_txs st)) as [rn|]; [|exact H].
  match goal with |- context [consume ?f cfg ?r w ?a ?h ?fin] => pose proof (consume_inv h fin f r w a H) as K; destruct (consume f cfg r w a h fin) as [[si|e] w1] end;
    cbn [snd] in K; [|exact K].
  assert (K2 : P (snd (match s_txs {| s_txs := remove_tok tok (s_txs st); s_max := s_max st |} with
                          | [] => end_of_day cfg {| s_txs := remove_tok tok (s_txs st); s_max := s_max st |} w1
                          | _ => (ROk tt, {| s_txs := remove_tok tok (s_txs st); s_max := s_max st |}, w1)
                          end))).
  { destruct (s_txs _); [apply end_of_day_inv; exact K|exact K]. }
  destruct (match s_txs _ with [] => _ | _ => _ end) as [[r2 st2] w2]. cbn [snd] in K2.
  destruct r2; [|exact K2]. destruct si; exact K2.
Qed.

Lemma run_op_inv st o w : P w -> P (snd (run_op cfg st o w)).
Proof.
  intros H. destruct o; cbn [run_op].
  - pose proof (configure_inv st w H) as K. destruct (configure cfg st w) as [[r st'] w']. exact K.
  - pose proof (read_card_inv w H) as K. destruct (read_card cfg w) as [r w']. exact K.
  - pose proof (begin_inv st tok w H) as K. destruct (begin_transaction cfg st tok w) as [[r st'] w']. exact K.
  - pose proof (commit_inv st tok amount w H) as K. destruct (commit_transaction cfg st tok amount w) as [[r st'] w']. exact K.
  - pose proof (cancel_inv st tok w H) as K. destruct (cancel_transaction cfg st tok w) as [[r st'] w']. exact K.
Qed.

Lemma run_ops_inv : forall ops st w acc, P w -> P (snd (run_ops cfg st ops w acc)).
Proof.
  induction ops as [|o ops IH]; intros st w acc H; [exact H|]. cbn [run_ops].
  pose proof (run_op_inv st o w H) as K. destruct (run_op cfg st o w) as [[res st'] w']. apply IH. exact K.
Qed.

End Lift.

Lemma linv_init scripts : LInv {| w_conns := []; w_scripts := scripts; w_cur := None; w_now := 0; w_log := [] |}.
Proof. split; [exact I|intros e i []|intros i E; discriminate]. Qed.

(* THE theorem: the complete event log of any history of calls, against any scripted terminal *)
Theorem history_log_safe cfg ops scripts :
  let '(_, _, _, w) := run_history cfg ops scripts in log_safe (w_log w).
Proof.
  unfold run_history, new_client.
  set (cfg' := match c_terminal_id cfg with [] => _ | _ => cfg end).
  pose proof (configure_inv cfg' LInv (retry_next_linv cfg') {| s_txs := []; s_max := c_max cfg' |} _ (linv_init scripts)) as K.
  destruct (configure cfg' _ _) as [[r0 st1] w1]. cbn [snd] in K.
  pose proof (run_ops_inv cfg' LInv (retry_next_linv cfg') ops st1 w1 [] K) as K2.
  destruct (run_ops cfg' st1 ops w1 []) as [[rs st'] w']. cbn [snd] in K2.
  destruct (w_cur w') as [id|]; [|apply (li_safe _ K2)]. cbn. apply (li_safe _ K2).
Qed.

(* ================================================================== fresh connections are vetted *)

Definition has_write (l : list event) (id : N) : Prop := exists t b, In (EWrite id t b) l.

(* the first thing ever written to a connection is the registration command (password, config byte, currency) *)
Fixpoint log_reg (cfg : config) (l : list event) : Prop :=
  match l with
  | [] => True
  | EWrite id _ b :: r => (has_write r id \/ b = registration_cmd cfg) /\ log_reg cfg r
  | _ :: r => log_reg cfg r
  end.

Record RInv (cfg : config) (w : world) : Prop := {
  ri_reg : log_reg cfg (w_log w);
  ri_cur : forall id, w_cur w = Some id -> has_write (w_log w) id }.

Lemma has_write_app l ws id : has_write l id -> has_write (ws ++ l) id.
Proof. intros [t [b H]]. exists t, b. apply in_or_app. right. exact H. Qed.

Lemma log_reg_writes cfg id ws l : Forall (is_write_on id) ws -> has_write l id -> log_reg cfg l -> log_reg cfg (ws ++ l).
Proof.
  intros F Hw Hr. induction ws as [|e ws IH]; [exact Hr|]. inversion F as [|? ? He Fw]; subst.
  destruct e; try contradiction. cbn in He. subst id0. cbn [app log_reg]. split; [left; apply has_write_app; exact Hw|apply IH; exact Fw].
Qed.

(* ... when the oldest of the new writes is the registration command itself *)
Lemma log_reg_first cfg id ws t l : Forall (is_write_on id) ws -> log_reg cfg l ->
  log_reg cfg (ws ++ EWrite id t (registration_cmd cfg) :: l).
Proof.
  intros F Hr. apply (log_reg_writes cfg id ws); [exact F| |].
  - exists t, (registration_cmd cfg). left. reflexivity.
  - cbn [log_reg]. split; [right; reflexivity|exact Hr].
Qed.

Lemma rinv_ext cfg id w w' : RInv cfg w -> has_write (w_log w) id -> ext id w w' -> RInv cfg w' /\ has_write (w_log w') id.
Proof.
  intros [Hr Hc] Hw [Xc Xl Xs [ws [El Fw]]]. split; [split|].
  - rewrite El. apply (log_reg_writes cfg id); assumption.
  - intros i Hcur. rewrite Xc in Hcur. rewrite El. apply has_write_app. apply Hc. exact Hcur.
  - rewrite El. apply has_write_app. exact Hw.
Qed.

(* a sequence started from PStart writes its command before anything else *)
Lemma seq_next_first q id d w :
  match seq_next q id PStart d w with
  | NItem _ _ w' | NEnd w' | NTimeout w' => ext id (write_t w id (q_cmd q)) w'
  end.
Proof.
  pose proof (seq_next_ext q id PLoop d) as L. unfold seq_next in *.
  pose proof (read_parse_ext (write_t w id (q_cmd q)) id ack_enum d) as R.
  destruct (read_parse (write_t w id (q_cmd q)) id ack_enum d) as [[[[[i v]|e| |] w1]|]|w']; try exact R; try apply ext_refl.
  specialize (L w1).
  destruct (read_parse w1 id (q_replies q) d) as [[[[[i' v']|e'| |] w2]|]|w'']; (eapply ext_trans; [exact R|exact L]).
Qed.

Lemma connect_rinv cfg d w : RInv cfg w ->
  match connect cfg d w with
  | COk id w' => RInv cfg w' /\ has_write (w_log w') id
  | CErr _ w' => RInv cfg w'
  end.
Proof.
  intros H. pose proof H as [Hr Hc]. unfold connect. destruct (w_scripts w) as [|s rest].
  { split; [exact Hr|]. intros i Hcur. destruct (Hc i Hcur) as [t [b Hin]]. exists t, b. right. exact Hin. }
  destruct (cs_refused s).
  { split; [exact Hr|]. intros i Hcur. destruct (Hc i Hcur) as [t [b Hin]]. exists t, b. right. exact Hin. }
  destruct (cs_silent s).
  { split; [exact Hr|]. intros i Hcur. destruct (Hc i Hcur) as [t [b Hin]]. exists t, b. right. exact Hin. }
  cbv zeta. cbn [w_conns w_scripts w_cur w_now w_log].
  set (id := N.of_nat (length (w_conns w))).
  match goal with |- context [seq_next _ id PStart d ?W] => set (w1 := W) end.
  set (reg := seq_of "zvt::sequences::Registration" (registration_cmd cfg)).
  assert (Q : q_cmd reg = registration_cmd cfg).
  { unfold reg, seq_of. destruct (find_seq _ _) as [[[a o] m]|]; reflexivity. }
  set (w1' := write_t w1 id (q_cmd reg)).
  assert (R1 : RInv cfg w1' /\ has_write (w_log w1') id).
  { split; [split|].
    - unfold w1'. cbn [write_t logw w_log log_reg]. split; [right; exact Q|unfold w1; cbn [w_log log_reg]; exact Hr].
    - intros i Hcur. unfold w1', w1 in *. cbn in *. destruct (Hc i Hcur) as [t [b Hin]]. exists t, b. right. right. exact Hin.
    - exists (w_now w1), (q_cmd reg). unfold w1'. cbn. left. reflexivity. }
  destruct R1 as [R1 W1].
  assert (DROP : forall (what : N) w', ext id w1' w' -> RInv cfg (drop_conn w' id)).
  { intros what w' X. destruct (rinv_ext cfg id w1' w' R1 W1 X) as [[A B] _]. split; [exact A|].
    intros i Hcur. cbn in Hcur. destruct (B i Hcur) as [t [b Hin]]. exists t, b. right. exact Hin. }
  pose proof (seq_next_first reg id d w1) as X1. fold w1' in X1.
  destruct (seq_next reg id PStart d w1) as [[i v|e] ph w'|w'|w']; try (apply (DROP 0); exact X1).
  pose proof (seq_next_ext (seq_of "zvt::feig::sequences::GetSystemInfo" sysinfo_cmd) id PStart d w') as X2.
  assert (X12 : forall w'', ext id w' w'' -> ext id w1' w'') by (intros w'' X; eapply ext_trans; [exact X1|exact X]).
  destruct (seq_next _ id PStart d w') as [[i2 v2|e2] ph2 w2|w2|w2]; try (apply (DROP 0); apply X12; exact X2).
  destruct (i2 =? _); [|apply (DROP 0); apply X12; exact X2].
  destruct (first_pos v2) as [[| dev | | | | | |]|]; try (apply (DROP 0); apply X12; exact X2).
  destruct (list_eqb _ _); [|apply (DROP 0); apply X12; exact X2].
  apply (rinv_ext cfg id w1' w2 R1 W1 (X12 w2 X2)).
Qed.

Lemma rinv_drop_cur cfg w : RInv cfg w -> RInv cfg (drop_cur w).
Proof.
  intros H. pose proof (ri_reg cfg w H) as Hr. unfold drop_cur. destruct (w_cur w) as [id|] eqn:E; [|exact H]. split; [exact Hr|].
  intros i Hcur. cbn in Hcur. discriminate.
Qed.

Lemma retry_next_rinv cfg : forall fuel r w, RInv cfg w ->
  let '(_, _, w') := retry_next fuel cfg r w in RInv cfg w'.
Proof.
  induction fuel as [|f IH]; intros r w H; [exact H|]. cbn [retry_next]. destruct (r_ph r) eqn:P.
  - destruct (r_left r) as [|lft]; [exact H|].
    set (start := if r_first r then w_now w else N.max (w_now w) (r_last r + r_throttle r)).
    assert (H1 : RInv cfg (at_time w start)) by (destruct H as [A B]; split; [exact A|exact B]).
    destruct (w_cur (at_time w start)) as [id|] eqn:C.
    + apply IH. exact H1.
    + pose proof (connect_rinv cfg (start + r_timeout (rs_set r lft false start RIdle)) (at_time w start) H1) as K.
      destruct (connect cfg _ (at_time w start)) as [id w'|what w'].
      * destruct K as [[K1 K2] K3]. apply IH. split; [exact K1|]. intros i Hcur. cbn in Hcur. injection Hcur as <-. exact K3.
      * exact K.
  - destruct (w_cur w) as [id|] eqn:C; [|exact H].
    pose proof (seq_next_ext (r_seq r) id ph (w_now w + r_timeout r) w) as X.
    pose proof (ri_cur cfg w H id C) as V.
    destruct (seq_next (r_seq r) id ph (w_now w + r_timeout r) w) as [[i v|e] ph' w'|w'|w'];
      destruct (rinv_ext cfg id w w' H V X) as [H' _]; try exact H'.
    apply IH. apply rinv_drop_cur. exact H'.
  - apply IH. apply rinv_drop_cur. exact H.
  - exact H.
Qed.

Lemma rinv_init cfg scripts : RInv cfg {| w_conns := []; w_scripts := scripts; w_cur := None; w_now := 0; w_log := [] |}.
Proof. split; [exact I|intros i E; discriminate]. Qed.

Lemma log_reg_same a b l : registration_cmd a = registration_cmd b -> log_reg a l -> log_reg b l.
Proof.
  intros E. induction l as [|e l IH]; intros H; [exact I|]. destruct e; cbn [log_reg] in *; try (apply IH; exact H).
  destruct H as [[H|H] H2]; (split; [|apply IH; exact H2]); [left; exact H|right; congruence].
Qed.

(* in any history, the first bytes ever written to any connection are the registration command with the
   configured password and currency *)
Theorem history_registration_first cfg ops scripts :
  let '(_, _, _, w) := run_history cfg ops scripts in log_reg cfg (w_log w).
Proof.
  unfold run_history, new_client.
  set (cfg' := match c_terminal_id cfg with [] => _ | _ => cfg end).
  assert (E : registration_cmd cfg' = registration_cmd cfg) by (unfold cfg'; destruct (c_terminal_id cfg); reflexivity).
  pose proof (configure_inv cfg' (RInv cfg') (retry_next_rinv cfg') {| s_txs := []; s_max := c_max cfg' |} _ (rinv_init cfg' scripts)) as K.
  destruct (configure cfg' _ _) as [[r0 st1] w1]. cbn [snd] in K.
  pose proof (run_ops_inv cfg' (RInv cfg') (retry_next_rinv cfg') ops st1 w1 [] K) as K2.
  destruct (run_ops cfg' st1 ops w1 []) as [[rs st'] w']. cbn [snd] in K2.
  apply (log_reg_same cfg' cfg _ E).
  destruct (w_cur w') as [id|]; [|apply (ri_reg _ _ K2)]. cbn. apply (ri_reg _ _ K2).
Qed.

(* the identity check: a connection is handed to the caller only after the registration exchange went
   through on it AND the terminal's system information named the configured serial number *)
Theorem connect_vetted cfg d w id w' : connect cfg d w = COk id w' ->
  exists w1 wr i1 v1 ph1 i v ph dev,
    seq_next (seq_of "zvt::sequences::Registration" (registration_cmd cfg)) id PStart d w1 = NItem (IOk i1 v1) ph1 wr /\
    seq_next (seq_of "zvt::feig::sequences::GetSystemInfo" sysinfo_cmd) id PStart d wr = NItem (IOk i v) ph w' /\
    i = variant_ix "zvt::feig::sequences::GetSystemInfoResponse" "CVendFunctionsEnhancedSystemInformationCompletion" /\
    first_pos v = Some (VStr dev) /\ list_eqb (map lower dev) (map lower (c_serial cfg)) = true.
Proof.
  unfold connect. destruct (w_scripts w) as [|s rest]; [discriminate|]. destruct (cs_refused s); [discriminate|]. destruct (cs_silent s); [discriminate|].
  cbv zeta. cbn [w_conns w_scripts w_cur w_now w_log].
  match goal with |- context [seq_next _ ?i PStart d ?W] => set (w1 := W); set (id0 := i) end.
  destruct (seq_next _ id0 PStart d w1) as [[i1 v1|e] ph1 wr|wr|wr] eqn:E1; try discriminate.
  destruct (seq_next _ id0 PStart d wr) as [[i2 v2|e2] ph2 w2|w2|w2] eqn:E2; try discriminate.
  destruct (i2 =? _) eqn:Ei; [|discriminate].
  destruct (first_pos v2) as [[| dev | | | | | |]|] eqn:Ef; try discriminate.
  destruct (list_eqb _ _) eqn:El; [|discriminate].
  intros [= <- <-]. exists w1, wr, i1, v1, ph1, i2, v2, ph2, dev.
  split; [exact E1|]. split; [exact E2|]. split; [lia|]. split; [exact Ef|exact El].
Qed.

(* an exchange that ended normally keeps the connection: the next call polls it without connecting *)
Theorem reuse_without_connect f cfg r w id lft : r_ph r = RIdle -> r_left r = S lft -> w_cur w = Some id ->
  let start := if r_first r then w_now w else N.max (w_now w) (r_last r + r_throttle r) in
  retry_next (S f) cfg r w = retry_next f cfg (rs_set (rs_set r lft false start RIdle) lft false start (RInner PStart)) (at_time w start).
Proof. intros P L C. cbn [retry_next]. rewrite P, L. cbn [at_time w_cur]. rewrite C. reflexivity. Qed.

(* ... and a poll that yields an item or the end of the exchange leaves the connection in place *)
Theorem ok_item_keeps_connection q id ph d w : w_cur w = Some id ->
  match seq_next q id ph d w with
  | NItem _ _ w' | NEnd w' | NTimeout w' => w_cur w' = Some id
  end.
Proof.
  intros C. pose proof (seq_next_ext q id ph d w) as X.
  destruct (seq_next q id ph d w); rewrite (x_cur _ _ _ X); exact C.
Qed.

(* ================================================================== the timed reader and the stream reader agree *)
(* On a connection whose data has all arrived (nothing queued, peer closed) the timed read_packet of Client.v
   is exactly Transport.read_frame on the buffered bytes: the C04 theorems about read_frame (header agreement,
   k concatenated packets, truncation) are theorems about what the client reads. *)

Definition settled (c : conn) : Prop := k_queue c = [] /\ k_close c = true.

Lemma rx_t_settled f c n t : settled c ->
  rx_t (S f) c n t =
  if n <=? blen (k_buf c) then RxOk (take n (k_buf c)) t {| k_queue := []; k_close := true; k_buf := drop n (k_buf c) |}
  else RxEof t.
Proof.
  intros [Hq Hc]. cbn [rx_t]. rewrite Hq, Hc. destruct (n <=? blen (k_buf c)); reflexivity.
Qed.

Theorem read_packet_t_settled c t : settled c ->
  read_packet_t c t =
  match read_frame (k_buf c) with
  | Some (f, r) => RpFrame f t {| k_queue := []; k_close := true; k_buf := r |}
  | None => RpEof t
  end.
Proof.
  intros Hs. pose proof Hs as [Hq Hc]. unfold read_packet_t. rewrite Hq. cbn [length].
  rewrite (rx_t_settled 0 c 3 t Hs).
  destruct (k_buf c) as [|b0 [|b1 [|b2 r]]] eqn:Eb; try reflexivity.
  change (3 <=? blen (b0 :: b1 :: b2 :: r)) with (3 <=? N.of_nat (S (S (S (length r))))).
  destruct (3 <=? N.of_nat (S (S (S (length r))))) eqn:E3; [|lia].
  change (take 3 (b0 :: b1 :: b2 :: r)) with [b0; b1; b2]. change (drop 3 (b0 :: b1 :: b2 :: r)) with r.
  set (c1 := {| k_queue := []; k_close := true; k_buf := r |}).
  assert (S1 : settled c1) by (split; reflexivity).
  cbn [read_frame]. destruct (b2 =? 255) eqn:E.
  - rewrite (rx_t_settled 0 c1 2 t S1). cbn [k_buf c1].
    destruct r as [|lo [|hi r2]]; try reflexivity.
    change (2 <=? blen (lo :: hi :: r2)) with (2 <=? N.of_nat (S (S (length r2)))).
    destruct (2 <=? N.of_nat (S (S (length r2)))) eqn:E2; [|lia].
    change (take 2 (lo :: hi :: r2)) with [lo; hi]. change (drop 2 (lo :: hi :: r2)) with r2.
    set (c2 := {| k_queue := []; k_close := true; k_buf := r2 |}). cbv iota.
    rewrite (rx_t_settled 0 c2 (hi * 256 + lo) t ltac:(split; reflexivity)). cbn [k_buf c2].
    destruct (blen r2 <? hi * 256 + lo) eqn:E4; destruct (hi * 256 + lo <=? blen r2) eqn:E5; try lia; reflexivity.
  - rewrite (rx_t_settled 0 c1 b2 t S1). cbn [k_buf c1].
    destruct (blen r <? b2) eqn:E4; destruct (b2 <=? blen r) eqn:E5; try lia; reflexivity.
Qed.

(* ... and one poll of a sequence inside the client is one `rp` step of Sequence.v (the C05 / C06 model) on the buffered
   bytes: same frame consumed, same item or error, the acknowledgement written exactly when an item is yielded *)
Theorem seq_next_is_rp q id d w : settled (get_conn w id) -> w_now w <= d ->
  seq_next q id PLoop d w =
  match rp (q_replies q) (k_buf (get_conn w id)) with
  | (_, Some (i, v, r)) =>
      NItem (IOk i v) (if is_final (q_mode q) i then PDone else PLoop)
            (write_t (at_time (put_conn w id {| k_queue := []; k_close := true; k_buf := r |}) (w_now w)) id ACK)
  | (_, None) =>
      match read_frame (k_buf (get_conn w id)) with
      | Some (f, r) => NItem (IErr 1) PDone (at_time (put_conn w id {| k_queue := []; k_close := true; k_buf := r |}) (w_now w))
      | None => NItem (IErr 0) PDone w
      end
  end.
Proof.
  intros Hs Hd. unfold seq_next, read_parse, rp. rewrite (read_packet_t_settled _ _ Hs).
  destruct (read_frame (k_buf (get_conn w id))) as [[f r]|]; [|destruct (w_now w <=? d) eqn:E; [reflexivity|lia]].
  destruct (w_now w <=? d) eqn:E; [|lia].
  destruct (parse_enum FUEL (q_replies q) f) as [[i v]|e| |]; reflexivity.
Qed.

(* ================================================================== a whole exchange: the two models agree *)
(* Polling a sequence inside the client until it says it is done (Client.seq_next) produces exactly the items and exactly
   the writes of the trace model Sequence.run_seq on the buffered bytes — the model C05 / C06 / C11 are proved about and the
   model C07..C10 / C18..C20 are proved about are two views of one semantics. *)

Fixpoint poll_loop (k : nat) (q : seqdef) (id d : N) (w : world) : list item * world :=
  match k with
  | O => ([], w)
  | S k' =>
      match seq_next q id PLoop d w with
      | NItem it PLoop w' => let (its, w'') := poll_loop k' q id d w' in (it :: its, w'')
      | NItem it _ w' => ([it], w')
      | NEnd w' | NTimeout w' => ([], w')
      end
  end.

Definition item_obs (it : item) : option (N * value) := match it with IOk i v => Some (i, v) | IErr _ => None end.
Fixpoint ev_items (evs : list ev) : list (option (N * value)) :=
  match evs with
  | [] => []
  | EvY i v :: r => Some (i, v) :: ev_items r
  | EvErr :: r => None :: ev_items r
  | _ :: r => ev_items r
  end.
Fixpoint ev_writes (evs : list ev) : list bytes :=
  match evs with [] => [] | EvW b :: r => b :: ev_writes r | _ :: r => ev_writes r end.
Lemma ev_items_app a b : ev_items (a ++ b) = ev_items a ++ ev_items b.
Proof. induction a as [|[| | |] a IH]; cbn [app ev_items]; rewrite ?IH; reflexivity. Qed.
Lemma ev_writes_app a b : ev_writes (a ++ b) = ev_writes a ++ ev_writes b.
Proof. induction a as [|[| | |] a IH]; cbn [app ev_writes]; rewrite ?IH; reflexivity. Qed.

Definition valid_id (w : world) (id : N) : Prop := (N.to_nat id < length (w_conns w))%nat.

Lemma get_put w id c : valid_id w id -> get_conn (put_conn w id c) id = c.
Proof.
  unfold valid_id, get_conn, put_conn. cbn [w_conns]. generalize (N.to_nat id) as n. intros n.
  revert n. induction (w_conns w) as [|x l IH]; intros n H; [cbn in H; lia|].
  destruct n as [|n]; [reflexivity|]. cbn [set_conn nth]. apply IH. cbn in H. lia.
Qed.

Lemma rp_items vs s : ev_items (fst (rp vs s)) = match snd (rp vs s) with Some _ => [] | None => [None] end
  /\ ev_writes (fst (rp vs s)) = [].
Proof.
  unfold rp. destruct (read_frame s) as [[f r]|]; [|split; reflexivity].
  destruct (parse_enum FUEL vs f) as [[i v]|e| |]; split; reflexivity.
Qed.

Lemma loop_agrees q id d final : q_mode q = Loop final -> forall k w,
  valid_id w id -> settled (get_conn w id) -> w_now w <= d ->
  let '(evs, _) := seq_loop k (q_replies q) final (k_buf (get_conn w id)) in
  let '(its, w') := poll_loop k q id d w in
  map item_obs its = ev_items evs /\
  w_log w' = rev (map (fun b => EWrite id (w_now w) b) (ev_writes evs)) ++ w_log w.
Proof.
  intros Hm. induction k as [|k IH]; intros w Hv Hs Hd; [cbn; split; reflexivity|].
  cbn [seq_loop poll_loop]. rewrite (seq_next_is_rp q id d w Hs Hd). unfold is_final. rewrite Hm.
  destruct (rp_items (q_replies q) (k_buf (get_conn w id))) as [RI RW].
  destruct (rp (q_replies q) (k_buf (get_conn w id))) as [evs [[[i v] r]|]] eqn:Erp; cbn [fst snd] in RI, RW.
  - set (w1 := write_t (at_time (put_conn w id {| k_queue := []; k_close := true; k_buf := r |}) (w_now w)) id ACK).
    assert (Hv1 : valid_id w1 id) by (unfold valid_id, w1; cbn; rewrite set_conn_length; exact Hv).
    assert (G1 : get_conn w1 id = {| k_queue := []; k_close := true; k_buf := r |}) by (apply (get_put w id _ Hv)).
    assert (L1 : w_log w1 = EWrite id (w_now w) ACK :: w_log w) by reflexivity.
    assert (N1 : w_now w1 = w_now w) by reflexivity.
    destruct (final i).
    + rewrite !ev_items_app, !ev_writes_app, RI, RW. cbn. split; [reflexivity|exact L1].
    + specialize (IH w1 Hv1). rewrite G1 in IH. cbn [k_buf] in IH.
      specialize (IH ltac:(split; reflexivity) ltac:(lia)).
      destruct (seq_loop k (q_replies q) final r) as [t r'].
      destruct (poll_loop k q id d w1) as [its w'']. destruct IH as [I1 I2].
      rewrite !ev_items_app, !ev_writes_app, RI, RW. cbn [app map item_obs ev_items ev_writes]. split; [rewrite I1; reflexivity|].
      rewrite I2, L1, N1. cbn [map rev]. rewrite <- app_assoc. reflexivity.
  - unfold rp in Erp. destruct (read_frame (k_buf (get_conn w id))) as [[f r]|] eqn:Ef.
    + destruct (parse_enum FUEL (q_replies q) f) as [[i v]|e| |]; try discriminate; injection Erp as <-; cbn; split; reflexivity.
    + injection Erp as <-. cbn. split; reflexivity.
Qed.

(* run_seq with the loop fuel as a parameter (run_seq itself uses one more than the bytes left after the acknowledgement) *)
Definition run_seq_fuel (k : nat) (m : mode) (cmd : bytes) (ack vs : list variant) (s : bytes) : list ev :=
  match rp ack s with
  | (evs, None) => EvW cmd :: evs
  | (evs, Some (_, _, r)) =>
      match m with
      | Single =>
          match rp vs r with
          | (e2, None) => EvW cmd :: evs ++ e2
          | (e2, Some (i, v, r2)) => EvW cmd :: evs ++ e2 ++ [EvW ACK; EvY i v]
          end
      | Loop final => EvW cmd :: evs ++ fst (seq_loop k vs final r)
      end
  end.

Lemma run_seq_is_fuel m cmd ack vs s :
  fst (run_seq m cmd ack vs s) =
  run_seq_fuel (match rp ack s with (_, Some (_, _, r)) => S (length r) | _ => O end) m cmd ack vs s.
Proof.
  unfold run_seq, run_seq_fuel. destruct (rp ack s) as [evs [[[i v] r]|]]; [|reflexivity].
  destruct m; [destruct (rp vs r) as [e2 [[[i2 v2] r2]|]]; reflexivity|].
  destruct (seq_loop (S (length r)) vs final r). reflexivity.
Qed.

(* the client's side of one exchange: poll from the start until the sequence says it is done *)
Definition poll_exchange (k : nat) (q : seqdef) (id d : N) (w : world) : list item * world :=
  match seq_next q id PStart d w with
  | NItem it PLoop w' => let (its, w'') := poll_loop k q id d w' in (it :: its, w'')
  | NItem it _ w' => ([it], w')
  | NEnd w' | NTimeout w' => ([], w')
  end.

Lemma rp_unfold vs s : rp vs s =
  match read_frame s with
  | None => ([EvR s; EvErr], None)
  | Some (f, r) => match parse_enum FUEL vs f with
                   | Ok (i, v) => ([EvR f], Some (i, v, r))
                   | _ => ([EvR f; EvErr], None)
                   end
  end.
Proof. reflexivity. Qed.

Theorem exchange_agrees q id d k w : valid_id w id -> settled (get_conn w id) -> w_now w <= d ->
  let evs := run_seq_fuel (S k) (q_mode q) (q_cmd q) ack_enum (q_replies q) (k_buf (get_conn w id)) in
  let '(its, w') := poll_exchange k q id d w in
  map item_obs its = ev_items evs /\
  w_log w' = rev (map (fun b => EWrite id (w_now w) b) (ev_writes evs)) ++ w_log w.
Proof.
  intros Hv Hs Hd. cbv zeta.
  set (s := k_buf (get_conn w id)).
  set (w0 := write_t w id (q_cmd q)).
  assert (L0 : w_log w0 = EWrite id (w_now w) (q_cmd q) :: w_log w) by reflexivity.
  (* the client's first poll, step by step *)
  assert (P0 : seq_next q id PStart d w =
    match read_frame s with
    | None => NItem (IErr 0) PDone w0
    | Some (f, r) =>
        let w1 := at_time (put_conn w0 id {| k_queue := []; k_close := true; k_buf := r |}) (w_now w) in
        match parse_enum FUEL ack_enum f with
        | Ok _ => seq_next q id PLoop d w1
        | _ => NItem (IErr 1) PDone w1
        end
    end).
  { unfold seq_next at 1, read_parse. fold w0.
    change (get_conn w0 id) with (get_conn w id). change (w_now w0) with (w_now w).
    rewrite (read_packet_t_settled _ _ Hs). fold s.
    destruct (read_frame s) as [[f r]|]; [|destruct (w_now w <=? d) eqn:E; [reflexivity|lia]].
    destruct (w_now w <=? d) eqn:E; [|lia]. cbv zeta.
    destruct (parse_enum FUEL ack_enum f) as [[ia va]|e| |]; reflexivity. }
  unfold poll_exchange. rewrite P0. clear P0. unfold run_seq_fuel. fold s. rewrite (rp_unfold ack_enum s).
  destruct (read_frame s) as [[f r]|] eqn:Ef; [|cbn; split; [reflexivity|exact L0]].
  cbv zeta.
  set (w1 := at_time (put_conn w0 id {| k_queue := []; k_close := true; k_buf := r |}) (w_now w)).
  assert (L1 : w_log w1 = EWrite id (w_now w) (q_cmd q) :: w_log w) by reflexivity.
  destruct (parse_enum FUEL ack_enum f) as [[ia va]|e| |]; try (cbn; split; [reflexivity|exact L1]).
  assert (Hv1 : valid_id w1 id) by (unfold valid_id, w1, w0; cbn; rewrite set_conn_length; exact Hv).
  assert (G1 : get_conn w1 id = {| k_queue := []; k_close := true; k_buf := r |}).
  { unfold w1. apply (get_put w0 id). unfold valid_id, w0. cbn. exact Hv. }
  assert (S1 : settled (get_conn w1 id)) by (rewrite G1; split; reflexivity).
  assert (N1 : w_now w1 = w_now w) by reflexivity.
  rewrite (seq_next_is_rp q id d w1 S1 ltac:(lia)). rewrite G1. cbn [k_buf]. rewrite N1.
  destruct (rp_items (q_replies q) r) as [RI RW].
  destruct (q_mode q) as [|final] eqn:Hm.
  - (* a single reply *)
    destruct (rp (q_replies q) r) as [e2 [[[i v] r2]|]] eqn:Erp; cbn [fst snd] in RI, RW.
    + unfold is_final. cbn [ev_items ev_writes]. rewrite !ev_items_app, !ev_writes_app, RI, RW. cbn. split; reflexivity.
    + assert (Q : match read_frame r with
                  | Some (f0, r0) => NItem (IErr 1) PDone (at_time (put_conn w1 id {| k_queue := []; k_close := true; k_buf := r0 |}) (w_now w))
                  | None => NItem (IErr 0) PDone w1
                  end = NItem (IErr (match read_frame r with Some _ => 1 | None => 0 end)) PDone
                          (match read_frame r with
                           | Some (f0, r0) => at_time (put_conn w1 id {| k_queue := []; k_close := true; k_buf := r0 |}) (w_now w)
                           | None => w1 end)) by (destruct (read_frame r) as [[f0 r0]|]; reflexivity).
      rewrite Q. cbn [ev_items ev_writes]. rewrite !ev_items_app, !ev_writes_app, RI, RW. cbn [app map item_obs rev].
      split; [reflexivity|]. destruct (read_frame r) as [[f0 r0]|]; exact L1.
  - (* a loop: the first reply belongs to this poll, the rest to poll_loop *)
    cbn [seq_loop].
    destruct (rp (q_replies q) r) as [e2 [[[i v] r2]|]] eqn:Erp; cbn [fst snd] in RI, RW.
    + set (w2 := write_t (at_time (put_conn w1 id {| k_queue := []; k_close := true; k_buf := r2 |}) (w_now w)) id ACK).
      assert (L2 : w_log w2 = EWrite id (w_now w) ACK :: EWrite id (w_now w) (q_cmd q) :: w_log w) by reflexivity.
      unfold is_final. destruct (final i) eqn:Hf.
      * cbn [fst ev_items ev_writes]. rewrite !ev_items_app, !ev_writes_app, RI, RW. cbn. split; reflexivity.
      * assert (Hv2 : valid_id w2 id) by (unfold valid_id, w2; cbn; rewrite set_conn_length; exact Hv1).
        assert (G2 : get_conn w2 id = {| k_queue := []; k_close := true; k_buf := r2 |}) by (apply (get_put w1 id _ Hv1)).
        pose proof (loop_agrees q id d final Hm k w2 Hv2) as LA. rewrite G2 in LA. cbn [k_buf] in LA.
        specialize (LA ltac:(split; reflexivity) ltac:(cbn; lia)).
        destruct (seq_loop k (q_replies q) final r2) as [t r'].
        destruct (poll_loop k q id d w2) as [its w'']. destruct LA as [I1 I2].
        cbn [fst ev_items ev_writes]. rewrite !ev_items_app, !ev_writes_app, RI, RW.
        cbn [app map item_obs ev_items ev_writes]. split; [rewrite I1; reflexivity|].
        rewrite I2, L2. change (w_now w2) with (w_now w). cbn [map rev]. rewrite <- !app_assoc. reflexivity.
    + assert (Q : match read_frame r with
                  | Some (f0, r0) => NItem (IErr 1) PDone (at_time (put_conn w1 id {| k_queue := []; k_close := true; k_buf := r0 |}) (w_now w))
                  | None => NItem (IErr 0) PDone w1
                  end = NItem (IErr (match read_frame r with Some _ => 1 | None => 0 end)) PDone
                          (match read_frame r with
                           | Some (f0, r0) => at_time (put_conn w1 id {| k_queue := []; k_close := true; k_buf := r0 |}) (w_now w)
                           | None => w1 end)) by (destruct (read_frame r) as [[f0 r0]|]; reflexivity).
      rewrite Q. cbn [fst ev_items ev_writes]. rewrite !ev_items_app, !ev_writes_app, RI, RW. cbn [app map item_obs rev].
      split; [reflexivity|]. destruct (read_frame r) as [[f0 r0]|]; exact L1.
Qed.

(* ================================================================== the client reads what the terminal's encoder wrote *)
From Zvt Require Import EnumProps CanonClass CanonRoundtrip TransportProps.

(* a reply serialised by the terminal side (any value of the class `canon`, C01) and sitting in the buffer, followed by anything,
   is handed to the caller as exactly that variant with exactly that content; it is acknowledged; what follows stays buffered *)
Theorem poll_roundtrip q id d w k nm c v b rest :
  settled (get_conn w id) -> w_now w <= d -> k_buf (get_conn w id) = b ++ rest ->
  nodup_cf (map v_cf (q_replies q)) = true -> nth_error (q_replies q) k = Some (nm, c) ->
  c_class c < 256 -> c_instr c < 256 -> (depth_fields (c_fields c) <= S FUEL)%nat ->
  canon_cmd c v = Some b ->
  seq_next q id PLoop d w =
  NItem (IOk (N.of_nat k) v) (if is_final (q_mode q) (N.of_nat k) then PDone else PLoop)
        (write_t (at_time (put_conn w id {| k_queue := []; k_close := true; k_buf := rest |}) (w_now w)) id ACK).
Proof.
  intros Hs Hd Hb Hnd Hk Hc Hi Hf Hcan. rewrite (seq_next_is_rp q id d w Hs Hd), Hb.
  pose proof (stream_roundtrip FUEL (q_replies q) k nm c v b rest Hnd Hk Hc Hi Hf Hcan) as R.
  unfold read_packet in R. unfold rp. destruct (read_frame (b ++ rest)) as [[f r]|]; [|discriminate].
  injection R as R1 R2. rewrite R1, R2. reflexivity.
Qed.

(* ================================================================== the consumer loop sees exactly the items of the exchange *)
(* consume_is_fold (ClientProps) says the result of a public call is the handler folded over SOME list of items.  When the
   exchange on the current connection goes through (every poll hands over an item in time, the last one final), that list is
   exactly the list of items polled: no retry, no reconnect, nothing skipped, nothing duplicated. *)

(* conversion-order hint for Qed: never unfold the fuelled loops or their fuel when comparing terms *)
Local Strategy 1000 [consume retry_next RFUEL LOOPFUEL].

Inductive polls_ok (q : seqdef) (T id : N) : phase -> world -> list (N * value) -> Prop :=
| po_last ph w i v w' :
    seq_next q id ph (w_now w + T) w = NItem (IOk i v) PDone w' -> polls_ok q T id ph w [(i, v)]
| po_more ph w i v w1 its :
    seq_next q id ph (w_now w + T) w = NItem (IOk i v) PLoop w1 -> polls_ok q T id PLoop w1 its ->
    polls_ok q T id ph w ((i, v) :: its).

Lemma seq_next_cur q id ph d w : match seq_next q id ph d w with NItem _ _ w' | NEnd w' | NTimeout w' => w_cur w' = w_cur w end.
Proof. pose proof (seq_next_ext q id ph d w) as X. destruct (seq_next q id ph d w); apply (x_cur _ _ _ X). Qed.

Lemma at_time_now w : at_time w (w_now w) = w.
Proof. destruct w. reflexivity. Qed.

Lemma retry_inner f cfg r w id ph : r_ph r = RInner ph -> w_cur w = Some id ->
  retry_next (S f) cfg r w =
  match seq_next (r_seq r) id ph (w_now w + r_timeout r) w with
  | NTimeout w' => retry_next f cfg (rs_set r (r_left r) (r_first r) (r_last r) RIdle) (drop_cur w')
  | NEnd w' => (None, rs_set r (r_left r) (r_first r) (r_last r) REnd, w')
  | NItem (IOk i v) ph' w' => (Some (IOk i v), rs_set r (r_left r) (r_first r) (r_last r) (RInner ph'), w')
  | NItem (IErr e) _ w' => (Some (IErr e), rs_set r (r_left r) (r_first r) (r_last r) RAfterErr, w')
  end.
Proof. intros P C. cbn [retry_next]. rewrite P, C. reflexivity. Qed.

Theorem consume_follows_polls {A B} cfg (h : A -> N -> value -> option (cres B) * A) fin id :
  forall its ph fuel r w acc,
  r_ph r = RInner ph -> w_cur w = Some id ->
  polls_ok (r_seq r) (r_timeout r) id ph w its -> (length its < fuel)%nat ->
  fst (consume fuel cfg r w acc h fin) = run_handler h fin acc its.
Proof.
  induction its as [|[i v] its IH]; intros ph fuel r w acc P C Hp Hf; [inversion Hp|].
  destruct fuel as [|fuel]; [cbn in Hf; lia|]. cbn [consume]. unfold RFUEL.
  rewrite (retry_inner 63 cfg r w id ph P C).
  inversion Hp as [ph0 w0 i0 v0 w' E Eph Ew Eits|ph0 w0 i0 v0 w1 its0 E Hrest Eph Ew Eits].
  - rewrite E. cbn [run_handler]. destruct (h acc i v) as [[res|] acc']; [reflexivity|].
    (* the sequence is done: the next poll ends the stream *)
    destruct fuel as [|fuel]; [reflexivity|]. cbn [consume]. unfold RFUEL.
    pose proof (seq_next_cur (r_seq r) id ph (w_now w + r_timeout r) w) as Cw. rewrite E in Cw.
    rewrite (retry_inner 63 cfg (rs_set r (r_left r) (r_first r) (r_last r) (RInner PDone)) w' id PDone eq_refl ltac:(congruence)).
    cbn [rs_set r_seq r_timeout seq_next]. reflexivity.
  - rewrite E. cbn [run_handler]. destruct (h acc i v) as [[res|] acc']; [reflexivity|].
    pose proof (seq_next_cur (r_seq r) id ph (w_now w + r_timeout r) w) as Cw. rewrite E in Cw.
    apply (IH PLoop fuel _ w1 acc'); [reflexivity|congruence|cbn [rs_set r_seq r_timeout]; exact Hrest|cbn in Hf; lia].
Qed.

Lemma consume_S {A B} f cfg r w (acc : A) (h : A -> N -> value -> option (cres B) * A) fin :
  consume (S f) cfg r w acc h fin =
  match retry_next RFUEL cfg r w with
  | (None, _, w') => (fin acc, w')
  | (Some (IErr _), r', w') => consume f cfg r' w' acc h fin
  | (Some (IOk i v), r', w') =>
      match h acc i v with
      | (Some res, _) => (res, w')
      | (None, acc') => consume f cfg r' w' acc' h fin
      end
  end.
Proof. reflexivity. Qed.

(* the first poll of a call leaves RIdle for RInner PStart without waiting (first attempt) and without connecting (a connection is there) *)
Lemma first_poll_reuses cfg q T w id : w_cur w = Some id ->
  retry_next RFUEL cfg (start_retry q T) w =
  retry_next RFUEL cfg (rs_set (rs_set (start_retry q T) 19 false (w_now w) RIdle) 19 false (w_now w) (RInner PStart)) w.
Proof.
  intros C. set (r1 := rs_set (rs_set (start_retry q T) 19 false (w_now w) RIdle) 19 false (w_now w) (RInner PStart)).
  transitivity (retry_next 63 cfg r1 w).
  - change RFUEL with (S 63). rewrite (reuse_without_connect 63 cfg (start_retry q T) w id 19 eq_refl eq_refl C).
    cbn [start_retry r_first]. rewrite at_time_now. reflexivity.
  - apply retry_fuel_irrelevant; unfold rmeasure, r1, RFUEL; cbn [rs_set r_left r_ph]; lia.
Qed.

(* from the start of a call: the current connection is reused, the first poll sends the command *)
Theorem call_follows_polls {A B} cfg (h : A -> N -> value -> option (cres B) * A) fin q T id its fuel w acc :
  w_cur w = Some id -> polls_ok q T id PStart w its -> (length its < fuel)%nat ->
  fst (consume fuel cfg (start_retry q T) w acc h fin) = run_handler h fin acc its.
Proof.
  intros C Hp Hf. destruct fuel as [|fuel]; [lia|].
  set (r1 := rs_set (rs_set (start_retry q T) 19 false (w_now w) RIdle) 19 false (w_now w) (RInner PStart)).
  pose proof (consume_follows_polls cfg h fin id its PStart (S fuel) r1 w acc eq_refl C Hp Hf) as G.
  rewrite consume_S in G. rewrite consume_S, (first_poll_reuses cfg q T w id C). exact G.
Qed.

(* for instance reading a card: the result is the classification fold over exactly the replies received *)
Corollary read_card_follows_polls cfg w id its :
  let t := c_read_card_timeout cfg in
  let cmd := mk_cmd "zvt::packets::ReadCard" [VInt t]
               [(25, VSome (VInt 16)); (252, VSome (VInt 2));
                (6, VSome (VRec (build_rec (snd (layout_of "zvt::packets::tlv::ReadCard")) [] [(7957, VSome (VInt 208)); (8032, VSome (VInt 7))])))] in
  w_cur w = Some id ->
  polls_ok (seq_of "zvt::sequences::ReadCard" cmd) ((t + 2) * 1000) id PStart w its -> (length its < LOOPFUEL)%nat ->
  fst (read_card cfg w) =
  run_handler (h_read_card (variant_ix "zvt::sequences::ReadCardResponse" "Abort") (variant_ix "zvt::sequences::ReadCardResponse" "StatusInformation"))
              f_read_card None its.
Proof. intros t cmd C Hp Hf. unfold read_card. apply (call_follows_polls cfg _ _ _ _ id its LOOPFUEL w None C Hp Hf). Qed.

(* ================================================================== from the bytes in the buffer to the result of the call *)
(* When the replies of a whole exchange are already buffered on the current connection and the trace model (Sequence.v) says they
   parse into the items `its`, the last of them final, then the polls go through (polls_ok) — hence, by call_follows_polls, the
   public call returns the handler folded over exactly those items. *)

Definition ends_final (m : mode) (its : list (N * value)) : Prop :=
  match m with
  | Single => exists x, its = [x]
  | Loop final => exists pre i v, its = pre ++ [(i, v)] /\ final i = true /\ forall j u, In (j, u) pre -> final j = false
  end.

Lemma polls_of_loop q T id final : q_mode q = Loop final -> forall k w its,
  valid_id w id -> settled (get_conn w id) ->
  ev_items (fst (seq_loop k (q_replies q) final (k_buf (get_conn w id)))) = map Some its ->
  (exists pre i v, its = pre ++ [(i, v)] /\ final i = true /\ forall j u, In (j, u) pre -> final j = false) ->
  polls_ok q T id PLoop w its.
Proof.
  intros Hm. induction k as [|k IH]; intros w its Hv Hs He Hfin.
  { cbn in He. destruct its; [|discriminate]. destruct Hfin as [pre [i [v [E _]]]]. destruct pre; discriminate. }
  cbn [seq_loop] in He. pose proof (seq_next_is_rp q id (w_now w + T) w Hs ltac:(lia)) as P. unfold is_final in P. rewrite Hm in P.
  destruct (rp_items (q_replies q) (k_buf (get_conn w id))) as [RI RW].
  destruct (rp (q_replies q) (k_buf (get_conn w id))) as [evs [[[i v] r]|]] eqn:Erp; cbn [fst snd] in RI, RW.
  - set (w1 := write_t (at_time (put_conn w id {| k_queue := []; k_close := true; k_buf := r |}) (w_now w)) id ACK) in *.
    destruct (final i) eqn:Hf.
    + cbn [fst] in He. rewrite ev_items_app, RI in He. cbn in He.
      destruct its as [|[i' v'] [|x its']]; try discriminate. inversion He; subst i' v'. eapply po_last. exact P.
    + destruct (seq_loop k (q_replies q) final r) as [t r'] eqn:El. cbn [fst] in He.
      rewrite !ev_items_app, RI in He. cbn [app ev_items] in He.
      destruct its as [|[i' v'] its']; [discriminate|]. cbn [map] in He. inversion He as [[Ei Ev He']]. subst i' v'. clear He. rename He' into He.
      destruct Hfin as [pre [i2 [v2 [E [F1 F2]]]]].
      destruct pre as [|p0 pre'].
      * cbn in E. inversion E; subst. congruence.
      * cbn [app] in E. inversion E as [[Ep E']]. subst p0.
        eapply po_more; [exact P|].
        assert (Hv1 : valid_id w1 id) by (unfold valid_id, w1; cbn; rewrite set_conn_length; exact Hv).
        assert (G1 : get_conn w1 id = {| k_queue := []; k_close := true; k_buf := r |}) by (apply (get_put w id _ Hv)).
        apply IH; [exact Hv1|rewrite G1; split; reflexivity| |].
        -- rewrite G1. cbn [k_buf]. rewrite El. cbn [fst]. first [exact He|rewrite <- E'; exact He].
        -- exists pre', i2, v2. split; [first [exact E'|reflexivity]|]. split; [exact F1|]. intros j u Hin. apply (F2 j u). right. exact Hin.
  - cbn [fst] in He. rewrite RI in He. destruct its; discriminate.
Qed.

Lemma seq_next_start_settled q id d w : settled (get_conn w id) -> w_now w <= d ->
  seq_next q id PStart d w =
  let w0 := write_t w id (q_cmd q) in
  match read_frame (k_buf (get_conn w id)) with
  | None => NItem (IErr 0) PDone w0
  | Some (f, r) =>
      let w1 := at_time (put_conn w0 id {| k_queue := []; k_close := true; k_buf := r |}) (w_now w) in
      match parse_enum FUEL ack_enum f with
      | Ok _ => seq_next q id PLoop d w1
      | _ => NItem (IErr 1) PDone w1
      end
  end.
Proof.
  intros Hs Hd. cbv zeta. unfold seq_next at 1, read_parse.
  change (get_conn (write_t w id (q_cmd q)) id) with (get_conn w id). change (w_now (write_t w id (q_cmd q))) with (w_now w).
  rewrite (read_packet_t_settled _ _ Hs).
  destruct (read_frame (k_buf (get_conn w id))) as [[f r]|]; [|destruct (w_now w <=? d) eqn:E; [reflexivity|lia]].
  destruct (w_now w <=? d) eqn:E; [|lia].
  destruct (parse_enum FUEL ack_enum f) as [[ia va]|e| |]; reflexivity.
Qed.

Theorem polls_of_exchange q T id k w its : valid_id w id -> settled (get_conn w id) ->
  ev_items (run_seq_fuel (S k) (q_mode q) (q_cmd q) ack_enum (q_replies q) (k_buf (get_conn w id))) = map Some its ->
  ends_final (q_mode q) its ->
  polls_ok q T id PStart w its.
Proof.
  intros Hv Hs He Hfin. pose proof (seq_next_start_settled q id (w_now w + T) w Hs ltac:(lia)) as P0. cbv zeta in P0.
  unfold run_seq_fuel in He. rewrite (rp_unfold ack_enum (k_buf (get_conn w id))) in He.
  destruct (read_frame (k_buf (get_conn w id))) as [[f r]|] eqn:Ef; [|cbn in He; destruct its; discriminate].
  destruct (parse_enum FUEL ack_enum f) as [[ia va]|e| |]; try (cbn in He; destruct its; discriminate).
  set (w0 := write_t w id (q_cmd q)) in *.
  set (w1 := at_time (put_conn w0 id {| k_queue := []; k_close := true; k_buf := r |}) (w_now w)) in *.
  assert (Hv1 : valid_id w1 id) by (unfold valid_id, w1, w0; cbn; rewrite set_conn_length; exact Hv).
  assert (G1 : get_conn w1 id = {| k_queue := []; k_close := true; k_buf := r |}).
  { unfold w1. apply (get_put w0 id). unfold valid_id, w0. cbn. exact Hv. }
  assert (S1 : settled (get_conn w1 id)) by (rewrite G1; split; reflexivity).
  assert (N1 : w_now w1 = w_now w) by reflexivity.
  destruct (q_mode q) as [|final] eqn:Hm.
  - (* a single reply *)
    pose proof (seq_next_is_rp q id (w_now w + T) w1 S1 ltac:(lia)) as P1. rewrite G1 in P1. cbn [k_buf] in P1. unfold is_final in P1. rewrite Hm in P1.
    destruct (rp_items (q_replies q) r) as [RI RW].
    destruct (rp (q_replies q) r) as [e2 [[[i v] r2]|]] eqn:Erp; cbn [fst snd] in RI, RW.
    + cbn [ev_items] in He. rewrite !ev_items_app, RI in He. cbn in He.
      destruct its as [|[i' v'] [|x its']]; try discriminate. inversion He; subst i' v'.
      eapply po_last. rewrite P0. exact P1.
    + cbn [ev_items] in He. rewrite !ev_items_app, RI in He. cbn in He. destruct its; discriminate.
  - (* a loop: the first poll also takes the first reply *)
    cbn [ev_items] in He. rewrite ev_items_app in He. cbn [ev_items app] in He.
    pose proof (polls_of_loop q T id final Hm (S k) w1 its Hv1 S1) as PL. rewrite G1 in PL. cbn [k_buf] in PL.
    specialize (PL He Hfin).
    (* the PStart poll is the PLoop poll on w1, whose deadline is the same because time did not move *)
    inversion PL as [ph0 w0' i v w' E|ph0 w0' i v w2 its0 E Hrest]; subst.
    + eapply po_last. rewrite P0. rewrite N1 in E. exact E.
    + eapply po_more; [rewrite P0; rewrite N1 in E; exact E|exact Hrest].
Qed.

(* THE end-to-end statement for a call on a connection that already holds the whole reply script: the result is the handler folded
   over exactly the items the trace model reads from those bytes *)
Corollary call_on_buffered_replies {A B} cfg (h : A -> N -> value -> option (cres B) * A) fin q T id k its fuel w acc :
  w_cur w = Some id -> valid_id w id -> settled (get_conn w id) ->
  ev_items (run_seq_fuel (S k) (q_mode q) (q_cmd q) ack_enum (q_replies q) (k_buf (get_conn w id))) = map Some its ->
  ends_final (q_mode q) its -> (length its < fuel)%nat ->
  fst (consume fuel cfg (start_retry q T) w acc h fin) = run_handler h fin acc its.
Proof.
  intros C Hv Hs He Hfin Hf. apply (call_follows_polls cfg h fin q T id its fuel w acc C); [|exact Hf].
  apply (polls_of_exchange q T id k w its Hv Hs He Hfin).
Qed.

(* ================================================================== ... and from what the terminal SERIALISED to the result of the call *)

Definition reply_ok (vs : list variant) (x : N * value * bytes) : Prop :=
  let '(k, v, b) := x in
  exists nm c, nth_error vs (N.to_nat k) = Some (nm, c) /\ c_class c < 256 /\ c_instr c < 256 /\
               (depth_fields (c_fields c) <= S FUEL)%nat /\ canon_cmd c v = Some b.

Lemma canon_cmd_is_frame c v b : c_class c < 256 -> c_instr c < 256 -> canon_cmd c v = Some b ->
  exists body, blen body <= 65535 /\ b = frame_of (c_class c) (c_instr c) body.
Proof.
  intros Hc Hi Hcan. unfold canon_cmd in Hcan. destruct (canon_struct (c_fields c) v) as [pl|]; [|discriminate].
  destruct ((blen pl <=? 65535) && (cf c <? 65536)) eqn:E; [|discriminate]. apply andb_prop in E. destruct E as [E1 E2].
  exists pl. split; [lia|]. unfold framed_enc in Hcan. cbn [len_ser bind] in Hcan.
  unfold frame_of. destruct (blen pl <? 255) eqn:E3; cbn [bind] in Hcan; injection Hcan as <-; unfold tag_enc, cf; cbn [app].
  - replace ((c_class c * 256 + c_instr c) / 256 mod 256) with (c_class c) by lia.
    replace ((c_class c * 256 + c_instr c) mod 256) with (c_instr c) by lia. reflexivity.
  - replace ((c_class c * 256 + c_instr c) / 256 mod 256) with (c_class c) by lia.
    replace ((c_class c * 256 + c_instr c) mod 256) with (c_instr c) by lia.
    replace (blen pl mod 65536) with (blen pl) by lia. reflexivity.
Qed.

Lemma rp_serialised vs k v b rest : nodup_cf (map v_cf vs) = true -> reply_ok vs (k, v, b) ->
  rp vs (b ++ rest) = ([EvR b], Some (k, v, rest)).
Proof.
  intros Hnd [nm [c [Hk [Hc [Hi [Hd Hcan]]]]]].
  destruct (reply_roundtrip FUEL vs (N.to_nat k) nm c v b Hnd Hk Hc Hi Hd Hcan) as [_ Hp].
  destruct (canon_cmd_is_frame c v b Hc Hi Hcan) as [body [Hl ->]].
  destruct (header_agreement (c_class c) (c_instr c) body rest Hl) as [Hr _].
  rewrite rp_unfold, Hr, Hp, N2Nat.id. reflexivity.
Qed.

Definition x_item (x : N * value * bytes) : N * value := fst x.
Definition x_bytes (x : N * value * bytes) : bytes := snd x.

Lemma seq_loop_serialised vs final : nodup_cf (map v_cf vs) = true -> forall xs k rest,
  Forall (reply_ok vs) xs -> (length xs <= k)%nat ->
  (forall pre x post, xs = pre ++ x :: post -> final (fst (x_item x)) = match post with [] => true | _ => false end) ->
  xs <> [] ->
  ev_items (fst (seq_loop k vs final (concat (map x_bytes xs) ++ rest))) = map Some (map x_item xs).
Proof.
  intros Hnd. induction xs as [|[[i v] b] xs IH]; intros k rest Hok Hk Hfin Hne; [congruence|].
  destruct k as [|k]; [cbn in Hk; lia|]. cbn [map concat x_bytes snd seq_loop]. rewrite <- app_assoc.
  inversion Hok as [|? ? H1 H2]; subst.
  rewrite (rp_serialised vs i v b (concat (map x_bytes xs) ++ rest) Hnd H1).
  pose proof (Hfin [] (i, v, b) xs eq_refl) as F. cbn [x_item fst] in F.
  destruct xs as [|x xs'].
  - rewrite F. cbn. reflexivity.
  - rewrite F.
    assert (IH' := IH k rest H2 ltac:(cbn in Hk |- *; lia)
                    (fun pre y post E => Hfin ((i, v, b) :: pre) y post ltac:(rewrite E; reflexivity)) ltac:(discriminate)).
    destruct (seq_loop k vs final (concat (map x_bytes (x :: xs')) ++ rest)) as [t r']. cbn [fst] in IH' |- *.
    rewrite !ev_items_app. cbn [ev_items app]. rewrite IH'. reflexivity.
Qed.

(* the acknowledgement 80 00 00 is read and parsed as such (the ack enum is a regenerated table: by computation) *)
Lemma rp_ack rest : exists i v, rp ack_enum ([128; 0; 0] ++ rest) = ([EvR [128; 0; 0]], Some (i, v, rest)).
Proof. eexists. eexists. rewrite rp_unfold. cbn [app read_frame]. vm_compute (128 =? 255). vm_compute (0 =? 255).
  cbn [blen]. destruct (_ <? 0) eqn:E; [lia|]. unfold take, drop. cbn [firstn skipn N.to_nat app]. vm_compute (parse_enum FUEL ack_enum [128; 0; 0]). reflexivity.
Qed.

Theorem call_on_serialised_replies {A B} cfg (h : A -> N -> value -> option (cres B) * A) fin q T id xs rest fuel w acc final :
  q_mode q = Loop final ->
  w_cur w = Some id -> valid_id w id -> settled (get_conn w id) ->
  k_buf (get_conn w id) = [128; 0; 0] ++ concat (map x_bytes xs) ++ rest ->
  nodup_cf (map v_cf (q_replies q)) = true -> Forall (reply_ok (q_replies q)) xs -> xs <> [] ->
  (forall pre x post, xs = pre ++ x :: post -> final (fst (x_item x)) = match post with [] => true | _ => false end) ->
  (length xs < fuel)%nat ->
  fst (consume fuel cfg (start_retry q T) w acc h fin) = run_handler h fin acc (map x_item xs).
Proof.
  intros Hm C Hv Hs Hb Hnd Hok Hne Hfin Hf.
  apply (call_on_buffered_replies cfg h fin q T id (length xs) (map x_item xs) fuel w acc C Hv Hs); [| |rewrite map_length; exact Hf].
  - rewrite Hb. unfold run_seq_fuel. destruct (rp_ack (concat (map x_bytes xs) ++ rest)) as [ia [va Ra]]. rewrite Ra, Hm.
    cbn [ev_items]. rewrite ev_items_app. cbn [ev_items app].
    apply (seq_loop_serialised (q_replies q) final Hnd xs (S (length xs)) rest Hok ltac:(lia) Hfin Hne).
  - rewrite Hm. unfold ends_final.
    (* split xs at its last element *)
    destruct (exists_last Hne) as [pre [[[i v] b] E]]. exists (map x_item pre), i, v. rewrite E, map_app. cbn [map x_item fst]. split; [reflexivity|].
    split.
    + pose proof (Hfin pre (i, v, b) [] E) as F. exact F.
    + intros j u Hin. apply in_map_iff in Hin. destruct Hin as [[[j' u'] b'] [Ex Hx]]. cbn in Ex. injection Ex as -> ->.
      apply in_split in Hx. destruct Hx as [l1 [l2 El]].
      pose proof (Hfin l1 (j, u, b') (l2 ++ [(i, v, b)]) ltac:(rewrite E, El, <- app_assoc; reflexivity)) as F. cbn [x_item fst] in F.
      destruct (l2 ++ [(i, v, b)]) eqn:E2; [destruct l2; discriminate|exact F].
Qed.

(* the same for an exchange with a single reply (the default into_stream) *)
Theorem call_on_serialised_reply_single {A B} cfg (h : A -> N -> value -> option (cres B) * A) fin q T id k v b rest fuel w acc :
  q_mode q = Single ->
  w_cur w = Some id -> valid_id w id -> settled (get_conn w id) ->
  k_buf (get_conn w id) = [128; 0; 0] ++ b ++ rest ->
  nodup_cf (map v_cf (q_replies q)) = true -> reply_ok (q_replies q) (k, v, b) -> (1 < fuel)%nat ->
  fst (consume fuel cfg (start_retry q T) w acc h fin) = run_handler h fin acc [(k, v)].
Proof.
  intros Hm C Hv Hs Hb Hnd Hok Hf.
  apply (call_on_buffered_replies cfg h fin q T id 0 [(k, v)] fuel w acc C Hv Hs); [| |cbn; lia].
  - rewrite Hb. unfold run_seq_fuel. destruct (rp_ack (b ++ rest)) as [ia [va Ra]]. rewrite Ra, Hm.
    rewrite (rp_serialised (q_replies q) k v b rest Hnd Hok). reflexivity.
  - rewrite Hm. exists (k, v). reflexivity.
Qed.

(* ================================================================== the retry budget, counted in the log *)
(* A retrying stream makes at most as many connection attempts (successful opens + refused ones) as it has attempts left: a public
   call built from one stream never connects more than 20 times, whatever the terminal does. *)

Fixpoint attempts (l : list event) : nat :=
  match l with
  | [] => O
  | EOpen _ _ :: r | ERefused _ :: r => S (attempts r)
  | _ :: r => attempts r
  end.

Lemma attempts_writes id ws l : Forall (is_write_on id) ws -> attempts (ws ++ l) = attempts l.
Proof.
  intros F. induction ws as [|e ws IH]; [reflexivity|]. inversion F as [|? ? He Fw]; subst.
  destruct e; try contradiction. cbn [app attempts]. apply IH. exact Fw.
Qed.
Lemma ext_attempts id w w' : ext id w w' -> attempts (w_log w') = attempts (w_log w).
Proof. intros [_ _ _ [ws [E F]]]. rewrite E. apply (attempts_writes id). exact F. Qed.
Lemma drop_cur_attempts w : attempts (w_log (drop_cur w)) = attempts (w_log w).
Proof. unfold drop_cur. destruct (w_cur w); reflexivity. Qed.

Lemma connect_attempts cfg d w :
  match connect cfg d w with COk _ w' | CErr _ w' => attempts (w_log w') = S (attempts (w_log w)) end.
Proof.
  unfold connect. destruct (w_scripts w) as [|s rest]; [reflexivity|]. destruct (cs_refused s); [reflexivity|]. destruct (cs_silent s); [reflexivity|].
  cbv zeta. cbn [w_conns w_scripts w_cur w_now w_log].
  match goal with |- context [seq_next _ ?i PStart d ?W] => set (w1 := W); set (id := i) end.
  assert (A1 : attempts (w_log w1) = S (attempts (w_log w))) by reflexivity.
  pose proof (seq_next_ext (seq_of "zvt::sequences::Registration" (registration_cmd cfg)) id PStart d w1) as X1.
  destruct (seq_next _ id PStart d w1) as [[i v|e] ph w'|w'|w']; cbn [drop_conn logw w_log attempts];
    try (rewrite (ext_attempts id w1 w' X1); exact A1).
  pose proof (seq_next_ext (seq_of "zvt::feig::sequences::GetSystemInfo" sysinfo_cmd) id PStart d w') as X2.
  assert (A2 : forall w2, ext id w' w2 -> attempts (w_log w2) = S (attempts (w_log w)))
    by (intros w2 X; rewrite (ext_attempts id w' w2 X), (ext_attempts id w1 w' X1); exact A1).
  destruct (seq_next _ id PStart d w') as [[i2 v2|e2] ph2 w2|w2|w2]; cbn [drop_conn logw w_log attempts]; try (apply A2; exact X2).
  destruct (i2 =? _); cbn [drop_conn logw w_log attempts]; [|apply A2; exact X2].
  destruct (first_pos v2) as [[| dev | | | | | |]|]; cbn [drop_conn logw w_log attempts]; try (apply A2; exact X2).
  destruct (Client.list_eqb _ _); cbn [drop_conn logw w_log attempts]; apply A2; exact X2.
Qed.

Theorem retry_next_attempts cfg : forall fuel r w it r' w', retry_next fuel cfg r w = (it, r', w') ->
  (attempts (w_log w') + r_left r' <= attempts (w_log w) + r_left r)%nat.
Proof.
  induction fuel as [|f IH]; intros r w it r' w' E; cbn [retry_next] in E.
  { injection E as _ <- <-. cbn [rs_set r_left]. lia. }
  destruct (r_ph r) eqn:P.
  - destruct (r_left r) as [|lft] eqn:L; [injection E as _ <- <-; cbn [rs_set r_left]; lia|].
    set (start := if r_first r then w_now w else N.max (w_now w) (r_last r + r_throttle r)) in *.
    destruct (w_cur (at_time w start)) as [id|] eqn:C.
    + specialize (IH _ _ _ _ _ E). cbn [rs_set r_left at_time w_log] in IH. lia.
    + pose proof (connect_attempts cfg (start + r_timeout (rs_set r lft false start RIdle)) (at_time w start)) as K.
      destruct (connect cfg _ (at_time w start)) as [id w1|what w1]; cbn [at_time w_log] in K.
      * specialize (IH _ _ _ _ _ E). cbn [rs_set r_left set_cur w_log] in IH. lia.
      * injection E as _ <- <-. cbn [rs_set r_left]. lia.
  - destruct (w_cur w) as [id|] eqn:C; [|injection E as _ <- <-; cbn [rs_set r_left]; lia].
    pose proof (seq_next_ext (r_seq r) id ph (w_now w + r_timeout r) w) as X.
    destruct (seq_next (r_seq r) id ph (w_now w + r_timeout r) w) as [[i v|e] ph' w1|w1|w1]; pose proof (ext_attempts id w w1 X) as A.
    + injection E as _ <- <-. cbn [rs_set r_left]. lia.
    + injection E as _ <- <-. cbn [rs_set r_left]. lia.
    + injection E as _ <- <-. cbn [rs_set r_left]. lia.
    + specialize (IH _ _ _ _ _ E). rewrite drop_cur_attempts in IH. cbn [rs_set r_left] in IH. lia.
  - specialize (IH _ _ _ _ _ E). rewrite drop_cur_attempts in IH. cbn [rs_set r_left] in IH. lia.
  - injection E as _ <- <-. lia.
Qed.

Theorem consume_attempts {A B} cfg (h : A -> N -> value -> option (cres B) * A) fin : forall fuel r w acc,
  (attempts (w_log (snd (consume fuel cfg r w acc h fin))) <= attempts (w_log w) + r_left r)%nat.
Proof.
  induction fuel as [|f IH]; intros r w acc; [cbn; lia|]. rewrite consume_S.
  destruct (retry_next RFUEL cfg r w) as [[it r1] w1] eqn:E. pose proof (retry_next_attempts cfg RFUEL r w it r1 w1 E) as K.
  destruct it as [[i v|e]|]; cbn [snd].
  - destruct (h acc i v) as [[res|] acc']; cbn [snd]; [lia|]. specialize (IH r1 w1 acc'). lia.
  - specialize (IH r1 w1 acc). lia.
  - lia.
Qed.

(* every single-exchange call: at most 20 connection attempts *)
Corollary call_attempts {A B} cfg q T w acc (h : A -> N -> value -> option (cres B) * A) fin fuel :
  (attempts (w_log (snd (consume fuel cfg (start_retry q T) w acc h fin))) <= attempts (w_log w) + 20)%nat.
Proof. apply (consume_attempts cfg h fin fuel (start_retry q T) w acc). Qed.

(* ================================================================== an unexpected reply (since the fix of F13) *)
(* the query for a dangling pre-authorisation answered by a packet that is decodable and in the reply set but not what this exchange
   may be answered with (the client's UnexpectedPacket): the exchange is left unfinished, so no connection is kept — the next
   sequence starts by connecting (retry_next at RIdle with w_cur = None) *)
Theorem unexpected_reply_abandons_connection cfg w w' :
  get_pending cfg w = (RErr EUnexpectedPacket, w') -> w_cur w' = None.
Proof.
  unfold get_pending.
  match goal with |- context [consume ?f cfg ?r w ?a ?h ?fin] => destruct (consume f cfg r w a h fin) as [[l|e] w1] end.
  - discriminate.
  - destruct e; intros E; try (injection E as E1 E2; discriminate E1); try discriminate.
    injection E as <-. apply drop_cur_clears.
Qed.
