(* EnumProps.v — reply parsers dispatch solely on class and instruction (C15). *)
From Zvt Require Import Base Length Cp437 Encoding Codec.
From Coq Require Import ZifyBool ZifyNat ZifyN.
Open Scope N_scope.

Definition v_cf (v : variant) : N * N := (c_class (snd v), c_instr (snd v)).

Definition pair_eqb (a b : N * N) : bool := (fst a =? fst b) && (snd a =? snd b).
Fixpoint nodup_cf (l : list (N * N)) : bool :=
  match l with
  | [] => true
  | x :: r => negb (existsb (pair_eqb x) r) && nodup_cf r
  end.

Lemma parse_variants_sound fuel vs : forall i b0 b1 bs j v,
  parse_variants fuel vs i b0 b1 bs = Ok (j, v) ->
  i <= j /\ exists nm c, nth_error vs (N.to_nat (j - i)) = Some (nm, c) /\
    c_class c = b0 /\ c_instr c = b1 /\ exists r, dec_cmd fuel c bs = Ok (v, r).
Proof.
  induction vs as [|[nm c] vs IH]; intros i b0 b1 bs j v H; cbn [parse_variants] in H; [discriminate|].
  destruct ((c_class c =? b0) && (c_instr c =? b1)) eqn:E.
  - destruct (dec_cmd fuel c bs) as [[v' r]| | |] eqn:D; cbn [bind] in H; try discriminate.
    injection H as <- <-. split; [lia|]. exists nm, c. replace (i - i) with 0 by lia.
    split; [reflexivity|]. split; [lia|]. split; [lia|]. exists r. exact D.
  - apply IH in H. destruct H as [Hle [nm' [c' [Hn Hrest]]]]. split; [lia|].
    exists nm', c'. split; [|exact Hrest].
    replace (N.to_nat (j - i)) with (S (N.to_nat (j - (i + 1)))) by lia. exact Hn.
Qed.

Lemma parse_variants_outside fuel vs : forall i b0 b1 bs,
  (forall v, In v vs -> v_cf v <> (b0, b1)) ->
  parse_variants fuel vs i b0 b1 bs = Err (WrongTag 0).
Proof.
  induction vs as [|[nm c] vs IH]; intros i b0 b1 bs H; cbn [parse_variants]; [reflexivity|].
  destruct ((c_class c =? b0) && (c_instr c =? b1)) eqn:E.
  - exfalso. apply (H (nm, c) (or_introl eq_refl)). unfold v_cf. cbn [snd]. f_equal; lia.
  - apply IH. intros v Hv. apply H. right. exact Hv.
Qed.

Lemma existsb_pair x l : existsb (pair_eqb x) l = false -> ~ In x l.
Proof.
  intros H Hin. assert (existsb (pair_eqb x) l = true); [|congruence].
  apply existsb_exists. exists x. split; [exact Hin|]. unfold pair_eqb. rewrite !N.eqb_refl. reflexivity.
Qed.

Lemma parse_variants_complete fuel vs : forall i b0 b1 bs k nm c,
  nodup_cf (map v_cf vs) = true ->
  nth_error vs k = Some (nm, c) -> c_class c = b0 -> c_instr c = b1 ->
  parse_variants fuel vs i b0 b1 bs =
    (let* (v, _) := dec_cmd fuel c bs in Ok (i + N.of_nat k, v)).
Proof.
  induction vs as [|[nm0 c0] vs IH]; intros i b0 b1 bs k nm c Hnd Hn Hc Hi; [destruct k; discriminate|].
  cbn [map nodup_cf] in Hnd. apply andb_prop in Hnd. destruct Hnd as [Hx Hnd].
  cbn [parse_variants]. destruct k as [|k].
  - injection Hn as -> ->. rewrite Hc, Hi, !N.eqb_refl. cbn [andb].
    destruct (dec_cmd fuel c bs) as [[v r]| | |]; cbn [bind]; try reflexivity. do 2 f_equal. lia.
  - cbn [nth_error] in Hn.
    destruct ((c_class c0 =? b0) && (c_instr c0 =? b1)) eqn:E.
    + exfalso. apply negb_true_iff in Hx. apply existsb_pair in Hx. apply Hx.
      apply in_map_iff. exists (nm, c). split; [|eapply nth_error_In; exact Hn].
      unfold v_cf. cbn [snd]. f_equal; lia.
    + rewrite (IH (i + 1) b0 b1 bs k nm c Hnd Hn Hc Hi).
      destruct (dec_cmd fuel c bs) as [[v r]| | |]; cbn [bind]; try reflexivity. do 2 f_equal. lia.
Qed.

(* --- the packaged statements --- *)

(* a variant is returned only for its own control field, with exactly what its packet type decodes *)
Theorem dispatch_sound : forall fuel vs bs j v, parse_enum fuel vs bs = Ok (j, v) ->
  exists b0 b1 rest nm c, bs = b0 :: b1 :: rest /\ nth_error vs (N.to_nat j) = Some (nm, c) /\
    c_class c = b0 /\ c_instr c = b1 /\ exists r, dec_cmd fuel c bs = Ok (v, r).
Proof.
  intros fuel vs bs j v H. unfold parse_enum in H. destruct bs as [|b0 [|b1 rest]]; try discriminate.
  apply parse_variants_sound in H. destruct H as [_ [nm [c [Hn Hr]]]].
  exists b0, b1, rest, nm, c. split; [reflexivity|]. replace (j - 0) with j in Hn by lia. split; [exact Hn|exact Hr].
Qed.

(* ... and for that control field it IS returned (or that packet type's own error) *)
Theorem dispatch_complete : forall fuel vs b0 b1 rest k nm c,
  nodup_cf (map v_cf vs) = true ->
  nth_error vs k = Some (nm, c) -> c_class c = b0 -> c_instr c = b1 ->
  parse_enum fuel vs (b0 :: b1 :: rest) =
    (let* (v, _) := dec_cmd fuel c (b0 :: b1 :: rest) in Ok (N.of_nat k, v)).
Proof.
  intros. unfold parse_enum. erewrite parse_variants_complete by eassumption.
  destruct (dec_cmd fuel c (b0 :: b1 :: rest)) as [[v r]| | |]; reflexivity.
Qed.

(* every control field outside the reply set is an error, whatever the body *)
Theorem outside_is_error : forall fuel vs b0 b1 rest,
  (forall v, In v vs -> v_cf v <> (b0, b1)) ->
  parse_enum fuel vs (b0 :: b1 :: rest) = Err (WrongTag 0).
Proof. intros. unfold parse_enum. apply parse_variants_outside. assumption. Qed.

Theorem short_is_error : forall fuel vs bs, (length bs < 2)%nat -> parse_enum fuel vs bs = Err IncompleteData.
Proof. intros fuel vs bs H. destruct bs as [|a [|b r]]; try reflexivity. cbn in H. lia. Qed.
