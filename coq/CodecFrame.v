(* CodecFrame.v — a decoded frame depends only on the bytes inside its announced length (C14). *)
From Zvt Require Import Base Length LengthProps Cp437 Encoding EncodingProps Codec.
From Coq Require Import ZifyBool ZifyNat ZifyN.
Ltac Zify.zify_post_hook ::= Z.div_mod_to_equations.
Open Scope N_scope.

(* length styles that announce (or fix) how many bytes belong to the field *)

Lemma llv_parse_app d : forall rv a n p s, llv_parse d rv a = Ok (n, p) -> llv_parse d rv (a ++ s) = Ok (n, p ++ s).
Proof.
  induction d as [|d IH]; intros rv a n p s H; cbn [llv_parse] in *.
  - injection H as <- <-. reflexivity.
  - destruct a as [|b a]; [discriminate|]. cbn [app]. apply IH. exact H.
Qed.

Lemma len_de_app ls a n p s : delimiting ls = true ->
  len_de ls a = Ok (n, p) -> len_de ls (a ++ s) = Ok (n, p ++ s).
Proof.
  destruct ls; cbn [delimiting]; try discriminate; intros _; cbn [len_de].
  - rewrite blen_app. destruct (blen a <? n0) eqn:E; [discriminate|]. intros [= <- <-].
    destruct (blen a + blen s <? n0) eqn:E2; [lia|reflexivity].
  - destruct a as [|d r]; [discriminate|]. cbn [app].
    destruct (d <=? 127); [intros [= <- <-]; reflexivity|].
    destruct (d =? 129).
    { destruct r as [|d1 r1]; [discriminate|]. intros [= <- <-]. reflexivity. }
    destruct (d =? 130); [|discriminate].
    destruct r as [|hi [|lo r2]]; try discriminate. intros [= <- <-]. reflexivity.
  - apply llv_parse_app.
  - destruct a as [|d r]; [discriminate|]. cbn [app]. destruct (d =? 255).
    + destruct r as [|lo [|hi r2]]; try discriminate. intros [= <- <-]. reflexivity.
    + intros [= <- <-]. reflexivity.
Qed.

Lemma tag_dec_app big a t r s : tag_dec big a = Ok (t, r) -> tag_dec big (a ++ s) = Ok (t, r ++ s).
Proof.
  unfold tag_dec. destruct big.
  - destruct a as [|b0 [|b1 r']]; try discriminate. intros [= <- <-]. reflexivity.
  - destruct a as [|b0 r']; [discriminate|]. cbn [app]. destruct (_ || _).
    + destruct r' as [|b1 r'']; [discriminate|]. intros [= <- <-]. reflexivity.
    + intros [= <- <-]. reflexivity.
Qed.

Lemma take_app_le n a s : n <= blen a -> take n (a ++ s) = take n a.
Proof.
  intros H. unfold take, blen in *. rewrite firstn_app.
  replace (N.to_nat n - length a)%nat with 0%nat by lia. cbn. apply app_nil_r.
Qed.

Lemma drop_app_le n a s : n <= blen a -> drop n (a ++ s) = drop n a ++ s.
Proof.
  intros H. unfold drop, blen in *. rewrite skipn_app.
  replace (N.to_nat n - length a)%nat with 0%nat by lia. reflexivity.
Qed.

(* bytes appended behind a complete frame are handed back untouched and influence nothing:
   holds for every inner decoder k — k only ever sees the bytes inside the announced length *)
Theorem framed_suffix {A} ls big tag (k : bytes -> res (A * bytes)) bs v r s :
  delimiting ls = true ->
  framed_dec ls big tag k bs = Ok (v, r) ->
  framed_dec ls big tag k (bs ++ s) = Ok (v, r ++ s).
Proof.
  intros Hd. unfold framed_dec.
  destruct tag as [t|].
  - destruct (tag_dec big bs) as [[a r0]| | |] eqn:E; cbn [bind]; try discriminate.
    rewrite (tag_dec_app _ _ _ _ s E). cbn [bind].
    destruct (a =? t); cbn [bind]; [|discriminate].
    destruct (len_de ls r0) as [[len payload]| | |] eqn:E2; cbn [bind]; try discriminate.
    rewrite (len_de_app _ _ _ _ s Hd E2). cbn [bind]. rewrite blen_app.
    destruct (blen payload <? len) eqn:E3; [discriminate|].
    destruct (blen payload + blen s <? len) eqn:E4; [lia|].
    rewrite take_app_le by lia.
    destruct (k (take len payload)) as [[d rem]| | |]; cbn [bind]; try discriminate.
    destruct (blen rem <=? len) eqn:E5; [|discriminate]. intros [= <- <-].
    rewrite drop_app_le by lia. reflexivity.
  - cbn [bind].
    destruct (len_de ls bs) as [[len payload]| | |] eqn:E2; cbn [bind]; try discriminate.
    rewrite (len_de_app _ _ _ _ s Hd E2). cbn [bind]. rewrite blen_app.
    destruct (blen payload <? len) eqn:E3; [discriminate|].
    destruct (blen payload + blen s <? len) eqn:E4; [lia|].
    rewrite take_app_le by lia.
    destruct (k (take len payload)) as [[d rem]| | |]; cbn [bind]; try discriminate.
    destruct (blen rem <=? len) eqn:E5; [|discriminate]. intros [= <- <-].
    rewrite drop_app_le by lia. reflexivity.
Qed.

Definition map_rem {A} (f : bytes -> bytes) (r : res (A * bytes)) : res (A * bytes) :=
  match r with Ok (v, x) => Ok (v, f x) | Err e => Err e | Panic => Panic | OutOfFuel => OutOfFuel end.

(* the APDU frame of a command: class, instruction, length of the body *)
Definition apdu_header (c : cmd) (n : N) : bytes :=
  [c_class c; c_instr c] ++ (if n <? 255 then [n] else [255; n mod 256; n / 256]).

(* for EVERY body (canonical or not) and every suffix: value, error and remainder are those of the
   packet alone, the suffix is appended to the remainder *)
Theorem frame_non_influence : forall fuel c body s, blen body <= 65535 ->
  dec_cmd fuel c (apdu_header c (blen body) ++ body ++ s) =
  map_rem (fun r => r ++ s) (dec_cmd fuel c (apdu_header c (blen body) ++ body)).
Proof.
  intros fuel c body s Hb.
  assert (G : forall t, dec_cmd fuel c (apdu_header c (blen body) ++ body ++ t) =
              match dec_struct fuel (c_fields c) body with
              | Ok (d, rem) => if blen rem <=? blen body then Ok (d, drop (blen body - blen rem) body ++ t) else Panic
              | Err e => Err e | Panic => Panic | OutOfFuel => OutOfFuel end).
  { intros t. unfold dec_cmd, framed_dec, apdu_header. cbn [app tag_dec bind].
    replace (c_class c * 256 + c_instr c =? cf c) with true by (unfold cf; symmetry; apply N.eqb_refl).
    cbn [bind].
    assert (L : len_de LAdpu ((if blen body <? 255 then [blen body] else [255; blen body mod 256; blen body / 256]) ++ body ++ t)
                = Ok (blen body, body ++ t)).
    { apply adpu_ser_de; [exact Hb|]. unfold len_ser. destruct (blen body <? 255) eqn:E; [reflexivity|].
      do 4 f_equal; lia. }
    rewrite L. cbn [bind]. rewrite blen_app.
    destruct (blen body + blen t <? blen body) eqn:E; [lia|].
    rewrite take_app_exact.
    destruct (dec_struct fuel (c_fields c) body) as [[d rem]| | |]; cbn [bind]; try reflexivity.
    destruct (blen rem <=? blen body) eqn:E2; [|reflexivity].
    rewrite drop_app_le by lia. reflexivity. }
  rewrite (G s). pose proof (G []) as G0. rewrite !app_nil_r in G0. rewrite G0.
  destruct (dec_struct fuel (c_fields c) body) as [[d rem]| | |]; cbn [map_rem]; try reflexivity.
  destruct (blen rem <=? blen body); cbn [map_rem]; [rewrite app_nil_r|]; reflexivity.
Qed.

(* ---------- the remainder rule: what deserialize_tagged hands back ---------- *)

Lemma tag_dec_suffix big bs t r : tag_dec big bs = Ok (t, r) -> exists q, bs = q ++ r.
Proof.
  unfold tag_dec. destruct big.
  - destruct bs as [|b0 [|b1 r0]]; try discriminate. intros [= <- <-]. exists [b0; b1]. reflexivity.
  - destruct bs as [|b0 r0]; [discriminate|]. destruct ((b0 =? 31) || (b0 =? 255)).
    + destruct r0 as [|b1 r1]; [discriminate|]. intros [= <- <-]. exists [b0; b1]. reflexivity.
    + intros [= <- <-]. exists [b0]. reflexivity.
Qed.

(* for EVERY length style, every tag and every inner decoder that hands back a tail of what it was given: the input is
   header ++ element ++ behind, the inner decoder sees exactly the element, and what is handed back is
       (what the inner decoder left UNREAD of the element) ++ behind
   — the unread rest of an element is not skipped but put in front of what follows it.  Harmless when the inner decoder reads
   its element completely (every canonical value: C01); the root of the two open findings of C13 / C02 when it does not *)
Theorem remainder_rule {A} ls big tag (k : bytes -> res (A * bytes)) bs v r :
  (forall inp x rem, k inp = Ok (x, rem) -> exists used, inp = used ++ rem) ->
  framed_dec ls big tag k bs = Ok (v, r) ->
  exists hdr element behind unread,
    bs = hdr ++ element ++ behind /\ k element = Ok (v, unread) /\ r = unread ++ behind.
Proof.
  intros Hk. unfold framed_dec.
  assert (G : forall hdr bs1, bs = hdr ++ bs1 ->
            (let* (len, payload) := len_de ls bs1 in
             if blen payload <? len then Err IncompleteData else
             let* (data, rem) := k (take len payload) in
             if blen rem <=? len then Ok (data, drop (len - blen rem) payload) else Panic) = Ok (v, r) ->
            exists hdr element behind unread, bs = hdr ++ element ++ behind /\ k element = Ok (v, unread) /\ r = unread ++ behind).
  { intros hdr bs1 Ebs. destruct (len_de ls bs1) as [[len payload]| | |] eqn:E2; cbn [bind]; try discriminate.
    destruct (len_de_suffix _ _ _ _ E2) as [lh Elh].
    destruct (blen payload <? len) eqn:E3; [discriminate|].
    destruct (k (take len payload)) as [[d rem]| | |] eqn:Ek; cbn [bind]; try discriminate.
    destruct (blen rem <=? len) eqn:E5; [|discriminate]. intros [= <- <-].
    destruct (Hk _ _ _ Ek) as [used Eu].
    exists (hdr ++ lh), (take len payload), (drop len payload), rem. split; [|split; [exact Ek|]].
    - rewrite Ebs, Elh, <- app_assoc. rewrite (take_drop len payload). reflexivity.
    - (* drop (len - |rem|) payload = rem ++ drop len payload *)
      assert (Lt : blen (take len payload) = len) by (apply blen_take; lia).
      assert (Lu : blen used = len - blen rem) by (rewrite Eu, blen_app in Lt; lia).
      assert (En : N.to_nat (len - blen rem) = length used) by (unfold blen in *; lia).
      rewrite <- (take_drop len payload) at 1. rewrite Eu, <- app_assoc.
      unfold drop at 1. rewrite En, skipn_app, skipn_all, Nat.sub_diag. reflexivity. }
  destruct tag as [t|]; cbn [bind].
  - destruct (tag_dec big bs) as [[a r0]| | |] eqn:E; cbn [bind]; try discriminate.
    destruct (a =? t); cbn [bind]; [|discriminate].
    destruct (tag_dec_suffix _ _ _ _ E) as [th Eth]. apply (G th r0 Eth).
  - apply (G [] bs eq_refl).
Qed.
