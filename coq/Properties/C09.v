(* C09 — a connection that saw a failure is never reused; fresh ones are vetted.  Statements only.
   The log-level statements quantify over EVERY configuration, EVERY history of public calls and EVERY
   scripted terminal (any number of connections, any chunks, delays, silences, closes, refusals); the
   log is the one the correspondence run compares event by event, to the millisecond, with the real
   client's (writes per connection, opens, drops). *)
From Zvt Require Import Base Length Cp437 Encoding Codec Lookup Sequence SeqLookup Client ClientProps ClientLog ClientTime ClientWire ClientSent ClientVet.
Open Scope N_scope.

(* after an Err item the very next poll drops the connection before doing anything else ... *)
Theorem C09_after_err_drops_connection : forall f cfg r w, r_ph r = RAfterErr ->
  retry_next (S f) cfg r w = retry_next f cfg (rs_set r (r_left r) (r_first r) (r_last r) RIdle) (drop_cur w).
Proof. exact after_err_drops_connection. Qed.

(* ... and a dropped connection is no longer the one in use: the next attempt must connect afresh *)
Theorem C09_drop_clears_current : forall w, w_cur (drop_cur w) = None.
Proof. exact drop_cur_clears. Qed.

(* whole histories: nothing is ever written to a connection after it was dropped; every write goes to a
   connection opened before; every connection that is opened is a new one (log_safe, newest event first) *)
Theorem C09_history_never_reuses_a_dropped_connection : forall cfg ops scripts,
  let '(_, _, _, w) := run_history cfg ops scripts in log_safe (w_log w).
Proof. exact history_log_safe. Qed.

(* whole histories: the first bytes written to any connection are the registration command carrying the
   configured password and currency *)
Theorem C09_history_registration_first : forall cfg ops scripts,
  let '(_, _, _, w) := run_history cfg ops scripts in log_reg cfg (w_log w).
Proof. exact history_registration_first. Qed.

(* the identity check: connect hands out a connection only after registration succeeded on it and the
   terminal's system information named the configured serial number (case-insensitively) *)
Theorem C09_connection_is_vetted : forall cfg d w id w', connect cfg d w = COk id w' ->
  exists w1 wr i1 v1 ph1 i v ph dev,
    seq_next (seq_of "zvt::sequences::Registration" (registration_cmd cfg)) id PStart d w1 = NItem (IOk i1 v1) ph1 wr /\
    seq_next (seq_of "zvt::feig::sequences::GetSystemInfo" sysinfo_cmd) id PStart d wr = NItem (IOk i v) ph w' /\
    i = variant_ix "zvt::feig::sequences::GetSystemInfoResponse" "CVendFunctionsEnhancedSystemInformationCompletion" /\
    first_pos v = Some (VStr dev) /\ list_eqb (map lower dev) (map lower (c_serial cfg)) = true.
Proof. exact connect_vetted. Qed.

(* a normally completed exchange keeps the connection, and the next call polls it without connecting *)
Theorem C09_reuse_without_connect : forall f cfg r w id lft, r_ph r = RIdle -> r_left r = S lft -> w_cur w = Some id ->
  let start := if r_first r then w_now w else N.max (w_now w) (r_last r + r_throttle r) in
  retry_next (S f) cfg r w = retry_next f cfg (rs_set (rs_set r lft false start RIdle) lft false start (RInner PStart)) (at_time w start).
Proof. exact reuse_without_connect. Qed.
Theorem C09_items_keep_connection : forall q id ph d w, w_cur w = Some id ->
  match seq_next q id ph d w with
  | NItem _ _ w' | NEnd w' | NTimeout w' => w_cur w' = Some id
  end.
Proof. exact ok_item_keeps_connection. Qed.

(* non-vacuity: a log with a write after a drop is rejected by log_safe, one without is accepted *)
Example C09_ex_log_safe_discriminates :
  ~ log_safe [EWrite 0 9 [1]; EDrop 0 8; EWrite 0 1 [2]; EOpen 0 0] /\
  log_safe [EWrite 1 9 [1]; EOpen 1 8; EDrop 0 8; EWrite 0 1 [2]; EOpen 0 0].
Proof.
  split.
  - cbn. intros [H _]. apply H. exists 8. left. reflexivity.
  - cbn. repeat split.
    + intros [t [H|[H|[H|[H|[]]]]]]; discriminate.
    + exists 8. left. reflexivity.
    + intros e [<-|[<-|[<-|[]]]]; discriminate.
    + intros [t [H|[]]]; discriminate.
    + exists 0. left. reflexivity.
    + intros e [].
Qed.

(* what "the registration command" is, down to the wire: for every configuration (password below 10^6, currency below 10^4) the
   bytes `registration_cmd cfg` — by C09_history_registration_first the first bytes on every connection — are read back by the
   registration layout as exactly the configured password, the configuration byte 0xDE and the configured currency *)
Theorem C09_registration_carries_the_configuration : forall cfg, c_password cfg < 10 ^ 6 -> c_currency cfg < 10000 ->
  registration_cmd cfg <> nil /\
  forall r, dec_cmd FUEL (cmd_of "zvt::packets::Registration") (registration_cmd cfg ++ r) =
            Ok (registration_value (c_password cfg) (c_currency cfg), r).
Proof. exact registration_on_the_wire. Qed.

(* an UNEXPECTED reply (since the fix of F13): the query for a dangling pre-authorisation answered by a packet that is decodable and
   in the reply set but not what this exchange may be answered with leaves NO connection behind, in every world — the next
   sequence starts by connecting, with registration and identity check (C09_history_registration_first) *)
Theorem C09_unexpected_reply_abandons_connection : forall cfg w w',
  get_pending cfg w = (RErr EUnexpectedPacket, w') -> w_cur w' = None.
Proof. exact unexpected_reply_abandons_connection. Qed.

(* a different serial number reported OUTSIDE the handshake (since the fix of F18): configure() asks the identity question again;
   whenever that fails with "wrong device" no connection is kept, in every world — nothing more is sent to that terminal *)
Theorem C09_wrong_serial_in_configure_abandons_connection : forall cfg w w',
  get_system_info cfg w = (RErr EWrongDevice, w') -> w_cur w' = None.
Proof. exact wrong_serial_in_configure_abandons_connection. Qed.

(* "fresh ones are vetted", over whole histories: every write in the complete log that is not housekeeping (acknowledgement,
   registration, identity query) — every COMMAND — has, further down the log and on the SAME connection, the registration and the
   identity query (log_vet, spelt out by C09_log_vet_spec); with C09_connect_vetted (a connection is handed out only after both
   were answered, the second naming the configured serial) no command ever reaches a terminal that was not asked who it is *)
Theorem C09_history_commands_only_on_vetted : forall cfg ops scripts,
  let '(_, _, _, w) := run_history cfg ops scripts in log_vet cfg (w_log w).
Proof. exact history_commands_only_on_vetted. Qed.
Theorem C09_log_vet_spec : forall cfg l pre id t b post, log_vet cfg l -> l = pre ++ EWrite id t b :: post -> ~ housekeeping cfg b ->
  wrote post id (registration_cmd cfg) /\ wrote post id sysinfo_cmd.
Proof. exact log_vet_spec. Qed.
(* non-vacuity: the predicate rejects a command on a connection that was only registered *)
Example C09_ex_log_vet_rejects :
  let cfg := {| c_serial := []; c_terminal_id := []; c_currency := 978; c_amount := 1; c_read_card_timeout := 15; c_password := 0; c_max := 1 |} in
  ~ log_vet cfg [EWrite 0 5 [6; 192]; EWrite 0 0 (registration_cmd cfg)] /\
  log_vet cfg [EWrite 0 5 [6; 192]; EWrite 0 1 sysinfo_cmd; EWrite 0 0 (registration_cmd cfg)].
Proof.
  cbv zeta. split.
  - intros [[H|[_ [t H]]] _].
    + destruct H as [H|[H|H]]; vm_compute in H; discriminate H.
    + destruct H as [H|[]]. vm_compute in H. discriminate H.
  - cbn [log_vet]. repeat split.
    + right. split; [exists 0; right; left; reflexivity|exists 1; left; reflexivity].
    + left. right. right. reflexivity.
    + left. right. left. reflexivity.
Qed.

Print Assumptions C09_after_err_drops_connection.
Print Assumptions C09_wrong_serial_in_configure_abandons_connection.
Print Assumptions C09_unexpected_reply_abandons_connection.
Print Assumptions C09_registration_carries_the_configuration.
Print Assumptions C09_drop_clears_current.
Print Assumptions C09_history_never_reuses_a_dropped_connection.
Print Assumptions C09_history_registration_first.
Print Assumptions C09_connection_is_vetted.
Print Assumptions C09_reuse_without_connect.
Print Assumptions C09_items_keep_connection.
Print Assumptions C09_history_commands_only_on_vetted.
Print Assumptions C09_log_vet_spec.
