(* C09 — a connection that saw a failure is never reused; fresh ones are vetted.  Statements only.
   Partial (see DESIGN 6, C09): the log-level statement "no byte is ever written to a dropped
   connection" over whole histories is decided by the correspondence + oracle; proved here are the
   steps it is made of. *)
From Zvt Require Import Base Length Cp437 Encoding Codec Lookup Client ClientProps.
Open Scope N_scope.

(* after an Err item the very next poll drops the connection before doing anything else ... *)
Theorem C09_after_err_drops_connection_partial : forall f cfg r w, r_ph r = RAfterErr ->
  retry_next (S f) cfg r w = retry_next f cfg (rs_set r (r_left r) (r_first r) (r_last r) RIdle) (drop_cur w).
Proof. exact after_err_drops_connection. Qed.

(* ... and a dropped connection is no longer the one in use: the next attempt must connect afresh *)
Theorem C09_drop_clears_current : forall w, w_cur (drop_cur w) = None.
Proof. exact drop_cur_clears. Qed.

Print Assumptions C09_after_err_drops_connection_partial.
Print Assumptions C09_drop_clears_current.
