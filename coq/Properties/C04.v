(* C04 — packets are read from a byte stream exactly at APDU boundaries.  Statements only. *)
From Zvt Require Import Base Length LengthProps Cp437 Encoding Codec Transport TransportProps.
From Zvt Require Import Client ClientLog EnumProps CanonClass CanonRoundtrip.
Open Scope N_scope.

(* the length header the writer emits and the reader's interpretation of it agree for every body
   length 0..65535 (incl. the 254/255 switch): the reader returns exactly the packet and leaves
   exactly what follows; the codec's own APDU length parser agrees too *)
Theorem C04_header_agreement : forall c i body rest, blen body <= 65535 ->
  read_frame (frame_of c i body ++ rest) = Some (frame_of c i body, rest) /\
  len_de LAdpu ((if blen body <? 255 then [blen body] else [255; blen body mod 256; blen body / 256]) ++ body ++ rest)
    = Ok (blen body, body ++ rest).
Proof. exact header_agreement. Qed.

(* a concatenation of k encoded packets is returned as those k packets, in order *)
Theorem C04_read_frames_concat : forall (ps : list (N * N * bytes)) rest,
  Forall (fun p => blen (snd p) <= 65535) ps ->
  read_frames (length ps) (concat (map (fun p => frame_of (fst (fst p)) (snd (fst p)) (snd p)) ps) ++ rest)
    = Some (map (fun p => frame_of (fst (fst p)) (snd (fst p)) (snd p)) ps, rest).
Proof. exact read_frames_concat. Qed.

(* a connection ending inside a packet yields an error, never a packet *)
Theorem C04_read_truncated : forall c i body q, blen body <= 65535 ->
  (exists s, s <> [] /\ frame_of c i body = q ++ s) -> read_frame q = None.
Proof. exact read_truncated. Qed.

(* however the bytes are split into partial reads, with Pending wake-ups anywhere *)
Theorem C04_chunking_irrelevant : forall cs,
  match read_frame_chunks cs with
  | Some (f, rest) => read_frame (flat cs) = Some (f, flat rest)
  | None => read_frame (flat cs) = None
  end.
Proof. exact chunking_irrelevant. Qed.

(* each read consumes precisely its header plus the announced body: nothing behind it matters *)
Theorem C04_reads_nothing_beyond : forall s f r t, read_frame s = Some (f, r) -> read_frame (s ++ t) = Some (f, r ++ t).
Proof. exact read_frame_rest_irrelevant. Qed.

Example C04_ex : read_frame_chunks [Data [6; 30]; Pend; Data [1]; Pend; Pend; Data [108; 128; 0]; Data [0]]
  = Some ([6; 30; 1; 108], [Data [128; 0]; Data [0]])
  /\ frame_of 6 209 (repeat 65 255) = [6; 209; 255; 255; 0] ++ repeat 65 255.
Proof. split; vm_compute; reflexivity. Qed.

(* the Feig client's timed reader (Client.v, virtual time) on a connection whose data has all arrived is exactly this stream
   reader on the buffered bytes: the theorems above are theorems about what the client reads *)
Theorem C04_client_reader_is_stream_reader : forall c t, settled c ->
  read_packet_t c t =
  match read_frame (k_buf c) with
  | Some (f, r) => RpFrame f t {| k_queue := []; k_close := true; k_buf := r |}
  | None => RpEof t
  end.
Proof. exact read_packet_t_settled. Qed.

(* end to end with C01 and C15: the bytes write_packet produces for any value of the class, followed by ANYTHING, are read by
   read_packet as exactly one packet — that variant, that content — and everything behind it stays in the stream *)
Theorem C04_write_then_read : forall fuel vs k nm c v b rest,
  nodup_cf (map v_cf vs) = true -> nth_error vs k = Some (nm, c) ->
  c_class c < 256 -> c_instr c < 256 -> (depth_fields (c_fields c) <= S fuel)%nat ->
  canon_cmd c v = Some b ->
  read_packet fuel vs (b ++ rest) = Some (Ok (N.of_nat k, v), rest).
Proof. exact stream_roundtrip. Qed.

Print Assumptions C04_write_then_read.
Print Assumptions C04_client_reader_is_stream_reader.
Print Assumptions C04_header_agreement.
Print Assumptions C04_read_frames_concat.
Print Assumptions C04_read_truncated.
Print Assumptions C04_chunking_irrelevant.
Print Assumptions C04_reads_nothing_beyond.
