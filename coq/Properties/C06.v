(* C06 — a failed exchange yields exactly one error, then silence.  Statements only. *)
From Zvt Require Import Base Length Cp437 Encoding Codec Lookup Transport Sequence SequenceProps.
Open Scope N_scope.

(* for EVERY byte stream (NACK or anything else in place of the acknowledgement, control fields outside
   the reply set, undecodable bodies, truncated packets, end of stream, at any position): the run is
   [command; failed read; one error]  or  command, acknowledgement and a body (body_shape) *)
Theorem C06_loop_runs : forall final cmd ack vs s,
  run_shape cmd ack vs final (fst (run_seq (Loop final) cmd ack vs s)).
Proof. exact run_seq_shape_any. Qed.

Theorem C06_single_runs : forall cmd ack vs s,
  run_shape cmd ack vs (fun _ => true) (fst (run_seq Single cmd ack vs s)).
Proof. exact run_single_shape_any. Qed.

(* in a body: an error item is the last event, there is at most one, and it directly follows the
   failed read — so nothing is written after the failure and the uninterpretable packet is never
   acknowledged (every EvW ACK of a body sits behind a read that parsed: constructor bs_item) *)
Theorem C06_error_is_last_and_follows_the_failed_read : forall vs final t, body_shape vs final t ->
  forall pre post, t = pre ++ EvErr :: post -> post = [] /\ exists f pre', pre = pre' ++ [EvR f].
Proof. exact body_shape_err_last. Qed.

(* the firmware upload: same, with the data block in place of the acknowledgement of a data request;
   unknown id / missing id, offset or container end it with one error and no write *)
Theorem C06_upload_runs : forall fuel E s, upload_shape E (fst (upload_loop fuel E s)).
Proof. exact upload_loop_shape_any. Qed.

Example C06_ex_nack : forall cmd ack vs, parse_enum FUEL ack [132; 0; 0] = Err (WrongTag 0) ->
  run_seq (Loop (fun _ => false)) cmd ack vs [132; 0; 0; 9] = ([EvW cmd; EvR [132; 0; 0]; EvErr], [9]).
Proof.
  intros cmd ack vs H. unfold run_seq, rp.
  change (read_frame [132; 0; 0; 9]) with (Some ([132; 0; 0], [9])). cbn iota beta. rewrite H. reflexivity.
Qed.

Print Assumptions C06_loop_runs.
Print Assumptions C06_single_runs.
Print Assumptions C06_error_is_last_and_follows_the_failed_read.
Print Assumptions C06_upload_runs.
