(* C20 — a terminal abort always surfaces as an error identifying its result code.  Statements only. *)
From Zvt Require Import Base Length Cp437 Encoding Codec Lookup Client ClientProps SpecCheck.
From Zvt.gen Require Tables.
From Zvt.spec Require Spec.
Open Scope N_scope.

(* for ALL result codes c and every exchange with an abort arm: the operation fails with an error that
   identifies c — except exactly three documented translations: time-out while reading a card (0x6C)
   means no card, 'device missing' during a reservation (0xFC) means a PIN is required, 'receiver not
   ready' at end-of-day (0xA0) is tolerated *)
Theorem C20_abort_surfaces : forall c ixa ixs ixc acc_b acc_r acc_c rest, ixa <> ixc ->
  (exists e, fst (h_begin ixa ixs acc_b ixa (VRec (VInt c :: rest))) = Some (RErr e) /\ (c <> 252 \/ ERRORS_KNOWN c = false -> identifies e c)
             /\ (c = 252 -> ERRORS_KNOWN c = true -> e = ENeedsPin)) /\
  (exists e, fst (h_read_card ixa ixs acc_r ixa (VRec (VInt c :: rest))) = Some (RErr e) /\ (c <> 108 \/ ERRORS_KNOWN c = false -> identifies e c)
             /\ (c = 108 -> ERRORS_KNOWN c = true -> e = ENoCard)) /\
  (c <> 160 -> fst (h_eod ixc ixa tt ixa (VRec (VInt c :: rest))) = Some (RErr (EAborted c))) /\
  (c = 160 -> fst (h_eod ixc ixa tt ixa (VRec (VInt c :: rest))) = Some (ROk tt)) /\
  fst (h_commit ixa ixs acc_c ixa (VRec (VInt c :: rest))) = Some (RErr (EAborted c)) /\
  fst (h_until_completion ixc ixa tt ixa (VRec (VInt c :: rest))) = Some (RErr (EAborted c)) /\
  fst (h_completion_or_abort ixc tt ixa (VRec (VInt c :: rest))) = Some (RErr (EAborted c)) /\
  fst (h_sysinfo ixc tt ixa (VRec (VInt c :: rest))) = Some (RErr (EAborted c)).
Proof. exact abort_surfaces. Qed.

(* a handler's verdict on an abort ends the loop: what came before cannot turn it into a success *)
Theorem C20_abort_ends_the_loop : forall (A B : Type) (h : A -> N -> value -> option (cres B) * A) fin acc i v r res acc',
  h acc i v = (Some res, acc') -> run_handler h fin acc ((i, v) :: r) = res.
Proof. exact @run_handler_stops. Qed.

(* the three exception codes are known codes of the regenerated table (the translations are reachable) *)
Theorem C20_exceptions_are_known_codes : ERRORS_KNOWN 108 = true /\ ERRORS_KNOWN 252 = true /\ ERRORS_KNOWN 160 = true.
Proof. exact exceptions_are_known_codes. Qed.

Print Assumptions C20_abort_surfaces.
Print Assumptions C20_abort_ends_the_loop.
Print Assumptions C20_exceptions_are_known_codes.

(* the regenerated result-code table (79 codes with their messages) equals the specification table *)
Theorem C20_result_codes_agree_with_spec : codes_eqb Tables.error_table Spec.result_codes = true.
Proof. exact result_codes_agree_with_spec. Qed.
Print Assumptions C20_result_codes_agree_with_spec.
