(* C20 — a terminal abort always surfaces as an error identifying its result code.  Statements only. *)
From Zvt Require Import Base Length Cp437 Encoding Codec Lookup Client ClientProps SpecCheck.
From Zvt Require Import Sequence SeqLookup EnumProps CanonClass ClientLog.
From Zvt.gen Require Tables.
From Zvt.spec Require Spec.
Open Scope N_scope.

(* for ALL result codes c and every exchange with an abort arm: the operation fails with an error that
   identifies c — except exactly three documented translations: time-out while reading a card (0x6C)
   means no card, 'device missing' during a reservation (0xFC) means a PIN is required, 'receiver not
   ready' at end-of-day (0xA0) is tolerated *)
Theorem C20_abort_surfaces : forall c ixa ixs ixc acc_b acc_r acc_c rest, ixa <> ixc ->
  (exists e, fst (h_begin ixa ixs acc_b ixa (VRec (VInt c :: rest))) = Some (RErr e) /\ (c <> 252 \/ ERRORS_KNOWN c = false -> identifies e c)
             /\ (c = 252 -> ERRORS_KNOWN c = true -> e = ENeedsPin)) /\
  (exists e, fst (h_read_card ixa ixs acc_r ixa (VRec (VInt c :: rest))) = Some (RErr e) /\ (c <> 108 \/ ERRORS_KNOWN c = false -> identifies e c)
             /\ (c = 108 -> ERRORS_KNOWN c = true -> e = ENoCard)) /\
  (c <> 160 -> fst (h_eod ixc ixa tt ixa (VRec (VInt c :: rest))) = Some (RErr (EAborted c))) /\
  (c = 160 -> fst (h_eod ixc ixa tt ixa (VRec (VInt c :: rest))) = Some (ROk tt)) /\
  fst (h_commit ixa ixs acc_c ixa (VRec (VInt c :: rest))) = Some (RErr (EAborted c)) /\
  fst (h_until_completion ixc ixa tt ixa (VRec (VInt c :: rest))) = Some (RErr (EAborted c)) /\
  fst (h_completion_or_abort ixc tt ixa (VRec (VInt c :: rest))) = Some (RErr (EAborted c)) /\
  fst (h_sysinfo ixc tt ixa (VRec (VInt c :: rest))) = Some (RErr (EAborted c)).
Proof. exact abort_surfaces. Qed.

(* the ninth exchange, the query for a dangling pre-authorisation that opens every clean-up chain (since the fix of F11): its
   answer is an abort-class packet carrying 0xB8 by protocol design; ANY other result code aborts the query, the chain and the call
   with that code *)
Theorem C20_pending_query_abort_surfaces : forall c ixa sk rest, c <> 184 ->
  fst (h_pending ixa sk tt ixa (VRec (VInt c :: rest))) = Some (RErr (EAborted c)).
Proof. exact pending_query_abort_surfaces. Qed.

(* ... wherever it stands in the reply script (since the fix of F17): progress reports in front of the answer are passed over *)
Theorem C20_pending_query_skips_progress : forall ixa sk i v, i <> ixa -> In i sk -> h_pending ixa sk tt i v = (None, tt).
Proof. exact pending_progress_is_skipped. Qed.

(* ... so that, behind ANY number of progress reports, an abort of the query with a code other than 0xB8 is what the query reports *)
Theorem C20_pending_query_abort_anywhere : forall ixa sk pre c rest tail, c <> 184 ->
  (forall j u, In (j, u) pre -> j <> ixa /\ In j sk) ->
  run_handler (h_pending ixa sk) (fun _ => RErr EIncomplete) tt (pre ++ (ixa, VRec (VInt c :: rest)) :: tail) = RErr (EAborted c).
Proof. exact pending_abort_anywhere. Qed.

(* a handler's verdict on an abort ends the loop: what came before cannot turn it into a success *)
Theorem C20_abort_ends_the_loop : forall (A B : Type) (h : A -> N -> value -> option (cres B) * A) fin acc i v r res acc',
  h acc i v = (Some res, acc') -> run_handler h fin acc ((i, v) :: r) = res.
Proof. exact @run_handler_stops. Qed.

(* the three exception codes are known codes of the regenerated table (the translations are reachable) *)
Theorem C20_exceptions_are_known_codes : ERRORS_KNOWN 108 = true /\ ERRORS_KNOWN 252 = true /\ ERRORS_KNOWN 160 = true.
Proof. exact exceptions_are_known_codes. Qed.

(* the position of the abort within the reply script: after ANY number of replies that the loop passes over *)
Theorem C20_abort_at_any_position : forall (A B : Type) (h : A -> N -> value -> option (cres B) * A) fin pre acc i v rest res,
  (forall acc0 j u, In (j, u) pre -> fst (h acc0 j u) = None) -> (forall acc0, fst (h acc0 i v) = Some res) ->
  run_handler h fin acc (pre ++ (i, v) :: rest) = res.
Proof. exact @abort_at_any_position. Qed.

(* ... for the calls with a documented translation: reservation (0xFC -> PIN required), card reading (0x6C -> no card),
   end of day (0xA0 tolerated); and for commit / cancel / initialisation (no exception) *)
Theorem C20_begin_abort_anywhere : forall c ixa ixs rest its tail,
  (forall acc0 j u, In (j, u) its -> fst (h_begin ixa ixs acc0 j u) = None) ->
  exists e, run_handler (h_begin ixa ixs) f_begin None (its ++ (ixa, VRec (VInt c :: rest)) :: tail) = RErr e /\
            (c <> 252 \/ ERRORS_KNOWN c = false -> identifies e c) /\ (c = 252 -> ERRORS_KNOWN c = true -> e = ENeedsPin).
Proof. exact abort_begin_anywhere. Qed.
Theorem C20_read_card_abort_anywhere : forall c ixa ixs rest its tail,
  (forall acc0 j u, In (j, u) its -> fst (h_read_card ixa ixs acc0 j u) = None) ->
  exists e, run_handler (h_read_card ixa ixs) f_read_card None (its ++ (ixa, VRec (VInt c :: rest)) :: tail) = RErr e /\
            (c <> 108 \/ ERRORS_KNOWN c = false -> identifies e c) /\ (c = 108 -> ERRORS_KNOWN c = true -> e = ENoCard).
Proof. exact abort_read_card_anywhere. Qed.
Theorem C20_end_of_day_abort_anywhere : forall c ixc ixa rest its tail, ixa <> ixc ->
  (forall acc0 j u, In (j, u) its -> fst (h_eod ixc ixa acc0 j u) = None) ->
  run_handler (h_eod ixc ixa) (fun _ => RErr EIncomplete) tt (its ++ (ixa, VRec (VInt c :: rest)) :: tail) =
  if c =? 160 then ROk tt else RErr (EAborted c).
Proof. exact abort_eod_anywhere. Qed.
Theorem C20_commit_abort_anywhere : forall c ixa ixs ixc rest its tail, ixa <> ixc ->
  (forall acc0 j u, In (j, u) its -> fst (h_commit ixa ixs acc0 j u) = None) ->
  run_handler (h_commit ixa ixs) (fun a => ROk a) None (its ++ (ixa, VRec (VInt c :: rest)) :: tail) = RErr (EAborted c).
Proof. exact abort_surfaces_anywhere. Qed.
Theorem C20_cancel_abort_anywhere : forall c ixc ixa rest its tail, ixa <> ixc ->
  (forall acc0 j u, In (j, u) its -> fst (h_until_completion ixc ixa acc0 j u) = None) ->
  run_handler (h_until_completion ixc ixa) (fun _ => RErr EIncomplete) tt (its ++ (ixa, VRec (VInt c :: rest)) :: tail) = RErr (EAborted c).
Proof. exact abort_until_completion_anywhere. Qed.

(* LIFTING to the public calls: when the exchange on the current connection goes through (every poll hands over an item in time, the
   last one final: polls_ok), the call's result is the handler folded over EXACTLY the items received — nothing skipped, retried or
   duplicated; with the theorems above: an abort among them, at any position, is the call's error *)
Theorem C20_call_result_is_fold_over_received_items : forall (A B : Type) cfg (h : A -> N -> value -> option (cres B) * A) fin q T id its fuel w acc,
  w_cur w = Some id -> polls_ok q T id PStart w its -> (length its < fuel)%nat ->
  fst (consume fuel cfg (start_retry q T) w acc h fin) = run_handler h fin acc its.
Proof. exact @call_follows_polls. Qed.

(* ... down to the bytes: on a connection that already holds the whole reply script, the call's result is the handler folded over exactly
   the items the trace model (Sequence.v, the model of C05 / C06) reads from those bytes *)
Theorem C20_call_on_buffered_replies : forall (A B : Type) cfg (h : A -> N -> value -> option (cres B) * A) fin q T id k its fuel w acc,
  w_cur w = Some id -> valid_id w id -> settled (get_conn w id) ->
  ev_items (run_seq_fuel (S k) (q_mode q) (q_cmd q) ack_enum (q_replies q) (k_buf (get_conn w id))) = map Some its ->
  ends_final (q_mode q) its -> (length its < fuel)%nat ->
  fst (consume fuel cfg (start_retry q T) w acc h fin) = run_handler h fin acc its.
Proof. exact @call_on_buffered_replies. Qed.

(* ... and from what the terminal SERIALISED: if the buffer holds the acknowledgement followed by the serialisations (C01: values of
   the class `canon`) of the replies x1 .. xn of a looping exchange, none final but the last, the call returns the handler folded
   over exactly (variant, content) of x1 .. xn — codec, framing, dispatch, sequence, retry stream and consumer loop composed *)
Theorem C20_call_on_serialised_replies : forall (A B : Type) cfg (h : A -> N -> value -> option (cres B) * A) fin q T id xs rest fuel w acc final,
  q_mode q = Loop final ->
  w_cur w = Some id -> valid_id w id -> settled (get_conn w id) ->
  k_buf (get_conn w id) = [128; 0; 0] ++ concat (map x_bytes xs) ++ rest ->
  nodup_cf (map v_cf (q_replies q)) = true -> Forall (reply_ok (q_replies q)) xs -> xs <> [] ->
  (forall pre x post, xs = pre ++ x :: post -> final (fst (x_item x)) = match post with [] => true | _ => false end) ->
  (length xs < fuel)%nat ->
  fst (consume fuel cfg (start_retry q T) w acc h fin) = run_handler h fin acc (map x_item xs).
Proof. exact @call_on_serialised_replies. Qed.

Theorem C20_call_on_serialised_reply_single : forall (A B : Type) cfg (h : A -> N -> value -> option (cres B) * A) fin q T id k v b rest fuel w acc,
  q_mode q = Single ->
  w_cur w = Some id -> valid_id w id -> settled (get_conn w id) ->
  k_buf (get_conn w id) = [128; 0; 0] ++ b ++ rest ->
  nodup_cf (map v_cf (q_replies q)) = true -> reply_ok (q_replies q) (k, v, b) -> (1 < fuel)%nat ->
  fst (consume fuel cfg (start_retry q T) w acc h fin) = run_handler h fin acc [(k, v)].
Proof. exact @call_on_serialised_reply_single. Qed.
Print Assumptions C20_call_on_serialised_reply_single.

(* non-vacuity of the end-to-end theorem on the shipped tables: a partial reversal answered by an intermediate status and a completion
   (their bytes are whatever the model serialises, not pinned here), followed by two foreign bytes *)
Definition ex_q := seq_of "zvt::sequences::PartialReversal" [6; 37; 0].
Definition ex_b0 : bytes := match nth_error (q_replies ex_q) 0 with Some (_, c) => match canon_cmd c (VRec [VInt 5; VSome (VInt 0)]) with Some b => b | None => [] end | None => [] end.
Definition ex_b4 : bytes := match nth_error (q_replies ex_q) 4 with Some (_, c) => match canon_cmd c (VRec [VNone; VNone; VNone; VNone]) with Some b => b | None => [] end | None => [] end.
Definition ex_xs : list (N * value * bytes) := [(0, VRec [VInt 5; VSome (VInt 0)], ex_b0); (4, VRec [VNone; VNone; VNone; VNone], ex_b4)].
Definition ex_w : world := {| w_conns := [{| k_queue := []; k_close := true; k_buf := [128; 0; 0] ++ concat (map x_bytes ex_xs) ++ [9; 9] |}];
                             w_scripts := []; w_cur := Some 0; w_now := 7; w_log := [] |}.
Definition ex_cfg : config := {| c_serial := []; c_terminal_id := []; c_currency := 978; c_amount := 1; c_read_card_timeout := 15; c_password := 0; c_max := 1 |}.
Example C20_ex_end_to_end : forall final, q_mode ex_q = Loop final ->
  fst (consume LOOPFUEL ex_cfg (start_retry ex_q TIMEOUT) ex_w None (h_commit 5 1) (fun a => ROk a)) =
  run_handler (h_commit 5 1) (fun a => ROk a) None (map x_item ex_xs).
Proof.
  intros final Hm.
  apply (call_on_serialised_replies ex_cfg (h_commit 5 1) (fun a => ROk a) ex_q TIMEOUT 0 ex_xs [9; 9] LOOPFUEL ex_w None final Hm).
  - reflexivity.
  - unfold valid_id. cbn. lia.
  - split; reflexivity.
  - reflexivity.
  - vm_compute. reflexivity.
  - repeat constructor.
    + eexists. eexists. split; [vm_compute; reflexivity|]. split; [vm_compute; reflexivity|]. split; [vm_compute; reflexivity|]. split; [vm_compute; lia|vm_compute; reflexivity].
    + eexists. eexists. split; [vm_compute; reflexivity|]. split; [vm_compute; reflexivity|]. split; [vm_compute; reflexivity|]. split; [vm_compute; lia|vm_compute; reflexivity].
  - discriminate.
  - intros pre x post E. destruct pre as [|a [|b' [|c' pre]]]; cbn in E.
    + injection E as <- <-. cbn. vm_compute in Hm. injection Hm as <-. reflexivity.
    + injection E as _ <- <-. cbn. vm_compute in Hm. injection Hm as <-. reflexivity.
    + injection E as _ _ E. discriminate.
    + injection E as _ _ E. discriminate.
  - unfold LOOPFUEL. cbn. lia.
Qed.

Print Assumptions C20_call_on_serialised_replies.
Print Assumptions C20_call_on_buffered_replies.
Print Assumptions C20_call_result_is_fold_over_received_items.
Print Assumptions C20_abort_at_any_position.
Print Assumptions C20_begin_abort_anywhere.
Print Assumptions C20_read_card_abort_anywhere.
Print Assumptions C20_end_of_day_abort_anywhere.
Print Assumptions C20_commit_abort_anywhere.
Print Assumptions C20_cancel_abort_anywhere.
Print Assumptions C20_abort_surfaces.
Print Assumptions C20_pending_query_abort_surfaces.
Print Assumptions C20_pending_query_skips_progress.
Print Assumptions C20_pending_query_abort_anywhere.
Print Assumptions C20_abort_ends_the_loop.
Print Assumptions C20_exceptions_are_known_codes.

(* the regenerated result-code table (79 codes with their messages) equals the specification table *)
Theorem C20_result_codes_agree_with_spec : codes_eqb Tables.error_table Spec.result_codes = true.
Proof. exact result_codes_agree_with_spec. Qed.
Print Assumptions C20_result_codes_agree_with_spec.
