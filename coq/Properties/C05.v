(* C05 — command sequences acknowledge every packet once and stop at the final packet.  Statements only. *)
From Zvt Require Import Base Length Cp437 Encoding Codec Lookup Transport TransportProps Sequence SequenceProps SpecCheck.
From Zvt Require Import SeqLookup Client ClientLog EnumProps CanonClass CanonRoundtrip.
Open Scope N_scope.

(* a well-formed reply script: acknowledgement, non-final replies, the first final reply, then anything.
   The client sends the command once, reads the acknowledgement, and for every reply in arrival order:
   reads it, acknowledges it, yields it; it ends right after the final one and `rest` is untouched. *)
Theorem C05_seq_trace_shape : forall final cmd ack vs ackf ai av (pre : list (bytes * N * value)) last rest,
  is_frame ackf -> parse_enum FUEL ack ackf = Ok (ai, av) ->
  Forall (fun x => is_frame (fst (fst x)) /\ parse_enum FUEL vs (fst (fst x)) = Ok (snd (fst x), snd x) /\ final (snd (fst x)) = false) pre ->
  is_frame (fst (fst last)) -> parse_enum FUEL vs (fst (fst last)) = Ok (snd (fst last), snd last) -> final (snd (fst last)) = true ->
  run_seq (Loop final) cmd ack vs (ackf ++ concat (map (fun x => fst (fst x)) pre) ++ fst (fst last) ++ rest)
    = (EvW cmd :: EvR ackf :: flat_map item_events (pre ++ [last]), rest).
Proof. exact seq_trace_shape. Qed.

(* the seven sequences that use the default into_stream: exactly one reply *)
Theorem C05_single_is_one_reply : forall cmd ack vs ackf ai av f i v rest,
  is_frame ackf -> parse_enum FUEL ack ackf = Ok (ai, av) ->
  is_frame f -> parse_enum FUEL vs f = Ok (i, v) ->
  run_seq Single cmd ack vs (ackf ++ f ++ rest) = ([EvW cmd; EvR ackf; EvR f; EvW ACK; EvY i v], rest).
Proof. exact single_is_one_reply. Qed.

(* for EVERY byte stream the terminal may send: the run is command, acknowledgement, then
   (read, acknowledge, yield)* with nothing after a final item *)
Theorem C05_every_run_has_the_shape : forall final cmd ack vs s,
  run_shape cmd ack vs final (fst (run_seq (Loop final) cmd ack vs s)).
Proof. exact run_seq_shape_any. Qed.

(* what the writer emits is a frame in the sense used above (ties the scripts to C04) *)
Theorem C05_written_packets_are_frames : forall c i body, blen body <= 65535 -> is_frame (frame_of c i body).
Proof. exact frame_of_is_frame. Qed.

(* the regenerated tables: shape of all 17 into_stream bodies recognised, reply enum, command and
   the set of final packets equal the specification table *)
Theorem C05_sequence_tables_agree_with_spec : sequences_ok = true.
Proof. exact sequences_agree_with_spec. Qed.

Example C05_ex_frame : is_frame [6; 15; 0] /\ is_frame ACK.
Proof.
  split; [apply (frame_of_is_frame 6 15 [])|apply (frame_of_is_frame 128 0 [])]; unfold blen; cbn [length]; lia.
Qed.

(* the same exchange inside the Feig client (Client.v, poll by poll, virtual time): on a connection whose data has all arrived,
   one poll is exactly one `rp` step of the model above — same frame consumed, same item or error, the acknowledgement written
   exactly when an item is handed to the caller *)
Theorem C05_client_poll_is_one_step : forall q id d w, settled (get_conn w id) -> w_now w <= d ->
  seq_next q id PLoop d w =
  match rp (q_replies q) (k_buf (get_conn w id)) with
  | (_, Some (i, v, r)) =>
      NItem (IOk i v) (if is_final (q_mode q) i then PDone else PLoop)
            (write_t (at_time (put_conn w id {| k_queue := []; k_close := true; k_buf := r |}) (w_now w)) id ACK)
  | (_, None) =>
      match read_frame (k_buf (get_conn w id)) with
      | Some (f, r) => NItem (IErr 1) PDone (at_time (put_conn w id {| k_queue := []; k_close := true; k_buf := r |}) (w_now w))
      | None => NItem (IErr 0) PDone w
      end
  end.
Proof. exact seq_next_is_rp. Qed.

(* ... and a WHOLE exchange: polling the sequence inside the client until it says it is done (poll_exchange) yields exactly the
   items and performs exactly the writes of the trace model on the buffered bytes (run_seq_fuel is run_seq with its loop fuel as a
   parameter: C05_run_seq_is_fuel) — the model of C05 / C06 / C11 and the model of C07..C10 / C18..C20 are two views of one semantics *)
Theorem C05_client_exchange_agrees_with_trace_model : forall q id d k w,
  valid_id w id -> settled (get_conn w id) -> w_now w <= d ->
  let evs := run_seq_fuel (S k) (q_mode q) (q_cmd q) ack_enum (q_replies q) (k_buf (get_conn w id)) in
  let '(its, w') := poll_exchange k q id d w in
  map item_obs its = ev_items evs /\
  w_log w' = rev (map (fun b => EWrite id (w_now w) b) (ev_writes evs)) ++ w_log w.
Proof. exact exchange_agrees. Qed.
Theorem C05_run_seq_is_fuel : forall m cmd ack vs s,
  fst (run_seq m cmd ack vs s) =
  run_seq_fuel (match rp ack s with (_, Some (_, _, r)) => S (length r) | _ => O end) m cmd ack vs s.
Proof. exact run_seq_is_fuel. Qed.

(* composition with C01 / C04 / C15: a reply serialised by the terminal side (any value of the class) and sitting in the connection's
   buffer, followed by anything, reaches the caller as exactly that variant with that content, acknowledged, the rest left buffered *)
Theorem C05_client_reads_what_was_serialised : forall q id d w k nm c v b rest,
  settled (get_conn w id) -> w_now w <= d -> k_buf (get_conn w id) = b ++ rest ->
  nodup_cf (map v_cf (q_replies q)) = true -> nth_error (q_replies q) k = Some (nm, c) ->
  c_class c < 256 -> c_instr c < 256 -> (depth_fields (c_fields c) <= S FUEL)%nat ->
  canon_cmd c v = Some b ->
  seq_next q id PLoop d w =
  NItem (IOk (N.of_nat k) v) (if is_final (q_mode q) (N.of_nat k) then PDone else PLoop)
        (write_t (at_time (put_conn w id {| k_queue := []; k_close := true; k_buf := rest |}) (w_now w)) id ACK).
Proof. exact poll_roundtrip. Qed.

Print Assumptions C05_client_reads_what_was_serialised.
Print Assumptions C05_client_exchange_agrees_with_trace_model.
Print Assumptions C05_run_seq_is_fuel.
Print Assumptions C05_client_poll_is_one_step.
Print Assumptions C05_seq_trace_shape.
Print Assumptions C05_single_is_one_reply.
Print Assumptions C05_every_run_has_the_shape.
Print Assumptions C05_written_packets_are_frames.
Print Assumptions C05_sequence_tables_agree_with_spec.
