(* C19 — going idle triggers clean-up; end-of-day never runs over open transactions.  Statements only. *)
From Zvt Require Import Base Length Cp437 Encoding Codec Lookup Client ClientProps ClientLog ClientWire ClientSent.
Open Scope N_scope.

(* while other transactions are still open a completed cancel requests nothing more: the world after
   the call is the world after its own reversal exchange — no pending query, no end-of-day *)
Theorem C19_cancel_busy_no_end_of_day : forall cfg st tok rn w w1 x rest,
  assoc_tok tok (s_txs st) = Some rn -> remove_tok tok (s_txs st) = x :: rest ->
  cancel_by_receipt cfg rn w = (ROk tt, w1) ->
  cancel_transaction cfg st tok w = (ROk tt, {| s_txs := x :: rest; s_max := s_max st |}, w1).
Proof. exact cancel_busy_no_end_of_day. Qed.

(* when the completed cancel leaves no transaction open, the clean-up chain (pending query, reversal
   of what it reports, end-of-day: Client.end_of_day) runs at once and its outcome is the call's outcome *)
Theorem C19_cancel_idle_runs_cleanup : forall cfg st tok rn w w1,
  assoc_tok tok (s_txs st) = Some rn -> remove_tok tok (s_txs st) = [] ->
  cancel_by_receipt cfg rn w = (ROk tt, w1) ->
  cancel_transaction cfg st tok w = end_of_day cfg {| s_txs := []; s_max := s_max st |} w1.
Proof. exact cancel_idle_runs_cleanup. Qed.

(* 'receiver not ready' is tolerated, every other refusal of end-of-day is reported with its code *)
Theorem C19_end_of_day_outcomes : forall ixc ixa c rest, ixa <> ixc ->
  fst (h_eod ixc ixa tt ixa (VRec (VInt c :: rest))) = Some (if c =? 160 then ROk tt else RErr (EAborted c)).
Proof. exact abort_end_of_day. Qed.

(* end_of_day always leaves the map empty *)
Theorem C19_end_of_day_clears : forall cfg st w, let '(_, st', _) := end_of_day cfg st w in s_txs st' = [] /\ s_max st' = s_max st.
Proof. exact end_of_day_state. Qed.

(* the same for commit: busy => no further traffic at all ... *)
Theorem C19_commit_busy_no_end_of_day : forall cfg st tok amount rn w si w1 x rest,
  assoc_tok tok (s_txs st) = Some rn -> remove_tok tok (s_txs st) = x :: rest ->
  commit_exchange cfg tok rn amount w = (ROk si, w1) ->
  commit_transaction cfg st tok amount w = (summary_of si, {| s_txs := x :: rest; s_max := s_max st |}, w1).
Proof. exact commit_busy_no_end_of_day. Qed.

(* ... idle => the chain runs at once, also when the terminal completed the commit without any status information *)
Theorem C19_commit_idle_runs_cleanup : forall cfg st tok amount rn w si w1,
  assoc_tok tok (s_txs st) = Some rn -> remove_tok tok (s_txs st) = [] ->
  commit_exchange cfg tok rn amount w = (ROk si, w1) ->
  commit_transaction cfg st tok amount w =
  (let '(r2, st2, w2) := end_of_day cfg {| s_txs := []; s_max := s_max st |} w1 in
   (match r2 with RErr e => RErr e | ROk _ => summary_of si end, st2, w2)).
Proof. exact commit_idle_runs_cleanup. Qed.

(* the chain in order: the query; the reversal of what it reports; then, and only then, end-of-day *)
Theorem C19_chain_stops_when_query_fails : forall cfg st w e w1, get_pending cfg w = (RErr e, w1) ->
  end_of_day cfg st w = (RErr e, {| s_txs := []; s_max := s_max st |}, w1).
Proof. exact cleanup_stops_when_query_fails. Qed.
Theorem C19_chain_stops_when_reversal_fails : forall cfg st w p w1 e w2, get_pending cfg w = (ROk [p], w1) ->
  cancel_by_receipt cfg p w1 = (RErr e, w2) ->
  end_of_day cfg st w = (RErr e, {| s_txs := []; s_max := s_max st |}, w2).
Proof. exact cleanup_stops_when_reversal_fails. Qed.
Theorem C19_chain_without_dangling : forall cfg st w w1, get_pending cfg w = (ROk [], w1) ->
  end_of_day cfg st w = (fst (eod_exchange cfg w1), {| s_txs := []; s_max := s_max st |}, snd (eod_exchange cfg w1)).
Proof. exact cleanup_then_end_of_day. Qed.
Theorem C19_chain_with_dangling : forall cfg st w p w1 u w2, get_pending cfg w = (ROk [p], w1) ->
  cancel_by_receipt cfg p w1 = (ROk u, w2) ->
  end_of_day cfg st w = (fst (eod_exchange cfg w2), {| s_txs := []; s_max := s_max st |}, snd (eod_exchange cfg w2)).
Proof. exact cleanup_reversal_then_end_of_day. Qed.

(* which dangling pre-authorisation is reversed: every receipt number the terminal reports, only the FFFF marker means none *)
Theorem C19_pending_reports_receipt : forall ixa sk v r, abort_code v = 184 ->
  field_of "zvt::packets::PartialReversalAbort" v 135 = Some (VSome (VInt r)) ->
  fst (h_pending ixa sk tt ixa v) = Some (if r =? 65535 then ROk [] else ROk [r]).
Proof. exact pending_reports_receipt. Qed.
(* down to the wire, for every state, world and time: the chain's first act on the connection in use is the query for a
   dangling pre-authorisation — a request the partial-reversal layout reads back as the marker FFFF and nothing else *)
Theorem C19_chain_first_asks_for_pending : forall cfg st w id, w_cur w = Some id ->
  exists req : list N, req <> nil /\
    first_new_event w (snd (end_of_day cfg st w)) (EWrite id (w_now w) req) /\
    forall r, dec_cmd FUEL (cmd_of "zvt::packets::PartialReversal") (req ++ r) = Ok (pending_query_value, r).
Proof. exact end_of_day_first_asks_for_pending. Qed.

(* and the end-of-day request itself carries the configured password (for every password below 10^6) *)
Theorem C19_end_of_day_request : forall cfg, c_password cfg < 10 ^ 6 ->
  let req := mk_cmd "zvt::packets::EndOfDay" [VInt (c_password cfg)] nil in
  req <> nil /\ forall r, dec_cmd FUEL (cmd_of "zvt::packets::EndOfDay") (req ++ r) = Ok (VRec [VInt (c_password cfg)], r).
Proof. exact end_of_day_request_on_the_wire. Qed.

(* ---- at the level of the log, for every state of the client, every world (terminal behaviour, lost connections, retries) ---- *)

(* "while other transactions are still open, commit and cancel never request end-of-day": among the events such a call adds
   to the log there is no write whose control field is 06 50 *)
Theorem C19_busy_commit_never_requests_end_of_day : forall cfg st tok amount w x rest,
  remove_tok tok (s_txs st) = x :: rest ->
  sent_in (fun b => ~ is_end_of_day b) w (snd (commit_transaction cfg st tok amount w)).
Proof. exact commit_busy_never_requests_end_of_day. Qed.
Theorem C19_busy_cancel_never_requests_end_of_day : forall cfg st tok w x rest,
  remove_tok tok (s_txs st) = x :: rest ->
  sent_in (fun b => ~ is_end_of_day b) w (snd (cancel_transaction cfg st tok w)).
Proof. exact cancel_busy_never_requests_end_of_day. Qed.
(* the predicate does recognise the request: the end-of-day request of every accepted configuration starts with 06 50 *)
Theorem C19_end_of_day_request_is_recognised : forall cfg, c_password cfg < 10 ^ 6 -> is_end_of_day (end_of_day_req cfg).
Proof. exact end_of_day_req_is_end_of_day. Qed.
(* more precisely: a busy cancel writes nothing but housekeeping (acknowledgements; registration and identity query when the
   connection has to be re-established) and THE reversal of the receipt recorded for its token ... *)
Theorem C19_busy_cancel_vocabulary : forall cfg st tok rn w x rest,
  assoc_tok tok (s_txs st) = Some rn -> remove_tok tok (s_txs st) = x :: rest ->
  sent_in (fun b => housekeeping cfg b \/ b = reversal_req cfg rn) w (snd (cancel_transaction cfg st tok w)).
Proof. exact cancel_busy_vocabulary. Qed.
(* ... and one that goes idle adds at most the query, reversals of what the terminal reports, and the end-of-day request *)
Theorem C19_cancel_vocabulary : forall cfg st tok rn w,
  assoc_tok tok (s_txs st) = Some rn ->
  sent_in (fun b => housekeeping cfg b \/ b = pending_query \/ b = end_of_day_req cfg \/ exists r, b = reversal_req cfg r)
          w (snd (cancel_transaction cfg st tok w)).
Proof. exact cancel_vocabulary. Qed.
(* whole histories: every write in the complete log of any history against any scripted terminal is one of ten request forms;
   their control fields — never an authorisation or another payment command *)
Theorem C19_history_vocabulary : forall cfg ops scripts,
  let '(cfg', _, _) := new_client cfg scripts in
  let '(_, _, _, w) := run_history cfg ops scripts in
  forall id t b, In (EWrite id t b) (w_log w) -> client_vocabulary cfg' b.
Proof. exact history_vocabulary. Qed.
Theorem C19_vocabulary_control_fields : forall cfg b, client_vocabulary cfg b ->
  b = nil \/ exists h, head2 b = Some h /\ In h vocabulary_heads.
Proof. exact vocabulary_control_fields. Qed.

(* the chain event by event: once the query found nothing dangling, the VERY NEXT event is the end-of-day request, on the
   connection the query was answered on; a reported pre-authorisation is reversed first (next event: the reversal of exactly
   that receipt number), and once the terminal completed the reversal the next event is the end-of-day request *)
Theorem C19_chain_next_event_end_of_day : forall cfg w w1, get_pending cfg w = (ROk [], w1) ->
  exists id, w_cur w1 = Some id /\
    first_new_event w1 (snd (eod_exchange cfg w1)) (EWrite id (w_now w1) (end_of_day_req cfg)).
Proof. exact idle_chain_then_requests_end_of_day. Qed.
Theorem C19_chain_next_event_reversal : forall cfg w p w1, get_pending cfg w = (ROk [p], w1) ->
  exists id, w_cur w1 = Some id /\
    first_new_event w1 (snd (cancel_by_receipt cfg p w1)) (EWrite id (w_now w1) (reversal_req cfg p)).
Proof. exact idle_chain_reverses_the_reported_one. Qed.
Theorem C19_chain_after_reversal_end_of_day : forall cfg p w1 u w2, cancel_by_receipt cfg p w1 = (ROk u, w2) ->
  exists id, w_cur w2 = Some id /\
    first_new_event w2 (snd (eod_exchange cfg w2)) (EWrite id (w_now w2) (end_of_day_req cfg)).
Proof. exact idle_chain_after_reversal_requests_end_of_day. Qed.
(* "at once": the completed cancel hands over a live connection and the query is the next event on it *)
Theorem C19_completed_cancel_then_queries : forall cfg st w rn w1 u, cancel_by_receipt cfg rn w = (ROk u, w1) ->
  exists id, w_cur w1 = Some id /\ exists req : list N, req <> nil /\
    first_new_event w1 (snd (end_of_day cfg st w1)) (EWrite id (w_now w1) req) /\
    forall r, dec_cmd FUEL (cmd_of "zvt::packets::PartialReversal") (req ++ r) = Ok (pending_query_value, r).
Proof. exact completed_cancel_then_queries. Qed.

(* non-vacuity: a state with two open transactions meets the hypotheses, and sent_in does separate logs *)
Example C19_ex_busy_state : let st := {| s_txs := [([65], 7); ([66], 8)]; s_max := 2 |} in
  assoc_tok [65] (s_txs st) = Some 7 /\ remove_tok [65] (s_txs st) = [([66], 8)].
Proof. split; reflexivity. Qed.
Example C19_ex_sent_in_separates : forall w, ~ sent_in (fun b => ~ is_end_of_day b) w (write_t w 0 [6; 80; 3; 0; 0; 0]).
Proof.
  intros w [evs [E F]]. cbn in E. destruct evs as [|e evs].
  - cbn in E. assert (L : length (EWrite 0 (w_now w) [6; 80; 3; 0; 0; 0] :: w_log w) = length (w_log w)) by (rewrite E; reflexivity).
    cbn in L. lia.
  - cbn in E. injection E as <- E. apply (F 0 (w_now w) [6; 80; 3; 0; 0; 0]); [left; reflexivity|reflexivity].
Qed.

Print Assumptions C19_pending_reports_receipt.
Print Assumptions C19_end_of_day_request.
Print Assumptions C19_chain_first_asks_for_pending.
Print Assumptions C19_commit_busy_no_end_of_day.
Print Assumptions C19_commit_idle_runs_cleanup.
Print Assumptions C19_chain_stops_when_query_fails.
Print Assumptions C19_chain_stops_when_reversal_fails.
Print Assumptions C19_chain_without_dangling.
Print Assumptions C19_chain_with_dangling.
Print Assumptions C19_cancel_busy_no_end_of_day.
Print Assumptions C19_cancel_idle_runs_cleanup.
Print Assumptions C19_end_of_day_outcomes.
Print Assumptions C19_end_of_day_clears.
Print Assumptions C19_busy_commit_never_requests_end_of_day.
Print Assumptions C19_busy_cancel_never_requests_end_of_day.
Print Assumptions C19_end_of_day_request_is_recognised.
Print Assumptions C19_busy_cancel_vocabulary.
Print Assumptions C19_cancel_vocabulary.
Print Assumptions C19_history_vocabulary.
Print Assumptions C19_vocabulary_control_fields.
Print Assumptions C19_chain_next_event_end_of_day.
Print Assumptions C19_chain_next_event_reversal.
Print Assumptions C19_chain_after_reversal_end_of_day.
Print Assumptions C19_completed_cancel_then_queries.
