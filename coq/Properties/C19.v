(* C19 — going idle triggers clean-up; end-of-day never runs over open transactions.  Statements only. *)
From Zvt Require Import Base Length Cp437 Encoding Codec Lookup Client ClientProps.
Open Scope N_scope.

(* while other transactions are still open a completed cancel requests nothing more: the world after
   the call is the world after its own reversal exchange — no pending query, no end-of-day *)
Theorem C19_cancel_busy_no_end_of_day : forall cfg st tok rn w w1 x rest,
  assoc_tok tok (s_txs st) = Some rn -> remove_tok tok (s_txs st) = x :: rest ->
  cancel_by_receipt cfg rn w = (ROk tt, w1) ->
  cancel_transaction cfg st tok w = (ROk tt, {| s_txs := x :: rest; s_max := s_max st |}, w1).
Proof. exact cancel_busy_no_end_of_day. Qed.

(* when the completed cancel leaves no transaction open, the clean-up chain (pending query, reversal
   of what it reports, end-of-day: Client.end_of_day) runs at once and its outcome is the call's outcome *)
Theorem C19_cancel_idle_runs_cleanup : forall cfg st tok rn w w1,
  assoc_tok tok (s_txs st) = Some rn -> remove_tok tok (s_txs st) = [] ->
  cancel_by_receipt cfg rn w = (ROk tt, w1) ->
  cancel_transaction cfg st tok w = end_of_day cfg {| s_txs := []; s_max := s_max st |} w1.
Proof. exact cancel_idle_runs_cleanup. Qed.

(* 'receiver not ready' is tolerated, every other refusal of end-of-day is reported with its code *)
Theorem C19_end_of_day_outcomes : forall ixc ixa c rest, ixa <> ixc ->
  fst (h_eod ixc ixa tt ixa (VRec (VInt c :: rest))) = Some (if c =? 160 then ROk tt else RErr (EAborted c)).
Proof. exact abort_end_of_day. Qed.

(* end_of_day always leaves the map empty *)
Theorem C19_end_of_day_clears : forall cfg st w, let '(_, st', _) := end_of_day cfg st w in s_txs st' = [] /\ s_max st' = s_max st.
Proof. exact end_of_day_state. Qed.

Print Assumptions C19_cancel_busy_no_end_of_day.
Print Assumptions C19_cancel_idle_runs_cleanup.
Print Assumptions C19_end_of_day_outcomes.
Print Assumptions C19_end_of_day_clears.
