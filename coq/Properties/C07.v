(* C07 — transaction tokens map one-to-one onto open pre-authorisations.  Statements only. *)
From Zvt Require Import Base Length Cp437 Encoding Codec Lookup Client ClientProps ClientLog ClientWire ClientSent.
Open Scope N_scope.

(* the invariant of the token map — no token twice, never more than the configured maximum — holds
   after EVERY call, for every terminal behaviour (w ranges over all worlds: scripts, time, failures) *)
Theorem C07_map_invariant : forall cfg st o w, Inv st ->
  let '(_, st', _) := run_op cfg st o w in Inv st' /\ s_max st' = s_max st.
Proof. exact inv_preserved. Qed.

(* calls refused by the rules of the map fail with the documented error WITHOUT any traffic *)
Theorem C07_begin_refused_at_maximum : forall cfg st tok w, N.of_nat (length (s_txs st)) = s_max st ->
  begin_transaction cfg st tok w = (RErr EActiveMax, st, w).
Proof. exact begin_refused_at_maximum. Qed.
Theorem C07_begin_refused_when_open : forall cfg st tok w, N.of_nat (length (s_txs st)) <> s_max st -> In tok (tokens st) ->
  begin_transaction cfg st tok w = (RErr EActiveInUse, st, w).
Proof. exact begin_refused_when_open. Qed.
Theorem C07_commit_refused_when_unknown : forall cfg st tok amount w, ~ In tok (tokens st) ->
  commit_transaction cfg st tok amount w = (RErr EUnknownToken, st, w).
Proof. exact commit_refused_when_unknown. Qed.
Theorem C07_cancel_refused_when_unknown : forall cfg st tok w, ~ In tok (tokens st) ->
  cancel_transaction cfg st tok w = (RErr EUnknownToken, st, w).
Proof. exact cancel_refused_when_unknown. Qed.

(* begin changes the map only on success, and then by exactly the new token with a receipt number *)
Theorem C07_begin_effect : forall cfg st tok w, let '(r, st', w') := begin_transaction cfg st tok w in
  match r with
  | ROk _ => exists rn, s_txs st' = (tok, rn) :: s_txs st /\ ~ In tok (tokens st) /\ N.of_nat (length (s_txs st)) <> s_max st
  | RErr _ => st' = st
  end /\ s_max st' = s_max st.
Proof. exact begin_effect. Qed.

(* the consumer loops are folds of pure handlers over the Ok items (used by C18/C19/C20) *)
Theorem C07_consume_is_fold : forall (A B : Type) (handle : A -> N -> value -> (option (cres B)) * A) (finish : A -> cres B)
  fuel cfg r w acc, exists its, fst (consume fuel cfg r w acc handle finish) = run_handler handle finish acc its.
Proof. exact @consume_is_fold. Qed.

Example C07_ex_inv : Inv {| s_txs := [([65], 12); ([66; 67], 9001)]; s_max := 2 |}.
Proof. split; [repeat constructor; cbn; intuition discriminate|cbn; lia]. Qed.

(* begin records the receipt number of the LAST status information that carried one (any number of replies, no abort) *)
Theorem C07_begin_records_last_receipt : forall ixa ixs, ixs <> ixa -> forall its acc,
  (forall i v, In (i, v) its -> i <> ixa) ->
  run_handler (h_begin ixa ixs) f_begin acc its =
  f_begin (fold_left (fun a iv => if fst iv =? ixs then match receipt_of (snd iv) with Some rn => Some rn | None => a end else a) its acc).
Proof. exact begin_records_last_receipt. Qed.

(* ... whatever number that is: every receipt number over all of N, 0000 included, is a number and not "none reported" *)
Theorem C07_begin_records_any_receipt : forall ixa ixs rn v, ixs <> ixa -> receipt_of v = Some rn ->
  run_handler (h_begin ixa ixs) f_begin None [(ixs, v)] = ROk rn.
Proof. exact begin_records_any_receipt. Qed.

(* a reservation whose replies never carried a receipt number is refused as incomplete (and by C07_begin_effect the map is untouched) *)
Theorem C07_begin_without_receipt_is_incomplete : forall ixa ixs, ixs <> ixa -> forall its,
  (forall i v, In (i, v) its -> i <> ixa) -> (forall i v, In (i, v) its -> i = ixs -> receipt_of v = None) ->
  run_handler (h_begin ixa ixs) f_begin None its = RErr EIncomplete.
Proof. exact begin_without_receipt_is_incomplete. Qed.

(* commit and cancel close exactly their token — whatever the terminal answers (completion, abort, nothing), also when the
   clean-up chain runs — and leave every other token with its receipt number *)
Theorem C07_cancel_closes_token : forall cfg st tok rn w, assoc_tok tok (s_txs st) = Some rn ->
  let '(_, st', _) := cancel_transaction cfg st tok w in
  s_txs st' = remove_tok tok (s_txs st) /\ s_max st' = s_max st.
Proof. exact cancel_closes_token. Qed.
Theorem C07_commit_closes_token : forall cfg st tok amount rn w, assoc_tok tok (s_txs st) = Some rn ->
  let '(_, st', _) := commit_transaction cfg st tok amount w in
  s_txs st' = remove_tok tok (s_txs st) /\ s_max st' = s_max st.
Proof. exact commit_closes_token. Qed.
Theorem C07_other_tokens_untouched : forall k k' l, list_eqb k' k = false -> assoc_tok k' (remove_tok k l) = assoc_tok k' l.
Proof. exact assoc_remove_other. Qed.

(* on exactly its receipt number, down to the wire (for every state, world, time and amount): the request a commit / cancel
   writes first on the connection in use is read back by the layout's decoder with the receipt number recorded for THIS token *)
Theorem C07_commit_uses_the_tokens_receipt : forall cfg st tok amount rn w id pl,
  assoc_tok tok (s_txs st) = Some rn -> w_cur w = Some id ->
  rn < 10000 -> c_amount cfg < 10 ^ 12 -> c_currency cfg < 10000 -> token_ok tok pl ->
  exists req : list N, req <> nil /\
    first_new_event w (snd (commit_transaction cfg st tok amount w)) (EWrite id (w_now w) req) /\
    forall r, dec_cmd FUEL (cmd_of "zvt::packets::PartialReversal") (req ++ r) =
              Ok (partial_reversal_value rn (c_amount cfg - amount) (c_currency cfg) tok, r).
Proof. exact commit_releases_exactly_the_unused_part. Qed.
Theorem C07_cancel_uses_the_tokens_receipt : forall cfg st tok rn w id,
  assoc_tok tok (s_txs st) = Some rn -> w_cur w = Some id -> rn < 10000 -> c_currency cfg < 10000 ->
  exists req : list N, req <> nil /\
    first_new_event w (snd (cancel_transaction cfg st tok w)) (EWrite id (w_now w) req) /\
    forall r, dec_cmd FUEL (cmd_of "zvt::packets::PreAuthReversal") (req ++ r) =
              Ok (preauth_reversal_value (c_currency cfg) rn, r).
Proof. exact cancel_reverses_that_reservation. Qed.

(* at the level of the log, for every world: a begin writes nothing but housekeeping (acknowledgements; registration and
   identity query when the connection has to be re-established) and THE reservation for its token — on every retry the same
   token, amount and currency; a begin the map refuses writes nothing at all *)
Theorem C07_begin_writes_only_its_reservation : forall cfg st tok w,
  sent_in (fun b => housekeeping cfg b \/ b = reservation_req cfg tok) w (snd (begin_transaction cfg st tok w)).
Proof. exact begin_exact_vocabulary. Qed.
Theorem C07_refused_begin_is_silent : forall cfg st tok w,
  N.of_nat (length (s_txs st)) = s_max st \/ assoc_tok tok (s_txs st) <> None ->
  snd (begin_transaction cfg st tok w) = w.
Proof. exact refused_begin_is_silent. Qed.
Theorem C07_unknown_token_is_silent : forall cfg st tok amount w, assoc_tok tok (s_txs st) = None ->
  snd (commit_transaction cfg st tok amount w) = w /\ snd (cancel_transaction cfg st tok w) = w.
Proof. exact unknown_token_is_silent. Qed.

Print Assumptions C07_cancel_closes_token.
Print Assumptions C07_commit_uses_the_tokens_receipt.
Print Assumptions C07_cancel_uses_the_tokens_receipt.
Print Assumptions C07_commit_closes_token.
Print Assumptions C07_other_tokens_untouched.
Print Assumptions C07_begin_records_last_receipt.
Print Assumptions C07_begin_without_receipt_is_incomplete.
Print Assumptions C07_map_invariant.
Print Assumptions C07_begin_refused_at_maximum.
Print Assumptions C07_begin_refused_when_open.
Print Assumptions C07_commit_refused_when_unknown.
Print Assumptions C07_cancel_refused_when_unknown.
Print Assumptions C07_begin_effect.
Print Assumptions C07_consume_is_fold.
Print Assumptions C07_begin_writes_only_its_reservation.
Print Assumptions C07_refused_begin_is_silent.
Print Assumptions C07_unknown_token_is_silent.
Print Assumptions C07_begin_records_any_receipt.
