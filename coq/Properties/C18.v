(* C18 — card identity is a fixed function of the data the terminal reports.  Statements only. *)
From Zvt Require Import Base Length Cp437 Encoding Codec Lookup Client ClientProps.
From Zvt Require Import ClientLog ClientWire ClientSent.
Open Scope N_scope.

(* the canonical membership id: upper case; longer than 14 digits -> the last 14, a leading 000000 of
   those dropped; a function of the UID alone *)
Theorem C18_canonical_uid : forall u, canon_uid u = canon_spec u.
Proof. exact canon_uid_spec. Qed.

(* the application list: the entries at the top level of the status TLV (tag 0x60) followed by those of the "applications on
   card" container (tag 0x62) — where the cVEND puts them (since the fix of F16) *)
Theorem C18_application_list : forall tlv top card,
  field_of "zvt::packets::tlv::StatusInformation" tlv 96 = Some (VList top) ->
  field_of "zvt::packets::tlv::StatusInformation" tlv 98 = Some (VSome (VRec [VList card])) ->
  application_list tlv = top ++ card.
Proof. exact application_list_spec. Qed.

(* a payment application listed ANYWHERE in it (an entry carrying an application id): Bank *)
Theorem C18_bank_if_listed : forall ixa ixs acc v tlv s app, ixs <> ixa ->
  field_of "zvt::packets::StatusInformation" v 6 = Some (VSome tlv) ->
  In s (application_list tlv) -> field_of "zvt::packets::tlv::Subs" s 67 = Some (VSome app) ->
  h_read_card ixa ixs acc ixs v = (None, Some CBank).
Proof. exact bank_if_listed. Qed.

(* with any application list the answer is Bank or an error — never a membership card *)
Theorem C18_listed_never_membership : forall ixa ixs acc v tlv, ixs <> ixa ->
  field_of "zvt::packets::StatusInformation" v 6 = Some (VSome tlv) ->
  application_list tlv <> nil ->
  h_read_card ixa ixs acc ixs v = (None, Some CBank) \/
  h_read_card ixa ixs acc ixs v = (Some (RErr EUnknownCardType), acc).
Proof. exact listed_never_membership. Qed.

(* KNOWN FINDING (open, known_findings.json; not repaired — DESIGN 16.2): the full statement "otherwise the UID is reported as
   membership id" is FALSE of the code for a non-empty application list none of whose entries names an application: the call fails
   with "unknown card type" whether or not a UID is reported.  The deviation is exactly this class: *)
Theorem C18_refuted_for_idless_lists : forall ixa ixs acc v tlv, ixs <> ixa ->
  field_of "zvt::packets::StatusInformation" v 6 = Some (VSome tlv) ->
  application_list tlv <> nil -> existsb has_application (application_list tlv) = false ->
  h_read_card ixa ixs acc ixs v = (Some (RErr EUnknownCardType), acc).
Proof. exact idless_list_is_unknown_card_type. Qed.

(* no application entry anywhere: the UID in canonical form *)
Theorem C18_membership_canonical : forall ixa ixs acc v tlv u, ixs <> ixa ->
  field_of "zvt::packets::StatusInformation" v 6 = Some (VSome tlv) ->
  application_list tlv = nil ->
  field_of "zvt::packets::tlv::StatusInformation" tlv 76 = Some (VSome (VStr u)) ->
  h_read_card ixa ixs acc ixs v = (None, Some (CMember (canon_spec u))).
Proof. exact membership_canonical. Qed.

(* a terminal time-out means no card presented; any other abort is an error (C20) *)
Theorem C18_timeout_is_no_card : forall ixa ixs acc rest,
  fst (h_read_card ixa ixs acc ixa (VRec (VInt 108 :: rest))) = Some (RErr ENoCard).
Proof. exact timeout_is_no_card. Qed.

Example C18_ex_canon :
  canon_uid [48;48;48;48;48;48;48;48;48;48;48;48;48;56;49;99;97;55;50;102] = [48;56;49;67;65;55;50;70] /\
  canon_uid [48;52;97;49] = [48;52;65;49].
Proof. split; vm_compute; reflexivity. Qed.

(* the public call: when the exchange on the current connection goes through, read_card's answer is the classification fold
   (the theorems above) over exactly the replies received *)
Theorem C18_read_card_is_the_fold_over_received_replies : forall cfg w id its,
  let t := c_read_card_timeout cfg in
  let cmd := mk_cmd "zvt::packets::ReadCard" [VInt t]
               [(25, VSome (VInt 16)); (252, VSome (VInt 2));
                (6, VSome (VRec (build_rec (snd (layout_of "zvt::packets::tlv::ReadCard")) [] [(7957, VSome (VInt 208)); (8032, VSome (VInt 7))])))] in
  w_cur w = Some id ->
  polls_ok (seq_of "zvt::sequences::ReadCard" cmd) ((t + 2) * 1000) id PStart w its -> (length its < LOOPFUEL)%nat ->
  fst (read_card cfg w) =
  run_handler (h_read_card (variant_ix "zvt::sequences::ReadCardResponse" "Abort") (variant_ix "zvt::sequences::ReadCardResponse" "StatusInformation"))
              f_read_card None its.
Proof. exact read_card_follows_polls. Qed.

(* the reply a real cVEND gave for a girocard (the crate's own trace zvt/data/status_information_read_card.blob: the applications
   A0000003591010028001 and A0000000043060 under tag 0x62, a UID as well): decoded by the model's decoder and classified by the
   model's handler it is a bank card (before the fix of F16 it was MembershipCard("08B3C880")) *)
Definition ex_recorded_reply : list N := [4; 15; 134; 39; 0; 35; 241; 249; 103; 37; 144; 68; 17; 0; 16; 0; 20; 45; 36; 18; 32; 18; 56; 96; 19; 134; 15; 6; 108; 31; 11; 6; 0; 0; 0; 1; 0; 0; 31; 20; 16; 63; 86; 163; 32; 101; 204; 77; 190; 131; 48; 195; 118; 9; 249; 25; 150; 76; 10; 0; 0; 0; 0; 0; 0; 8; 179; 200; 128; 31; 69; 12; 12; 120; 128; 116; 3; 128; 49; 192; 115; 214; 49; 192; 31; 76; 1; 1; 31; 77; 2; 254; 4; 31; 79; 2; 4; 0; 31; 80; 1; 32; 98; 33; 96; 16; 65; 2; 0; 5; 67; 10; 160; 0; 0; 3; 89; 16; 16; 2; 128; 1; 96; 13; 65; 2; 0; 46; 67; 7; 160; 0; 0; 0; 4; 48; 96].
Example C18_ex_recorded_girocard :
  match dec_cmd FUEL (cmd_of "zvt::packets::StatusInformation") ex_recorded_reply with
  | Ok (v, nil) => h_read_card 0 1 None 1 v = (None, Some CBank)
  | _ => False
  end.
Proof. vm_compute. reflexivity. Qed.

Print Assumptions C18_read_card_is_the_fold_over_received_replies.
Print Assumptions C18_canonical_uid.
Print Assumptions C18_bank_if_listed.
Print Assumptions C18_listed_never_membership.
Print Assumptions C18_membership_canonical.
Print Assumptions C18_timeout_is_no_card.

(* the request that asks for the card, down to the wire: read_card made while a connection is in use first writes a ReadCard
   request that its layout reads back as the configured timeout, card type 0x10, dialog control 2 and the TLV
   { reading control 0xD0, card type 7 } — for every timeout 0..255 *)
Theorem C18_read_card_request : forall cfg w id, w_cur w = Some id -> c_read_card_timeout cfg < 256 ->
  exists req : list N, req <> nil /\
    first_new_event w (snd (read_card cfg w)) (EWrite id (w_now w) req) /\
    forall r, dec_cmd FUEL (cmd_of "zvt::packets::ReadCard") (req ++ r) = Ok (read_card_value (c_read_card_timeout cfg), r).
Proof. exact read_card_sends_the_configured_timeout. Qed.
Print Assumptions C18_read_card_request.
Print Assumptions C18_refuted_for_idless_lists.
Print Assumptions C18_application_list.

(* and it is the only request a read_card ever writes, on every retry and every new connection: reading a card never
   starts a payment *)
Theorem C18_read_card_writes_only_its_request : forall cfg w,
  sent_in (fun b => housekeeping cfg b \/ b = read_card_req cfg) w (snd (read_card cfg w)).
Proof. exact read_card_exact_vocabulary. Qed.
Print Assumptions C18_read_card_writes_only_its_request.
