(* C03 — shipped packets use the wire layout the ZVT/Feig specification assigns.  Statements only. *)
From Zvt Require Import Base Length Cp437 Encoding Codec Lookup SpecLayoutCheck.
From Zvt.gen Require Import Layouts Tables.
From Zvt.spec Require Import Spec SpecLayouts.
Open Scope N_scope.

(* every layout regenerated from /repo equals the independent hand-written specification layout:
   control field, positional prefix in order, every bitmap / TLV number with its length style,
   encoding and kind (up to what is visible on the wire), and every role name on its number *)
Theorem C03_spec_layouts_agree : spec_layouts_ok = true.
Proof. exact spec_layouts_agree. Qed.

Theorem C03_every_shipped_layout_is_specified : forall name cf fs, In (name, cf, fs) structs ->
  exists p, In p packets /\ k_rust p = name.
Proof. exact shipped_layout_is_specified. Qed.

(* non-vacuity: the comparison distinguishes the entries one would expect it to *)
Example C03_ex_distinguishes :
  layout_eqb [b "amount" 0x04] [b "amount" 0x05] = false /\
  layout_eqb [b "trace_number" 0x0B] [Fld "trace_number" (Some 0x0B) (LFixed 2) EBcd (TOpt NUM)] = false /\
  layout_eqb [t "file_offset" 0x1E] [Fld "file_offset" (Some 0x1E) LTlv EDefault (TOpt U32)] = false /\
  layout_eqb [b "result_code" 0x27] [Fld "x" (Some 0x27) (LFixed 1) EDefault (TOpt U8)] = true /\
  (55 <= length packets)%nat.
Proof. repeat split; vm_compute; try reflexivity; lia. Qed.

Print Assumptions C03_spec_layouts_agree.
Print Assumptions C03_every_shipped_layout_is_specified.
