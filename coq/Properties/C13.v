(* C13 — tagged fields: any order accepted, duplicates and missing fields reported.  Statements only.
   The theorems are about the decode function the derive macro generates (Codec.dec_struct_with),
   for EVERY field list fs and every field decoder D; the per-group hypotheses (group_ok: the group
   starts with its tag, the tag dispatches to its field, the field decoder reads the group back
   leaving what follows) are exactly what the C01 field lemmas provide — the Example below discharges
   them for a shipped packet. *)
From Zvt Require Import Base Length Cp437 Encoding EncodingProps Codec Lookup CodecRoundtrip CodecTags CodecFields CodecCanon CanonClass CanonRoundtrip CanonShipped CodecFrame Client NestedFinding.
From Zvt.gen Require Import Layouts Tables.
From Coq Require Import Permutation.
Open Scope N_scope.

(* tagged fields may arrive in any order and decode to the same value *)
Theorem C13_perm_invariant : forall D fs ps gs gs' tail,
  Permutation gs gs' ->
  untagged fs = map (fun x => fst (fst x)) ps ->
  pos_ok D ps (gbytes gs' ++ tail) ->
  Forall (group_ok D fs) gs -> NoDup (map g_tag gs) -> NoDup (map g_idx gs) -> tail_ok fs tail ->
  all_required_present fs gs ->
  dec_struct_with D fs (concat (map snd ps) ++ gbytes gs' ++ tail) =
    Ok (VRec (apply_groups (init_slots fs (map (fun x => snd (fst x)) ps)) gs), tail).
Proof. exact perm_invariant. Qed.

(* ... instantiated: for EVERY layout and every value of the decidable class `canon_anyorder` (CanonClass.v: as
   `canon`, with self-delimiting positional fields), the tagged groups in ANY permutation decode to that value *)
Theorem C13_any_order_for_the_class : forall fs v pl, canon_anyorder fs v = Some pl ->
  exists vs (pos : bytes) (gs : list group), v = VRec vs /\ pl = pos ++ gbytes gs /\ enc_struct fs v = Ok pl /\
    forall gs', Permutation gs gs' -> forall fuel, (depth_fields fs <= S fuel)%nat ->
      dec_struct_with (dec fuel) fs (pos ++ gbytes gs') = Ok (v, []).
Proof. exact canon_anyorder_sound. Qed.

(* ... and inside the APDU of a command: same class, instruction and length, the same value, any suffix handed back *)
Theorem C13_any_order_commands : forall c v pl b, canon_anyorder (c_fields c) v = Some pl ->
  blen pl <= 65535 -> cf c < 65536 -> framed_enc LAdpu true (Some (cf c)) pl = Ok b ->
  enc_cmd c v = Ok b /\
  exists (pos : bytes) (gs : list group), pl = pos ++ gbytes gs /\
    forall gs', Permutation gs gs' ->
      exists b', framed_enc LAdpu true (Some (cf c)) (pos ++ gbytes gs') = Ok b' /\ blen b' = blen b /\
        forall fuel r, (depth_fields (c_fields c) <= S fuel)%nat -> dec_cmd fuel c (b' ++ r) = Ok (v, r).
Proof. exact canon_cmd_anyorder. Qed.

(* every shipped layout that has tagged fields at all is in that class (all optionals present / all absent) *)
Theorem C13_shipped_layouts_in_anyorder_class :
  forallb (fun s => in_anyorder true s || no_tagged s) structs = true /\
  forallb (fun s => in_anyorder false s || no_tagged s) structs = true.
Proof. exact shipped_anyorder. Qed.

(* a tag occurring twice is rejected as a duplicate naming that tag *)
Theorem C13_duplicate_rejected : forall D fs ps gs d after,
  untagged fs = map (fun x => fst (fst x)) ps ->
  pos_ok D ps (gbytes gs ++ g_bytes d ++ after) ->
  Forall (group_strict D fs) gs -> NoDup (map g_tag gs) -> group_strict D fs d ->
  In (g_tag d) (map g_tag gs) ->
  dec_struct_with D fs (concat (map snd ps) ++ gbytes gs ++ g_bytes d ++ after) = Err (DuplicateTag (g_tag d)).
Proof. exact duplicate_rejected. Qed.

(* if mandatory tagged fields are absent the error names all of them *)
Theorem C13_missing_all_named : forall D fs ps gs tail,
  untagged fs = map (fun x => fst (fst x)) ps ->
  pos_ok D ps (gbytes gs ++ tail) ->
  Forall (group_ok D fs) gs -> NoDup (map g_tag gs) -> tail_ok fs tail ->
  let missing := filter (fun t => negb (existsb (N.eqb t) (map g_tag gs))) (required_tags fs) in
  missing <> [] ->
  dec_struct_with D fs (concat (map snd ps) ++ gbytes gs ++ tail) =
    Err (MissingRequiredTags (sort_N (dedup missing))).
Proof. exact missing_all_named. Qed.

(* ... and for the class, every layout and every value of it: a second copy of ANY present tagged group, appended behind the
   groups and followed by anything, is rejected as a duplicate naming that group's tag (layouts without a repeated tagged field:
   there a second occurrence of the tag is more elements, by the wire format) *)
Theorem C13_duplicate_rejected_for_the_class : forall fs v pl, canon_anyorder fs v = Some pl -> no_tagged_vec fs = true ->
  exists vs (pos : bytes) (gs : list group), v = VRec vs /\ pl = pos ++ gbytes gs /\
    forall d after fuel, In d gs -> (depth_fields fs <= S fuel)%nat ->
      dec_struct_with (dec fuel) fs (pos ++ gbytes gs ++ g_bytes d ++ after) = Err (DuplicateTag (g_tag d)).
Proof. exact canon_duplicate_rejected. Qed.

(* ... and removing ANY subset of the tagged groups of a value of the class: if a mandatory field is then absent, the error names
   exactly the mandatory tags that are absent, all of them (sorted, without repetition) *)
Theorem C13_missing_all_named_for_the_class : forall fs v pl, canon_anyorder fs v = Some pl ->
  exists vs (pos : bytes) (gs : list group), v = VRec vs /\ pl = pos ++ gbytes gs /\
    forall (keep : group -> bool) fuel, (depth_fields fs <= S fuel)%nat ->
      let gs' := filter keep gs in
      let missing := filter (fun t => negb (existsb (N.eqb t) (map g_tag gs'))) (required_tags fs) in
      missing <> nil ->
      dec_struct_with (dec fuel) fs (pos ++ gbytes gs') = Err (MissingRequiredTags (sort_N (dedup missing))).
Proof. exact canon_missing_named. Qed.

(* a tag the packet type does not know ends the loop: with tail = u ++ junk, the three theorems above
   (whose only demand on the tail is tail_ok) give exactly the value of the preceding groups and hand
   u ++ junk back untouched *)
Theorem C13_unknown_tag_is_a_tail : forall fs u junk rest,
  tag_dec false (u ++ junk) = Ok rest -> find_tagged fs (fst rest) 0 = None -> tail_ok fs (u ++ junk).
Proof. exact unknown_tag_prefix. Qed.

(* non-vacuity: the group hypotheses hold for a date bitmap (the layout SetTimeAndDate has today; written out here,
   the shipped table is C03's business) *)
Definition ex_time_and_date : list field :=
  [Fld "date" (Some 170) (LFixed 3) EBcd (TPrim (PInt 8)); Fld "time" (Some 12) (LFixed 3) EBcd (TPrim (PInt 8))].
Example C13_ex_group : exists g,
  group_strict (dec FUEL) ex_time_and_date {| g_idx := 0; g_tag := 170; g_val := VInt 231005; g_bytes := g |}
  /\ g = [170; 35; 16; 5].
Proof.
  destruct (bcd_fixed_field_exact 3 8 (Some 170) 231005) as [g [He Hd]].
  - left. lia.
  - reflexivity.
  - reflexivity.
  - reflexivity.
  - exists g. assert (Hg : g = [170; 35; 16; 5]) by (vm_compute in He; congruence). split; [|exact Hg].
    exists "date"%string, (LFixed 3), EBcd, (TPrim (PInt 8)). cbn [g_tag g_idx g_val g_bytes].
    split; [reflexivity|]. split.
    + intros r. rewrite Hg. eexists. reflexivity.
    + intros r. apply (Hd 63%nat r).
Qed.
Example C13_ex_swapped_order :
  dec_cmd FUEL {| c_class := 4; c_instr := 1; c_fields := ex_time_and_date |}
          [4; 1; 8; 12; 18; 52; 86; 170; 35; 16; 5] = Ok (VRec [VInt 231005; VInt 123456], []).
Proof. vm_compute. reflexivity. Qed.

(* OPEN KNOWN FINDING (DESIGN 16.2, known_findings.json): the last sentence of the property is REFUTED for a tag standing inside a
   nested container when its number is a field of the enclosing struct not seen so far: the unread rest of the container is
   decoded as that field (amount = 123) where the bytes preceding the tag carry no amount; a tag no level knows is harmless *)
(* the mechanism, for EVERY length style, tag and inner decoder (that hands back a tail of its input): what a framed element
   hands back is what its decoder left UNREAD of the element, followed by what stands behind the element — the unread rest is not
   skipped.  For a value read completely (every canonical value) that is just what stands behind it; for a container whose loop
   stopped at a tag it does not know it is that tag and the rest of the container, which the enclosing loop then reads *)
Theorem C13_remainder_rule : forall (A : Type) ls big tag (k : bytes -> res (A * bytes)) bs v r,
  (forall inp x rem, k inp = Ok (x, rem) -> exists used, inp = used ++ rem) ->
  framed_dec ls big tag k bs = Ok (v, r) ->
  exists hdr element behind unread,
    bs = hdr ++ element ++ behind /\ k element = Ok (v, unread) /\ r = unread ++ behind.
Proof. exact @remainder_rule. Qed.

Theorem C13_refuted_for_nested_collision :
  dec_struct FUEL nf_outer [6; 7; 4; 0; 0; 0; 0; 1; 35] = Ok (VRec [VSome (VInt 123); VSome (VRec [VNone])], [])
  /\ dec_struct FUEL nf_outer [6; 0] = Ok (VRec [VNone; VSome (VRec [VNone])], []).
Proof. exact nested_collision_witness. Qed.
Theorem C13_refuted_on_status_information :
  exists v, fst (match run_dec "zvt::packets::StatusInformation" [4; 15; 11; 39; 0; 6; 7; 4; 0; 0; 0; 0; 1; 35] with
                 | Some x => x | None => (Err NonImplemented, Err NonImplemented) end) = Ok (v, [])
            /\ field_of "zvt::packets::StatusInformation" v 4 = Some (VSome (VInt 123)).
Proof. exact nested_collision_status_information. Qed.
Theorem C13_nested_foreign_tag_no_level_knows :
  dec_struct FUEL nf_outer [6; 7; 9; 0; 0; 0; 0; 1; 35] = Ok (VRec [VNone; VSome (VRec [VNone])], [9; 0; 0; 0; 0; 1; 35]).
Proof. exact nested_foreign_harmless. Qed.

Print Assumptions C13_perm_invariant.
Print Assumptions C13_duplicate_rejected_for_the_class.
Print Assumptions C13_missing_all_named_for_the_class.
Print Assumptions C13_any_order_for_the_class.
Print Assumptions C13_any_order_commands.
Print Assumptions C13_shipped_layouts_in_anyorder_class.
Print Assumptions C13_duplicate_rejected.
Print Assumptions C13_missing_all_named.
Print Assumptions C13_unknown_tag_is_a_tail.
Print Assumptions C13_refuted_for_nested_collision.
Print Assumptions C13_refuted_on_status_information.
Print Assumptions C13_nested_foreign_tag_no_level_knows.
Print Assumptions C13_remainder_rule.
