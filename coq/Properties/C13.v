(* C13 — tagged fields: any order accepted, duplicates and missing fields reported.  Statements only.
   The theorems are about the decode function the derive macro generates (Codec.dec_struct_with),
   for EVERY field list fs and every field decoder D; the per-group hypotheses (group_ok: the group
   starts with its tag, the tag dispatches to its field, the field decoder reads the group back
   leaving what follows) are exactly what the C01 field lemmas provide — the Example below discharges
   them for a shipped packet. *)
From Zvt Require Import Base Length Cp437 Encoding EncodingProps Codec Lookup CodecRoundtrip CodecTags CodecFields.
From Zvt.gen Require Import Layouts Tables.
From Coq Require Import Permutation.
Open Scope N_scope.

(* tagged fields may arrive in any order and decode to the same value *)
Theorem C13_perm_invariant : forall D fs ps gs gs' tail,
  Permutation gs gs' ->
  untagged fs = map (fun x => fst (fst x)) ps ->
  pos_ok D ps (gbytes gs' ++ tail) ->
  Forall (group_ok D fs) gs -> NoDup (map g_tag gs) -> NoDup (map g_idx gs) -> tail_ok fs tail ->
  all_required_present fs gs ->
  dec_struct_with D fs (concat (map snd ps) ++ gbytes gs' ++ tail) =
    Ok (VRec (apply_groups (init_slots fs (map (fun x => snd (fst x)) ps)) gs), tail).
Proof. exact perm_invariant. Qed.

(* a tag occurring twice is rejected as a duplicate naming that tag *)
Theorem C13_duplicate_rejected : forall D fs ps gs d after,
  untagged fs = map (fun x => fst (fst x)) ps ->
  pos_ok D ps (gbytes gs ++ g_bytes d ++ after) ->
  Forall (group_strict D fs) gs -> NoDup (map g_tag gs) -> group_strict D fs d ->
  In (g_tag d) (map g_tag gs) ->
  dec_struct_with D fs (concat (map snd ps) ++ gbytes gs ++ g_bytes d ++ after) = Err (DuplicateTag (g_tag d)).
Proof. exact duplicate_rejected. Qed.

(* if mandatory tagged fields are absent the error names all of them *)
Theorem C13_missing_all_named : forall D fs ps gs tail,
  untagged fs = map (fun x => fst (fst x)) ps ->
  pos_ok D ps (gbytes gs ++ tail) ->
  Forall (group_ok D fs) gs -> NoDup (map g_tag gs) -> tail_ok fs tail ->
  let missing := filter (fun t => negb (existsb (N.eqb t) (map g_tag gs))) (required_tags fs) in
  missing <> [] ->
  dec_struct_with D fs (concat (map snd ps) ++ gbytes gs ++ tail) =
    Err (MissingRequiredTags (sort_N (dedup missing))).
Proof. exact missing_all_named. Qed.

(* a tag the packet type does not know ends the loop: with tail = u ++ junk, the three theorems above
   (whose only demand on the tail is tail_ok) give exactly the value of the preceding groups and hand
   u ++ junk back untouched *)
Theorem C13_unknown_tag_is_a_tail : forall fs u junk rest,
  tag_dec false (u ++ junk) = Ok rest -> find_tagged fs (fst rest) 0 = None -> tail_ok fs (u ++ junk).
Proof. exact unknown_tag_prefix. Qed.

(* non-vacuity: the group hypotheses hold for the date bitmap of the shipped SetTimeAndDate packet *)
Example C13_ex_group : exists g,
  group_strict (dec FUEL) S_zvt_packets_SetTimeAndDate {| g_idx := 0; g_tag := 170; g_val := VInt 231005; g_bytes := g |}
  /\ g = [170; 35; 16; 5].
Proof.
  destruct (bcd_fixed_field_exact 3 8 (Some 170) 231005) as [g [He Hd]].
  - left. lia.
  - reflexivity.
  - reflexivity.
  - reflexivity.
  - exists g. assert (Hg : g = [170; 35; 16; 5]) by (vm_compute in He; congruence). split; [|exact Hg].
    exists "date"%string, (LFixed 3), EBcd, (TPrim (PInt 8)). cbn [g_tag g_idx g_val g_bytes].
    split; [reflexivity|]. split.
    + intros r. rewrite Hg. eexists. reflexivity.
    + intros r. apply (Hd 63%nat r).
Qed.
Example C13_ex_swapped_order :
  dec_cmd FUEL {| c_class := 4; c_instr := 1; c_fields := S_zvt_packets_SetTimeAndDate |}
          [4; 1; 8; 12; 18; 52; 86; 170; 35; 16; 5] = Ok (VRec [VInt 231005; VInt 123456], []).
Proof. vm_compute. reflexivity. Qed.

Print Assumptions C13_perm_invariant.
Print Assumptions C13_duplicate_rejected.
Print Assumptions C13_missing_all_named.
Print Assumptions C13_unknown_tag_is_a_tail.
