(* C01 — every packet value survives serialise -> deserialise unchanged.  Statements only.
   The full statement: for EVERY layout (any list of fields over the attribute grammar, shipped or not)
   and EVERY value, if the pair lies in the decidable class `canon` (CanonClass.v: the class makes the
   DESIGN 5.1/5.2 conditions executable), then serialising gives exactly the bytes `canon` computes and
   deserialising those bytes gives back exactly the value, with nothing left — and, for commands,
   whatever follows the APDU is handed back untouched.  Leaf families (all integers of a width, all BCD
   numbers of a digit count, all CP437 / hex strings, ...) are shown to be inside the class for all
   their values; every shipped layout is shown to be inside the class with all optionals present and
   with all optionals absent (regenerated tables, re-checked each run).
   UTF-8 text and date-times are families too (Utf8Props.v, DateTimeProps.v). *)
From Zvt Require Import Base Length LengthProps Cp437 Encoding EncodingProps Codec CodecFrame CodecRoundtrip
  CodecTags CodecFields CodecCanon CanonClass CanonRoundtrip CanonRun CanonShipped Lookup LegacyCodec.
Open Scope N_scope.

(* commands (packets with a control field) *)
Theorem C01_roundtrip_commands : forall c v b, canon_cmd c v = Some b ->
  enc_cmd c v = Ok b /\
  forall fuel r, (depth_fields (c_fields c) <= S fuel)%nat -> dec_cmd fuel c (b ++ r) = Ok (v, r).
Proof. exact canon_cmd_roundtrip. Qed.

(* TLV containers and other structs without a control field *)
Theorem C01_roundtrip_containers : forall fs v g, canon_struct fs v = Some g ->
  enc_struct fs v = Ok g /\
  forall fuel, (depth_fields fs <= S fuel)%nat -> dec_plain fuel fs g = Ok (v, []).
Proof. exact canon_struct_roundtrip. Qed.

(* one field of any type at any nesting depth, in its context: ctx = Some r when the following bytes
   are known, None when anything may follow *)
Theorem C01_roundtrip_any_field : forall ls e t tag v ctx g, canon ls e t tag v ctx = Some g ->
  enc ls e t tag v = Ok g /\
  (forall fuel r, (depth t <= fuel)%nat -> fits ctx r -> (needs_next t = true -> nextok tag r) ->
     tag = None \/ g <> [] -> dec fuel ls e t tag (g ++ r) = Ok (v, r)) /\
  (forall tg, tag = Some tg ->
     (g = [] -> v = default_value t /\ is_optional t = true) /\
     (g <> [] -> forall r, exists rest, tag_dec false (g ++ r) = Ok (tg, rest))).
Proof. exact canon_exact. Qed.

(* the class contains whole value families *)
Theorem C01_class_all_integers : forall (big : bool) ls w tag n ctx,
  delimiting ls = true -> len_fits ls w = true -> tag_ok_b tag = true -> n < 256 ^ w ->
  exists g, canon ls (if big then EBigEndian else EDefault) (TPrim (PInt w)) tag (VInt n) ctx = Some g.
Proof. exact class_int. Qed.
Theorem C01_class_all_integers_without_length : forall (big : bool) w tag n ctx, tag_ok_b tag = true -> n < 256 ^ w ->
  exists g, canon LEmpty (if big then EBigEndian else EDefault) (TPrim (PInt w)) tag (VInt n) ctx = Some g.
Proof. exact class_int_nolen. Qed.
Theorem C01_class_all_bcd_numbers : forall k w tag n ctx,
  tag_ok_b tag = true -> n < 100 ^ k -> n < 2 ^ (8 * w) -> n < 2 ^ 64 ->
  exists g, canon (LFixed k) EBcd (TPrim (PInt w)) tag (VInt n) ctx = Some g.
Proof. exact class_bcd_fixed. Qed.
Theorem C01_class_all_cp437_text : forall ls tag s pl ctx,
  delimiting ls = true -> len_fits ls (blen pl) = true -> tag_ok_b tag = true ->
  cp437_enc s = Ok pl -> (forall q x, s = q ++ [x] -> x <> 0) ->
  exists g, canon ls EDefault (TPrim PString) tag (VStr s) ctx = Some g.
Proof. exact class_cp437. Qed.
Theorem C01_class_all_cp437_text_in_fixed_fields : forall k tag s pl ctx, tag_ok_b tag = true ->
  cp437_enc s = Ok pl -> (forall q x, s = q ++ [x] -> x <> 0) -> blen pl <= k ->
  exists g, canon (LFixed k) EDefault (TPrim PString) tag (VStr s) ctx = Some g.
Proof. exact class_cp437_fixed. Qed.
(* the finding F9: before the repair such text was padded in front and came back altered; now it is padded where the decoder trims *)
Theorem C01_F9_refuted_then_repaired :
  cp437_dec (legacy_fixed_text 8 [55; 53; 48; 48; 55; 49]) = [0; 0; 55; 53; 48; 48; 55; 49] /\
  (framed_enc_p (LFixed 8) PString (Some 59) [55; 53; 48; 48; 55; 49] = Ok [59; 55; 53; 48; 48; 55; 49; 0; 0]
   /\ cp437_dec [55; 53; 48; 48; 55; 49; 0; 0] = [55; 53; 48; 48; 55; 49]).
Proof. exact F9_both. Qed.
Theorem C01_class_all_hex_text : forall ls tag n s ctx,
  delimiting ls = true -> len_fits ls (N.of_nat n) = true -> tag_ok_b tag = true ->
  length s = (2 * n)%nat -> Forall lower_hex s ->
  exists g, canon ls EHex (TPrim PString) tag (VStr s) ctx = Some g.
Proof. exact class_hex. Qed.

Theorem C01_class_all_utf8_text : forall ls tag s ctx,
  delimiting ls = true -> tag_ok_b tag = true -> forallb scalar_ok s = true ->
  (forall bs, utf8_enc s = Ok bs -> len_fits ls (blen bs) = true) ->
  exists g, canon ls EUtf8 (TPrim PString) tag (VStr s) ctx = Some g.
Proof. exact class_utf8. Qed.
Theorem C01_class_all_date_times : forall tag (y : Z) mo d h mi s ctx, tag_ok_b tag = true ->
  (0 <= y)%Z -> ymd_ok y mo d = true -> hms_ok h mi s = true ->
  exists g, canon LTlv EDefault (TPrim PDateTime) tag (VDate y mo d h mi s) ctx = Some g.
Proof. exact class_datetime. Qed.

Theorem C01_class_all_receipt_numbers : forall tag n ctx, tag_ok_b tag = true -> n < 10000 \/ n = 65535 ->
  exists g, canon (LFixed 2) EReceiptNo (TPrim (PInt 8)) tag (VInt n) ctx = Some g.
Proof. exact class_receipt_no. Qed.

(* every shipped packet / container, all optionals present and all optionals absent, is in the class *)
Theorem C01_shipped_layouts_in_class : outside true = [] /\ outside false = [].
Proof. exact shipped_in_class. Qed.

(* non-vacuity on a shipped packet: an Authorization with amount 10.00, currency 978, payment type 0x40 and
   the additional text "Hi" is in the class (the bytes themselves are C03's business, not C01's) *)
Example C01_ex_authorization :
  let v := VRec [VSome (VInt 1000); VSome (VInt 978); VSome (VInt 64); VNone; VNone; VNone; VNone; VNone; VNone;
                 VSome (VStr [72; 105]); VNone; VNone] in
  match run_enc "zvt::packets::Authorization" v with
  | Some (Ok b) => run_canon "zvt::packets::Authorization" b = Some 1 /\ (10 <= length b)%nat
  | _ => False
  end.
Proof. vm_compute. split; [reflexivity|]. repeat constructor. Qed.

(* one <tag><length><data> frame, for every delimiting length style, every representable tag, every
   inner codec: what the inner decoder reads back completely, the frame reads back completely, and
   whatever follows the frame is handed back untouched *)
Theorem C01_frame_roundtrip : forall (A : Type) ls big tag (k : bytes -> res (A * bytes)) p v r,
  delimiting ls = true -> len_fits ls (blen p) = true -> tag_ok big tag ->
  k p = Ok (v, []) ->
  exists g, framed_enc ls big tag p = Ok g /\ framed_dec ls big tag k (g ++ r) = Ok (v, r).
Proof. exact @framed_roundtrip. Qed.

Example C01_ex_frame : framed_enc (LLlv 2) false (Some 35) [18; 52] = Ok [35; 240; 242; 18; 52]
  /\ framed_dec (LLlv 2) false (Some 35) (prim_dec EHex PString) [35; 240; 242; 18; 52; 9]
     = Ok (VStr [49; 50; 51; 52], [9]).
Proof. split; vm_compute; reflexivity. Qed.

Print Assumptions C01_roundtrip_commands.
Print Assumptions C01_roundtrip_containers.
Print Assumptions C01_roundtrip_any_field.
Print Assumptions C01_class_all_integers.
Print Assumptions C01_class_all_cp437_text_in_fixed_fields.
Print Assumptions C01_F9_refuted_then_repaired.
Print Assumptions C01_class_all_integers_without_length.
Print Assumptions C01_class_all_bcd_numbers.
Print Assumptions C01_class_all_cp437_text.
Print Assumptions C01_class_all_hex_text.
Print Assumptions C01_class_all_utf8_text.
Print Assumptions C01_class_all_date_times.
Print Assumptions C01_class_all_receipt_numbers.
Print Assumptions C01_shipped_layouts_in_class.
Print Assumptions C01_frame_roundtrip.
