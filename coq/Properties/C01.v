(* C01 — every packet value survives serialise -> deserialise unchanged.  Statements only.
   Status: the frame-level theorem is general; the lift to every well-formed layout and every
   canonical value (DESIGN 6, C01: roundtrip_struct) is stated in CodecRoundtrip.v as it is completed —
   theorems named *_partial say what is still missing. *)
From Zvt Require Import Base Length LengthProps Cp437 Encoding EncodingProps Codec CodecFrame CodecRoundtrip.
Open Scope N_scope.

(* one <tag><length><data> frame, for every delimiting length style, every representable tag, every
   inner codec: what the inner decoder reads back completely, the frame reads back completely, and
   whatever follows the frame is handed back untouched *)
Theorem C01_frame_roundtrip_partial : forall (A : Type) ls big tag (k : bytes -> res (A * bytes)) p v r,
  delimiting ls = true -> len_fits ls (blen p) = true -> tag_ok big tag ->
  k p = Ok (v, []) ->
  exists g, framed_enc ls big tag p = Ok g /\ framed_dec ls big tag k (g ++ r) = Ok (v, r).
Proof. exact @framed_roundtrip. Qed.

Example C01_ex_frame : framed_enc (LLlv 2) false (Some 35) [18; 52] = Ok [35; 240; 242; 18; 52]
  /\ framed_dec (LLlv 2) false (Some 35) (prim_dec EHex PString) [35; 240; 242; 18; 52; 9]
     = Ok (VStr [49; 50; 51; 52], [9]).
Proof. split; vm_compute; reflexivity. Qed.

Print Assumptions C01_frame_roundtrip_partial.
