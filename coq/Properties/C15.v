(* C15 — replies are dispatched solely by their class and instruction bytes.  Statements only. *)
From Zvt Require Import Base Length Cp437 Encoding Codec Lookup EnumProps SpecCheck.
From Zvt Require Import CanonClass CanonRoundtrip CanonShipped.
From Zvt.gen Require Import Layouts Tables.
Open Scope N_scope.

(* a variant is returned only for that variant's control field, with exactly the content the
   variant's packet type decodes on its own *)
Theorem C15_dispatch_sound : forall fuel vs bs j v, parse_enum fuel vs bs = Ok (j, v) ->
  exists b0 b1 rest nm c, bs = b0 :: b1 :: rest /\ nth_error vs (N.to_nat j) = Some (nm, c) /\
    c_class c = b0 /\ c_instr c = b1 /\ exists r, dec_cmd fuel c bs = Ok (v, r).
Proof. exact dispatch_sound. Qed.

(* conversely the parser's answer for a variant's control field is that packet type's own answer *)
Theorem C15_dispatch_complete : forall fuel vs b0 b1 rest k nm c,
  nodup_cf (map v_cf vs) = true ->
  nth_error vs k = Some (nm, c) -> c_class c = b0 -> c_instr c = b1 ->
  parse_enum fuel vs (b0 :: b1 :: rest) =
    (let* (v, _) := dec_cmd fuel c (b0 :: b1 :: rest) in Ok (N.of_nat k, v)).
Proof. exact dispatch_complete. Qed.

Theorem C15_outside_is_error : forall fuel vs b0 b1 rest,
  (forall v, In v vs -> v_cf v <> (b0, b1)) ->
  parse_enum fuel vs (b0 :: b1 :: rest) = Err (WrongTag 0).
Proof. exact outside_is_error. Qed.

Theorem C15_short_is_error : forall fuel vs bs, (length bs < 2)%nat -> parse_enum fuel vs bs = Err IncompleteData.
Proof. exact short_is_error. Qed.

(* the regenerated enums: control fields pairwise distinct (hypothesis of dispatch_complete) ... *)
Theorem C15_shipped_nodup : forall name vs, In (name, vs) enums -> nodup_cf (map v_cf vs) = true.
Proof. exact shipped_enum_nodup. Qed.

(* ... and every command's reply enum is exactly the reply set of the specification table *)
Theorem C15_reply_sets_agree_with_spec : sequences_ok = true.
Proof. exact sequences_agree_with_spec. Qed.

Theorem C15_upload_and_ack_agree_with_spec : upload_ok && ack_ok = true.
Proof. exact upload_and_ack_agree_with_spec. Qed.

Example C15_ex : (17 <= length enums)%nat /\ find_enum "zvt::io::Ack" <> None.
Proof. split; [vm_compute; lia|vm_compute; discriminate]. Qed.

(* together with C01: what ANY variant's packet type serialises (every value of the class `canon`), the reply parser reads back as
   exactly that variant with exactly that content — for every enum with pairwise distinct one-byte class / instruction pairs ... *)
Theorem C15_reply_roundtrip : forall fuel vs k nm c v b,
  nodup_cf (map v_cf vs) = true -> nth_error vs k = Some (nm, c) ->
  c_class c < 256 -> c_instr c < 256 -> (depth_fields (c_fields c) <= S fuel)%nat ->
  canon_cmd c v = Some b ->
  enc_cmd c v = Ok b /\ parse_enum fuel vs b = Ok (N.of_nat k, v).
Proof. exact reply_roundtrip. Qed.
(* ... and for every shipped reply parser (regenerated tables) *)
Theorem C15_shipped_reply_roundtrip : forall name vs k nm c v b,
  In (name, vs) enums -> nth_error vs k = Some (nm, c) -> canon_cmd c v = Some b ->
  enc_cmd c v = Ok b /\ parse_enum FUEL vs b = Ok (N.of_nat k, v).
Proof. exact shipped_reply_roundtrip. Qed.

Print Assumptions C15_reply_roundtrip.
Print Assumptions C15_shipped_reply_roundtrip.
Print Assumptions C15_dispatch_sound.
Print Assumptions C15_dispatch_complete.
Print Assumptions C15_outside_is_error.
Print Assumptions C15_short_is_error.
Print Assumptions C15_shipped_nodup.
Print Assumptions C15_reply_sets_agree_with_spec.
Print Assumptions C15_upload_and_ack_agree_with_spec.
