(* C17 — scalar, text and tag encodings round-trip over their whole domain.
   Statements only; proofs are `exact <lemma of EncodingProps>`. *)
From Zvt Require Import Base Length Cp437 Encoding EncodingProps Utf8Props DateTimeProps.
Open Scope N_scope.

(* little- and big-endian integers of every width, with arbitrary trailing data *)
Theorem C17_int_roundtrip : forall big w n r, n < 256 ^ w ->
  int_dec big w (int_enc big w n ++ r) = Ok (n, r).
Proof. exact int_roundtrip. Qed.

Theorem C17_int_short_is_error : forall big w q, blen q < w -> int_dec big w q = Err IncompleteData.
Proof. exact int_dec_short. Qed.

(* packed BCD: digits 0-9 only, most significant first (positional value), no leading zero byte,
   0 is the empty string; the decoder inverts it in every integer width that holds n *)
Theorem C17_bcd_roundtrip : forall w n, n < 2 ^ (8 * w) -> n < 2 ^ 64 ->
  exists bs, bcd_enc n = Ok bs /\ Forall digit_byte bs /\ bcd_acc bs 0 = n /\
             (n <> 0 -> exists b t, bs = b :: t /\ b <> 0) /\ (n = 0 -> bs = []) /\
             bcd_dec w bs = Ok (n, []).
Proof. exact bcd_roundtrip. Qed.

(* the decoder is exactly the positional reading when it fits the target integer and an error
   otherwise: never a wrapped value *)
Theorem C17_bcd_decoder_exact : forall w bs,
  bcd_dec w bs = if bcd_acc bs 0 <? 2 ^ (8 * w) then Ok (bcd_acc bs 0, []) else Err IncompleteData.
Proof. exact bcd_dec_spec. Qed.

Theorem C17_bcd_overflow_is_error : forall w bs, 2 ^ (8 * w) <= bcd_acc bs 0 -> bcd_dec w bs = Err IncompleteData.
Proof. exact bcd_overflow_is_error. Qed.

(* F-padded odd-length input is accepted: a final byte dF contributes the single digit d *)
Theorem C17_bcd_f_padding : forall bs hi rv, bcd_acc (bs ++ [hi * 16 + 15]) rv = bcd_acc bs rv * 10 + hi.
Proof. exact bcd_f_padding. Qed.

(* BMP/TLV tag numbers: exactly the representable ones round-trip *)
Theorem C17_tag_roundtrip : forall t r,
  (t < 256 /\ t <> 31 /\ t <> 255) \/ ((t / 256 = 31 \/ t / 256 = 255) /\ t < 65536) ->
  tag_dec false (tag_enc false t ++ r) = Ok (t, r).
Proof. exact tag_roundtrip. Qed.

Theorem C17_tag_repr_exact : forall t, t < 65536 -> ~ tag_repr t -> tag_dec false (tag_enc false t) <> Ok (t, []).
Proof. exact tag_repr_exact. Qed.

Theorem C17_tag_be_roundtrip : forall t r, t < 65536 -> tag_dec true (tag_enc true t ++ r) = Ok (t, r).
Proof. exact tag_be_roundtrip. Qed.

(* hex: every byte string and every even-length lower-case hex string *)
Theorem C17_hex_roundtrip : forall bs, bytes_ok bs -> bytes_of_hex (hex_of_bytes bs) = Ok bs.
Proof. exact hex_roundtrip. Qed.

Theorem C17_hex_roundtrip_str : forall n s, length s = (2 * n)%nat -> Forall lower_hex s ->
  exists bs, bytes_of_hex s = Ok bs /\ bytes_ok bs /\ hex_of_bytes bs = s.
Proof. exact hex_roundtrip_str. Qed.

(* CP437: every byte (the table is a bijection onto its 256 characters), every byte string not
   ending in NUL, every string of table characters not ending in NUL *)
Theorem C17_cp437_byte : forall b, b < 256 -> byte_of_cp437 (cp437_of_byte b) = Some b.
Proof. exact cp437_byte_roundtrip. Qed.

Theorem C17_cp437_roundtrip : forall bs, bytes_ok bs -> (forall p x, bs = p ++ [x] -> x <> 0) ->
  cp437_enc (cp437_dec bs) = Ok bs.
Proof. exact cp437_roundtrip. Qed.

Theorem C17_cp437_str_roundtrip : forall s bs, cp437_enc s = Ok bs -> (forall p x, s = p ++ [x] -> x <> 0) ->
  cp437_dec bs = s.
Proof. exact cp437_str_roundtrip. Qed.

Theorem C17_receipt_sentinel : forall r, prim_dec EReceiptNo (PInt 8) (255 :: 255 :: r) = Ok (VInt 65535, r)
  /\ prim_enc EReceiptNo (PInt 8) (VInt 65535) = Ok [255; 255].
Proof. exact receipt_sentinel. Qed.

(* non-vacuity *)
Example C17_ex_bcd : bcd_enc 1234567 = Ok [1; 35; 69; 103] /\ bcd_dec 4 [1; 35; 69; 103] = Ok (1234567, [])
  /\ bcd_dec 1 [153; 153] = Err IncompleteData /\ bcd_dec 2 [18; 63] = Ok (123, []).
Proof. repeat split; vm_compute; reflexivity. Qed.
Example C17_ex_tag : tag_enc false 7950 = [31; 14] /\ tag_dec false [31; 14; 9] = Ok (7950, [9])
  /\ tag_enc false 76 = [76] /\ tag_repr 65345 /\ ~ tag_repr 31 /\ ~ tag_repr 4660.
Proof.
  unfold tag_repr. split; [reflexivity|]. split; [reflexivity|]. split; [reflexivity|].
  split; [right; split; [right; reflexivity|reflexivity]|].
  split; [intros [[_ [H _]]|[[H|H] _]]; [congruence|discriminate H|discriminate H]|].
  intros [[H _]|[[H|H] _]]; [discriminate H|discriminate H|discriminate H].
Qed.
Example C17_ex_cp437 : cp437_dec [65; 225; 0; 0] = [65; 223] /\ cp437_enc [65; 223] = Ok [65; 225].
Proof. split; reflexivity. Qed.

(* UTF-8: every Rust string (every list of Unicode scalar values) encodes, and decodes back to itself *)
Theorem C17_utf8_roundtrip : forall s, forallb scalar_ok s = true ->
  exists bs, utf8_enc s = Ok bs /\ utf8_dec bs = Some s.
Proof. exact utf8_roundtrip. Qed.

(* date-time TLV: every calendar date-time with a year 0..9999 (leap years, month lengths, 00:00:00..23:59:59) *)
Theorem C17_datetime_roundtrip : forall (y : Z) (mo d h mi s : N),
  (0 <= y)%Z -> ymd_ok y mo d = true -> hms_ok h mi s = true ->
  exists bs, datetime_enc y mo d h mi s = Ok bs /\ datetime_dec bs = Ok (VDate y mo d h mi s, []) /\ blen bs <= 14.
Proof. exact datetime_roundtrip. Qed.

Example C17_ex_leap_day : exists bs, datetime_enc 2024 2 29 23 59 58 = Ok bs /\
  bs = [31; 14; 4; 32; 36; 2; 41; 31; 15; 3; 35; 89; 88] /\ datetime_dec bs = Ok (VDate 2024 2 29 23 59 58, []).
Proof. eexists. split; [vm_compute; reflexivity|]. split; [reflexivity|vm_compute; reflexivity]. Qed.
Example C17_ex_utf8 : utf8_enc [233; 8364; 128512] = Ok [195; 169; 226; 130; 172; 240; 159; 152; 128]
  /\ utf8_dec [195; 169; 226; 130; 172; 240; 159; 152; 128] = Some [233; 8364; 128512].
Proof. split; vm_compute; reflexivity. Qed.

Print Assumptions C17_utf8_roundtrip.
Print Assumptions C17_datetime_roundtrip.
Print Assumptions C17_int_roundtrip.
Print Assumptions C17_int_short_is_error.
Print Assumptions C17_bcd_roundtrip.
Print Assumptions C17_bcd_decoder_exact.
Print Assumptions C17_bcd_overflow_is_error.
Print Assumptions C17_bcd_f_padding.
Print Assumptions C17_tag_roundtrip.
Print Assumptions C17_tag_repr_exact.
Print Assumptions C17_tag_be_roundtrip.
Print Assumptions C17_hex_roundtrip.
Print Assumptions C17_hex_roundtrip_str.
Print Assumptions C17_cp437_byte.
Print Assumptions C17_cp437_roundtrip.
Print Assumptions C17_cp437_str_roundtrip.
Print Assumptions C17_receipt_sentinel.
