(* C16 — every length-prefix style is an exact, shortest-form bijection on its range.
   This file contains only statements; every proof is `exact <lemma of LengthProps>`. *)
From Zvt Require Import Base Length LengthProps.
Open Scope N_scope.

(* BER-TLV, 0..65535: one, two or three bytes switching at 128 and 256; parse (prefix ++ data) = (n, data) *)
Theorem C16_tlv_roundtrip : forall n, n <= 65535 ->
  exists p, len_ser LTlv n = Ok p /\ bytes_ok p /\
            blen p = (if n <=? 127 then 1 else if n <=? 255 then 2 else 3) /\
            forall r, len_de LTlv (p ++ r) = Ok (n, r).
Proof. exact tlv_roundtrip. Qed.

Theorem C16_tlv_injective : forall n m p, len_ser LTlv n = Ok p -> len_ser LTlv m = Ok p -> n = m.
Proof. exact tlv_injective. Qed.

(* shortest form: anything the parser accepts for n is at least as long as what the writer emits for n *)
Theorem C16_tlv_shortest : forall bs n r, bytes_ok bs -> len_de LTlv bs = Ok (n, r) ->
  n <= 65535 /\ exists q, bs = q ++ r /\ (if n <=? 127 then 1 else if n <=? 255 then 2 else 3) <= blen q.
Proof. exact tlv_shortest. Qed.

Theorem C16_tlv_truncated : forall n p q, len_ser LTlv n = Ok p -> strict_prefix q p ->
  len_de LTlv q = Err IncompleteData.
Proof. exact tlv_truncated. Qed.

Theorem C16_tlv_out_of_range : forall n, 65535 < n -> len_ser LTlv n = Panic.
Proof. exact tlv_ser_panics. Qed.

(* APDU, 0..65535: one byte below 255, FF lo hi from 255 *)
Theorem C16_adpu_roundtrip : forall n, n <= 65535 ->
  exists p, len_ser LAdpu n = Ok p /\ bytes_ok p /\
            blen p = (if n <? 255 then 1 else 3) /\
            forall r, len_de LAdpu (p ++ r) = Ok (n, r).
Proof. exact adpu_roundtrip. Qed.

Theorem C16_adpu_injective : forall n m p, n <= 65535 -> m <= 65535 ->
  len_ser LAdpu n = Ok p -> len_ser LAdpu m = Ok p -> n = m.
Proof. exact adpu_injective. Qed.

Theorem C16_adpu_shortest : forall bs n r, bytes_ok bs -> len_de LAdpu bs = Ok (n, r) ->
  n <= 65535 /\ exists q, bs = q ++ r /\ (n < 255 -> 1 <= blen q) /\ (255 <= n -> blen q = 3).
Proof. exact adpu_shortest. Qed.

Theorem C16_adpu_truncated : forall n p q, len_ser LAdpu n = Ok p -> strict_prefix q p ->
  len_de LAdpu q = Err IncompleteData.
Proof. exact adpu_truncated. Qed.

(* LLVAR (d = 2, 0..99), LLLVAR (d = 3, 0..999) — and any digit count d *)
Theorem C16_llv_roundtrip : forall d n, n < 10 ^ d ->
  exists p, len_ser (LLlv d) n = Ok p /\ bytes_ok p /\ blen p = d /\
            forall r, len_de (LLlv d) (p ++ r) = Ok (n, r).
Proof. exact llv_roundtrip. Qed.

Theorem C16_llv_injective : forall d n m p, n < 10 ^ d -> m < 10 ^ d ->
  len_ser (LLlv d) n = Ok p -> len_ser (LLlv d) m = Ok p -> n = m.
Proof. exact llv_injective. Qed.

Theorem C16_llv_truncated : forall d n p q, len_ser (LLlv d) n = Ok p -> strict_prefix q p ->
  len_de (LLlv d) q = Err IncompleteData.
Proof. exact llv_truncated. Qed.

(* Fixed<n>: left padding with zeros to exactly n bytes; the reader takes exactly n *)
Theorem C16_fixed_pad : forall n p r, blen p <= n ->
  exists z, len_ser (LFixed n) (blen p) = Ok z /\ z = zeros (n - blen p) /\
            blen (z ++ p) = n /\
            len_de (LFixed n) (z ++ p ++ r) = Ok (n, z ++ p ++ r).
Proof. exact fixed_ser_de. Qed.

Theorem C16_fixed_truncated : forall n q, blen q < n -> len_de (LFixed n) q = Err IncompleteData.
Proof. exact fixed_truncated. Qed.

(* no parser of any style can panic or diverge, on any input *)
Theorem C16_parsers_total : forall ls bs, len_de ls bs <> Panic /\ len_de ls bs <> OutOfFuel.
Proof. exact len_de_no_panic. Qed.

(* non-vacuity: the hypotheses are met by concrete non-trivial lengths *)
Example C16_ex_tlv : len_ser LTlv 300 = Ok [130; 1; 44] /\ len_de LTlv [130; 1; 44; 7; 7] = Ok (300, [7; 7]).
Proof. split; reflexivity. Qed.
Example C16_ex_adpu : len_ser LAdpu 255 = Ok [255; 255; 0] /\ len_de LAdpu [255; 255; 0; 9] = Ok (255, [9]).
Proof. split; reflexivity. Qed.
Example C16_ex_lllv : len_ser (LLlv 3) 999 = Ok [249; 249; 249] /\ len_de (LLlv 3) [249; 249; 249; 1] = Ok (999, [1]).
Proof. split; reflexivity. Qed.

Print Assumptions C16_tlv_roundtrip.
Print Assumptions C16_tlv_injective.
Print Assumptions C16_tlv_shortest.
Print Assumptions C16_tlv_truncated.
Print Assumptions C16_tlv_out_of_range.
Print Assumptions C16_adpu_roundtrip.
Print Assumptions C16_adpu_injective.
Print Assumptions C16_adpu_shortest.
Print Assumptions C16_adpu_truncated.
Print Assumptions C16_llv_roundtrip.
Print Assumptions C16_llv_injective.
Print Assumptions C16_llv_truncated.
Print Assumptions C16_fixed_pad.
Print Assumptions C16_fixed_truncated.
Print Assumptions C16_parsers_total.
