(* C10 — no terminal stall or configuration value can hang a client call.  Statements only. *)
From Zvt Require Import Base Length Cp437 Encoding Codec Lookup Client ClientProps.
Open Scope N_scope.

(* the read-card timeout for EVERY configuration value: t + 2 seconds, never zero, no overflow *)
Theorem C10_read_card_timeout_ok : forall t, t < 256 ->
  (t + 2) * 1000 = t * 1000 + 2000 /\ 0 < (t + 2) * 1000 /\ t + 2 < 2 ^ 64.
Proof. exact read_card_timeout_ok. Qed.

(* one poll of any sequence under a deadline ends by the deadline wherever the terminal falls silent
   (before the acknowledgement, between any two replies): a timeout ends exactly at the deadline *)
Theorem C10_poll_ends_by_deadline : forall q id ph d w, w_now w <= d ->
  match seq_next q id ph d w with
  | NItem _ _ w' => w_now w <= w_now w' <= d
  | NEnd w' => w_now w' = w_now w
  | NTimeout w' => w_now w' = d
  end.
Proof. exact seq_next_deadline. Qed.

(* the retry loop is bounded by its budget: fuel 3 * attempts + 2 always suffices, the budget of 20
   attempts fits the fuel the client model runs with — no poll can spin for ever *)
Theorem C10_retry_budget_bounds_the_poll : forall cfg f1 f2 r w, (rmeasure r < f1)%nat -> (rmeasure r < f2)%nat ->
  retry_next f1 cfg r w = retry_next f2 cfg r w.
Proof. exact retry_fuel_irrelevant. Qed.
Theorem C10_retry_budget_fits : forall q t, (rmeasure (start_retry q t) < RFUEL)%nat.
Proof. exact retry_budget_fits. Qed.

Example C10_ex : (255 + 2) * 1000 = 257000 /\ (0 + 2) * 1000 = 2000.
Proof. split; reflexivity. Qed.

Print Assumptions C10_read_card_timeout_ok.
Print Assumptions C10_poll_ends_by_deadline.
Print Assumptions C10_retry_budget_bounds_the_poll.
Print Assumptions C10_retry_budget_fits.
