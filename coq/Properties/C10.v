(* C10 — no terminal stall or configuration value can hang a client call.  Statements only. *)
From Zvt Require Import Base Length Cp437 Encoding Codec Lookup Client ClientProps ClientLog ClientTime ClientWire.
Open Scope N_scope.

(* the read-card timeout for EVERY configuration value: t + 2 seconds, never zero, no overflow *)
Theorem C10_read_card_timeout_ok : forall t, t < 256 ->
  (t + 2) * 1000 = t * 1000 + 2000 /\ 0 < (t + 2) * 1000 /\ t + 2 < 2 ^ 64.
Proof. exact read_card_timeout_ok. Qed.

(* one poll of any sequence under a deadline ends by the deadline wherever the terminal falls silent
   (before the acknowledgement, between any two replies): a timeout ends exactly at the deadline *)
Theorem C10_poll_ends_by_deadline : forall q id ph d w, w_now w <= d ->
  match seq_next q id ph d w with
  | NItem _ _ w' => w_now w <= w_now w' <= d
  | NEnd w' => w_now w' = w_now w
  | NTimeout w' => w_now w' = d
  end.
Proof. exact seq_next_deadline. Qed.

(* the retry loop is bounded by its budget: fuel 3 * attempts + 2 always suffices, the budget of 20
   attempts fits the fuel the client model runs with — no poll can spin for ever *)
Theorem C10_retry_budget_bounds_the_poll : forall cfg f1 f2 r w, (rmeasure r < f1)%nat -> (rmeasure r < f2)%nat ->
  retry_next f1 cfg r w = retry_next f2 cfg r w.
Proof. exact retry_fuel_irrelevant. Qed.
Theorem C10_retry_budget_fits : forall q t, (rmeasure (start_retry q t) < RFUEL)%nat.
Proof. exact retry_budget_fits. Qed.

(* ELAPSED TIME.  One poll of the retrying stream, from any state: time never runs backwards, and the time
   still needed if no further reply arrives (`potential`: attempts left x (throttle + 2 x timeout), plus one
   timeout while inside an exchange) shrinks by at least the time that passed — except for one timeout per
   reply item actually received.  Wherever the terminal falls silent (connect, registration, before the
   acknowledgement, between replies), for every configuration. *)
Theorem C10_poll_elapsed : forall cfg fuel r w it r' w', retry_next fuel cfg r w = (it, r', w') -> tinv r w ->
  w_now w <= w_now w' /\ tinv r' w' /\ r_timeout r' = r_timeout r /\ r_throttle r' = r_throttle r /\
  w_now w' + potential r' <= w_now w + potential r + item_cost r it.
Proof. exact retry_next_time. Qed.

(* a call made of one exchange: 20 attempts of (2 s + 2 x timeout) plus one timeout per reply item received
   (n counts them; consume_n is `consume` with that counter) *)
Theorem C10_single_exchange_call_elapsed : forall (A B : Type) cfg q t w acc (handle : A -> N -> value -> option (cres B) * A) finish fuel res w' n,
  consume_n RFUEL fuel cfg (start_retry q t) w acc handle finish 0 = (res, w', n) ->
  consume fuel cfg (start_retry q t) w acc handle finish = (res, w') /\ n <= N.of_nat fuel /\
  w_now w <= w_now w' <= w_now w + 20 * (2000 + 2 * t) + n * t.
Proof. exact @single_stream_call_elapsed. Qed.

(* EVERY public operation (configure, read_card, begin / commit / cancel), every configuration, every
   terminal script: it returns, and within a bound fixed by the retry budget and the per-packet timeouts
   (Bt t = 20 x (2000 + 2t) + LOOPFUEL x t; B60 = Bt 60000; read_card runs under (timeout + 2) s) *)
Theorem C10_every_call_returns_in_bounded_time : forall cfg st o w,
  let T := (c_read_card_timeout cfg + 2) * 1000 in
  let '(_, _, w') := run_op cfg st o w in
  w_now w <= w_now w' <= w_now w + 6 * B60 + Bt T.
Proof. exact every_call_returns_in_bounded_time. Qed.

Example C10_ex_bounds : B60 = 26440000 /\ Bt ((255 + 2) * 1000) = 113120000 /\ Bt ((0 + 2) * 1000) = 920000.
Proof. vm_compute. repeat split; reflexivity. Qed.

(* non-vacuity of the time theorems: a terminal that accepts every connection and never says a word; read_card (15 + 2 s)
   spends its 20 attempts, each ending at its handshake deadline, and returns an error after exactly 340 s of virtual time *)
Example C10_ex_always_silent :
  let silent := {| cs_refused := false; cs_chunks := []; cs_close := false; cs_silent := false |} in
  let cfg := {| c_serial := []; c_terminal_id := []; c_currency := 978; c_amount := 1; c_read_card_timeout := 15; c_password := 0; c_max := 1 |} in
  let w := {| w_conns := []; w_scripts := repeat silent 25; w_cur := None; w_now := 0; w_log := [] |} in
  let '(r, w') := read_card cfg w in
  r = RErr EIncomplete /\ w_now w' = 340000 /\ w_now w' <= Bt ((15 + 2) * 1000) /\ length (w_scripts w') = 5%nat.
Proof. vm_compute. repeat split; try reflexivity. discriminate. Qed.

(* "on connect": an attempt nobody answers ends exactly at its deadline as a failed attempt; no connection is opened *)
Theorem C10_unanswered_connect_ends_at_the_deadline : forall cfg d w s rest,
  w_scripts w = s :: rest -> cs_refused s = false -> cs_silent s = true ->
  exists w', connect cfg d w = CErr 3 w' /\ w_now w' = d /\ w_conns w' = w_conns w /\ w_cur w' = w_cur w /\ w_scripts w' = rest.
Proof. exact unanswered_connect_ends_at_the_deadline. Qed.

(* "on connect": nobody answers the connection attempts at all (neither accepted nor refused) — the same 20 attempts, each ended
   by the attempt's own deadline, the same 340 s, and no connection was ever opened *)
Example C10_ex_connect_never_answered :
  let unanswered := {| cs_refused := false; cs_chunks := []; cs_close := false; cs_silent := true |} in
  let cfg := {| c_serial := []; c_terminal_id := []; c_currency := 978; c_amount := 1; c_read_card_timeout := 15; c_password := 0; c_max := 1 |} in
  let w := {| w_conns := []; w_scripts := repeat unanswered 25; w_cur := None; w_now := 0; w_log := [] |} in
  let '(r, w') := read_card cfg w in
  r = RErr EIncomplete /\ w_now w' = 340000 /\ w_conns w' = nil /\ length (w_scripts w') = 5%nat.
Proof. vm_compute. repeat split; try reflexivity. Qed.

Example C10_ex : (255 + 2) * 1000 = 257000 /\ (0 + 2) * 1000 = 2000.
Proof. split; reflexivity. Qed.

(* "for every configuration value" (since the fix of F14): a configuration whose password, currency or amount does not fit its
   fixed-width field is refused by Feig::new with an error — no client exists, no call can be made (before: every call that had
   to send the value panicked) ... *)
Theorem C10_invalid_configuration_is_refused : forall cfg ops scripts, cfg_ok cfg = false -> feig_history cfg ops scripts = None.
Proof. exact invalid_configuration_is_refused. Qed.

(* ... and every configuration that is accepted can be sent: handshake, configuration requests and the reservation of any token
   are non-empty packets which their layouts read back with exactly the configured values *)
Theorem C10_accepted_configuration_can_be_sent : forall cfg, cfg_ok cfg = true ->
  (registration_cmd cfg <> nil /\
   forall r, dec_cmd FUEL (cmd_of "zvt::packets::Registration") (registration_cmd cfg ++ r) =
             Ok (registration_value (c_password cfg) (c_currency cfg), r)) /\
  (mk_cmd "zvt::packets::EndOfDay" [VInt (c_password cfg)] nil <> nil /\
   mk_cmd "zvt::packets::Initialization" [VInt (c_password cfg)] nil <> nil) /\
  (forall tok pl, token_ok tok pl ->
     mk_cmd "zvt::packets::Reservation" nil
       [(73, VSome (VInt (c_currency cfg))); (4, VSome (VInt (c_amount cfg))); (25, VSome (VInt 64)); (6, bmp60 tok)] <> nil).
Proof. exact accepted_configuration_can_be_sent. Qed.

(* ... nor can any later request fail to encode (the model's `mk_cmd` writes the empty packet where the code's encoder would
   panic — that case is excluded here for EVERY request of EVERY public operation): receipt numbers as a terminal issues them,
   terminal ids as set_terminal_id lets them through, tokens as C08 quantifies them *)
Theorem C10_accepted_configuration_never_fails_to_encode : forall cfg, cfg_ok cfg = true ->
  (forall tok pl rn amount, token_ok tok pl -> rn < 10000 ->
     mk_cmd "zvt::packets::PartialReversal" nil
       [(135, VSome (VInt rn)); (73, VSome (VInt (c_currency cfg))); (4, VSome (VInt (c_amount cfg - amount))); (25, VSome (VInt 64)); (6, bmp60 tok)] <> nil) /\
  (forall rn, rn < 10000 ->
     mk_cmd "zvt::packets::PreAuthReversal" nil [(25, VSome (VInt 64)); (73, VSome (VInt (c_currency cfg))); (135, VSome (VInt rn))] <> nil) /\
  (forall n, n <= 99999999 -> mk_cmd "zvt::packets::SetTerminalId" [VInt (c_password cfg)] [(41, VSome (VInt n))] <> nil) /\
  mk_cmd "zvt::packets::PartialReversal" nil [(135, VSome (VInt 65535))] <> nil /\
  sysinfo_cmd <> nil.
Proof. exact accepted_configuration_never_fails_to_encode. Qed.

Print Assumptions C10_read_card_timeout_ok.
Print Assumptions C10_poll_ends_by_deadline.
Print Assumptions C10_retry_budget_bounds_the_poll.
Print Assumptions C10_retry_budget_fits.
(* THE RETRY BUDGET, counted in the event log: one poll never makes more connection attempts (opens + refusals) than the stream has
   attempts left, a whole consumer loop never more than the budget it started with: a call built from one stream connects at most 20
   times, whatever the terminal does and whether or not the call started on a kept connection *)
Theorem C10_poll_respects_the_retry_budget : forall cfg fuel r w it r' w', retry_next fuel cfg r w = (it, r', w') ->
  (attempts (w_log w') + r_left r' <= attempts (w_log w) + r_left r)%nat.
Proof. exact retry_next_attempts. Qed.
Theorem C10_call_connects_at_most_20_times : forall (A B : Type) cfg q T w acc (h : A -> N -> value -> option (cres B) * A) fin fuel,
  (attempts (w_log (snd (consume fuel cfg (start_retry q T) w acc h fin))) <= attempts (w_log w) + 20)%nat.
Proof. exact @call_attempts. Qed.

Theorem C10_every_call_connects_boundedly : forall cfg st o w,
  let '(_, _, w') := run_op cfg st o w in (attempts (w_log w') <= attempts (w_log w) + 140)%nat.
Proof. exact every_call_attempts_bounded. Qed.

Print Assumptions C10_every_call_connects_boundedly.
Print Assumptions C10_poll_respects_the_retry_budget.
Print Assumptions C10_call_connects_at_most_20_times.
Print Assumptions C10_poll_elapsed.
Print Assumptions C10_single_exchange_call_elapsed.
Print Assumptions C10_every_call_returns_in_bounded_time.
Print Assumptions C10_invalid_configuration_is_refused.
Print Assumptions C10_accepted_configuration_can_be_sent.
Print Assumptions C10_accepted_configuration_never_fails_to_encode.
Print Assumptions C10_unanswered_connect_ends_at_the_deadline.
