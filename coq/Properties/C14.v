(* C14 — a decoded packet depends only on the bytes inside its announced length.  Statements only. *)
From Zvt Require Import Base Length Cp437 Encoding Codec CodecFrame.
Open Scope N_scope.

(* for EVERY body (canonical or not), every layout and every suffix: value / error are those of the
   packet alone and the suffix is handed back untouched behind the remainder *)
Theorem C14_frame_non_influence : forall fuel c body s, blen body <= 65535 ->
  dec_cmd fuel c (apdu_header c (blen body) ++ body ++ s) =
  map_rem (fun r => r ++ s) (dec_cmd fuel c (apdu_header c (blen body) ++ body)).
Proof. exact frame_non_influence. Qed.

(* nested containers: for every length style that announces or fixes a length (fixed, LLVAR,
   LLLVAR, BER-TLV, APDU), every tag, every inner decoder k: bytes behind the frame are neither
   consumed nor able to influence the result — k is only ever applied to the bytes inside the length *)
Theorem C14_nested_confined : forall (A : Type) ls big tag (k : bytes -> res (A * bytes)) bs v r s,
  delimiting ls = true ->
  framed_dec ls big tag k bs = Ok (v, r) ->
  framed_dec ls big tag k (bs ++ s) = Ok (v, r ++ s).
Proof. exact @framed_suffix. Qed.

Example C14_ex_header : apdu_header {| c_class := 6; c_instr := 30; c_fields := [] |} 300 = [6; 30; 255; 44; 1].
Proof. reflexivity. Qed.
Example C14_ex_delimiting : delimiting LTlv = true /\ delimiting (LLlv 3) = true /\ delimiting (LFixed 6) = true
  /\ delimiting LAdpu = true /\ delimiting LEmpty = false.
Proof. repeat split. Qed.

Print Assumptions C14_frame_non_influence.
Print Assumptions C14_nested_confined.
