(* C08 — commit releases exactly the unused part of the pre-authorisation.  Statements only. *)
From Zvt Require Import Base Length Cp437 Encoding Codec Lookup EnumProps CanonClass Transport Sequence SeqLookup Client ClientProps ClientLog ClientWire ClientSent SpecCheck.
From Zvt.gen Require Tables.
From Zvt.spec Require Spec.
Open Scope N_scope.

(* the released amount (saturating_sub in the code, truncated subtraction in N): exactly pre - min(pre, final),
   never more than pre, zero when the final amount is larger — for ALL pre and final, no bound *)
Theorem C08_commit_amount : forall pre final : N,
  pre - final = pre - N.min pre final /\ pre - final <= pre /\ (pre <= final -> pre - final = 0).
Proof. exact commit_amount. Qed.

(* the summary handed back comes from the LAST status information of the exchange *)
Theorem C08_summary_from_last_status : forall ixa ixs, ixs <> ixa -> forall its acc,
  (forall i v, In (i, v) its -> i <> ixa) ->
  run_handler (h_commit ixa ixs) (fun a => ROk a) acc its =
  ROk (fold_left (fun a iv => if fst iv =? ixs then Some (snd iv) else a) its acc).
Proof. exact commit_keeps_last_status. Qed.

(* an abort of the partial reversal is reported with its code, whatever preceded it *)
Theorem C08_commit_abort_reported : forall ixa ixs acc c rest,
  fst (h_commit ixa ixs acc ixa (VRec (VInt c :: rest))) = Some (RErr (EAborted c)).
Proof. exact abort_commit. Qed.

(* the constants of the client regenerated from /repo (payment type 0x40, "AC", config byte 0xDE, 60 s,
   20 attempts, 2 s, currency codes) equal the specification's *)
Theorem C08_client_constants_agree_with_spec :
  forallb const_ok Spec.client_constants && forallb str_const_ok Spec.client_str_constants && paths_eqb Tables.currencies Spec.currencies_iso4217 = true.
Proof. exact client_constants_agree_with_spec. Qed.

(* END TO END, for every configuration, open map, token, final amount over all of N, world and time: a commit made while a
   connection is in use puts, as the very first thing it adds to the log, a request on that connection which the layout's own
   decoder (= the specification's layout, C03) reads back as EXACTLY: the receipt number recorded for this token, the amount
   pre-authorised minus the final amount (truncated at zero), payment type 0x40, the configured currency, the reference token —
   whatever the terminal then answers, and whatever follows the request on the wire *)
Theorem C08_commit_releases_exactly_the_unused_part : forall cfg st tok amount rn w id pl,
  assoc_tok tok (s_txs st) = Some rn -> w_cur w = Some id ->
  rn < 10000 -> c_amount cfg < 10 ^ 12 -> c_currency cfg < 10000 -> token_ok tok pl ->
  exists req : list N, req <> nil /\
    first_new_event w (snd (commit_transaction cfg st tok amount w)) (EWrite id (w_now w) req) /\
    forall r, dec_cmd FUEL (cmd_of "zvt::packets::PartialReversal") (req ++ r) =
              Ok (partial_reversal_value rn (c_amount cfg - amount) (c_currency cfg) tok, r).
Proof. exact commit_releases_exactly_the_unused_part. Qed.

(* reservations are always requested for the configured amount and currency, with the caller's token *)
Theorem C08_begin_reserves_the_configured_amount : forall cfg st tok w id pl,
  (N.of_nat (length (s_txs st)) =? s_max st) = false -> assoc_tok tok (s_txs st) = None -> w_cur w = Some id ->
  c_amount cfg < 10 ^ 12 -> c_currency cfg < 10000 -> token_ok tok pl ->
  exists req : list N, req <> nil /\
    first_new_event w (snd (begin_transaction cfg st tok w)) (EWrite id (w_now w) req) /\
    forall r, dec_cmd FUEL (cmd_of "zvt::packets::Reservation") (req ++ r) =
              Ok (reservation_value (c_amount cfg) (c_currency cfg) tok, r).
Proof. exact begin_reserves_the_configured_amount. Qed.

(* a cancel reverses exactly that reservation, in the configured currency *)
Theorem C08_cancel_reverses_that_reservation : forall cfg st tok rn w id,
  assoc_tok tok (s_txs st) = Some rn -> w_cur w = Some id -> rn < 10000 -> c_currency cfg < 10000 ->
  exists req : list N, req <> nil /\
    first_new_event w (snd (cancel_transaction cfg st tok w)) (EWrite id (w_now w) req) /\
    forall r, dec_cmd FUEL (cmd_of "zvt::packets::PreAuthReversal") (req ++ r) =
              Ok (preauth_reversal_value (c_currency cfg) rn, r).
Proof. exact cancel_reverses_that_reservation. Qed.

(* the three requests are inside the class of C01 for EVERY receipt number, amount below 10^12, currency below 10^4 and CP437 token *)
Theorem C08_requests_in_class : forall rn am cur tok pl,
  rn < 10000 \/ rn = 65535 -> am < 10 ^ 12 -> cur < 10000 -> token_ok tok pl ->
  (exists b, canon_cmd (cmd_of "zvt::packets::PartialReversal") (partial_reversal_value rn am cur tok) = Some b) /\
  (exists b, canon_cmd (cmd_of "zvt::packets::Reservation") (reservation_value am cur tok) = Some b).
Proof. exact requests_in_class. Qed.

(* the summary handed back reproduces what the terminal reported: when the replies to the partial reversal (any number, the
   serialisations of class values, the last one final) are what arrives, and the call returns a summary at all, its five fields
   are those of the LAST status information among these replies, and none of the replies was an abort *)
Theorem C08_summary_is_the_last_status_reported : forall cfg st tok amount rn w id xs rest final sm,
  let cmd := mk_cmd "zvt::packets::PartialReversal" []
               [(135, VSome (VInt rn)); (73, VSome (VInt (c_currency cfg))); (4, VSome (VInt (c_amount cfg - amount))); (25, VSome (VInt 64)); (6, bmp60 tok)] in
  let q := seq_of "zvt::sequences::PartialReversal" cmd in
  let ixa := variant_ix "zvt::sequences::PartialReversalResponse" "PartialReversalAbort" in
  let ixs := variant_ix "zvt::sequences::PartialReversalResponse" "StatusInformation" in
  assoc_tok tok (s_txs st) = Some rn -> w_cur w = Some id -> valid_id w id -> settled (get_conn w id) ->
  q_mode q = Loop final ->
  k_buf (get_conn w id) = [128; 0; 0] ++ concat (map x_bytes xs) ++ rest ->
  Forall (reply_ok (q_replies q)) xs -> xs <> nil ->
  (forall pre x post, xs = pre ++ x :: post -> final (fst (x_item x)) = match post with nil => true | _ => false end) ->
  (length xs < LOOPFUEL)%nat ->
  fst (fst (commit_transaction cfg st tok amount w)) = ROk sm ->
  exists v, fold_left (fun a iv => if fst iv =? ixs then Some (snd iv) else a) (map x_item xs) None = Some v /\
            summary_of (Some v) = ROk sm /\ Forall (fun iv => fst iv <> ixa) (map x_item xs).
Proof. exact commit_summary_is_the_last_status_reported. Qed.

(* a concrete run of the model (kernel evaluation): two transactions open, the terminal answers the partial reversal with a
   status information and the completion; the summary carries exactly the reported terminal id, amount, trace number, date, time *)
Definition ex_status : value :=
  VRec (build_rec (snd (layout_of "zvt::packets::StatusInformation")) []
          [(39, VSome (VInt 0)); (4, VSome (VInt 1234)); (11, VSome (VInt 77)); (12, VSome (VInt 93001)); (13, VSome (VInt 517)); (41, VSome (VInt 52523535))]).
Definition ex_reply (k : nat) (v : value) : bytes :=
  match find_enum "zvt::sequences::PartialReversalResponse" with
  | Some vs => match nth_error vs k with Some (_, c) => match canon_cmd c v with Some b => b | None => nil end | None => nil end
  | None => nil
  end.
Definition ex_ixs : nat := N.to_nat (variant_ix "zvt::sequences::PartialReversalResponse" "StatusInformation").
Definition ex_ixc : nat := N.to_nat (variant_ix "zvt::sequences::PartialReversalResponse" "CompletionData").
Definition ex_w : world :=
  {| w_conns := [{| k_queue := nil; k_close := true;
                    k_buf := [128; 0; 0] ++ ex_reply ex_ixs ex_status ++ ex_reply ex_ixc (VRec (build_rec (snd (layout_of "zvt::packets::CompletionData")) [] [])) |}];
     w_scripts := nil; w_cur := Some 0; w_now := 7; w_log := nil |}.
Definition ex_cfg : config := {| c_serial := nil; c_terminal_id := nil; c_currency := 978; c_amount := 2500; c_read_card_timeout := 15; c_password := 0; c_max := 2 |}.
Definition ex_st : cstate := {| s_txs := [([65], 5); ([66], 6)]; s_max := 2 |}.
Example C08_ex_summary :
  ex_reply ex_ixs ex_status <> nil /\
  fst (fst (commit_transaction ex_cfg ex_st [65] 1000 ex_w)) =
  ROk {| m_tid := Some [53; 50; 53; 50; 51; 53; 51; 53]; m_amount := Some 1234; m_trace := Some 77;
         m_date := Some [48; 53; 49; 55]; m_time := Some [48; 57; 51; 48; 48; 49] |}.   (* "52523535", "0517", "093001" *)
Proof. split; [vm_compute; discriminate|vm_compute; reflexivity]. Qed.

(* the summary's terminal id, date and time are text: `pad_dec w n` (format!("{:0w$}", n); w = 8 for the terminal id since the
   fix of F10, 4 for the date, 6 for the time) has at least w characters, all decimal digits, and spells exactly the number *)
Theorem C08_summary_text_spells_the_number : forall w n, n < 10 ^ 40 ->
  (w <= length (pad_dec w n))%nat /\ Forall is_digit (pad_dec w n) /\ digits_value (pad_dec w n) = Some n.
Proof. exact pad_dec_spec. Qed.
Example C08_ex_terminal_id_keeps_its_zeros : pad_dec 8 123456 = [48; 48; 49; 50; 51; 52; 53; 54] /\ pad_dec 8 0 = repeat 48 8.
Proof. split; vm_compute; reflexivity. Qed.

(* non-vacuity: an ASCII token is one of the tokens the theorems speak about *)
Example C08_ex_token : token_ok [116; 111; 107; 45; 49] [116; 111; 107; 45; 49].
Proof. exact token_ok_ex. Qed.

Example C08_ex : (2500 - 1000 = 1500) /\ (2500 - 2501 = 0) /\ (2500 - 18446744073709551615 = 0) /\ (0 - 0 = 0).
Proof. repeat split. Qed.

(* and nothing else is ever asked for: whatever the terminal does and however often the connection has to be re-established,
   every write of a commit (with other transactions open) is an acknowledgement, the registration / identity query of a new
   connection, or THAT request — the same receipt number and the same released amount on every retry *)
Theorem C08_commit_writes_only_its_request : forall cfg st tok amount rn w x rest,
  assoc_tok tok (s_txs st) = Some rn -> remove_tok tok (s_txs st) = x :: rest ->
  sent_in (fun b => housekeeping cfg b \/ b = commit_req cfg tok rn amount) w (snd (commit_transaction cfg st tok amount w)).
Proof. exact commit_busy_vocabulary. Qed.

Print Assumptions C08_commit_amount.
Print Assumptions C08_summary_from_last_status.
Print Assumptions C08_commit_abort_reported.
Print Assumptions C08_client_constants_agree_with_spec.
Print Assumptions C08_commit_releases_exactly_the_unused_part.
Print Assumptions C08_begin_reserves_the_configured_amount.
Print Assumptions C08_cancel_reverses_that_reservation.
Print Assumptions C08_requests_in_class.
Print Assumptions C08_summary_is_the_last_status_reported.
Print Assumptions C08_summary_text_spells_the_number.
Print Assumptions C08_commit_writes_only_its_request.
