(* C08 — commit releases exactly the unused part of the pre-authorisation.  Statements only. *)
From Zvt Require Import Base Length Cp437 Encoding Codec Lookup CanonClass Client ClientProps ClientWire SpecCheck.
From Zvt.gen Require Tables.
From Zvt.spec Require Spec.
Open Scope N_scope.

(* the released amount (saturating_sub in the code, truncated subtraction in N): exactly pre - min(pre, final),
   never more than pre, zero when the final amount is larger — for ALL pre and final, no bound *)
Theorem C08_commit_amount : forall pre final : N,
  pre - final = pre - N.min pre final /\ pre - final <= pre /\ (pre <= final -> pre - final = 0).
Proof. exact commit_amount. Qed.

(* the summary handed back comes from the LAST status information of the exchange *)
Theorem C08_summary_from_last_status : forall ixa ixs, ixs <> ixa -> forall its acc,
  (forall i v, In (i, v) its -> i <> ixa) ->
  run_handler (h_commit ixa ixs) (fun a => ROk a) acc its =
  ROk (fold_left (fun a iv => if fst iv =? ixs then Some (snd iv) else a) its acc).
Proof. exact commit_keeps_last_status. Qed.

(* an abort of the partial reversal is reported with its code, whatever preceded it *)
Theorem C08_commit_abort_reported : forall ixa ixs acc c rest,
  fst (h_commit ixa ixs acc ixa (VRec (VInt c :: rest))) = Some (RErr (EAborted c)).
Proof. exact abort_commit. Qed.

(* the constants of the client regenerated from /repo (payment type 0x40, "AC", config byte 0xDE, 60 s,
   20 attempts, 2 s, currency codes) equal the specification's *)
Theorem C08_client_constants_agree_with_spec :
  forallb const_ok Spec.client_constants && forallb str_const_ok Spec.client_str_constants && paths_eqb Tables.currencies Spec.currencies_iso4217 = true.
Proof. exact client_constants_agree_with_spec. Qed.

(* END TO END, for every configuration, open map, token, final amount over all of N, world and time: a commit made while a
   connection is in use puts, as the very first thing it adds to the log, a request on that connection which the layout's own
   decoder (= the specification's layout, C03) reads back as EXACTLY: the receipt number recorded for this token, the amount
   pre-authorised minus the final amount (truncated at zero), payment type 0x40, the configured currency, the reference token —
   whatever the terminal then answers, and whatever follows the request on the wire *)
Theorem C08_commit_releases_exactly_the_unused_part : forall cfg st tok amount rn w id pl,
  assoc_tok tok (s_txs st) = Some rn -> w_cur w = Some id ->
  rn < 10000 -> c_amount cfg < 10 ^ 12 -> c_currency cfg < 10000 -> token_ok tok pl ->
  exists req : list N, req <> nil /\
    first_new_event w (snd (commit_transaction cfg st tok amount w)) (EWrite id (w_now w) req) /\
    forall r, dec_cmd FUEL (cmd_of "zvt::packets::PartialReversal") (req ++ r) =
              Ok (partial_reversal_value rn (c_amount cfg - amount) (c_currency cfg) tok, r).
Proof. exact commit_releases_exactly_the_unused_part. Qed.

(* reservations are always requested for the configured amount and currency, with the caller's token *)
Theorem C08_begin_reserves_the_configured_amount : forall cfg st tok w id pl,
  (N.of_nat (length (s_txs st)) =? s_max st) = false -> assoc_tok tok (s_txs st) = None -> w_cur w = Some id ->
  c_amount cfg < 10 ^ 12 -> c_currency cfg < 10000 -> token_ok tok pl ->
  exists req : list N, req <> nil /\
    first_new_event w (snd (begin_transaction cfg st tok w)) (EWrite id (w_now w) req) /\
    forall r, dec_cmd FUEL (cmd_of "zvt::packets::Reservation") (req ++ r) =
              Ok (reservation_value (c_amount cfg) (c_currency cfg) tok, r).
Proof. exact begin_reserves_the_configured_amount. Qed.

(* a cancel reverses exactly that reservation, in the configured currency *)
Theorem C08_cancel_reverses_that_reservation : forall cfg st tok rn w id,
  assoc_tok tok (s_txs st) = Some rn -> w_cur w = Some id -> rn < 10000 -> c_currency cfg < 10000 ->
  exists req : list N, req <> nil /\
    first_new_event w (snd (cancel_transaction cfg st tok w)) (EWrite id (w_now w) req) /\
    forall r, dec_cmd FUEL (cmd_of "zvt::packets::PreAuthReversal") (req ++ r) =
              Ok (preauth_reversal_value (c_currency cfg) rn, r).
Proof. exact cancel_reverses_that_reservation. Qed.

(* the three requests are inside the class of C01 for EVERY receipt number, amount below 10^12, currency below 10^4 and CP437 token *)
Theorem C08_requests_in_class : forall rn am cur tok pl,
  rn < 10000 \/ rn = 65535 -> am < 10 ^ 12 -> cur < 10000 -> token_ok tok pl ->
  (exists b, canon_cmd (cmd_of "zvt::packets::PartialReversal") (partial_reversal_value rn am cur tok) = Some b) /\
  (exists b, canon_cmd (cmd_of "zvt::packets::Reservation") (reservation_value am cur tok) = Some b).
Proof. exact requests_in_class. Qed.

(* non-vacuity: an ASCII token is one of the tokens the theorems speak about *)
Example C08_ex_token : token_ok [116; 111; 107; 45; 49] [116; 111; 107; 45; 49].
Proof. exact token_ok_ex. Qed.

Example C08_ex : (2500 - 1000 = 1500) /\ (2500 - 2501 = 0) /\ (2500 - 18446744073709551615 = 0) /\ (0 - 0 = 0).
Proof. repeat split. Qed.

Print Assumptions C08_commit_amount.
Print Assumptions C08_summary_from_last_status.
Print Assumptions C08_commit_abort_reported.
Print Assumptions C08_client_constants_agree_with_spec.
Print Assumptions C08_commit_releases_exactly_the_unused_part.
Print Assumptions C08_begin_reserves_the_configured_amount.
Print Assumptions C08_cancel_reverses_that_reservation.
Print Assumptions C08_requests_in_class.
