(* C08 — commit releases exactly the unused part of the pre-authorisation.  Statements only. *)
From Zvt Require Import Base Length Cp437 Encoding Codec Lookup Client ClientProps SpecCheck.
From Zvt.gen Require Tables.
From Zvt.spec Require Spec.
Open Scope N_scope.

(* the released amount (saturating_sub in the code, truncated subtraction in N): exactly pre - min(pre, final),
   never more than pre, zero when the final amount is larger — for ALL pre and final, no bound *)
Theorem C08_commit_amount : forall pre final : N,
  pre - final = pre - N.min pre final /\ pre - final <= pre /\ (pre <= final -> pre - final = 0).
Proof. exact commit_amount. Qed.

(* the summary handed back comes from the LAST status information of the exchange *)
Theorem C08_summary_from_last_status : forall ixa ixs, ixs <> ixa -> forall its acc,
  (forall i v, In (i, v) its -> i <> ixa) ->
  run_handler (h_commit ixa ixs) (fun a => ROk a) acc its =
  ROk (fold_left (fun a iv => if fst iv =? ixs then Some (snd iv) else a) its acc).
Proof. exact commit_keeps_last_status. Qed.

(* an abort of the partial reversal is reported with its code, whatever preceded it *)
Theorem C08_commit_abort_reported : forall ixa ixs acc c rest,
  fst (h_commit ixa ixs acc ixa (VRec (VInt c :: rest))) = Some (RErr (EAborted c)).
Proof. exact abort_commit. Qed.

(* the constants of the client regenerated from /repo (payment type 0x40, "AC", config byte 0xDE, 60 s,
   20 attempts, 2 s, currency codes) equal the specification's *)
Theorem C08_client_constants_agree_with_spec :
  forallb const_ok Spec.client_constants && forallb str_const_ok Spec.client_str_constants && paths_eqb Tables.currencies Spec.currencies_iso4217 = true.
Proof. exact client_constants_agree_with_spec. Qed.

Example C08_ex : (2500 - 1000 = 1500) /\ (2500 - 2501 = 0) /\ (2500 - 18446744073709551615 = 0) /\ (0 - 0 = 0).
Proof. repeat split. Qed.

Print Assumptions C08_commit_amount.
Print Assumptions C08_summary_from_last_status.
Print Assumptions C08_commit_abort_reported.
Print Assumptions C08_client_constants_agree_with_spec.
