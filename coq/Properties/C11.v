(* C11 — firmware upload sends exactly the requested bytes of the right file.  Statements only. *)
From Zvt Require Import Base Length Cp437 Encoding Codec Lookup Transport Sequence SequenceProps SpecCheck.
Open Scope N_scope.

(* every run of the upload loop, for every byte stream: each data request (id, offset) whose id was
   announced is answered by ONE packet, the encoding of WriteData{id, offset, block_of ...}, then
   yielded; completion / abort are acknowledged and end it; anything else ends it with one error and
   no write (constructors us_data, us_final, us_bad_request, us_read_err) *)
Theorem C11_upload_runs : forall fuel E s, upload_shape E (fst (upload_loop fuel E s)).
Proof. exact upload_loop_shape_any. Qed.

(* the block is exactly the file's bytes from the offset up to the block size or the end of the file *)
Theorem C11_block_exact : forall block off content,
  block_of block off content = firstn (N.to_nat block) (skipn (N.to_nat off) content) /\
  blen (block_of block off content) = N.min block (blen content - off).
Proof. exact block_exact. Qed.

(* the announced list: exactly the recognised files present, with their true sizes *)
Theorem C11_manifest_exact : forall E, manifest E = map (fun f => (fst f, blen (snd f))) (u_files E).
Proof. exact manifest_exact. Qed.

Theorem C11_empty_directory_sends_nothing : forall E ann ack s, u_files E = [] -> run_upload E ann ack s = ([EvErr], s).
Proof. exact empty_directory_sends_nothing. Qed.

(* the regenerated path -> id table equals the Feig manual's table; reply set of the upload *)
Theorem C11_path_table_agrees_with_spec : paths_eqb Tables.upload_paths Spec.upload_file_ids = true.
Proof. exact upload_paths_agree_with_spec. Qed.
Theorem C11_upload_reply_set_agrees_with_spec : upload_ok && ack_ok = true.
Proof. exact upload_and_ack_agree_with_spec. Qed.

Example C11_ex_block : block_of 4 6 [1; 2; 3; 4; 5; 6; 7; 8; 9] = [7; 8; 9] /\ block_of 4 9 [1; 2; 3; 4; 5; 6; 7; 8; 9] = []
  /\ block_of 4 0 [1; 2; 3; 4; 5; 6; 7; 8; 9] = [1; 2; 3; 4].
Proof. repeat split. Qed.

Print Assumptions C11_upload_runs.
Print Assumptions C11_block_exact.
Print Assumptions C11_manifest_exact.
Print Assumptions C11_empty_directory_sends_nothing.
Print Assumptions C11_path_table_agrees_with_spec.
Print Assumptions C11_upload_reply_set_agrees_with_spec.
