(* C12 — the derive macro implements the declared layout for any user-defined struct.
   C12 is the reason the theorems of C01 / C02 / C13 / C14 are stated for EVERY layout (every list of
   fields over the attribute grammar) and not for the shipped list: this file restates them at that
   generality, with examples on layouts the shipped packets never use.  Statements only. *)
From Zvt Require Import Base Length Cp437 Encoding Codec CodecTotal CodecFrame CodecRoundtrip CodecTags CodecFields CodecCanon CanonClass CanonRoundtrip.
From Coq Require Import Permutation.
Open Scope N_scope.

(* totality of the generated decoder, any layout, any bytes *)
Theorem C12_generated_decoder_total : forall fuel ls e t tag bs,
  dec fuel ls e t tag bs <> Panic /\ (forall v r, dec fuel ls e t tag bs = Ok (v, r) -> blen r <= blen bs).
Proof. exact dec_np. Qed.
Theorem C12_generated_decoder_terminates : forall fuel ls e t tag bs, (depth t <= fuel)%nat ->
  dec fuel ls e t tag bs <> OutOfFuel.
Proof. exact dec_fuel_sufficient. Qed.

(* the generated pair is inverse for ANY struct definition (any list of fields over the attribute grammar,
   any nesting) on every value of the decidable class `canon` (CanonClass.v): with a control field ... *)
Theorem C12_generated_pair_inverse_commands : forall c v b, canon_cmd c v = Some b ->
  enc_cmd c v = Ok b /\
  forall fuel r, (depth_fields (c_fields c) <= S fuel)%nat -> dec_cmd fuel c (b ++ r) = Ok (v, r).
Proof. exact canon_cmd_roundtrip. Qed.
(* ... and without *)
Theorem C12_generated_pair_inverse_plain : forall fs v g, canon_struct fs v = Some g ->
  enc_struct fs v = Ok g /\
  forall fuel, (depth_fields fs <= S fuel)%nat -> dec_plain fuel fs g = Ok (v, []).
Proof. exact canon_struct_roundtrip. Qed.

(* the unusual layout below, with its value, is in that class *)
Example C12_ex_unusual_in_class :
  canon_struct [
    Fld "a" None (LLlv 2) EDefault (TStruct [Fld "x" None LEmpty EBigEndian (TPrim (PInt 2)); Fld "y" (Some 9) LTlv EHex (TOpt (TPrim PString))]);
    Fld "b" (Some 65281) LTlv EBigEndian (TVec (TPrim (PInt 2)));
    Fld "c" (Some 7936) (LFixed 2) EBcd (TOpt (TVec (TPrim (PInt 4))))]
    (VRec [VRec [VInt 258; VSome (VStr [97; 98])]; VList [VInt 1; VInt 65535]; VSome (VList [VInt 1234])])
  = Some [240; 245; 1; 2; 9; 1; 171; 255; 1; 2; 0; 1; 255; 1; 2; 255; 255; 31; 0; 18; 52].
Proof. vm_compute. reflexivity. Qed.

(* the generated pair is inverse on one frame, for every delimiting style / tag / inner codec *)
Theorem C12_frame_inverse_partial : forall (A : Type) ls big tag (k : bytes -> res (A * bytes)) p v r,
  delimiting ls = true -> len_fits ls (blen p) = true -> tag_ok big tag -> k p = Ok (v, []) ->
  exists g, framed_enc ls big tag p = Ok g /\ framed_dec ls big tag k (g ++ r) = Ok (v, r).
Proof. exact @framed_roundtrip. Qed.

(* the generated decode function of any struct: positional fields, then tagged groups in any order *)
Theorem C12_generated_struct_decoder : forall D fs ps gs tail,
  untagged fs = map (fun x => fst (fst x)) ps ->
  pos_ok D ps (gbytes gs ++ tail) ->
  Forall (group_ok D fs) gs -> NoDup (map g_tag gs) -> tail_ok fs tail ->
  all_required_present fs gs ->
  dec_struct_with D fs (concat (map snd ps) ++ gbytes gs ++ tail) =
    Ok (VRec (apply_groups (init_slots fs (map (fun x => snd (fst x)) ps)) gs), tail).
Proof. exact dec_struct_groups. Qed.

(* a decimal field of any Fixed<k> width, any integer width, any representable tag *)
Theorem C12_bcd_fixed_field_inverse : forall k w tag n,
  tag_ok false tag -> n < 100 ^ k -> n < 2 ^ (8 * w) -> n < 2 ^ 64 ->
  exists g, enc (LFixed k) EBcd (TPrim (PInt w)) tag (VInt n) = Ok g /\
            forall f r, dec (S f) (LFixed k) EBcd (TPrim (PInt w)) tag (g ++ r) = Ok (VInt n, r).
Proof. exact bcd_fixed_field_exact. Qed.

(* layouts the shipped packets never use: a tagged Vec<u16> with BigEndian under a two-byte FFxx tag,
   a nested struct behind LLVAR, an Option<Vec<_>> *)
Definition ex_layout : list field := [
  Fld "a" None (LLlv 2) EDefault (TStruct [Fld "x" None LEmpty EBigEndian (TPrim (PInt 2)); Fld "y" (Some 9) LTlv EHex (TOpt (TPrim PString))]);
  Fld "b" (Some 65281) LTlv EBigEndian (TVec (TPrim (PInt 2)));
  Fld "c" (Some 7936) (LFixed 2) EBcd (TOpt (TVec (TPrim (PInt 4))))].
Example C12_ex_unusual_layout :
  let v := VRec [VRec [VInt 258; VSome (VStr [97; 98])]; VList [VInt 1; VInt 65535]; VSome (VList [VInt 1234])] in
  exists bs, enc_struct ex_layout v = Ok bs /\ dec_struct 8 ex_layout bs = Ok (v, [])
  /\ bs = [240; 245; 1; 2; 9; 1; 171; 255; 1; 2; 0; 1; 255; 1; 2; 255; 255; 31; 0; 18; 52].
Proof. eexists. split; [vm_compute; reflexivity|]. split; vm_compute; reflexivity. Qed.

Print Assumptions C12_generated_decoder_total.
Print Assumptions C12_generated_decoder_terminates.
Print Assumptions C12_frame_inverse_partial.
Print Assumptions C12_generated_pair_inverse_commands.
Print Assumptions C12_generated_pair_inverse_plain.
Print Assumptions C12_generated_struct_decoder.
Print Assumptions C12_bcd_fixed_field_inverse.
