(* C02 — decoding is total: arbitrary bytes give a value or an error, never a panic.
   Statements only. *)
From Zvt Require Import Base Length Cp437 Encoding EncodingProps Codec Lookup CodecTotal CodecSize GenCheck DateTimeProps LegacyCodec Client NestedFinding.
From Zvt.gen Require Import Layouts Tables.
Open Scope N_scope.

(* for EVERY layout (not only the shipped ones), every fuel, every byte string: the decoder the
   derive macro generates never panics and never hands back more than it was given *)
Theorem C02_dec_never_panics : forall fuel ls e t tag bs,
  dec fuel ls e t tag bs <> Panic /\
  (forall v r, dec fuel ls e t tag bs = Ok (v, r) -> blen r <= blen bs).
Proof. exact dec_np. Qed.

(* no loop without progress: fuel equal to the nesting depth of the layout always suffices *)
Theorem C02_fuel_sufficient : forall fuel ls e t tag bs, (depth t <= fuel)%nat ->
  dec fuel ls e t tag bs <> OutOfFuel.
Proof. exact dec_fuel_sufficient. Qed.

(* every shipped command decoder (the table is regenerated from /repo) *)
Theorem C02_shipped_packets_total : forall name c i fs bs, In (name, Some (c, i), fs) structs ->
  let r := dec_cmd FUEL {| c_class := c; c_instr := i; c_fields := fs |} bs in
  r <> Panic /\ r <> OutOfFuel /\ (forall v rest, r = Ok (v, rest) -> blen rest <= blen bs).
Proof. exact shipped_packets_total. Qed.

Theorem C02_shipped_containers_total : forall name fs bs, In (name, None, fs) structs ->
  let r := dec_plain FUEL fs bs in r <> Panic /\ r <> OutOfFuel.
Proof. exact shipped_plain_total. Qed.

(* every shipped reply parser *)
Theorem C02_shipped_parsers_total : forall name vs bs, In (name, vs) enums ->
  parse_enum FUEL vs bs <> Panic /\ parse_enum FUEL vs bs <> OutOfFuel.
Proof. exact shipped_parsers_total. Qed.

(* a number that does not fit its field is an error, never a wrapped value: the BCD decoder is the
   exact positional reading or IncompleteData, so there is nothing for a release build to wrap *)
Theorem C02_bcd_exact_or_error : forall w bs,
  bcd_dec w bs = if bcd_acc bs 0 <? 2 ^ (8 * w) then Ok (bcd_acc bs 0, []) else Err IncompleteData.
Proof. exact bcd_dec_spec. Qed.

(* ALLOCATION.  For EVERY layout, fuel and byte string: what a decoder builds (wsize: characters of every String,
   bytes of every Vec<u8>, one unit per Vec<T> element, summed over the whole value) is at most (2 + nesting depth)
   units per byte it CONSUMED — never more than a small multiple of the input *)
Theorem C02_allocation_bounded_any_layout : forall fuel ls e t tag bs v r,
  dec fuel ls e t tag bs = Ok (v, r) ->
  blen r <= blen bs /\ wsize v + Kt t * blen r <= Kt t * blen bs.
Proof. exact dec_sized. Qed.

(* every shipped command decoder and reply parser (regenerated tables): at most 12 units per byte of the APDU *)
Theorem C02_shipped_packets_allocation : forall name c i fs fuel bs v r, In (name, Some (c, i), fs) structs ->
  dec_cmd fuel {| c_class := c; c_instr := i; c_fields := fs |} bs = Ok (v, r) -> wsize v <= 12 * blen bs.
Proof. exact shipped_packets_sized. Qed.
Theorem C02_shipped_parsers_allocation : forall name vs fuel bs i v, In (name, vs) enums ->
  parse_enum fuel vs bs = Ok (i, v) -> wsize v <= 12 * blen bs.
Proof. exact shipped_parsers_sized. Qed.

(* no silently wrapped number in a date-time either (after the fix of F8): whenever the date-time decoder answers, for ANY bytes,
   the answer is what the digits spell — date number = year * 10000 + month * 100 + day with the year inside the calendar,
   time number = hour * 10000 + minute * 100 + second *)
Theorem C02_datetime_is_what_the_digits_spell : forall bs y mo d h mi s r, datetime_dec bs = Ok (VDate y mo d h mi s, r) ->
  exists date time, dt_loop (S (length bs)) bs None None = Ok (Some date, Some time, r) /\
    Z.of_N date = (y * 10000 + Z.of_N mo * 100 + Z.of_N d)%Z /\ time = h * 10000 + mi * 100 + s /\
    (0 <= y <= MAX_YEAR)%Z /\ 1 <= mo <= 12 /\ 1 <= d <= 31 /\ h < 24 /\ mi < 60 /\ s < 60.
Proof. exact datetime_dec_faithful. Qed.

(* the finding itself: the old split read 4315197701 (2^32 + 20230405) as 5 April 2023 and 2621430101 as a negative year;
   the decoder now refuses the first and reads the second as the year 262143 its digits spell *)
Theorem C02_F8_refuted_then_repaired :
  (legacy_date_split 4315197701 = (2023%Z, 4, 5) /\ legacy_date_split 2621430101 = ((-167353)%Z, 1, 1)) /\
  (datetime_dec [31; 14; 5; 67; 21; 25; 119; 1; 31; 15; 3; 18; 52; 86] = Err IncompleteData /\
   datetime_dec [31; 14; 5; 38; 33; 67; 1; 1; 31; 15; 3; 18; 52; 86] = Ok (VDate 262143 1 1 12 34 56, [])).
Proof. exact F8_both. Qed.

Example C02_ex_wsize : wsize (VRec [VStr [65; 66]; VList [VInt 1; VInt 2; VInt 3]; VSome (VBytes [0; 0]); VNone]) = 7.
Proof. reflexivity. Qed.

Theorem C02_tables_recognised : unrecognised = [].
Proof. exact no_unrecognised. Qed.

(* non-vacuity: the tables are not empty and contain the packets one expects *)
Example C02_ex_tables : (50 <= length structs)%nat /\ (15 <= length enums)%nat.
Proof. split; vm_compute; lia. Qed.

(* OPEN KNOWN FINDING (DESIGN 16.2, known_findings.json): "a number that does not fit its field is an error" is REFUTED for a binary
   integer under a BER-TLV length announcing more bytes than the field is wide: 1A 03 01 00 00 into the u16 of the registration
   container is read as 256 from its first two bytes, the third is handed back to the enclosing loop (no wrap, no panic, the
   same in debug and release — but not an error) *)
Theorem C02_refuted_for_wide_integers :
  fst (match run_dec "zvt::packets::tlv::Registration" [26; 3; 1; 0; 0] with
       | Some x => x | None => (Err NonImplemented, Err NonImplemented) end) = Ok (VRec [VSome (VInt 256)], [0]).
Proof. exact wide_integer_witness. Qed.

Print Assumptions C02_dec_never_panics.
Print Assumptions C02_fuel_sufficient.
Print Assumptions C02_shipped_packets_total.
Print Assumptions C02_shipped_containers_total.
Print Assumptions C02_shipped_parsers_total.
Print Assumptions C02_bcd_exact_or_error.
Print Assumptions C02_tables_recognised.
Print Assumptions C02_allocation_bounded_any_layout.
Print Assumptions C02_shipped_packets_allocation.
Print Assumptions C02_shipped_parsers_allocation.
Print Assumptions C02_datetime_is_what_the_digits_spell.
Print Assumptions C02_F8_refuted_then_repaired.
Print Assumptions C02_refuted_for_wide_integers.
