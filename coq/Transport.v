(* Transport.v — mirrors zvt/src/io.rs: PacketTransport::read_packet over a byte stream, and over a
   stream delivered in arbitrary chunks with Pending wake-ups in between (the documented contract of
   tokio's read_exact: poll_read until n bytes are there, UnexpectedEof if the stream ends first). *)
From Zvt Require Import Base Length Cp437 Encoding Codec.
Open Scope N_scope.

(* ---------- flat stream ---------- *)

(* let mut buf = vec![0;3]; read_exact(buf); len = if buf[2]==0xff { read_exact(2); u16::from_le_bytes } else { buf[2] };
   read_exact(len)  ->  the frame (header ++ body) and the unread rest; None = the stream ended inside *)
Definition read_frame (s : bytes) : option (bytes * bytes) :=
  match s with
  | b0 :: b1 :: b2 :: r =>
      if b2 =? 255 then
        match r with
        | lo :: hi :: r2 =>
            let len := hi * 256 + lo in
            if blen r2 <? len then None else Some ([b0; b1; b2; lo; hi] ++ take len r2, drop len r2)
        | _ => None
        end
      else if blen r <? b2 then None else Some ([b0; b1; b2] ++ take b2 r, drop b2 r)
  | _ => None
  end.

Fixpoint read_frames (k : nat) (s : bytes) : option (list bytes * bytes) :=
  match k with
  | O => Some ([], s)
  | S k => match read_frame s with
           | None => None
           | Some (f, r) => match read_frames k r with
                            | None => None
                            | Some (fs, r') => Some (f :: fs, r')
                            end
           end
  end.

(* read_packet::<T>: frame, then T::zvt_parse on exactly the frame *)
Definition read_packet (fuel : nat) (vs : list variant) (s : bytes) : option (res (N * value) * bytes) :=
  match read_frame s with
  | None => None                                   (* io error: UnexpectedEof *)
  | Some (f, r) => Some (parse_enum fuel vs f, r)
  end.

(* ---------- chunked stream ---------- *)

Inductive chunk := Data (b : bytes) | Pend.

Definition flat (cs : list chunk) : bytes :=
  concat (map (fun c => match c with Data b => b | Pend => [] end) cs).

(* read_exact(n): Some (bytes, remaining chunks) or None when the chunks run out first *)
Fixpoint rx (cs : list chunk) (n : N) (acc : bytes) : option (bytes * list chunk) :=
  if n =? 0 then Some (acc, cs) else
  match cs with
  | [] => None
  | Pend :: r => rx r n acc
  | Data b :: r =>
      if blen b <=? n then rx r (n - blen b) (acc ++ b)
      else Some (acc ++ take n b, Data (drop n b) :: r)
  end.

Definition read_frame_chunks (cs : list chunk) : option (bytes * list chunk) :=
  match rx cs 3 [] with
  | None => None
  | Some (h, cs1) =>
      match h with
      | [b0; b1; b2] =>
          if b2 =? 255 then
            match rx cs1 2 [] with
            | Some ([lo; hi], cs2) =>
                match rx cs2 (hi * 256 + lo) [] with
                | Some (body, cs3) => Some ([b0; b1; b2; lo; hi] ++ body, cs3)
                | None => None
                end
            | _ => None
            end
          else match rx cs1 b2 [] with
               | Some (body, cs2) => Some ([b0; b1; b2] ++ body, cs2)
               | None => None
               end
      | _ => None
      end
  end.
