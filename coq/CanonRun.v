(* CanonRun.v — what the driver runs to measure how many generated values lie inside the proved class. *)
From Zvt Require Import Base Length Cp437 Encoding Codec Lookup CanonClass.
Open Scope N_scope.

(* decode the bytes with the model; 2 = not decodable to (v, []);  1 = v is in the class and its class
   encoding is these very bytes;  0 = outside the class *)
Definition run_canon (name : string) (bs : bytes) : option N :=
  match find_struct name with
  | None => None
  | Some (Some (c, i), fs) =>
      let cm := {| c_class := c; c_instr := i; c_fields := fs |} in
      match dec_cmd FUEL cm bs with
      | Ok (v, []) => match canon_cmd cm v with
                      | Some g => if list_eqb g bs then Some 1 else Some 0
                      | None => Some 0
                      end
      | _ => Some 2
      end
  | Some (None, fs) =>
      match dec_plain FUEL fs bs with
      | Ok (v, []) => match canon_struct fs v with
                      | Some g => if list_eqb g bs then Some 1 else Some 0
                      | None => Some 0
                      end
      | _ => Some 2
      end
  end.
