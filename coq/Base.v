(* Base.v — results, bytes, checked slices.  Mirrors nothing in particular:
   it is the vocabulary in which every Rust function of /repo is transcribed. *)
From Coq Require Export String List NArith ZArith Lia Bool.
Export ListNotations.
Open Scope N_scope.

(* keep N arithmetic opaque to simpl/cbn: lia needs to see the operators *)
Arguments N.add : simpl never.
Arguments N.sub : simpl never.
Arguments N.mul : simpl never.
Arguments N.div : simpl never.
Arguments N.modulo : simpl never.
Arguments N.pow : simpl never.
Arguments N.eqb : simpl never.
Arguments N.ltb : simpl never.
Arguments N.leb : simpl never.
Arguments N.min : simpl never.
Arguments N.max : simpl never.
Arguments N.of_nat : simpl never.
Arguments N.to_nat : simpl never.

(* = zvt_builder::ZVTError *)
Inductive err :=
| IncompleteData
| NonImplemented
| WrongTag (t : N)
| DuplicateTag (t : N)
| MissingRequiredTags (ts : list N)
| Aborted (c : N).

(* Outcome of running a piece of Rust:  a value, a ZVTError, a panic
   (slice/index out of range, unwrap on None, overflow under overflow checks,
   explicit panic!), or fuel exhaustion (the image of non-termination). *)
Inductive res (A : Type) :=
| Ok (a : A)
| Err (e : err)
| Panic
| OutOfFuel.
Arguments Ok {A} a.
Arguments Err {A} e.
Arguments Panic {A}.
Arguments OutOfFuel {A}.

Definition bind {A B} (r : res A) (f : A -> res B) : res B :=
  match r with
  | Ok a => f a
  | Err e => Err e
  | Panic => Panic
  | OutOfFuel => OutOfFuel
  end.
Notation "'let*' x ':=' r 'in' k" := (bind r (fun x => k))
  (at level 200, x pattern, r at level 100, k at level 200, right associativity).

Definition rmap {A B} (f : A -> B) (r : res A) : res B :=
  match r with Ok a => Ok (f a) | Err e => Err e | Panic => Panic | OutOfFuel => OutOfFuel end.

Definition is_ok {A} (r : res A) : bool := match r with Ok _ => true | _ => false end.
Definition is_err {A} (r : res A) : bool := match r with Err _ => true | _ => false end.

Definition bytes := list N.
Definition byte_ok (b : N) : Prop := b < 256.
Definition bytes_ok (bs : bytes) : Prop := Forall byte_ok bs.
Definition byte_okb (b : N) : bool := b <? 256.
Definition bytes_okb (bs : bytes) : bool := forallb byte_okb bs.

Definition blen (bs : bytes) : N := N.of_nat (length bs).
Definition take (n : N) (bs : bytes) : bytes := firstn (N.to_nat n) bs.
Definition drop (n : N) (bs : bytes) : bytes := skipn (N.to_nat n) bs.

(* &bs[a..b] : panics unless a <= b <= len *)
Definition slice (bs : bytes) (a b : N) : res bytes :=
  if (a <=? b) && (b <=? blen bs) then Ok (take (b - a) (drop a bs)) else Panic.
(* &bs[a..] : panics unless a <= len *)
Definition slice_from (bs : bytes) (a : N) : res bytes :=
  if a <=? blen bs then Ok (drop a bs) else Panic.

Fixpoint pow2 (k : nat) : N := match k with O => 1 | S k => 2 * pow2 k end.
Definition zeros (n : N) : bytes := repeat 0 (N.to_nat n).

Lemma blen_app a b : blen (a ++ b) = blen a + blen b.
Proof. unfold blen. rewrite app_length. lia. Qed.
Lemma blen_nil : blen [] = 0. Proof. reflexivity. Qed.
Lemma blen_cons x a : blen (x :: a) = 1 + blen a.
Proof. unfold blen. cbn [length]. lia. Qed.
Lemma take_app_exact a b : take (blen a) (a ++ b) = a.
Proof.
  unfold take, blen. rewrite Nat2N.id.
  rewrite firstn_app, Nat.sub_diag, firstn_all. cbn. apply app_nil_r.
Qed.
Lemma drop_app_exact a b : drop (blen a) (a ++ b) = b.
Proof.
  unfold drop, blen. rewrite Nat2N.id.
  rewrite skipn_app, Nat.sub_diag, skipn_all. reflexivity.
Qed.
Lemma drop_0 a : drop 0 a = a. Proof. reflexivity. Qed.
Lemma take_all a : take (blen a) a = a.
Proof. unfold take, blen. rewrite Nat2N.id. apply firstn_all. Qed.
Lemma blen_take n a : n <= blen a -> blen (take n a) = n.
Proof. unfold blen, take. intros H. rewrite firstn_length. lia. Qed.
Lemma blen_drop n a : blen (drop n a) = blen a - n.
Proof. unfold blen, drop. rewrite skipn_length. lia. Qed.
Lemma blen_zeros n : blen (zeros n) = n.
Proof. unfold blen, zeros. rewrite repeat_length. lia. Qed.
Lemma take_drop n a : take n a ++ drop n a = a.
Proof. apply firstn_skipn. Qed.
