(* CodecRoundtrip.v — serialise -> deserialise (C01), built bottom-up:
   1. one frame  <tag><length><data>   (this section)
   2. one field of every canonical (length style, encoding, type) combination
   3. positional prefix and tag loop of a struct
   4. every well-formed layout *)
From Zvt Require Import Base Length LengthProps Cp437 Encoding EncodingProps Codec CodecTotal CodecFrame.
From Coq Require Import ZifyBool ZifyNat ZifyN.
Ltac Zify.zify_post_hook ::= Z.div_mod_to_equations.
Open Scope N_scope.

(* which payload lengths a style can announce *)

Definition tag_ok (big : bool) (tag : option N) : Prop :=
  match tag with
  | None => True
  | Some t => if big then t < 65536 else tag_repr t
  end.

Lemma tag_strip big tag r : tag_ok big tag ->
  (match tag with
   | None => Ok r
   | Some t => let* (a, r0) := tag_dec big ((match tag with None => [] | Some t => tag_enc big t end) ++ r) in
               if a =? t then Ok r0 else Err (WrongTag a)
   end) = Ok r.
Proof.
  destruct tag as [t|]; [|reflexivity]. cbn [tag_ok]. intros H. destruct big.
  - rewrite tag_be_roundtrip by exact H. cbn [bind]. rewrite N.eqb_refl. reflexivity.
  - rewrite tag_roundtrip by exact H. cbn [bind]. rewrite N.eqb_refl. reflexivity.
Qed.

Lemma len_roundtrip ls p r : delimiting ls = true -> len_fits ls (blen p) = true ->
  exists l, len_ser ls (blen p) = Ok l /\ len_de ls (l ++ p ++ r) = Ok (blen p, p ++ r).
Proof.
  destruct ls; cbn [delimiting len_fits]; try discriminate; intros _ Hf.
  - assert (blen p = n) by lia. subst n. exists []. unfold len_ser, len_de, zeros.
    destruct (blen p <=? blen p) eqn:E; [|lia]. rewrite N.sub_diag. split; [reflexivity|].
    cbn [app]. rewrite blen_app. destruct (blen p + blen r <? blen p) eqn:E2; [lia|reflexivity].
  - destruct (tlv_roundtrip (blen p) ltac:(lia)) as [l [Hs [_ [_ Hd]]]]. exists l. split; [exact Hs|apply Hd].
  - destruct (llv_roundtrip digits (blen p) ltac:(lia)) as [l [Hs [_ [_ Hd]]]]. exists l. split; [exact Hs|apply Hd].
  - destruct (adpu_roundtrip (blen p) ltac:(lia)) as [l [Hs [_ [_ Hd]]]]. exists l. split; [exact Hs|apply Hd].
Qed.

(* one frame: if the inner decoder reads the payload back completely, the frame reads back completely,
   whatever follows it *)
Theorem framed_roundtrip {A} ls big tag (k : bytes -> res (A * bytes)) p v r :
  delimiting ls = true -> len_fits ls (blen p) = true -> tag_ok big tag ->
  k p = Ok (v, []) ->
  exists g, framed_enc ls big tag p = Ok g /\ framed_dec ls big tag k (g ++ r) = Ok (v, r).
Proof.
  intros Hd Hf Ht Hk. destruct (len_roundtrip ls p r Hd Hf) as [l [Hs Hl]].
  unfold framed_enc. rewrite Hs. cbn [bind]. eexists. split; [reflexivity|].
  unfold framed_dec. rewrite <- !app_assoc.
  pose proof (tag_strip big tag (l ++ p ++ r) Ht) as T.
  destruct tag as [t|].
  - rewrite T. cbn [bind]. rewrite Hl. cbn [bind]. rewrite blen_app.
    destruct (blen p + blen r <? blen p) eqn:E; [lia|]. rewrite take_app_exact, Hk. cbn [bind].
    change (blen []) with 0. destruct (0 <=? blen p) eqn:E2; [|lia].
    rewrite N.sub_0_r, drop_app_exact. reflexivity.
  - cbn [app bind]. rewrite Hl. cbn [bind]. rewrite blen_app.
    destruct (blen p + blen r <? blen p) eqn:E; [lia|]. rewrite take_app_exact, Hk. cbn [bind].
    change (blen []) with 0. destruct (0 <=? blen p) eqn:E2; [|lia].
    rewrite N.sub_0_r, drop_app_exact. reflexivity.
Qed.

(* the encoded frame starts with its tag: the struct's loop will find it *)
Lemma framed_enc_starts_with_tag ls t p g r : tag_repr t ->
  framed_enc ls false (Some t) p = Ok g -> exists rest, tag_dec false (g ++ r) = Ok (t, rest).
Proof.
  intros Ht. unfold framed_enc. destruct (len_ser ls (blen p)) as [l| | |]; cbn [bind]; try discriminate.
  intros [= <-]. rewrite <- app_assoc. eexists. apply tag_roundtrip. exact Ht.
Qed.
