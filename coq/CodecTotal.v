(* CodecTotal.v — decoding is total (C02): no decoder of the model can return Panic, every
   remainder is no longer than the input, and explicit fuel suffices (no OutOfFuel). *)
From Zvt Require Import Base Length LengthProps Cp437 Encoding EncodingProps Codec.
From Coq Require Import ZifyBool ZifyNat ZifyN.
Ltac Zify.zify_post_hook ::= Z.div_mod_to_equations.
Open Scope N_scope.

(* a decoder that never panics, never runs out of fuel, and hands back at most what it got *)
Definition good {A} (k : bytes -> res (A * bytes)) : Prop :=
  forall bs, k bs <> Panic /\ k bs <> OutOfFuel /\ (forall v r, k bs = Ok (v, r) -> blen r <= blen bs).

Definition no_panic {A} (k : bytes -> res (A * bytes)) : Prop :=
  forall bs, k bs <> Panic /\ (forall v r, k bs = Ok (v, r) -> blen r <= blen bs).

Lemma good_no_panic {A} (k : bytes -> res (A * bytes)) : good k -> no_panic k.
Proof. intros H bs. destruct (H bs) as [a [b c]]. split; assumption. Qed.

Lemma blen_drop_le n a : blen (drop n a) <= blen a.
Proof. rewrite blen_drop. lia. Qed.

Lemma len_de_le ls bs n r : len_de ls bs = Ok (n, r) -> blen r <= blen bs.
Proof. intros H. apply len_de_suffix in H. destruct H as [q ->]. rewrite blen_app. lia. Qed.

Lemma tag_dec_lt big bs t r : tag_dec big bs = Ok (t, r) -> blen r < blen bs.
Proof.
  unfold tag_dec. destruct big.
  - destruct bs as [|a [|b r']]; try discriminate. intros [= _ <-]. rewrite !blen_cons. lia.
  - destruct bs as [|a r']; [discriminate|]. destruct (_ || _).
    + destruct r' as [|b r'']; [discriminate|]. intros [= _ <-]. rewrite !blen_cons. lia.
    + intros [= _ <-]. rewrite blen_cons. lia.
Qed.

(* framing preserves "never panics / remainder bounded" *)
Lemma framed_dec_np {A} ls big tag (k : bytes -> res (A * bytes)) :
  no_panic k -> no_panic (framed_dec ls big tag k).
Proof.
  intros Hk bs. unfold framed_dec.
  assert (T : forall bs1, (match tag with
              | None => Ok bs
              | Some t => let* (a, r) := tag_dec big bs in if a =? t then Ok r else Err (WrongTag a)
              end) = Ok bs1 -> blen bs1 <= blen bs).
  { intros bs1. destruct tag as [t|]; [|intros [= <-]; lia].
    destruct (tag_dec big bs) as [[a r]| | |] eqn:E; cbn [bind]; try discriminate.
    destruct (a =? t); [|discriminate]. intros [= <-]. apply tag_dec_lt in E. lia. }
  destruct (match tag with None => Ok bs | Some t => _ end) as [bs1| | |] eqn:E1; cbn [bind].
  2:{ split; discriminate. }
  2:{ exfalso. destruct tag as [t|]; [|discriminate].
      destruct (tag_dec big bs) as [[a r]| | |] eqn:E; cbn [bind] in E1; try discriminate.
      - destruct (a =? t); discriminate.
      - destruct (tag_dec_no_panic big bs) as [P _]. congruence. }
  2:{ exfalso. destruct tag as [t|]; [|discriminate].
      destruct (tag_dec big bs) as [[a r]| | |] eqn:E; cbn [bind] in E1; try discriminate.
      - destruct (a =? t); discriminate.
      - destruct (tag_dec_no_panic big bs) as [_ P]. congruence. }
  specialize (T bs1 eq_refl).
  destruct (len_de ls bs1) as [[len payload]| | |] eqn:E2; cbn [bind].
  2:{ split; discriminate. }
  2:{ destruct (len_de_no_panic ls bs1) as [P _]. congruence. }
  2:{ destruct (len_de_no_panic ls bs1) as [_ P]. congruence. }
  apply len_de_le in E2.
  destruct (blen payload <? len) eqn:E3; [split; [discriminate|intros; discriminate]|].
  destruct (Hk (take len payload)) as [Hp Hr].
  destruct (k (take len payload)) as [[data rem]| | |] eqn:E4; cbn [bind].
  - specialize (Hr data rem eq_refl). rewrite blen_take in Hr by lia.
    destruct (blen rem <=? len) eqn:E5; [|lia].
    split; [discriminate|]. intros v r [= _ <-]. rewrite blen_drop. lia.
  - split; discriminate.
  - congruence.
  - split; discriminate.
Qed.

Lemma framed_dec_fuel {A} ls big tag (k : bytes -> res (A * bytes)) bs :
  (forall x, k x <> OutOfFuel) -> framed_dec ls big tag k bs <> OutOfFuel.
Proof.
  intros Hk. unfold framed_dec.
  destruct tag as [t|].
  - destruct (tag_dec big bs) as [[a r]| | |] eqn:E; cbn [bind]; try discriminate.
    + destruct (a =? t); cbn [bind]; [|discriminate].
      destruct (len_de ls r) as [[len payload]| | |] eqn:E2; cbn [bind]; try discriminate.
      * destruct (_ <? _); [discriminate|]. specialize (Hk (take len payload)).
        destruct (k (take len payload)) as [[d rem]| | |]; cbn [bind]; try discriminate; try congruence.
        destruct (_ <=? _); discriminate.
      * destruct (len_de_no_panic ls r) as [_ P]. congruence.
    + destruct (tag_dec_no_panic big bs) as [_ P]. congruence.
  - cbn [bind]. destruct (len_de ls bs) as [[len payload]| | |] eqn:E2; cbn [bind]; try discriminate.
    + destruct (_ <? _); [discriminate|]. specialize (Hk (take len payload)).
      destruct (k (take len payload)) as [[d rem]| | |]; cbn [bind]; try discriminate; try congruence.
      destruct (_ <=? _); discriminate.
    + destruct (len_de_no_panic ls bs) as [_ P]. congruence.
Qed.

(* a tagged frame consumes at least its tag *)
Lemma framed_dec_tag_lt {A} ls big t (k : bytes -> res (A * bytes)) bs v r :
  no_panic k -> framed_dec ls big (Some t) k bs = Ok (v, r) -> blen r < blen bs.
Proof.
  intros Hk. unfold framed_dec.
  destruct (tag_dec big bs) as [[a r0]| | |] eqn:E; cbn [bind]; try discriminate.
  destruct (a =? t); cbn [bind]; [|discriminate]. apply tag_dec_lt in E.
  destruct (len_de ls r0) as [[len payload]| | |] eqn:E2; cbn [bind]; try discriminate.
  apply len_de_le in E2. destruct (blen payload <? len) eqn:E3; [discriminate|].
  destruct (Hk (take len payload)) as [_ Hr].
  destruct (k (take len payload)) as [[d rem]| | |]; cbn [bind]; try discriminate.
  specialize (Hr d rem eq_refl). rewrite blen_take in Hr by lia.
  destruct (blen rem <=? len) eqn:E5; [|discriminate]. intros [= _ <-]. rewrite blen_drop. lia.
Qed.

(* ---------- primitive decoders ---------- *)

Lemma int_dec_good big w : good (fun bs => let* (n, r) := int_dec big w bs in Ok (VInt n, r)).
Proof.
  intros bs. unfold int_dec. destruct (blen bs <? w); cbn [bind].
  - repeat split; discriminate.
  - repeat split; try discriminate. intros v r [= _ <-]. apply blen_drop_le.
Qed.

Lemma bcd_dec_np w : no_panic (bcd_dec w).
Proof.
  intros bs. rewrite bcd_dec_spec. destruct (_ <? _); split; try discriminate.
  intros v r [= _ <-]. unfold blen. cbn [length]. lia.
Qed.

Lemma bcd_dec_fuel w bs : bcd_dec w bs <> OutOfFuel.
Proof. rewrite bcd_dec_spec. destruct (_ <? _); discriminate. Qed.

Lemma dt_loop_good fuel : forall bs date time, (length bs < fuel)%nat ->
  dt_loop fuel bs date time <> Panic /\ dt_loop fuel bs date time <> OutOfFuel /\
  (forall d t r, dt_loop fuel bs date time = Ok (d, t, r) -> blen r <= blen bs).
Proof.
  induction fuel as [|fuel IH]; intros bs date time Hf; [lia|].
  cbn [dt_loop]. destruct bs as [|b0 bs'] eqn:Eb.
  { repeat split; try discriminate. intros d t r [= _ _ <-]. lia. }
  rewrite <- Eb in *. clear Eb b0 bs'.
  destruct (tag_dec false bs) as [[t r0]| | |] eqn:E; cbn [bind].
  2:{ repeat split; discriminate. }
  2:{ destruct (tag_dec_no_panic false bs) as [P _]. congruence. }
  2:{ destruct (tag_dec_no_panic false bs) as [_ P]. congruence. }
  assert (F : forall w tg, match framed_dec LTlv false (Some tg) (bcd_dec w) bs with
              | Ok (v, r) => blen r < blen bs | Err _ => True | _ => False end).
  { intros w tg. pose proof (framed_dec_np LTlv false (Some tg) (bcd_dec w) (bcd_dec_np w) bs) as [P _].
    pose proof (framed_dec_fuel LTlv false (Some tg) (bcd_dec w) bs (bcd_dec_fuel w)) as Q.
    destruct (framed_dec LTlv false (Some tg) (bcd_dec w) bs) as [[v r]| | |] eqn:E2; try congruence; [|exact I].
    eapply framed_dec_tag_lt; [apply bcd_dec_np|exact E2]. }
  destruct (t =? DATE_TAG).
  { destruct date; [repeat split; try discriminate; intros; discriminate|].
    specialize (F 8 DATE_TAG).
    destruct (framed_dec LTlv false (Some DATE_TAG) (bcd_dec 8) bs) as [[v r]| | |]; cbn [bind]; try contradiction.
    - destruct (IH r (Some v) time) as [A [B C]]; [unfold blen in F; lia|].
      repeat split; try assumption. intros d t' r' H. apply C in H. lia.
    - repeat split; discriminate. }
  destruct (t =? TIME_TAG).
  { destruct time; [repeat split; try discriminate; intros; discriminate|].
    specialize (F 4 TIME_TAG).
    destruct (framed_dec LTlv false (Some TIME_TAG) (bcd_dec 4) bs) as [[v r]| | |]; cbn [bind]; try contradiction.
    - destruct (IH r date (Some v)) as [A [B C]]; [unfold blen in F; lia|].
      repeat split; try assumption. intros d t' r' H. apply C in H. lia.
    - repeat split; discriminate. }
  repeat split; try discriminate. intros d t' r' [= _ _ <-]. lia.
Qed.

Ltac closer := repeat split; try discriminate;
  try (let v := fresh "v" in let r := fresh "r" in let H := fresh "H" in
       intros v r H; injection H as _ <-;
       first [assumption | unfold blen; cbn [length]; lia | rewrite !blen_cons; lia | apply blen_drop_le]).

Lemma datetime_dec_good : good datetime_dec.
Proof.
  intros bs. unfold datetime_dec.
  destruct (dt_loop_good (S (length bs)) bs None None) as [A [B C]]; [lia|].
  destruct (dt_loop (S (length bs)) bs None None) as [[[d t] r]| | |] eqn:E; cbn [bind]; try congruence.
  - specialize (C d t r eq_refl).
    destruct d as [date|]; [|closer]. destruct t as [time|]; [|closer].
    destruct (_ && _); closer.
  - closer.
Qed.

Lemma prim_dec_good e p : good (prim_dec e p).
Proof.
  destruct e, p; unfold prim_dec;
    try apply int_dec_good; try apply datetime_dec_good; try (intros bs; closer; fail).
  - intros bs. rewrite bcd_dec_spec. destruct (_ <? _); cbn [bind]; closer.
  - intros bs. destruct (utf8_dec bs); closer.
  - intros bs. destruct bs as [|b0 [|b1 r]]; try (closer; fail).
    destruct (_ && _); [closer|].
    rewrite bcd_dec_spec. destruct (_ <? _); cbn [bind]; closer.
Qed.

(* ---------- loops ---------- *)

Definition D_np (D : dec_fn) : Prop := forall ls e t tag, no_panic (D ls e t tag).

Lemma vec_loop_np n step : no_panic step -> forall bs acc,
  vec_loop n step bs acc <> Panic /\ (forall v r, vec_loop n step bs acc = Ok (v, r) -> blen r <= blen bs).
Proof.
  intros Hs. induction n as [|n IH]; intros bs acc; cbn [vec_loop]; [split; discriminate|].
  destruct (Hs bs) as [Hp Hr]. destruct (step bs) as [[v r]| | |] eqn:E; try (split; discriminate); try congruence.
  - specialize (Hr v r eq_refl). destruct (blen r =? blen bs) eqn:E2.
    + split; [discriminate|]. intros v' r' [= _ <-]. lia.
    + destruct (IH r (v :: acc)) as [A B]. split; [exact A|]. intros v' r' H. apply B in H. lia.
  - split; [discriminate|]. intros v' r' [= _ <-]. lia.
Qed.

Lemma vec_loop_fuel n step : no_panic step -> (forall x, step x <> OutOfFuel) -> forall bs acc,
  (length bs < n)%nat -> vec_loop n step bs acc <> OutOfFuel.
Proof.
  intros Hs Hf. induction n as [|n IH]; intros bs acc Hn; [lia|]. cbn [vec_loop].
  destruct (Hs bs) as [_ Hr]. specialize (Hf bs).
  destruct (step bs) as [[v r]| | |] eqn:E; try discriminate; try congruence.
  specialize (Hr v r eq_refl). destruct (blen r =? blen bs) eqn:E2; [discriminate|].
  apply IH. unfold blen in *. lia.
Qed.

Lemma dec_positional_np D fs : D_np D -> forall bs,
  dec_positional D fs bs <> Panic /\ (forall v r, dec_positional D fs bs = Ok (v, r) -> blen r <= blen bs).
Proof.
  intros HD. induction fs as [|[name tg ls e t] fs IH]; intros bs; cbn [dec_positional].
  - split; [discriminate|]. intros v r [= _ <-]. lia.
  - destruct tg as [tg|]; [apply IH|].
    destruct (HD ls e t None bs) as [Hp Hr].
    destruct (D ls e t None bs) as [[v bs1]| | |] eqn:E; cbn [bind]; try (split; discriminate); try congruence.
    specialize (Hr v bs1 eq_refl). destruct (IH bs1) as [A B].
    destruct (dec_positional D fs bs1) as [[vs bs2]| | |] eqn:E2; cbn [bind]; try (split; discriminate); try congruence.
    split; [discriminate|]. intros v' r' [= _ <-]. specialize (B vs bs2 eq_refl). lia.
Qed.

Lemma find_tagged_in fs : forall num i j f, find_tagged fs num i = Some (j, f) -> In f fs.
Proof.
  induction fs as [|g fs IH]; intros num i j f H; cbn [find_tagged] in H; [discriminate|].
  destruct (f_tag g) as [t|].
  - destruct (t =? num); [injection H as _ <-; left; reflexivity|right; eapply IH; exact H].
  - right. eapply IH. exact H.
Qed.

Lemma tag_loop_np n D fs : D_np D -> forall bs cl seen vals,
  tag_loop n D fs bs cl seen vals <> Panic /\
  (forall s v r, tag_loop n D fs bs cl seen vals = Ok (s, v, r) -> blen r <= blen bs).
Proof.
  intros HD. induction n as [|n IH]; intros bs cl seen vals; cbn [tag_loop]; [split; discriminate|].
  destruct bs as [|b0 bs'] eqn:Eb; [split; [discriminate|]; intros s v r [= _ _ <-]; lia|].
  rewrite <- Eb. clear Eb b0 bs'.
  destruct (cl =? blen bs); [split; [discriminate|]; intros s v r [= _ _ <-]; lia|].
  destruct (tag_dec false bs) as [[num r0]| | |] eqn:E.
  - destruct (find_tagged fs num 0) as [[i [nm tg ls e t]]|].
    + destruct (existsb (N.eqb num) seen); [split; discriminate|].
      destruct (HD ls e t (Some num) bs) as [Hp Hr].
      destruct (D ls e t (Some num) bs) as [[v r]| | |] eqn:E2; cbn [bind]; try (split; discriminate); try congruence.
      specialize (Hr v r eq_refl). destruct (IH r (blen bs) (num :: seen) (set_nth vals i v)) as [A B].
      split; [exact A|]. intros s v' r' H. apply B in H. lia.
    + split; [discriminate|]. intros s v r [= _ _ <-]. lia.
  - split; [discriminate|]. intros s v r [= _ _ <-]. lia.
  - destruct (tag_dec_no_panic false bs) as [P _]. congruence.
  - destruct (tag_dec_no_panic false bs) as [_ P]. congruence.
Qed.

Lemma tag_loop_fuel n D fs : D_np D ->
  (forall f, In f fs -> forall tag x, D (f_ls f) (f_enc f) (f_ty f) tag x <> OutOfFuel) ->
  forall bs cl seen vals, ((length bs < n)%nat \/ ((0 < n)%nat /\ cl = blen bs)) ->
  tag_loop n D fs bs cl seen vals <> OutOfFuel.
Proof.
  intros HD Hf. induction n as [|n IH]; intros bs cl seen vals Hn; [lia|]. cbn [tag_loop].
  destruct bs as [|b0 bs'] eqn:Eb; [discriminate|]. rewrite <- Eb in *.
  assert (Hlen : (0 < length bs)%nat) by (rewrite Eb; cbn; lia). clear Eb b0 bs'.
  destruct (cl =? blen bs) eqn:Ecl; [discriminate|].
  assert (Hn' : (length bs < S n)%nat) by (destruct Hn as [H|[_ H]]; [exact H|lia]).
  destruct (tag_dec false bs) as [[num r0]| | |] eqn:E; try discriminate.
  2:{ destruct (tag_dec_no_panic false bs) as [_ P]. congruence. }
  destruct (find_tagged fs num 0) as [[i [nm tg ls e t]]|] eqn:Ef; [|discriminate].
  destruct (existsb (N.eqb num) seen); [discriminate|].
  apply find_tagged_in in Ef. specialize (Hf _ Ef (Some num) bs). cbn in Hf.
  destruct (HD ls e t (Some num) bs) as [_ Hr].
  destruct (D ls e t (Some num) bs) as [[v r]| | |] eqn:E2; cbn [bind]; try discriminate; try congruence.
  specialize (Hr v r eq_refl). apply IH.
  destruct (N.eq_dec (blen r) (blen bs)) as [Heq|Hne].
  - right. split; [lia|]. symmetry. exact Heq.
  - left. unfold blen in *. lia.
Qed.

Lemma dec_struct_with_np D fs : D_np D -> no_panic (dec_struct_with D fs).
Proof.
  intros HD bs. unfold dec_struct_with.
  destruct (dec_positional_np D fs HD bs) as [Pp Pr].
  destruct (dec_positional D fs bs) as [[pos bs1]| | |] eqn:E; cbn [bind]; try (split; discriminate); try congruence.
  specialize (Pr pos bs1 eq_refl).
  destruct (tag_loop_np (S (length bs1)) D fs HD bs1 (blen bs1 + 1) [] (init_slots fs pos)) as [Tp Tr].
  destruct (tag_loop _ D fs bs1 _ _ _) as [[[seen vals] bs2]| | |] eqn:E2; cbn [bind]; try (split; discriminate); try congruence.
  specialize (Tr seen vals bs2 eq_refl).
  destruct (filter _ _); split; try discriminate. intros v r [= _ <-]. lia.
Qed.

Lemma dec_struct_with_fuel D fs : D_np D ->
  (forall f, In f fs -> forall tag x, D (f_ls f) (f_enc f) (f_ty f) tag x <> OutOfFuel) ->
  forall bs, dec_struct_with D fs bs <> OutOfFuel.
Proof.
  intros HD Hf bs. unfold dec_struct_with.
  assert (P : forall fs' bs0, (forall f, In f fs' -> In f fs) -> dec_positional D fs' bs0 <> OutOfFuel).
  { induction fs' as [|[name tg ls e t] fs' IH]; intros bs0 Hin; cbn [dec_positional]; [discriminate|].
    destruct tg; [apply IH; intros; apply Hin; right; assumption|].
    pose proof (Hf _ (Hin _ (or_introl eq_refl)) None bs0) as H0. cbn in H0.
    destruct (D ls e t None bs0) as [[v b1]| | |]; cbn [bind]; try discriminate; try congruence.
    specialize (IH b1 (fun f H => Hin f (or_intror H))).
    destruct (dec_positional D fs' b1) as [[vs b2]| | |]; cbn [bind]; try discriminate; congruence. }
  specialize (P fs bs (fun f H => H)).
  destruct (dec_positional D fs bs) as [[pos bs1]| | |] eqn:E; cbn [bind]; try discriminate; try congruence.
  pose proof (tag_loop_fuel (S (length bs1)) D fs HD Hf bs1 (blen bs1 + 1) [] (init_slots fs pos)) as T.
  destruct (tag_loop _ D fs bs1 _ _ _) as [[[seen vals] bs2]| | |] eqn:E2; cbn [bind]; try discriminate.
  - destruct (filter _ _); discriminate.
  - exfalso. apply T; [left; lia|reflexivity].
Qed.

(* ---------- the generic decoder ---------- *)

Theorem dec_np : forall fuel, D_np (dec fuel).
Proof.
  induction fuel as [|f IH]; intros ls e t tag bs; [cbn; split; discriminate|].
  cbn [dec]. destruct t as [p|u|u|fs].
  - apply framed_dec_np. apply good_no_panic. apply prim_dec_good.
  - destruct tag as [tg|].
    + destruct (IH ls e u (Some tg) bs) as [Hp Hr].
      destruct (dec f ls e u (Some tg) bs) as [[v r]| | |] eqn:E; cbn [bind]; try (split; discriminate); try congruence.
      split; [discriminate|]. intros v' r' [= _ <-]. apply (Hr v r eq_refl).
    + destruct (IH ls e u None bs) as [Hp Hr].
      destruct (dec f ls e u None bs) as [[v r]| | |] eqn:E; try (split; discriminate); try congruence.
      * split; [discriminate|]. intros v' r' [= _ <-]. apply (Hr v r eq_refl).
      * split; [discriminate|]. intros v' r' [= _ <-]. lia.
  - apply vec_loop_np. apply IH.
  - destruct e; try (split; discriminate).
    apply framed_dec_np. apply dec_struct_with_np. exact IH.
Qed.

Lemma depth_field_lt f fs : In f fs -> (depth (f_ty f) < depth (TStruct fs))%nat.
Proof.
  induction fs as [|[nm tg ls e t] fs IH]; intros H; [contradiction|].
  destruct H as [<-|H].
  - cbn. lia.
  - specialize (IH H). cbn in *. lia.
Qed.

Theorem dec_fuel_sufficient : forall fuel ls e t tag bs, (depth t <= fuel)%nat ->
  dec fuel ls e t tag bs <> OutOfFuel.
Proof.
  induction fuel as [|f IH]; intros ls e t tag bs Hd; [destruct t; cbn in Hd; lia|].
  cbn [dec]. destruct t as [p|u|u|fs].
  - apply framed_dec_fuel. intros x. destruct (prim_dec_good e p x) as [_ [H _]]. exact H.
  - assert (Hu : (depth u <= f)%nat) by (cbn in Hd; lia).
    destruct tag as [tg|].
    + pose proof (IH ls e u (Some tg) bs Hu). destruct (dec f ls e u (Some tg) bs) as [[v r]| | |]; cbn [bind]; try discriminate; congruence.
    + pose proof (IH ls e u None bs Hu). destruct (dec f ls e u None bs) as [[v r]| | |]; try discriminate; congruence.
  - assert (Hu : (depth u <= f)%nat) by (cbn in Hd; lia).
    apply vec_loop_fuel; [apply dec_np| |lia]. intros x. apply IH. exact Hu.
  - destruct e; try discriminate. apply framed_dec_fuel. intros x.
    apply dec_struct_with_fuel; [apply dec_np|].
    intros g Hg tag' x'. apply IH. pose proof (depth_field_lt g fs Hg). lia.
Qed.

(* the same for whole packets and for reply parsers *)
Theorem dec_cmd_total : forall fuel c bs, (depth_fields (c_fields c) <= S fuel)%nat ->
  dec_cmd fuel c bs <> Panic /\ dec_cmd fuel c bs <> OutOfFuel /\
  (forall v r, dec_cmd fuel c bs = Ok (v, r) -> blen r <= blen bs).
Proof.
  intros fuel c bs Hd. unfold dec_cmd, dec_struct.
  pose proof (framed_dec_np LAdpu true (Some (cf c)) _ (dec_struct_with_np (dec fuel) (c_fields c) (dec_np fuel)) bs) as [A B].
  split; [exact A|]. split; [|exact B].
  apply framed_dec_fuel. intros x. apply dec_struct_with_fuel; [apply dec_np|].
  intros g Hg tag x'. apply dec_fuel_sufficient. pose proof (depth_field_lt g _ Hg). unfold depth_fields in Hd. lia.
Qed.

Lemma parse_variants_total : forall fuel vs i b0 b1 bs,
  (forall nm c, In (nm, c) vs -> (depth_fields (c_fields c) <= S fuel)%nat) ->
  parse_variants fuel vs i b0 b1 bs <> Panic /\ parse_variants fuel vs i b0 b1 bs <> OutOfFuel.
Proof.
  intros fuel vs. induction vs as [|[nm c] vs IH]; intros i b0 b1 bs H; cbn [parse_variants]; [split; discriminate|].
  destruct (_ && _).
  - destruct (dec_cmd_total fuel c bs (H nm c (or_introl eq_refl))) as [A [B _]].
    destruct (dec_cmd fuel c bs) as [[v r']| | |]; cbn [bind]; try (split; discriminate); congruence.
  - apply IH. intros nm' c' Hin. apply (H nm' c'). right. exact Hin.
Qed.

Theorem parse_enum_total : forall fuel vs bs,
  (forall nm c, In (nm, c) vs -> (depth_fields (c_fields c) <= S fuel)%nat) ->
  parse_enum fuel vs bs <> Panic /\ parse_enum fuel vs bs <> OutOfFuel.
Proof.
  intros fuel vs bs H. unfold parse_enum. destruct bs as [|b0 [|b1 r]]; try (split; discriminate).
  apply parse_variants_total. exact H.
Qed.
