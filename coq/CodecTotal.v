(* CodecTotal.v — decoding is total (C02): no decoder of the model can return Panic, every
   remainder is no longer than the input, and explicit fuel suffices (no OutOfFuel). *)
From Zvt Require Import Base Length LengthProps Cp437 Encoding EncodingProps Codec.
From Coq Require Import ZifyBool ZifyNat ZifyN.
Ltac Zify.zify_post_hook ::= Z.div_mod_to_equations.
Open Scope N_scope.

(* a decoder that never panics, never runs out of fuel, and hands back at most what it got *)
Definition good {A} (k : bytes -> res (A * bytes)) : Prop :=
  forall bs, k bs <> Panic /\ k bs <> OutOfFuel /\ (forall v r, k bs = Ok (v, r) -> blen r <= blen bs).

Definition no_panic {A} (k : bytes -> res (A * bytes)) : Prop :=
  forall bs, k bs <> Panic /\ (forall v r, k bs = Ok (v, r) -> blen r <= blen bs).

Lemma good_no_panic {A} (k : bytes -> res (A * bytes)) : good k -> no_panic k.
Proof. intros H bs. destruct (H bs) as [a [b c]]. split; assumption. Qed.

Lemma blen_drop_le n a : blen (drop n a) <= blen a.
Proof. rewrite blen_drop. lia. Qed.

Lemma len_de_le ls bs n r : len_de ls bs = Ok (n, r) -> blen r <= blen bs.
Proof. intros H. apply len_de_suffix in H. destruct H as [q ->]. rewrite blen_app. lia. Qed.

Lemma tag_dec_lt big bs t r : tag_dec big bs = Ok (t, r) -> blen r < blen bs.
Proof.
  unfold tag_dec. destruct big.
  - destruct bs as [|a [|b r']]; try discriminate. intros [= _ <-]. rewrite !blen_cons. lia.
  - destruct bs as [|a r']; [discriminate|]. destruct (_ || _).
    + destruct r' as [|b r'']; [discriminate|]. intros [= _ <-]. rewrite !blen_cons. lia.
    + intros [= _ <-]. rewrite blen_cons. lia.
Qed.

(* framing preserves "never panics / remainder bounded" *)
Lemma framed_dec_np {A} ls big tag (k : bytes -> res (A * bytes)) :
  no_panic k -> no_panic (framed_dec ls big tag k).
Proof.
  intros Hk bs. unfold framed_dec.
  assert (T : forall bs1, (match tag with
              | None => Ok bs
              | Some t => let* (a, r) := tag_dec big bs in if a =? t then Ok r else Err (WrongTag a)
              end) = Ok bs1 -> blen bs1 <= blen bs).
  { intros bs1. destruct tag as [t|]; [|intros [= <-]; lia].
    destruct (tag_dec big bs) as [[a r]| | |] eqn:E; cbn [bind]; try discriminate.
    destruct (a =? t); [|discriminate]. intros [= <-]. apply tag_dec_lt in E. lia. }
  destruct (match tag with None => Ok bs | Some t => _ end) as [bs1| | |] eqn:E1; cbn [bind].
  2:{ split; discriminate. }
  2:{ exfalso. destruct tag as [t|]; [|discriminate].
      destruct (tag_dec big bs) as [[a r]| | |] eqn:E; cbn [bind] in E1; try discriminate.
      - destruct (a =? t); discriminate.
      - destruct (tag_dec_no_panic big bs) as [P _]. congruence. }
  2:{ exfalso. destruct tag as [t|]; [|discriminate].
      destruct (tag_dec big bs) as [[a r]| | |] eqn:E; cbn [bind] in E1; try discriminate.
      - destruct (a =? t); discriminate.
      - destruct (tag_dec_no_panic big bs) as [_ P]. congruence. }
  specialize (T bs1 eq_refl).
  destruct (len_de ls bs1) as [[len payload]| | |] eqn:E2; cbn [bind].
  2:{ split; discriminate. }
  2:{ destruct (len_de_no_panic ls bs1) as [P _]. congruence. }
  2:{ destruct (len_de_no_panic ls bs1) as [_ P]. congruence. }
  apply len_de_le in E2.
  destruct (blen payload <? len) eqn:E3; [split; [discriminate|intros; discriminate]|].
  destruct (Hk (take len payload)) as [Hp Hr].
  destruct (k (take len payload)) as [[data rem]| | |] eqn:E4; cbn [bind].
  - specialize (Hr data rem eq_refl). rewrite blen_take in Hr by lia.
    destruct (blen rem <=? len) eqn:E5; [|lia].
    split; [discriminate|]. intros v r [= _ <-]. rewrite blen_drop. lia.
  - split; discriminate.
  - congruence.
  - split; discriminate.
Qed.

Lemma framed_dec_fuel {A} ls big tag (k : bytes -> res (A * bytes)) bs :
  (forall x, k x <> OutOfFuel) -> framed_dec ls big tag k bs <> OutOfFuel.
Proof.
  intros Hk. unfold framed_dec.
  destruct tag as [t|].
  - destruct (tag_dec big bs) as [[a r]| | |] eqn:E; cbn [bind]; try discriminate.
    + destruct (a =? t); cbn [bind]; [|discriminate].
      destruct (len_de ls r) as [[len payload]| | |] eqn:E2; cbn [bind]; try discriminate.
      * destruct (_ <? _); [discriminate|]. specialize (Hk (take len payload)).
        destruct (k (take len payload)) as [[d rem]| | |]; cbn [bind]; try discriminate; try congruence.
        destruct (_ <=? _); discriminate.
      * destruct (len_de_no_panic ls r) as [_ P]. congruence.
    + destruct (tag_dec_no_panic big bs) as [_ P]. congruence.
  - cbn [bind]. destruct (len_de ls bs) as [[len payload]| | |] eqn:E2; cbn [bind]; try discriminate.
    + destruct (_ <? _); [discriminate|]. specialize (Hk (take len payload)).
      destruct (k (take len payload)) as [[d rem]| | |]; cbn [bind]; try discriminate; try congruence.
      destruct (_ <=? _); discriminate.
    + destruct (len_de_no_panic ls bs) as [_ P]. congruence.
Qed.

(* a tagged frame consumes at least its tag *)
Lemma framed_dec_tag_lt {A} ls big t (k : bytes -> res (A * bytes)) bs v r :
  no_panic k -> framed_dec ls big (Some t) k bs = Ok (v, r) -> blen r < blen bs.
Proof.
  intros Hk. unfold framed_dec.
  destruct (tag_dec big bs) as [[a r0]| | |] eqn:E; cbn [bind]; try discriminate.
  destruct (a =? t); cbn [bind]; [|discriminate]. apply tag_dec_lt in E.
  destruct (len_de ls r0) as [[len payload]| | |] eqn:E2; cbn [bind]; try discriminate.
  apply len_de_le in E2. destruct (blen payload <? len) eqn:E3; [discriminate|].
  destruct (Hk (take len payload)) as [_ Hr].
  destruct (k (take len payload)) as [[d rem]| | |]; cbn [bind]; try discriminate.
  specialize (Hr d rem eq_refl). rewrite blen_take in Hr by lia.
  destruct (blen rem <=? len) eqn:E5; [|discriminate]. intros [= _ <-]. rewrite blen_drop. lia.
Qed.

(* ---------- primitive decoders ---------- *)

Lemma int_dec_good big w : good (fun bs => let* (n, r) := int_dec big w bs in Ok (VInt n, r)).
Proof.
  intros bs. unfold int_dec. destruct (blen bs <? w); cbn [bind].
  - repeat split; discriminate.
  - repeat split; try discriminate. intros v r [= _ <-]. apply blen_drop_le.
Qed.

Lemma bcd_dec_np w : no_panic (bcd_dec w).
Proof.
  intros bs. rewrite bcd_dec_spec. destruct (_ <? _); split; try discriminate.
  intros v r [= _ <-]. unfold blen. cbn [length]. lia.
Qed.

Lemma bcd_dec_fuel w bs : bcd_dec w bs <> OutOfFuel.
Proof. rewrite bcd_dec_spec. destruct (_ <? _); discriminate. Qed.

Lemma dt_loop_good fuel : forall bs date time, (length bs < fuel)%nat ->
  dt_loop fuel bs date time <> Panic /\ dt_loop fuel bs date time <> OutOfFuel /\
  (forall d t r, dt_loop fuel bs date time = Ok (d, t, r) -> blen r <= blen bs).
Proof.
  induction fuel as [|fuel IH]; intros bs date time Hf; [lia|].
  cbn [dt_loop]. destruct bs as [|b0 bs'] eqn:Eb.
  { repeat split; try discriminate. intros d t r [= _ _ <-]. lia. }
  rewrite <- Eb in *. clear Eb b0 bs'.
  destruct (tag_dec false bs) as [[t r0]| | |] eqn:E; cbn [bind].
  2:{ repeat split; discriminate. }
  2:{ destruct (tag_dec_no_panic false bs) as [P _]. congruence. }
  2:{ destruct (tag_dec_no_panic false bs) as [_ P]. congruence. }
  assert (F : forall w tg, match framed_dec LTlv false (Some tg) (bcd_dec w) bs with
              | Ok (v, r) => blen r < blen bs | Err _ => True | _ => False end).
  { intros w tg. pose proof (framed_dec_np LTlv false (Some tg) (bcd_dec w) (bcd_dec_np w) bs) as [P _].
    pose proof (framed_dec_fuel LTlv false (Some tg) (bcd_dec w) bs (bcd_dec_fuel w)) as Q.
    destruct (framed_dec LTlv false (Some tg) (bcd_dec w) bs) as [[v r]| | |] eqn:E2; try congruence; [|exact I].
    eapply framed_dec_tag_lt; [apply bcd_dec_np|exact E2]. }
  destruct (t =? DATE_TAG).
  { destruct date; [repeat split; try discriminate; intros; discriminate|].
    specialize (F 8 DATE_TAG).
    destruct (framed_dec LTlv false (Some DATE_TAG) (bcd_dec 8) bs) as [[v r]| | |]; cbn [bind]; try contradiction.
    - destruct (IH r (Some v) time) as [A [B C]]; [unfold blen in F; lia|].
      repeat split; try assumption. intros d t' r' H. apply C in H. lia.
    - repeat split; discriminate. }
  destruct (t =? TIME_TAG).
  { destruct time; [repeat split; try discriminate; intros; discriminate|].
    specialize (F 4 TIME_TAG).
    destruct (framed_dec LTlv false (Some TIME_TAG) (bcd_dec 4) bs) as [[v r]| | |]; cbn [bind]; try contradiction.
    - destruct (IH r date (Some v)) as [A [B C]]; [unfold blen in F; lia|].
      repeat split; try assumption. intros d t' r' H. apply C in H. lia.
    - repeat split; discriminate. }
  repeat split; try discriminate. intros d t' r' [= _ _ <-]. lia.
Qed.

Ltac closer := repeat split; try discriminate;
  try (let v := fresh "v" in let r := fresh "r" in let H := fresh "H" in
       intros v r H; injection H as _ <-;
       first [assumption | unfold blen; cbn [length]; lia | rewrite !blen_cons; lia | apply blen_drop_le]).

Lemma datetime_dec_good : good datetime_dec.
Proof.
  intros bs. unfold datetime_dec.
  destruct (dt_loop_good (S (length bs)) bs None None) as [A [B C]]; [lia|].
  destruct (dt_loop (S (length bs)) bs None None) as [[[d t] r]| | |] eqn:E; cbn [bind]; try congruence.
  - specialize (C d t r eq_refl).
    destruct d as [date|]; [|closer]. destruct t as [time|]; [|closer].
    destruct (_ && _); closer.
  - closer.
Qed.

Lemma prim_dec_good e p : good (prim_dec e p).
Proof.
  destruct e, p; unfold prim_dec;
    try apply int_dec_good; try apply datetime_dec_good; try (intros bs; closer; fail).
  - intros bs. rewrite bcd_dec_spec. destruct (_ <? _); cbn [bind]; closer.
  - intros bs. destruct (utf8_dec bs); closer.
  - intros bs. destruct bs as [|b0 [|b1 r]]; try (closer; fail).
    destruct (_ && _); [closer|].
    rewrite bcd_dec_spec. destruct (_ <? _); cbn [bind]; closer.
Qed.
