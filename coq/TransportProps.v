(* TransportProps.v — packets are read exactly at APDU boundaries (C04). *)
From Zvt Require Import Base Length LengthProps Cp437 Encoding Codec CodecFrame Transport.
From Coq Require Import ZifyBool ZifyNat ZifyN.
Ltac Zify.zify_post_hook ::= Z.div_mod_to_equations.
Open Scope N_scope.

(* what the writer emits for a body: class, instruction, APDU length (Length::Adpu), body *)
Definition frame_of (c i : N) (body : bytes) : bytes :=
  [c; i] ++ (if blen body <? 255 then [blen body] else [255; blen body mod 256; blen body / 256]) ++ body.

(* the writer's header and the reader's interpretation agree for every body length 0..65535,
   including the 254/255 switch: the reader returns exactly the frame and leaves exactly the rest *)
Theorem header_agreement c i body rest : blen body <= 65535 ->
  read_frame (frame_of c i body ++ rest) = Some (frame_of c i body, rest) /\
  len_de LAdpu ((if blen body <? 255 then [blen body] else [255; blen body mod 256; blen body / 256]) ++ body ++ rest)
    = Ok (blen body, body ++ rest).
Proof.
  intros H. split.
  - unfold frame_of, read_frame. destruct (blen body <? 255) eqn:E; cbn [app].
    + destruct (blen body =? 255) eqn:E2; [lia|]. rewrite blen_app.
      destruct (blen body + blen rest <? blen body) eqn:E3; [lia|].
      rewrite take_app_exact, drop_app_exact. reflexivity.
    + replace (255 =? 255) with true by reflexivity.
      replace (blen body / 256 * 256 + blen body mod 256) with (blen body) by lia.
      rewrite blen_app. destruct (blen body + blen rest <? blen body) eqn:E3; [lia|].
      rewrite take_app_exact, drop_app_exact. reflexivity.
  - apply adpu_ser_de; [exact H|]. unfold len_ser. destruct (blen body <? 255) eqn:E; [reflexivity|].
    do 4 f_equal; lia.
Qed.

(* a concatenation of k encoded packets is returned as those k packets in order, nothing else consumed *)
Theorem read_frames_concat : forall (ps : list (N * N * bytes)) rest,
  Forall (fun p => blen (snd p) <= 65535) ps ->
  read_frames (length ps) (concat (map (fun p => frame_of (fst (fst p)) (snd (fst p)) (snd p)) ps) ++ rest)
    = Some (map (fun p => frame_of (fst (fst p)) (snd (fst p)) (snd p)) ps, rest).
Proof.
  induction ps as [|[[c i] body] ps IH]; intros rest H; [reflexivity|].
  cbn [length map concat read_frames fst snd]. rewrite <- app_assoc.
  destruct (header_agreement c i body (concat (map (fun p => frame_of (fst (fst p)) (snd (fst p)) (snd p)) ps) ++ rest)) as [R _].
  { apply (Forall_inv H). }
  rewrite R. rewrite IH by (apply (Forall_inv_tail H)). reflexivity.
Qed.

(* a connection ending inside a packet never yields a packet *)
Theorem read_truncated c i body q : blen body <= 65535 ->
  (exists s, s <> [] /\ frame_of c i body = q ++ s) -> read_frame q = None.
Proof.
  intros H [s [Hne Hq]]. unfold frame_of in Hq. unfold read_frame.
  assert (Hs : 1 <= blen s) by (destruct s; [congruence|rewrite blen_cons; lia]).
  destruct q as [|q0 [|q1 [|q2 r]]]; try reflexivity.
  destruct (blen body <? 255) eqn:E; cbn [app] in Hq.
  - injection Hq as <- <- <- Hr. destruct (blen body =? 255) eqn:E2; [lia|].
    rewrite Hr, blen_app. destruct (blen r <? blen r + blen s) eqn:E3; [reflexivity|lia].
  - injection Hq as <- <- <- Hr. replace (255 =? 255) with true by reflexivity.
    destruct r as [|lo [|hi r2]]; try reflexivity. cbn [app] in Hr. injection Hr as <- <- Hr.
    replace (blen body / 256 * 256 + blen body mod 256) with (blen body) by lia.
    rewrite Hr, blen_app. destruct (blen r2 <? blen r2 + blen s) eqn:E3; [reflexivity|lia].
Qed.

(* ---------- chunking is irrelevant ---------- *)

Lemma flat_cons_data b r : flat (Data b :: r) = b ++ flat r. Proof. reflexivity. Qed.
Lemma flat_cons_pend r : flat (Pend :: r) = flat r. Proof. reflexivity. Qed.

Lemma take_app_short n (a b : bytes) : blen a <= n -> take n (a ++ b) = a ++ take (n - blen a) b.
Proof.
  intros H. unfold take, blen in *. rewrite firstn_app. rewrite firstn_all2 by lia.
  f_equal. f_equal. lia.
Qed.
Lemma drop_app_short n (a b : bytes) : blen a <= n -> drop n (a ++ b) = drop (n - blen a) b.
Proof.
  intros H. unfold drop, blen in *. rewrite skipn_app. rewrite skipn_all2 by lia. cbn. f_equal. lia.
Qed.

(* read_exact over chunks = read_exact over the flattened stream *)
Lemma rx_spec : forall cs n acc,
  match rx cs n acc with
  | Some (got, rest) => got = acc ++ take n (flat cs) /\ flat rest = drop n (flat cs) /\ n <= blen (flat cs)
  | None => blen (flat cs) < n
  end.
Proof.
  induction cs as [|[b|] cs IH]; intros n acc; cbn [rx].
  - destruct (n =? 0) eqn:E.
    + assert (n = 0) by lia. subst. change (flat []) with (@nil N). change (take 0 []) with (@nil N).
      change (drop 0 []) with (@nil N). rewrite app_nil_r. change (blen []) with 0. repeat split. lia.
    + change (flat []) with (@nil N). change (blen []) with 0. lia.
  - destruct (n =? 0) eqn:E.
    + assert (n = 0) by lia. subst. change (take 0 (flat (Data b :: cs))) with (@nil N). rewrite app_nil_r.
      split; [reflexivity|]. split; [reflexivity|lia].
    + rewrite flat_cons_data. destruct (blen b <=? n) eqn:E2.
      * specialize (IH (n - blen b) (acc ++ b)). destruct (rx cs (n - blen b) (acc ++ b)) as [[got rest]|].
        -- destruct IH as [A [B C]]. rewrite take_app_short, drop_app_short by lia. rewrite blen_app.
           split; [rewrite A, <- app_assoc; reflexivity|]. split; [exact B|lia].
        -- rewrite blen_app. lia.
      * rewrite take_app_le, drop_app_le by lia. rewrite blen_app. split; [reflexivity|]. split; [reflexivity|lia].
  - destruct (n =? 0) eqn:E.
    + assert (n = 0) by lia. subst. change (take 0 (flat (Pend :: cs))) with (@nil N). rewrite app_nil_r.
      split; [reflexivity|]. split; [reflexivity|lia].
    + rewrite flat_cons_pend. apply IH.
Qed.

Lemma rx_some cs n got rest : rx cs n [] = Some (got, rest) ->
  got = take n (flat cs) /\ flat rest = drop n (flat cs) /\ n <= blen (flat cs).
Proof. intros H. pose proof (rx_spec cs n []) as S. rewrite H in S. exact S. Qed.
Lemma rx_none cs n : rx cs n [] = None -> blen (flat cs) < n.
Proof. intros H. pose proof (rx_spec cs n []) as S. rewrite H in S. exact S. Qed.

Lemma take3 (s : bytes) b0 b1 b2 : take 3 s = [b0; b1; b2] -> exists r, s = b0 :: b1 :: b2 :: r.
Proof.
  unfold take. change (N.to_nat 3) with 3%nat. destruct s as [|x0 [|x1 [|x2 r]]]; cbn; try discriminate.
  intros [= -> -> ->]. eexists. reflexivity.
Qed.
Lemma take2 (s : bytes) b0 b1 : take 2 s = [b0; b1] -> exists r, s = b0 :: b1 :: r.
Proof.
  unfold take. change (N.to_nat 2) with 2%nat. destruct s as [|x0 [|x1 r]]; cbn; try discriminate.
  intros [= -> ->]. eexists. reflexivity.
Qed.

(* however the bytes are split into partial reads, with Pending wake-ups anywhere: same packet, same rest *)
Theorem chunking_irrelevant cs :
  match read_frame_chunks cs with
  | Some (f, rest) => read_frame (flat cs) = Some (f, flat rest)
  | None => read_frame (flat cs) = None
  end.
Proof.
  unfold read_frame_chunks.
  destruct (rx cs 3 []) as [[h cs1]|] eqn:E1.
  2:{ apply rx_none in E1. unfold read_frame. destruct (flat cs) as [|a [|b [|c r]]]; try reflexivity.
      rewrite !blen_cons in E1. lia. }
  apply rx_some in E1. destruct E1 as [Hh [Hr1 Hl1]].
  assert (Hlen : length h = 3%nat).
  { rewrite Hh. unfold take. rewrite firstn_length. unfold blen in Hl1. lia. }
  destruct h as [|b0 [|b1 [|b2 [|x h]]]]; try (cbn in Hlen; lia).
  symmetry in Hh. apply take3 in Hh. destruct Hh as [r Hs]. rewrite Hs in *. clear Hlen.
  assert (Hf1 : flat cs1 = r) by (rewrite Hr1; reflexivity).
  unfold read_frame. destruct (b2 =? 255) eqn:Eb.
  - destruct (rx cs1 2 []) as [[h2 cs2]|] eqn:E2.
    2:{ apply rx_none in E2. rewrite Hf1 in E2. destruct r as [|lo [|hi r2]]; try reflexivity.
        rewrite !blen_cons in E2. lia. }
    apply rx_some in E2. destruct E2 as [Hh2 [Hr2 Hl2]]. rewrite Hf1 in *.
    assert (Hlen2 : length h2 = 2%nat).
    { rewrite Hh2. unfold take. rewrite firstn_length. unfold blen in Hl2. lia. }
    destruct h2 as [|lo [|hi [|x h2]]]; try (cbn in Hlen2; lia).
    symmetry in Hh2. apply take2 in Hh2. destruct Hh2 as [r2 Hs2]. rewrite Hs2 in *.
    assert (Hf2 : flat cs2 = r2) by (rewrite Hr2; reflexivity).
    destruct (rx cs2 (hi * 256 + lo) []) as [[body cs3]|] eqn:E3.
    + apply rx_some in E3. destruct E3 as [Hb [Hr3 Hl3]]. rewrite Hf2 in *.
      destruct (blen r2 <? hi * 256 + lo) eqn:E4; [lia|]. rewrite Hb, Hr3. reflexivity.
    + apply rx_none in E3. rewrite Hf2 in E3. destruct (blen r2 <? hi * 256 + lo) eqn:E4; [reflexivity|lia].
  - destruct (rx cs1 b2 []) as [[body cs2]|] eqn:E2.
    + apply rx_some in E2. destruct E2 as [Hb [Hr2 Hl2]]. rewrite Hf1 in *.
      destruct (blen r <? b2) eqn:E4; [lia|]. rewrite Hb, Hr2. reflexivity.
    + apply rx_none in E2. rewrite Hf1 in E2. destruct (blen r <? b2) eqn:E4; [reflexivity|lia].
Qed.

(* the reader never looks beyond the frame: whatever rest follows, same frame *)
Theorem read_frame_rest_irrelevant s f r t : read_frame s = Some (f, r) -> read_frame (s ++ t) = Some (f, r ++ t).
Proof.
  unfold read_frame. destruct s as [|b0 [|b1 [|b2 s']]]; try discriminate. cbn [app].
  destruct (b2 =? 255).
  - destruct s' as [|lo [|hi r2]]; try discriminate. cbn [app]. rewrite blen_app.
    destruct (blen r2 <? hi * 256 + lo) eqn:E; [discriminate|]. intros [= <- <-].
    destruct (blen r2 + blen t <? hi * 256 + lo) eqn:E2; [lia|].
    rewrite take_app_le, drop_app_le by lia. reflexivity.
  - rewrite blen_app. destruct (blen s' <? b2) eqn:E; [discriminate|]. intros [= <- <-].
    destruct (blen s' + blen t <? b2) eqn:E2; [lia|].
    rewrite take_app_le, drop_app_le by lia. reflexivity.
Qed.
