(* LengthProps.v — theorems about Length.v (C16). *)
From Zvt Require Import Base Length.
From Coq Require Import ZifyBool ZifyNat ZifyN.
Ltac Zify.zify_post_hook ::= Z.div_mod_to_equations.
Open Scope N_scope.

Definition strict_prefix (q p : bytes) : Prop := exists s, s <> [] /\ p = q ++ s.

(* ---------- BER-TLV ---------- *)

Definition tlv_len_bytes (n : N) : N := if n <=? 127 then 1 else if n <=? 255 then 2 else 3.

Lemma tlv_ser_ok n : n <= 65535 -> exists p, len_ser LTlv n = Ok p /\ blen p = tlv_len_bytes n /\ bytes_ok p.
Proof.
  intros H. unfold len_ser, tlv_len_bytes.
  destruct (n <=? 127) eqn:E1; [eexists; split; [reflexivity|split;[reflexivity|]]; repeat constructor; unfold byte_ok; lia|].
  destruct (n <=? 255) eqn:E2; [eexists; split; [reflexivity|split;[reflexivity|]]; repeat constructor; unfold byte_ok; lia|].
  destruct (n <=? 65535) eqn:E3; [|lia].
  eexists; split; [reflexivity|split;[reflexivity|]]; repeat constructor; unfold byte_ok; lia.
Qed.

Lemma tlv_ser_de n p r : len_ser LTlv n = Ok p -> len_de LTlv (p ++ r) = Ok (n, r).
Proof.
  unfold len_ser.
  destruct (n <=? 127) eqn:E1.
  { intros [= <-]. cbn [app len_de]. rewrite E1. reflexivity. }
  destruct (n <=? 255) eqn:E2.
  { intros [= <-]. cbn [app len_de]. reflexivity. }
  destruct (n <=? 65535) eqn:E3; [|discriminate].
  intros [= <-]. cbn [app len_de].
  replace (130 <=? 127) with false by reflexivity.
  replace (130 =? 129) with false by reflexivity.
  replace (130 =? 130) with true by reflexivity.
  do 2 f_equal. lia.
Qed.

Lemma tlv_ser_panics n : 65535 < n -> len_ser LTlv n = Panic.
Proof.
  intros H. unfold len_ser.
  destruct (n <=? 127) eqn:E1; [lia|]. destruct (n <=? 255) eqn:E2; [lia|].
  destruct (n <=? 65535) eqn:E3; [lia|]. reflexivity.
Qed.

(* whatever the parser accepts is at least as long as what the writer emits *)
Lemma tlv_shortest bs n r : bytes_ok bs -> len_de LTlv bs = Ok (n, r) ->
  n <= 65535 /\ exists q, bs = q ++ r /\ tlv_len_bytes n <= blen q.
Proof.
  intros Hb. unfold len_de. destruct bs as [|d bs]; [discriminate|].
  inversion Hb as [|? ? Hd Hbs]; subst. unfold byte_ok in Hd.
  destruct (d <=? 127) eqn:E1.
  { intros [= <- <-]. split; [lia|]. exists [d]. split; [reflexivity|].
    unfold tlv_len_bytes. rewrite E1. unfold blen; cbn [length]; lia. }
  destruct (d =? 129) eqn:E2.
  { destruct bs as [|d1 r1]; [discriminate|]. intros [= <- <-].
    inversion Hbs as [|? ? Hd1 _]; subst. unfold byte_ok in Hd1.
    split; [lia|]. exists [d; d1]. split; [reflexivity|].
    unfold tlv_len_bytes. destruct (d1 <=? 127) eqn:?; [|destruct (d1 <=? 255) eqn:?]; unfold blen; cbn [length]; lia. }
  destruct (d =? 130) eqn:E3; [|discriminate].
  destruct bs as [|hi [|lo r2]]; try discriminate. intros [= <- <-].
  inversion Hbs as [|? ? Hhi Hbs']; subst. inversion Hbs' as [|? ? Hlo _]; subst.
  unfold byte_ok in Hhi, Hlo. split; [lia|].
  exists [d; hi; lo]. split; [reflexivity|].
  unfold tlv_len_bytes. destruct (hi * 256 + lo <=? 127) eqn:?; [|destruct (hi * 256 + lo <=? 255) eqn:?]; unfold blen; cbn [length]; lia.
Qed.

Lemma tlv_truncated n p q : len_ser LTlv n = Ok p -> strict_prefix q p ->
  len_de LTlv q = Err IncompleteData.
Proof.
  unfold len_ser. intros Hs [s [Hne Hp]].
  destruct (n <=? 127) eqn:E1.
  { injection Hs as <-. destruct q as [|x q]; [reflexivity|].
    destruct q, s; cbn in Hp; try discriminate; congruence. }
  destruct (n <=? 255) eqn:E2.
  { injection Hs as <-. destruct q as [|x [|y q]]; [reflexivity| |].
    - injection Hp as <- _. reflexivity.
    - destruct q, s; cbn in Hp; try discriminate; congruence. }
  destruct (n <=? 65535) eqn:E3; [|discriminate].
  injection Hs as <-. destruct q as [|x [|y [|z q]]]; [reflexivity| | |].
  - injection Hp as <- _. reflexivity.
  - injection Hp as <- _. reflexivity.
  - destruct q, s; cbn in Hp; try discriminate; congruence.
Qed.

Lemma tlv_switch_points :
  len_ser LTlv 127 = Ok [127] /\ len_ser LTlv 128 = Ok [129; 128] /\
  len_ser LTlv 255 = Ok [129; 255] /\ len_ser LTlv 256 = Ok [130; 1; 0] /\
  len_ser LTlv 65535 = Ok [130; 255; 255].
Proof. repeat split. Qed.

(* ---------- APDU ---------- *)

Definition adpu_len_bytes (n : N) : N := if n <? 255 then 1 else 3.

Lemma adpu_ser_ok n : n <= 65535 -> exists p, len_ser LAdpu n = Ok p /\ blen p = adpu_len_bytes n /\ bytes_ok p.
Proof.
  intros H. unfold len_ser, adpu_len_bytes.
  destruct (n <? 255) eqn:E1; eexists; (split; [reflexivity|split;[reflexivity|]]);
    repeat constructor; unfold byte_ok; lia.
Qed.

Lemma adpu_ser_de n p r : n <= 65535 -> len_ser LAdpu n = Ok p -> len_de LAdpu (p ++ r) = Ok (n, r).
Proof.
  intros H. unfold len_ser.
  destruct (n <? 255) eqn:E1; intros [= <-]; cbn [app len_de].
  - destruct (n =? 255) eqn:E2; [lia|reflexivity].
  - replace (255 =? 255) with true by reflexivity. do 2 f_equal. lia.
Qed.

(* beyond 65535 the writer silently truncates (input as u16): excluded from the domain *)
Lemma adpu_ser_truncates : len_ser LAdpu 65536 = Ok [255; 0; 0].
Proof. reflexivity. Qed.

Lemma adpu_shortest bs n r : bytes_ok bs -> len_de LAdpu bs = Ok (n, r) ->
  n <= 65535 /\ exists q, bs = q ++ r /\ (n < 255 -> 1 <= blen q) /\ (255 <= n -> blen q = 3).
Proof.
  intros Hb. unfold len_de. destruct bs as [|d bs]; [discriminate|].
  inversion Hb as [|? ? Hd Hbs]; subst. unfold byte_ok in Hd.
  destruct (d =? 255) eqn:E1.
  - destruct bs as [|lo [|hi r2]]; try discriminate. intros [= <- <-].
    inversion Hbs as [|? ? Hlo Hbs']; subst. inversion Hbs' as [|? ? Hhi _]; subst.
    unfold byte_ok in Hhi, Hlo. split; [lia|]. exists [d; lo; hi]. repeat split; unfold blen; cbn [length]; lia.
  - intros [= <- <-]. split; [lia|]. exists [d]. repeat split; unfold blen; cbn [length]; lia.
Qed.

Lemma adpu_truncated n p q : len_ser LAdpu n = Ok p -> strict_prefix q p ->
  len_de LAdpu q = Err IncompleteData.
Proof.
  unfold len_ser. intros Hs [s [Hne Hp]].
  destruct (n <? 255) eqn:E1; injection Hs as <-.
  - destruct q as [|x q]; [reflexivity|]. destruct q, s; cbn in Hp; try discriminate; congruence.
  - destruct q as [|x [|y [|z q]]]; [reflexivity| | |].
    + injection Hp as <- _. reflexivity.
    + injection Hp as <- _. reflexivity.
    + destruct q, s; cbn in Hp; try discriminate; congruence.
Qed.

Lemma adpu_switch_points :
  len_ser LAdpu 254 = Ok [254] /\ len_ser LAdpu 255 = Ok [255; 255; 0] /\
  len_ser LAdpu 256 = Ok [255; 0; 1] /\ len_ser LAdpu 65535 = Ok [255; 255; 255].
Proof. repeat split. Qed.

(* ---------- LLVAR / LLLVAR ---------- *)

Lemma llv_digits_acc d : forall k acc, llv_digits d k acc = llv_digits d k [] ++ acc.
Proof.
  induction d as [|d IH]; intros k acc; cbn [llv_digits]; [reflexivity|].
  rewrite IH. rewrite (IH _ [_]). rewrite <- app_assoc. reflexivity.
Qed.

Lemma llv_digits_len d : forall k acc, length (llv_digits d k acc) = (d + length acc)%nat.
Proof.
  induction d as [|d IH]; intros k acc; cbn [llv_digits]; [reflexivity|].
  rewrite IH. unfold blen; cbn [length]; lia.
Qed.

Lemma llv_digits_ok d : forall k acc, bytes_ok acc -> bytes_ok (llv_digits d k acc).
Proof.
  induction d as [|d IH]; intros k acc H; cbn [llv_digits]; [exact H|].
  apply IH. constructor; [unfold byte_ok; lia|exact H].
Qed.

Lemma llv_parse_S d : forall rv bs,
  llv_parse (S d) rv bs =
  (let* (rv', bs') := llv_parse d rv bs in
   match bs' with [] => Err IncompleteData | b :: bs'' => Ok (rv' * 10 + b mod 16, bs'') end).
Proof.
  induction d as [|d IH]; intros rv bs.
  - cbn. destruct bs; reflexivity.
  - change (llv_parse (S (S d)) rv bs) with
      (match bs with [] => Err IncompleteData | b :: bs' => llv_parse (S d) (rv * 10 + b mod 16) bs' end).
    destruct bs as [|b bs']; [reflexivity|]. rewrite IH. reflexivity.
Qed.

Lemma llv_digits_S d k : llv_digits (S d) k [] = llv_digits d (k / 10) [] ++ [240 + k mod 10].
Proof. cbn [llv_digits]. apply llv_digits_acc. Qed.

Lemma llv_parse_digits d : forall k rv r,
  llv_parse d rv (llv_digits d k [] ++ r) = Ok (rv * 10 ^ N.of_nat d + k mod 10 ^ N.of_nat d, r).
Proof.
  induction d as [|d IH]; intros k rv r.
  - cbn. rewrite N.mod_1_r. f_equal. f_equal. lia.
  - rewrite llv_parse_S, llv_digits_S, <- app_assoc. cbn [app]. rewrite IH. cbn [bind].
    f_equal. f_equal.
    rewrite Nat2N.inj_succ, N.pow_succ_r'.
    rewrite (N.mod_mul_r k 10 (10 ^ N.of_nat d)) by (try apply N.pow_nonzero; lia).
    assert (E : (240 + k mod 10) mod 16 = k mod 10).
    { pose proof (N.mod_upper_bound k 10 ltac:(lia)) as Hk.
      replace 240 with (15 * 16) by reflexivity.
      rewrite N.add_comm, N.mod_add by lia. apply N.mod_small. lia. }
    rewrite E. lia.
Qed.

Lemma llv_ser_ok d n : exists p, len_ser (LLlv d) n = Ok p /\ blen p = d /\ bytes_ok p.
Proof.
  eexists. split; [reflexivity|]. split.
  - unfold blen. rewrite llv_digits_len. unfold blen; cbn [length]; lia.
  - apply llv_digits_ok. constructor.
Qed.

Lemma llv_ser_de d n p r : n < 10 ^ d -> len_ser (LLlv d) n = Ok p -> len_de (LLlv d) (p ++ r) = Ok (n, r).
Proof.
  intros H [= <-]. unfold len_de. rewrite llv_parse_digits, N2Nat.id.
  rewrite N.mod_small by exact H. reflexivity.
Qed.

(* beyond 10^d - 1 the writer silently drops the leading digits *)
Lemma llv_ser_wraps : len_ser (LLlv 2) 123 = len_ser (LLlv 2) 23.
Proof. reflexivity. Qed.

Lemma llv_parse_short d : forall rv q, (length q < d)%nat -> llv_parse d rv q = Err IncompleteData.
Proof.
  induction d as [|d IH]; intros rv q H; [lia|]. cbn [llv_parse].
  destruct q as [|b q]; [reflexivity|]. apply IH. cbn in H. lia.
Qed.

Lemma llv_truncated d n p q : len_ser (LLlv d) n = Ok p -> strict_prefix q p ->
  len_de (LLlv d) q = Err IncompleteData.
Proof.
  intros [= <-] [s [Hne Hp]]. unfold len_de. apply llv_parse_short.
  apply (f_equal (@length N)) in Hp. rewrite llv_digits_len, app_length in Hp.
  destruct s; [congruence|]. cbn in Hp. lia.
Qed.

(* the parser consumes exactly d bytes, whatever they are *)
Lemma llv_parse_consumes d : forall rv bs n r, llv_parse d rv bs = Ok (n, r) ->
  exists q, bs = q ++ r /\ length q = d.
Proof.
  induction d as [|d IH]; intros rv bs n r H.
  - injection H as _ <-. exists []. split; reflexivity.
  - cbn [llv_parse] in H. destruct bs as [|b bs]; [discriminate|].
    apply IH in H. destruct H as [q [-> Hl]]. exists (b :: q). split; [reflexivity|unfold blen; cbn [length]; lia].
Qed.

(* ---------- Fixed<N> ---------- *)

(* payload p of at most n bytes: the writer emits n - |p| zero bytes, so prefix ++ payload
   has exactly n bytes, and the reader hands back the whole n bytes as the field *)
Lemma fixed_ser_de n p r : blen p <= n ->
  exists z, len_ser (LFixed n) (blen p) = Ok z /\ z = zeros (n - blen p) /\
            blen (z ++ p) = n /\
            len_de (LFixed n) (z ++ p ++ r) = Ok (n, z ++ p ++ r).
Proof.
  intros H. exists (zeros (n - blen p)). unfold len_ser, len_de.
  destruct (blen p <=? n) eqn:E; [|lia]. split; [reflexivity|]. split; [reflexivity|].
  assert (L : blen (zeros (n - blen p) ++ p) = n) by (rewrite blen_app, blen_zeros; lia).
  split; [exact L|].
  rewrite app_assoc, blen_app, L. destruct (n + blen r <? n) eqn:E2; [lia|reflexivity].
Qed.

Lemma fixed_ser_panics n len : n < len -> len_ser (LFixed n) len = Panic.
Proof. intros H. unfold len_ser. destruct (len <=? n) eqn:E; [lia|reflexivity]. Qed.

Lemma fixed_truncated n q : blen q < n -> len_de (LFixed n) q = Err IncompleteData.
Proof. intros H. unfold len_de. destruct (blen q <? n) eqn:E; [reflexivity|lia]. Qed.

(* ---------- no length parser can panic ---------- *)
Lemma len_de_no_panic ls bs : len_de ls bs <> Panic /\ len_de ls bs <> OutOfFuel.
Proof.
  destruct ls; cbn [len_de].
  - split; discriminate.
  - destruct (_ <? _); split; discriminate.
  - destruct bs as [|d [|x [|y r]]]; try (split; discriminate);
      destruct (d <=? 127), (d =? 129), (d =? 130); split; discriminate.
  - generalize 0. generalize (N.to_nat digits). intros d. revert bs.
    induction d as [|d IH]; intros bs rv; cbn [llv_parse]; [split; discriminate|].
    destruct bs; [split; discriminate|apply IH].
  - destruct bs as [|d [|x [|y r]]]; try (split; discriminate);
      destruct (d =? 255); split; discriminate.
  - destruct (_ <? _); split; discriminate.
Qed.

(* remainder returned by a length parser is a suffix of its input *)
Lemma len_de_suffix ls bs n r : len_de ls bs = Ok (n, r) -> exists q, bs = q ++ r.
Proof.
  destruct ls; cbn [len_de].
  - intros [= _ <-]. exists []. reflexivity.
  - destruct (_ <? _); [discriminate|]. intros [= _ <-]. exists []. reflexivity.
  - destruct bs as [|d bs]; [discriminate|].
    destruct (d <=? 127); [intros [= _ <-]; exists [d]; reflexivity|].
    destruct (d =? 129).
    { destruct bs as [|d1 r1]; [discriminate|]. intros [= _ <-]. exists [d; d1]. reflexivity. }
    destruct (d =? 130); [|discriminate].
    destruct bs as [|hi [|lo r2]]; try discriminate. intros [= _ <-]. exists [d; hi; lo]. reflexivity.
  - intros H. apply llv_parse_consumes in H. destruct H as [q [-> _]]. exists q. reflexivity.
  - destruct bs as [|d bs]; [discriminate|]. destruct (d =? 255).
    + destruct bs as [|lo [|hi r2]]; try discriminate. intros [= _ <-]. exists [d; lo; hi]. reflexivity.
    + intros [= _ <-]. exists [d]. reflexivity.
  - destruct (_ <? _); [discriminate|]. intros [= _ <-]. exists []. reflexivity.
Qed.

(* ---------- packaged statements used by Properties/C16.v ---------- *)

Lemma tlv_roundtrip n : n <= 65535 ->
  exists p, len_ser LTlv n = Ok p /\ bytes_ok p /\ blen p = tlv_len_bytes n /\
            forall r, len_de LTlv (p ++ r) = Ok (n, r).
Proof.
  intros H. destruct (tlv_ser_ok n H) as [p [Hs [Hl Hb]]]. exists p. repeat split; try assumption.
  intros r. apply tlv_ser_de. exact Hs.
Qed.

Lemma adpu_roundtrip n : n <= 65535 ->
  exists p, len_ser LAdpu n = Ok p /\ bytes_ok p /\ blen p = adpu_len_bytes n /\
            forall r, len_de LAdpu (p ++ r) = Ok (n, r).
Proof.
  intros H. destruct (adpu_ser_ok n H) as [p [Hs [Hl Hb]]]. exists p. repeat split; try assumption.
  intros r. apply adpu_ser_de; assumption.
Qed.

Lemma llv_roundtrip d n : n < 10 ^ d ->
  exists p, len_ser (LLlv d) n = Ok p /\ bytes_ok p /\ blen p = d /\
            forall r, len_de (LLlv d) (p ++ r) = Ok (n, r).
Proof.
  intros H. destruct (llv_ser_ok d n) as [p [Hs [Hl Hb]]]. exists p. repeat split; try assumption.
  intros r. apply llv_ser_de; assumption.
Qed.

(* injectivity is a corollary of the round trip *)
Lemma ser_injective ls n m p :
  (forall k q, len_ser ls k = Ok q -> len_de ls (q ++ []) = Ok (k, [])) ->
  len_ser ls n = Ok p -> len_ser ls m = Ok p -> n = m.
Proof.
  intros H Hn Hm. apply H in Hn. apply H in Hm. congruence.
Qed.

Lemma tlv_injective n m p : len_ser LTlv n = Ok p -> len_ser LTlv m = Ok p -> n = m.
Proof. apply ser_injective. intros k q Hk. apply tlv_ser_de. exact Hk. Qed.

Lemma adpu_injective n m p : n <= 65535 -> m <= 65535 ->
  len_ser LAdpu n = Ok p -> len_ser LAdpu m = Ok p -> n = m.
Proof.
  intros Hn Hm Sn Sm. pose proof (adpu_ser_de n p [] Hn Sn). pose proof (adpu_ser_de m p [] Hm Sm). congruence.
Qed.

Lemma llv_injective d n m p : n < 10 ^ d -> m < 10 ^ d ->
  len_ser (LLlv d) n = Ok p -> len_ser (LLlv d) m = Ok p -> n = m.
Proof.
  intros Hn Hm Sn Sm. pose proof (llv_ser_de d n p [] Hn Sn). pose proof (llv_ser_de d m p [] Hm Sm). congruence.
Qed.
