(* CanonShipped.v — the class is inhabited on every shipped layout (re-checked against the regenerated
   tables on every run): for each packet / TLV container, the value with every optional field absent and
   the value with every optional field present are both inside `canon`, hence covered by
   canon_cmd_roundtrip / canon_struct_roundtrip. *)
From Zvt Require Import Base Length Cp437 Encoding Codec Lookup CanonClass CanonRun.
From Zvt.gen Require Import Layouts Tables.
Open Scope N_scope.

Definition sample_prim (ls : lenstyle) (e : Encoding.enc) (p : prim) : value :=
  match p with
  | PInt _ => VInt 1
  | PString =>
      let n := match ls with LFixed k => N.to_nat k | LTemperature => 3%nat | _ => 2%nat end in
      (match e with
       | EHex => VStr (repeat 49 (2 * n))            (* '1' *)
       | _ => VStr (repeat 65 n)                     (* 'A' *)
       end)
  | PDateTime => VDate 2024 2 29 23 59 58
  | PBytes => VBytes [1; 2; 3]
  end.

(* every optional present (full = true) or absent (full = false) *)
Fixpoint sample (full : bool) (ls : lenstyle) (e : Encoding.enc) (t : ty) : value :=
  match t with
  | TPrim p => sample_prim ls e p
  | TOpt u => if full then VSome (sample full ls e u) else VNone
  | TVec u => if full then VList [sample full ls e u; sample full ls e u] else VList []
  | TStruct fs => VRec ((fix go (fs : list field) : list value :=
                           match fs with
                           | [] => []
                           | Fld _ tg l' e' t' :: r =>
                               (* an absent positional optional is only representable when nothing follows *)
                               (match tg, t' with
                                | None, TOpt u => VSome (sample full l' e' u)
                                | _, _ => sample full l' e' t'
                                end) :: go r
                           end) fs)
  end.

Definition in_class (full : bool) (s : string * option (N * N) * list field) : bool :=
  match s with
  | (_, Some (c, i), fs) =>
      match canon_cmd {| c_class := c; c_instr := i; c_fields := fs |} (sample full LEmpty EDefault (TStruct fs)) with
      | Some _ => true | None => false end
  | (_, None, fs) =>
      match canon_struct fs (sample full LEmpty EDefault (TStruct fs)) with Some _ => true | None => false end
  end.

Definition outside (full : bool) : list string :=
  map (fun s => fst (fst s)) (filter (fun s => negb (in_class full s)) structs).

Lemma shipped_in_class : outside true = [] /\ outside false = [].
Proof. split; vm_compute; reflexivity. Qed.

(* the any-order class (positional fields self-delimiting): which shipped layouts are outside it *)
Definition in_anyorder (full : bool) (s : string * option (N * N) * list field) : bool :=
  match s with
  | (_, _, fs) => match canon_anyorder fs (sample full LEmpty EDefault (TStruct fs)) with Some _ => true | None => false end
  end.
Definition outside_anyorder (full : bool) : list string :=
  map (fun s => fst (fst s)) (filter (fun s => negb (in_anyorder full s)) structs).

Definition no_tagged (s : string * option (N * N) * list field) : bool :=
  match s with (_, _, fs) => forallb untagged_field fs end.

(* every shipped layout that HAS tagged fields is inside the any-order class, all optionals present / absent *)
Lemma shipped_anyorder :
  forallb (fun s => in_anyorder true s || no_tagged s) structs = true /\
  forallb (fun s => in_anyorder false s || no_tagged s) structs = true.
Proof. split; vm_compute; reflexivity. Qed.

(* ---------- every shipped reply parser reads back what any of its variants serialises ---------- *)
From Zvt Require Import EnumProps CanonRoundtrip GenCheck.

Definition enum_bytes_ok (e : string * list variant) : bool :=
  nodup_cf (map v_cf (snd e)) && forallb (fun v => (c_class (snd v) <? 256) && (c_instr (snd v) <? 256)) (snd e).
Lemma shipped_enums_bytes_ok : forallb enum_bytes_ok enums = true.
Proof. vm_compute. reflexivity. Qed.

Theorem shipped_reply_roundtrip name vs k nm c v b :
  In (name, vs) enums -> nth_error vs k = Some (nm, c) -> canon_cmd c v = Some b ->
  enc_cmd c v = Ok b /\ parse_enum FUEL vs b = Ok (N.of_nat k, v).
Proof.
  intros Hin Hk Hcan. pose proof shipped_enums_bytes_ok as S. rewrite forallb_forall in S. specialize (S _ Hin).
  unfold enum_bytes_ok in S. cbn [snd] in S. apply andb_prop in S. destruct S as [Hnd Hb].
  rewrite forallb_forall in Hb. specialize (Hb (nm, c) (nth_error_In _ _ Hk)). cbn [snd] in Hb. apply andb_prop in Hb. destruct Hb as [H1 H2].
  apply (reply_roundtrip FUEL vs k nm c v b Hnd Hk); try lia; [|exact Hcan].
  apply (shipped_enum_depth name vs nm c Hin (nth_error_In _ _ Hk)).
Qed.
