(* DateTimeProps.v — the date-time TLV codec (feig::packets::tlv, after the fixes F3/F4) is inverse on every
   calendar date-time with a year 0..9999: two BER-TLV frames 1F0E (yyyymmdd) and 1F0F (hhmmss), packed BCD. *)
From Zvt Require Import Base Length LengthProps Cp437 Encoding EncodingProps Codec CodecTotal CodecFrame CodecRoundtrip CodecFields.
From Coq Require Import ZifyBool ZifyNat ZifyN.
Ltac Zify.zify_post_hook ::= Z.div_mod_to_equations.
Open Scope N_scope.

Lemma tag_repr_date : tag_repr DATE_TAG. Proof. right. split; [left; reflexivity|reflexivity]. Qed.
Lemma tag_repr_time : tag_repr TIME_TAG. Proof. right. split; [left; reflexivity|reflexivity]. Qed.

Lemma dt_loop_S f bs date time : bs <> [] ->
  dt_loop (S f) bs date time =
  (let* (t, _) := tag_dec false bs in
   if t =? DATE_TAG then
     match date with
     | Some _ => Err (DuplicateTag DATE_TAG)
     | None => let* (v, r) := framed_dec LTlv false (Some DATE_TAG) (bcd_dec 8) bs in dt_loop f r (Some v) time
     end
   else if t =? TIME_TAG then
     match time with
     | Some _ => Err (DuplicateTag TIME_TAG)
     | None => let* (v, r) := framed_dec LTlv false (Some TIME_TAG) (bcd_dec 4) bs in dt_loop f r date (Some v)
     end
   else Ok (date, time, bs)).
Proof. intros H. destruct bs; [congruence|reflexivity]. Qed.

Lemma tlv_short_frame_len t p g : blen p <= 127 -> framed_enc LTlv false (Some t) p = Ok g -> blen g <= 3 + blen p.
Proof.
  intros Hl H. unfold framed_enc in H. cbn [len_ser] in H. destruct (blen p <=? 127) eqn:E; [|lia]. cbn [bind] in H.
  injection H as <-. rewrite !blen_app. unfold tag_enc.
  destruct ((t / 256 =? 31) || (t / 256 =? 255)); unfold blen; cbn [length]; lia.
Qed.

Theorem datetime_roundtrip (y : Z) (mo d h mi s : N) :
  (0 <= y)%Z -> ymd_ok y mo d = true -> hms_ok h mi s = true ->
  exists bs, datetime_enc y mo d h mi s = Ok bs /\ datetime_dec bs = Ok (VDate y mo d h mi s, []) /\ blen bs <= 14.
Proof.
  intros Hy0 Hd Ht.
  assert (Hy : (0 <= y <= 262143)%Z).
  { split; [exact Hy0|]. unfold ymd_ok, MAX_YEAR in Hd. repeat (apply andb_prop in Hd; destruct Hd as [Hd _]). lia. }
  assert (Dm : 1 <= mo <= 12 /\ 1 <= d <= 31).
  { unfold ymd_ok in Hd. apply andb_prop in Hd. destruct Hd as [Hd D4]. apply andb_prop in Hd. destruct Hd as [Hd D3].
    apply andb_prop in Hd. destruct Hd as [D1 D2]. unfold days_in_month in D4.
    destruct ((mo =? 4) || (mo =? 6) || (mo =? 9) || (mo =? 11)); [lia|]. destruct (mo =? 2); [destruct (leap y); lia|lia]. }
  assert (Tm : h < 24 /\ mi < 60 /\ s < 60).
  { unfold hms_ok in Ht. apply andb_prop in Ht. destruct Ht as [Ht T3]. apply andb_prop in Ht. destruct Ht as [T1 T2]. lia. }
  set (date := Z.to_N y * 10000 + mo * 100 + d).
  set (time := h * 10000 + mi * 100 + s).
  assert (Hdate : date < 10000000000) by (unfold date; lia).
  assert (Htime : time < 1000000) by (unfold time; lia).
  destruct (bcd_roundtrip 8 date) as [db [Edb [_ [_ [_ [_ Ddb]]]]]]; [cbn; lia|cbn; lia|].
  destruct (bcd_roundtrip 4 time) as [tb [Etb [_ [_ [_ [_ Dtb]]]]]]; [cbn; lia|cbn; lia|].
  pose proof (bcd_enc_len date 5 db ltac:(cbn; lia) ltac:(cbn; lia) Edb) as Ldb.
  pose proof (bcd_enc_len time 3 tb ltac:(cbn; lia) ltac:(cbn; lia) Etb) as Ltb.
  destruct (framed_roundtrip LTlv false (Some TIME_TAG) (bcd_dec 4) tb time [] eq_refl) as [tf [Etf Dtf]];
    [cbn [len_fits]; lia|exact tag_repr_time|exact Dtb|].
  destruct (framed_roundtrip LTlv false (Some DATE_TAG) (bcd_dec 8) db date tf eq_refl) as [df [Edf Ddf]];
    [cbn [len_fits]; lia|exact tag_repr_date|exact Ddb|].
  exists (df ++ tf). split; [|split].
  3:{ rewrite blen_app. pose proof (tlv_short_frame_len DATE_TAG db df ltac:(lia) Edf). pose proof (tlv_short_frame_len TIME_TAG tb tf ltac:(lia) Etf). lia. }
  - unfold datetime_enc. destruct (y <? 0)%Z eqn:E; [lia|]. fold date time. rewrite Edb, Etb. cbn [bind]. rewrite Edf, Etf. reflexivity.
  - destruct (framed_enc_starts_with_tag LTlv DATE_TAG db df tf tag_repr_date Edf) as [r1 S1].
    destruct (framed_enc_starts_with_tag LTlv TIME_TAG tb tf [] tag_repr_time Etf) as [r2 S2].
    assert (Ndf : df ++ tf <> []).
    { intros E. rewrite E in S1. cbn in S1. discriminate. }
    assert (Ntf : tf <> []).
    { intros E. rewrite E in S2. cbn in S2. discriminate. }
    assert (Len : (2 <= length (df ++ tf))%nat).
    { rewrite app_length. rewrite app_nil_r in S2.
      destruct df; [exfalso; cbn [app] in S1; rewrite S2 in S1; unfold TIME_TAG, DATE_TAG in S1; discriminate|].
      destruct tf; [congruence|]. cbn [length]. lia. }
    unfold datetime_dec. destruct (length (df ++ tf)) as [|[|n]] eqn:EL; try lia.
    rewrite dt_loop_S by exact Ndf. rewrite S1. cbn [bind]. change (DATE_TAG =? DATE_TAG) with true. cbn iota.
    rewrite Ddf. cbn [bind].
    rewrite dt_loop_S by exact Ntf. rewrite ?app_nil_r in S2. rewrite S2. cbn [bind].
    change (TIME_TAG =? DATE_TAG) with false. change (TIME_TAG =? TIME_TAG) with true. cbn iota.
    rewrite app_nil_r in Dtf. rewrite Dtf. cbn [bind]. cbn [dt_loop].
    (* the arithmetic of the decoder *)
    cbn [bind].
    assert (Y : Z.of_N (date / 10000) = y) by (unfold date; lia).
    rewrite Y.
    assert (M : (date mod 10000) / 100 = mo) by (unfold date; lia).
    assert (D : date mod 100 = d) by (unfold date; lia).
    assert (H3 : time / 10000 = h) by (unfold time; lia).
    assert (M3 : (time mod 10000) / 100 = mi) by (unfold time; lia).
    assert (S3 : time mod 100 = s) by (unfold time; lia).
    rewrite M, D, H3, M3, S3, Hd, Ht. reflexivity.
Qed.

(* ---------- C02: the date-time a decoder answers is the one its digits spell — no wrapped number (after the fix of F8) ---------- *)
Theorem datetime_dec_faithful bs y mo d h mi s r : datetime_dec bs = Ok (VDate y mo d h mi s, r) ->
  exists date time, dt_loop (S (length bs)) bs None None = Ok (Some date, Some time, r) /\
    Z.of_N date = (y * 10000 + Z.of_N mo * 100 + Z.of_N d)%Z /\ time = h * 10000 + mi * 100 + s /\
    (0 <= y <= MAX_YEAR)%Z /\ 1 <= mo <= 12 /\ 1 <= d <= 31 /\ h < 24 /\ mi < 60 /\ s < 60.
Proof.
  unfold datetime_dec. destruct (dt_loop (S (length bs)) bs None None) as [[[[date|] [time|]] r0]| | |]; cbn [bind]; try discriminate.
  destruct (ymd_ok _ _ _ && hms_ok _ _ _) eqn:E; [|discriminate]. intros [= <- <- <- <- <- <- <-].
  exists date, time. split; [reflexivity|].
  apply andb_prop in E. destruct E as [E1 E2]. unfold ymd_ok, hms_ok, MAX_YEAR in *.
  repeat (match goal with H : (_ && _) = true |- _ => apply andb_prop in H; destruct H end).
  assert (Hdm : days_in_month (Z.of_N (date / 10000)) (date mod 10000 / 100) <= 31).
  { unfold days_in_month. destruct (_ || _); [lia|]. destruct (_ =? 2); [destruct (leap _); lia|lia]. }
  repeat split; try lia.
Qed.
