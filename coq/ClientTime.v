(* ClientTime.v — C10 as an explicit bound on elapsed (virtual) time: a poll of the retrying stream, and a
   whole consumer loop, end within  attempts_left * (throttle + 2 * timeout)  plus one timeout per reply
   item actually received — wherever the terminal falls silent, for every configuration and script. *)
From Zvt Require Import Base Length Cp437 Encoding Codec Lookup Transport Sequence SeqLookup Client ClientProps.
From Coq Require Import ZifyBool ZifyNat ZifyN.
Open Scope N_scope.

Definition attempt_cost (r : rstate) : N := r_throttle r + 2 * r_timeout r.
(* the longest the stream can still take if no further reply item arrives *)
Definition potential (r : rstate) : N :=
  match r_ph r with
  | REnd => 0
  | RInner _ => N.of_nat (r_left r) * attempt_cost r + r_timeout r
  | _ => N.of_nat (r_left r) * attempt_cost r
  end.
Definition tinv (r : rstate) (w : world) : Prop := r_first r = true \/ r_last r <= w_now w.
Definition item_cost (r : rstate) (it : option item) : N := match it with Some (IOk _ _) => r_timeout r | _ => 0 end.

Lemma connect_time cfg d w : w_now w <= d ->
  match connect cfg d w with COk _ w' | CErr _ w' => w_now w <= w_now w' <= d end.
Proof.
  intros Hd. unfold connect. destruct (w_scripts w) as [|s rest]; [cbn; lia|]. destruct (cs_refused s); [cbn; lia|]. destruct (cs_silent s); [cbn; lia|].
  cbv zeta. cbn [w_conns w_scripts w_cur w_now w_log].
  match goal with |- context [seq_next ?Q ?i PStart d ?W] => set (w1 := W); set (id := i) end.
  assert (N1 : w_now w1 = w_now w) by reflexivity.
  pose proof (seq_next_deadline (seq_of "zvt::sequences::Registration" (registration_cmd cfg)) id PStart d w1 ltac:(lia)) as T1.
  destruct (seq_next _ id PStart d w1) as [[i v|e] ph w'|w'|w']; cbn [drop_conn logw w_now]; try lia.
  pose proof (seq_next_deadline (seq_of "zvt::feig::sequences::GetSystemInfo" sysinfo_cmd) id PStart d w' ltac:(lia)) as T2.
  destruct (seq_next _ id PStart d w') as [[i2 v2|e2] ph2 w2|w2|w2]; cbn [drop_conn logw w_now]; try lia.
  destruct (i2 =? _); cbn [drop_conn logw w_now]; [|lia].
  destruct (first_pos v2) as [[| dev | | | | | |]|]; cbn [drop_conn logw w_now]; try lia.
  destruct (list_eqb _ _); cbn [drop_conn logw w_now]; lia.
Qed.

Lemma drop_cur_now w : w_now (drop_cur w) = w_now w.
Proof. unfold drop_cur. destruct (w_cur w); reflexivity. Qed.

Theorem retry_next_time cfg : forall fuel r w it r' w', retry_next fuel cfg r w = (it, r', w') -> tinv r w ->
  w_now w <= w_now w' /\ tinv r' w' /\ r_timeout r' = r_timeout r /\ r_throttle r' = r_throttle r /\
  w_now w' + potential r' <= w_now w + potential r + item_cost r it.
Proof.
  induction fuel as [|f IH]; intros r w it r' w' E Hinv.
  { cbn [retry_next] in E. injection E as <- <- <-. unfold potential, tinv in *. cbn. repeat split; try lia; try exact Hinv. }
  cbn [retry_next] in E. destruct (r_ph r) eqn:P.
  - (* RIdle *)
    destruct (r_left r) as [|lft] eqn:L.
    { injection E as <- <- <-. unfold potential, tinv in *. cbn. rewrite P. repeat split; try lia; try exact Hinv. }
    set (start := if r_first r then w_now w else N.max (w_now w) (r_last r + r_throttle r)) in *.
    assert (Hs : w_now w <= start <= w_now w + r_throttle r).
    { unfold start. destruct Hinv as [Hf|Hl]; [rewrite Hf; lia|]. destruct (r_first r); lia. }
    assert (Pr : potential r = N.of_nat (S lft) * attempt_cost r) by (unfold potential; rewrite P, L; reflexivity).
    destruct (w_cur (at_time w start)) as [id|] eqn:C.
    + specialize (IH _ _ _ _ _ E). cbn [at_time w_now] in IH.
      destruct IH as [A [B [C1 [C2 D]]]]; [right; cbn; lia|].
      cbn [rs_set r_timeout r_throttle] in C1, C2. unfold potential at 2 in D. cbn [rs_set r_ph r_left] in D.
      unfold attempt_cost in *. cbn [rs_set r_timeout r_throttle] in D. unfold item_cost in *. cbn [rs_set r_timeout] in D.
      repeat split; try assumption; try lia; rewrite Pr; lia.
    + pose proof (connect_time cfg (start + r_timeout (rs_set r lft false start RIdle)) (at_time w start) ltac:(cbn; lia)) as K.
      destruct (connect cfg _ (at_time w start)) as [id w1|what w1]; cbn [at_time w_now rs_set r_timeout] in K.
      * specialize (IH _ _ _ _ _ E). cbn [set_cur w_now] in IH.
        destruct IH as [A [B [C1 [C2 D]]]]; [right; cbn; lia|].
        cbn [rs_set r_timeout r_throttle] in C1, C2. unfold potential at 2 in D. cbn [rs_set r_ph r_left] in D.
        unfold attempt_cost in *. cbn [rs_set r_timeout r_throttle] in D. unfold item_cost in *. cbn [rs_set r_timeout] in D.
        repeat split; try assumption; try lia; rewrite Pr; lia.
      * injection E as <- <- <-. unfold potential, tinv, item_cost, attempt_cost in *. cbn [rs_set r_ph r_left r_timeout r_throttle r_first r_last].
        rewrite P, L. repeat split; try lia.
  - (* RInner *)
    assert (Pr : potential r = N.of_nat (r_left r) * attempt_cost r + r_timeout r) by (unfold potential; rewrite P; reflexivity).
    destruct (w_cur w) as [id|] eqn:C.
    2:{ injection E as <- <- <-. unfold potential, tinv in *. cbn. repeat split; try lia; try exact Hinv. }
    pose proof (seq_next_deadline (r_seq r) id ph (w_now w + r_timeout r) w ltac:(lia)) as T.
    destruct (seq_next (r_seq r) id ph (w_now w + r_timeout r) w) as [[i v|e] ph' w1|w1|w1].
    + injection E as <- <- <-. unfold tinv, item_cost in *. cbn [rs_set r_first r_last r_timeout r_throttle].
      repeat split; try lia; try (destruct Hinv; [left; assumption|right; lia]).
      all: unfold potential; cbn [rs_set r_ph r_left]; unfold attempt_cost; cbn [rs_set r_timeout r_throttle];
        unfold potential in Pr; rewrite P in Pr; unfold attempt_cost in Pr; rewrite ?P; lia.
    + injection E as <- <- <-. unfold tinv, item_cost in *. cbn [rs_set r_first r_last r_timeout r_throttle].
      repeat split; try lia; try (destruct Hinv; [left; assumption|right; lia]).
      all: unfold potential at 1; cbn [rs_set r_ph r_left]; unfold attempt_cost in *; cbn [rs_set r_timeout r_throttle]; rewrite Pr; lia.
    + injection E as <- <- <-. unfold tinv, item_cost in *. cbn [rs_set r_first r_last r_timeout r_throttle].
      repeat split; try lia; try (destruct Hinv; [left; assumption|right; lia]).
      all: unfold potential at 1; cbn [rs_set r_ph]; lia.
    + specialize (IH _ _ _ _ _ E). rewrite drop_cur_now in IH.
      destruct IH as [A [B [C1 [C2 D]]]]; [unfold tinv in *; cbn [rs_set r_first r_last]; rewrite ?drop_cur_now; destruct Hinv; [left; assumption|right; lia]|].
      cbn [rs_set r_timeout r_throttle] in C1, C2. unfold potential at 2 in D. cbn [rs_set r_ph r_left] in D.
      unfold attempt_cost in *. cbn [rs_set r_timeout r_throttle] in D. unfold item_cost in *. cbn [rs_set r_timeout] in D.
      repeat split; try assumption; try lia; rewrite Pr; lia.
  - (* RAfterErr *)
    specialize (IH _ _ _ _ _ E). rewrite drop_cur_now in IH.
    destruct IH as [A [B [C1 [C2 D]]]]; [unfold tinv in *; cbn [rs_set r_first r_last]; rewrite ?drop_cur_now; exact Hinv|].
    cbn [rs_set r_timeout r_throttle] in C1, C2. unfold potential at 2 in D. cbn [rs_set r_ph r_left] in D.
    unfold attempt_cost in *. cbn [rs_set r_timeout r_throttle] in D. unfold item_cost in *. cbn [rs_set r_timeout] in D.
    repeat split; try assumption; try lia.
    assert (Pr : potential r = N.of_nat (r_left r) * attempt_cost r) by (unfold potential; rewrite P; reflexivity).
    rewrite Pr. unfold attempt_cost. lia.
  - injection E as <- <- <-. unfold potential, tinv in *. rewrite P. cbn. repeat split; try lia; try exact Hinv.
Qed.

(* ---------- a whole consumer loop ---------- *)

(* `consume`, additionally counting the reply items it received (rf: the fuel of one poll, RFUEL in `consume`) *)
Fixpoint consume_n {A B} (rf fuel : nat) (cfg : config) (r : rstate) (w : world) (acc : A)
         (handle : A -> N -> value -> (option (cres B)) * A) (finish : A -> cres B) (n : N) : cres B * world * N :=
  match fuel with
  | O => (finish acc, w, n)
  | S f =>
      match retry_next rf cfg r w with
      | (None, _, w') => (finish acc, w', n)
      | (Some (IErr _), r', w') => consume_n rf f cfg r' w' acc handle finish n
      | (Some (IOk i v), r', w') =>
          match handle acc i v with
          | (Some res, _) => (res, w', n + 1)
          | (None, acc') => consume_n rf f cfg r' w' acc' handle finish (n + 1)
          end
      end
  end.

Lemma consume_n_is_consume {A B} cfg (handle : A -> N -> value -> option (cres B) * A) finish :
  forall fuel r w acc n, fst (consume_n RFUEL fuel cfg r w acc handle finish n) = consume fuel cfg r w acc handle finish.
Proof.
  induction fuel as [|f IH]; intros r w acc n; [reflexivity|]. cbn [consume_n consume].
  destruct (retry_next RFUEL cfg r w) as [[[[i v|e]|] r'] w']; try reflexivity; [|apply IH].
  destruct (handle acc i v) as [[res|] acc']; [reflexivity|apply IH].
Qed.

Theorem consume_elapsed {A B} cfg (handle : A -> N -> value -> option (cres B) * A) finish rf :
  forall fuel r w acc n res w' n', consume_n rf fuel cfg r w acc handle finish n = (res, w', n') -> tinv r w ->
  n <= n' <= n + N.of_nat fuel /\ w_now w <= w_now w' /\ w_now w' <= w_now w + potential r + (n' - n) * r_timeout r.
Proof.
  induction fuel as [|f IH]; intros r w acc n res w' n' E Hinv.
  { cbn [consume_n] in E. injection E as <- <- <-. lia. }
  cbn [consume_n] in E. destruct (retry_next rf cfg r w) as [[it r1] w1] eqn:ER.
  destruct (retry_next_time cfg rf r w it r1 w1 ER Hinv) as [T1 [T2 [T3 [T4 T5]]]].
  destruct it as [[i v|e]|].
  - cbn [item_cost] in T5. destruct (handle acc i v) as [[res0|] acc'].
    + injection E as <- <- <-. replace (n + 1 - n) with 1 by lia. lia.
    + destruct (IH _ _ _ _ _ _ _ E T2) as [I1 [I2 I3]]. rewrite T3 in I3.
      replace (n' - n) with ((n' - (n + 1)) + 1) by lia. lia.
  - cbn [item_cost] in T5. destruct (IH _ _ _ _ _ _ _ E T2) as [I1 [I2 I3]]. rewrite T3 in I3. lia.
  - cbn [item_cost] in T5. injection E as <- <- <-. lia.
Qed.

(* every public call built from ONE retrying stream: at most 20 attempts of (2 s + 2 * timeout), plus one
   timeout for each reply item the terminal actually sent (n counts them) *)
Corollary single_stream_call_elapsed {A B} cfg q t w acc (handle : A -> N -> value -> option (cres B) * A) finish fuel res w' n :
  consume_n RFUEL fuel cfg (start_retry q t) w acc handle finish 0 = (res, w', n) ->
  consume fuel cfg (start_retry q t) w acc handle finish = (res, w') /\ n <= N.of_nat fuel /\
  w_now w <= w_now w' <= w_now w + 20 * (2000 + 2 * t) + n * t.
Proof.
  intros E. split; [rewrite <- (consume_n_is_consume cfg handle finish fuel (start_retry q t) w acc 0), E; reflexivity|].
  destruct (consume_elapsed cfg handle finish RFUEL fuel (start_retry q t) w acc 0 res w' n E) as [C0 [A0 B0]]; [left; reflexivity|].
  assert (P : potential (start_retry q t) = 20 * (2000 + 2 * t)) by reflexivity.
  rewrite P in B0. cbn [start_retry r_timeout] in B0. lia.
Qed.

(* hence an absolute bound, whatever the terminal does and wherever it falls silent *)
Definition Bt (t : N) : N := 20 * (2000 + 2 * t) + N.of_nat LOOPFUEL * t.

Corollary single_stream_call_bounded {A B} cfg q t w acc (handle : A -> N -> value -> option (cres B) * A) finish fuel :
  let '(_, w') := consume fuel cfg (start_retry q t) w acc handle finish in
  w_now w <= w_now w' <= w_now w + (20 * (2000 + 2 * t) + N.of_nat fuel * t).
Proof.
  destruct (consume_n RFUEL fuel cfg (start_retry q t) w acc handle finish 0) as [[res w'] n] eqn:E.
  destruct (single_stream_call_elapsed cfg q t w acc handle finish fuel res w' n E) as [E2 [Hn Hb]]. rewrite E2. nia.
Qed.

(* read_card for EVERY configured timeout t (seconds; the wire field is one byte): (t + 2) s per packet *)
Corollary read_card_bounded cfg w :
  let T := (c_read_card_timeout cfg + 2) * 1000 in
  let '(_, w') := read_card cfg w in w_now w <= w_now w' <= w_now w + Bt T.
Proof. unfold read_card. apply single_stream_call_bounded. Qed.

(* the other single-exchange calls run under the 60 s packet timeout *)
Corollary get_system_info_bounded cfg w :
  let '(_, w') := get_system_info cfg w in w_now w <= w_now w' <= w_now w + Bt TIMEOUT.
Proof.
  unfold get_system_info.
  match goal with |- context [consume LOOPFUEL cfg (start_retry ?q TIMEOUT) w ?a ?h ?fin] =>
    pose proof (single_stream_call_bounded cfg q TIMEOUT w a h fin LOOPFUEL) as K;
    destruct (consume LOOPFUEL cfg (start_retry q TIMEOUT) w a h fin) as [[si|e] w1] end; [|exact K].
  assert (D : w_now (drop_cur w1) = w_now w1) by (unfold drop_cur; destruct (w_cur w1); reflexivity).
  destruct (first_pos si) as [[| dev | | | | | |]|]; try (rewrite D; exact K).
  destruct (list_eqb _ _); [exact K|rewrite D; exact K].
Qed.
Corollary initialize_bounded cfg w :
  let '(_, w') := initialize cfg w in w_now w <= w_now w' <= w_now w + Bt TIMEOUT.
Proof. unfold initialize. apply single_stream_call_bounded. Qed.
Corollary get_pending_bounded cfg w :
  let '(_, w') := get_pending cfg w in w_now w <= w_now w' <= w_now w + Bt TIMEOUT.
Proof.
  unfold get_pending.
  match goal with |- context [consume LOOPFUEL cfg (start_retry ?q TIMEOUT) w ?a ?h ?fin] =>
    pose proof (single_stream_call_bounded cfg q TIMEOUT w a h fin LOOPFUEL) as K;
    destruct (consume LOOPFUEL cfg (start_retry q TIMEOUT) w a h fin) as [[l|e] w1] end; [exact K|].
  assert (D : w_now (drop_cur w1) = w_now w1) by (unfold drop_cur; destruct (w_cur w1); reflexivity).
  destruct e; try exact K. rewrite D. exact K.
Qed.
Corollary cancel_by_receipt_bounded cfg rn w :
  let '(_, w') := cancel_by_receipt cfg rn w in w_now w <= w_now w' <= w_now w + Bt TIMEOUT.
Proof. unfold cancel_by_receipt. apply single_stream_call_bounded. Qed.

(* ---------- calls made of several exchanges ---------- *)

Definition B60 : N := Bt TIMEOUT.

Lemma consume_result {A B} (Q : cres B -> Prop) cfg (handle : A -> N -> value -> option (cres B) * A) finish :
  (forall acc, Q (finish acc)) -> (forall acc i v res acc', handle acc i v = (Some res, acc') -> Q res) ->
  forall fuel r w acc, Q (fst (consume fuel cfg r w acc handle finish)).
Proof.
  intros Hf Hh. induction fuel as [|f IH]; intros r w acc; [apply Hf|]. cbn [consume].
  destruct (retry_next RFUEL cfg r w) as [[[[i v|e]|] r'] w']; cbn [fst]; [|apply IH|apply Hf].
  destruct (handle acc i v) as [[res|] acc'] eqn:E; [apply (Hh _ _ _ _ _ E)|apply IH].
Qed.

Lemma pending_exchange_at_most_one cfg q T w ixa sk fuel :
  match fst (consume fuel cfg (start_retry q T) w tt (h_pending ixa sk) (fun _ => RErr EIncomplete)) with ROk l => (length l <= 1)%nat | RErr _ => True end.
Proof.
  apply (consume_result (fun r => match r with ROk l => (length l <= 1)%nat | RErr _ => True end)).
  - intros acc. exact I.
  - intros acc i v res acc' E. unfold h_pending in E.
    destruct (i =? _).
    + injection E as <- _. destruct (negb (abort_code v =? 184)); [exact I|].
      destruct (field_of _ v 135) as [[| | | | |[n| | | | | | |]| |]|]; cbn; try lia.
      destruct (n =? 65535); cbn; lia.
    + destruct (existsb _ sk); [discriminate|]. injection E as <- _. exact I.
Qed.

Lemma pending_at_most_one cfg w : match fst (get_pending cfg w) with ROk l => (length l <= 1)%nat | RErr _ => True end.
Proof.
  unfold get_pending.
  match goal with |- context [consume LOOPFUEL cfg (start_retry ?q TIMEOUT) w tt (h_pending ?ixa ?sk) ?fin] =>
    pose proof (pending_exchange_at_most_one cfg q TIMEOUT w ixa sk LOOPFUEL) as K;
    destruct (consume LOOPFUEL cfg (start_retry q TIMEOUT) w tt (h_pending ixa sk) fin) as [[l|e] w1] end; cbn [fst] in K.
  - exact K.
  - destruct e; exact I.
Qed.

Lemma set_terminal_id_bounded cfg w :
  let '(_, w') := set_terminal_id cfg w in w_now w <= w_now w' <= w_now w + 2 * B60.
Proof.
  unfold set_terminal_id. pose proof (get_system_info_bounded cfg w) as K. change (Bt TIMEOUT) with B60 in K.
  destruct (get_system_info cfg w) as [[si|e] w1]; [|lia].
  destruct (list_eqb _ _); [lia|]. destruct (digits_value _) as [tidn|]; [|lia]. destruct (99999999 <? tidn); [lia|].
  match goal with |- context [consume LOOPFUEL cfg (start_retry ?q TIMEOUT) w1 ?a ?h ?fin] =>
    pose proof (single_stream_call_bounded cfg q TIMEOUT w1 a h fin LOOPFUEL) as K2; change (20 * (2000 + 2 * TIMEOUT) + N.of_nat LOOPFUEL * TIMEOUT) with B60 in K2;
    destruct (consume LOOPFUEL cfg (start_retry q TIMEOUT) w1 a h fin) as [r2 w2] end.
  lia.
Qed.

Lemma end_of_day_bounded cfg st w :
  let '(_, _, w') := end_of_day cfg st w in w_now w <= w_now w' <= w_now w + 3 * B60.
Proof.
  unfold end_of_day. pose proof (get_pending_bounded cfg w) as K. change (Bt TIMEOUT) with B60 in K.
  pose proof (pending_at_most_one cfg w) as L.
  destruct (get_pending cfg w) as [[pend|e] w1]; cbn [fst] in L; [|lia].
  assert (F : let '(_, w2) := fold_left (fun acc p => match acc with
                                               | (ROk _, w) => cancel_by_receipt cfg p w
                                               | other => other end) pend (ROk tt, w1) in
              w_now w1 <= w_now w2 <= w_now w1 + B60).
  { destruct pend as [|p [|p2 pend]]; [cbn; lia| |cbn in L; lia].
    cbn [fold_left]. pose proof (cancel_by_receipt_bounded cfg p w1) as K1. change (Bt TIMEOUT) with B60 in K1.
    destruct (cancel_by_receipt cfg p w1) as [r2 w2]. exact K1. }
  destruct (fold_left _ pend (ROk tt, w1)) as [[u|e] w2]; [|lia].
  match goal with |- context [consume LOOPFUEL cfg (start_retry ?q TIMEOUT) w2 ?a ?h ?fin] =>
    pose proof (single_stream_call_bounded cfg q TIMEOUT w2 a h fin LOOPFUEL) as K3; change (20 * (2000 + 2 * TIMEOUT) + N.of_nat LOOPFUEL * TIMEOUT) with B60 in K3;
    destruct (consume LOOPFUEL cfg (start_retry q TIMEOUT) w2 a h fin) as [r3 w3] end.
  lia.
Qed.

Lemma configure_bounded cfg st w :
  let '(_, _, w') := configure cfg st w in w_now w <= w_now w' <= w_now w + 6 * B60.
Proof.
  unfold configure. pose proof (set_terminal_id_bounded cfg w) as K1.
  destruct (set_terminal_id cfg w) as [[u|e] w1]; [|lia].
  pose proof (initialize_bounded cfg w1) as K2. change (Bt TIMEOUT) with B60 in K2.
  destruct (initialize cfg w1) as [[u2|e] w2]; [|lia].
  pose proof (end_of_day_bounded cfg st w2) as K3. destruct (end_of_day cfg st w2) as [[r3 st3] w3]. lia.
Qed.

Lemma begin_bounded cfg st tok w :
  let '(_, _, w') := begin_transaction cfg st tok w in w_now w <= w_now w' <= w_now w + B60.
Proof.
  unfold begin_transaction. destruct (_ =? _); [lia|]. destruct (assoc_tok tok (s_txs st)); [lia|].
  match goal with |- context [consume LOOPFUEL cfg (start_retry ?q TIMEOUT) w ?a ?h ?fin] =>
    pose proof (single_stream_call_bounded cfg q TIMEOUT w a h fin LOOPFUEL) as K; change (20 * (2000 + 2 * TIMEOUT) + N.of_nat LOOPFUEL * TIMEOUT) with B60 in K;
    destruct (consume LOOPFUEL cfg (start_retry q TIMEOUT) w a h fin) as [[rn|e] w1] end; exact K.
Qed.

Lemma cancel_bounded cfg st tok w :
  let '(_, _, w') := cancel_transaction cfg st tok w in w_now w <= w_now w' <= w_now w + 4 * B60.
Proof.
  unfold cancel_transaction. destruct (assoc_tok tok (s_txs st)) as [rn|]; [|lia].
  pose proof (cancel_by_receipt_bounded cfg rn w) as K. change (Bt TIMEOUT) with B60 in K.
  destruct (cancel_by_receipt cfg rn w) as [[u|e] w1]; [|lia].
  destruct (s_txs _); [|lia].
  pose proof (end_of_day_bounded cfg {| s_txs := remove_tok tok (s_txs st); s_max := s_max st |} w1) as K2.
  destruct (end_of_day cfg _ w1) as [[r2 st2] w2]. lia.
Qed.

Lemma commit_bounded cfg st tok amount w :
  let '(_, _, w') := commit_transaction cfg st tok amount w in w_now w <= w_now w' <= w_now w + 4 * B60.
Proof.
  unfold commit_transaction. destruct (assoc_tok tok (s_txs st)) as [rn|]; [|lia].
  match goal with |- context [consume LOOPFUEL cfg (start_retry ?q TIMEOUT) w ?a ?h ?fin] =>
    pose proof (single_stream_call_bounded cfg q TIMEOUT w a h fin LOOPFUEL) as K; change (20 * (2000 + 2 * TIMEOUT) + N.of_nat LOOPFUEL * TIMEOUT) with B60 in K;
    destruct (consume LOOPFUEL cfg (start_retry q TIMEOUT) w a h fin) as [[si|e] w1] end; [|lia].
  assert (K2 : let '(_, _, w2) := match s_txs {| s_txs := remove_tok tok (s_txs st); s_max := s_max st |} with
                          | [] => end_of_day cfg {| s_txs := remove_tok tok (s_txs st); s_max := s_max st |} w1
                          | _ => (ROk tt, {| s_txs := remove_tok tok (s_txs st); s_max := s_max st |}, w1)
                          end in w_now w1 <= w_now w2 <= w_now w1 + 3 * B60).
  { destruct (s_txs _); [apply end_of_day_bounded|lia]. }
  destruct (match s_txs _ with [] => _ | _ => _ end) as [[r2 st2] w2].
  destruct r2; [|lia]. destruct si; lia.
Qed.

(* EVERY public operation returns within a bound fixed by the retry budget and the per-packet timeout *)
Theorem every_call_returns_in_bounded_time cfg st o w :
  let T := (c_read_card_timeout cfg + 2) * 1000 in
  let '(_, _, w') := run_op cfg st o w in
  w_now w <= w_now w' <= w_now w + 6 * B60 + Bt T.
Proof.
  intros T. destruct o; cbn [run_op].
  - pose proof (configure_bounded cfg st w) as K. destruct (configure cfg st w) as [[r st'] w']. lia.
  - pose proof (read_card_bounded cfg w) as K. cbv zeta in K. fold T in K. destruct (read_card cfg w) as [r w']. lia.
  - pose proof (begin_bounded cfg st tok w) as K. destruct (begin_transaction cfg st tok w) as [[r st'] w']. lia.
  - pose proof (commit_bounded cfg st tok amount w) as K. destruct (commit_transaction cfg st tok amount w) as [[r st'] w']. lia.
  - pose proof (cancel_bounded cfg st tok w) as K. destruct (cancel_transaction cfg st tok w) as [[r st'] w']. lia.
Qed.

(* ---------- the retry budget of the calls made of several exchanges (ClientLog.attempts: opens + refusals in the event log) ---------- *)
From Zvt Require Import ClientLog.
Local Strategy 1000 [consume LOOPFUEL retry_next RFUEL].

Lemma single_attempts {A B} cfg q T w acc (h : A -> N -> value -> option (cres B) * A) fin fuel :
  let '(_, w') := consume fuel cfg (start_retry q T) w acc h fin in (attempts (w_log w') <= attempts (w_log w) + 20)%nat.
Proof. pose proof (call_attempts cfg q T w acc h fin fuel) as K. destruct (consume fuel cfg (start_retry q T) w acc h fin). exact K. Qed.

Lemma set_terminal_id_attempts cfg w :
  let '(_, w') := set_terminal_id cfg w in (attempts (w_log w') <= attempts (w_log w) + 40)%nat.
Proof.
  unfold set_terminal_id.
  assert (K : (attempts (w_log (snd (get_system_info cfg w))) <= attempts (w_log w) + 20)%nat).
  { unfold get_system_info.
    match goal with |- context [consume LOOPFUEL cfg (start_retry ?q TIMEOUT) w ?a ?h ?fin] =>
      pose proof (single_attempts cfg q TIMEOUT w a h fin LOOPFUEL) as K0; destruct (consume LOOPFUEL cfg (start_retry q TIMEOUT) w a h fin) as [[si|e] w0] end;
      cbn [snd]; [|exact K0].
    assert (D : attempts (w_log (drop_cur w0)) = attempts (w_log w0)) by (unfold drop_cur; destruct (w_cur w0); reflexivity).
    destruct (first_pos si) as [[| dev | | | | | |]|]; cbn [snd]; try (rewrite D; exact K0).
    destruct (Client.list_eqb _ _); cbn [snd]; [exact K0|rewrite D; exact K0]. }
  destruct (get_system_info cfg w) as [[si|e] w1]; cbn [snd] in K; [|lia].
  destruct (Client.list_eqb _ _); [lia|]. destruct (digits_value _) as [tidn|]; [|lia]. destruct (99999999 <? tidn); [lia|].
  match goal with |- context [consume LOOPFUEL cfg (start_retry ?q TIMEOUT) w1 ?a ?h ?fin] =>
    pose proof (single_attempts cfg q TIMEOUT w1 a h fin LOOPFUEL) as K2; destruct (consume LOOPFUEL cfg (start_retry q TIMEOUT) w1 a h fin) as [r2 w2] end.
  lia.
Qed.

Lemma end_of_day_attempts cfg st w :
  let '(_, _, w') := end_of_day cfg st w in (attempts (w_log w') <= attempts (w_log w) + 60)%nat.
Proof.
  unfold end_of_day. pose proof (pending_at_most_one cfg w) as L.
  assert (K : (attempts (w_log (snd (get_pending cfg w))) <= attempts (w_log w) + 20)%nat).
  { unfold get_pending.
    match goal with |- context [consume LOOPFUEL cfg (start_retry ?q TIMEOUT) w ?a ?h ?fin] =>
      pose proof (single_attempts cfg q TIMEOUT w a h fin LOOPFUEL) as K0; destruct (consume LOOPFUEL cfg (start_retry q TIMEOUT) w a h fin) as [[l|e] w0] end;
      cbn [snd]; [exact K0|].
    assert (D : attempts (w_log (drop_cur w0)) = attempts (w_log w0)) by (unfold drop_cur; destruct (w_cur w0); reflexivity).
    destruct e; cbn [snd]; try exact K0. rewrite D. exact K0. }
  destruct (get_pending cfg w) as [[pend|e] w1]; cbn [fst snd] in L, K; [|lia].
  assert (F : let '(_, w2) := fold_left (fun acc p => match acc with
                                               | (ROk _, w) => cancel_by_receipt cfg p w
                                               | other => other end) pend (ROk tt, w1) in
              (attempts (w_log w2) <= attempts (w_log w1) + 20)%nat).
  { destruct pend as [|p [|p2 pend]]; [cbn; lia| |cbn in L; lia].
    cbn [fold_left]. unfold cancel_by_receipt.
    match goal with |- context [consume LOOPFUEL cfg (start_retry ?q TIMEOUT) w1 ?a ?h ?fin] =>
      pose proof (single_attempts cfg q TIMEOUT w1 a h fin LOOPFUEL) as K1; destruct (consume LOOPFUEL cfg (start_retry q TIMEOUT) w1 a h fin) as [r2 w2] end. exact K1. }
  destruct (fold_left _ pend (ROk tt, w1)) as [[u|e] w2]; [|lia].
  match goal with |- context [consume LOOPFUEL cfg (start_retry ?q TIMEOUT) w2 ?a ?h ?fin] =>
    pose proof (single_attempts cfg q TIMEOUT w2 a h fin LOOPFUEL) as K3; destruct (consume LOOPFUEL cfg (start_retry q TIMEOUT) w2 a h fin) as [r3 w3] end.
  lia.
Qed.

(* EVERY public operation connects at most 140 times (configure: up to seven exchanges of 20 attempts each) *)
Theorem every_call_attempts_bounded cfg st o w :
  let '(_, _, w') := run_op cfg st o w in (attempts (w_log w') <= attempts (w_log w) + 140)%nat.
Proof.
  destruct o; cbn [run_op].
  - unfold configure. pose proof (set_terminal_id_attempts cfg w) as K1.
    destruct (set_terminal_id cfg w) as [[u|e] w1]; [|lia]. unfold initialize.
    match goal with |- context [consume LOOPFUEL cfg (start_retry ?q TIMEOUT) w1 ?a ?h ?fin] =>
      pose proof (single_attempts cfg q TIMEOUT w1 a h fin LOOPFUEL) as K2; destruct (consume LOOPFUEL cfg (start_retry q TIMEOUT) w1 a h fin) as [[u2|e] w2] end; [|lia].
    pose proof (end_of_day_attempts cfg st w2) as K3. destruct (end_of_day cfg st w2) as [[r3 st3] w3]. lia.
  - unfold read_card.
    match goal with |- context [consume LOOPFUEL cfg (start_retry ?q ?T) w ?a ?h ?fin] =>
      pose proof (single_attempts cfg q T w a h fin LOOPFUEL) as K; destruct (consume LOOPFUEL cfg (start_retry q T) w a h fin) as [r w'] end. lia.
  - unfold begin_transaction. destruct (_ =? _); [lia|]. destruct (assoc_tok tok (s_txs st)); [lia|].
    match goal with |- context [consume LOOPFUEL cfg (start_retry ?q TIMEOUT) w ?a ?h ?fin] =>
      pose proof (single_attempts cfg q TIMEOUT w a h fin LOOPFUEL) as K; destruct (consume LOOPFUEL cfg (start_retry q TIMEOUT) w a h fin) as [[rn|e] w1] end; lia.
  - unfold commit_transaction. destruct (assoc_tok tok (s_txs st)) as [rn|]; [|lia].
    match goal with |- context [consume LOOPFUEL cfg (start_retry ?q TIMEOUT) w ?a ?h ?fin] =>
      pose proof (single_attempts cfg q TIMEOUT w a h fin LOOPFUEL) as K; destruct (consume LOOPFUEL cfg (start_retry q TIMEOUT) w a h fin) as [[si|e] w1] end; [|lia].
    assert (K2 : let '(_, _, w2) := match s_txs {| s_txs := remove_tok tok (s_txs st); s_max := s_max st |} with
                          | [] => end_of_day cfg {| s_txs := remove_tok tok (s_txs st); s_max := s_max st |} w1
                          | _ => (ROk tt, {| s_txs := remove_tok tok (s_txs st); s_max := s_max st |}, w1)
                          end in (attempts (w_log w2) <= attempts (w_log w1) + 60)%nat).
    { destruct (s_txs _); [apply end_of_day_attempts|lia]. }
    destruct (match s_txs _ with [] => _ | _ => _ end) as [[r2 st2] w2].
    destruct r2; [|lia]. destruct si; lia.
  - unfold cancel_transaction. destruct (assoc_tok tok (s_txs st)) as [rn|]; [|lia]. unfold cancel_by_receipt.
    match goal with |- context [consume LOOPFUEL cfg (start_retry ?q TIMEOUT) w ?a ?h ?fin] =>
      pose proof (single_attempts cfg q TIMEOUT w a h fin LOOPFUEL) as K; destruct (consume LOOPFUEL cfg (start_retry q TIMEOUT) w a h fin) as [[u|e] w1] end; [|lia].
    destruct (s_txs _); [|lia].
    pose proof (end_of_day_attempts cfg {| s_txs := remove_tok tok (s_txs st); s_max := s_max st |} w1) as K2.
    destruct (end_of_day cfg _ w1) as [[r2 st2] w2]. lia.
Qed.

(* ================================================================== a different serial number outside the handshake (since the fix of F18) *)
(* whenever get_system_info (configure's own identity question) fails with "wrong device", no connection is kept: the next sequence
   starts by connecting, with registration and a fresh identity check *)
Theorem wrong_serial_in_configure_abandons_connection cfg w w' :
  get_system_info cfg w = (RErr EWrongDevice, w') -> w_cur w' = None.
Proof.
  unfold get_system_info.
  match goal with |- context [consume ?f cfg ?r w ?a ?h ?fin] =>
    assert (NW : fst (consume f cfg r w a h fin) <> RErr EWrongDevice);
    [apply (consume_result (fun x : cres value => x <> RErr EWrongDevice) cfg h fin);
       [intros acc; discriminate
       |intros acc i v res acc' Hh; unfold h_sysinfo in Hh; injection Hh as <- _; destruct (i =? _); discriminate]
    |destruct (consume f cfg r w a h fin) as [[si|e] w1]] end.
  - destruct (first_pos si) as [[| dev | | | | | |]|]; try (intros [= <-]; apply drop_cur_clears).
    destruct (Client.list_eqb _ _); [discriminate|intros [= <-]; apply drop_cur_clears].
  - intros E. injection E as E1 E2. exfalso. cbn [fst] in NW. apply NW. rewrite E1. reflexivity.
Qed.

(* "on connect": a connection attempt nobody answers ends exactly at the attempt's deadline, as a failed attempt (time-out kind),
   without opening a connection and without touching the current one *)
Lemma unanswered_connect_ends_at_the_deadline cfg d w s rest :
  w_scripts w = s :: rest -> cs_refused s = false -> cs_silent s = true ->
  exists w', connect cfg d w = CErr 3 w' /\ w_now w' = d /\ w_conns w' = w_conns w /\ w_cur w' = w_cur w /\ w_scripts w' = rest.
Proof.
  intros Hs Hr Hq. unfold connect. rewrite Hs, Hr, Hq. eexists. split; [reflexivity|]. repeat split.
Qed.
