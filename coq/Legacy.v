(* Legacy.v — the client as it was BEFORE the `fix:` commits F6 / F7 (the codec findings are in LegacyCodec.v). *)
From Zvt Require Import Base Length LengthProps Cp437 Encoding EncodingProps Codec Lookup Client ClientProps.
From Zvt Require Export LegacyCodec.
Open Scope N_scope.

(* ---------- F6 (C10): (timeout_sec + 2) as u64 — the addition was done in u8 ---------- *)
Definition legacy_read_card_timeout_release (t : N) : N := ((t + 2) mod 256) * 1000.
(* 254 s configured: a timeout of ZERO in a release build (a panic in a debug build) *)
Lemma F6_refuted : legacy_read_card_timeout_release 254 = 0 /\ legacy_read_card_timeout_release 255 = 1000.
Proof. split; reflexivity. Qed.
Lemma F6_now : forall t, t < 256 -> 2000 <= (t + 2) * 1000.
Proof. intros t H. lia. Qed.

(* ---------- F7 (C10): inner::connect was awaited without a timeout ---------- *)
(* a terminal that accepts the connection and never answers the registration: the old connect never returned;
   in the model that is a deadline that is never reached, i.e. no deadline at all *)
Definition silent_world : world :=
  {| w_conns := []; w_scripts := [{| cs_refused := false; cs_chunks := []; cs_close := false; cs_silent := false |}]; w_cur := None; w_now := 0; w_log := [] |}.
Definition any_cfg : config :=
  {| c_serial := []; c_terminal_id := []; c_currency := 978; c_amount := 1; c_read_card_timeout := 15; c_password := 0; c_max := 1 |}.
(* with a deadline the attempt ends AT the deadline, whatever it is: there is no finite time at which it ends by itself *)
Lemma F7_refuted : forall d, match connect any_cfg d silent_world with CErr 3 w' => w_now w' = d | _ => False end.
Proof. intros d. vm_compute. reflexivity. Qed.

(* ---------- F10 (C08): the summary's terminal id was `to_string()` of the reported number ---------- *)
Definition legacy_tid_text (n : N) : list N := dec_digits 40 n.
(* the terminal id 00123456 came back as "123456", the default id 00000000 as "0" *)
Lemma F10_refuted : legacy_tid_text 123456 = [49; 50; 51; 52; 53; 54] /\ legacy_tid_text 0 = [48].
Proof. split; vm_compute; reflexivity. Qed.
Lemma F10_now : pad_dec 8 123456 = [48; 48; 49; 50; 51; 52; 53; 54] /\ pad_dec 8 0 = repeat 48 8.
Proof. split; vm_compute; reflexivity. Qed.

(* ---------- F11 (C20): get_pending took every abort of the query for its answer ---------- *)
Definition legacy_h_pending (ixa : N) (_ : unit) (i : N) (v : value) : option (cres (list N)) * unit :=
  (Some (if i =? ixa then
           match field_of "zvt::packets::PartialReversalAbort" v 135 with
           | Some (VSome (VInt r)) => if r =? 65535 then ROk [] else ROk [r]
           | _ => ROk []
           end
         else RErr EUnexpectedPacket), tt).
(* the terminal aborts the query with 0x9C: the old handler said "nothing pending", and end-of-day went ahead *)
Lemma F11_refuted : forall ixa, fst (legacy_h_pending ixa tt ixa (VRec [VInt 156; VNone])) = Some (ROk []).
Proof. intros ixa. unfold legacy_h_pending. rewrite N.eqb_refl. reflexivity. Qed.
Lemma F11_now : forall ixa sk, fst (h_pending ixa sk tt ixa (VRec [VInt 156; VNone])) = Some (RErr (EAborted 156)).
Proof. intros ixa sk. apply (pending_query_abort_surfaces 156 ixa sk [VNone]). lia. Qed.

(* ---------- F13 (C09): get_pending bailed on an unexpected reply in the middle of the exchange and kept the connection ---------- *)
(* the old function handed back the world as the consumer loop left it: the current connection was still there *)
Definition legacy_get_pending (cfg : config) (w : world) : cres (list N) * world :=
  let cmd := mk_cmd "zvt::packets::PartialReversal" [] [(135, VSome (VInt 65535))] in
  let q := seq_of "zvt::sequences::PartialReversal" cmd in
  let ixa := variant_ix "zvt::sequences::PartialReversalResponse" "PartialReversalAbort" in
  consume LOOPFUEL cfg (start_retry q TIMEOUT) w tt (h_pending ixa []) (fun _ => RErr EIncomplete).
(* a terminal that answers the query with a completion (unexpected here) and stays connected: the old client kept connection 0 *)
Definition f13_world : world :=
  {| w_conns := [{| k_queue := []; k_close := false; k_buf := [128; 0; 0; 6; 15; 0] |}]; w_scripts := []; w_cur := Some 0; w_now := 5; w_log := [] |}.
Lemma F13_refuted : fst (legacy_get_pending any_cfg f13_world) = RErr EUnexpectedPacket /\ w_cur (snd (legacy_get_pending any_cfg f13_world)) = Some 0.
Proof. split; vm_compute; reflexivity. Qed.
Lemma F13_now : fst (get_pending any_cfg f13_world) = RErr EUnexpectedPacket /\ w_cur (snd (get_pending any_cfg f13_world)) = None.
Proof. split; vm_compute; reflexivity. Qed.

(* ---------- F14 (C10): configuration values their field cannot carry made every call panic ---------- *)
(* Fixed::<N>::serialize is `vec![0; N - len]`: with a password of seven digits the BCD payload has four bytes and 3 - 4 underflows *)
Lemma F14_refuted : len_ser (LFixed 3) 4 = Panic /\ mk_cmd "zvt::packets::Registration" [VInt 1000000; VInt 222; VSome (VInt 978)] [] = [].
Proof. split; vm_compute; reflexivity. Qed.
Lemma F14_now : cfg_ok {| c_serial := []; c_terminal_id := []; c_currency := 978; c_amount := 1; c_read_card_timeout := 15; c_password := 1000000; c_max := 1 |} = false
             /\ forall ops scripts, feig_history {| c_serial := []; c_terminal_id := []; c_currency := 978; c_amount := 1; c_read_card_timeout := 15; c_password := 1000000; c_max := 1 |} ops scripts = None.
Proof. split; [reflexivity|intros; reflexivity]. Qed.

(* ---------- F17 (C20): the query treated a progress report in front of its answer as an unexpected packet ---------- *)
(* [04 FF 01 17, 06 1E 01 9C]: the handler of F13's time (no packets to pass over) stopped at the first one with UnexpectedPacket —
   the abort code 0x9C never surfaced; now the progress report is passed over and the abort is what the call reports *)
Lemma F17_refuted : forall ixa i v, i <> ixa -> fst (h_pending ixa [] tt i v) = Some (RErr EUnexpectedPacket).
Proof. intros ixa i v H. apply pending_other_packet_is_unexpected; [exact H|intros []]. Qed.
Lemma F17_now : forall ixa i v, i <> ixa -> h_pending ixa [i] tt i v = (None, tt)
             /\ fst (h_pending ixa [i] tt ixa (VRec [VInt 156; VNone])) = Some (RErr (EAborted 156)).
Proof. intros ixa i v H. split; [apply pending_progress_is_skipped; [exact H|left; reflexivity]|apply (pending_query_abort_surfaces 156 ixa [i] [VNone]); lia]. Qed.

(* ---------- F16 (C18): read_card looked for applications only at the top level of the status TLV ---------- *)
(* the list as the code before the fix saw it: top-level entries only *)
Definition legacy_application_list (tlv : value) : list value :=
  match field_of "zvt::packets::tlv::StatusInformation" tlv 96 with Some (VList l) => l | _ => [] end.
(* a status TLV whose only application entry sits in the "applications on card" container (as the cVEND sends it):
   the old list is empty — the card went down the UID path and became a membership card — the new one is not *)
Lemma F16_refuted_then_repaired : forall tlv e,
  field_of "zvt::packets::tlv::StatusInformation" tlv 96 = Some (VList []) ->
  field_of "zvt::packets::tlv::StatusInformation" tlv 98 = Some (VSome (VRec [VList [e]])) ->
  legacy_application_list tlv = [] /\ application_list tlv = [e].
Proof. intros tlv e H1 H2. unfold legacy_application_list, application_list. rewrite H1, H2. split; reflexivity. Qed.
