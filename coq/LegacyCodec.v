(* LegacyCodec.v — the codec as it was BEFORE the `fix:` commits in /repo (known_findings.json), modelled next to the current
   definitions, each with a kernel-checked witness that the old code violated the property (`..._refuted`) and that the repaired
   definition does not (`..._now`).  Codec findings only (F1-F5, F8, F9); the client's are in Legacy.v.  The formal record of
   the findings; nothing else depends on it except the property files that cite a finding. *)
From Zvt Require Import Base Length LengthProps Cp437 Encoding EncodingProps Codec.
Open Scope N_scope.

(* ---------- F1 (C02): Tlv::deserialize indexed data[1..3] after a 0x82 length marker ---------- *)
Definition legacy_tlv_len_de (bs : bytes) : res (N * bytes) :=
  match bs with
  | [] => Err IncompleteData
  | d :: r =>
      if d <=? 127 then Ok (d, r)
      else if d =? 129 then match r with [] => Err IncompleteData | d1 :: r1 => Ok (d1, r1) end
      else if d =? 130 then match r with hi :: lo :: r2 => Ok (hi * 256 + lo, r2) | _ => Panic end   (* slice index out of range *)
      else Err NonImplemented
  end.
Lemma F1_refuted : exists bs, legacy_tlv_len_de bs = Panic.
Proof. exists [130; 1]. reflexivity. Qed.
Lemma F1_now : forall bs, len_de LTlv bs <> Panic.
Proof. intros bs. apply (len_de_no_panic LTlv bs). Qed.

(* ---------- F2 (C02 / C17): Bcd::decode multiplied and added without overflow checks ---------- *)
(* release build: wrapping arithmetic in the width of the target integer; debug build: panic *)
Fixpoint legacy_bcd_acc_release (w : N) (bs : bytes) (rv : N) : N :=
  match bs with
  | [] => rv
  | d :: r =>
      let hi := d / 16 in let lo := d mod 16 in
      legacy_bcd_acc_release w r ((if lo =? 15 then rv * 10 + hi else rv * 100 + hi * 10 + lo) mod 2 ^ (8 * w))
  end.
Fixpoint legacy_bcd_dec_debug (w : N) (bs : bytes) (rv : N) : res N :=
  match bs with
  | [] => Ok rv
  | d :: r =>
      let hi := d / 16 in let lo := d mod 16 in
      let nv := if lo =? 15 then rv * 10 + hi else rv * 100 + hi * 10 + lo in
      if nv <? 2 ^ (8 * w) then legacy_bcd_dec_debug w r nv else Panic      (* attempt to multiply / add with overflow *)
  end.
(* the digits 0256 decoded into a u8: 0 in a release build, a panic in a debug build — the two builds disagree *)
Lemma F2_refuted : legacy_bcd_acc_release 1 [2; 86] 0 = 0 /\ legacy_bcd_dec_debug 1 [2; 86] 0 = Panic.
Proof. split; reflexivity. Qed.
Lemma F2_now : bcd_dec 1 [2; 86] = Err IncompleteData.
Proof. reflexivity. Qed.

(* ---------- F3 (C02 / C17): the month was taken as (date % 1000) / 100 and from_ymd_opt(..).unwrap() ---------- *)
Definition legacy_date_fields (date : N) : Z * N * N := (Z.of_N (date / 10000), (date mod 1000) / 100, date mod 100).
(* 5 October 2023 read back as month 0 (then unwrap() panicked); December as February *)
Lemma F3_refuted : legacy_date_fields 20231005 = (2023%Z, 0, 5) /\ legacy_date_fields 20231224 = (2023%Z, 2, 24).
Proof. split; reflexivity. Qed.
Lemma F3_now : datetime_dec [31; 14; 4; 32; 35; 16; 5; 31; 15; 3; 18; 52; 86] = Ok (VDate 2023 10 5 12 34 56, []).
Proof. vm_compute. reflexivity. Qed.

(* ---------- F4 (C01 / C17): the Utf8 and NaiveDateTime encoders returned vec![] ---------- *)
Definition legacy_utf8_enc (s : list N) : res bytes := Ok [].
Lemma F4_refuted : exists s, forall bs, legacy_utf8_enc s = Ok bs -> utf8_dec bs <> Some s.
Proof. exists [65]. intros bs [= <-]. discriminate. Qed.
Lemma F4_now : utf8_enc [65] = Ok [65] /\ utf8_dec [65] = Some [65].
Proof. split; reflexivity. Qed.

(* ---------- F5 (C02 / C12): Vec<T>::deserialize_tagged looped while the element decoder succeeded ---------- *)
Fixpoint legacy_vec_loop (n : nat) (step : bytes -> res (value * bytes)) (bs : bytes) (acc : list value) : res (value * bytes) :=
  match n with
  | O => OutOfFuel
  | S n => match step bs with
           | Ok (v, r) => legacy_vec_loop n step r (v :: acc)
           | Err _ => Ok (VList (rev acc), bs)
           | Panic => Panic
           | OutOfFuel => OutOfFuel
           end
  end.
(* an element type that decodes from nothing (Option<_>, a struct of Options, a zero-width value): no fuel ever suffices *)
Lemma F5_refuted : forall n, legacy_vec_loop n (fun bs => Ok (VNone, bs)) [] [] = OutOfFuel.
Proof. intros n. generalize (@nil value). induction n as [|n IH]; intros acc; [reflexivity|]. cbn [legacy_vec_loop]. apply IH. Qed.
Lemma F5_now : forall n, vec_loop (S n) (fun bs => Ok (VNone, bs)) [] [] = Ok (VList [], []).
Proof. intros n. reflexivity. Qed.

(* ---------- F8 (C02): the date number was split with `date as i32 / 10000`, `date as u32 % 10000 / 100`, `date as u32 % 100` ---------- *)
Definition legacy_date_split (date : N) : Z * N * N :=
  (Z.quot (as_i32 date) 10000, ((date mod 4294967296) mod 10000) / 100, (date mod 4294967296) mod 100).
(* the ten digits 4315197701 (2^32 + 20230405) were read as 5 April 2023, 2621430101 (beyond 2^31) as 1 January of the year -167353 *)
Lemma F8_refuted : legacy_date_split 4315197701 = (2023%Z, 4, 5) /\ legacy_date_split 2621430101 = ((-167353)%Z, 1, 1).
Proof. split; reflexivity. Qed.
(* now: 1F0E 05 4315197701 1F0F 03 123456 is an error; and whenever the decoder answers, the date it answers IS the number's
   digits: year = date / 10000 (at most the calendar's last year), month and day its last four digits *)
Lemma F8_now : datetime_dec [31; 14; 5; 67; 21; 25; 119; 1; 31; 15; 3; 18; 52; 86] = Err IncompleteData
            /\ datetime_dec [31; 14; 5; 38; 33; 67; 1; 1; 31; 15; 3; 18; 52; 86] = Ok (VDate 262143 1 1 12 34 56, []).
Proof. split; vm_compute; reflexivity. Qed.
Lemma F8_both :
  (legacy_date_split 4315197701 = (2023%Z, 4, 5) /\ legacy_date_split 2621430101 = ((-167353)%Z, 1, 1)) /\
  (datetime_dec [31; 14; 5; 67; 21; 25; 119; 1; 31; 15; 3; 18; 52; 86] = Err IncompleteData /\
   datetime_dec [31; 14; 5; 38; 33; 67; 1; 1; 31; 15; 3; 18; 52; 86] = Ok (VDate 262143 1 1 12 34 56, [])).
Proof. exact (conj F8_refuted F8_now). Qed.

(* ---------- F9 (C01 / C03): text shorter than its fixed-width field was padded in FRONT, and the decoder trims at the END ---------- *)
Definition legacy_fixed_text (k : N) (pl : bytes) : bytes := zeros (k - blen pl) ++ pl.
(* "750071" in the 8-byte field of BMP 3B (the value the crate's own terminal trace decodes to) came back with two NULs in front *)
Lemma F9_refuted : cp437_dec (legacy_fixed_text 8 [55; 53; 48; 48; 55; 49]) = [0; 0; 55; 53; 48; 48; 55; 49].
Proof. vm_compute. reflexivity. Qed.
Lemma F9_now : framed_enc_p (LFixed 8) PString (Some 59) [55; 53; 48; 48; 55; 49] = Ok [59; 55; 53; 48; 48; 55; 49; 0; 0]
            /\ cp437_dec [55; 53; 48; 48; 55; 49; 0; 0] = [55; 53; 48; 48; 55; 49].
Proof. split; vm_compute; reflexivity. Qed.
Lemma F9_both :
  cp437_dec (legacy_fixed_text 8 [55; 53; 48; 48; 55; 49]) = [0; 0; 55; 53; 48; 48; 55; 49] /\
  (framed_enc_p (LFixed 8) PString (Some 59) [55; 53; 48; 48; 55; 49] = Ok [59; 55; 53; 48; 48; 55; 49; 0; 0]
   /\ cp437_dec [55; 53; 48; 48; 55; 49; 0; 0] = [55; 53; 48; 48; 55; 49]).
Proof. exact (conj F9_refuted F9_now). Qed.
