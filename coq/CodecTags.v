(* CodecTags.v — the tag loop of the generated decoder (C13, and step 3 of C01):
   tagged groups in ANY order decode to the same value; a second group for a tag is a DuplicateTag;
   all missing mandatory tags are named; an unknown tag stops the loop without disturbing what was
   decoded.  Stated over an abstract field decoder D and per-group hypotheses (group_ok), so that
   declaration order (C01) and every permutation (C13) are instances of one lemma. *)
From Zvt Require Import Base Length LengthProps Cp437 Encoding EncodingProps Codec CodecTotal.
From Coq Require Import ZifyBool ZifyNat ZifyN Permutation.
Open Scope N_scope.

Record group := { g_idx : nat; g_tag : N; g_val : value; g_bytes : bytes }.

(* what follows a group does not start with the group's own tag *)
Definition next_ok (t : N) (r : bytes) : Prop :=
  match tag_dec false r with Ok (t', _) => t' <> t | _ => True end.

Definition group_ok (D : dec_fn) (fs : list field) (g : group) : Prop :=
  exists nm ls e ty,
    find_tagged fs (g_tag g) 0 = Some (g_idx g, Fld nm (Some (g_tag g)) ls e ty) /\
    (forall r, exists rest, tag_dec false (g_bytes g ++ r) = Ok (g_tag g, rest)) /\
    (forall r, next_ok (g_tag g) r -> D ls e ty (Some (g_tag g)) (g_bytes g ++ r) = Ok (g_val g, r)).

(* the bytes behind the last group: nothing, something that is not a tag, or a tag the struct does not know *)
Definition tail_ok (fs : list field) (tail : bytes) : Prop :=
  match tag_dec false tail with Ok (u, _) => find_tagged fs u 0 = None | _ => True end.

Definition gbytes (gs : list group) : bytes := concat (map g_bytes gs).
Definition apply_groups (vals : list value) (gs : list group) : list value :=
  fold_left (fun vs g => set_nth vs (g_idx g) (g_val g)) gs vals.

Lemma tag_loop_step n D fs bs cl seen vals : bs <> [] ->
  tag_loop (S n) D fs bs cl seen vals =
  if cl =? blen bs then Ok (seen, vals, bs) else
  match tag_dec false bs with
  | Ok (num, _) =>
      match find_tagged fs num O with
      | Some (i, Fld _ _ ls e t) =>
          if existsb (N.eqb num) seen then Err (DuplicateTag num) else
          let* (v, r) := D ls e t (Some num) bs in
          tag_loop n D fs r (blen bs) (num :: seen) (set_nth vals i v)
      | None => Ok (seen, vals, bs)
      end
  | Err _ => Ok (seen, vals, bs)
  | Panic => Panic
  | OutOfFuel => OutOfFuel
  end.
Proof. intros H. destruct bs; [congruence|reflexivity]. Qed.

Lemma group_nonempty D fs g : group_ok D fs g -> g_bytes g <> [].
Proof.
  intros [nm [ls [e [ty [_ [H _]]]]]] E. destruct (H []) as [rest Hr]. rewrite E in Hr. cbn in Hr. discriminate.
Qed.

Lemma existsb_eqb_false x l : ~ In x l -> existsb (N.eqb x) l = false.
Proof.
  intros H. destruct (existsb (N.eqb x) l) eqn:E; [|reflexivity]. exfalso. apply H.
  apply existsb_exists in E. destruct E as [y [Hy Hxy]]. apply N.eqb_eq in Hxy. subst. exact Hy.
Qed.

Lemma existsb_eqb_true x l : In x l -> existsb (N.eqb x) l = true.
Proof. intros H. apply existsb_exists. exists x. split; [exact H|apply N.eqb_refl]. Qed.

(* the loop over any sequence of pairwise distinct, well-formed groups *)
Lemma tag_loop_groups D fs tail : tail_ok fs tail -> forall gs n cl seen vals,
  Forall (group_ok D fs) gs -> NoDup (map g_tag gs) ->
  (forall g, In g gs -> ~ In (g_tag g) seen) ->
  (length gs < n)%nat -> (gs <> [] -> cl <> blen (gbytes gs ++ tail)) ->
  tag_loop n D fs (gbytes gs ++ tail) cl seen vals =
    Ok (rev (map g_tag gs) ++ seen, apply_groups vals gs, tail).
Proof.
  intros Ht. induction gs as [|g gs IH]; intros n cl seen vals Hok Hnd Hseen Hn Hcl.
  - cbn [gbytes map concat app rev apply_groups fold_left].
    destruct n as [|n]; [cbn in Hn; lia|]. cbn [tag_loop].
    destruct tail as [|b0 tl] eqn:Et; [reflexivity|]. rewrite <- Et in *.
    destruct (cl =? blen tail); [reflexivity|].
    unfold tail_ok in Ht. destruct (tag_dec false tail) as [[u r]| | |] eqn:E; try reflexivity.
    + rewrite Ht. reflexivity.
    + destruct (tag_dec_no_panic false tail) as [P _]. congruence.
    + destruct (tag_dec_no_panic false tail) as [_ P]. congruence.
  - destruct n as [|n]; [cbn in Hn; lia|].
    pose proof (Forall_inv Hok) as Hg. pose proof (Forall_inv_tail Hok) as Hgs.
    pose proof (group_nonempty D fs g Hg) as Hne.
    destruct Hg as [nm [ls [e [ty [Hfind [Htag Hdec]]]]]].
    unfold gbytes. cbn [map concat]. fold (gbytes gs). rewrite <- app_assoc.
    set (rest := gbytes gs ++ tail).
    assert (Hbs : g_bytes g ++ rest <> []) by (destruct (g_bytes g); [congruence|discriminate]).
    rewrite tag_loop_step by exact Hbs.
    assert (Hcl' : cl <> blen (g_bytes g ++ rest)).
    { specialize (Hcl ltac:(discriminate)). unfold gbytes in Hcl. cbn [map concat] in Hcl.
      rewrite <- app_assoc in Hcl. exact Hcl. }
    destruct (cl =? blen (g_bytes g ++ rest)) eqn:Ecl; [lia|].
    destruct (Htag rest) as [r0 Hr0]. rewrite Hr0, Hfind.
    rewrite existsb_eqb_false by (apply Hseen; left; reflexivity).
    inversion Hnd as [|? ? Hnotin Hnd']; subst.
    assert (Hnext : next_ok (g_tag g) rest).
    { unfold next_ok, rest. destruct gs as [|g' gs'].
      - cbn [gbytes map concat app]. unfold tail_ok in Ht.
        destruct (tag_dec false tail) as [[u r]| | |]; try exact I. intros ->. rewrite Hfind in Ht. discriminate.
      - pose proof (Forall_inv Hgs) as [nm' [ls' [e' [ty' [_ [Htag' _]]]]]].
        unfold gbytes. cbn [map concat]. rewrite <- app_assoc. destruct (Htag' (concat (map g_bytes gs') ++ tail)) as [r1 Hr1].
        rewrite Hr1. intros Heq. apply Hnotin. cbn [map]. left. exact Heq. }
    rewrite (Hdec rest Hnext). cbn [bind]. subst rest.
    rewrite (IH n (blen (g_bytes g ++ gbytes gs ++ tail)) (g_tag g :: seen) (set_nth vals (g_idx g) (g_val g))); try assumption.
    + cbn [map rev apply_groups fold_left]. rewrite <- app_assoc. reflexivity.
    + intros g' Hin [Heq|Hin']; [apply Hnotin; rewrite Heq; apply in_map; exact Hin|].
      apply (Hseen g' (or_intror Hin)). exact Hin'.
    + cbn in Hn. lia.
    + intros _. rewrite blen_app.
      destruct (g_bytes g) as [|x xs]; [congruence|]. rewrite blen_cons. lia.
Qed.

(* groups whose field decoder does not care what follows (everything except Vec fields) *)
Definition group_strict (D : dec_fn) (fs : list field) (g : group) : Prop :=
  exists nm ls e ty,
    find_tagged fs (g_tag g) 0 = Some (g_idx g, Fld nm (Some (g_tag g)) ls e ty) /\
    (forall r, exists rest, tag_dec false (g_bytes g ++ r) = Ok (g_tag g, rest)) /\
    (forall r, D ls e ty (Some (g_tag g)) (g_bytes g ++ r) = Ok (g_val g, r)).

Lemma strict_ok D fs g : group_strict D fs g -> group_ok D fs g.
Proof.
  intros [nm [ls [e [ty [A [B C]]]]]]. exists nm, ls, e, ty. split; [exact A|]. split; [exact B|].
  intros r _. apply C.
Qed.

(* a second group for a tag that was already seen is rejected, naming that tag *)
Lemma tag_loop_duplicate D fs : forall gs n cl seen vals (d : group) after,
  Forall (group_strict D fs) gs -> NoDup (map g_tag gs) ->
  (forall g, In g gs -> ~ In (g_tag g) seen) ->
  group_strict D fs d -> (In (g_tag d) (map g_tag gs) \/ In (g_tag d) seen) ->
  (length gs < n)%nat -> cl <> blen (gbytes gs ++ g_bytes d ++ after) ->
  tag_loop n D fs (gbytes gs ++ g_bytes d ++ after) cl seen vals = Err (DuplicateTag (g_tag d)).
Proof.
  induction gs as [|g gs IH]; intros n cl seen vals d after Hok Hnd Hseen Hd Hdup Hn Hcl.
  - cbn [gbytes map concat app] in *. destruct n as [|n]; [cbn in Hn; lia|].
    pose proof (group_nonempty D fs d (strict_ok _ _ _ Hd)) as Hne.
    assert (Hbs : g_bytes d ++ after <> []) by (destruct (g_bytes d); [congruence|discriminate]).
    rewrite tag_loop_step by exact Hbs.
    destruct (cl =? blen (g_bytes d ++ after)) eqn:E; [lia|].
    destruct Hd as [nm [ls [e [ty [Hfind [Htag _]]]]]]. destruct (Htag after) as [r0 Hr0]. rewrite Hr0, Hfind.
    destruct Hdup as [[]|Hin]. rewrite (existsb_eqb_true _ _ Hin). reflexivity.
  - destruct n as [|n]; [cbn in Hn; lia|].
    pose proof (Forall_inv Hok) as Hg. pose proof (Forall_inv_tail Hok) as Hgs.
    pose proof (group_nonempty D fs g (strict_ok _ _ _ Hg)) as Hne.
    destruct Hg as [nm [ls [e [ty [Hfind [Htag Hdec]]]]]].
    unfold gbytes. cbn [map concat]. fold (gbytes gs). rewrite <- app_assoc.
    set (rest := gbytes gs ++ g_bytes d ++ after).
    assert (Hbs : g_bytes g ++ rest <> []) by (destruct (g_bytes g); [congruence|discriminate]).
    rewrite tag_loop_step by exact Hbs.
    assert (Hcl' : cl <> blen (g_bytes g ++ rest)).
    { unfold gbytes in Hcl. cbn [map concat] in Hcl. rewrite <- app_assoc in Hcl. exact Hcl. }
    destruct (cl =? blen (g_bytes g ++ rest)) eqn:Ecl; [lia|].
    destruct (Htag rest) as [r0 Hr0]. rewrite Hr0, Hfind.
    rewrite existsb_eqb_false by (apply Hseen; left; reflexivity).
    inversion Hnd as [|? ? Hnotin Hnd']; subst.
    rewrite (Hdec rest). cbn [bind]. subst rest.
    apply IH; try assumption.
    + intros g' Hin [Heq|Hin']; [apply Hnotin; rewrite Heq; apply in_map; exact Hin|].
      apply (Hseen g' (or_intror Hin)). exact Hin'.
    + destruct Hdup as [Hin|Hin]; [|right; right; exact Hin].
      cbn [map] in Hin. destruct Hin as [Heq|Hin]; [right; left; exact Heq|left; exact Hin].
    + cbn in Hn. lia.
    + rewrite blen_app. destruct (g_bytes g) as [|x xs]; [congruence|]. rewrite blen_cons. lia.
Qed.

(* ---------- positional prefix ---------- *)

Definition untagged (fs : list field) : list field :=
  filter (fun f => match f_tag f with None => true | Some _ => false end) fs.

(* positional triples: field, value, bytes; each decodes to its value leaving exactly what follows it *)
Fixpoint pos_ok (D : dec_fn) (ps : list (field * value * bytes)) (rest : bytes) : Prop :=
  match ps with
  | [] => True
  | (f, v, g) :: ps' =>
      D (f_ls f) (f_enc f) (f_ty f) None (g ++ concat (map snd ps') ++ rest)
        = Ok (v, concat (map snd ps') ++ rest) /\ pos_ok D ps' rest
  end.

Lemma dec_positional_ok D : forall fs ps rest,
  untagged fs = map (fun x => fst (fst x)) ps -> pos_ok D ps rest ->
  dec_positional D fs (concat (map snd ps) ++ rest) = Ok (map (fun x => snd (fst x)) ps, rest).
Proof.
  induction fs as [|[nm tg ls e ty] fs IH]; intros ps rest Hu Hp.
  - cbn in Hu. destruct ps; [reflexivity|discriminate].
  - cbn [untagged filter f_tag] in Hu. destruct tg as [tg|].
    + cbn [dec_positional]. apply IH; assumption.
    + destruct ps as [|[[f v] g] ps]; [discriminate|]. cbn [map fst snd] in Hu. injection Hu as Hf Hu. subst f.
      cbn [pos_ok f_ls f_enc f_ty] in Hp. destruct Hp as [Hd Hp].
      cbn [dec_positional map concat snd fst]. rewrite <- app_assoc, Hd. cbn [bind].
      rewrite (IH ps rest Hu Hp). reflexivity.
Qed.

(* ---------- the whole generated decode function ---------- *)

Definition all_required_present (fs : list field) (gs : list group) : Prop :=
  forall t, In t (required_tags fs) -> In t (map g_tag gs).

Lemma filter_nil {A} (f : A -> bool) l : (forall x, In x l -> f x = false) -> filter f l = [].
Proof.
  induction l as [|x l IH]; intros H; [reflexivity|]. cbn [filter]. rewrite (H x (or_introl eq_refl)).
  apply IH. intros y Hy. apply H. right. exact Hy.
Qed.

Theorem dec_struct_groups D fs ps gs tail :
  untagged fs = map (fun x => fst (fst x)) ps ->
  pos_ok D ps (gbytes gs ++ tail) ->
  Forall (group_ok D fs) gs -> NoDup (map g_tag gs) -> tail_ok fs tail ->
  all_required_present fs gs ->
  dec_struct_with D fs (concat (map snd ps) ++ gbytes gs ++ tail) =
    Ok (VRec (apply_groups (init_slots fs (map (fun x => snd (fst x)) ps)) gs), tail).
Proof.
  intros Hu Hp Hok Hnd Ht Hreq. unfold dec_struct_with.
  rewrite (dec_positional_ok D fs ps (gbytes gs ++ tail) Hu Hp). cbn [bind].
  rewrite (tag_loop_groups D fs tail Ht gs); try assumption.
  - cbn [bind]. rewrite app_nil_r.
    rewrite filter_nil; [reflexivity|].
    intros t Hin. apply Hreq in Hin. rewrite existsb_eqb_true; [reflexivity|]. rewrite <- in_rev. exact Hin.
  - intros g _ [].
  - (* fuel: one iteration per group, and every group has at least one byte *)
    assert (L : forall l, Forall (group_ok D fs) l -> (length l <= length (gbytes l))%nat).
    { induction l as [|g l IH]; intros H; [cbn; lia|].
      pose proof (group_nonempty D fs g (Forall_inv H)) as Hne. specialize (IH (Forall_inv_tail H)).
      unfold gbytes in *. cbn [map concat length]. rewrite app_length. destruct (g_bytes g); [congruence|]. cbn [length]. lia. }
    specialize (L gs Hok). rewrite app_length. lia.
  - intros _. lia.
Qed.

(* ---------- C13: permutations ---------- *)

Lemma set_nth_comm {A} (l : list A) i j x y : i <> j -> set_nth (set_nth l i x) j y = set_nth (set_nth l j y) i x.
Proof.
  revert i j. induction l as [|a l IH]; intros i j H; [destruct i, j; reflexivity|].
  destruct i as [|i], j as [|j]; cbn [set_nth]; try reflexivity; [congruence|].
  f_equal. apply IH. congruence.
Qed.

Lemma apply_groups_perm gs gs' : Permutation gs gs' -> NoDup (map g_idx gs) ->
  forall vals, apply_groups vals gs = apply_groups vals gs'.
Proof.
  induction 1 as [|g l l' HP IH|g h l|l l' l'' HP1 IH1 HP2 IH2]; intros Hnd vals.
  - reflexivity.
  - cbn [apply_groups fold_left]. apply IH. inversion Hnd; assumption.
  - cbn [apply_groups fold_left]. f_equal. apply set_nth_comm.
    cbn [map] in Hnd. inversion Hnd as [|? ? Hn _]; subst. intros E. apply Hn. left. symmetry. exact E.
  - rewrite IH1 by assumption. apply IH2.
    eapply Permutation_NoDup; [apply Permutation_map; exact HP1|exact Hnd].
Qed.

(* tagged fields may arrive in any order and decode to the same value *)
Theorem perm_invariant D fs ps gs gs' tail :
  Permutation gs gs' ->
  untagged fs = map (fun x => fst (fst x)) ps ->
  pos_ok D ps (gbytes gs' ++ tail) ->
  Forall (group_ok D fs) gs -> NoDup (map g_tag gs) -> NoDup (map g_idx gs) -> tail_ok fs tail ->
  all_required_present fs gs ->
  dec_struct_with D fs (concat (map snd ps) ++ gbytes gs' ++ tail) =
    Ok (VRec (apply_groups (init_slots fs (map (fun x => snd (fst x)) ps)) gs), tail).
Proof.
  intros HP Hu Hp Hok Hnd Hni Ht Hreq.
  rewrite (apply_groups_perm gs gs' HP Hni).
  apply dec_struct_groups; try assumption.
  - eapply Permutation_Forall; eassumption.
  - eapply Permutation_NoDup; [apply Permutation_map; exact HP|exact Hnd].
  - intros t Hin. eapply Permutation_in; [apply Permutation_map; exact HP|]. apply Hreq. exact Hin.
Qed.

(* a tag occurring twice is rejected as a duplicate naming that tag *)
Theorem duplicate_rejected D fs ps gs d after :
  untagged fs = map (fun x => fst (fst x)) ps ->
  pos_ok D ps (gbytes gs ++ g_bytes d ++ after) ->
  Forall (group_strict D fs) gs -> NoDup (map g_tag gs) -> group_strict D fs d ->
  In (g_tag d) (map g_tag gs) ->
  dec_struct_with D fs (concat (map snd ps) ++ gbytes gs ++ g_bytes d ++ after) = Err (DuplicateTag (g_tag d)).
Proof.
  intros Hu Hp Hok Hnd Hd Hin. unfold dec_struct_with.
  rewrite (dec_positional_ok D fs ps _ Hu Hp). cbn [bind].
  rewrite (tag_loop_duplicate D fs gs); try assumption; try reflexivity.
  - intros g _ [].
  - left. exact Hin.
  - assert (L : forall l, Forall (group_strict D fs) l -> (length l <= length (gbytes l))%nat).
    { induction l as [|g l IH]; intros H; [cbn; lia|].
      pose proof (group_nonempty D fs g (strict_ok _ _ _ (Forall_inv H))) as Hne. specialize (IH (Forall_inv_tail H)).
      unfold gbytes in *. cbn [map concat length]. rewrite app_length. destruct (g_bytes g); [congruence|]. cbn [length]. lia. }
    specialize (L gs Hok). rewrite app_length. lia.
  - lia.
Qed.

(* if mandatory tagged fields are absent the error names all of them (sorted, each once) *)
Theorem missing_all_named D fs ps gs tail :
  untagged fs = map (fun x => fst (fst x)) ps ->
  pos_ok D ps (gbytes gs ++ tail) ->
  Forall (group_ok D fs) gs -> NoDup (map g_tag gs) -> tail_ok fs tail ->
  let missing := filter (fun t => negb (existsb (N.eqb t) (map g_tag gs))) (required_tags fs) in
  missing <> [] ->
  dec_struct_with D fs (concat (map snd ps) ++ gbytes gs ++ tail) =
    Err (MissingRequiredTags (sort_N (dedup missing))).
Proof.
  intros Hu Hp Hok Hnd Ht missing Hm. unfold dec_struct_with.
  rewrite (dec_positional_ok D fs ps (gbytes gs ++ tail) Hu Hp). cbn [bind].
  rewrite (tag_loop_groups D fs tail Ht gs); try assumption.
  - cbn [bind]. rewrite app_nil_r.
    assert (E : filter (fun t => negb (existsb (N.eqb t) (rev (map g_tag gs)))) (required_tags fs) = missing).
    { unfold missing. apply filter_ext. intros t. f_equal.
      destruct (existsb (N.eqb t) (map g_tag gs)) eqn:E1.
      - apply existsb_exists in E1. destruct E1 as [y [Hy Hty]]. apply existsb_exists. exists y. split; [rewrite <- in_rev; exact Hy|exact Hty].
      - destruct (existsb (N.eqb t) (rev (map g_tag gs))) eqn:E2; [|reflexivity].
        apply existsb_exists in E2. destruct E2 as [y [Hy Hty]]. rewrite <- in_rev in Hy.
        assert (existsb (N.eqb t) (map g_tag gs) = true) by (apply existsb_exists; exists y; split; assumption). congruence. }
    rewrite E. destruct missing; [congruence|reflexivity].
  - intros g _ [].
  - assert (L : forall l, Forall (group_ok D fs) l -> (length l <= length (gbytes l))%nat).
    { induction l as [|g l IH]; intros H; [cbn; lia|].
      pose proof (group_nonempty D fs g (Forall_inv H)) as Hne. specialize (IH (Forall_inv_tail H)).
      unfold gbytes in *. cbn [map concat length]. rewrite app_length. destruct (g_bytes g); [congruence|]. cbn [length]. lia. }
    specialize (L gs Hok). rewrite app_length. lia.
  - intros _. lia.
Qed.

(* a tag the packet type does not know: the loop stops there; what it returns is exactly the value of
   the groups preceding it (or, by missing_all_named, the missing-tags error of those groups) and the
   unknown tag with everything behind it is handed back untouched.  This is dec_struct_groups /
   missing_all_named with tail = u :: junk: tail_ok only asks that u is not one of the struct's tags. *)
Theorem unknown_tag_prefix fs u junk rest :
  tag_dec false (u ++ junk) = Ok (rest) -> find_tagged fs (fst rest) 0 = None -> tail_ok fs (u ++ junk).
Proof. intros H1 H2. unfold tail_ok. rewrite H1. destruct rest. exact H2. Qed.
