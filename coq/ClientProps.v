(* ClientProps.v — theorems about the model of the Feig client (C07 C08 C09 C10 C18 C19 C20).
   The consumer loops of feig.rs are `consume` = a fold of a named pure handler over the Ok items the
   retrying stream yields (consume_is_fold); the property theorems are then about the handlers, for
   EVERY list of items, i.e. whatever the terminal sends and however often the connection fails. *)
From Zvt Require Import Base Length Cp437 Encoding Codec Lookup Transport Sequence SeqLookup Client.
From Zvt.gen Require Import Layouts Tables.
From Coq Require Import ZifyBool ZifyNat ZifyN.
Open Scope N_scope.

(* ---------- consume is a fold over the Ok items ---------- *)

Theorem consume_is_fold {A B} (handle : A -> N -> value -> (option (cres B)) * A) (finish : A -> cres B) :
  forall fuel cfg r w acc, exists its, fst (consume fuel cfg r w acc handle finish) = run_handler handle finish acc its.
Proof.
  induction fuel as [|fuel IH]; intros cfg r w acc; cbn [consume].
  - exists []. reflexivity.
  - destruct (retry_next RFUEL cfg r w) as [[[it|] r'] w'].
    + destruct it as [i v|e].
      * destruct (handle acc i v) as [[res|] acc'] eqn:H.
        -- exists [(i, v)]. cbn [fst run_handler]. rewrite H. reflexivity.
        -- destruct (IH cfg r' w' acc') as [its E]. exists ((i, v) :: its). cbn [run_handler]. rewrite H. exact E.
      * apply IH.
    + exists []. reflexivity.
Qed.

(* ---------- C20: an abort always surfaces as an error identifying its code ---------- *)

Definition abort_val (c : N) : value := VRec [VInt c].
Lemma abort_code_val c rest : abort_code (VRec (VInt c :: rest)) = c. Proof. reflexivity. Qed.

(* does the error identify result code c: the numeric code, or (card reading) the specification's message for c *)
Definition identifies (e : cerr) (c : N) : Prop :=
  e = EAborted c \/ e = EUnknownCode c \/ e = EUnhandled c.

Lemma run_handler_stops {A B} (h : A -> N -> value -> option (cres B) * A) fin acc i v r res acc' :
  h acc i v = (Some res, acc') -> run_handler h fin acc ((i, v) :: r) = res.
Proof. intros H. cbn [run_handler]. rewrite H. reflexivity. Qed.

(* the exchanges with an abort arm; ix = index of the abort variant in the exchange's reply enum *)
Theorem abort_sysinfo ixc ixa c rest : ixa <> ixc ->
  fst (h_sysinfo ixc tt ixa (VRec (VInt c :: rest))) = Some (RErr (EAborted c)).
Proof. intros H. unfold h_sysinfo. cbn [fst]. destruct (ixa =? ixc) eqn:E; [lia|reflexivity]. Qed.

Theorem abort_set_terminal_id ixc ixa c rest : ixa <> ixc ->
  fst (h_completion_or_abort ixc tt ixa (VRec (VInt c :: rest))) = Some (RErr (EAborted c)).
Proof. intros H. unfold h_completion_or_abort. cbn [fst]. destruct (ixa =? ixc) eqn:E; [lia|reflexivity]. Qed.

Theorem abort_until_completion ixc ixa c rest : ixa <> ixc ->      (* initialisation, pre-auth reversal *)
  fst (h_until_completion ixc ixa tt ixa (VRec (VInt c :: rest))) = Some (RErr (EAborted c)).
Proof.
  intros H. unfold h_until_completion. cbn [fst]. destruct (ixa =? ixc) eqn:E; [lia|].
  rewrite N.eqb_refl. reflexivity.
Qed.

Theorem abort_end_of_day ixc ixa c rest : ixa <> ixc ->
  fst (h_eod ixc ixa tt ixa (VRec (VInt c :: rest))) = Some (if c =? 160 then ROk tt else RErr (EAborted c)).
Proof.
  intros H. unfold h_eod. cbn [fst]. destruct (ixa =? ixc) eqn:E; [lia|].
  rewrite N.eqb_refl, abort_code_val. reflexivity.
Qed.

Theorem abort_commit ixa ixs acc c rest :
  fst (h_commit ixa ixs acc ixa (VRec (VInt c :: rest))) = Some (RErr (EAborted c)).
Proof. unfold h_commit. rewrite N.eqb_refl. reflexivity. Qed.

Theorem abort_begin ixa ixs acc c rest :
  fst (h_begin ixa ixs acc ixa (VRec (VInt c :: rest))) =
  Some (if negb (ERRORS_KNOWN c) then RErr (EUnknownCode c) else if c =? 252 then RErr ENeedsPin else RErr (EAborted c)).
Proof. unfold h_begin. rewrite N.eqb_refl, abort_code_val. reflexivity. Qed.

Theorem abort_read_card ixa ixs acc c rest :
  fst (h_read_card ixa ixs acc ixa (VRec (VInt c :: rest))) =
  Some (if negb (ERRORS_KNOWN c) then RErr (EUnknownCode c) else if c =? 108 then RErr ENoCard else RErr (EUnhandled c)).
Proof. unfold h_read_card. rewrite N.eqb_refl, abort_code_val. reflexivity. Qed.

(* packaged: for all 256 codes and each exchange the abort is an error identifying c, with exactly the
   three documented translations *)
Theorem abort_surfaces : forall c ixa ixs ixc acc_b acc_r acc_c rest, ixa <> ixc ->
  (* reservation: device missing (0xFC) means a PIN is required *)
  (exists e, fst (h_begin ixa ixs acc_b ixa (VRec (VInt c :: rest))) = Some (RErr e) /\ (c <> 252 \/ ERRORS_KNOWN c = false -> identifies e c)
             /\ (c = 252 -> ERRORS_KNOWN c = true -> e = ENeedsPin)) /\
  (* read card: time-out (0x6C) means no card *)
  (exists e, fst (h_read_card ixa ixs acc_r ixa (VRec (VInt c :: rest))) = Some (RErr e) /\ (c <> 108 \/ ERRORS_KNOWN c = false -> identifies e c)
             /\ (c = 108 -> ERRORS_KNOWN c = true -> e = ENoCard)) /\
  (* end of day: receiver not ready (0xA0) is tolerated *)
  (c <> 160 -> fst (h_eod ixc ixa tt ixa (VRec (VInt c :: rest))) = Some (RErr (EAborted c))) /\
  (c = 160 -> fst (h_eod ixc ixa tt ixa (VRec (VInt c :: rest))) = Some (ROk tt)) /\
  (* partial reversal (commit), pre-auth reversal (cancel), initialisation, set-terminal-id, system info: no exception *)
  fst (h_commit ixa ixs acc_c ixa (VRec (VInt c :: rest))) = Some (RErr (EAborted c)) /\
  fst (h_until_completion ixc ixa tt ixa (VRec (VInt c :: rest))) = Some (RErr (EAborted c)) /\
  fst (h_completion_or_abort ixc tt ixa (VRec (VInt c :: rest))) = Some (RErr (EAborted c)) /\
  fst (h_sysinfo ixc tt ixa (VRec (VInt c :: rest))) = Some (RErr (EAborted c)).
Proof.
  intros c ixa ixs ixc acc_b acc_r acc_c rest H. unfold identifies.
  split; [|split; [|split; [|split; [|split; [|split; [|split]]]]]].
  - rewrite abort_begin. destruct (ERRORS_KNOWN c) eqn:K; cbn [negb].
    + destruct (c =? 252) eqn:E.
      * eexists. split; [reflexivity|]. split; [intros [X|X]; [lia|discriminate]|reflexivity].
      * eexists. split; [reflexivity|]. split; [intros _; left; reflexivity|intros; lia].
    + eexists. split; [reflexivity|]. split; [intros _; right; left; reflexivity|intros _ X; discriminate].
  - rewrite abort_read_card. destruct (ERRORS_KNOWN c) eqn:K; cbn [negb].
    + destruct (c =? 108) eqn:E.
      * eexists. split; [reflexivity|]. split; [intros [X|X]; [lia|discriminate]|reflexivity].
      * eexists. split; [reflexivity|]. split; [intros _; right; right; reflexivity|intros; lia].
    + eexists. split; [reflexivity|]. split; [intros _; right; left; reflexivity|intros _ X; discriminate].
  - intros Hc. rewrite abort_end_of_day by exact H. destruct (c =? 160) eqn:E; [lia|reflexivity].
  - intros ->. rewrite abort_end_of_day by exact H. reflexivity.
  - apply abort_commit.
  - apply abort_until_completion. exact H.
  - apply abort_set_terminal_id. exact H.
  - apply abort_sysinfo. exact H.
Qed.

(* the regenerated error table: 0x6C, 0xFC and 0xA0 are known codes (so the translations are reachable) *)
Lemma exceptions_are_known_codes : ERRORS_KNOWN 108 = true /\ ERRORS_KNOWN 252 = true /\ ERRORS_KNOWN 160 = true.
Proof. repeat split; vm_compute; reflexivity. Qed.

(* ---------- C18: card identity is a fixed function of the reported data ---------- *)

(* the UID in its canonical form: upper case; if longer than 14 digits the last 14, a leading 000000 of those dropped *)
Definition canon_spec (u : list N) : list N :=
  let up := map upper u in
  if Nat.leb (length up) 14 then up
  else let l14 := skipn (length up - 14) up in
       match l14 with
       | 48 :: 48 :: 48 :: 48 :: 48 :: 48 :: r => r
       | _ => l14
       end.

Theorem canon_uid_spec u : canon_uid u = canon_spec u.
Proof.
  unfold canon_uid, canon_spec. cbv zeta. rewrite map_length.
  destruct (14 <? N.of_nat (length u)) eqn:E; destruct (Nat.leb (length u) 14) eqn:F;
    try reflexivity; apply Nat.leb_le in F || apply Nat.leb_gt in F; lia.
Qed.

(* the run of read_card over any replies: the accumulator is only ever set by a status information;
   a listed application makes it Bank, never Membership *)
Theorem bank_if_listed ixa ixs acc v tlv s app :
  ixs <> ixa ->
  field_of "zvt::packets::StatusInformation" v 6 = Some (VSome tlv) ->
  In s (application_list tlv) -> field_of "zvt::packets::tlv::Subs" s 67 = Some (VSome app) ->
  h_read_card ixa ixs acc ixs v = (None, Some CBank).
Proof.
  intros H H1 Hin H3. unfold h_read_card. destruct (ixs =? ixa) eqn:E; [lia|]. rewrite N.eqb_refl, H1.
  destruct (application_list tlv) as [|s0 sr] eqn:El; [contradiction|].
  assert (X : existsb has_application (s0 :: sr) = true).
  { apply existsb_exists. exists s. split; [exact Hin|]. unfold has_application. rewrite H3. reflexivity. }
  rewrite X. reflexivity.
Qed.

(* ... whatever else the entries carry: with an application list the answer is Bank or an error,
   the accumulator never becomes a membership id *)
Theorem listed_never_membership ixa ixs acc v tlv :
  ixs <> ixa ->
  field_of "zvt::packets::StatusInformation" v 6 = Some (VSome tlv) ->
  application_list tlv <> [] ->
  h_read_card ixa ixs acc ixs v = (None, Some CBank) \/
  h_read_card ixa ixs acc ixs v = (Some (RErr EUnknownCardType), acc).
Proof.
  intros H H1 H2. unfold h_read_card. destruct (ixs =? ixa) eqn:E; [lia|]. rewrite N.eqb_refl, H1.
  destruct (application_list tlv) as [|s0 sr]; [congruence|].
  destruct (existsb has_application (s0 :: sr)); [left|right]; reflexivity.
Qed.

(* the open finding of C18 (known_findings.json), stated exactly: a list none of whose entries names an application makes the call
   fail with "unknown card type" — also when the terminal reports a UID, which the property wants reported as membership id *)
Theorem idless_list_is_unknown_card_type ixa ixs acc v tlv :
  ixs <> ixa ->
  field_of "zvt::packets::StatusInformation" v 6 = Some (VSome tlv) ->
  application_list tlv <> [] -> existsb has_application (application_list tlv) = false ->
  h_read_card ixa ixs acc ixs v = (Some (RErr EUnknownCardType), acc).
Proof.
  intros H H1 H2 H3. unfold h_read_card. destruct (ixs =? ixa) eqn:E; [lia|]. rewrite N.eqb_refl, H1.
  destruct (application_list tlv) as [|s0 sr]; [congruence|]. rewrite H3. reflexivity.
Qed.

Theorem membership_canonical ixa ixs acc v tlv u :
  ixs <> ixa ->
  field_of "zvt::packets::StatusInformation" v 6 = Some (VSome tlv) ->
  application_list tlv = [] ->
  field_of "zvt::packets::tlv::StatusInformation" tlv 76 = Some (VSome (VStr u)) ->
  h_read_card ixa ixs acc ixs v = (None, Some (CMember (canon_spec u))).
Proof.
  intros H H1 H2 H3. unfold h_read_card. destruct (ixs =? ixa) eqn:E; [lia|].
  rewrite N.eqb_refl, H1, H2, H3, canon_uid_spec. reflexivity.
Qed.

(* where the list comes from: the top-level entries (tag 0x60), then the "applications on card" container (tag 0x62) *)
Lemma application_list_spec tlv top card :
  field_of "zvt::packets::tlv::StatusInformation" tlv 96 = Some (VList top) ->
  field_of "zvt::packets::tlv::StatusInformation" tlv 98 = Some (VSome (VRec [VList card])) ->
  application_list tlv = top ++ card.
Proof. intros H1 H2. unfold application_list. rewrite H1, H2. reflexivity. Qed.

Theorem timeout_is_no_card ixa ixs acc rest :
  fst (h_read_card ixa ixs acc ixa (VRec (VInt 108 :: rest))) = Some (RErr ENoCard).
Proof. rewrite abort_read_card. destruct exceptions_are_known_codes as [K _]. rewrite K. reflexivity. Qed.

(* ---------- C08: commit releases exactly the unused part ---------- *)

Theorem commit_amount (pre final : N) : pre - final = pre - N.min pre final /\ pre - final <= pre /\
  (pre <= final -> pre - final = 0).
Proof. lia. Qed.

(* the summary reproduces the fields of the LAST status information *)
Theorem commit_keeps_last_status ixa ixs : ixs <> ixa -> forall its acc,
  (forall i v, In (i, v) its -> i <> ixa) ->
  run_handler (h_commit ixa ixs) (fun a => ROk a) acc its =
  ROk (fold_left (fun a iv => if fst iv =? ixs then Some (snd iv) else a) its acc).
Proof.
  intros H. induction its as [|[i v] its IH]; intros acc Hn; [reflexivity|].
  cbn [run_handler fold_left fst snd]. unfold h_commit at 1.
  destruct (i =? ixa) eqn:E; [exfalso; apply (Hn i v (or_introl eq_refl)); lia|].
  destruct (i =? ixs) eqn:E2; apply IH; intros j u Hin; apply (Hn j u); right; exact Hin.
Qed.

(* ---------- C07 / C19: the token map ---------- *)

Definition tokens (st : cstate) : list (list N) := map fst (s_txs st).

Lemma list_eqb_eq a : forall b, list_eqb a b = true <-> a = b.
Proof.
  induction a as [|x a IH]; intros [|y b]; cbn [list_eqb]; split; try discriminate; try reflexivity.
  - intros H. apply andb_prop in H. destruct H as [H1 H2]. apply IH in H2. f_equal; [lia|exact H2].
  - intros [= -> ->]. rewrite N.eqb_refl. cbn. apply IH. reflexivity.
Qed.

Lemma assoc_tok_none k l : assoc_tok k l = None <-> ~ In k (map fst l).
Proof.
  induction l as [|[k' v] l IH]; cbn [assoc_tok map fst In]; [tauto|].
  destruct (list_eqb k k') eqn:E.
  - apply list_eqb_eq in E. subst. split; [discriminate|intros H; exfalso; apply H; left; reflexivity].
  - rewrite IH. split; [intros H [X|X]; [subst; rewrite (proj2 (list_eqb_eq k k) eq_refl) in E; discriminate|tauto]|tauto].
Qed.

(* calls refused by the rules of the map cause NO traffic: the world is returned unchanged *)
Theorem begin_refused_at_maximum cfg st tok w : N.of_nat (length (s_txs st)) = s_max st ->
  begin_transaction cfg st tok w = (RErr EActiveMax, st, w).
Proof. intros H. unfold begin_transaction. rewrite H, N.eqb_refl. reflexivity. Qed.

Theorem begin_refused_when_open cfg st tok w : N.of_nat (length (s_txs st)) <> s_max st -> In tok (tokens st) ->
  begin_transaction cfg st tok w = (RErr EActiveInUse, st, w).
Proof.
  intros H Hin. unfold begin_transaction. destruct (_ =? _) eqn:E; [lia|].
  destruct (assoc_tok tok (s_txs st)) eqn:A; [reflexivity|]. apply assoc_tok_none in A. contradiction.
Qed.

Theorem commit_refused_when_unknown cfg st tok amount w : ~ In tok (tokens st) ->
  commit_transaction cfg st tok amount w = (RErr EUnknownToken, st, w).
Proof. intros H. apply assoc_tok_none in H. unfold commit_transaction. rewrite H. reflexivity. Qed.

Theorem cancel_refused_when_unknown cfg st tok w : ~ In tok (tokens st) ->
  cancel_transaction cfg st tok w = (RErr EUnknownToken, st, w).
Proof. intros H. apply assoc_tok_none in H. unfold cancel_transaction. rewrite H. reflexivity. Qed.

(* begin: the map changes only on success, by exactly the new token *)
Theorem begin_effect cfg st tok w : let '(r, st', w') := begin_transaction cfg st tok w in
  match r with
  | ROk _ => exists rn, s_txs st' = (tok, rn) :: s_txs st /\ ~ In tok (tokens st) /\ N.of_nat (length (s_txs st)) <> s_max st
  | RErr _ => st' = st
  end /\ s_max st' = s_max st.
Proof.
  unfold begin_transaction. destruct (_ =? _) eqn:E; [split; reflexivity|].
  destruct (assoc_tok tok (s_txs st)) eqn:A; [split; reflexivity|].
  destruct (consume _ _ _ _ _ _ _) as [r w1]. destruct r as [rn|e]; [|split; reflexivity].
  split; [|reflexivity]. exists rn. split; [reflexivity|]. split; [apply assoc_tok_none; exact A|lia].
Qed.

Definition Inv (st : cstate) : Prop := NoDup (tokens st) /\ N.of_nat (length (s_txs st)) <= s_max st.

Lemma remove_tok_subset k l : forall x, In x (map fst (remove_tok k l)) -> In x (map fst l).
Proof.
  induction l as [|[k' v] l IH]; intros x H; [exact H|]. cbn [remove_tok] in H.
  destruct (list_eqb k k'); [right; exact H|]. cbn [map fst In] in *. destruct H as [H|H]; [left; exact H|right; apply IH; exact H].
Qed.
Lemma remove_tok_nodup k l : NoDup (map fst l) -> NoDup (map fst (remove_tok k l)).
Proof.
  induction l as [|[k' v] l IH]; intros H; [exact H|]. cbn [remove_tok]. inversion H as [|? ? Hn Hd]; subst.
  destruct (list_eqb k k'); [exact Hd|]. cbn [map fst]. constructor; [|apply IH; exact Hd].
  intros X. apply Hn. eapply remove_tok_subset. exact X.
Qed.
Lemma remove_tok_len k l : (length (remove_tok k l) <= length l)%nat.
Proof. induction l as [|[k' v] l IH]; [cbn; lia|]. cbn [remove_tok]. destruct (list_eqb k k'); cbn [length]; lia. Qed.

Lemma end_of_day_state cfg st w : let '(_, st', _) := end_of_day cfg st w in s_txs st' = [] /\ s_max st' = s_max st.
Proof.
  unfold end_of_day. destruct (get_pending cfg w) as [[p|e] w1]; [|split; reflexivity].
  destruct (fold_left _ p _) as [[u|e] w2]; [|split; reflexivity].
  destruct (consume _ _ _ _ _ _ _) as [r3 w3]. split; reflexivity.
Qed.

(* the invariant of the map holds after every call, whatever the terminal does *)
Theorem inv_preserved cfg st o w : Inv st -> let '(_, st', _) := run_op cfg st o w in Inv st' /\ s_max st' = s_max st.
Proof.
  intros [Hnd Hlen]. destruct o as [| |tok|tok a|tok]; cbn [run_op].
  - (* configure *)
    unfold configure. destruct (set_terminal_id cfg w) as [[u|e] w1]; [|split; [split; assumption|reflexivity]].
    destruct (initialize cfg w1) as [[u2|e] w2]; [|split; [split; assumption|reflexivity]].
    pose proof (end_of_day_state cfg st w2) as E. destruct (end_of_day cfg st w2) as [[r st'] w3]. destruct E as [E1 E2].
    split; [|exact E2]. unfold Inv, tokens. rewrite E1. split; [constructor|cbn; lia].
  - destruct (read_card cfg w) as [r w']. split; [split; assumption|reflexivity].
  - pose proof (begin_effect cfg st tok w) as B. destruct (begin_transaction cfg st tok w) as [[r st'] w'].
    destruct B as [B Bm]. split; [|exact Bm]. destruct r as [u|e].
    + destruct B as [rn [Hs [Hni Hne]]]. unfold Inv, tokens. rewrite Hs, Bm. cbn [map fst length]. split; [constructor; assumption|lia].
    + subst. split; assumption.
  - (* commit *)
    unfold commit_transaction. destruct (assoc_tok tok (s_txs st)) as [rn|]; [|split; [split; assumption|reflexivity]].
    set (st1 := {| s_txs := remove_tok tok (s_txs st); s_max := s_max st |}).
    assert (I1 : Inv st1).
    { unfold Inv, tokens, st1. cbn [s_txs s_max]. split; [apply remove_tok_nodup; exact Hnd|pose proof (remove_tok_len tok (s_txs st)); lia]. }
    destruct (consume _ _ _ _ _ _ _) as [r w1]. destruct r as [si|e]; [|split; [exact I1|reflexivity]].
    destruct (s_txs st1) eqn:Et.
    + pose proof (end_of_day_state cfg st1 w1) as E. destruct (end_of_day cfg st1 w1) as [[r2 st2] w2]. destruct E as [E1 E2].
      assert (I2 : Inv st2) by (unfold Inv, tokens; rewrite E1; split; [constructor|cbn; lia]).
      destruct r2; [destruct si|]; (split; [exact I2|exact E2]).
    + destruct si; (split; [exact I1|reflexivity]).
  - (* cancel *)
    unfold cancel_transaction. destruct (assoc_tok tok (s_txs st)) as [rn|]; [|split; [split; assumption|reflexivity]].
    set (st1 := {| s_txs := remove_tok tok (s_txs st); s_max := s_max st |}).
    assert (I1 : Inv st1).
    { unfold Inv, tokens, st1. cbn [s_txs s_max]. split; [apply remove_tok_nodup; exact Hnd|pose proof (remove_tok_len tok (s_txs st)); lia]. }
    destruct (cancel_by_receipt cfg rn w) as [[u|e] w1]; [|split; [exact I1|reflexivity]].
    destruct (s_txs st1) eqn:Et.
    + pose proof (end_of_day_state cfg st1 w1) as E. destruct (end_of_day cfg st1 w1) as [[r2 st2] w2]. destruct E as [E1 E2].
      split; [|exact E2]. unfold Inv, tokens. rewrite E1. split; [constructor|cbn; lia].
    + split; [exact I1|reflexivity].
Qed.

(* C19: while other transactions are still open, commit and cancel request nothing beyond their own
   exchange: the world after the call is the world after the reversal exchange (no pending query, no
   end-of-day) *)
Theorem cancel_busy_no_end_of_day cfg st tok rn w w1 x rest :
  assoc_tok tok (s_txs st) = Some rn -> remove_tok tok (s_txs st) = x :: rest ->
  cancel_by_receipt cfg rn w = (ROk tt, w1) ->
  cancel_transaction cfg st tok w = (ROk tt, {| s_txs := x :: rest; s_max := s_max st |}, w1).
Proof.
  intros A R C. unfold cancel_transaction. rewrite A, C. cbn [s_txs]. rewrite R. reflexivity.
Qed.

(* ... and when the map becomes empty the clean-up chain runs at once: its result is the call's result *)
Theorem cancel_idle_runs_cleanup cfg st tok rn w w1 :
  assoc_tok tok (s_txs st) = Some rn -> remove_tok tok (s_txs st) = [] ->
  cancel_by_receipt cfg rn w = (ROk tt, w1) ->
  cancel_transaction cfg st tok w = end_of_day cfg {| s_txs := []; s_max := s_max st |} w1.
Proof.
  intros A R C. unfold cancel_transaction. rewrite A, C. cbn [s_txs]. rewrite R. reflexivity.
Qed.

(* 'receiver not ready' is tolerated, any other refusal of end-of-day is reported *)
Theorem eod_not_ready_tolerated ixc ixa rest : ixa <> ixc ->
  fst (h_eod ixc ixa tt ixa (VRec (VInt 160 :: rest))) = Some (ROk tt).
Proof. intros H. rewrite abort_end_of_day by exact H. reflexivity. Qed.

(* ---------- C10: every await is under a deadline; the timeout never overflows or collapses to zero ---------- *)

Theorem read_card_timeout_ok t : t < 256 -> (t + 2) * 1000 = t * 1000 + 2000 /\ 0 < (t + 2) * 1000 /\ t + 2 < 2 ^ 64.
Proof. intros H. split; [lia|]. split; [lia|]. assert (2 ^ 64 = 18446744073709551616) by reflexivity. lia. Qed.


(* ---------- C09 / C10: the retrying stream ---------- *)

(* an Err item is followed, on the very next poll, by dropping the connection before anything else *)
Theorem after_err_drops_connection f cfg r w : r_ph r = RAfterErr ->
  retry_next (S f) cfg r w = retry_next f cfg (rs_set r (r_left r) (r_first r) (r_last r) RIdle) (drop_cur w).
Proof. intros H. cbn [retry_next]. rewrite H. reflexivity. Qed.

Lemma drop_cur_clears w : w_cur (drop_cur w) = None.
Proof. unfold drop_cur. destruct (w_cur w) eqn:E; [reflexivity|exact E]. Qed.

(* the fuel of the poll function is only a termination device: 3 * attempts + 2 always suffices,
   and RFUEL = 64 > 3 * 20 + 1 — no poll of the model can "hang" *)
Definition rmeasure (r : rstate) : nat :=
  (3 * r_left r + match r_ph r with RIdle => 0 | RInner _ => 1 | RAfterErr => 1 | REnd => 0 end)%nat.

Theorem retry_fuel_irrelevant cfg : forall f1 f2 r w, (rmeasure r < f1)%nat -> (rmeasure r < f2)%nat ->
  retry_next f1 cfg r w = retry_next f2 cfg r w.
Proof.
  induction f1 as [|f1 IH]; intros f2 r w H1 H2; [lia|]. destruct f2 as [|f2]; [lia|].
  cbn [retry_next]. unfold rmeasure in *. destruct (r_ph r) eqn:P.
  - destruct (r_left r) as [|lft] eqn:L; [reflexivity|].
    destruct (w_cur (at_time w _)) eqn:C.
    + apply IH; cbn [rs_set r_left r_ph]; lia.
    + destruct (connect cfg _ _) as [id w'|what w']; [|reflexivity]. apply IH; cbn [rs_set r_left r_ph]; lia.
  - destruct (w_cur w); [|reflexivity].
    destruct (seq_next _ _ _ _ _) as [[i v|e] ph' w'|w'|w']; try reflexivity.
    apply IH; cbn [rs_set r_left r_ph]; lia.
  - apply IH; cbn [rs_set r_left r_ph]; lia.
  - reflexivity.
Qed.

Theorem retry_budget_fits : forall q t, (rmeasure (start_retry q t) < RFUEL)%nat.
Proof. intros. unfold rmeasure, start_retry, RFUEL, RETRIES. cbn. lia. Qed.

(* time never runs backwards in a read, and a completed read happened no later than its deadline *)
Lemma rx_t_time fuel : forall c n t, match rx_t fuel c n t with RxOk _ t' _ => t <= t' | RxEof t' => t <= t' | RxNever => True end.
Proof.
  induction fuel as [|fuel IH]; intros c n t; cbn [rx_t].
  - destruct (n <=? blen (k_buf c)); [lia|exact I].
  - destruct (n <=? blen (k_buf c)); [lia|].
    destruct (k_queue c) as [|[[a|] b] q]; [destruct (k_close c); [lia|exact I]| |exact I].
    specialize (IH {| k_queue := q; k_close := k_close c; k_buf := k_buf c ++ b |} n (N.max t a)).
    destruct (rx_t fuel _ n (N.max t a)); try lia; exact I.
Qed.

Lemma read_packet_t_time c t : match read_packet_t c t with RpFrame _ t' _ => t <= t' | RpEof t' => t <= t' | RpNever => True end.
Proof.
  unfold read_packet_t. set (fuel := S (length (k_queue c))).
  pose proof (rx_t_time fuel c 3 t) as H1. destruct (rx_t fuel c 3 t) as [got t1 c1|t1|]; try exact I; [|exact H1].
  destruct got as [|b0 [|b1 [|b2 [|x got]]]]; try exact I.
  destruct (b2 =? 255).
  - pose proof (rx_t_time fuel c1 2 t1) as H2. destruct (rx_t fuel c1 2 t1) as [g2 t2 c2|t2|]; try exact I; [|lia].
    destruct g2 as [|lo [|hi [|y g2]]]; try exact I.
    pose proof (rx_t_time fuel c2 (hi * 256 + lo) t2) as H3. destruct (rx_t fuel c2 (hi * 256 + lo) t2); try exact I; lia.
  - pose proof (rx_t_time fuel c1 b2 t1) as H2. destruct (rx_t fuel c1 b2 t1); try exact I; lia.
Qed.

(* one poll of a sequence under a deadline: it ends no later than the deadline, never before it started,
   and a timeout ends exactly at the deadline *)
Theorem seq_next_deadline q id ph d w : w_now w <= d ->
  match seq_next q id ph d w with
  | NItem _ _ w' => w_now w <= w_now w' <= d
  | NEnd w' => w_now w' = w_now w
  | NTimeout w' => w_now w' = d
  end.
Proof.
  intros Hd.
  assert (RP : forall w0 vs, w_now w0 <= d ->
            match read_parse w0 id vs d with
            | inl (Some (_, w')) => w_now w0 <= w_now w' <= d
            | inl None => True
            | inr w' => w_now w' = d
            end).
  { intros w0 vs H0. unfold read_parse. pose proof (read_packet_t_time (get_conn w0 id) (w_now w0)) as T.
    destruct (read_packet_t (get_conn w0 id) (w_now w0)) as [f t c|t|].
    - destruct (t <=? d) eqn:E; cbn [at_time put_conn w_now]; [lia|reflexivity].
    - destruct (t <=? d); [exact I|reflexivity].
    - reflexivity. }
  assert (REPLY : forall w0, w_now w <= w_now w0 <= d ->
            match (match read_parse w0 id (q_replies q) d with
                   | inr w' => NTimeout w'
                   | inl None => NItem (IErr 0) PDone w0
                   | inl (Some (Ok (i, v), w1)) => NItem (IOk i v) (if is_final (q_mode q) i then PDone else PLoop) (write_t w1 id ACK)
                   | inl (Some (_, w1)) => NItem (IErr 1) PDone w1
                   end) with
            | NItem _ _ w' => w_now w <= w_now w' <= d
            | NEnd w' => w_now w' = w_now w
            | NTimeout w' => w_now w' = d
            end).
  { intros w0 H0. pose proof (RP w0 (q_replies q) ltac:(lia)) as R.
    destruct (read_parse w0 id (q_replies q) d) as [[[[[i v]|e| |] w1]|]|w']; cbn [write_t logw w_now]; try lia; exact R. }
  unfold seq_next. destruct ph.
  - pose proof (RP (write_t w id (q_cmd q)) ack_enum Hd) as R. cbn [write_t logw w_now] in R.
    destruct (read_parse (write_t w id (q_cmd q)) id ack_enum d) as [[[[[i v]|e| |] w1]|]|w']; cbn [write_t logw w_now]; try lia; try exact R.
    apply REPLY. lia.
  - apply REPLY. lia.
  - reflexivity.
Qed.

(* ---------- C07: begin records the receipt number of the LAST status information that carried one ---------- *)

Definition receipt_of (v : value) : option N :=
  match field_of "zvt::packets::StatusInformation" v 135 with Some (VSome (VInt rn)) => Some rn | _ => None end.

Theorem begin_records_last_receipt ixa ixs : ixs <> ixa -> forall its acc,
  (forall i v, In (i, v) its -> i <> ixa) ->
  run_handler (h_begin ixa ixs) f_begin acc its =
  f_begin (fold_left (fun a iv => if fst iv =? ixs then match receipt_of (snd iv) with Some rn => Some rn | None => a end else a) its acc).
Proof.
  intros H. induction its as [|[i v] its IH]; intros acc Hn; [reflexivity|].
  cbn [run_handler fold_left fst snd]. unfold h_begin at 1.
  destruct (i =? ixa) eqn:E; [exfalso; apply (Hn i v (or_introl eq_refl)); lia|].
  assert (Hn' : forall j u, In (j, u) its -> j <> ixa) by (intros j u Hin; apply (Hn j u); right; exact Hin).
  destruct (i =? ixs) eqn:E2; [|apply IH; exact Hn'].
  unfold receipt_of. destruct (field_of "zvt::packets::StatusInformation" v 135) as [[| | | | |[rn| | | | | | |]| |]|]; apply IH; exact Hn'.
Qed.

(* ... and a reservation that never reported a receipt number is refused as incomplete, the map untouched (begin_effect) *)
Theorem begin_without_receipt_is_incomplete ixa ixs : ixs <> ixa -> forall its,
  (forall i v, In (i, v) its -> i <> ixa) -> (forall i v, In (i, v) its -> i = ixs -> receipt_of v = None) ->
  run_handler (h_begin ixa ixs) f_begin None its = RErr EIncomplete.
Proof.
  intros H its Hn Hr. rewrite (begin_records_last_receipt ixa ixs H its None Hn).
  assert (F : fold_left (fun a iv => if fst iv =? ixs then match receipt_of (snd iv) with Some rn => Some rn | None => a end else a) its None = None).
  { induction its as [|[i v] its IH]; [reflexivity|]. cbn [fold_left fst snd].
    destruct (i =? ixs) eqn:E.
    - rewrite (Hr i v (or_introl eq_refl)) by lia. apply IH; intros j u Hin; [apply (Hn j u)|apply (Hr j u)]; right; exact Hin.
    - apply IH; intros j u Hin; [apply (Hn j u)|apply (Hr j u)]; right; exact Hin. }
  rewrite F. reflexivity.
Qed.

(* ---------- C20: the abort may come at ANY position of the reply script ---------- *)

Theorem abort_at_any_position {A B} (h : A -> N -> value -> option (cres B) * A) fin : forall pre acc i v rest res,
  (forall acc0 j u, In (j, u) pre -> fst (h acc0 j u) = None) ->      (* the replies before it are passed over *)
  (forall acc0, fst (h acc0 i v) = Some res) ->                       (* what the handler answers to the abort, whatever it has seen *)
  run_handler h fin acc (pre ++ (i, v) :: rest) = res.
Proof.
  induction pre as [|[j u] pre IH]; intros acc i v rest res Hp Ha.
  - cbn [app run_handler]. specialize (Ha acc). destruct (h acc i v) as [[r|] acc']; cbn [fst] in Ha; [congruence|discriminate].
  - cbn [app run_handler]. pose proof (Hp acc j u (or_introl eq_refl)) as Hj.
    destruct (h acc j u) as [[r|] acc']; cbn [fst] in Hj; [discriminate|].
    apply IH; [intros acc0 j' u' Hin; apply Hp; right; exact Hin|exact Ha].
Qed.

(* packaged for the exchanges of the client: after any number of replies the handler passes over, an abort with code c
   makes the call fail with an error identifying c — never a success — with exactly the three documented translations *)
Theorem abort_surfaces_anywhere c ixa ixs ixc rest its tail : ixa <> ixc ->
  (forall acc0 j u, In (j, u) its -> fst (h_commit ixa ixs acc0 j u) = None) ->
  run_handler (h_commit ixa ixs) (fun a => ROk a) None (its ++ (ixa, VRec (VInt c :: rest)) :: tail) = RErr (EAborted c).
Proof.
  intros H Hp. apply abort_at_any_position; [exact Hp|]. intros acc0. apply abort_commit.
Qed.

Theorem abort_begin_anywhere c ixa ixs rest its tail :
  (forall acc0 j u, In (j, u) its -> fst (h_begin ixa ixs acc0 j u) = None) ->
  exists e, run_handler (h_begin ixa ixs) f_begin None (its ++ (ixa, VRec (VInt c :: rest)) :: tail) = RErr e /\
            (c <> 252 \/ ERRORS_KNOWN c = false -> identifies e c) /\ (c = 252 -> ERRORS_KNOWN c = true -> e = ENeedsPin).
Proof.
  intros Hp.
  set (e := if negb (ERRORS_KNOWN c) then EUnknownCode c else if c =? 252 then ENeedsPin else EAborted c).
  exists e. split.
  - apply abort_at_any_position; [exact Hp|]. intros acc0. rewrite abort_begin. unfold e.
    destruct (negb (ERRORS_KNOWN c)); [reflexivity|]. destruct (c =? 252); reflexivity.
  - unfold e, identifies. destruct (ERRORS_KNOWN c) eqn:K; cbn [negb].
    + destruct (c =? 252) eqn:E; split; try (intros [X|X]; [lia|discriminate]); try (intros; reflexivity); try (intros _; left; reflexivity); intros; lia.
    + split; [intros _; right; left; reflexivity|intros _ X; discriminate].
Qed.

Theorem abort_read_card_anywhere c ixa ixs rest its tail :
  (forall acc0 j u, In (j, u) its -> fst (h_read_card ixa ixs acc0 j u) = None) ->
  exists e, run_handler (h_read_card ixa ixs) f_read_card None (its ++ (ixa, VRec (VInt c :: rest)) :: tail) = RErr e /\
            (c <> 108 \/ ERRORS_KNOWN c = false -> identifies e c) /\ (c = 108 -> ERRORS_KNOWN c = true -> e = ENoCard).
Proof.
  intros Hp.
  set (e := if negb (ERRORS_KNOWN c) then EUnknownCode c else if c =? 108 then ENoCard else EUnhandled c).
  exists e. split.
  - apply abort_at_any_position; [exact Hp|]. intros acc0. rewrite abort_read_card. unfold e.
    destruct (negb (ERRORS_KNOWN c)); [reflexivity|]. destruct (c =? 108); reflexivity.
  - unfold e, identifies. destruct (ERRORS_KNOWN c) eqn:K; cbn [negb].
    + destruct (c =? 108) eqn:E; split; try (intros [X|X]; [lia|discriminate]); try (intros; reflexivity); try (intros _; right; right; reflexivity); intros; lia.
    + split; [intros _; right; left; reflexivity|intros _ X; discriminate].
Qed.

Theorem abort_eod_anywhere c ixc ixa rest its tail : ixa <> ixc ->
  (forall acc0 j u, In (j, u) its -> fst (h_eod ixc ixa acc0 j u) = None) ->
  run_handler (h_eod ixc ixa) (fun _ => RErr EIncomplete) tt (its ++ (ixa, VRec (VInt c :: rest)) :: tail) =
  if c =? 160 then ROk tt else RErr (EAborted c).
Proof.
  intros H Hp. apply abort_at_any_position; [exact Hp|]. intros acc0. destruct acc0. rewrite abort_end_of_day by exact H.
  destruct (c =? 160); reflexivity.
Qed.

Theorem abort_until_completion_anywhere c ixc ixa rest its tail : ixa <> ixc ->
  (forall acc0 j u, In (j, u) its -> fst (h_until_completion ixc ixa acc0 j u) = None) ->
  run_handler (h_until_completion ixc ixa) (fun _ => RErr EIncomplete) tt (its ++ (ixa, VRec (VInt c :: rest)) :: tail) = RErr (EAborted c).
Proof.
  intros H Hp. apply abort_at_any_position; [exact Hp|]. intros acc0. destruct acc0. apply abort_until_completion. exact H.
Qed.

(* ---------- C19: commit — busy / idle; the order of the clean-up chain ---------- *)

(* conversion hint for Qed: never unfold the 400-step consumer loop or its fuel when comparing terms *)
Local Strategy 1000 [consume LOOPFUEL retry_next].

(* the partial-reversal exchange commit_transaction runs for receipt rn (exactly the term of Client.commit_transaction) *)
Definition commit_exchange (cfg : config) (tok : list N) (rn amount : N) (w : world) : cres (option value) * world :=
  let reversal := c_amount cfg - amount in
  let cmd := mk_cmd "zvt::packets::PartialReversal" []
               [(135, VSome (VInt rn)); (73, VSome (VInt (c_currency cfg))); (4, VSome (VInt reversal)); (25, VSome (VInt 64)); (6, bmp60 tok)] in
  let q := seq_of "zvt::sequences::PartialReversal" cmd in
  let ixa := variant_ix "zvt::sequences::PartialReversalResponse" "PartialReversalAbort" in
  let ixs := variant_ix "zvt::sequences::PartialReversalResponse" "StatusInformation" in
  consume LOOPFUEL cfg (start_retry q TIMEOUT) w None (h_commit ixa ixs) (fun acc => ROk acc).

Definition summary_of (si : option value) : cres summary :=
  match si with
  | None => RErr EIncomplete
  | Some v =>
      let g tg := match field_of "zvt::packets::StatusInformation" v tg with Some (VSome (VInt n)) => Some n | _ => None end in
      ROk {| m_tid := option_map (pad_dec 8) (g 41); m_amount := g 4; m_trace := g 11;
             m_date := option_map (pad_dec 4) (g 13); m_time := option_map (pad_dec 6) (g 12) |}
  end.

(* while another transaction is still open, a completed commit causes no further traffic at all *)
Theorem commit_busy_no_end_of_day cfg st tok amount rn w si w1 x rest :
  assoc_tok tok (s_txs st) = Some rn -> remove_tok tok (s_txs st) = x :: rest ->
  commit_exchange cfg tok rn amount w = (ROk si, w1) ->
  commit_transaction cfg st tok amount w = (summary_of si, {| s_txs := x :: rest; s_max := s_max st |}, w1).
Proof.
  intros A R E. unfold commit_transaction. rewrite A. unfold commit_exchange in E. cbv zeta in E. rewrite E.
  cbn [s_txs]. rewrite R. destruct si; reflexivity.
Qed.

(* when it leaves nothing open, the clean-up chain runs at once — also when the terminal completed the commit without any
   status information (the call is then incomplete for the caller, but the terminal is idle): state and world are those of
   end_of_day, a failure of the chain is the call's failure, otherwise the summary *)
Theorem commit_idle_runs_cleanup cfg st tok amount rn w si w1 :
  assoc_tok tok (s_txs st) = Some rn -> remove_tok tok (s_txs st) = [] ->
  commit_exchange cfg tok rn amount w = (ROk si, w1) ->
  commit_transaction cfg st tok amount w =
  (let '(r2, st2, w2) := end_of_day cfg {| s_txs := []; s_max := s_max st |} w1 in
   (match r2 with RErr e => RErr e | ROk _ => summary_of si end, st2, w2)).
Proof.
  intros A R E. unfold commit_transaction. rewrite A. unfold commit_exchange in E. cbv zeta in E. rewrite E.
  cbn [s_txs]. rewrite R. destruct (end_of_day cfg _ w1) as [[r2 st2] w2]. destruct r2; [destruct si; reflexivity|reflexivity].
Qed.

(* the chain itself, in order: (1) the query for a dangling pre-authorisation; if it fails nothing else is requested *)
Theorem cleanup_stops_when_query_fails cfg st w e w1 : get_pending cfg w = (RErr e, w1) ->
  end_of_day cfg st w = (RErr e, {| s_txs := []; s_max := s_max st |}, w1).
Proof. intros E. unfold end_of_day. rewrite E. reflexivity. Qed.

(* (2) the reversal of the reported one; if the terminal refuses it, that is the outcome and end-of-day is NOT requested *)
Theorem cleanup_stops_when_reversal_fails cfg st w p w1 e w2 : get_pending cfg w = (ROk [p], w1) ->
  cancel_by_receipt cfg p w1 = (RErr e, w2) ->
  end_of_day cfg st w = (RErr e, {| s_txs := []; s_max := s_max st |}, w2).
Proof. intros E1 E2. unfold end_of_day. rewrite E1. cbn [fold_left]. rewrite E2. reflexivity. Qed.

(* (3) then, and only then, end-of-day — on the world the first two steps left *)
Definition eod_exchange (cfg : config) (w : world) : cres unit * world :=
  consume LOOPFUEL cfg (start_retry (seq_of "zvt::sequences::EndOfDay" (mk_cmd "zvt::packets::EndOfDay" [VInt (c_password cfg)] [])) TIMEOUT) w tt
    (h_eod (variant_ix "zvt::sequences::EndOfDayResponse" "CompletionData") (variant_ix "zvt::sequences::EndOfDayResponse" "Abort"))
    (fun _ => RErr EIncomplete).

Theorem cleanup_then_end_of_day cfg st w w1 : get_pending cfg w = (ROk [], w1) ->
  end_of_day cfg st w = (fst (eod_exchange cfg w1), {| s_txs := []; s_max := s_max st |}, snd (eod_exchange cfg w1)).
Proof. intros E. unfold end_of_day, eod_exchange. rewrite E. cbn [fold_left]. destruct (consume _ _ _ w1 _ _ _). reflexivity. Qed.

Theorem cleanup_reversal_then_end_of_day cfg st w p w1 u w2 : get_pending cfg w = (ROk [p], w1) ->
  cancel_by_receipt cfg p w1 = (ROk u, w2) ->
  end_of_day cfg st w = (fst (eod_exchange cfg w2), {| s_txs := []; s_max := s_max st |}, snd (eod_exchange cfg w2)).
Proof. intros E1 E2. unfold end_of_day, eod_exchange. rewrite E1. cbn [fold_left]. rewrite E2. destruct (consume _ _ _ w2 _ _ _). reflexivity. Qed.

(* ---------- C07: commit and cancel close exactly their token, whatever the terminal answers ---------- *)

Theorem cancel_closes_token cfg st tok rn w : assoc_tok tok (s_txs st) = Some rn ->
  let '(_, st', _) := cancel_transaction cfg st tok w in
  s_txs st' = remove_tok tok (s_txs st) /\ s_max st' = s_max st.
Proof.
  intros A. unfold cancel_transaction. rewrite A.
  destruct (cancel_by_receipt cfg rn w) as [[u|e] w1]; [|split; reflexivity].
  cbn [s_txs]. destruct (remove_tok tok (s_txs st)) eqn:R; [|split; reflexivity].
  pose proof (end_of_day_state cfg {| s_txs := []; s_max := s_max st |} w1) as E.
  destruct (end_of_day cfg _ w1) as [[r2 st2] w2]. destruct E as [E1 E2]. split; [exact E1|exact E2].
Qed.

Theorem commit_closes_token cfg st tok amount rn w : assoc_tok tok (s_txs st) = Some rn ->
  let '(_, st', _) := commit_transaction cfg st tok amount w in
  s_txs st' = remove_tok tok (s_txs st) /\ s_max st' = s_max st.
Proof.
  intros A. unfold commit_transaction. rewrite A.
  match goal with |- context [consume ?f cfg ?r w ?a ?h ?fin] => destruct (consume f cfg r w a h fin) as [[si|e] w1] end; [|split; reflexivity].
  cbn [s_txs]. destruct (remove_tok tok (s_txs st)) eqn:R.
  - pose proof (end_of_day_state cfg {| s_txs := []; s_max := s_max st |} w1) as E.
    destruct (end_of_day cfg _ w1) as [[r2 st2] w2]. destruct E as [E1 E2].
    destruct r2; [destruct si|]; (split; [exact E1|exact E2]).
  - destruct si; split; reflexivity.
Qed.

(* the token that was closed is the only one that changed: every other open token keeps its receipt number *)
Lemma assoc_remove_other k k' l : list_eqb k' k = false -> assoc_tok k' (remove_tok k l) = assoc_tok k' l.
Proof.
  intros H. induction l as [|[a v] l IH]; [reflexivity|]. cbn [remove_tok assoc_tok].
  destruct (list_eqb k a) eqn:E.
  - apply list_eqb_eq in E. subst a. rewrite H. reflexivity.
  - cbn [assoc_tok]. destruct (list_eqb k' a); [reflexivity|exact IH].
Qed.

(* ---------- C19: which dangling pre-authorisation the query reports ---------- *)

(* every receipt number the terminal reports — 0 .. 9999 or anything else — is handed on for reversal; only the FFFF marker means
   "nothing pending" *)
Theorem pending_reports_receipt ixa sk v r : abort_code v = 184 ->
  field_of "zvt::packets::PartialReversalAbort" v 135 = Some (VSome (VInt r)) ->
  fst (h_pending ixa sk tt ixa v) = Some (if r =? 65535 then ROk [] else ROk [r]).
Proof. intros Hc H. unfold h_pending. rewrite N.eqb_refl, Hc, H. cbn [fst negb N.eqb]. destruct (r =? 65535); reflexivity. Qed.

(* C20, since the fix of F11: the query itself can be aborted — any result code other than 0xB8 (the code its answer carries) makes the
   query, and with it the chain and the call, fail with that code *)
Theorem pending_abort_surfaces ixa sk v : abort_code v <> 184 ->
  fst (h_pending ixa sk tt ixa v) = Some (RErr (EAborted (abort_code v))).
Proof. intros Hc. unfold h_pending. rewrite N.eqb_refl. destruct (abort_code v =? 184) eqn:E; [lia|reflexivity]. Qed.

Theorem pending_query_abort_surfaces c ixa sk rest : c <> 184 ->
  fst (h_pending ixa sk tt ixa (VRec (VInt c :: rest))) = Some (RErr (EAborted c)).
Proof. intros H. apply (pending_abort_surfaces ixa sk (VRec (VInt c :: rest))). exact H. Qed.

(* since the fix of F17: progress reports in front of the answer are passed over (so an abort behind them surfaces, by
   abort_at_any_position); any OTHER packet of the reply set is unexpected *)
Theorem pending_progress_is_skipped ixa sk i v : i <> ixa -> In i sk -> h_pending ixa sk tt i v = (None, tt).
Proof.
  intros H Hin. unfold h_pending. destruct (i =? ixa) eqn:E; [lia|].
  assert (X : existsb (N.eqb i) sk = true) by (apply existsb_exists; exists i; split; [exact Hin|apply N.eqb_refl]).
  rewrite X. reflexivity.
Qed.
Theorem pending_other_packet_is_unexpected ixa sk i v : i <> ixa -> ~ In i sk -> fst (h_pending ixa sk tt i v) = Some (RErr EUnexpectedPacket).
Proof.
  intros H Hn. unfold h_pending. destruct (i =? ixa) eqn:E; [lia|].
  destruct (existsb (N.eqb i) sk) eqn:X; [|reflexivity].
  apply existsb_exists in X. destruct X as [j [Hj Ej]]. apply N.eqb_eq in Ej. subst j. contradiction.
Qed.

(* ================================================================== the text fields of the summary (format!("{:0w$}", n)) *)
Definition is_digit (c : N) : Prop := 48 <= c <= 57.
Definition dval (l : list N) : N := fold_left (fun a c => a * 10 + (c - 48)) l 0.

Lemma dval_app a b : dval (a ++ b) = fold_left (fun x c => x * 10 + (c - 48)) b (dval a).
Proof. unfold dval. apply fold_left_app. Qed.

Lemma dec_digits_spec : forall f n, n < 10 ^ N.of_nat f -> (0 < f)%nat ->
  Forall is_digit (dec_digits f n) /\ dval (dec_digits f n) = n /\ dec_digits f n <> [].
Proof.
  induction f as [|f IH]; intros n Hn Hf; [lia|]. cbn [dec_digits]. destruct (n <? 10) eqn:E.
  - split; [constructor; [unfold is_digit; lia|constructor]|]. split; [unfold dval; cbn [fold_left]; lia|discriminate].
  - assert (Hf' : (0 < f)%nat).
    { destruct f; [|lia]. cbn in Hn. lia. }
    assert (Hq : n / 10 < 10 ^ N.of_nat f).
    { rewrite Nat2N.inj_succ, N.pow_succ_r' in Hn. apply N.div_lt_upper_bound; lia. }
    destruct (IH (n / 10) Hq Hf') as [D [V NE]]. split; [|split].
    + apply Forall_app. split; [exact D|constructor; [unfold is_digit; lia|constructor]].
    + rewrite dval_app, V. cbn [fold_left]. lia.
    + intros H. apply app_eq_nil in H. destruct H as [_ H]. discriminate.
Qed.

Lemma dval_zeros k l : dval (repeat 48 k ++ l) = dval l.
Proof.
  rewrite dval_app. assert (Z : dval (repeat 48 k) = 0).
  { assert (G : forall k a, fold_left (fun x c => x * 10 + (c - 48)) (repeat 48 k) a = a * 10 ^ N.of_nat k).
    { clear. induction k as [|k IH]; intros a; [cbn; lia|]. cbn [repeat fold_left]. rewrite IH, Nat2N.inj_succ, N.pow_succ_r'. lia. }
    unfold dval. rewrite G. lia. }
  rewrite Z. reflexivity.
Qed.

Lemma digits_value_dval l : l <> [] -> Forall is_digit l -> digits_value l = Some (dval l).
Proof.
  intros Hne Hd. unfold digits_value, dval. destruct l as [|c0 l0] eqn:El; [congruence|]. rewrite <- El in *. clear Hne.
  assert (G : forall l a, Forall is_digit l ->
            fold_left (fun acc c => match acc with
                                    | Some a => if (48 <=? c) && (c <=? 57) then Some (a * 10 + (c - 48)) else None
                                    | None => None end) l (Some a) = Some (fold_left (fun a c => a * 10 + (c - 48)) l a)).
  { clear. induction l as [|c l IH]; intros a Hd; [reflexivity|]. inversion Hd as [|? ? Hc Hl]; subst. cbn [fold_left].
    unfold is_digit in Hc. destruct ((48 <=? c) && (c <=? 57)) eqn:E; [|lia]. apply IH. exact Hl. }
  apply G. exact Hd.
Qed.

(* the text of a summary field: at least w characters, all digits, spelling exactly the number *)
Theorem pad_dec_spec w n : n < 10 ^ 40 ->
  (w <= length (pad_dec w n))%nat /\ Forall is_digit (pad_dec w n) /\ digits_value (pad_dec w n) = Some n.
Proof.
  intros Hn. destruct (dec_digits_spec 40 n) as [D [V NE]]; [exact Hn|lia|]. unfold pad_dec.
  assert (F : Forall is_digit (repeat 48 (w - length (dec_digits 40 n)) ++ dec_digits 40 n)).
  { apply Forall_app. split; [|exact D]. apply Forall_forall. intros x Hx. apply repeat_spec in Hx. subst x. unfold is_digit. lia. }
  split; [rewrite app_length, repeat_length; lia|]. split; [exact F|].
  rewrite digits_value_dval; [rewrite dval_zeros, V; reflexivity| |exact F].
  intros H. apply app_eq_nil in H. destruct H as [_ H]. exact (NE H).
Qed.

(* C20 for the ninth exchange, at any position of the reply script (since the fix of F17): behind any number of progress reports
   an abort of the query with a result code other than 0xB8 is what the query — and so the chain and the call — reports *)
Theorem pending_abort_anywhere ixa sk pre c rest tail : c <> 184 ->
  (forall j u, In (j, u) pre -> j <> ixa /\ In j sk) ->
  run_handler (h_pending ixa sk) (fun _ => RErr EIncomplete) tt (pre ++ (ixa, VRec (VInt c :: rest)) :: tail) = RErr (EAborted c).
Proof.
  intros Hc Hp. apply abort_at_any_position.
  - intros acc0 j u Hin. destruct (Hp j u Hin) as [H1 H2]. destruct acc0. rewrite (pending_progress_is_skipped ixa sk j u H1 H2). reflexivity.
  - intros acc0. destruct acc0. apply pending_query_abort_surfaces. exact Hc.
Qed.

(* every receipt number the terminal issues is recorded as it is — 0000 is a number like any other, not "no number" *)
Lemma begin_records_any_receipt ixa ixs rn v : ixs <> ixa -> receipt_of v = Some rn ->
  run_handler (h_begin ixa ixs) f_begin None [(ixs, v)] = ROk rn.
Proof.
  intros Hne Hr. rewrite (begin_records_last_receipt ixa ixs Hne [(ixs, v)] None).
  - cbn [fold_left fst snd]. rewrite N.eqb_refl, Hr. reflexivity.
  - intros i v0 [E|[]]. injection E as <- _. exact Hne.
Qed.
