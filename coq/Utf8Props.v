(* Utf8Props.v — the UTF-8 encoder / decoder pair of the model (Encoding.v: what String::into_bytes and
   String::from_utf8 do) are inverse on every Rust string: every list of Unicode scalar values. *)
From Zvt Require Import Base Length Cp437 Encoding.
From Coq Require Import ZifyBool ZifyNat ZifyN.
Ltac Zify.zify_post_hook ::= Z.div_mod_to_equations.
Open Scope N_scope.

Lemma utf8_dec1 c r : scalar_ok c = true ->
  utf8_dec (utf8_enc1 c ++ r) = option_map (cons c) (utf8_dec r).
Proof.
  intros Hs. unfold scalar_ok in Hs. unfold utf8_enc1.
  destruct (c <? 128) eqn:E1.
  { cbn [app utf8_dec]. rewrite E1. reflexivity. }
  destruct (c <? 2048) eqn:E2.
  { cbn [app utf8_dec].
    assert (A0 : (192 + c / 64 <? 128) = false) by lia. rewrite A0.
    assert (A1 : in_range 194 223 (192 + c / 64) = true) by (unfold in_range; lia). rewrite A1.
    assert (A2 : cont (128 + c mod 64) = true) by (unfold cont; lia). rewrite A2.
    f_equal. f_equal. lia. }
  destruct (c <? 65536) eqn:E3.
  { cbn [app utf8_dec].
    assert (A0 : (224 + c / 4096 <? 128) = false) by lia. rewrite A0.
    assert (A1 : in_range 194 223 (224 + c / 4096) = false) by (unfold in_range; lia). rewrite A1.
    assert (A2 : in_range 224 239 (224 + c / 4096) = true) by (unfold in_range; lia). rewrite A2.
    assert (A3 : (if 224 + c / 4096 =? 224 then in_range 160 191 (128 + (c / 64) mod 64)
                  else if 224 + c / 4096 =? 237 then in_range 128 159 (128 + (c / 64) mod 64)
                  else cont (128 + (c / 64) mod 64)) = true).
    { unfold in_range, cont. destruct (224 + c / 4096 =? 224) eqn:F1; [lia|]. destruct (224 + c / 4096 =? 237) eqn:F2; lia. }
    rewrite A3. assert (A4 : cont (128 + c mod 64) = true) by (unfold cont; lia). rewrite A4. cbn [andb].
    f_equal. f_equal. lia. }
  cbn [app utf8_dec].
  assert (A0 : (240 + c / 262144 <? 128) = false) by lia. rewrite A0.
  assert (A1 : in_range 194 223 (240 + c / 262144) = false) by (unfold in_range; lia). rewrite A1.
  assert (A2 : in_range 224 239 (240 + c / 262144) = false) by (unfold in_range; lia). rewrite A2.
  assert (A3 : in_range 240 244 (240 + c / 262144) = true) by (unfold in_range; lia). rewrite A3.
  assert (A4 : (if 240 + c / 262144 =? 240 then in_range 144 191 (128 + (c / 4096) mod 64)
                else if 240 + c / 262144 =? 244 then in_range 128 143 (128 + (c / 4096) mod 64)
                else cont (128 + (c / 4096) mod 64)) = true).
  { unfold in_range, cont. destruct (240 + c / 262144 =? 240) eqn:F1; [lia|]. destruct (240 + c / 262144 =? 244) eqn:F2; lia. }
  rewrite A4. assert (A5 : cont (128 + (c / 64) mod 64) = true) by (unfold cont; lia). rewrite A5.
  assert (A6 : cont (128 + c mod 64) = true) by (unfold cont; lia). rewrite A6. cbn [andb].
  f_equal. f_equal. lia.
Qed.

(* every Rust string: encode succeeds and the bytes decode back to exactly that string *)
Theorem utf8_roundtrip s : forallb scalar_ok s = true ->
  exists bs, utf8_enc s = Ok bs /\ utf8_dec bs = Some s.
Proof.
  induction s as [|c s IH]; intros H; [exists []; split; reflexivity|].
  cbn [forallb] in H. apply andb_prop in H. destruct H as [Hc Hs]. destruct (IH Hs) as [t [He Hd]].
  exists (utf8_enc1 c ++ t). cbn [utf8_enc]. rewrite Hc, He. cbn [bind]. split; [reflexivity|].
  rewrite (utf8_dec1 c t Hc), Hd. reflexivity.
Qed.

(* what is not a scalar value (a surrogate, or beyond U+10FFFF) cannot be in a Rust String: the model panics *)
Lemma utf8_enc_rejects_non_scalar c r : scalar_ok c = false -> utf8_enc (c :: r) = Panic.
Proof. intros H. cbn [utf8_enc]. rewrite H. reflexivity. Qed.
