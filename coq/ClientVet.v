(* ClientVet.v — C09, "fresh ones are vetted", at the level of the log of whole histories: in the event log of ANY history of
   calls against ANY scripted terminal, every write that is not housekeeping (acknowledgement, registration, identity query) —
   i.e. every COMMAND — goes to a connection on which the registration AND the identity query were written before.  Together
   with connect_vetted (a connection is handed out only after both were answered, the second with the configured serial) and
   history_log_safe (nothing after a drop) this is the temporal reading of C09's second half. *)
From Zvt Require Import Base Length Cp437 Encoding Codec Lookup Transport Sequence SeqLookup Client ClientProps ClientLog ClientWire ClientSent.
From Coq Require Import ZifyBool ZifyNat ZifyN.
Open Scope N_scope.

Definition wrote (l : list event) (id : N) (b : bytes) : Prop := exists t, In (EWrite id t b) l.

Fixpoint log_vet (cfg : config) (l : list event) : Prop :=
  match l with
  | [] => True
  | EWrite id _ b :: r =>
      (housekeeping cfg b \/ (wrote r id (registration_cmd cfg) /\ wrote r id sysinfo_cmd)) /\ log_vet cfg r
  | _ :: r => log_vet cfg r
  end.

Definition vetted (cfg : config) (l : list event) (id : N) : Prop :=
  wrote l id (registration_cmd cfg) /\ wrote l id sysinfo_cmd.

Record VInv (cfg : config) (w : world) : Prop := {
  vi_log : log_vet cfg (w_log w);
  vi_cur : forall id, w_cur w = Some id -> vetted cfg (w_log w) id }.

Lemma wrote_app l ws id b : wrote l id b -> wrote (ws ++ l) id b.
Proof. intros [t H]. exists t. apply in_or_app. right. exact H. Qed.
Lemma vetted_app cfg l ws id : vetted cfg l id -> vetted cfg (ws ++ l) id.
Proof. intros [A B]. split; apply wrote_app; assumption. Qed.

(* any writes on a vetted connection *)
Lemma log_vet_writes cfg id ws l : Forall (is_write_on id) ws -> vetted cfg l id -> log_vet cfg l -> log_vet cfg (ws ++ l).
Proof.
  intros F V Hr. induction ws as [|e ws IH]; [exact Hr|]. inversion F as [|? ? He Fw]; subst.
  destruct e; try contradiction. cbn in He. subst id0. cbn [app log_vet]. split; [right; apply vetted_app; exact V|apply IH; exact Fw].
Qed.
(* housekeeping anywhere *)
Lemma log_vet_house cfg evs l : (forall id t b, In (EWrite id t b) evs -> housekeeping cfg b) -> log_vet cfg l -> log_vet cfg (evs ++ l).
Proof.
  intros F Hr. induction evs as [|e evs IH]; [exact Hr|]. cbn [app].
  assert (IH' : log_vet cfg (evs ++ l)) by (apply IH; intros id t b H; apply (F id t b); right; exact H).
  destruct e; cbn [log_vet]; try exact IH'. split; [left; apply (F id t b); left; reflexivity|exact IH'].
Qed.

Lemma vinv_ext cfg id w w' : VInv cfg w -> vetted cfg (w_log w) id -> ext id w w' -> VInv cfg w' /\ vetted cfg (w_log w') id.
Proof.
  intros [Hr Hc] V [Xc Xl Xs [ws [El Fw]]]. split; [split|].
  - rewrite El. apply (log_vet_writes cfg id); assumption.
  - intros i Hcur. rewrite Xc in Hcur. rewrite El. apply vetted_app. apply Hc. exact Hcur.
  - rewrite El. apply vetted_app. exact V.
Qed.

Lemma vinv_drop_cur cfg w : VInv cfg w -> VInv cfg (drop_cur w).
Proof.
  intros H. pose proof (vi_log cfg w H) as Hr. unfold drop_cur. destruct (w_cur w) as [id|] eqn:E; [|exact H]. split; [exact Hr|].
  intros i Hcur. cbn in Hcur. discriminate.
Qed.

(* connecting never changes which connection is the current one *)
Lemma connect_cur cfg d w : w_cur (cr_world (connect cfg d w)) = w_cur w.
Proof.
  unfold connect. destruct (w_scripts w) as [|s rest]; [reflexivity|]. destruct (cs_refused s); [reflexivity|]. destruct (cs_silent s); [reflexivity|].
  cbv zeta. cbn [w_conns w_scripts w_cur w_now w_log].
  match goal with |- context [seq_next ?Q ?i PStart d ?W] => set (w1 := W); set (id := i) end.
  assert (C1 : w_cur w1 = w_cur w) by reflexivity.
  pose proof (seq_next_cur (seq_of "zvt::sequences::Registration" (registration_cmd cfg)) id PStart d w1) as K1.
  destruct (seq_next _ id PStart d w1) as [[i v|e] ph w'|w'|w']; cbn [cr_world drop_conn logw w_cur]; try congruence.
  pose proof (seq_next_cur (seq_of "zvt::feig::sequences::GetSystemInfo" sysinfo_cmd) id PStart d w') as K2.
  destruct (seq_next _ id PStart d w') as [[i2 v2|e2] ph2 w2|w2|w2]; cbn [cr_world drop_conn logw w_cur]; try congruence.
  destruct (i2 =? _); cbn [cr_world drop_conn logw w_cur]; [|congruence].
  destruct (first_pos v2) as [[| dev | | | | | |]|]; cbn [cr_world drop_conn logw w_cur]; try congruence.
  destruct (Client.list_eqb _ _); cbn [cr_world drop_conn logw w_cur]; congruence.
Qed.

(* a connection that connect hands out carries both handshake requests *)
Lemma connect_ok_vetted cfg d w id w' : connect cfg d w = COk id w' -> vetted cfg (w_log w') id.
Proof.
  intros H. destruct (connect_vetted cfg d w id w' H) as [w1 [wr [i1 [v1 [ph1 [i [v [ph [dev [E1 [E2 _]]]]]]]]]]].
  pose proof (seq_next_first (seq_of "zvt::sequences::Registration" (registration_cmd cfg)) id d w1) as X1. rewrite E1 in X1.
  pose proof (seq_next_first (seq_of "zvt::feig::sequences::GetSystemInfo" sysinfo_cmd) id d wr) as X2. rewrite E2 in X2.
  rewrite !q_cmd_seq_of in *.
  destruct X1 as [_ _ _ [ws1 [L1 _]]]. destruct X2 as [_ _ _ [ws2 [L2 _]]]. cbn [write_t logw w_log] in L1, L2.
  split.
  - exists (w_now w1). rewrite L2. apply in_or_app. right. right. rewrite L1. apply in_or_app. right. left. reflexivity.
  - exists (w_now wr). rewrite L2. apply in_or_app. right. left. reflexivity.
Qed.

Lemma connect_vinv cfg d w : VInv cfg w ->
  match connect cfg d w with
  | COk id w' => VInv cfg w' /\ vetted cfg (w_log w') id
  | CErr _ w' => VInv cfg w'
  end.
Proof.
  intros [Hr Hc].
  pose proof (connect_sent (housekeeping cfg) (or_introl eq_refl) cfg (or_intror (or_introl eq_refl)) (or_intror (or_intror eq_refl)) d w) as [evs [E F]].
  pose proof (connect_cur cfg d w) as C.
  assert (V : VInv cfg (cr_world (connect cfg d w))).
  { split; [rewrite E; apply log_vet_house; assumption|].
    intros i Hcur. rewrite C in Hcur. rewrite E. apply vetted_app. apply Hc. exact Hcur. }
  destruct (connect cfg d w) as [id w'|what w'] eqn:K; cbn [cr_world] in *; [|exact V].
  split; [exact V|]. apply (connect_ok_vetted cfg d w id w' K).
Qed.

Lemma retry_next_vinv cfg : forall fuel r w, VInv cfg w ->
  let '(_, _, w') := retry_next fuel cfg r w in VInv cfg w'.
Proof.
  induction fuel as [|f IH]; intros r w H; [exact H|]. cbn [retry_next]. destruct (r_ph r) eqn:P.
  - destruct (r_left r) as [|lft]; [exact H|].
    set (start := if r_first r then w_now w else N.max (w_now w) (r_last r + r_throttle r)).
    assert (H1 : VInv cfg (at_time w start)) by (destruct H as [A B]; split; [exact A|exact B]).
    destruct (w_cur (at_time w start)) as [id|] eqn:C.
    + apply IH. exact H1.
    + pose proof (connect_vinv cfg (start + r_timeout (rs_set r lft false start RIdle)) (at_time w start) H1) as K.
      destruct (connect cfg _ (at_time w start)) as [id w'|what w'].
      * destruct K as [[K1 K2] K3]. apply IH. split; [exact K1|]. intros i Hcur. cbn in Hcur. injection Hcur as <-. exact K3.
      * exact K.
  - destruct (w_cur w) as [id|] eqn:C; [|exact H].
    pose proof (seq_next_ext (r_seq r) id ph (w_now w + r_timeout r) w) as X.
    pose proof (vi_cur cfg w H id C) as V.
    destruct (seq_next (r_seq r) id ph (w_now w + r_timeout r) w) as [[i v|e] ph' w'|w'|w'];
      destruct (vinv_ext cfg id w w' H V X) as [H' _]; try exact H'.
    apply IH. apply vinv_drop_cur. exact H'.
  - apply IH. apply vinv_drop_cur. exact H.
  - exact H.
Qed.

Lemma vinv_init cfg scripts : VInv cfg {| w_conns := []; w_scripts := scripts; w_cur := None; w_now := 0; w_log := [] |}.
Proof. split; [exact I|intros i E; discriminate]. Qed.

Lemma log_vet_same a b l : registration_cmd a = registration_cmd b -> log_vet a l -> log_vet b l.
Proof.
  intros E. assert (HK : forall x, housekeeping a x -> housekeeping b x).
  { intros x [H|[H|H]]; [left; exact H|right; left; congruence|right; right; exact H]. }
  induction l as [|e l IH]; intros H; [exact I|]. destruct e; cbn [log_vet] in *; try (apply IH; exact H).
  destruct H as [[H|[H1 H3]] H2]; (split; [|apply IH; exact H2]); [left; apply HK; exact H|right].
  split; [rewrite <- E; exact H1|exact H3].
Qed.

(* THE theorem *)
Theorem history_commands_only_on_vetted cfg ops scripts :
  let '(_, _, _, w) := run_history cfg ops scripts in log_vet cfg (w_log w).
Proof.
  unfold run_history, new_client.
  set (cfg' := match c_terminal_id cfg with [] => _ | _ => cfg end).
  assert (E : registration_cmd cfg' = registration_cmd cfg) by (unfold cfg'; destruct (c_terminal_id cfg); reflexivity).
  pose proof (configure_inv cfg' (VInv cfg') (retry_next_vinv cfg') {| s_txs := []; s_max := c_max cfg' |} _ (vinv_init cfg' scripts)) as K.
  destruct (configure cfg' _ _) as [[r0 st1] w1]. cbn [snd] in K.
  pose proof (run_ops_inv cfg' (VInv cfg') (retry_next_vinv cfg') ops st1 w1 [] K) as K2.
  destruct (run_ops cfg' st1 ops w1 []) as [[rs st'] w']. cbn [snd] in K2.
  apply (log_vet_same cfg' cfg _ E).
  destruct (w_cur w') as [id|]; [|apply (vi_log _ _ K2)]. cbn. apply (vi_log _ _ K2).
Qed.

(* what the predicate says, unfolded: a command in the log has both handshake requests below it on the same connection *)
Lemma log_vet_spec cfg : forall l pre id t b post, log_vet cfg l -> l = pre ++ EWrite id t b :: post -> ~ housekeeping cfg b ->
  wrote post id (registration_cmd cfg) /\ wrote post id sysinfo_cmd.
Proof.
  intros l pre. revert l. induction pre as [|e pre IH]; intros l id t b post H E NH; subst l.
  - cbn [app log_vet] in H. destruct H as [[H|H] _]; [contradiction|exact H].
  - cbn [app] in H. apply (IH (pre ++ EWrite id t b :: post) id t b post); [|reflexivity|exact NH].
    destruct e; cbn [log_vet] in H; try exact H. exact (proj2 H).
Qed.
