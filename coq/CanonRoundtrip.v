(* CanonRoundtrip.v — C01 in full: every (layout, value) pair of the decidable class `canon` serialises
   to the bytes `canon` returns, and those bytes read back as exactly that value with nothing left. *)
From Zvt Require Import Base Length LengthProps Cp437 Encoding EncodingProps Utf8Props Codec CodecTotal CodecFrame CodecRoundtrip CodecTags CodecFields DateTimeProps CodecCanon CanonClass.
From Coq Require Import ZifyBool ZifyNat ZifyN Permutation.
Ltac Zify.zify_post_hook ::= Z.div_mod_to_equations.
Open Scope N_scope.

(* ---------- reflection of the boolean checks ---------- *)

Lemma list_eqb_eq a : forall b, list_eqb a b = true -> a = b.
Proof.
  induction a as [|x a IH]; intros [|y b] H; cbn [list_eqb] in H; try discriminate; [reflexivity|].
  apply andb_prop in H. destruct H as [H1 H2]. f_equal; [lia|apply IH; exact H2].
Qed.
Lemma list_eqb_refl a : list_eqb a a = true.
Proof. induction a as [|x a IH]; [reflexivity|]. cbn [list_eqb]. rewrite N.eqb_refl, IH. reflexivity. Qed.

Lemma flat_eqb_eq a b : flat_eqb a b = true -> a = b.
Proof.
  destruct a, b; cbn [flat_eqb]; intros H; try discriminate.
  - f_equal. lia.
  - f_equal. apply list_eqb_eq. exact H.
  - f_equal. apply list_eqb_eq. exact H.
  - repeat (apply andb_prop in H; destruct H as [H ?]). f_equal; lia.
Qed.

Lemma ok_is_eq x v r : ok_is x v r = true -> x = Ok (v, r).
Proof.
  unfold ok_is. destruct x as [[v' r']| | |]; try discriminate. intros H. apply andb_prop in H. destruct H as [H1 H2].
  apply flat_eqb_eq in H1. apply list_eqb_eq in H2. subst. reflexivity.
Qed.

Lemma tag_repr_b_ok t : tag_repr_b t = true -> tag_repr t.
Proof. unfold tag_repr_b, tag_repr. intros H. lia. Qed.
Lemma tag_ok_b_ok tag : tag_ok_b tag = true -> tag_ok false tag.
Proof. destruct tag as [t|]; cbn; [apply tag_repr_b_ok|trivial]. Qed.

Lemma nodup_b_ok l : nodup_b l = true -> NoDup l.
Proof.
  induction l as [|x l IH]; intros H; [constructor|]. cbn [nodup_b] in H. apply andb_prop in H. destruct H as [H1 H2].
  constructor; [|apply IH; exact H2]. intros Hin. apply Bool.negb_true_iff in H1.
  assert (existsb (N.eqb x) l = true) by (apply existsb_exists; exists x; split; [exact Hin|apply N.eqb_refl]). congruence.
Qed.

(* ---------- what "in the class" gives for one field ---------- *)

Definition fits (ctx : option bytes) (r : bytes) : Prop := match ctx with None => True | Some r0 => r = r0 end.
Definition nextok (tag : option N) (r : bytes) : Prop := match tag with Some tg => next_ok tg r | None => True end.
Fixpoint needs_next (t : ty) : bool := match t with TVec _ => true | TOpt u => needs_next u | _ => false end.

Definition field_exact (ls : lenstyle) (e : Encoding.enc) (t : ty) (tag : option N) (v : value) (ctx : option bytes) (g : bytes) : Prop :=
  enc ls e t tag v = Ok g /\
  (forall fuel r, (depth t <= fuel)%nat -> fits ctx r -> (needs_next t = true -> nextok tag r) ->
     tag = None \/ g <> [] ->                  (* a tagged field that wrote nothing is never looked for *)
     dec fuel ls e t tag (g ++ r) = Ok (v, r)) /\
  (forall tg, tag = Some tg ->
     (g = [] -> v = default_value t /\ is_optional t = true) /\
     (g <> [] -> forall r, exists rest, tag_dec false (g ++ r) = Ok (tg, rest))).

(* ---------- primitives ---------- *)

Lemma enc_prim_unfold' ls e p tag v : bytes_empty p v = false ->
  enc ls e (TPrim p) tag v = (let* pl := prim_enc e p v in framed_enc_p ls p tag pl).
Proof.
  intros H. destruct p; try reflexivity. destruct v as [| |b| | | | |]; try reflexivity. destruct b; [discriminate|destruct ls; reflexivity].
Qed.

(* no length at all: the inner reader is handed everything that is left *)
Lemma framed_empty_exact {A} tag (k : bytes -> res (A * bytes)) pl v r : tag_ok false tag ->
  k (pl ++ r) = Ok (v, r) ->
  framed_dec LEmpty false tag k (((match tag with None => [] | Some t => tag_enc false t end) ++ [] ++ pl) ++ r) = Ok (v, r).
Proof.
  intros Ht Hk. unfold framed_dec. cbn [app]. rewrite <- app_assoc.
  pose proof (tag_strip false tag (pl ++ r) Ht) as T.
  assert (B : forall bs1, bs1 = pl ++ r ->
    (let* (len, payload) := len_de LEmpty bs1 in
     if blen payload <? len then Err IncompleteData else
     let* (data, rem) := k (take len payload) in
     if blen rem <=? len then Ok (data, drop (len - blen rem) payload) else Panic) = Ok (v, r)).
  { intros bs1 ->. cbn [len_de bind]. destruct (blen (pl ++ r) <? blen (pl ++ r)) eqn:E; [lia|].
    rewrite take_all, Hk. cbn [bind]. rewrite blen_app. destruct (blen r <=? blen pl + blen r) eqn:E2; [|lia].
    replace (blen pl + blen r - blen r) with (blen pl) by lia. rewrite drop_app_exact. reflexivity. }
  destruct tag as [t|].
  - rewrite T. cbn [bind]. apply B. reflexivity.
  - cbn [app bind]. apply B. reflexivity.
Qed.

(* Fixed<k>: a shorter payload is padded with zero bytes (numbers in front, text behind: pad_payload); what matters is how the
   padded payload reads *)
Lemma fixed_padded_exact {A} k p tag (k0 : bytes -> res (A * bytes)) pl v g r : blen pl <= k ->
  k0 (pad_payload p k pl) = Ok (v, []) -> tag_ok false tag ->
  framed_enc_p (LFixed k) p tag pl = Ok g ->
  framed_dec (LFixed k) false tag k0 (g ++ r) = Ok (v, r).
Proof.
  intros Hl Hk Ht Hg.
  assert (Hlen : blen (pad_payload p k pl) = k) by (unfold pad_payload; destruct p; rewrite blen_app, blen_zeros; lia).
  destruct (framed_roundtrip (LFixed k) false tag k0 (pad_payload p k pl) v r eq_refl) as [g' [Hg' Hr]].
  - cbn [len_fits]. lia.
  - exact Ht.
  - exact Hk.
  - assert (g' = g); [|subst; exact Hr].
    unfold framed_enc in Hg'. cbn [len_ser] in Hg'. rewrite Hlen in Hg'.
    destruct (k <=? k) eqn:E2; [|lia]. cbn [bind] in Hg'.
    rewrite N.sub_diag in Hg'. change (zeros 0) with (@nil N) in Hg'. cbn [app] in Hg'.
    unfold framed_enc_p, framed_enc, pad_payload in *. cbn [len_ser] in Hg.
    destruct (blen pl <=? k) eqn:E1; [|lia].
    destruct p; cbn [bind] in Hg; congruence.
Qed.

Lemma framed_enc_p_starts_with_tag ls p t pl g r : tag_repr t ->
  framed_enc_p ls p (Some t) pl = Ok g -> exists rest, tag_dec false (g ++ r) = Ok (t, rest).
Proof.
  intros Ht H. destruct ls as [|n| | | |]; try (eapply framed_enc_starts_with_tag; [exact Ht|exact H]).
  destruct p; try (eapply framed_enc_starts_with_tag; [exact Ht|exact H]).
  unfold framed_enc_p in H. destruct (blen pl <=? n); [|discriminate]. injection H as <-.
  rewrite <- app_assoc. eexists. apply tag_roundtrip. exact Ht.
Qed.

Lemma canon_prim_sound ls e p tag v ctx g : canon_prim ls e p tag v ctx = Some g ->
  field_exact ls e (TPrim p) tag v ctx g /\ (forall tg, tag = Some tg -> g <> []).
Proof.
  unfold canon_prim. destruct (bytes_empty p v) eqn:Eb; [discriminate|].
  destruct (prim_enc e p v) as [pl| | |] eqn:Ep; try discriminate.
  destruct (framed_enc_p ls p tag pl) as [g0| | |] eqn:Ef; try discriminate.
  destruct (tag_ok_b tag) eqn:Et; cbn [andb]; [|discriminate].
  apply tag_ok_b_ok in Et.
  assert (Henc : enc ls e (TPrim p) tag v = Ok g0) by (rewrite enc_prim_unfold' by exact Eb; rewrite Ep; cbn [bind]; exact Ef).
  assert (Hstart : forall tg, tag = Some tg -> forall r, exists rest, tag_dec false (g0 ++ r) = Ok (tg, rest)).
  { intros tg -> r. eapply framed_enc_p_starts_with_tag; [exact Et|exact Ef]. }
  assert (Hne : forall tg, tag = Some tg -> g0 <> []).
  { intros tg Htg Hnil. destruct (Hstart tg Htg []) as [rest H]. rewrite Hnil in H. cbn in H. discriminate. }
  assert (Wrap : (forall f r, fits ctx r -> dec (S f) ls e (TPrim p) tag (g0 ++ r) = Ok (v, r)) ->
                 field_exact ls e (TPrim p) tag v ctx g0 /\ (forall tg, tag = Some tg -> g0 <> [])).
  { intros Hd. split; [|exact Hne]. split; [exact Henc|]. split.
    - intros fuel r Hf Hfit _ _. destruct fuel as [|f]; [cbn in Hf; lia|]. apply Hd. exact Hfit.
    - intros tg Htg. split; [intros Hnil; exfalso; exact (Hne tg Htg Hnil)|intros _; apply Hstart; exact Htg]. }
  destruct (delimiting ls && len_fits ls (blen pl) && ok_is (prim_dec e p pl) v []) eqn:EA.
  { intros [= <-]. apply Wrap. intros f r _.
    apply andb_prop in EA. destruct EA as [EA H3]. apply andb_prop in EA. destruct EA as [H1 H2]. apply ok_is_eq in H3.
    rewrite dec_prim_unfold.
    destruct (framed_roundtrip ls false tag (prim_dec e p) pl v r H1 H2 Et H3) as [g' [Hg' Hr]].
    rewrite (framed_enc_p_fit ls p tag pl H2) in Ef. rewrite Ef in Hg'. injection Hg' as <-. exact Hr. }
  destruct (match ls with LEmpty => int_strict e p v | _ => false end) eqn:EB.
  { intros [= <-]. apply Wrap. intros f r _. destruct ls; try discriminate.
    rewrite dec_prim_unfold. unfold framed_enc_p, framed_enc in Ef. cbn [len_ser bind] in Ef. injection Ef as <-.
    apply framed_empty_exact; [exact Et|].
    unfold int_strict in EB. destruct e; try discriminate; destruct p as [w| | |]; try discriminate; destruct v as [n| | | | | | |]; try discriminate;
      cbn [prim_enc] in Ep; injection Ep as <-; cbn [prim_dec].
    - pose proof (int_roundtrip false w n r ltac:(lia)) as R. unfold int_enc in R. rewrite R. reflexivity.
    - pose proof (int_roundtrip true w n r ltac:(lia)) as R. unfold int_enc in R. rewrite R. reflexivity. }
  destruct (bcd_fixed ls e p v) eqn:EC.
  { intros [= <-]. apply Wrap. intros f r _.
    unfold bcd_fixed in EC. destruct ls as [|k| | | |]; try discriminate. destruct e; try discriminate.
    destruct p as [w| | |]; try discriminate. destruct v as [n| | | | | | |]; try discriminate.
    destruct (bcd_fixed_field_exact k w tag n Et) as [g' [He' Hd']]; try lia.
    rewrite Henc in He'. injection He' as <-. apply Hd'. }
  destruct (match ls with
            | LFixed k => (blen pl <=? k) && ok_is (prim_dec e p (pad_payload p k pl)) v []
            | _ => false
            end) eqn:EP.
  { intros [= <-]. apply Wrap. intros f r _. destruct ls as [|k| | | |]; try discriminate.
    apply andb_prop in EP. destruct EP as [Hk Hp]. apply ok_is_eq in Hp. rewrite dec_prim_unfold.
    apply (fixed_padded_exact k p tag (prim_dec e p) pl v g0 r); try assumption. lia. }
  cbn [orb]. destruct ctx as [r0|]; [|discriminate].
  destruct (ok_is (framed_dec ls false tag (prim_dec e p) (g0 ++ r0)) v r0) eqn:ED; [|discriminate].
  intros [= <-]. apply Wrap. intros f r Hfit. cbn [fits] in Hfit. subst r. rewrite dec_prim_unfold. apply ok_is_eq. exact ED.
Qed.

(* ---------- named versions of the local loops of enc / canon ---------- *)

Fixpoint enc_fields (fs : list field) (vs : list value) : res bytes :=
  match fs, vs with
  | [], [] => Ok []
  | Fld _ tg l' e' t' :: fr, x :: vr =>
      let* a := enc l' e' t' tg x in let* b := enc_fields fr vr in Ok (a ++ b)
  | _, _ => Err NonImplemented
  end.

Lemma enc_struct_unfold ls e fs tag vs :
  enc ls e (TStruct fs) tag (VRec vs) = (let* pl := enc_fields fs vs in framed_enc ls false tag pl).
Proof.
  cbn [enc]. f_equal.
Qed.

Fixpoint canon_elems (ls : lenstyle) (e : Encoding.enc) (u : ty) (tag : option N) (xs : list value) : option bytes :=
  match xs with
  | [] => Some []
  | x :: xr => match canon ls e u tag x None, canon_elems ls e u tag xr with
               | Some g, Some gr => if is_nil g then None else Some (g ++ gr)
               | _, _ => None
               end
  end.

Lemma canon_vec_unfold ls e u tag xs ctx :
  canon ls e (TVec u) tag (VList xs) ctx = if vec_ok ls e u tag ctx then canon_elems ls e u tag xs else None.
Proof.
  cbn [canon]. destruct (vec_ok ls e u tag ctx); [|reflexivity].
  induction xs as [|x xs IH]; [reflexivity|]. cbn [canon_elems]. rewrite <- IH. reflexivity.
Qed.

Definition struct_tail (ls : lenstyle) (tag : option N) (ctx : option bytes) : option bytes :=
  match ls with LEmpty => match tag with None => ctx | Some _ => None end | _ => Some [] end.
Definition tagged_allowed (tail : option bytes) : bool := match tail with Some [] => true | _ => false end.

Lemma canon_struct_unfold ls fs tag vs ctx :
  canon ls EDefault (TStruct fs) tag (VRec vs) ctx =
  match canon_fields (struct_tail ls tag ctx) (tagged_allowed (struct_tail ls tag ctx)) fs vs false with
  | Some pl =>
      if nodup_b (tags_of fs) then
        match ls with
        | LEmpty => match tag with None => Some pl | Some _ => None end
        | _ =>
            if delimiting ls && len_fits ls (blen pl) && tag_ok_b tag then
              match framed_enc ls false tag pl with Ok g => Some g | _ => None end
            else None
        end
      else None
  | None => None
  end.
Proof.
  cbn [canon].
  match goal with |- match ?F fs vs false with _ => _ end = _ =>
    assert (E : forall fs vs b, F fs vs b = canon_fields (struct_tail ls tag ctx) (tagged_allowed (struct_tail ls tag ctx)) fs vs b)
  end.
  { clear fs vs. induction fs as [|[nm tg l' e' t'] fr IH]; intros vs b.
    - destruct vs; reflexivity.
    - destruct vs as [|x vr]; [reflexivity|]. cbn [canon_fields]. rewrite <- !IH. reflexivity. }
  rewrite E. reflexivity.
Qed.

(* ---------- the fields of a struct ---------- *)

Definition sound_at (t : ty) : Prop :=
  forall ls e tag v ctx g, canon ls e t tag v ctx = Some g -> field_exact ls e t tag v ctx g.

Definition slots_ok (ts : list tslot) : Prop :=
  (forall f v g, In (f, v, Some g) ts ->
     exists nm t ls e ty, f = Fld nm (Some t) ls e ty /\
       (forall r, exists rest, tag_dec false (g ++ r) = Ok (t, rest)) /\
       (forall fuel r, (depth ty <= fuel)%nat -> (needs_next ty = true -> next_ok t r) -> dec fuel ls e ty (Some t) (g ++ r) = Ok (v, r))) /\
  (forall f v, In (f, v, None) ts -> v = default_value (f_ty f) /\ is_optional (f_ty f) = true).

Definition slot_of (f : field) (v : value) (g : bytes) : tslot := (f, v, if is_nil g then None else Some g).

Lemma tbytes_cons f v g ts : tbytes (slot_of f v g :: ts) = g ++ tbytes ts.
Proof. unfold tbytes, slot_of. cbn [map concat snd]. destruct g; reflexivity. Qed.

Lemma canon_fields_tagged : forall fs vs tail allowed pl,
  (forall f, In f fs -> sound_at (f_ty f)) ->
  canon_fields tail allowed fs vs true = Some pl ->
  exists ts : list tslot,
    fs = map (fun s : tslot => fst (fst s)) ts /\ vs = map (fun s : tslot => snd (fst s)) ts /\ pl = tbytes ts /\
    forallb (fun f => negb (untagged_field f)) fs = true /\ (fs <> [] -> allowed = true) /\
    enc_fields fs vs = Ok pl /\ slots_ok ts.
Proof.
  induction fs as [|[nm tg l' e' t'] fr IH]; intros vs tail allowed pl Hs H.
  - destruct vs; [|discriminate]. injection H as <-. exists []. do 4 (split; [reflexivity|]). split; [congruence|]. split; [reflexivity|]. split; [intros f v g []|intros f v []].
  - destruct vs as [|x vr]; [discriminate|]. cbn [canon_fields] in H. destruct tg as [tn|]; [|discriminate].
    destruct (allowed && tag_repr_b tn) eqn:Ea; [|discriminate]. apply andb_prop in Ea. destruct Ea as [Ea Etn].
    destruct (canon_fields tail allowed fr vr true) as [rest|] eqn:Er; [|discriminate].
    destruct (canon l' e' t' (Some tn) x None) as [g|] eqn:Eg; [|discriminate]. injection H as <-.
    destruct (IH vr tail allowed rest (fun f Hf => Hs f (or_intror Hf)) Er) as [ts [Hfs [Hvs [Hpl [Hall [_ [Henc [Hpres Habs]]]]]]]].
    pose proof (Hs (Fld nm (Some tn) l' e' t') (or_introl eq_refl)) as Hst. cbn [f_ty] in Hst.
    destruct (Hst l' e' (Some tn) x None g Eg) as [Hx [Hd Ht]].
    exists (slot_of (Fld nm (Some tn) l' e' t') x g :: ts).
    split; [cbn [map slot_of fst]; rewrite <- Hfs; reflexivity|].
    split; [cbn [map slot_of fst snd]; rewrite <- Hvs; reflexivity|].
    split; [rewrite tbytes_cons, Hpl; reflexivity|].
    split; [cbn [forallb]; rewrite Hall; reflexivity|].
    split; [intros _; exact Ea|].
    split; [cbn [enc_fields]; rewrite Hx, Henc; reflexivity|].
    destruct (Ht tn eq_refl) as [Hnil Hne]. split.
    + intros f v g' [E|Hin]; [|apply (Hpres f v g' Hin)].
      unfold slot_of in E. destruct g as [|b0 g0]; cbn [is_nil] in E; [discriminate|]. injection E as <- <- <-.
      exists nm, tn, l', e', t'. split; [reflexivity|]. split; [apply Hne; discriminate|].
      intros fuel r Hf Hn. apply Hd; [exact Hf|exact I|exact Hn|right; discriminate].
    + intros f v [E|Hin]; [|apply (Habs f v Hin)].
      unfold slot_of in E. destruct g as [|b0 g0]; cbn [is_nil] in E; [|discriminate]. injection E as <- <-.
      cbn [f_ty]. apply Hnil. reflexivity.
Qed.

Lemma canon_fields_pos : forall fs vs tail allowed pl,
  (forall f, In f fs -> sound_at (f_ty f)) ->
  canon_fields tail allowed fs vs false = Some pl ->
  exists (ps : list (field * value * bytes)) (ts : list tslot),
    fs = map (fun x => fst (fst x)) ps ++ map (fun s : tslot => fst (fst s)) ts /\
    vs = map (fun x => snd (fst x)) ps ++ map (fun s : tslot => snd (fst s)) ts /\
    pl = concat (map snd ps) ++ tbytes ts /\
    forallb untagged_field (map (fun x => fst (fst x)) ps) = true /\
    forallb (fun f => negb (untagged_field f)) (map (fun s : tslot => fst (fst s)) ts) = true /\
    (ts <> [] -> allowed = true) /\
    enc_fields fs vs = Ok pl /\ slots_ok ts /\
    (forall fuel rest, (forall f, In f fs -> (depth (f_ty f) <= fuel)%nat) ->
       (match tail with Some tl => rest = tbytes ts ++ tl | None => True end) ->
       pos_ok (dec fuel) ps rest).
Proof.
  induction fs as [|[nm tg l' e' t'] fr IH]; intros vs tail allowed pl Hs H.
  - destruct vs; [|discriminate]. injection H as <-. exists [], [].
    do 5 (split; [reflexivity|]). split; [congruence|]. split; [reflexivity|].
    split; [split; [intros f v g []|intros f v []]|]. intros fuel tl _ _. exact I.
  - destruct vs as [|x vr]; [discriminate|]. destruct tg as [tn|].
    + (* first tagged field: the rest is all tagged *)
      assert (H' : canon_fields tail allowed (Fld nm (Some tn) l' e' t' :: fr) (x :: vr) true = Some pl) by exact H.
      destruct (canon_fields_tagged _ _ _ _ _ Hs H') as [ts [Hfs [Hvs [Hpl [Hall [Hal [Henc Hok]]]]]]].
      exists [], ts. cbn [map app concat].
      split; [exact Hfs|]. split; [exact Hvs|]. split; [exact Hpl|]. split; [reflexivity|].
      split; [rewrite <- Hfs; exact Hall|]. split; [intros _; apply Hal; discriminate|].
      split; [exact Henc|]. split; [exact Hok|]. intros fuel tl _ _. exact I.
    + cbn [canon_fields] in H.
      destruct (canon_fields tail allowed fr vr false) as [rest|] eqn:Er; [|discriminate].
      destruct (canon l' e' t' None x (match tail with Some tl => Some (rest ++ tl) | None => None end)) as [g|] eqn:Eg; [|discriminate].
      injection H as <-.
      destruct (IH vr tail allowed rest (fun f Hf => Hs f (or_intror Hf)) Er)
        as [ps [ts [Hfs [Hvs [Hpl [Hup [Htg [Hal [Henc [Hok Hpos]]]]]]]]]].
      pose proof (Hs (Fld nm None l' e' t') (or_introl eq_refl)) as Hst. cbn [f_ty] in Hst.
      destruct (Hst l' e' None x _ g Eg) as [Hx [Hd _]].
      exists ((Fld nm None l' e' t', x, g) :: ps), ts. cbn [map fst snd app concat].
      split; [rewrite <- Hfs; reflexivity|]. split; [rewrite <- Hvs; reflexivity|].
      split; [rewrite Hpl, <- app_assoc; reflexivity|].
      split; [cbn [forallb]; rewrite Hup; reflexivity|].
      split; [exact Htg|]. split; [exact Hal|].
      split; [cbn [enc_fields]; rewrite Hx, Henc; reflexivity|]. split; [exact Hok|].
      intros fuel rst Hdep Hfit. cbn [pos_ok f_ls f_enc f_ty]. split.
      * apply Hd.
        -- apply (Hdep (Fld nm None l' e' t')). left. reflexivity.
        -- destruct tail as [tl0|]; cbn [fits]; [|exact I]. rewrite Hfit, Hpl, <- app_assoc. reflexivity.
        -- intros _. exact I.
        -- left. reflexivity.
      * apply Hpos; [|exact Hfit]. intros f Hf. apply Hdep. right. exact Hf.
Qed.

Lemma tags_of_untagged pfs : forallb untagged_field pfs = true -> tags_of pfs = [].
Proof.
  induction pfs as [|f pfs IH]; intros H; [reflexivity|]. cbn [forallb] in H. apply andb_prop in H. destruct H as [H1 H2].
  unfold tags_of. cbn [flat_map]. unfold untagged_field in H1. destruct (f_tag f); [discriminate|]. apply IH. exact H2.
Qed.
Lemma tags_of_app a b : tags_of (a ++ b) = tags_of a ++ tags_of b.
Proof. unfold tags_of. apply flat_map_app. Qed.

Lemma find_tagged_untagged pfs : forallb untagged_field pfs = true -> forall t i, find_tagged pfs t i = None.
Proof.
  induction pfs as [|f pfs IH]; intros H t i; [reflexivity|]. cbn [forallb] in H. apply andb_prop in H. destruct H as [H1 H2].
  cbn [find_tagged]. unfold untagged_field in H1. destruct (f_tag f); [discriminate|]. apply IH. exact H2.
Qed.

Lemma struct_payload_exact fs vs tail pl :
  (forall f, In f fs -> sound_at (f_ty f)) ->
  canon_fields tail (tagged_allowed tail) fs vs false = Some pl -> nodup_b (tags_of fs) = true ->
  enc_fields fs vs = Ok pl /\
  forall fuel tl, (forall f, In f fs -> (depth (f_ty f) <= fuel)%nat) -> fits tail tl ->
    dec_struct_with (dec fuel) fs (pl ++ tl) = Ok (VRec vs, tl).
Proof.
  intros Hs H Hnd.
  destruct (canon_fields_pos fs vs tail (tagged_allowed tail) pl Hs H)
    as [ps [ts [Hfs [Hvs [Hpl [Hup [Htg [Hal [Henc [[Hpres Habs] Hpos]]]]]]]]]].
  split; [exact Henc|]. intros fuel tl Hdep Hfit.
  pose proof (dec_struct_slots (dec fuel) ps ts tl) as T. cbv zeta in T.
  rewrite <- Hfs, <- Hvs in T. rewrite Hpl, <- app_assoc. apply T; clear T.
  - exact Hup.
  - exact Htg.
  - apply nodup_b_ok in Hnd. rewrite Hfs, tags_of_app, (tags_of_untagged _ Hup) in Hnd. exact Hnd.
  - unfold tail_ok. destruct ts as [|s ts'].
    + cbn [map] in Hfs. rewrite app_nil_r in Hfs. destruct (tag_dec false tl) as [[u r]| | |]; try exact I.
      rewrite Hfs. apply find_tagged_untagged. exact Hup.
    + assert (Ha : tagged_allowed tail = true) by (apply Hal; discriminate).
      unfold tagged_allowed in Ha. destruct tail as [[|b tl0]|]; try discriminate. cbn [fits] in Hfit. subst tl. exact I.
  - apply Hpos; [exact Hdep|]. destruct tail as [tl0|]; [cbn [fits] in Hfit; subst tl; reflexivity|exact I].
  - intros k f v g Hn. apply nth_error_In in Hn. destruct (Hpres f v g Hn) as [nm [t [ls [e [ty [Ef [Hst Hd]]]]]]].
    exists nm, t, ls, e, ty. split; [exact Ef|]. split; [exact Hst|]. intros r Hr. apply Hd; [|intros _; exact Hr].
    subst f. apply (Hdep (Fld nm (Some t) ls e ty)). rewrite Hfs. apply in_or_app. right.
    apply in_map_iff. exists (Fld nm (Some t) ls e ty, v, Some g). split; [reflexivity|exact Hn].
  - exact Habs.
Qed.

(* ---------- Option ---------- *)

Lemma depth_pos t : (1 <= depth t)%nat.
Proof. destruct t; cbn [depth]; lia. Qed.

Lemma opt_sound u : sound_at u -> sound_at (TOpt u).
Proof.
  intros Hu ls e tag v ctx g H. destruct v as [| | | | |x| |]; cbn [canon] in H; try discriminate.
  - (* VNone *)
    destruct tag as [tg|].
    + injection H as <-. split; [reflexivity|]. split.
      * intros fuel r _ _ _ [E|E]; [discriminate|congruence].
      * intros tg' _. split; [intros _; split; reflexivity|congruence].
    + destruct u as [p| | |]; try discriminate. destruct ctx as [r0|]; [|discriminate].
      destruct (is_err (framed_dec ls false None (prim_dec e p) r0)) eqn:E; [|discriminate]. injection H as <-.
      split; [reflexivity|]. split; [|intros tg' E'; discriminate].
      intros fuel r Hf Hfit _ _. cbn [fits] in Hfit. subst r. cbn [depth] in Hf.
      destruct fuel as [|[|f]]; try lia. cbn [app]. cbn [dec]. change (dec (S f) ls e (TPrim p) None r0) with (framed_dec ls false None (prim_dec e p) r0).
      unfold is_err in E. destruct (framed_dec ls false None (prim_dec e p) r0); try discriminate. reflexivity.
  - (* VSome x *)
    destruct (canon ls e u tag x ctx) as [g0|] eqn:Eg; [|discriminate].
    destruct (is_nil g0 && (match tag with Some _ => true | None => false end)) eqn:En; [discriminate|]. injection H as <-.
    destruct (Hu ls e tag x ctx g0 Eg) as [Hx [Hd Ht]].
    assert (Hne : forall tg, tag = Some tg -> g0 <> []) by (intros tg -> ->; discriminate).
    split; [exact Hx|]. split.
    + intros fuel r Hf Hfit Hn Hg. rewrite depth_opt in Hf. destruct fuel as [|f]; [lia|].
      assert (D : dec f ls e u tag (g0 ++ r) = Ok (x, r)) by (apply Hd; [lia|exact Hfit|exact Hn|exact Hg]).
      destruct tag; cbn [dec]; rewrite D; reflexivity.
    + intros tg Htg. destruct (Ht tg Htg) as [_ Hst]. split; [intros E; exfalso; exact (Hne tg Htg E)|exact Hst].
Qed.

(* ---------- Vec ---------- *)

Lemma canon_elems_split ls e u tag : forall xs g, canon_elems ls e u tag xs = Some g ->
  exists gs : list bytes, length xs = length gs /\ g = concat gs /\
    forall k x gi, nth_error xs k = Some x -> nth_error gs k = Some gi ->
      gi <> [] /\ canon ls e u tag x None = Some gi.
Proof.
  induction xs as [|x xs IH]; intros g H.
  - injection H as <-. exists []. split; [reflexivity|]. split; [reflexivity|]. intros [|k] ? ? ?; discriminate.
  - cbn [canon_elems] in H. destruct (canon ls e u tag x None) as [g0|] eqn:E0; [|discriminate].
    destruct (canon_elems ls e u tag xs) as [gr|] eqn:Er; [|discriminate].
    destruct (is_nil g0) eqn:En; [discriminate|]. injection H as <-.
    destruct (IH gr eq_refl) as [gs [Hl [Hc Hk]]]. exists (g0 :: gs).
    split; [cbn [length]; lia|]. split; [cbn [concat]; rewrite Hc; reflexivity|].
    intros [|k] x' gi H1 H2.
    + injection H1 as <-. injection H2 as <-. split; [intros ->; discriminate|exact E0].
    + apply (Hk k x' gi H1 H2).
Qed.

Lemma elem_kind_flat e u : elem_kind e u = true -> needs_next u = false /\
  (match u with TPrim _ => True | TStruct _ => e = EDefault | _ => False end).
Proof. destruct u; cbn; try discriminate; intros H; split; try reflexivity; try exact I. destruct e; try discriminate. reflexivity. Qed.

Lemma vec_sound u : sound_at u -> sound_at (TVec u).
Proof.
  intros Hu ls e tag v ctx g H. destruct v as [| | | | | |xs|]; try discriminate.
  rewrite canon_vec_unfold in H. destruct (vec_ok ls e u tag ctx) eqn:Ev; [|discriminate].
  destruct (canon_elems_split ls e u tag xs g H) as [gs [Hl [-> Hk]]].
  assert (Hnn : needs_next u = false).
  { unfold vec_ok in Ev. destruct tag; [apply (elem_kind_flat e u Ev)|]. destruct u; try discriminate. reflexivity. }
  assert (Hel : forall k x gi, nth_error xs k = Some x -> nth_error gs k = Some gi ->
                  gi <> [] /\ exact_strict ls e u tag x gi).
  { intros k x gi H1 H2. destruct (Hk k x gi H1 H2) as [Hne Hc]. split; [exact Hne|].
    destruct (Hu ls e tag x None gi Hc) as [Hx [Hd _]]. split; [exact Hx|].
    intros fuel r Hf. apply Hd; [exact Hf|exact I|rewrite Hnn; discriminate|right; exact Hne]. }
  destruct tag as [tg|].
  - (* tagged *)
    cbn [vec_ok] in Ev. destruct (elem_kind_flat e u Ev) as [_ Hkind].
    assert (Hfail : forall fuel r, (depth u <= fuel)%nat -> next_ok tg r -> exists er, dec fuel ls e u (Some tg) r = Err er).
    { intros fuel r Hf Hn. destruct (elem_fails_on_other_tag ls e u tg Hkind fuel r Hn) as [er [Hx|Hx]]; [exists er; exact Hx|].
      pose proof (depth_pos u). lia. }
    destruct (vec_tagged_next ls e u tg xs gs Hl Hel Hfail) as [Henc Hdec].
    split; [exact Henc|]. split.
    + intros fuel r Hf _ Hn _. apply Hdec; [exact Hf|]. apply Hn. reflexivity.
    + intros tg' [= <-]. split.
      * intros Hnil. destruct xs as [|x xs]; [split; reflexivity|]. destruct gs as [|g0 gs]; [discriminate|].
        destruct (Hk 0%nat x g0 eq_refl eq_refl) as [Hne _]. cbn [concat] in Hnil. destruct g0; [congruence|discriminate].
      * intros Hne r. destruct xs as [|x xs]; [destruct gs; [cbn in Hne; congruence|discriminate]|].
        destruct gs as [|g0 gs]; [discriminate|]. destruct (Hk 0%nat x g0 eq_refl eq_refl) as [Hne0 Hc].
        destruct (Hu ls e (Some tg) x None g0 Hc) as [_ [_ Ht]]. destruct (Ht tg eq_refl) as [_ Hst].
        cbn [concat]. rewrite <- app_assoc. apply Hst. exact Hne0.
  - (* positional, last: the loop ends where the bytes end *)
    cbn [vec_ok] in Ev. destruct u as [p| | |]; try discriminate. destruct ctx as [[|b0 r0]|]; try discriminate.
    assert (Hfail : forall fuel, (depth (TPrim p) <= fuel)%nat -> exists er, dec fuel ls e (TPrim p) None [] = Err er).
    { intros fuel Hf. destruct fuel as [|f]; [cbn in Hf; lia|]. rewrite dec_prim_unfold.
      unfold is_err in Ev. destruct (framed_dec ls false None (prim_dec e p) []) as [| er | |]; try discriminate. exists er. reflexivity. }
    destruct (vec_exact_gen ls e (TPrim p) None xs gs [] Hl Hel Hfail) as [Henc Hdec].
    split; [exact Henc|]. split; [|intros tg E; discriminate].
    intros fuel r Hf Hfit _ _. cbn [fits] in Hfit. subst r. apply Hdec. exact Hf.
Qed.

(* ---------- nested struct ---------- *)

Lemma dec_struct_unfold f ls fs tag bs :
  dec (S f) ls EDefault (TStruct fs) tag bs = framed_dec ls false tag (dec_struct_with (dec f) fs) bs.
Proof. reflexivity. Qed.

Lemma fields_depth fs fuel : (depth (TStruct fs) <= S fuel)%nat -> forall f, In f fs -> (depth (f_ty f) <= fuel)%nat.
Proof. intros H f Hf. pose proof (depth_field_lt f fs Hf). lia. Qed.

Lemma struct_delim_case ls fs tag vs ctx pl g :
  delimiting ls && len_fits ls (blen pl) && tag_ok_b tag = true ->
  framed_enc ls false tag pl = Ok g -> enc_fields fs vs = Ok pl ->
  (forall fuel, (forall f, In f fs -> (depth (f_ty f) <= fuel)%nat) -> dec_struct_with (dec fuel) fs pl = Ok (VRec vs, [])) ->
  field_exact ls EDefault (TStruct fs) tag (VRec vs) ctx g.
Proof.
  intros Hc Hf Henc Hdec. apply andb_prop in Hc. destruct Hc as [Hc H3]. apply andb_prop in Hc. destruct Hc as [H1 H2].
  apply tag_ok_b_ok in H3. split; [rewrite enc_struct_unfold, Henc; exact Hf|]. split.
  - intros fuel r Hfu _ _ _. destruct fuel as [|f]; [cbn in Hfu; lia|]. rewrite dec_struct_unfold.
    destruct (framed_roundtrip ls false tag (dec_struct_with (dec f) fs) pl (VRec vs) r H1 H2 H3) as [g' [Hg' Hr]].
    + apply Hdec. apply fields_depth. exact Hfu.
    + rewrite Hf in Hg'. injection Hg' as <-. exact Hr.
  - intros tg ->. assert (Hst : forall r, exists rest, tag_dec false (g ++ r) = Ok (tg, rest)).
    { intros r. eapply framed_enc_starts_with_tag; [exact H3|exact Hf]. }
    split; [|intros _; exact Hst]. intros ->. destruct (Hst []) as [rest Hr]. cbn in Hr. discriminate.
Qed.

Lemma struct_sound fs : (forall f, In f fs -> sound_at (f_ty f)) -> sound_at (TStruct fs).
Proof.
  intros Hs ls e tag v ctx g H. destruct v as [| | | | | | |vs]; try discriminate.
  destruct e; try discriminate. rewrite canon_struct_unfold in H.
  destruct (canon_fields (struct_tail ls tag ctx) (tagged_allowed (struct_tail ls tag ctx)) fs vs false) as [pl|] eqn:Ec; [|discriminate].
  destruct (nodup_b (tags_of fs)) eqn:End; [|discriminate].
  destruct (struct_payload_exact fs vs _ pl Hs Ec End) as [Henc Hdec].
  assert (Hdelim : ls <> LEmpty -> forall fuel, (forall f, In f fs -> (depth (f_ty f) <= fuel)%nat) ->
                     dec_struct_with (dec fuel) fs pl = Ok (VRec vs, [])).
  { intros Hls fuel Hdep. specialize (Hdec fuel [] Hdep). rewrite app_nil_r in Hdec. apply Hdec.
    destruct ls; try congruence; reflexivity. }
  destruct ls.
  - (* no length: the fields are read straight out of the surrounding buffer *)
    destruct tag as [tg|]; [discriminate|]. injection H as <-. cbn [struct_tail] in Hdec.
    split; [rewrite enc_struct_unfold, Henc; reflexivity|]. split; [|intros tg E; discriminate].
    intros fuel r Hfu Hfit _ _. destruct fuel as [|f]; [cbn in Hfu; lia|]. rewrite dec_struct_unfold.
    apply (framed_empty_exact None (dec_struct_with (dec f) fs) pl (VRec vs) r I).
    apply Hdec; [apply fields_depth; exact Hfu|exact Hfit].
  - destruct (delimiting (LFixed n) && len_fits (LFixed n) (blen pl) && tag_ok_b tag) eqn:Ed; [|discriminate].
    destruct (framed_enc (LFixed n) false tag pl) as [g0| | |] eqn:Ef; try discriminate. injection H as <-.
    eapply struct_delim_case; [exact Ed|exact Ef|exact Henc|apply Hdelim; discriminate].
  - destruct (delimiting LTlv && len_fits LTlv (blen pl) && tag_ok_b tag) eqn:Ed; [|discriminate].
    destruct (framed_enc LTlv false tag pl) as [g0| | |] eqn:Ef; try discriminate. injection H as <-.
    eapply struct_delim_case; [exact Ed|exact Ef|exact Henc|apply Hdelim; discriminate].
  - destruct (delimiting (LLlv digits) && len_fits (LLlv digits) (blen pl) && tag_ok_b tag) eqn:Ed; [|discriminate].
    destruct (framed_enc (LLlv digits) false tag pl) as [g0| | |] eqn:Ef; try discriminate. injection H as <-.
    eapply struct_delim_case; [exact Ed|exact Ef|exact Henc|apply Hdelim; discriminate].
  - destruct (delimiting LAdpu && len_fits LAdpu (blen pl) && tag_ok_b tag) eqn:Ed; [|discriminate].
    destruct (framed_enc LAdpu false tag pl) as [g0| | |] eqn:Ef; try discriminate. injection H as <-.
    eapply struct_delim_case; [exact Ed|exact Ef|exact Henc|apply Hdelim; discriminate].
  - cbn [delimiting andb] in H. discriminate.
Qed.

(* ---------- every type ---------- *)

Theorem canon_sound : forall n t, (depth t <= n)%nat -> sound_at t.
Proof.
  induction n as [|n IH]; intros t Hd; [pose proof (depth_pos t); lia|].
  destruct t as [p|u|u|fs].
  - intros ls e tag v ctx g H. cbn [canon] in H. apply canon_prim_sound in H. apply H.
  - apply opt_sound. apply IH. rewrite depth_opt in Hd. lia.
  - apply vec_sound. apply IH. rewrite depth_vec in Hd. lia.
  - apply struct_sound. intros f Hf. apply IH. pose proof (depth_field_lt f fs Hf). lia.
Qed.

Corollary canon_exact ls e t tag v ctx g : canon ls e t tag v ctx = Some g -> field_exact ls e t tag v ctx g.
Proof. apply (canon_sound (depth t) t (le_n _)). Qed.

(* ---------- whole packets ---------- *)

Lemma canon_struct_payload fs v g : canon_struct fs v = Some g ->
  exists vs, v = VRec vs /\ enc_fields fs vs = Ok g /\
    forall fuel, (depth_fields fs <= S fuel)%nat -> dec_struct_with (dec fuel) fs g = Ok (v, []).
Proof.
  unfold canon_struct. intros H. destruct v as [| | | | | | |vs]; try discriminate. exists vs. split; [reflexivity|].
  rewrite canon_struct_unfold in H. cbn [struct_tail] in H.
  destruct (canon_fields (Some []) (tagged_allowed (Some [])) fs vs false) as [pl|] eqn:Ec; [|discriminate].
  destruct (nodup_b (tags_of fs)) eqn:End; [|discriminate]. injection H as <-.
  destruct (struct_payload_exact fs vs (Some []) pl (fun f _ => canon_sound _ _ (le_n _)) Ec End) as [Henc Hdec].
  split; [exact Henc|]. intros fuel Hf. specialize (Hdec fuel [] (fields_depth fs fuel Hf) eq_refl).
  rewrite app_nil_r in Hdec. exact Hdec.
Qed.

(* structs without a control field (TLV containers used on their own) *)
Theorem canon_struct_roundtrip fs v g : canon_struct fs v = Some g ->
  enc_struct fs v = Ok g /\
  forall fuel, (depth_fields fs <= S fuel)%nat -> dec_plain fuel fs g = Ok (v, []).
Proof.
  intros H. destruct (canon_struct_payload fs v g H) as [vs [-> [Henc Hdec]]]. split.
  - unfold enc_struct. rewrite enc_struct_unfold, Henc. reflexivity.
  - intros fuel Hf. unfold dec_plain, dec_struct.
    pose proof (framed_empty_exact None (dec_struct_with (dec fuel) fs) g (VRec vs) [] I) as T.
    cbn [app] in T. rewrite !app_nil_r in T. apply T. apply Hdec. exact Hf.
Qed.

(* commands: class, instruction, APDU length, body — and whatever follows the APDU is handed back *)
Theorem canon_cmd_roundtrip c v b : canon_cmd c v = Some b ->
  enc_cmd c v = Ok b /\
  forall fuel r, (depth_fields (c_fields c) <= S fuel)%nat -> dec_cmd fuel c (b ++ r) = Ok (v, r).
Proof.
  unfold canon_cmd. destruct (canon_struct (c_fields c) v) as [pl|] eqn:Ec; [|discriminate].
  destruct ((blen pl <=? 65535) && (cf c <? 65536)) eqn:El; [|discriminate].
  destruct (framed_enc LAdpu true (Some (cf c)) pl) as [g| | |] eqn:Ef; try discriminate. intros [= <-].
  apply andb_prop in El. destruct El as [E1 E2].
  destruct (canon_struct_payload _ v pl Ec) as [vs [-> [Henc Hdec]]]. split.
  - unfold enc_cmd, enc_struct. rewrite enc_struct_unfold, Henc. cbn [bind]. unfold framed_enc at 1. cbn [len_ser bind app]. exact Ef.
  - intros fuel r Hf. unfold dec_cmd, dec_struct.
    destruct (framed_roundtrip LAdpu true (Some (cf c)) (dec_struct_with (dec fuel) (c_fields c)) pl (VRec vs) r eq_refl) as [g' [Hg' Hr]].
    + cbn [len_fits]. exact E1.
    + cbn [tag_ok]. lia.
    + apply Hdec. exact Hf.
    + rewrite Ef in Hg'. injection Hg' as <-. exact Hr.
Qed.

(* ---------- the class is large: whole families of leaf values are inside it ---------- *)

Definition is_flat (v : value) : Prop :=
  match v with VInt _ | VStr _ | VBytes _ | VDate _ _ _ _ _ _ => True | _ => False end.

Lemma flat_eqb_refl v : is_flat v -> flat_eqb v v = true.
Proof.
  destruct v; cbn; try contradiction; intros _.
  - apply N.eqb_refl.
  - apply list_eqb_refl.
  - apply list_eqb_refl.
  - rewrite Z.eqb_refl, !N.eqb_refl. reflexivity.
Qed.
Lemma ok_is_intro x v r : is_flat v -> x = Ok (v, r) -> ok_is x v r = true.
Proof. intros Hf ->. unfold ok_is. rewrite (flat_eqb_refl v Hf), list_eqb_refl. reflexivity. Qed.

Lemma tag_repr_b_complete t : tag_repr t -> tag_repr_b t = true.
Proof. unfold tag_repr, tag_repr_b. intros H. lia. Qed.

(* any payload that reads back alone, behind any delimiting length it fits, under any representable tag *)
Lemma canon_prim_of_payload ls e p tag v pl ctx :
  delimiting ls = true -> len_fits ls (blen pl) = true -> tag_ok_b tag = true ->
  payload_ok e p v pl -> bytes_empty p v = false -> is_flat v ->
  exists g, canon_prim ls e p tag v ctx = Some g.
Proof.
  intros Hd Hf Ht [He Hdec] Hb Hflat. unfold canon_prim. rewrite Hb, He.
  destruct (len_roundtrip ls pl [] Hd Hf) as [l [Hs _]]. rewrite (framed_enc_p_fit ls p tag pl Hf). unfold framed_enc. rewrite Hs. cbn [bind].
  rewrite Ht, Hd, Hf, (ok_is_intro _ v [] Hflat Hdec). cbn [andb orb]. eexists. reflexivity.
Qed.

(* binary integers of every width: every value of the width *)
Lemma class_int (big : bool) ls w tag n ctx : delimiting ls = true -> len_fits ls w = true -> tag_ok_b tag = true ->
  n < 256 ^ w ->
  exists g, canon ls (if big then EBigEndian else EDefault) (TPrim (PInt w)) tag (VInt n) ctx = Some g.
Proof.
  intros Hd Hf Ht Hn. destruct (payload_int big w n Hn) as [Hp Hl]. cbn [canon].
  apply (canon_prim_of_payload ls _ (PInt w) tag (VInt n) (int_enc big w n) ctx Hd); try assumption; try exact I; try reflexivity.
  rewrite Hl. exact Hf.
Qed.

(* the same without any length (BMPs like 0x19 / 0x27, positional bytes) *)
Lemma class_int_nolen (big : bool) w tag n ctx : tag_ok_b tag = true -> n < 256 ^ w ->
  exists g, canon LEmpty (if big then EBigEndian else EDefault) (TPrim (PInt w)) tag (VInt n) ctx = Some g.
Proof.
  intros Ht Hn. cbn [canon]. unfold canon_prim. cbn [bytes_empty].
  destruct big; cbn [prim_enc framed_enc_p framed_enc len_ser bind]; rewrite Ht; cbn [andb delimiting int_strict orb];
    (destruct (n <? 256 ^ w) eqn:E; [|lia]); cbn [orb]; eexists; reflexivity.
Qed.

(* decimal numbers behind a fixed width: every number of at most 2k digits that the integer type holds *)
Lemma class_bcd_fixed k w tag n ctx : tag_ok_b tag = true -> n < 100 ^ k -> n < 2 ^ (8 * w) -> n < 2 ^ 64 ->
  exists g, canon (LFixed k) EBcd (TPrim (PInt w)) tag (VInt n) ctx = Some g.
Proof.
  intros Ht Hk Hw H64. cbn [canon]. unfold canon_prim. cbn [bytes_empty prim_enc].
  destruct (bcd_roundtrip w n Hw H64) as [pl [He _]]. rewrite He.
  pose proof (bcd_enc_len n k pl H64 Hk He) as Hl.
  unfold framed_enc_p, framed_enc. cbn [len_ser]. destruct (blen pl <=? k) eqn:E; [|lia]. cbn [bind]. rewrite Ht. cbn [andb bcd_fixed].
  destruct (n <? 100 ^ k) eqn:E1; [|lia]. destruct (n <? 2 ^ (8 * w)) eqn:E2; [|lia]. destruct (n <? 2 ^ 64) eqn:E3; [|lia].
  cbn [andb]. rewrite !Bool.orb_true_r. cbn [orb]. eexists. reflexivity.
Qed.

(* CP437 text that does not end in NUL, behind LLVAR / LLLVAR / TLV *)
Lemma class_cp437 ls tag s pl ctx : delimiting ls = true -> len_fits ls (blen pl) = true -> tag_ok_b tag = true ->
  cp437_enc s = Ok pl -> (forall q x, s = q ++ [x] -> x <> 0) ->
  exists g, canon ls EDefault (TPrim PString) tag (VStr s) ctx = Some g.
Proof.
  intros Hd Hf Ht He Hl. cbn [canon].
  apply (canon_prim_of_payload ls EDefault PString tag (VStr s) pl ctx Hd Hf Ht); [apply payload_cp437; assumption|reflexivity|exact I].
Qed.

(* CP437 text that does not end in NUL, SHORTER than (or as long as) its fixed-width field: padded behind, trimmed on reading
   (in the class since the fix of F9; before, the padding went in front and came back as part of the text) *)
Lemma trim_nul_rev_zeros n l : trim_nul_rev (repeat 0 n ++ l) = trim_nul_rev l.
Proof. induction n as [|n IH]; [reflexivity|]. cbn [repeat app trim_nul_rev]. exact IH. Qed.

Lemma cp437_dec_padded pl n : cp437_of_byte 0 = 0 -> cp437_dec (pl ++ zeros n) = cp437_dec pl.
Proof.
  intros H0. unfold cp437_dec, trim_nul, zeros. rewrite map_app, rev_app_distr.
  assert (E : forall m, rev (repeat 0 m) = repeat 0 m).
  { intros m. induction m as [|m IH]; [reflexivity|]. cbn [repeat rev]. rewrite IH. clear IH.
    induction m as [|m IH]; [reflexivity|]. cbn [repeat app]. rewrite IH. reflexivity. }
  assert (M : forall m, map cp437_of_byte (repeat 0 m) = repeat 0 m).
  { intros m. induction m as [|m IH]; [reflexivity|]. cbn [repeat map]. rewrite H0, IH. reflexivity. }
  assert (R : rev (map cp437_of_byte (repeat 0 (N.to_nat n))) = repeat 0 (N.to_nat n)) by (rewrite M; apply E).
  rewrite R, trim_nul_rev_zeros. reflexivity.
Qed.

Lemma class_cp437_fixed k tag s pl ctx : tag_ok_b tag = true ->
  cp437_enc s = Ok pl -> (forall q x, s = q ++ [x] -> x <> 0) -> blen pl <= k ->
  exists g, canon (LFixed k) EDefault (TPrim PString) tag (VStr s) ctx = Some g.
Proof.
  intros Ht He Hz Hl. cbn [canon]. unfold canon_prim. cbn [bytes_empty prim_enc]. rewrite He.
  unfold framed_enc_p. destruct (blen pl <=? k) eqn:E; [|lia]. rewrite Ht. cbn [andb].
  assert (P : ok_is (prim_dec EDefault PString (pad_payload PString k pl)) (VStr s) [] = true).
  { unfold pad_payload. cbn [prim_dec]. rewrite cp437_dec_padded by reflexivity.
    rewrite (cp437_str_roundtrip s pl He Hz). cbn [ok_is flat_eqb]. rewrite list_eqb_refl. reflexivity. }
  rewrite P. rewrite !Bool.orb_true_r. cbn [orb]. eexists. reflexivity.
Qed.

(* lower-case hex text of even length *)
Lemma class_hex ls tag n s ctx : delimiting ls = true -> len_fits ls (N.of_nat n) = true -> tag_ok_b tag = true ->
  length s = (2 * n)%nat -> Forall lower_hex s ->
  exists g, canon ls EHex (TPrim PString) tag (VStr s) ctx = Some g.
Proof.
  intros Hd Hf Ht Hlen Hs. destruct (payload_hex n s Hlen Hs) as [pl [Hp Hl]]. cbn [canon].
  apply (canon_prim_of_payload ls EHex PString tag (VStr s) pl ctx Hd); try assumption; try exact I; try reflexivity.
  unfold blen. rewrite Hl. exact Hf.
Qed.

(* absent / present optionals and repeated fields inherit membership *)
Lemma class_opt_some ls e u tag x ctx g : canon ls e u tag x ctx = Some g -> g <> [] ->
  canon ls e (TOpt u) tag (VSome x) ctx = Some g.
Proof. intros H Hne. cbn [canon]. rewrite H. destruct g; [congruence|reflexivity]. Qed.
Lemma class_opt_none_tagged ls e u tg ctx : canon ls e (TOpt u) (Some tg) VNone ctx = Some [].
Proof. reflexivity. Qed.

(* ================================================================== C13 for the class: any order of the tagged groups *)

Theorem canon_anyorder_sound fs v pl : canon_anyorder fs v = Some pl ->
  exists vs (pos : bytes) (gs : list group), v = VRec vs /\ pl = pos ++ gbytes gs /\ enc_struct fs v = Ok pl /\
    forall gs', Permutation gs gs' -> forall fuel, (depth_fields fs <= S fuel)%nat ->
      dec_struct_with (dec fuel) fs (pos ++ gbytes gs') = Ok (v, []).
Proof.
  unfold canon_anyorder. destruct v as [| | | | | | |vs]; try discriminate.
  destruct (nodup_b (tags_of fs)) eqn:End; [|discriminate]. intros H.
  destruct (canon_fields_pos fs vs None true pl (fun f _ => canon_sound _ _ (le_n _)) H)
    as [ps [ts [Hfs [Hvs [Hpl [Hup [Htg [Hal [Henc [[Hpres Habs] Hpos]]]]]]]]]].
  exists vs, (concat (map snd ps)), (groups_from (length (map (fun x : field * value * bytes => fst (fst x)) ps)) ts).
  split; [reflexivity|]. split; [rewrite gbytes_groups_from; exact Hpl|].
  split; [unfold enc_struct; rewrite enc_struct_unfold, Henc; reflexivity|].
  intros gs' HP fuel Hf. pose proof (fields_depth fs fuel Hf) as Hdep.
  pose proof (dec_struct_slots_perm (dec fuel) ps ts [] gs') as T. cbv zeta in T.
  rewrite <- Hfs, <- Hvs, !app_nil_r in T. apply T; clear T.
  - exact Hup.
  - exact Htg.
  - apply nodup_b_ok in End. rewrite Hfs, tags_of_app, (tags_of_untagged _ Hup) in End. exact End.
  - unfold tail_ok. cbn. exact I.
  - exact HP.
  - apply Hpos; [exact Hdep|exact I].
  - intros k f v g Hn. apply nth_error_In in Hn. destruct (Hpres f v g Hn) as [nm [t [ls [e [ty [Ef [Hst Hd]]]]]]].
    exists nm, t, ls, e, ty. split; [exact Ef|]. split; [exact Hst|]. intros r Hr. apply Hd; [|intros _; exact Hr].
    subst f. apply (Hdep (Fld nm (Some t) ls e ty)). rewrite Hfs. apply in_or_app. right.
    apply in_map_iff. exists (Fld nm (Some t) ls e ty, v, Some g). split; [reflexivity|exact Hn].
  - exact Habs.
Qed.

Lemma gbytes_perm_len gs gs' : Permutation gs gs' -> blen (gbytes gs) = blen (gbytes gs').
Proof.
  intros HP. induction HP as [|g l l' HP IH|a b l|l1 l2 l3 H1 IH1 H2 IH2]; [reflexivity| | |congruence].
  - unfold gbytes in *. cbn [map concat]. rewrite !blen_app, IH. reflexivity.
  - unfold gbytes. cbn [map concat]. rewrite !blen_app. lia.
Qed.

(* ---------- C13 for the class: a duplicated tagged group is rejected, naming its tag ---------- *)
(* layouts without a repeated tagged field: every tagged group is decodable whatever follows it (a repeated field is the one
   case where a second occurrence of the tag is more elements, not a duplicate) *)
Definition no_tagged_vec (fs : list field) : bool :=
  forallb (fun f => match f_tag f with Some _ => negb (needs_next (f_ty f)) | None => true end) fs.

Theorem canon_duplicate_rejected fs v pl : canon_anyorder fs v = Some pl -> no_tagged_vec fs = true ->
  exists vs (pos : bytes) (gs : list group), v = VRec vs /\ pl = pos ++ gbytes gs /\
    forall d after fuel, In d gs -> (depth_fields fs <= S fuel)%nat ->
      dec_struct_with (dec fuel) fs (pos ++ gbytes gs ++ g_bytes d ++ after) = Err (DuplicateTag (g_tag d)).
Proof.
  unfold canon_anyorder. destruct v as [| | | | | | |vs]; try discriminate.
  destruct (nodup_b (tags_of fs)) eqn:End; [|discriminate]. intros H Hnv.
  destruct (canon_fields_pos fs vs None true pl (fun f _ => canon_sound _ _ (le_n _)) H)
    as [ps [ts [Hfs [Hvs [Hpl [Hup [Htg [Hal [Henc [[Hpres Habs] Hpos]]]]]]]]]].
  set (pfs := map (fun x : field * value * bytes => fst (fst x)) ps) in *.
  set (tfs := map (fun s : tslot => fst (fst s)) ts) in *.
  exists vs, (concat (map snd ps)), (groups_from (length pfs) ts).
  split; [reflexivity|]. split; [rewrite gbytes_groups_from; exact Hpl|].
  intros d after fuel Hin Hf. pose proof (fields_depth fs fuel Hf) as Hdep.
  assert (Hnd : NoDup (tags_of tfs)).
  { apply nodup_b_ok in End. rewrite Hfs, tags_of_app, (tags_of_untagged _ Hup) in End. exact End. }
  assert (HpresN : forall k f v g, nth_error ts k = Some (f, v, Some g) ->
            exists nm t ls e ty, f = Fld nm (Some t) ls e ty /\
              (forall r, exists rest, tag_dec false (g ++ r) = Ok (t, rest)) /\
              (forall r, next_ok t r -> dec fuel ls e ty (Some t) (g ++ r) = Ok (v, r))).
  { intros k f v g Hn. apply nth_error_In in Hn. destruct (Hpres f v g Hn) as [nm [t [ls [e [ty [Ef [Hst Hd]]]]]]].
    exists nm, t, ls, e, ty. split; [exact Ef|]. split; [exact Hst|]. intros r Hr. apply Hd; [|intros _; exact Hr].
    subst f. apply (Hdep (Fld nm (Some t) ls e ty)). rewrite Hfs. apply in_or_app. right.
    apply in_map_iff. exists (Fld nm (Some t) ls e ty, v, Some g). split; [reflexivity|exact Hn]. }
  assert (HpresS : forall k f v g, nth_error ts k = Some (f, v, Some g) ->
            exists nm t ls e ty, f = Fld nm (Some t) ls e ty /\
              (forall r, exists rest, tag_dec false (g ++ r) = Ok (t, rest)) /\
              (forall r, dec fuel ls e ty (Some t) (g ++ r) = Ok (v, r))).
  { intros k f v g Hn. apply nth_error_In in Hn. destruct (Hpres f v g Hn) as [nm [t [ls [e [ty [Ef [Hst Hd]]]]]]].
    exists nm, t, ls, e, ty. split; [exact Ef|]. split; [exact Hst|]. intros r.
    assert (Hinf : In f fs).
    { rewrite Hfs. apply in_or_app. right. apply in_map_iff. exists (f, v, Some g). split; [reflexivity|exact Hn]. }
    assert (Hnn : needs_next ty = false).
    { unfold no_tagged_vec in Hnv. rewrite forallb_forall in Hnv. specialize (Hnv f Hinf). subst f. cbn [f_tag f_ty] in Hnv.
      destruct (needs_next ty); [discriminate|reflexivity]. }
    apply Hd; [|rewrite Hnn; discriminate].
    subst f. apply (Hdep _ Hinf). }
  destruct (slots_facts (dec fuel) ps ts Hup Htg Hnd HpresN Habs) as [Hu [_ [Hnt _]]].
  pose proof (slots_groups_strict (dec fuel) ps ts Hup Hnd HpresS) as Hstrict.
  fold pfs tfs in Hu, Hnt, Hstrict. rewrite Hfs.
  apply (duplicate_rejected (dec fuel) (pfs ++ tfs) ps (groups_from (length pfs) ts) d after).
  - exact Hu.
  - apply Hpos; [exact Hdep|exact I].
  - exact Hstrict.
  - exact Hnt.
  - rewrite Forall_forall in Hstrict. apply Hstrict. exact Hin.
  - apply in_map. exact Hin.
Qed.

(* ---------- C13 for the class: removing tagged groups — every missing mandatory tag is named ---------- *)
Lemma NoDup_map_filter {A B} (f : A -> B) (p : A -> bool) l : NoDup (map f l) -> NoDup (map f (filter p l)).
Proof.
  induction l as [|x l IH]; intros H; [constructor|]. cbn [map] in H. inversion H as [|? ? Hn Hd]; subst. cbn [filter].
  destruct (p x); [|apply IH; exact Hd]. cbn [map]. constructor; [|apply IH; exact Hd].
  intros Hin. apply Hn. apply in_map_iff in Hin. destruct Hin as [y [E Hy]]. apply filter_In in Hy. destruct Hy as [Hy _].
  rewrite <- E. apply in_map. exact Hy.
Qed.

Theorem canon_missing_named fs v pl : canon_anyorder fs v = Some pl ->
  exists vs (pos : bytes) (gs : list group), v = VRec vs /\ pl = pos ++ gbytes gs /\
    forall (keep : group -> bool) fuel, (depth_fields fs <= S fuel)%nat ->
      let gs' := filter keep gs in
      let missing := filter (fun t => negb (existsb (N.eqb t) (map g_tag gs'))) (required_tags fs) in
      missing <> [] ->
      dec_struct_with (dec fuel) fs (pos ++ gbytes gs') = Err (MissingRequiredTags (sort_N (dedup missing))).
Proof.
  unfold canon_anyorder. destruct v as [| | | | | | |vs]; try discriminate.
  destruct (nodup_b (tags_of fs)) eqn:End; [|discriminate]. intros H.
  destruct (canon_fields_pos fs vs None true pl (fun f _ => canon_sound _ _ (le_n _)) H)
    as [ps [ts [Hfs [Hvs [Hpl [Hup [Htg [Hal [Henc [[Hpres Habs] Hpos]]]]]]]]]].
  set (pfs := map (fun x : field * value * bytes => fst (fst x)) ps) in *.
  set (tfs := map (fun s : tslot => fst (fst s)) ts) in *.
  exists vs, (concat (map snd ps)), (groups_from (length pfs) ts).
  split; [reflexivity|]. split; [rewrite gbytes_groups_from; exact Hpl|].
  intros keep fuel Hf Hm. set (gs' := filter keep (groups_from (length pfs) ts)) in *. pose proof (fields_depth fs fuel Hf) as Hdep.
  assert (Hnd : NoDup (tags_of tfs)).
  { apply nodup_b_ok in End. rewrite Hfs, tags_of_app, (tags_of_untagged _ Hup) in End. exact End. }
  assert (HpresN : forall k f v g, nth_error ts k = Some (f, v, Some g) ->
            exists nm t ls e ty, f = Fld nm (Some t) ls e ty /\
              (forall r, exists rest, tag_dec false (g ++ r) = Ok (t, rest)) /\
              (forall r, next_ok t r -> dec fuel ls e ty (Some t) (g ++ r) = Ok (v, r))).
  { intros k f v g Hn. apply nth_error_In in Hn. destruct (Hpres f v g Hn) as [nm [t [ls [e [ty [Ef [Hst Hd]]]]]]].
    exists nm, t, ls, e, ty. split; [exact Ef|]. split; [exact Hst|]. intros r Hr. apply Hd; [|intros _; exact Hr].
    subst f. apply (Hdep (Fld nm (Some t) ls e ty)). rewrite Hfs. apply in_or_app. right.
    apply in_map_iff. exists (Fld nm (Some t) ls e ty, v, Some g). split; [reflexivity|exact Hn]. }
  destruct (slots_facts (dec fuel) ps ts Hup Htg Hnd HpresN Habs) as [Hu [Hok [Hnt _]]].
  fold pfs tfs in Hu, Hok, Hnt.
  pose proof (missing_all_named (dec fuel) (pfs ++ tfs) ps gs' []) as T. cbv zeta in T.
  rewrite !app_nil_r in T. rewrite Hfs. apply T.
  - exact Hu.
  - apply Hpos; [exact Hdep|exact I].
  - unfold gs'. rewrite Forall_forall in *. intros g Hg. apply filter_In in Hg. apply Hok. apply Hg.
  - unfold gs'. apply NoDup_map_filter. exact Hnt.
  - unfold tail_ok. cbn. exact I.
  - rewrite <- Hfs. exact Hm.
Qed.

(* the same inside the APDU of a command: class, instruction and length are those of the in-order encoding *)
Theorem canon_cmd_anyorder c v pl b : canon_anyorder (c_fields c) v = Some pl ->
  blen pl <= 65535 -> cf c < 65536 -> framed_enc LAdpu true (Some (cf c)) pl = Ok b ->
  enc_cmd c v = Ok b /\
  exists (pos : bytes) (gs : list group), pl = pos ++ gbytes gs /\
    forall gs', Permutation gs gs' ->
      exists b', framed_enc LAdpu true (Some (cf c)) (pos ++ gbytes gs') = Ok b' /\ blen b' = blen b /\
        forall fuel r, (depth_fields (c_fields c) <= S fuel)%nat -> dec_cmd fuel c (b' ++ r) = Ok (v, r).
Proof.
  intros H Hl Hcf Hb. destruct (canon_anyorder_sound _ v pl H) as [vs [pos [gs [-> [Hpl [Henc Hdec]]]]]].
  split; [unfold enc_cmd; rewrite Henc; cbn [bind]; exact Hb|].
  exists pos, gs. split; [exact Hpl|]. intros gs' HP.
  assert (Hlen : blen (pos ++ gbytes gs') = blen pl) by (rewrite Hpl, !blen_app, (gbytes_perm_len gs gs' HP); reflexivity).
  assert (E : exists b', framed_enc LAdpu true (Some (cf c)) (pos ++ gbytes gs') = Ok b').
  { unfold framed_enc, len_ser. destruct (_ <? 255); eexists; reflexivity. }
  destruct E as [b' Hb']. exists b'. split; [exact Hb'|]. split.
  - unfold framed_enc in Hb, Hb'. rewrite Hlen in Hb'. destruct (len_ser LAdpu (blen pl)) as [l| | |]; cbn [bind] in *; try discriminate.
    injection Hb as <-. injection Hb' as <-. rewrite !blen_cons, (blen_app l (pos ++ gbytes gs')), (blen_app l pl), Hlen. reflexivity.
  - intros fuel r Hf. unfold dec_cmd, dec_struct.
    destruct (framed_roundtrip LAdpu true (Some (cf c)) (dec_struct_with (dec fuel) (c_fields c)) (pos ++ gbytes gs') (VRec vs) r eq_refl) as [b2 [Hb2 Hr]];
      [cbn [len_fits]; lia|cbn [tag_ok]; lia|apply Hdec; assumption|].
    rewrite Hb' in Hb2. injection Hb2 as <-. exact Hr.
Qed.

(* ---------- UTF-8 text and date-times are inside the class as whole families too ---------- *)

Lemma class_utf8 ls tag s ctx : delimiting ls = true -> tag_ok_b tag = true -> forallb scalar_ok s = true ->
  (forall bs, utf8_enc s = Ok bs -> len_fits ls (blen bs) = true) ->
  exists g, canon ls EUtf8 (TPrim PString) tag (VStr s) ctx = Some g.
Proof.
  intros Hd Ht Hs Hf. destruct (utf8_roundtrip s Hs) as [bs [He Hdec]]. cbn [canon].
  apply (canon_prim_of_payload ls EUtf8 PString tag (VStr s) bs ctx Hd (Hf bs He) Ht); [|reflexivity|exact I].
  split; cbn [prim_enc prim_dec]; [exact He|rewrite Hdec; reflexivity].
Qed.

Lemma class_datetime tag (y : Z) mo d h mi s ctx : tag_ok_b tag = true ->
  (0 <= y)%Z -> ymd_ok y mo d = true -> hms_ok h mi s = true ->
  exists g, canon LTlv EDefault (TPrim PDateTime) tag (VDate y mo d h mi s) ctx = Some g.
Proof.
  intros Ht Hy Hd Hh. destruct (datetime_roundtrip y mo d h mi s Hy Hd Hh) as [bs [He [Hdec Hl]]]. cbn [canon].
  apply (canon_prim_of_payload LTlv EDefault PDateTime tag (VDate y mo d h mi s) bs ctx eq_refl); [cbn [len_fits]; lia|exact Ht| |reflexivity|exact I].
  split; cbn [prim_enc prim_dec]; [exact He|exact Hdec].
Qed.

(* ---------- the receipt-number field of partial reversals: every receipt number 0..9999 and the 0xFFFF sentinel ---------- *)

Lemma class_receipt_no tag n ctx : tag_ok_b tag = true -> n < 10000 \/ n = 65535 ->
  exists g, canon (LFixed 2) EReceiptNo (TPrim (PInt 8)) tag (VInt n) ctx = Some g.
Proof.
  intros Ht Hn. cbn [canon]. unfold canon_prim. cbn [bytes_empty prim_enc].
  destruct Hn as [Hn| ->].
  2:{ change (65535 =? 65535) with true. cbn iota. unfold framed_enc_p, framed_enc. cbn [len_ser blen length]. cbn [N.of_nat]. 
      change (N.of_nat 2 <=? 2) with true. cbn [bind]. rewrite Ht. cbn [andb delimiting len_fits].
      change (blen [255; 255]) with 2. rewrite N.eqb_refl. cbn [andb]. cbn [prim_dec]. change ((255 =? 255) && (255 =? 255)) with true. cbn iota.
      cbn [ok_is flat_eqb]. rewrite N.eqb_refl. cbn [list_eqb andb orb]. eexists. reflexivity. }
  destruct (n =? 65535) eqn:E; [lia|].
  destruct (bcd_roundtrip 8 n) as [pl [He [Hdig [_ [_ [_ Hdec]]]]]]; [cbn; lia|cbn; lia|]. rewrite He.
  pose proof (bcd_enc_len n 2 pl ltac:(cbn; lia) ltac:(cbn; lia) He) as Hl.
  unfold framed_enc_p, framed_enc, pad_payload. cbn [len_ser]. destruct (blen pl <=? 2) eqn:E2; [|lia]. cbn [bind]. rewrite Ht. cbn [andb].
  (* the padded payload is two digit bytes: never FF FF, and it reads back as n *)
  assert (P : ok_is (prim_dec EReceiptNo (PInt 8) (zeros (2 - blen pl) ++ pl)) (VInt n) [] = true).
  { assert (D : bcd_dec 8 (zeros (2 - blen pl) ++ pl) = Ok (n, [])) by (rewrite bcd_dec_padded; exact Hdec).
    assert (L2 : blen (zeros (2 - blen pl) ++ pl) = 2) by (rewrite blen_app, blen_zeros; lia).
    assert (Dg : Forall digit_byte (zeros (2 - blen pl) ++ pl)).
    { apply Forall_app. split; [|exact Hdig]. unfold zeros. apply Forall_forall. intros x Hx. apply repeat_spec in Hx. subst x. unfold digit_byte. cbn. lia. }
    destruct (zeros (2 - blen pl) ++ pl) as [|b0 [|b1 [|b2 r]]] eqn:Ez; unfold blen in L2; cbn [length] in L2; try lia.
    cbn [prim_dec]. inversion Dg as [|? ? D0 Dg1]; subst. inversion Dg1 as [|? ? D1 _]; subst.
    assert (N0 : (b0 =? 255) && (b1 =? 255) = false) by (unfold digit_byte in D0, D1; lia). rewrite N0, D. cbn [bind ok_is flat_eqb].
    rewrite N.eqb_refl. reflexivity. }
  cbn [andb]. rewrite P. rewrite !Bool.orb_true_r. cbn [orb]. eexists. reflexivity.
Qed.

(* ================================================================== replies: what is serialised as variant k is parsed as variant k *)
From Zvt Require Import EnumProps.

Theorem reply_roundtrip fuel vs k nm c v b :
  nodup_cf (map v_cf vs) = true -> nth_error vs k = Some (nm, c) ->
  c_class c < 256 -> c_instr c < 256 -> (depth_fields (c_fields c) <= S fuel)%nat ->
  canon_cmd c v = Some b ->
  enc_cmd c v = Ok b /\ parse_enum fuel vs b = Ok (N.of_nat k, v).
Proof.
  intros Hnd Hk Hc Hi Hf Hcan. destruct (canon_cmd_roundtrip c v b Hcan) as [Henc Hdec]. split; [exact Henc|].
  specialize (Hdec fuel [] Hf). rewrite app_nil_r in Hdec.
  (* the first two bytes are the class and the instruction *)
  assert (Hb : exists rest, b = c_class c :: c_instr c :: rest).
  { unfold canon_cmd in Hcan. destruct (canon_struct (c_fields c) v) as [pl|]; [|discriminate].
    destruct ((blen pl <=? 65535) && (cf c <? 65536)); [|discriminate].
    unfold framed_enc in Hcan. destruct (len_ser LAdpu (blen pl)) as [l| | |]; cbn [bind] in Hcan; try discriminate.
    injection Hcan as <-. unfold tag_enc, cf. cbn [app].
    replace ((c_class c * 256 + c_instr c) / 256 mod 256) with (c_class c) by lia.
    replace ((c_class c * 256 + c_instr c) mod 256) with (c_instr c) by lia. eexists. reflexivity. }
  destruct Hb as [rest ->].
  rewrite (dispatch_complete fuel vs (c_class c) (c_instr c) rest k nm c Hnd Hk eq_refl eq_refl), Hdec. reflexivity.
Qed.

(* ================================================================== end to end over the byte stream *)
From Zvt Require Import Transport TransportProps.

(* what write_packet puts on the stream for a value of the class, followed by ANYTHING, is read by read_packet as exactly one
   packet — this variant, this content — and everything behind it is left in the stream *)
Theorem stream_roundtrip fuel vs k nm c v b rest :
  nodup_cf (map v_cf vs) = true -> nth_error vs k = Some (nm, c) ->
  c_class c < 256 -> c_instr c < 256 -> (depth_fields (c_fields c) <= S fuel)%nat ->
  canon_cmd c v = Some b ->
  read_packet fuel vs (b ++ rest) = Some (Ok (N.of_nat k, v), rest).
Proof.
  intros Hnd Hk Hc Hi Hf Hcan.
  destruct (reply_roundtrip fuel vs k nm c v b Hnd Hk Hc Hi Hf Hcan) as [_ Hp].
  assert (Hb : exists body, blen body <= 65535 /\ b = frame_of (c_class c) (c_instr c) body).
  { unfold canon_cmd in Hcan. destruct (canon_struct (c_fields c) v) as [pl|]; [|discriminate].
    destruct ((blen pl <=? 65535) && (cf c <? 65536)) eqn:E; [|discriminate]. apply andb_prop in E. destruct E as [E1 E2].
    exists pl. split; [lia|]. unfold framed_enc in Hcan. cbn [len_ser bind] in Hcan.
    unfold frame_of. destruct (blen pl <? 255) eqn:E3; cbn [bind] in Hcan; injection Hcan as <-; unfold tag_enc, cf; cbn [app].
    - replace ((c_class c * 256 + c_instr c) / 256 mod 256) with (c_class c) by lia.
      replace ((c_class c * 256 + c_instr c) mod 256) with (c_instr c) by lia. reflexivity.
    - replace ((c_class c * 256 + c_instr c) / 256 mod 256) with (c_class c) by lia.
      replace ((c_class c * 256 + c_instr c) mod 256) with (c_instr c) by lia.
      replace (blen pl mod 65536) with (blen pl) by lia. reflexivity. }
  destruct Hb as [body [Hl ->]]. unfold read_packet.
  destruct (header_agreement (c_class c) (c_instr c) body rest Hl) as [Hr _]. rewrite Hr, Hp. reflexivity.
Qed.
