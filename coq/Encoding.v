(* Encoding.v — mirrors zvt_builder/src/encoding.rs, the PartialReversalReceiptNo encoding of
   zvt/src/packets.rs, the Custom encoding of zvt/src/feig/packets/tlv.rs and
   ZvtSerializerImpl::{serialize_tagged, deserialize_tagged} of zvt_builder/src/lib.rs. *)
From Zvt Require Import Base Length Cp437.
Open Scope N_scope.

Inductive enc := EDefault | EBigEndian | EBcd | EHex | EUtf8 | ECustom | EReceiptNo.
(* PInt w: unsigned integer of w bytes (u8,u16,u32,u64; usize = 8) *)
Inductive prim := PInt (w : N) | PString | PDateTime | PBytes.

Inductive value :=
| VInt (n : N)
| VStr (s : list N)                         (* Rust String as its code points *)
| VBytes (b : bytes)                        (* Vec<u8> *)
| VDate (y : Z) (mo d h mi s : N)           (* chrono::NaiveDateTime, whole seconds *)
| VNone | VSome (v : value)                 (* Option<T> *)
| VList (l : list value)                    (* Vec<T> *)
| VRec (l : list value).                    (* struct: fields in declaration order *)

(* ---------- integers ---------- *)

Fixpoint le_bytes (k : nat) (n : N) : bytes :=
  match k with O => [] | S k => (n mod 256) :: le_bytes k (n / 256) end.
Fixpoint le_value (bs : bytes) : N :=
  match bs with [] => 0 | b :: r => b + 256 * le_value r end.
Definition be_bytes (k : nat) (n : N) : bytes := rev (le_bytes k n).
Definition be_value (bs : bytes) : N := le_value (rev bs).

Definition int_enc (big : bool) (w : N) (n : N) : bytes :=
  if big then be_bytes (N.to_nat w) n else le_bytes (N.to_nat w) n.
(* encode_integral!::decode *)
Definition int_dec (big : bool) (w : N) (bs : bytes) : res (N * bytes) :=
  if blen bs <? w then Err IncompleteData
  else Ok ((if big then be_value (take w bs) else le_value (take w bs)), drop w bs).

(* ---------- BCD ---------- *)

(* while k != 0 { curr = k%10; k/=10; curr |= (k%10)<<4; k/=10; rv.push(curr) } rv.reverse() *)
Fixpoint bcd_enc_loop (fuel : nat) (k : N) (acc : bytes) : res bytes :=
  if k =? 0 then Ok acc else
  match fuel with
  | O => OutOfFuel
  | S f => bcd_enc_loop f (k / 10 / 10) (((k / 10) mod 10) * 16 + k mod 10 :: acc)
  end.
Definition bcd_enc (n : N) : res bytes := bcd_enc_loop 40 n [].

(* for d in data { if low != 0xf { rv = rv*100 + high*10 + low } else { rv = rv*10 + high } },
   checked in the width of the target integer (after the fix of F2: overflow is IncompleteData) *)
Fixpoint bcd_dec_loop (w : N) (bs : bytes) (rv : N) : res N :=
  match bs with
  | [] => Ok rv
  | d :: r =>
      let hi := d / 16 in
      let lo := d mod 16 in
      let nv := if lo =? 15 then rv * 10 + hi else rv * 100 + hi * 10 + lo in
      if nv <? 2 ^ (8 * w) then bcd_dec_loop w r nv else Err IncompleteData
  end.
Definition bcd_dec (w : N) (bs : bytes) : res (N * bytes) :=
  let* v := bcd_dec_loop w bs 0 in Ok (v, []).

(* ---------- text ---------- *)

Fixpoint trim_nul_rev (s : list N) : list N :=
  match s with
  | 0 :: r => trim_nul_rev r
  | _ => s
  end.
Definition trim_nul (s : list N) : list N := rev (trim_nul_rev (rev s)).

Definition cp437_dec (bs : bytes) : list N := trim_nul (map cp437_of_byte bs).
Fixpoint cp437_enc (s : list N) : res bytes :=
  match s with
  | [] => Ok []
  | c :: r => match byte_of_cp437 c with
              | None => Panic                           (* CP437.encode(..).unwrap() *)
              | Some b => let* t := cp437_enc r in Ok (b :: t)
              end
  end.

Definition hex_digit (d : N) : N := if d <? 10 then 48 + d else 87 + d.      (* lower case *)
Fixpoint hex_of_bytes (bs : bytes) : list N :=
  match bs with [] => [] | b :: r => hex_digit (b / 16) :: hex_digit (b mod 16) :: hex_of_bytes r end.
Definition hex_val (c : N) : option N :=
  if (48 <=? c) && (c <=? 57) then Some (c - 48)
  else if (97 <=? c) && (c <=? 102) then Some (c - 87)
  else if (65 <=? c) && (c <=? 70) then Some (c - 55)
  else None.
(* Vec::from_hex(..).unwrap(): odd length or a non-hex character panics *)
Fixpoint bytes_of_hex (s : list N) : res bytes :=
  match s with
  | [] => Ok []
  | [_] => Panic
  | a :: b :: r =>
      match hex_val a, hex_val b with
      | Some x, Some y => let* t := bytes_of_hex r in Ok (x * 16 + y :: t)
      | _, _ => Panic
      end
  end.

(* UTF-8 as accepted by String::from_utf8 (Unicode table 3-7) *)
Definition cont (b : N) : bool := (128 <=? b) && (b <=? 191).
Definition in_range (lo hi b : N) : bool := (lo <=? b) && (b <=? hi).
Fixpoint utf8_dec (bs : bytes) : option (list N) :=
  match bs with
  | [] => Some []
  | b0 :: r0 =>
    if b0 <? 128 then option_map (cons b0) (utf8_dec r0)
    else match r0 with
    | [] => None
    | b1 :: r1 =>
      if in_range 194 223 b0 then
        if cont b1 then option_map (cons ((b0 - 192) * 64 + (b1 - 128))) (utf8_dec r1) else None
      else match r1 with
      | [] => None
      | b2 :: r2 =>
        if in_range 224 239 b0 then
          if (if b0 =? 224 then in_range 160 191 b1 else if b0 =? 237 then in_range 128 159 b1 else cont b1) && cont b2
          then option_map (cons ((b0 - 224) * 4096 + (b1 - 128) * 64 + (b2 - 128))) (utf8_dec r2) else None
        else match r2 with
        | [] => None
        | b3 :: r3 =>
          if in_range 240 244 b0 then
            if (if b0 =? 240 then in_range 144 191 b1 else if b0 =? 244 then in_range 128 143 b1 else cont b1)
               && cont b2 && cont b3
            then option_map (cons ((b0 - 240) * 262144 + (b1 - 128) * 4096 + (b2 - 128) * 64 + (b3 - 128)))
                            (utf8_dec r3)
            else None
          else None
        end
      end
    end
  end.

Definition scalar_ok (c : N) : bool := (c <? 55296) || ((57344 <=? c) && (c <? 1114112)).
Definition utf8_enc1 (c : N) : bytes :=
  if c <? 128 then [c]
  else if c <? 2048 then [192 + c / 64; 128 + c mod 64]
  else if c <? 65536 then [224 + c / 4096; 128 + (c / 64) mod 64; 128 + c mod 64]
  else [240 + c / 262144; 128 + (c / 4096) mod 64; 128 + (c / 64) mod 64; 128 + c mod 64].
Fixpoint utf8_enc (s : list N) : res bytes :=
  match s with
  | [] => Ok []
  | c :: r => if scalar_ok c then let* t := utf8_enc r in Ok (utf8_enc1 c ++ t) else Panic (* not a Rust String *)
  end.

(* ---------- tags ---------- *)

(* Encoding<Tag> for Default / BigEndian *)
Definition tag_enc (big : bool) (t : N) : bytes :=
  if big then [(t / 256) mod 256; t mod 256]
  else if (t / 256 =? 31) || (t / 256 =? 255) then [t / 256; t mod 256] else [t mod 256].
Definition tag_dec (big : bool) (bs : bytes) : res (N * bytes) :=
  if big then
    match bs with
    | b0 :: b1 :: r => Ok (b0 * 256 + b1, r)
    | _ => Err IncompleteData
    end
  else
    match bs with
    | [] => Err IncompleteData
    | b0 :: r =>
        if (b0 =? 31) || (b0 =? 255) then
          match r with
          | [] => Err IncompleteData
          | b1 :: r1 => Ok (b0 * 256 + b1, r1)
          end
        else Ok (b0, r)
    end.

(* ---------- <tag><length><data>: ZvtSerializerImpl::deserialize_tagged / serialize_tagged ---------- *)

Definition framed_dec {A} (ls : lenstyle) (big : bool) (tag : option N)
           (k : bytes -> res (A * bytes)) (bs : bytes) : res (A * bytes) :=
  let* bs1 := match tag with
              | None => Ok bs
              | Some t => let* (a, r) := tag_dec big bs in
                          if a =? t then Ok r else Err (WrongTag a)
              end in
  let* (len, payload) := len_de ls bs1 in
  if blen payload <? len then Err IncompleteData else
  let* (data, rem) := k (take len payload) in
  if blen rem <=? len then Ok (data, drop (len - blen rem) payload)
  else Panic.                                        (* length - remainder.len() underflows *)

Definition framed_enc (ls : lenstyle) (big : bool) (tag : option N) (payload : bytes) : res bytes :=
  let* l := len_ser ls (blen payload) in
  Ok ((match tag with None => [] | Some t => tag_enc big t end) ++ l ++ payload).

(* the serialize_tagged of a primitive.  Text (String has its own impl since the fix of F9) puts the padding of a padding
   length (Length::PADS: Fixed<N>) BEHIND the payload, where the decoder trims it; everything else as above *)
Definition framed_enc_p (ls : lenstyle) (p : prim) (tag : option N) (payload : bytes) : res bytes :=
  match ls, p with
  | LFixed n, PString =>
      if blen payload <=? n
      then Ok ((match tag with None => [] | Some t => tag_enc false t end) ++ payload ++ zeros (n - blen payload))
      else Panic                                                       (* vec![0; N - len] *)
  | _, _ => framed_enc ls false tag payload
  end.
(* where the padding of a Fixed<k> field goes *)
Definition pad_payload (p : prim) (k : N) (pl : bytes) : bytes :=
  match p with PString => pl ++ zeros (k - blen pl) | _ => zeros (k - blen pl) ++ pl end.

(* ---------- chrono::NaiveDateTime ---------- *)

Definition leap (y : Z) : bool :=
  ((y mod 4 =? 0) && negb (y mod 100 =? 0) || (y mod 400 =? 0))%Z.
Definition days_in_month (y : Z) (m : N) : N :=
  if (m =? 4) || (m =? 6) || (m =? 9) || (m =? 11) then 30
  else if m =? 2 then (if leap y then 29 else 28) else 31.
(* NaiveDate::from_ymd_opt: the calendar's year range (chrono: MAX_YEAR = i32::MAX >> 13), month, day of that month *)
Definition MAX_YEAR : Z := 262143.
Definition ymd_ok (y : Z) (m d : N) : bool :=
  (y <=? MAX_YEAR)%Z && (1 <=? m) && (m <=? 12) && (1 <=? d) && (d <=? days_in_month y m).
Definition hms_ok (h mi s : N) : bool := (h <? 24) && (mi <? 60) && (s <? 60).

(* `x as i32` for a usize x: what the decoder did to the date before the fix of F8 (Legacy.v) *)
Definition as_i32 (x : N) : Z :=
  let m := x mod 4294967296 in if m <? 2147483648 then Z.of_N m else (Z.of_N m - 4294967296)%Z.

Definition DATE_TAG : N := 7950.   (* 0x1f0e *)
Definition TIME_TAG : N := 7951.   (* 0x1f0f *)

Fixpoint dt_loop (fuel : nat) (bs : bytes) (date time : option N) : res (option N * option N * bytes) :=
  match fuel with
  | O => OutOfFuel
  | S f =>
    match bs with
    | [] => Ok (date, time, bs)
    | _ =>
      let* (t, _) := tag_dec false bs in
      if t =? DATE_TAG then
        match date with
        | Some _ => Err (DuplicateTag DATE_TAG)
        | None => let* (v, r) := framed_dec LTlv false (Some DATE_TAG) (bcd_dec 8) bs in dt_loop f r (Some v) time
        end
      else if t =? TIME_TAG then
        match time with
        | Some _ => Err (DuplicateTag TIME_TAG)
        | None => let* (v, r) := framed_dec LTlv false (Some TIME_TAG) (bcd_dec 4) bs in dt_loop f r date (Some v)
        end
      else Ok (date, time, bs)
    end
  end.

Definition datetime_dec (bs : bytes) : res (value * bytes) :=
  let* (dtm, r) := dt_loop (S (length bs)) bs None None in
  match dtm with
  | (Some date, Some time) =>
      (* after the fix of F8: i32::try_from(date / 10000) — a year beyond i32 is the same error as a year beyond the calendar;
         month and day from the whole number (before: `date as i32 / 10000`, `date as u32 % ..`) *)
      let y := Z.of_N (date / 10000) in
      let mo := (date mod 10000) / 100 in          (* after the fix of F3; was % 1000 *)
      let d := date mod 100 in
      let h := time / 10000 in
      let mi := (time mod 10000) / 100 in
      let s := time mod 100 in
      if ymd_ok y mo d && hms_ok h mi s then Ok (VDate y mo d h mi s, r)
      else Err IncompleteData                    (* after the fix of F3; from_ymd_opt(..).unwrap() panicked *)
  | _ => Err IncompleteData
  end.

(* after the fix of F4 (the encoder returned vec![]) *)
Definition datetime_enc (y : Z) (mo d h mi s : N) : res bytes :=
  if (y <? 0)%Z then Panic else                   (* year() as usize * 10000 overflows *)
  let date := Z.to_N y * 10000 + mo * 100 + d in
  let time := h * 10000 + mi * 100 + s in
  let* db := bcd_enc date in
  let* tb := bcd_enc time in
  let* df := framed_enc LTlv false (Some DATE_TAG) db in
  let* tf := framed_enc LTlv false (Some TIME_TAG) tb in
  Ok (df ++ tf).

(* ---------- the Encoding<T> impls, as one table ---------- *)

Definition prim_dec (e : enc) (p : prim) (bs : bytes) : res (value * bytes) :=
  match e, p with
  | EDefault, PInt w => let* (n, r) := int_dec false w bs in Ok (VInt n, r)
  | EBigEndian, PInt w => let* (n, r) := int_dec true w bs in Ok (VInt n, r)
  | EBcd, PInt w => let* (n, r) := bcd_dec w bs in Ok (VInt n, r)
  | EReceiptNo, PInt _ =>
      (* PartialReversalReceiptNo::decode *)
      match bs with
      | b0 :: b1 :: r =>
          if (b0 =? 255) && (b1 =? 255) then Ok (VInt 65535, r)
          else let* (n, _) := bcd_dec 8 [b0; b1] in Ok (VInt n, r)
      | _ => Err IncompleteData
      end
  | EDefault, PString => Ok (VStr (cp437_dec bs), [])
  | EHex, PString => Ok (VStr (hex_of_bytes bs), [])
  | EUtf8, PString => match utf8_dec bs with Some s => Ok (VStr s, []) | None => Err IncompleteData end
  | EDefault, PDateTime => datetime_dec bs
  | ECustom, PBytes => Ok (VBytes bs, [])
  | _, _ => Err NonImplemented                   (* no such impl: does not compile in Rust *)
  end.

Definition prim_enc (e : enc) (p : prim) (v : value) : res bytes :=
  match e, p, v with
  | EDefault, PInt w, VInt n => Ok (int_enc false w n)
  | EBigEndian, PInt w, VInt n => Ok (int_enc true w n)
  | EBcd, PInt _, VInt n => bcd_enc n
  | EReceiptNo, PInt _, VInt n => if n =? 65535 then Ok [255; 255] else bcd_enc n
  | EDefault, PString, VStr s => cp437_enc s
  | EHex, PString, VStr s => bytes_of_hex s
  | EUtf8, PString, VStr s => utf8_enc s       (* after the fix of F4; was vec![] *)
  | EDefault, PDateTime, VDate y mo d h mi s => datetime_enc y mo d h mi s
  | ECustom, PBytes, VBytes b => Ok b
  | _, _, _ => Err NonImplemented
  end.
