(* SequenceProps.v — trace theorems for the sequence machines (C05, C06) and the upload (C11). *)
From Zvt Require Import Base Length Cp437 Encoding Codec Lookup Transport TransportProps Sequence.
From Coq Require Import ZifyBool ZifyNat ZifyN.
Open Scope N_scope.

(* ---------- the shape of EVERY run, whatever the terminal sends (C06, and the safety half of C05) ---------- *)

(* replies: (read; acknowledge; yield)* — ended by a final item, by the end of what was explored,
   or by ONE failed read followed by ONE error item and nothing else *)
Inductive body_shape (vs : list variant) (final : N -> bool) : list ev -> Prop :=
| bs_nil : body_shape vs final []
| bs_err f : body_shape vs final [EvR f; EvErr]
| bs_item f i v t :
    parse_enum FUEL vs f = Ok (i, v) ->
    (final i = true -> t = []) ->
    body_shape vs final t ->
    body_shape vs final (EvR f :: EvW ACK :: EvY i v :: t).

Lemma rp_cases vs s :
  (exists f r i v, read_frame s = Some (f, r) /\ parse_enum FUEL vs f = Ok (i, v) /\ rp vs s = ([EvR f], Some (i, v, r))) \/
  (exists b, rp vs s = ([EvR b; EvErr], None)).
Proof.
  unfold rp. destruct (read_frame s) as [[f r]|] eqn:E.
  - destruct (parse_enum FUEL vs f) as [[i v]| | |] eqn:P.
    + left. exists f, r, i, v. split; [reflexivity|]. split; [exact P|]. reflexivity.
    + right. eexists. reflexivity.
    + right. eexists. reflexivity.
    + right. eexists. reflexivity.
  - right. eexists. reflexivity.
Qed.

Theorem seq_loop_shape_any : forall fuel vs final s, body_shape vs final (fst (seq_loop fuel vs final s)).
Proof.
  induction fuel as [|fuel IH]; intros vs final s; cbn [seq_loop]; [constructor|].
  destruct (rp_cases vs s) as [[f [r [i [v [Hr [Hp Hrp]]]]]]|[b Hrp]]; rewrite Hrp.
  - cbn [app]. destruct (final i) eqn:Ef.
    + cbn [fst]. apply bs_item; [exact Hp|reflexivity|constructor].
    + specialize (IH vs final r). destruct (seq_loop fuel vs final r) as [t r'] eqn:El. cbn [fst] in *.
      apply bs_item; [exact Hp|congruence|exact IH].
  - cbn [fst]. constructor.
Qed.

(* a whole exchange: command, acknowledgement, then a body — or command and one failed read *)
Inductive run_shape (cmd : bytes) (ack vs : list variant) (final : N -> bool) : list ev -> Prop :=
| rs_nack b : run_shape cmd ack vs final [EvW cmd; EvR b; EvErr]
| rs_body a i v t : parse_enum FUEL ack a = Ok (i, v) -> body_shape vs final t ->
    run_shape cmd ack vs final (EvW cmd :: EvR a :: t).

Theorem run_seq_shape_any : forall final cmd ack vs s,
  run_shape cmd ack vs final (fst (run_seq (Loop final) cmd ack vs s)).
Proof.
  intros final cmd ack vs s. unfold run_seq.
  destruct (rp_cases ack s) as [[a [r [i [v [Hr [Hp Hrp]]]]]]|[b Hrp]]; rewrite Hrp.
  - pose proof (seq_loop_shape_any (S (length r)) vs final r) as B.
    destruct (seq_loop (S (length r)) vs final r) as [t r'] eqn:El. cbn [fst app] in *.
    eapply rs_body; eassumption.
  - cbn [fst]. constructor.
Qed.

(* the default into_stream: exactly one reply, and every reply ends it *)
Theorem run_single_shape_any : forall cmd ack vs s,
  run_shape cmd ack vs (fun _ => true) (fst (run_seq Single cmd ack vs s)).
Proof.
  intros cmd ack vs s. unfold run_seq.
  destruct (rp_cases ack s) as [[a [r [i [v [Hr [Hp Hrp]]]]]]|[b Hrp]]; rewrite Hrp.
  - destruct (rp_cases vs r) as [[f [r2 [i2 [v2 [Hr2 [Hp2 Hrp2]]]]]]|[b Hrp2]]; rewrite Hrp2; cbn [fst app].
    + eapply rs_body; [exact Hp|]. apply bs_item; [exact Hp2|reflexivity|constructor].
    + eapply rs_body; [exact Hp|]. constructor.
  - cbn [fst]. constructor.
Qed.

(* consequences read off the shape: at most one error and it is the last event; no write after the
   failed read; every acknowledgement directly follows a read that parsed *)
Lemma body_shape_err_last vs final t : body_shape vs final t ->
  forall pre post, t = pre ++ EvErr :: post -> post = [] /\ exists f pre', pre = pre' ++ [EvR f].
Proof.
  induction 1 as [|f|f i v t Hp Hf Hb IH]; intros pre post E.
  - destruct pre; discriminate.
  - destruct pre as [|x [|y pre]]; try discriminate.
    + injection E as <- <-. split; [reflexivity|]. exists f, []. reflexivity.
    + destruct pre; discriminate.
  - destruct pre as [|x [|y [|z pre]]]; try discriminate.
    injection E as <- <- <- E. destruct (IH pre post E) as [A [f' [pre' ->]]]. split; [exact A|].
    exists f', (EvR f :: EvW ACK :: EvY i v :: pre'). reflexivity.
Qed.

(* ---------- good scripts: every reply is acknowledged once, yielded in order, and the exchange ends right
   after the first final packet, leaving everything behind it unread (C05) ---------- *)

Definition is_frame (f : bytes) : Prop := forall t, read_frame (f ++ t) = Some (f, t).

Definition item_events (x : bytes * N * value) : list ev :=
  [EvR (fst (fst x)); EvW ACK; EvY (snd (fst x)) (snd x)].

Lemma rp_good vs f i v t : is_frame f -> parse_enum FUEL vs f = Ok (i, v) ->
  rp vs (f ++ t) = ([EvR f], Some (i, v, t)).
Proof. intros Hf Hp. unfold rp. rewrite (Hf t), Hp. reflexivity. Qed.

Lemma seq_loop_good vs final : forall (pre : list (bytes * N * value)) last rest fuel,
  Forall (fun x => is_frame (fst (fst x)) /\ parse_enum FUEL vs (fst (fst x)) = Ok (snd (fst x), snd x) /\ final (snd (fst x)) = false) pre ->
  is_frame (fst (fst last)) -> parse_enum FUEL vs (fst (fst last)) = Ok (snd (fst last), snd last) -> final (snd (fst last)) = true ->
  (length pre < fuel)%nat ->
  seq_loop fuel vs final (concat (map (fun x => fst (fst x)) pre) ++ fst (fst last) ++ rest)
    = (flat_map item_events (pre ++ [last]), rest).
Proof.
  induction pre as [|[[f i] v] pre IH]; intros last rest fuel Hpre Hf Hp Hfin Hfuel.
  - destruct fuel as [|fuel]; [cbn in Hfuel; lia|]. cbn [map concat app seq_loop].
    destruct last as [[fl il] vl]. cbn [fst snd] in *. rewrite (rp_good vs fl il vl rest Hf Hp), Hfin.
    cbn [flat_map item_events fst snd app]. reflexivity.
  - destruct fuel as [|fuel]; [cbn in Hfuel; lia|].
    pose proof (Forall_inv Hpre) as [Hf1 [Hp1 Hn1]]. cbn [fst snd] in Hf1, Hp1, Hn1.
    cbn [map concat fst snd seq_loop]. rewrite <- app_assoc.
    rewrite (rp_good vs f i v _ Hf1 Hp1), Hn1.
    rewrite (IH last rest fuel (Forall_inv_tail Hpre) Hf Hp Hfin) by (cbn in Hfuel; lia).
    cbn [flat_map item_events fst snd app]. reflexivity.
Qed.

Theorem seq_trace_shape : forall final cmd ack vs ackf ai av (pre : list (bytes * N * value)) last rest,
  is_frame ackf -> parse_enum FUEL ack ackf = Ok (ai, av) ->
  Forall (fun x => is_frame (fst (fst x)) /\ parse_enum FUEL vs (fst (fst x)) = Ok (snd (fst x), snd x) /\ final (snd (fst x)) = false) pre ->
  is_frame (fst (fst last)) -> parse_enum FUEL vs (fst (fst last)) = Ok (snd (fst last), snd last) -> final (snd (fst last)) = true ->
  run_seq (Loop final) cmd ack vs (ackf ++ concat (map (fun x => fst (fst x)) pre) ++ fst (fst last) ++ rest)
    = (EvW cmd :: EvR ackf :: flat_map item_events (pre ++ [last]), rest).
Proof.
  intros final cmd ack vs ackf ai av pre last rest Ha Hpa Hpre Hf Hp Hfin.
  unfold run_seq. rewrite (rp_good ack ackf ai av _ Ha Hpa).
  assert (L : forall l : list (bytes * N * value), (length l <= length (concat (map (fun x => fst (fst x)) l)))%nat \/ True) by (intros; right; exact I).
  rewrite (seq_loop_good vs final pre last rest); try assumption.
  - reflexivity.
  - (* fuel: S (length of what is left) > number of non-final replies, each of which has >= 3 bytes *)
    clear L. assert (G : (length pre <= length (concat (map (fun x => fst (fst x)) pre)))%nat).
    { clear -Hpre. induction pre as [|[[f i] v] pre IH]; [cbn; lia|].
      pose proof (Forall_inv Hpre) as [Hf1 _]. cbn [fst] in Hf1. specialize (IH (Forall_inv_tail Hpre)).
      cbn [map concat fst length]. rewrite app_length.
      assert (f <> []). { intros ->. specialize (Hf1 []). cbn in Hf1. discriminate. }
      destruct f; [congruence|]. cbn [length]. lia. }
    rewrite !app_length. lia.
Qed.

Theorem single_is_one_reply : forall cmd ack vs ackf ai av f i v rest,
  is_frame ackf -> parse_enum FUEL ack ackf = Ok (ai, av) ->
  is_frame f -> parse_enum FUEL vs f = Ok (i, v) ->
  run_seq Single cmd ack vs (ackf ++ f ++ rest) = ([EvW cmd; EvR ackf; EvR f; EvW ACK; EvY i v], rest).
Proof.
  intros. unfold run_seq. rewrite (rp_good ack ackf ai av _ H H0), (rp_good vs f i v _ H1 H2). reflexivity.
Qed.

(* what the writer emits is a frame in this sense (C04 header agreement) *)
Lemma frame_of_is_frame c i body : blen body <= 65535 -> is_frame (frame_of c i body).
Proof. intros H t. apply (header_agreement c i body t H). Qed.

(* ---------- the firmware upload (C11) ---------- *)

Inductive upload_shape (E : upload_env) : list ev -> Prop :=
| us_nil : upload_shape E []
| us_read_err f : upload_shape E [EvR f; EvErr]
| us_bad_request f : upload_shape E [EvR f; EvErr]
| us_final f i v : parse_enum FUEL (u_replies E) f = Ok (i, v) ->
    (i = u_ix_completion E \/ i = u_ix_abort E) -> upload_shape E [EvR f; EvW ACK; EvY i v]
| us_data f i v id off content pkt t :
    parse_enum FUEL (u_replies E) f = Ok (i, v) ->
    request_fields v = Some (id, off) -> file_of id (u_files E) = Some content ->
    enc_cmd (u_write_data E) (write_data_value id off (block_of (u_block E) off content)) = Ok pkt ->
    upload_shape E t ->
    upload_shape E (EvR f :: EvW pkt :: EvY i v :: t).

(* every data request for an announced file is answered with that id, that offset and exactly the
   file's bytes from the offset up to the block size or the end of the file; anything else (unknown
   id, missing id / offset / container, undecodable packet, end of stream) ends the upload with one
   error and no further write *)
Theorem upload_loop_shape_any : forall fuel E s, upload_shape E (fst (upload_loop fuel E s)).
Proof.
  induction fuel as [|fuel IH]; intros E s; cbn [upload_loop]; [constructor|].
  destruct (rp_cases (u_replies E) s) as [[f [r [i [v [Hr [Hp Hrp]]]]]]|[b Hrp]]; rewrite Hrp.
  - destruct ((i =? u_ix_completion E) || (i =? u_ix_abort E)) eqn:Ef.
    + cbn [fst app]. eapply us_final; [exact Hp|lia].
    + destruct (request_fields v) as [[id off]|] eqn:Eq; [|cbn [fst app]; apply us_bad_request].
      destruct (file_of id (u_files E)) as [content|] eqn:Efile; [|cbn [fst app]; apply us_bad_request].
      destruct (enc_cmd (u_write_data E) _) as [pkt| | |] eqn:Ee; try (cbn [fst app]; apply us_bad_request).
      specialize (IH E r). destruct (upload_loop fuel E r) as [t r'] eqn:El. cbn [fst app] in *.
      eapply us_data; eassumption.
  - cbn [fst]. apply us_read_err.
Qed.

Theorem block_exact : forall block off content,
  block_of block off content = firstn (N.to_nat block) (skipn (N.to_nat off) content) /\
  blen (block_of block off content) = N.min block (blen content - off).
Proof.
  intros. split; [reflexivity|]. unfold block_of.
  assert (blen (drop off content) = blen content - off) by apply blen_drop.
  unfold take, blen in *. rewrite firstn_length. lia.
Qed.

Theorem manifest_exact : forall E, manifest E = map (fun f => (fst f, blen (snd f))) (u_files E).
Proof. reflexivity. Qed.

Theorem empty_directory_sends_nothing : forall E ann ack s, u_files E = [] -> run_upload E ann ack s = ([EvErr], s).
Proof. intros E ann ack s H. unfold run_upload. rewrite H. reflexivity. Qed.
