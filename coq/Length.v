(* Length.v — mirrors zvt_builder/src/length.rs (+ feig Temperature), line by line.
   len_ser  = <L as Length>::serialize,   len_de = <L as Length>::deserialize. *)
From Zvt Require Import Base.
Open Scope N_scope.

Inductive lenstyle :=
| LEmpty                (* length::Empty *)
| LFixed (n : N)        (* length::Fixed<N> *)
| LTlv                  (* length::Tlv  (BER) *)
| LLlv (digits : N)     (* length::LlvImpl<N>;  Llv = 2, Lllv = 3 *)
| LAdpu                 (* length::Adpu *)
| LTemperature.         (* feig::packets::Temperature *)

(* the N digits of k, most significant first, each as 0xF0 | digit *)
Fixpoint llv_digits (d : nat) (k : N) (acc : bytes) : bytes :=
  match d with
  | O => acc
  | S d => llv_digits d (k / 10) ((240 + k mod 10) :: acc)
  end.

Definition len_ser (ls : lenstyle) (len : N) : res bytes :=
  match ls with
  | LEmpty => Ok []
  | LFixed n => if len <=? n then Ok (zeros (n - len)) else Panic      (* vec![0; N - len] *)
  | LTlv =>
      if len <=? 127 then Ok [len]
      else if len <=? 255 then Ok [129; len]
      else if len <=? 65535 then Ok [130; len / 256; len mod 256]
      else Panic                                                       (* panic!("Unsupported length") *)
  | LLlv d => Ok (llv_digits (N.to_nat d) len [])
  | LAdpu =>
      if len <? 255 then Ok [len]
      else Ok [255; (len mod 65536) mod 256; (len mod 65536) / 256]    (* input as u16, little endian *)
  | LTemperature => Ok []
  end.

(* for i in 0..N { d = data.get(i)?; rv = rv*10 + (d & 0xf) } *)
Fixpoint llv_parse (d : nat) (rv : N) (bs : bytes) : res (N * bytes) :=
  match d with
  | O => Ok (rv, bs)
  | S d => match bs with
           | [] => Err IncompleteData
           | b :: bs' => llv_parse d (rv * 10 + b mod 16) bs'
           end
  end.

Definition len_de (ls : lenstyle) (bs : bytes) : res (N * bytes) :=
  match ls with
  | LEmpty => Ok (blen bs, bs)
  | LFixed n => if blen bs <? n then Err IncompleteData else Ok (n, bs)
  | LTlv =>
      match bs with
      | [] => Err IncompleteData
      | d :: r =>
          if d <=? 127 then Ok (d, r)
          else if d =? 129 then
            match r with
            | [] => Err IncompleteData
            | d1 :: r1 => Ok (d1, r1)
            end
          else if d =? 130 then
            match r with
            | hi :: lo :: r2 => Ok (hi * 256 + lo, r2)
            | _ => Err IncompleteData            (* after the fix of F1; see Legacy.v *)
            end
          else Err NonImplemented
      end
  | LLlv d => llv_parse (N.to_nat d) 0 bs
  | LAdpu =>
      match bs with
      | [] => Err IncompleteData
      | d :: r =>
          if d =? 255 then
            match r with
            | lo :: hi :: r2 => Ok (hi * 256 + lo, r2)
            | _ => Err IncompleteData
            end
          else Ok (d, r)
      end
  | LTemperature =>
      if blen bs <? 3 then Err IncompleteData else Ok (N.min (blen bs) 4, bs)
  end.

(* ---------- used by the statements about frames (CodecFrame.v, CodecRoundtrip.v, CanonClass.v) ---------- *)

(* styles that announce (or fix) how many bytes belong to the field *)
Definition delimiting (ls : lenstyle) : bool :=
  match ls with LEmpty | LTemperature => false | _ => true end.

(* which payload lengths a style can announce *)
Definition len_fits (ls : lenstyle) (n : N) : bool :=
  match ls with
  | LEmpty => true
  | LFixed k => n =? k                 (* exactly k: shorter payloads are left-padded and read back padded *)
  | LTlv => n <=? 65535
  | LLlv d => n <? 10 ^ d
  | LAdpu => n <=? 65535
  | LTemperature => (3 <=? n) && (n <=? 4)
  end.
