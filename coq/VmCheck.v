(* VmCheck.v — evaluation of the model INSIDE Coq (vm_compute), used by the checks to cross-check the extracted
   OCaml model + driver on a sample of the very cases they ran: the harness writes a cases file that imports this. *)
From Zvt Require Import Base Length Cp437 Encoding Codec Lookup CanonClass.
Open Scope N_scope.

Fixpoint value_eqb (a b : value) {struct a} : bool :=
  match a, b with
  | VSome x, VSome y => value_eqb x y
  | VList l, VList m | VRec l, VRec m =>
      (fix go (l m : list value) : bool :=
         match l, m with
         | [], [] => true
         | x :: l', y :: m' => value_eqb x y && go l' m'
         | _, _ => false
         end) l m
  | VNone, VNone => true
  | VList _, _ | VRec _, _ | VSome _, _ | VNone, _ => false
  | _, _ => flat_eqb a b
  end.

(* decode the bytes: the expected value, nothing left, and the re-encoding gives the same bytes *)
Definition vm_roundtrip (c : string * bytes * value) : bool :=
  match c with
  | (name, bs, v) =>
      match run_dec name bs with
      | Some (Ok (v', []), Ok b) => value_eqb v' v && list_eqb b bs
      | _ => false
      end
  end.
Definition vm_failures (cs : list (string * bytes * value)) : list string :=
  map (fun c => fst (fst c)) (filter (fun c => negb (vm_roundtrip c)) cs).
