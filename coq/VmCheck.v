(* VmCheck.v — evaluation of the model INSIDE Coq (vm_compute), used by the checks to cross-check the extracted
   OCaml model + driver on a sample of the very cases they ran: the harness writes a cases file that imports this. *)
From Zvt Require Import Base Length Cp437 Encoding Codec Lookup CanonClass.
Open Scope N_scope.

Fixpoint value_eqb (a b : value) {struct a} : bool :=
  match a, b with
  | VSome x, VSome y => value_eqb x y
  | VList l, VList m | VRec l, VRec m =>
      (fix go (l m : list value) : bool :=
         match l, m with
         | [], [] => true
         | x :: l', y :: m' => value_eqb x y && go l' m'
         | _, _ => false
         end) l m
  | VNone, VNone => true
  | VList _, _ | VRec _, _ | VSome _, _ | VNone, _ => false
  | _, _ => flat_eqb a b
  end.

(* decode the bytes: the expected value, nothing left, and the re-encoding gives the same bytes *)
Definition vm_roundtrip (c : string * bytes * value) : bool :=
  match c with
  | (name, bs, v) =>
      match run_dec name bs with
      | Some (Ok (v', []), Ok b) => value_eqb v' v && list_eqb b bs
      | _ => false
      end
  end.
Definition vm_failures (cs : list (string * bytes * value)) : list string :=
  map (fun c => fst (fst c)) (filter (fun c => negb (vm_roundtrip c)) cs).

(* ---------- client histories: the whole event log, the final time and the (start, duration) of every call ---------- *)
From Zvt Require Import Transport Sequence SeqLookup Client.

Definition event_eqb (a b : event) : bool :=
  match a, b with
  | EOpen i t, EOpen j u => (i =? j) && (t =? u)
  | ERefused t, ERefused u => t =? u
  | EWrite i t x, EWrite j u y => (i =? j) && (t =? u) && CanonClass.list_eqb x y
  | EDrop i t, EDrop j u => (i =? j) && (t =? u)
  | _, _ => false
  end.
Fixpoint events_eqb (a b : list event) : bool :=
  match a, b with
  | [], [] => true
  | x :: a', y :: b' => event_eqb x y && events_eqb a' b'
  | _, _ => false
  end.
Fixpoint times_eqb (a b : list (N * N)) : bool :=
  match a, b with
  | [], [] => true
  | (x1, x2) :: a', (y1, y2) :: b' => (x1 =? y1) && (x2 =? y2) && times_eqb a' b'
  | _, _ => false
  end.

Definition vm_client (c : config * list op * list cscript * list event * N * list (N * N)) : bool :=
  match c with
  | (cfg, ops, scripts, elog, eT, etimes) =>
      let '(_, rs, _, w) := run_history cfg ops scripts in
      events_eqb (rev (w_log w)) elog && (w_now w =? eT) && times_eqb (map (fun r => (snd (fst r), snd r)) rs) etimes
  end.
Definition vm_client_failures (cs : list (config * list op * list cscript * list event * N * list (N * N))) : list N :=
  map fst (filter (fun x => negb (vm_client (snd x))) (combine (map N.of_nat (seq 0 (length cs))) cs)).
