(* Sequence.v — mirrors zvt/src/sequences.rs (default into_stream + the ten loop impls) and
   zvt/src/feig/sequences.rs (WriteFile::into_stream), run against the byte stream the client will
   read.  A run is the list of observable events: bytes written, bytes read, items yielded. *)
From Zvt Require Import Base Length Cp437 Encoding Codec Lookup Transport.
Open Scope N_scope.

Inductive ev :=
| EvW (b : bytes)                 (* write_all of one packet *)
| EvR (b : bytes)                 (* bytes consumed from the stream by one read_packet *)
| EvY (i : N) (v : value)         (* an Ok item: variant index and content *)
| EvErr.                          (* an Err item; the stream ends *)

Definition ACK : bytes := [128; 0; 0].            (* packets::Ack {}.zvt_serialize() *)

Inductive mode := Single | Loop (final : N -> bool).

(* read_packet::<T>()?  —  None: the failure consumed everything that was left (UnexpectedEof) *)
Definition rp (vs : list variant) (s : bytes) : (list ev * option (N * value * bytes)) :=
  match read_frame s with
  | None => ([EvR s; EvErr], None)
  | Some (f, r) =>
      match parse_enum FUEL vs f with
      | Ok (i, v) => ([EvR f], Some (i, v, r))
      | _ => ([EvR f; EvErr], None)
      end
  end.

(* loop { packet = read_packet()?; write_packet(Ack)?; yield packet; if final { break } } *)
Fixpoint seq_loop (fuel : nat) (vs : list variant) (final : N -> bool) (s : bytes) : list ev * bytes :=
  match fuel with
  | O => ([], s)
  | S f =>
      match rp vs s with
      | (evs, None) => (evs, match read_frame s with Some (_, r) => r | None => [] end)
      | (evs, Some (i, v, r)) =>
          let here := evs ++ [EvW ACK; EvY i v] in
          if final i then (here, r)
          else let (t, r') := seq_loop f vs final r in (here ++ t, r')
      end
  end.

(* what is left unread in the stream after a failed read_packet *)
Definition rest_after_failure (s : bytes) : bytes :=
  match read_frame s with Some (_, r) => r | None => [] end.

(* a whole exchange: write_packet_with_ack(input)?, then the replies *)
Definition run_seq (m : mode) (cmd : bytes) (ack : list variant) (vs : list variant) (s : bytes) : list ev * bytes :=
  match rp ack s with
  | (evs, None) => (EvW cmd :: evs, rest_after_failure s)
  | (evs, Some (_, _, r)) =>
      match m with
      | Single =>
          match rp vs r with
          | (e2, None) => (EvW cmd :: evs ++ e2, rest_after_failure r)
          | (e2, Some (i, v, r2)) => (EvW cmd :: evs ++ e2 ++ [EvW ACK; EvY i v], r2)
          end
      | Loop final =>
          let (t, r') := seq_loop (S (length r)) vs final r in (EvW cmd :: evs ++ t, r')
      end
  end.

(* ---------- the firmware upload (Feig 6.13) ---------- *)

Fixpoint nth_val (l : list value) (i : nat) : option value :=
  match l, i with
  | [], _ => None
  | x :: _, O => Some x
  | _ :: r, S i => nth_val r i
  end.

(* data.tlv?.file?  then file_id?, file_offset?  (each `ok_or(IncompleteData)?`) *)
Definition request_fields (req : value) : option (N * N) :=
  match req with
  | VRec [VSome (VRec [VSome (VRec (VSome (VInt id) :: VSome (VInt off) :: _))])] => Some (id, off)
  | _ => None
  end.

Fixpoint file_of (id : N) (files : list (N * bytes)) : option bytes :=
  match files with
  | [] => None
  | (i, c) :: r => if i =? id then Some c else file_of id r
  end.

(* file.read_at(&mut buf, offset): up to block bytes from offset, nothing at or behind the end *)
Definition block_of (block : N) (off : N) (content : bytes) : bytes := take block (drop off content).

Definition write_data_value (id off : N) (data : bytes) : value :=
  VRec [VSome (VRec [VSome (VRec [VSome (VInt id); VSome (VInt off); VNone; VSome (VBytes data)])])].

Record upload_env := {
  u_files : list (N * bytes);        (* recognised files present in the directory: id, content *)
  u_block : N;
  u_write_data : cmd;                (* layout of feig::packets::WriteData (regenerated) *)
  u_replies : list variant;          (* WriteFileResponse (regenerated) *)
  u_ix_completion : N; u_ix_request : N; u_ix_abort : N
}.

Fixpoint upload_loop (fuel : nat) (E : upload_env) (s : bytes) : list ev * bytes :=
  match fuel with
  | O => ([], s)
  | S f =>
      match rp (u_replies E) s with
      | (evs, None) => (evs, rest_after_failure s)
      | (evs, Some (i, v, r)) =>
          if (i =? u_ix_completion E) || (i =? u_ix_abort E) then (evs ++ [EvW ACK; EvY i v], r)
          else
            match request_fields v with
            | None => (evs ++ [EvErr], r)
            | Some (id, off) =>
                match file_of id (u_files E) with
                | None => (evs ++ [EvErr], r)
                | Some content =>
                    match enc_cmd (u_write_data E) (write_data_value id off (block_of (u_block E) off content)) with
                    | Ok pkt => let (t, r') := upload_loop f E r in (evs ++ [EvW pkt; EvY i v] ++ t, r')
                    | _ => (evs ++ [EvErr], r)
                    end
                end
            end
      end
  end.

(* the announced file list: id and true size of every recognised file present *)
Definition manifest (E : upload_env) : list (N * N) := map (fun f => (fst f, blen (snd f))) (u_files E).

Definition run_upload (E : upload_env) (announce : bytes) (ack : list variant) (s : bytes) : list ev * bytes :=
  match u_files E with
  | [] => ([EvErr], s)                       (* "The directory contained no valid data": nothing is sent *)
  | _ =>
    match rp ack s with
    | (evs, None) => (EvW announce :: evs, rest_after_failure s)
    | (evs, Some (_, _, r)) => let (t, r') := upload_loop (S (length r)) E r in (EvW announce :: evs ++ t, r')
    end
  end.
