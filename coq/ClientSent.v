(* ClientSent.v — the client's vocabulary: WHICH byte strings a call can write, for every world (every
   terminal behaviour, every connection loss, every retry) and every state of the client.
   sent_in S w w': the log of w' extends the log of w, and every write among the new events is in S.
   One poll of the retrying stream writes only the registration, the identity query, acknowledgements
   and the request of the running exchange; the consumer loops and the public methods inherit that.
   C19's "never requests end-of-day while other transactions are open" is the corollary that the
   end-of-day request is not in the vocabulary of a busy commit / cancel. *)
From Zvt Require Import Base Length Cp437 Encoding Codec Lookup Transport Sequence SeqLookup Client ClientProps ClientLog ClientWire.
From Coq Require Import ZifyBool ZifyNat ZifyN.
Open Scope N_scope.

Definition sent_in (S : bytes -> Prop) (w w' : world) : Prop :=
  exists evs, w_log w' = evs ++ w_log w /\ forall id t b, In (EWrite id t b) evs -> S b.

Lemma sent_refl S w : sent_in S w w.
Proof. exists []. split; [reflexivity|intros id t b []]. Qed.
Lemma sent_trans S a b c : sent_in S a b -> sent_in S b c -> sent_in S a c.
Proof.
  intros [e1 [E1 F1]] [e2 [E2 F2]]. exists (e2 ++ e1). split; [rewrite E2, E1, app_assoc; reflexivity|].
  intros id t x H. apply in_app_or in H. destruct H as [H|H]; [eapply F2|eapply F1]; exact H.
Qed.
Lemma sent_mono (S S' : bytes -> Prop) w w' : (forall b, S b -> S' b) -> sent_in S w w' -> sent_in S' w w'.
Proof. intros M [e [E F]]. exists e. split; [exact E|]. intros id t b H. apply M. eapply F. exact H. Qed.
Lemma sent_same S w w' : w_log w' = w_log w -> sent_in S w w'.
Proof. intros E. exists []. split; [exact E|intros id t b []]. Qed.
Lemma sent_write (S : bytes -> Prop) w id b : S b -> sent_in S w (write_t w id b).
Proof. intros H. exists [EWrite id (w_now w) b]. split; [reflexivity|]. intros i t x [E|[]]. injection E as _ _ <-. exact H. Qed.
Lemma sent_other S w e : (forall id t b, e <> EWrite id t b) -> sent_in S w (logw w e).
Proof. intros N. exists [e]. split; [reflexivity|]. intros i t x [E|[]]. exfalso. exact (N i t x E). Qed.
Lemma sent_drop_conn S w id : sent_in S w (drop_conn w id).
Proof. apply sent_other. intros i t b E. discriminate. Qed.
Lemma sent_drop_cur S w : sent_in S w (drop_cur w).
Proof.
  unfold drop_cur. destruct (w_cur w) as [id|]; [|apply sent_refl].
  eapply sent_trans; [apply (sent_drop_conn S w id)|apply sent_same; reflexivity].
Qed.

(* reading never writes *)
Lemma read_parse_log w id vs d :
  match read_parse w id vs d with
  | inl (Some (_, w')) => w_log w' = w_log w
  | inl None => True
  | inr w' => w_log w' = w_log w
  end.
Proof.
  unfold read_parse. destruct (read_packet_t (get_conn w id) (w_now w)) as [f t c|t|].
  - destruct (t <=? d); reflexivity.
  - destruct (t <=? d); [exact I|reflexivity].
  - reflexivity.
Qed.

Definition nr_world (n : next_res) : world := match n with NItem _ _ w | NEnd w | NTimeout w => w end.

Section Vocabulary.
Variable S : bytes -> Prop.
Hypothesis S_ack : S ACK.

(* one poll of a sequence: its command (only at the start) and acknowledgements *)
Lemma seq_next_sent q id ph d w : S (q_cmd q) -> sent_in S w (nr_world (seq_next q id ph d w)).
Proof.
  intros Hq.
  assert (REPLY : forall w0, sent_in S w w0 ->
            sent_in S w (nr_world (match read_parse w0 id (q_replies q) d with
                   | inr w' => NTimeout w'
                   | inl None => NItem (IErr 0) PDone w0
                   | inl (Some (Ok (i, v), w1)) => NItem (IOk i v) (if is_final (q_mode q) i then PDone else PLoop) (write_t w1 id ACK)
                   | inl (Some (_, w1)) => NItem (IErr 1) PDone w1
                   end))).
  { intros w0 H0. pose proof (read_parse_log w0 id (q_replies q) d) as R.
    destruct (read_parse w0 id (q_replies q) d) as [[[[[i v]|e| |] w1]|]|w']; cbn [nr_world]; try exact H0;
      try (eapply sent_trans; [exact H0|apply sent_same; exact R]).
    eapply sent_trans; [exact H0|]. eapply sent_trans; [apply sent_same; exact R|apply sent_write; exact S_ack]. }
  unfold seq_next. destruct ph.
  - pose proof (read_parse_log (write_t w id (q_cmd q)) id ack_enum d) as R.
    pose proof (sent_write S w id (q_cmd q) Hq) as W.
    destruct (read_parse (write_t w id (q_cmd q)) id ack_enum d) as [[[[[i v]|e| |] w1]|]|w']; cbn [nr_world];
      try exact W; try (eapply sent_trans; [exact W|apply sent_same; exact R]).
    apply REPLY. eapply sent_trans; [exact W|apply sent_same; exact R].
  - apply REPLY. apply sent_refl.
  - apply sent_refl.
Qed.

Variable cfg : config.
Hypothesis S_reg : S (registration_cmd cfg).
Hypothesis S_sysinfo : S sysinfo_cmd.

Definition cr_world (c : conn_res) : world := match c with COk _ w | CErr _ w => w end.

(* opening a connection: the registration and the identity query *)
Lemma connect_sent d w : sent_in S w (cr_world (connect cfg d w)).
Proof.
  unfold connect. destruct (w_scripts w) as [|s rest].
  { cbn [cr_world]. apply sent_other. intros i t b E. discriminate. }
  destruct (cs_refused s).
  { cbn [cr_world]. exists [ERefused (w_now w)]. split; [reflexivity|]. intros i t b [E|[]]. discriminate. }
  destruct (cs_silent s).
  { cbn [cr_world]. exists [ERefused (w_now w)]. split; [reflexivity|]. intros i t b [E|[]]. discriminate. }
  cbv zeta. cbn [w_conns w_scripts w_cur w_now w_log].
  set (id := N.of_nat (length (w_conns w))).
  match goal with |- context [seq_next _ id PStart d ?W] => set (w1 := W) end.
  assert (I1 : sent_in S w w1).
  { exists [EOpen id (w_now w)]. split; [reflexivity|]. intros i t b [E|[]]. discriminate. }
  assert (DROP : forall (what : N) w', sent_in S w w' -> sent_in S w (cr_world (CErr what (drop_conn w' id)))).
  { intros what w' X. cbn [cr_world]. eapply sent_trans; [exact X|apply sent_drop_conn]. }
  pose proof (seq_next_sent (seq_of "zvt::sequences::Registration" (registration_cmd cfg)) id PStart d w1) as X1.
  rewrite q_cmd_seq_of in X1. specialize (X1 S_reg).
  destruct (seq_next _ id PStart d w1) as [[i v|e] ph w'|w'|w']; cbn [nr_world] in X1;
    try (apply DROP; eapply sent_trans; [exact I1|exact X1]).
  pose proof (seq_next_sent (seq_of "zvt::feig::sequences::GetSystemInfo" sysinfo_cmd) id PStart d w') as X2.
  rewrite q_cmd_seq_of in X2. specialize (X2 S_sysinfo).
  assert (X12 : forall w'', sent_in S w' w'' -> sent_in S w w'').
  { intros w'' X. eapply sent_trans; [exact I1|]. eapply sent_trans; [exact X1|exact X]. }
  destruct (seq_next _ id PStart d w') as [[i2 v2|e2] ph2 w2|w2|w2]; cbn [nr_world] in X2;
    try (apply DROP; apply X12; exact X2).
  destruct (i2 =? _); [|apply DROP; apply X12; exact X2].
  destruct (first_pos v2) as [[| dev | | | | | |]|]; try (apply DROP; apply X12; exact X2).
  destruct (Client.list_eqb _ _); [|apply DROP; apply X12; exact X2].
  cbn [cr_world]. apply X12. exact X2.
Qed.

(* one poll of the retrying stream: those, and the request of the exchange it runs — which it never changes *)
Lemma retry_next_sent : forall fuel r w, S (q_cmd (r_seq r)) ->
  let '(_, r', w') := retry_next fuel cfg r w in sent_in S w w' /\ r_seq r' = r_seq r.
Proof.
  induction fuel as [|f IH]; intros r w Hq; [split; [apply sent_refl|reflexivity]|]. cbn [retry_next]. destruct (r_ph r) eqn:P.
  - (* RIdle *)
    destruct (r_left r) as [|lft]; [split; [apply sent_refl|reflexivity]|].
    set (start := if r_first r then w_now w else N.max (w_now w) (r_last r + r_throttle r)).
    assert (H1 : sent_in S w (at_time w start)) by (apply sent_same; reflexivity).
    destruct (w_cur (at_time w start)) as [id|] eqn:C.
    + specialize (IH (rs_set (rs_set r lft false start RIdle) lft false start (RInner PStart)) (at_time w start) Hq).
      destruct (retry_next f cfg _ (at_time w start)) as [[it r'] w']. destruct IH as [A B]. split; [|exact B].
      eapply sent_trans; [exact H1|exact A].
    + pose proof (connect_sent (start + r_timeout (rs_set r lft false start RIdle)) (at_time w start)) as K.
      destruct (connect cfg _ (at_time w start)) as [id w'|what w']; cbn [cr_world] in K.
      * specialize (IH (rs_set (rs_set r lft false start RIdle) lft false start (RInner PStart)) (set_cur w' (Some id)) Hq).
        destruct (retry_next f cfg _ (set_cur w' (Some id))) as [[it r'] w'']. destruct IH as [A B]. split; [|exact B].
        eapply sent_trans; [exact H1|]. eapply sent_trans; [exact K|]. eapply sent_trans; [|exact A]. apply sent_same. reflexivity.
      * split; [|reflexivity]. eapply sent_trans; [exact H1|exact K].
  - (* RInner *)
    destruct (w_cur w) as [id|] eqn:C; [|split; [apply sent_refl|reflexivity]].
    pose proof (seq_next_sent (r_seq r) id ph (w_now w + r_timeout r) w Hq) as X.
    destruct (seq_next (r_seq r) id ph (w_now w + r_timeout r) w) as [[i v|e] ph' w'|w'|w']; cbn [nr_world] in X;
      try (split; [exact X|reflexivity]).
    specialize (IH (rs_set r (r_left r) (r_first r) (r_last r) RIdle) (drop_cur w') Hq).
    destruct (retry_next f cfg _ (drop_cur w')) as [[it r'] w'']. destruct IH as [A B]. split; [|exact B].
    eapply sent_trans; [exact X|]. eapply sent_trans; [apply sent_drop_cur|exact A].
  - (* RAfterErr *)
    specialize (IH (rs_set r (r_left r) (r_first r) (r_last r) RIdle) (drop_cur w) Hq).
    destruct (retry_next f cfg _ (drop_cur w)) as [[it r'] w'']. destruct IH as [A B]. split; [|exact B].
    eapply sent_trans; [apply sent_drop_cur|exact A].
  - split; [apply sent_refl|reflexivity].
Qed.

(* a whole consumer loop *)
Lemma consume_sent {A B} (handle : A -> N -> value -> option (cres B) * A) finish :
  forall fuel r w acc, S (q_cmd (r_seq r)) -> sent_in S w (snd (consume fuel cfg r w acc handle finish)).
Proof.
  induction fuel as [|f IH]; intros r w acc Hq; [apply sent_refl|]. cbn [consume].
  pose proof (retry_next_sent RFUEL r w Hq) as K.
  destruct (retry_next RFUEL cfg r w) as [[[[i v|e]|] r'] w']; destruct K as [K E]; cbn [snd]; try exact K.
  - destruct (handle acc i v) as [[res|] acc']; [exact K|]. eapply sent_trans; [exact K|]. apply IH. rewrite E. exact Hq.
  - eapply sent_trans; [exact K|]. apply IH. rewrite E. exact Hq.
Qed.

Lemma exchange_sent {A B} (handle : A -> N -> value -> option (cres B) * A) finish name cmd T w acc :
  S cmd -> sent_in S w (snd (consume LOOPFUEL cfg (start_retry (seq_of name cmd) T) w acc handle finish)).
Proof. intros H. apply consume_sent. cbn [start_retry r_seq]. rewrite q_cmd_seq_of. exact H. Qed.

End Vocabulary.

(* ------------------------------------------------------------------ the requests of the Feig client *)

Definition pending_query : bytes := mk_cmd "zvt::packets::PartialReversal" [] [(135, VSome (VInt 65535))].
Definition reversal_req (cfg : config) (rn : N) : bytes :=
  mk_cmd "zvt::packets::PreAuthReversal" [] [(25, VSome (VInt 64)); (73, VSome (VInt (c_currency cfg))); (135, VSome (VInt rn))].
Definition end_of_day_req (cfg : config) : bytes := mk_cmd "zvt::packets::EndOfDay" [VInt (c_password cfg)] [].
Definition commit_req (cfg : config) (tok : list N) (rn amount : N) : bytes :=
  mk_cmd "zvt::packets::PartialReversal" []
    [(135, VSome (VInt rn)); (73, VSome (VInt (c_currency cfg))); (4, VSome (VInt (c_amount cfg - amount))); (25, VSome (VInt 64)); (6, bmp60 tok)].
Definition reservation_req (cfg : config) (tok : list N) : bytes :=
  mk_cmd "zvt::packets::Reservation" []
    [(73, VSome (VInt (c_currency cfg))); (4, VSome (VInt (c_amount cfg))); (25, VSome (VInt 64)); (6, bmp60 tok)].

(* what every call may write besides its own requests: connection set-up and acknowledgements *)
Definition housekeeping (cfg : config) (b : bytes) : Prop :=
  b = ACK \/ b = registration_cmd cfg \/ b = sysinfo_cmd.

Lemma housekeeping_exchange {A B} cfg (S : bytes -> Prop) (handle : A -> N -> value -> option (cres B) * A) finish name cmd T w acc :
  (forall b, housekeeping cfg b -> S b) -> S cmd ->
  sent_in S w (snd (consume LOOPFUEL cfg (start_retry (seq_of name cmd) T) w acc handle finish)).
Proof.
  intros HK Hc. apply exchange_sent; [apply HK; left; reflexivity|apply HK; right; left; reflexivity|apply HK; right; right; reflexivity|exact Hc].
Qed.

Section Calls.
Variable cfg : config.
Variable S : bytes -> Prop.
Hypothesis HK : forall b, housekeeping cfg b -> S b.

Lemma cancel_by_receipt_sent rn w : S (reversal_req cfg rn) -> sent_in S w (snd (cancel_by_receipt cfg rn w)).
Proof. intros H. unfold cancel_by_receipt. apply housekeeping_exchange; [exact HK|exact H]. Qed.

Lemma get_pending_sent w : S pending_query -> sent_in S w (snd (get_pending cfg w)).
Proof.
  intros H. unfold get_pending.
  match goal with |- context [consume ?f cfg ?r w ?a ?h ?fin] =>
    pose proof (housekeeping_exchange cfg S h fin "zvt::sequences::PartialReversal" pending_query TIMEOUT w a HK H) as K;
    change (consume f cfg r w a h fin) with (consume LOOPFUEL cfg (start_retry (seq_of "zvt::sequences::PartialReversal" pending_query) TIMEOUT) w a h fin);
    destruct (consume LOOPFUEL cfg (start_retry (seq_of "zvt::sequences::PartialReversal" pending_query) TIMEOUT) w a h fin) as [[l|e] w1] end;
    cbn [snd] in K |- *; [exact K|].
  destruct e; cbn [snd]; try exact K. eapply sent_trans; [exact K|apply sent_drop_cur].
Qed.

(* the clean-up chain: the query, reversals (of whatever receipt numbers the terminal reports), end-of-day *)
Lemma end_of_day_sent st w : S pending_query -> (forall rn, S (reversal_req cfg rn)) -> S (end_of_day_req cfg) ->
  sent_in S w (snd (end_of_day cfg st w)).
Proof.
  intros Hq Hr He. unfold end_of_day. pose proof (get_pending_sent w Hq) as K.
  destruct (get_pending cfg w) as [[pend|e] w1]; cbn [snd] in *; [|exact K].
  assert (F : forall (l : list N) (acc : cres unit * world), sent_in S w (snd acc) ->
            sent_in S w (snd (fold_left (fun acc p => match acc with
                                               | (ROk _, w) => cancel_by_receipt cfg p w
                                               | other => other end) l acc))).
  { induction l as [|p l IHl]; intros acc Ha; [exact Ha|]. cbn [fold_left]. apply IHl.
    destruct acc as [[u|e] w0]; cbn [snd] in *; [|exact Ha].
    eapply sent_trans; [exact Ha|apply cancel_by_receipt_sent; apply Hr]. }
  specialize (F pend (ROk tt, w1) K).
  destruct (fold_left _ pend (ROk tt, w1)) as [[u|e] w2]; cbn [snd] in *; [|exact F].
  pose proof (housekeeping_exchange cfg S
                (h_eod (variant_ix "zvt::sequences::EndOfDayResponse" "CompletionData") (variant_ix "zvt::sequences::EndOfDayResponse" "Abort"))
                (fun _ => RErr EIncomplete) "zvt::sequences::EndOfDay" (end_of_day_req cfg) TIMEOUT w2 tt HK He) as K3.
  unfold end_of_day_req in K3.
  destruct (consume _ _ _ w2 tt _ _) as [r3 w3]. cbn [snd] in *. eapply sent_trans; [exact F|exact K3].
Qed.

End Calls.

(* ------------------------------------------------------------------ C19: busy commit / cancel *)

(* with other transactions still open, everything a cancel writes — whatever the terminal does, however often the
   connection has to be re-established — is housekeeping or THE reversal of the receipt recorded for the token *)
Theorem cancel_busy_vocabulary cfg st tok rn w x rest :
  assoc_tok tok (s_txs st) = Some rn -> remove_tok tok (s_txs st) = x :: rest ->
  sent_in (fun b => housekeeping cfg b \/ b = reversal_req cfg rn) w (snd (cancel_transaction cfg st tok w)).
Proof.
  intros Ha Hr. unfold cancel_transaction. rewrite Ha.
  pose proof (cancel_by_receipt_sent cfg (fun b => housekeeping cfg b \/ b = reversal_req cfg rn) (fun b H => or_introl H) rn w (or_intror eq_refl)) as K.
  destruct (cancel_by_receipt cfg rn w) as [[u|e] w1]; cbn [snd] in *; [|exact K].
  cbn [s_txs]. rewrite Hr. exact K.
Qed.

Theorem commit_busy_vocabulary cfg st tok amount rn w x rest :
  assoc_tok tok (s_txs st) = Some rn -> remove_tok tok (s_txs st) = x :: rest ->
  sent_in (fun b => housekeeping cfg b \/ b = commit_req cfg tok rn amount) w (snd (commit_transaction cfg st tok amount w)).
Proof.
  intros Ha Hr. unfold commit_transaction. rewrite Ha.
  match goal with |- context [consume ?f cfg ?r w ?a ?h ?fin] =>
    pose proof (housekeeping_exchange cfg (fun b => housekeeping cfg b \/ b = commit_req cfg tok rn amount) h fin
                  "zvt::sequences::PartialReversal" (commit_req cfg tok rn amount) TIMEOUT w a (fun b H => or_introl H) (or_intror eq_refl)) as K;
    change (consume f cfg r w a h fin) with
      (consume LOOPFUEL cfg (start_retry (seq_of "zvt::sequences::PartialReversal" (commit_req cfg tok rn amount)) TIMEOUT) w a h fin);
    destruct (consume LOOPFUEL cfg (start_retry (seq_of "zvt::sequences::PartialReversal" (commit_req cfg tok rn amount)) TIMEOUT) w a h fin) as [[si|e] w1] end;
    cbn [snd] in K |- *; [|exact K].
  cbn [s_txs]. rewrite Hr. destruct si; exact K.
Qed.

(* a call the token map refuses writes nothing at all *)
Theorem unknown_token_is_silent cfg st tok amount w : assoc_tok tok (s_txs st) = None ->
  snd (commit_transaction cfg st tok amount w) = w /\ snd (cancel_transaction cfg st tok w) = w.
Proof. intros H. unfold commit_transaction, cancel_transaction. rewrite H. split; reflexivity. Qed.

(* going idle: the whole chain's vocabulary *)
Theorem cancel_vocabulary cfg st tok rn w :
  assoc_tok tok (s_txs st) = Some rn ->
  sent_in (fun b => housekeeping cfg b \/ b = pending_query \/ b = end_of_day_req cfg \/ exists r, b = reversal_req cfg r)
          w (snd (cancel_transaction cfg st tok w)).
Proof.
  intros Ha. unfold cancel_transaction. rewrite Ha.
  set (S := fun b => housekeeping cfg b \/ b = pending_query \/ b = end_of_day_req cfg \/ exists r, b = reversal_req cfg r).
  assert (HK : forall b, housekeeping cfg b -> S b) by (intros b H; left; exact H).
  assert (Hrev : forall r, S (reversal_req cfg r)) by (intros r; right; right; right; exists r; reflexivity).
  pose proof (cancel_by_receipt_sent cfg S HK rn w (Hrev rn)) as K.
  destruct (cancel_by_receipt cfg rn w) as [[u|e] w1]; cbn [snd] in *; [|exact K].
  cbn [s_txs]. destruct (remove_tok tok (s_txs st)); [|exact K].
  eapply sent_trans; [exact K|]. apply end_of_day_sent; [exact HK| |exact Hrev|].
  - right; left; reflexivity.
  - right; right; left; reflexivity.
Qed.

(* ------------------------------------------------------------------ telling requests apart: the control field *)

Definition head2 (b : bytes) : option (N * N) := match b with x :: y :: _ => Some (x, y) | _ => None end.
Definition cmd_cf (name : string) : option (N * N) :=
  match find_struct name with Some (Some (c, i), _) => Some (c, i) | _ => None end.

Lemma mk_cmd_head name pos tagged c i : cmd_cf name = Some (c, i) -> c < 256 -> i < 256 ->
  mk_cmd name pos tagged = [] \/ head2 (mk_cmd name pos tagged) = Some (c, i).
Proof.
  intros H Hc Hi. unfold cmd_cf in H. unfold mk_cmd, run_enc. destruct (find_struct name) as [[[[c' i']|] fs]|]; try discriminate.
  injection H as -> ->. unfold enc_cmd. cbn [c_fields].
  destruct (enc_struct fs _) as [pl| | |]; cbn [bind]; try (left; reflexivity).
  unfold framed_enc. destruct (len_ser LAdpu (blen pl)) as [l| | |]; cbn [bind]; try (left; reflexivity).
  right. unfold tag_enc, cf. cbn [c_class c_instr app head2].
  replace ((c * 256 + i) / 256 mod 256) with c by lia. replace ((c * 256 + i) mod 256) with i by lia. reflexivity.
Qed.

Definition is_end_of_day (b : bytes) : Prop := head2 b = Some (6, 80).

Lemma housekeeping_not_eod cfg b : housekeeping cfg b -> ~ is_end_of_day b.
Proof.
  unfold is_end_of_day. intros [ -> | [ -> | -> ] ] E.
  - discriminate.
  - destruct (mk_cmd_head "zvt::packets::Registration" [VInt (c_password cfg); VInt CONFIG_BYTE; VSome (VInt (c_currency cfg))] [] 6 0 eq_refl) as [K|K];
      try lia; unfold registration_cmd in E; rewrite K in E; discriminate.
  - destruct (mk_cmd_head "zvt::feig::packets::CVendFunctions" [VNone; VInt 1] [] 15 161 eq_refl) as [K|K];
      try lia; unfold sysinfo_cmd in E; rewrite K in E; discriminate.
Qed.

(* THE statement of C19's second sentence at the level of the log: while other transactions are open, no write of a
   commit or a cancel is an end-of-day request — for every state, token, amount, world and time *)
Theorem commit_busy_never_requests_end_of_day cfg st tok amount w x rest :
  remove_tok tok (s_txs st) = x :: rest ->
  sent_in (fun b => ~ is_end_of_day b) w (snd (commit_transaction cfg st tok amount w)).
Proof.
  intros Hr. destruct (assoc_tok tok (s_txs st)) as [rn|] eqn:Ha.
  - eapply sent_mono; [|apply (commit_busy_vocabulary cfg st tok amount rn w x rest Ha Hr)].
    intros b [H| ->]; [apply housekeeping_not_eod with cfg; exact H|].
    unfold is_end_of_day, commit_req. intros E.
    match type of E with head2 (mk_cmd ?n ?p ?t) = _ => destruct (mk_cmd_head n p t 6 35 eq_refl) as [K|K]; try lia; rewrite K in E; discriminate end.
  - rewrite (proj1 (unknown_token_is_silent cfg st tok amount w Ha)). apply sent_refl.
Qed.

Theorem cancel_busy_never_requests_end_of_day cfg st tok w x rest :
  remove_tok tok (s_txs st) = x :: rest ->
  sent_in (fun b => ~ is_end_of_day b) w (snd (cancel_transaction cfg st tok w)).
Proof.
  intros Hr. destruct (assoc_tok tok (s_txs st)) as [rn|] eqn:Ha.
  - eapply sent_mono; [|apply (cancel_busy_vocabulary cfg st tok rn w x rest Ha Hr)].
    intros b [H| ->]; [apply housekeeping_not_eod with cfg; exact H|].
    unfold is_end_of_day, reversal_req. intros E.
    match type of E with head2 (mk_cmd ?n ?p ?t) = _ => destruct (mk_cmd_head n p t 6 37 eq_refl) as [K|K]; try lia; rewrite K in E; discriminate end.
  - rewrite (proj2 (unknown_token_is_silent cfg st tok 0 w Ha)). apply sent_refl.
Qed.

(* and the request it is about really is recognised by the predicate: the end-of-day request of every configuration the
   client accepts starts with 06 50 *)
Theorem end_of_day_req_is_end_of_day cfg : c_password cfg < 10 ^ 6 -> is_end_of_day (end_of_day_req cfg).
Proof.
  intros H. destruct (end_of_day_request_on_the_wire cfg H) as [NE _]. unfold is_end_of_day, end_of_day_req.
  destruct (mk_cmd_head "zvt::packets::EndOfDay" [VInt (c_password cfg)] [] 6 80 eq_refl) as [K|K]; try lia; [contradiction|exact K].
Qed.

(* ------------------------------------------------------------------ the vocabulary of every call and of whole histories *)

Definition init_req (cfg : config) : bytes := mk_cmd "zvt::packets::Initialization" [VInt (c_password cfg)] [].
Definition set_tid_req (cfg : config) (n : N) : bytes := mk_cmd "zvt::packets::SetTerminalId" [VInt (c_password cfg)] [(41, VSome (VInt n))].
Definition read_card_req (cfg : config) : bytes :=
  mk_cmd "zvt::packets::ReadCard" [VInt (c_read_card_timeout cfg)]
    [(25, VSome (VInt 16)); (252, VSome (VInt 2));
     (6, VSome (VRec (build_rec (snd (layout_of "zvt::packets::tlv::ReadCard")) [] [(7957, VSome (VInt 208)); (8032, VSome (VInt 7))])))].

(* everything the client can ever put on a wire: ten request forms, their parameters taken from the configuration, the
   token map and the terminal's own reports — in particular never an authorisation or any other payment command *)
Inductive client_vocabulary (cfg : config) : bytes -> Prop :=
| V_house b : housekeeping cfg b -> client_vocabulary cfg b
| V_query : client_vocabulary cfg pending_query
| V_eod : client_vocabulary cfg (end_of_day_req cfg)
| V_reversal rn : client_vocabulary cfg (reversal_req cfg rn)
| V_commit tok rn amount : client_vocabulary cfg (commit_req cfg tok rn amount)
| V_reservation tok : client_vocabulary cfg (reservation_req cfg tok)
| V_init : client_vocabulary cfg (init_req cfg)
| V_set_tid n : n <= 99999999 -> client_vocabulary cfg (set_tid_req cfg n)
| V_read_card : client_vocabulary cfg (read_card_req cfg).

Section History.
Variable cfg : config.
Let V := client_vocabulary cfg.
Let HK : forall b, housekeeping cfg b -> V b := V_house cfg.

Lemma chain_vocabulary st w : sent_in V w (snd (end_of_day cfg st w)).
Proof. apply end_of_day_sent; [exact HK|apply V_query|intros rn; apply V_reversal|apply V_eod]. Qed.

Lemma get_system_info_vocabulary w : sent_in V w (snd (get_system_info cfg w)).
Proof.
  unfold get_system_info.
  match goal with |- context [consume ?f cfg ?r w ?a ?h ?fin] =>
    pose proof (housekeeping_exchange cfg V h fin "zvt::feig::sequences::GetSystemInfo" sysinfo_cmd TIMEOUT w a HK (HK _ (or_intror (or_intror eq_refl)))) as K;
    change (consume f cfg r w a h fin) with (consume LOOPFUEL cfg (start_retry (seq_of "zvt::feig::sequences::GetSystemInfo" sysinfo_cmd) TIMEOUT) w a h fin);
    destruct (consume LOOPFUEL cfg (start_retry (seq_of "zvt::feig::sequences::GetSystemInfo" sysinfo_cmd) TIMEOUT) w a h fin) as [[si|e] w1] end;
    cbn [snd] in K |- *; [|exact K].
  assert (D : sent_in V w (drop_cur w1)) by (eapply sent_trans; [exact K|apply sent_drop_cur]).
  destruct (first_pos si) as [[| dev | | | | | |]|]; cbn [snd]; try exact D.
  destruct (Client.list_eqb _ _); cbn [snd]; [exact K|exact D].
Qed.

Lemma set_terminal_id_vocabulary w : sent_in V w (snd (set_terminal_id cfg w)).
Proof.
  unfold set_terminal_id. pose proof (get_system_info_vocabulary w) as K.
  destruct (get_system_info cfg w) as [[si|e] w1]; cbn [snd] in *; [|exact K].
  destruct (Client.list_eqb _ _); [exact K|]. destruct (digits_value _) as [n|]; [|exact K].
  destruct (99999999 <? n) eqn:E; [exact K|]. eapply sent_trans; [exact K|].
  apply (housekeeping_exchange cfg V); [exact HK|]. apply (V_set_tid cfg n). lia.
Qed.

Lemma initialize_vocabulary w : sent_in V w (snd (initialize cfg w)).
Proof. unfold initialize. apply (housekeeping_exchange cfg V); [exact HK|apply V_init]. Qed.

Lemma configure_vocabulary st w : sent_in V w (snd (configure cfg st w)).
Proof.
  unfold configure. pose proof (set_terminal_id_vocabulary w) as K.
  destruct (set_terminal_id cfg w) as [[u|e] w1]; cbn [snd] in *; [|exact K].
  pose proof (initialize_vocabulary w1) as K2.
  destruct (initialize cfg w1) as [[u2|e] w2]; cbn [snd] in *; [|eapply sent_trans; [exact K|exact K2]].
  eapply sent_trans; [exact K|]. eapply sent_trans; [exact K2|apply chain_vocabulary].
Qed.

Lemma read_card_vocabulary w : sent_in V w (snd (read_card cfg w)).
Proof. unfold read_card. apply (housekeeping_exchange cfg V); [exact HK|apply V_read_card]. Qed.

Lemma begin_vocabulary st tok w : sent_in V w (snd (begin_transaction cfg st tok w)).
Proof.
  unfold begin_transaction. destruct (_ =? _); [apply sent_refl|]. destruct (assoc_tok tok (s_txs st)); [apply sent_refl|].
  match goal with |- context [consume ?f cfg ?r w ?a ?h ?fin] =>
    pose proof (housekeeping_exchange cfg V h fin "zvt::sequences::Reservation" (reservation_req cfg tok) TIMEOUT w a HK (V_reservation cfg tok)) as K;
    change (consume f cfg r w a h fin) with (consume LOOPFUEL cfg (start_retry (seq_of "zvt::sequences::Reservation" (reservation_req cfg tok)) TIMEOUT) w a h fin);
    destruct (consume LOOPFUEL cfg (start_retry (seq_of "zvt::sequences::Reservation" (reservation_req cfg tok)) TIMEOUT) w a h fin) as [[rn|e] w1] end;
    exact K.
Qed.

Lemma cancel_full_vocabulary st tok w : sent_in V w (snd (cancel_transaction cfg st tok w)).
Proof.
  unfold cancel_transaction. destruct (assoc_tok tok (s_txs st)) as [rn|]; [|apply sent_refl].
  pose proof (cancel_by_receipt_sent cfg V HK rn w (V_reversal cfg rn)) as K.
  destruct (cancel_by_receipt cfg rn w) as [[u|e] w1]; cbn [snd] in *; [|exact K].
  destruct (s_txs _); [|exact K]. eapply sent_trans; [exact K|apply chain_vocabulary].
Qed.

Lemma commit_full_vocabulary st tok amount w : sent_in V w (snd (commit_transaction cfg st tok amount w)).
Proof.
  unfold commit_transaction. destruct (assoc_tok tok (s_txs st)) as [rn|]; [|apply sent_refl].
  match goal with |- context [consume ?f cfg ?r w ?a ?h ?fin] =>
    pose proof (housekeeping_exchange cfg V h fin "zvt::sequences::PartialReversal" (commit_req cfg tok rn amount) TIMEOUT w a HK (V_commit cfg tok rn amount)) as K;
    change (consume f cfg r w a h fin) with
      (consume LOOPFUEL cfg (start_retry (seq_of "zvt::sequences::PartialReversal" (commit_req cfg tok rn amount)) TIMEOUT) w a h fin);
    destruct (consume LOOPFUEL cfg (start_retry (seq_of "zvt::sequences::PartialReversal" (commit_req cfg tok rn amount)) TIMEOUT) w a h fin) as [[si|e] w1] end;
    cbn [snd] in K |- *; [|exact K].
  assert (K2 : sent_in V w (snd (match s_txs {| s_txs := remove_tok tok (s_txs st); s_max := s_max st |} with
                          | [] => end_of_day cfg {| s_txs := remove_tok tok (s_txs st); s_max := s_max st |} w1
                          | _ => (ROk tt, {| s_txs := remove_tok tok (s_txs st); s_max := s_max st |}, w1)
                          end))).
  { destruct (s_txs _); [eapply sent_trans; [exact K|apply chain_vocabulary]|exact K]. }
  destruct (match s_txs _ with [] => _ | _ => _ end) as [[r2 st2] w2]. cbn [snd] in K2.
  destruct r2; [|exact K2]. destruct si; exact K2.
Qed.

Lemma run_op_vocabulary st o w : sent_in V w (snd (run_op cfg st o w)).
Proof.
  destruct o; cbn [run_op].
  - pose proof (configure_vocabulary st w) as K. destruct (configure cfg st w) as [[r st'] w']. exact K.
  - pose proof (read_card_vocabulary w) as K. destruct (read_card cfg w) as [r w']. exact K.
  - pose proof (begin_vocabulary st tok w) as K. destruct (begin_transaction cfg st tok w) as [[r st'] w']. exact K.
  - pose proof (commit_full_vocabulary st tok amount w) as K. destruct (commit_transaction cfg st tok amount w) as [[r st'] w']. exact K.
  - pose proof (cancel_full_vocabulary st tok w) as K. destruct (cancel_transaction cfg st tok w) as [[r st'] w']. exact K.
Qed.

Lemma run_ops_vocabulary : forall ops st w acc, sent_in V w (snd (run_ops cfg st ops w acc)).
Proof.
  induction ops as [|o ops IH]; intros st w acc; [apply sent_refl|]. cbn [run_ops].
  pose proof (run_op_vocabulary st o w) as K. destruct (run_op cfg st o w) as [[res st'] w']. cbn [snd] in K.
  eapply sent_trans; [exact K|apply IH].
Qed.

End History.

(* THE theorem: in the complete log of any history of calls against any scripted terminal, every write is one of the ten
   request forms (of the configuration the client runs with: an empty terminal id is replaced by "00000000") *)
Theorem history_vocabulary cfg ops scripts :
  let '(cfg', _, _) := new_client cfg scripts in
  let '(_, _, _, w) := run_history cfg ops scripts in
  forall id t b, In (EWrite id t b) (w_log w) -> client_vocabulary cfg' b.
Proof.
  unfold run_history, new_client.
  set (cfg' := match c_terminal_id cfg with [] => _ | _ => cfg end).
  set (w0 := {| w_conns := []; w_scripts := scripts; w_cur := None; w_now := 0; w_log := [] |}).
  pose proof (configure_vocabulary cfg' {| s_txs := []; s_max := c_max cfg' |} w0) as K.
  destruct (configure cfg' _ w0) as [[r0 st1] w1]. cbn [snd] in K.
  pose proof (run_ops_vocabulary cfg' ops st1 w1 []) as K2.
  destruct (run_ops cfg' st1 ops w1 []) as [[rs st'] w']. cbn [snd] in K2.
  pose proof (sent_trans _ _ _ _ K K2) as [evs [E F]]. cbn [w_log w0] in E. rewrite app_nil_r in E.
  intros id t b H.
  assert (H' : In (EWrite id t b) (w_log w')).
  { destruct (w_cur w') as [c|]; [|exact H]. cbn in H. destruct H as [H|H]; [discriminate|exact H]. }
  rewrite E in H'. eapply F. exact H'.
Qed.

(* no member of the vocabulary is a payment: the control fields that can appear at all *)
Definition vocabulary_heads : list (N * N) := [(128, 0); (6, 0); (15, 161); (6, 35); (6, 80); (6, 37); (6, 34); (6, 147); (6, 27); (6, 192)].
Theorem vocabulary_control_fields cfg b : client_vocabulary cfg b -> b = [] \/ exists h, head2 b = Some h /\ In h vocabulary_heads.
Proof.
  assert (G : forall name pos tagged c i, cmd_cf name = Some (c, i) -> c < 256 -> i < 256 -> In (c, i) vocabulary_heads ->
              mk_cmd name pos tagged = [] \/ exists h, head2 (mk_cmd name pos tagged) = Some h /\ In h vocabulary_heads).
  { intros name pos tagged c i H1 H2 H3 H4. destruct (mk_cmd_head name pos tagged c i H1 H2 H3) as [K|K]; [left; exact K|right; exists (c, i); split; assumption]. }
  intros H. destruct H as [b [ -> | [ -> | -> ] ]| | | | | | | | ];
    unfold registration_cmd, sysinfo_cmd, pending_query, end_of_day_req, reversal_req, commit_req, reservation_req, init_req, set_tid_req, read_card_req.
  - right. exists (128, 0). split; [reflexivity|cbn; tauto].
  - match goal with |- mk_cmd ?n ?p ?t = [] \/ _ => apply (G n p t 6 0 eq_refl); [lia|lia|cbn; tauto] end.
  - match goal with |- mk_cmd ?n ?p ?t = [] \/ _ => apply (G n p t 15 161 eq_refl); [lia|lia|cbn; tauto] end.
  - match goal with |- mk_cmd ?n ?p ?t = [] \/ _ => apply (G n p t 6 35 eq_refl); [lia|lia|cbn; tauto] end.
  - match goal with |- mk_cmd ?n ?p ?t = [] \/ _ => apply (G n p t 6 80 eq_refl); [lia|lia|cbn; tauto] end.
  - match goal with |- mk_cmd ?n ?p ?t = [] \/ _ => apply (G n p t 6 37 eq_refl); [lia|lia|cbn; tauto] end.
  - match goal with |- mk_cmd ?n ?p ?t = [] \/ _ => apply (G n p t 6 35 eq_refl); [lia|lia|cbn; tauto] end.
  - match goal with |- mk_cmd ?n ?p ?t = [] \/ _ => apply (G n p t 6 34 eq_refl); [lia|lia|cbn; tauto] end.
  - match goal with |- mk_cmd ?n ?p ?t = [] \/ _ => apply (G n p t 6 147 eq_refl); [lia|lia|cbn; tauto] end.
  - match goal with |- mk_cmd ?n ?p ?t = [] \/ _ => apply (G n p t 6 27 eq_refl); [lia|lia|cbn; tauto] end.
  - match goal with |- mk_cmd ?n ?p ?t = [] \/ _ => apply (G n p t 6 192 eq_refl); [lia|lia|cbn; tauto] end.
Qed.

(* ------------------------------------------------------------------ the clean-up chain, event by event *)

(* an Ok item comes off a connection that is still the current one *)
Lemma retry_next_ok_cur cfg : forall fuel r w i v r' w',
  retry_next fuel cfg r w = (Some (IOk i v), r', w') -> exists id, w_cur w' = Some id.
Proof.
  induction fuel as [|f IH]; intros r w i v r' w' H; [discriminate|]. cbn [retry_next] in H. destruct (r_ph r) eqn:P.
  - destruct (r_left r) as [|lft]; [discriminate|].
    destruct (w_cur (at_time w _)) as [id|]; [eapply IH; exact H|].
    destruct (connect cfg _ _) as [id w1|what w1]; [eapply IH; exact H|discriminate].
  - destruct (w_cur w) as [id|] eqn:C; [|discriminate].
    pose proof (seq_next_cur (r_seq r) id ph (w_now w + r_timeout r) w) as K.
    destruct (seq_next (r_seq r) id ph (w_now w + r_timeout r) w) as [[i0 v0|e] ph' w1|w1|w1]; try discriminate.
    + injection H as _ _ _ <-. exists id. rewrite K. exact C.
    + eapply IH; exact H.
  - eapply IH; exact H.
  - discriminate.
Qed.

(* so an exchange whose ONLY way to succeed is its handler's verdict on a reply hands back a live connection *)
Lemma consume_ok_cur {A B} cfg (h : A -> N -> value -> option (cres B) * A) fin :
  (forall a x, fin a <> ROk x) ->
  forall fuel r w acc x w', consume fuel cfg r w acc h fin = (ROk x, w') -> exists id, w_cur w' = Some id.
Proof.
  intros Hf. induction fuel as [|f IH]; intros r w acc x w' H.
  { cbn [consume] in H. injection H as H _. exfalso. exact (Hf _ _ H). }
  rewrite consume_S in H.
  destruct (retry_next RFUEL cfg r w) as [[[[i v|e]|] r1] w1] eqn:E.
  - destruct (h acc i v) as [[res|] acc'].
    + injection H as _ <-. eapply retry_next_ok_cur. exact E.
    + eapply IH. exact H.
  - eapply IH. exact H.
  - injection H as H _. exfalso. exact (Hf _ _ H).
Qed.

Local Strategy 1000 [consume retry_next RFUEL LOOPFUEL].

Lemma get_pending_ok_cur cfg w l w1 : get_pending cfg w = (ROk l, w1) -> exists id, w_cur w1 = Some id.
Proof.
  unfold get_pending. intros H.
  match type of H with context [consume ?f cfg ?r w ?a0 ?h ?fin] =>
    assert (Hf : forall (u : unit) (x : list N), fin u <> ROk x) by (intros u x E; discriminate E);
    pose proof (consume_ok_cur cfg h fin Hf f r w a0) as K; destruct (consume f cfg r w a0 h fin) as [[l0|e] w0] end.
  - injection H as _ <-. eapply K. reflexivity.
  - destruct e; discriminate.
Qed.

Lemma cancel_by_receipt_ok_cur cfg rn w u w1 : cancel_by_receipt cfg rn w = (ROk u, w1) -> exists id, w_cur w1 = Some id.
Proof. unfold cancel_by_receipt. intros H. eapply (consume_ok_cur cfg); [|exact H]. intros a x E. discriminate E. Qed.

Lemma first_new_of_grows w w' e : grows (e :: w_log w) w' -> first_new_event w w' e.
Proof. intros [ws E]. exists ws. exact E. Qed.

(* nothing dangling: the end-of-day request is the very next event after the query's exchange, on the same connection *)
Theorem idle_chain_then_requests_end_of_day cfg w w1 : get_pending cfg w = (ROk [], w1) ->
  exists id, w_cur w1 = Some id /\
    first_new_event w1 (snd (eod_exchange cfg w1)) (EWrite id (w_now w1) (end_of_day_req cfg)).
Proof.
  intros H. destruct (get_pending_ok_cur cfg w [] w1 H) as [id C]. exists id. split; [exact C|].
  apply first_new_of_grows. unfold eod_exchange.
  pose proof (call_writes_request_first cfg
                (h_eod (variant_ix "zvt::sequences::EndOfDayResponse" "CompletionData") (variant_ix "zvt::sequences::EndOfDayResponse" "Abort"))
                (fun _ => RErr EIncomplete) (seq_of "zvt::sequences::EndOfDay" (end_of_day_req cfg)) TIMEOUT id 399 w1 tt C) as K.
  change (S 399) with LOOPFUEL in K. rewrite q_cmd_seq_of in K. exact K.
Qed.

(* a dangling pre-authorisation: its reversal is the very next event, and once the terminal completed that, the end-of-day request *)
Theorem idle_chain_reverses_the_reported_one cfg w p w1 : get_pending cfg w = (ROk [p], w1) ->
  exists id, w_cur w1 = Some id /\
    first_new_event w1 (snd (cancel_by_receipt cfg p w1)) (EWrite id (w_now w1) (reversal_req cfg p)).
Proof.
  intros H. destruct (get_pending_ok_cur cfg w [p] w1 H) as [id C]. exists id. split; [exact C|].
  apply first_new_of_grows. unfold cancel_by_receipt.
  pose proof (call_writes_request_first cfg
                (h_until_completion (variant_ix "zvt::sequences::PartialReversalResponse" "CompletionData") (variant_ix "zvt::sequences::PartialReversalResponse" "PartialReversalAbort"))
                (fun _ => RErr EIncomplete) (seq_of "zvt::sequences::PreAuthReversal" (reversal_req cfg p)) TIMEOUT id 399 w1 tt C) as K.
  change (S 399) with LOOPFUEL in K. rewrite q_cmd_seq_of in K. exact K.
Qed.
Theorem idle_chain_after_reversal_requests_end_of_day cfg p w1 u w2 : cancel_by_receipt cfg p w1 = (ROk u, w2) ->
  exists id, w_cur w2 = Some id /\
    first_new_event w2 (snd (eod_exchange cfg w2)) (EWrite id (w_now w2) (end_of_day_req cfg)).
Proof.
  intros H. destruct (cancel_by_receipt_ok_cur cfg p w1 u w2 H) as [id C]. exists id. split; [exact C|].
  apply first_new_of_grows. unfold eod_exchange.
  pose proof (call_writes_request_first cfg
                (h_eod (variant_ix "zvt::sequences::EndOfDayResponse" "CompletionData") (variant_ix "zvt::sequences::EndOfDayResponse" "Abort"))
                (fun _ => RErr EIncomplete) (seq_of "zvt::sequences::EndOfDay" (end_of_day_req cfg)) TIMEOUT id 399 w2 tt C) as K.
  change (S 399) with LOOPFUEL in K. rewrite q_cmd_seq_of in K. exact K.
Qed.

(* and a cancel that the terminal completed hands the chain a live connection: the query goes out at once on it *)
Theorem completed_cancel_then_queries cfg st w rn w1 u : cancel_by_receipt cfg rn w = (ROk u, w1) ->
  exists id, w_cur w1 = Some id /\ exists req : list N, req <> nil /\
    first_new_event w1 (snd (end_of_day cfg st w1)) (EWrite id (w_now w1) req) /\
    forall r, dec_cmd FUEL (cmd_of "zvt::packets::PartialReversal") (req ++ r) = Ok (pending_query_value, r).
Proof.
  intros H. destruct (cancel_by_receipt_ok_cur cfg rn w u w1 H) as [id C]. exists id. split; [exact C|].
  exact (end_of_day_first_asks_for_pending cfg st w1 id C).
Qed.

(* ------------------------------------------------------------------ begin / read card: nothing but their own request *)

Theorem begin_exact_vocabulary cfg st tok w :
  sent_in (fun b => housekeeping cfg b \/ b = reservation_req cfg tok) w (snd (begin_transaction cfg st tok w)).
Proof.
  unfold begin_transaction. destruct (_ =? _); [apply sent_refl|]. destruct (assoc_tok tok (s_txs st)); [apply sent_refl|].
  match goal with |- context [consume ?f cfg ?r w ?a ?h ?fin] =>
    pose proof (housekeeping_exchange cfg (fun b => housekeeping cfg b \/ b = reservation_req cfg tok) h fin
                  "zvt::sequences::Reservation" (reservation_req cfg tok) TIMEOUT w a (fun b H => or_introl H) (or_intror eq_refl)) as K;
    change (consume f cfg r w a h fin) with (consume LOOPFUEL cfg (start_retry (seq_of "zvt::sequences::Reservation" (reservation_req cfg tok)) TIMEOUT) w a h fin);
    destruct (consume LOOPFUEL cfg (start_retry (seq_of "zvt::sequences::Reservation" (reservation_req cfg tok)) TIMEOUT) w a h fin) as [[rn|e] w1] end;
    exact K.
Qed.

(* a begin the token map refuses (map full, token in use) writes nothing at all *)
Theorem refused_begin_is_silent cfg st tok w :
  N.of_nat (length (s_txs st)) = s_max st \/ assoc_tok tok (s_txs st) <> None ->
  snd (begin_transaction cfg st tok w) = w.
Proof.
  intros H. unfold begin_transaction. destruct (N.of_nat (length (s_txs st)) =? s_max st) eqn:E; [reflexivity|].
  destruct H as [H|H]; [lia|]. destruct (assoc_tok tok (s_txs st)); [reflexivity|contradiction].
Qed.

Theorem read_card_exact_vocabulary cfg w :
  sent_in (fun b => housekeeping cfg b \/ b = read_card_req cfg) w (snd (read_card cfg w)).
Proof.
  unfold read_card. apply (housekeeping_exchange cfg (fun b => housekeeping cfg b \/ b = read_card_req cfg)); [intros b H; left; exact H|right; reflexivity].
Qed.
