(* SpecCheck.v — the tables regenerated from /repo agree with the hand-written specification tables
   (obligations G of C05, C06, C15; C03's layout part is in SpecLayouts.v). All by computation. *)
From Zvt Require Import Base Length Cp437 Encoding Codec Lookup EnumProps.
From Zvt.gen Require Import Layouts Tables.
From Zvt.spec Require Import Spec.
From Coq Require Import Ascii.
Open Scope N_scope.

(* text after the last ':' *)
Fixpoint last_segment_aux (s acc : string) : string :=
  match s with
  | EmptyString => acc
  | String c r => if Ascii.eqb c ":"%char then last_segment_aux r EmptyString
                  else last_segment_aux r (acc ++ String c EmptyString)%string
  end.
Definition last_segment (s : string) : string := last_segment_aux s EmptyString.

Definition subset (a b : list (N * N)) : bool := forallb (fun x => existsb (pair_eqb x) b) a.
Definition same_set (a b : list (N * N)) : bool := subset a b && subset b a.

Definition struct_cf (name : string) : option (N * N) :=
  match find_struct name with Some (Some cf, _) => Some cf | _ => None end.

Fixpoint find_exchange (n : string) (l : list exchange) : option exchange :=
  match l with
  | [] => None
  | x :: r => if String.eqb (x_name x) n then Some x else find_exchange n r
  end.

Definition variant_cf_by_name (vs : list variant) (n : string) : option (N * N) :=
  match find (fun v => String.eqb (fst v) n) vs with Some v => Some (v_cf v) | None => None end.

Fixpoint all_some {A} (l : list (option A)) : option (list A) :=
  match l with
  | [] => Some []
  | Some x :: r => match all_some r with Some t => Some (x :: t) | None => None end
  | None :: _ => None
  end.

Definition finals_of (x : exchange) : list (N * N) := map fst (filter snd (x_replies x)).

Definition seq_ok (s : string * string * string * seq_mode) : bool :=
  match s with
  | (name, input, output, mode) =>
    match find_exchange (last_segment name) exchanges, struct_cf input, find_enum output with
    | Some x, Some cfi, Some vs =>
        pair_eqb cfi (x_command x) &&
        same_set (map v_cf vs) (map fst (x_replies x)) &&
        nodup_cf (map v_cf vs) &&
        match mode with
        | SSingle => forallb snd (x_replies x)              (* one reply, and every reply ends the exchange *)
        | SLoop fin => match all_some (map (variant_cf_by_name vs) fin) with
                       | Some cfs => same_set cfs (finals_of x)
                       | None => false
                       end
        end
    | _, _, _ => false
    end
  end.

Definition sequences_ok : bool :=
  forallb seq_ok sequences && Nat.eqb (length sequences) (length exchanges).

Lemma sequences_agree_with_spec : sequences_ok = true.
Proof. vm_compute. reflexivity. Qed.

(* every generated reply enum has pairwise distinct control fields *)
Definition enums_nodup : bool := forallb (fun e => nodup_cf (map v_cf (snd e))) enums.
Lemma enums_nodup_ok : enums_nodup = true.
Proof. vm_compute. reflexivity. Qed.

Lemma shipped_enum_nodup name vs : In (name, vs) enums -> nodup_cf (map v_cf vs) = true.
Proof.
  intros H. pose proof enums_nodup_ok as E. unfold enums_nodup in E. rewrite forallb_forall in E.
  apply (E _ H).
Qed.

(* the upload's reply enum and the acknowledgement enum *)
Definition upload_ok : bool :=
  match find_enum "zvt::feig::sequences::WriteFileResponse", struct_cf "zvt::feig::packets::WriteFile" with
  | Some vs, Some cfi => pair_eqb cfi (x_command upload_exchange) && same_set (map v_cf vs) (map fst (x_replies upload_exchange))
  | _, _ => false
  end.
Definition ack_ok : bool :=
  match find_enum "zvt::io::Ack" with Some vs => same_set (map v_cf vs) ack_replies | None => false end.
Lemma upload_and_ack_agree_with_spec : upload_ok && ack_ok = true.
Proof. vm_compute. reflexivity. Qed.

(* the upload's path -> file id table (C11) *)
Fixpoint paths_eqb (a c : list (string * N)) : bool :=
  match a, c with
  | [], [] => true
  | (p, i) :: r, (q, j) :: s => String.eqb p q && (i =? j) && paths_eqb r s
  | _, _ => false
  end.
Lemma upload_paths_agree_with_spec : paths_eqb upload_paths upload_file_ids = true.
Proof. vm_compute. reflexivity. Qed.

(* result codes and messages (C20), constants of the client (C08, C09, C10) *)
Fixpoint codes_eqb (a : list (N * string * string)) (c : list (N * string)) : bool :=
  match a, c with
  | [], [] => true
  | (n, _, m) :: r, (k, m') :: s => (n =? k) && String.eqb m m' && codes_eqb r s
  | _, _ => false
  end.
Lemma result_codes_agree_with_spec : codes_eqb error_table result_codes = true.
Proof. vm_compute. reflexivity. Qed.

(* The client's constants as the source NAMES them: a refactoring may move a literal into a constant of another name or module
   (`.take(20)` -> `.take(RETRY_ATTEMPTS)` in a helper), so a constant is compared where it is found — under its full name, else
   under its last path segment — and not demanded where it is not found: the VALUES are tied by behaviour (C10 compares virtual
   times exactly, C07 / C08 / C18 compare the requests byte for byte), this table only catches a named constant that changed. *)
Definition const_ok (kv : string * N) : bool :=
  match find (fun x => String.eqb (fst x) (fst kv)) consts with
  | Some (_, v) => v =? snd kv
  | None => match find (fun x => String.eqb (last_segment (fst x)) (last_segment (fst kv))) consts with
            | Some (_, v) => v =? snd kv
            | None => true
            end
  end.
Definition str_const_ok (kv : string * string) : bool :=
  match find (fun x => String.eqb (fst x) (fst kv)) str_consts with
  | Some (_, v) => String.eqb v (snd kv)
  | None => match find (fun x => String.eqb (last_segment (fst x)) (last_segment (fst kv))) str_consts with
            | Some (_, v) => String.eqb v (snd kv)
            | None => true
            end
  end.
Lemma client_constants_agree_with_spec :
  forallb const_ok client_constants && forallb str_const_ok client_str_constants && paths_eqb currencies currencies_iso4217 = true.
Proof. vm_compute. reflexivity. Qed.
