(* NestedFinding.v — the open finding of C13 (DESIGN 16.2 / 16.8, known_findings.json): a tag the NESTED container type does not
   know hands the unread rest of the container to the enclosing level; when its number is a field of the enclosing struct that
   has not been seen yet, the bytes behind it are decoded as that field.  Witnesses on a small layout and on the shipped
   StatusInformation (regenerated layout), and the harmless case (a tag no level knows) for contrast. *)
From Zvt Require Import Base Length Cp437 Encoding Codec Lookup Client.
From Zvt.gen Require Import Layouts Tables.
Open Scope N_scope.

Definition nf_inner : list field := [Fld "uid" (Some 76) LTlv EHex (TOpt (TPrim PString))].
Definition nf_outer : list field :=
  [Fld "amount" (Some 4) (LFixed 6) EBcd (TOpt (TPrim (PInt 8)));
   Fld "tlv" (Some 6) LTlv EDefault (TOpt (TStruct nf_inner))].

(* 06 07 [04 00 00 00 00 01 23]: the container holds nothing it knows; the foreign tag 04 in it is the enclosing amount's number *)
Lemma nested_collision_witness :
  dec_struct FUEL nf_outer [6; 7; 4; 0; 0; 0; 0; 1; 35] = Ok (VRec [VSome (VInt 123); VSome (VRec [VNone])], [])
  /\ (* the bytes preceding the foreign tag, the container closed there: no amount *)
  dec_struct FUEL nf_outer [6; 0] = Ok (VRec [VNone; VSome (VRec [VNone])], []).
Proof. split; vm_compute; reflexivity. Qed.

(* a tag no level knows: the value of the bytes preceding it, the tag and what follows handed back — as C13 wants it *)
Lemma nested_foreign_harmless :
  dec_struct FUEL nf_outer [6; 7; 9; 0; 0; 0; 0; 1; 35] = Ok (VRec [VNone; VSome (VRec [VNone])], [9; 0; 0; 0; 0; 1; 35]).
Proof. vm_compute. reflexivity. Qed.

(* the same on the shipped packet: 04 0F 0B | 27 00 | 06 07 [04 00 00 00 00 01 23] *)
Lemma nested_collision_status_information :
  exists v, fst (match run_dec "zvt::packets::StatusInformation" [4; 15; 11; 39; 0; 6; 7; 4; 0; 0; 0; 0; 1; 35] with
                 | Some x => x | None => (Err NonImplemented, Err NonImplemented) end) = Ok (v, [])
            /\ field_of "zvt::packets::StatusInformation" v 4 = Some (VSome (VInt 123)).
Proof. eexists. split; vm_compute; reflexivity. Qed.

(* the open finding of C02 (the same remainder rule): a binary integer announced wider than its field — 1A 03 01 00 00 into the
   big-endian u16 of the registration container — is read from its first bytes, the rest handed back; the property wants an error *)
Lemma wide_integer_witness :
  fst (match run_dec "zvt::packets::tlv::Registration" [26; 3; 1; 0; 0] with
       | Some x => x | None => (Err NonImplemented, Err NonImplemented) end) = Ok (VRec [VSome (VInt 256)], [0]).
Proof. vm_compute. reflexivity. Qed.
