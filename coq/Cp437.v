(* Cp437.v — the upper half of code page 437 (IBM PC), byte 0x80+i |-> Unicode code point.
   Bytes 0x00..0x7F map to themselves (yore::code_pages::CP437, as exercised exhaustively by the
   C17 correspondence run: all 256 bytes are decoded by the real crate and compared). *)
From Zvt Require Import Base.
Open Scope N_scope.

Definition cp437_high : list N := [
  199; 252; 233; 226; 228; 224; 229; 231;
  234; 235; 232; 239; 238; 236; 196; 197;
  201; 230; 198; 244; 246; 242; 251; 249;
  255; 214; 220; 162; 163; 165; 8359; 402;
  225; 237; 243; 250; 241; 209; 170; 186;
  191; 8976; 172; 189; 188; 161; 171; 187;
  9617; 9618; 9619; 9474; 9508; 9569; 9570; 9558;
  9557; 9571; 9553; 9559; 9565; 9564; 9563; 9488;
  9492; 9524; 9516; 9500; 9472; 9532; 9566; 9567;
  9562; 9556; 9577; 9574; 9568; 9552; 9580; 9575;
  9576; 9572; 9573; 9561; 9560; 9554; 9555; 9579;
  9578; 9496; 9484; 9608; 9604; 9612; 9616; 9600;
  945; 223; 915; 960; 931; 963; 181; 964;
  934; 920; 937; 948; 8734; 966; 949; 8745;
  8801; 177; 8805; 8804; 8992; 8993; 247; 8776;
  176; 8729; 183; 8730; 8319; 178; 9632; 160].

Definition cp437_of_byte (b : N) : N :=
  if b <? 128 then b else nth (N.to_nat (b - 128)) cp437_high 0.

Fixpoint index_of (c : N) (l : list N) (i : N) : option N :=
  match l with
  | [] => None
  | x :: r => if x =? c then Some i else index_of c r (i + 1)
  end.

Definition byte_of_cp437 (c : N) : option N :=
  if c <? 128 then Some c else index_of c cp437_high 128.
