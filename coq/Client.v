(* Client.v — mirrors zvt_feig_terminal/src/stream.rs (into_stream_with_retry, inner::connect) and
   zvt_feig_terminal/src/feig.rs (the Feig methods), over a simulated terminal with VIRTUAL TIME:
   every await of the Rust is a model step that either completes at a computed time or never does;
   every await is covered by a deadline (after the fixes of F6/F7), so "never" becomes a timeout.
   All times are milliseconds. *)
From Zvt Require Import Base Length Cp437 Encoding Codec Lookup Transport Sequence SeqLookup.
From Zvt.gen Require Import Layouts Tables.
Open Scope N_scope.

(* ------------------------------------------------------------------ environment *)

(* one scripted connection: refused, or timed chunks (delay since the previous chunk / since the
   connection was opened; None = silence from then on), then either the peer closes or stays silent *)
Record cscript := { cs_refused : bool; cs_chunks : list (option N * bytes); cs_close : bool;
                    cs_silent : bool }.   (* the connection attempt itself is never answered (neither accepted nor refused) *)

Record conn := { k_queue : list (option N * bytes); (* absolute availability *)
                 k_close : bool;
                 k_buf : bytes }.                    (* arrived, not yet read *)

Inductive event :=
| EOpen (id t : N)
| ERefused (t : N)
| EWrite (id t : N) (b : bytes)
| EDrop (id t : N).

Record world := { w_conns : list conn;            (* every connection opened so far, by id *)
                  w_scripts : list cscript;        (* connections not yet opened *)
                  w_cur : option N;                (* TcpStream.inner: the connection in use *)
                  w_now : N;
                  w_log : list event }.            (* newest first *)

Definition logw (w : world) (e : event) : world :=
  {| w_conns := w_conns w; w_scripts := w_scripts w; w_cur := w_cur w; w_now := w_now w; w_log := e :: w_log w |}.
Definition at_time (w : world) (t : N) : world :=
  {| w_conns := w_conns w; w_scripts := w_scripts w; w_cur := w_cur w; w_now := t; w_log := w_log w |}.
Definition set_cur (w : world) (c : option N) : world :=
  {| w_conns := w_conns w; w_scripts := w_scripts w; w_cur := c; w_now := w_now w; w_log := w_log w |}.

Fixpoint set_conn (l : list conn) (i : nat) (c : conn) : list conn :=
  match l, i with
  | [], _ => []
  | _ :: r, O => c :: r
  | x :: r, S i => x :: set_conn r i c
  end.
Definition put_conn (w : world) (id : N) (c : conn) : world :=
  {| w_conns := set_conn (w_conns w) (N.to_nat id) c; w_scripts := w_scripts w; w_cur := w_cur w;
     w_now := w_now w; w_log := w_log w |}.
Definition get_conn (w : world) (id : N) : conn :=
  nth (N.to_nat id) (w_conns w) {| k_queue := []; k_close := true; k_buf := [] |}.

(* ------------------------------------------------------------------ timed reads *)

Inductive rx_res := RxOk (got : bytes) (t : N) (c : conn) | RxEof (t : N) | RxNever.

(* read_exact(n) at time t: data already arrived is taken at once; otherwise wait for the next chunk *)
Fixpoint rx_t (fuel : nat) (c : conn) (n : N) (t : N) : rx_res :=
  if n <=? blen (k_buf c) then
    RxOk (take n (k_buf c)) t {| k_queue := k_queue c; k_close := k_close c; k_buf := drop n (k_buf c) |}
  else
    match fuel with
    | O => RxNever
    | S f =>
        match k_queue c with
        | [] => if k_close c then RxEof t else RxNever
        | (None, _) :: _ => RxNever
        | (Some a, b) :: q => rx_t f {| k_queue := q; k_close := k_close c; k_buf := k_buf c ++ b |} n (N.max t a)
        end
    end.

Inductive rp_res := RpFrame (f : bytes) (t : N) (c : conn) | RpEof (t : N) | RpNever.

Definition read_packet_t (c : conn) (t : N) : rp_res :=
  let fuel := S (length (k_queue c)) in
  match rx_t fuel c 3 t with
  | RxOk [b0; b1; b2] t1 c1 =>
      if b2 =? 255 then
        match rx_t fuel c1 2 t1 with
        | RxOk [lo; hi] t2 c2 =>
            match rx_t fuel c2 (hi * 256 + lo) t2 with
            | RxOk body t3 c3 => RpFrame ([b0; b1; b2; lo; hi] ++ body) t3 c3
            | RxEof t3 => RpEof t3
            | _ => RpNever
            end
        | RxEof t2 => RpEof t2
        | _ => RpNever
        end
      else
        match rx_t fuel c1 b2 t1 with
        | RxOk body t2 c2 => RpFrame ([b0; b1; b2] ++ body) t2 c2
        | RxEof t2 => RpEof t2
        | _ => RpNever
        end
  | RxEof t1 => RpEof t1
  | _ => RpNever
  end.

(* ------------------------------------------------------------------ one sequence, poll by poll *)

Inductive item := IOk (i : N) (v : value) | IErr (what : N).   (* what: 0 io / 1 parse / 2 connect / 3 connect timeout *)

Inductive phase := PStart | PLoop | PDone.

Record seqdef := { q_cmd : bytes; q_replies : list variant; q_mode : mode }.

Inductive next_res :=
| NItem (it : item) (ph : phase) (w : world)
| NEnd (w : world)
| NTimeout (w : world).            (* the deadline passed inside this poll; w_now = deadline *)

Definition write_t (w : world) (id : N) (b : bytes) : world := logw w (EWrite id (w_now w) b).

(* read_packet::<T>() on connection id, with a deadline *)
Definition read_parse (w : world) (id : N) (vs : list variant) (deadline : N)
  : (option (res (N * value) * world) + world)%type (* inr: timed out *) :=
  match read_packet_t (get_conn w id) (w_now w) with
  | RpFrame f t c =>
      if t <=? deadline then inl (Some (parse_enum FUEL vs f, at_time (put_conn w id c) t))
      else inr (at_time w deadline)
  | RpEof t => if t <=? deadline then inl (None) else inr (at_time w deadline)
  | RpNever => inr (at_time w deadline)
  end.

Definition is_final (m : mode) (i : N) : bool := match m with Single => true | Loop f => f i end.

(* one `stream.next()` of <S as Sequence>::into_stream *)
Definition seq_next (q : seqdef) (id : N) (ph : phase) (deadline : N) (w : world) : next_res :=
  let reply w :=
    match read_parse w id (q_replies q) deadline with
    | inr w' => NTimeout w'
    | inl None => NItem (IErr 0) PDone w
    | inl (Some (Ok (i, v), w1)) =>
        let w2 := write_t w1 id ACK in
        NItem (IOk i v) (if is_final (q_mode q) i then PDone else PLoop) w2
    | inl (Some (_, w1)) => NItem (IErr 1) PDone w1
    end in
  match ph with
  | PDone => NEnd w
  | PLoop => reply w
  | PStart =>
      let w0 := write_t w id (q_cmd q) in
      match read_parse w0 id ack_enum deadline with
      | inr w' => NTimeout w'
      | inl None => NItem (IErr 0) PDone w0
      | inl (Some (Ok _, w1)) => reply w1
      | inl (Some (_, w1)) => NItem (IErr 1) PDone w1
      end
  end.

(* ------------------------------------------------------------------ configuration *)

Record config := { c_serial : list N; c_terminal_id : list N; c_currency : N; c_amount : N;
                   c_read_card_timeout : N; c_password : N; c_max : N }.

Definition lower (c : N) : N := if (65 <=? c) && (c <=? 90) then c + 32 else c.
Definition upper (c : N) : N := if (97 <=? c) && (c <=? 122) then c - 32 else c.
Fixpoint list_eqb (a b : list N) : bool :=
  match a, b with
  | [], [] => true
  | x :: r, y :: s => (x =? y) && list_eqb r s
  | _, _ => false
  end.

(* ------------------------------------------------------------------ requests, by tag / position of the regenerated layouts *)

Definition layout_of (name : string) : option (N * N) * list field :=
  match find_struct name with Some x => x | None => (None, []) end.

Fixpoint build_rec (fs : list field) (pos : list value) (tagged : list (N * value)) : list value :=
  match fs with
  | [] => []
  | Fld _ None _ _ t :: r =>
      match pos with
      | v :: pr => v :: build_rec r pr tagged
      | [] => default_value t :: build_rec r [] tagged
      end
  | Fld _ (Some tg) _ _ t :: r =>
      (match find (fun x => fst x =? tg) tagged with Some (_, v) => v | None => default_value t end)
      :: build_rec r pos tagged
  end.

Definition mk_cmd (name : string) (pos : list value) (tagged : list (N * value)) : bytes :=
  match run_enc name (VRec (build_rec (snd (layout_of name)) pos tagged)) with
  | Some (Ok b) => b
  | _ => []
  end.

Fixpoint get_tagged (fs : list field) (vals : list value) (tg : N) : option value :=
  match fs, vals with
  | Fld _ (Some t0) _ _ _ :: r, v :: vr => if t0 =? tg then Some v else get_tagged r vr tg
  | _ :: r, _ :: vr => get_tagged r vr tg
  | _, _ => None
  end.
Definition field_of (name : string) (v : value) (tg : N) : option value :=
  match v with VRec vals => get_tagged (snd (layout_of name)) vals tg | _ => None end.
Definition first_pos (v : value) : option value := match v with VRec (x :: _) => Some x | _ => None end.

Definition seq_of (name : string) (cmd : bytes) : seqdef :=
  match find_seq name sequences with
  | Some (_, o, m) => let vs := match find_enum o with Some v => v | None => [] end in
                      {| q_cmd := cmd; q_replies := vs; q_mode := mode_of vs m |}
  | None => {| q_cmd := cmd; q_replies := []; q_mode := Single |}
  end.

Definition variant_ix (enum vn : string) : N :=
  match find_enum enum with
  | Some vs => match index_of_variant vn vs 0 with Some i => i | None => 999 end
  | None => 999
  end.

(* ------------------------------------------------------------------ inner::connect (under the attempt's timeout) *)

Definition CONFIG_BYTE : N := 222.   (* 0xde; checked against gen.Tables.consts in ClientCheck *)

Definition registration_cmd (cfg : config) : bytes :=
  mk_cmd "zvt::packets::Registration" [VInt (c_password cfg); VInt CONFIG_BYTE; VSome (VInt (c_currency cfg))] [].
Definition sysinfo_cmd : bytes := mk_cmd "zvt::feig::packets::CVendFunctions" [VNone; VInt 1] [].

Inductive conn_res := COk (id : N) (w : world) | CErr (what : N) (w : world).

Definition drop_conn (w : world) (id : N) : world := logw w (EDrop id (w_now w)).

Definition connect (cfg : config) (deadline : N) (w : world) : conn_res :=
  match w_scripts w with
  | [] => CErr 2 (logw w (ERefused (w_now w)))
  | s :: rest =>
      let w := {| w_conns := w_conns w; w_scripts := rest; w_cur := w_cur w; w_now := w_now w; w_log := w_log w |} in
      if cs_refused s then CErr 2 (logw w (ERefused (w_now w))) else
      (* tokio::time::timeout(timeout, inner::connect(..)): an attempt nobody answers ends at the deadline *)
      if cs_silent s then CErr 3 (at_time (logw w (ERefused (w_now w))) deadline) else
      let id := N.of_nat (length (w_conns w)) in
      let open := w_now w in
      let q := (fix go (l : list (option N * bytes)) (at_ : option N) : list (option N * bytes) :=
                  match l with
                  | [] => []
                  | (d, b) :: r => let a := match at_, d with Some a, Some d => Some (a + d) | _, _ => None end in
                                   (a, b) :: go r a
                  end) (cs_chunks s) (Some open) in
      let w := {| w_conns := w_conns w ++ [{| k_queue := q; k_close := cs_close s; k_buf := [] |}];
                  w_scripts := w_scripts w; w_cur := w_cur w; w_now := w_now w; w_log := EOpen id open :: w_log w |} in
      (* Registration: while let Some(response) = stream.next().await { response?; } *)
      let reg := seq_of "zvt::sequences::Registration" (registration_cmd cfg) in
      match seq_next reg id PStart deadline w with
      | NTimeout w' => CErr 3 (drop_conn w' id)
      | NEnd w' => CErr 2 (drop_conn w' id)
      | NItem (IErr _) _ w' => CErr 2 (drop_conn w' id)
      | NItem (IOk _ _) _ w1 =>
          (* the second poll returns None without I/O; then the identity check *)
          let si := seq_of "zvt::feig::sequences::GetSystemInfo" sysinfo_cmd in
          match seq_next si id PStart deadline w1 with
          | NTimeout w' => CErr 3 (drop_conn w' id)
          | NEnd w' => CErr 2 (drop_conn w' id)
          | NItem (IErr _) _ w' => CErr 2 (drop_conn w' id)
          | NItem (IOk i v) _ w2 =>
              if i =? variant_ix "zvt::feig::sequences::GetSystemInfoResponse" "CVendFunctionsEnhancedSystemInformationCompletion" then
                match first_pos v with
                | Some (VStr dev) => if list_eqb (map lower dev) (map lower (c_serial cfg)) then COk id w2
                                     else CErr 2 (drop_conn w2 id)
                | _ => CErr 2 (drop_conn w2 id)
                end
              else CErr 2 (drop_conn w2 id)             (* Abort: bail!(Aborted) *)
          end
      end
  end.

(* ------------------------------------------------------------------ into_stream_with_retry, poll by poll *)

Inductive rphase :=
| RIdle                       (* at `while let Some(()) = retry.next().await` *)
| RInner (ph : phase)         (* inside the inner while loop, about to poll the sequence *)
| RAfterErr                   (* an Err item was yielded; the connection is dropped on the next poll *)
| REnd.

Record rstate := { r_left : nat; r_first : bool; r_last : N; r_ph : rphase;
                   r_timeout : N; r_throttle : N; r_seq : seqdef }.

Definition rs_set (r : rstate) (lft : nat) (first : bool) (last : N) (ph : rphase) : rstate :=
  {| r_left := lft; r_first := first; r_last := last; r_ph := ph;
     r_timeout := r_timeout r; r_throttle := r_throttle r; r_seq := r_seq r |}.

Definition drop_cur (w : world) : world :=
  match w_cur w with Some id => set_cur (drop_conn w id) None | None => w end.

(* one `stream.next().await` of the retrying stream: Some item, or None when it has ended *)
Fixpoint retry_next (fuel : nat) (cfg : config) (r : rstate) (w : world) : option item * rstate * world :=
  match fuel with
  | O => (None, rs_set r (r_left r) (r_first r) (r_last r) REnd, w)
  | S f =>
      match r_ph r with
      | REnd => (None, r, w)
      | RAfterErr => retry_next f cfg (rs_set r (r_left r) (r_first r) (r_last r) RIdle) (drop_cur w)
      | RIdle =>
          match r_left r with
          | O => (None, rs_set r O (r_first r) (r_last r) REnd, w)
          | S lft =>
              (* Throttle: the first item at once, every further one no earlier than 2 s after the previous *)
              let start := if r_first r then w_now w else N.max (w_now w) (r_last r + r_throttle r) in
              let w := at_time w start in
              let r := rs_set r lft false start RIdle in
              match w_cur w with
              | Some _ => retry_next f cfg (rs_set r lft false start (RInner PStart)) w
              | None =>
                  match connect cfg (start + r_timeout r) w with
                  | COk id w' => retry_next f cfg (rs_set r lft false start (RInner PStart)) (set_cur w' (Some id))
                  | CErr what w' => (Some (IErr what), r, w')
                  end
              end
          end
      | RInner ph =>
          match w_cur w with
          | None => (None, rs_set r (r_left r) (r_first r) (r_last r) REnd, w)      (* unreachable *)
          | Some id =>
              match seq_next (r_seq r) id ph (w_now w + r_timeout r) w with
              | NTimeout w' => retry_next f cfg (rs_set r (r_left r) (r_first r) (r_last r) RIdle) (drop_cur w')
              | NEnd w' => (None, rs_set r (r_left r) (r_first r) (r_last r) REnd, w')
              | NItem (IOk i v) ph' w' => (Some (IOk i v), rs_set r (r_left r) (r_first r) (r_last r) (RInner ph'), w')
              | NItem (IErr e) _ w' => (Some (IErr e), rs_set r (r_left r) (r_first r) (r_last r) RAfterErr, w')
              end
          end
      end
  end.

Definition TIMEOUT : N := 60000.
Definition THROTTLE : N := 2000.
Definition RETRIES : nat := 20.

Definition start_retry (q : seqdef) (timeout : N) : rstate :=
  {| r_left := RETRIES; r_first := true; r_last := 0; r_ph := RIdle; r_timeout := timeout; r_throttle := THROTTLE; r_seq := q |}.

(* ------------------------------------------------------------------ the Feig methods *)

Inductive cerr :=
| EActiveMax | EActiveInUse | EUnknownToken | ENoCard | ENeedsPin | EUnexpectedPacket
| EAborted (c : N) | EIncomplete | EUnknownCode (c : N) | EUnhandled (c : N) | EUnknownCardType | EParseTid | ETidTooLong | EWrongDevice.

Inductive cres (A : Type) := ROk (a : A) | RErr (e : cerr).
Arguments ROk {A} a.
Arguments RErr {A} e.

Record cstate := { s_txs : list (list N * N); s_max : N }.

Definition LOOPFUEL : nat := 400.
Definition RFUEL : nat := 64.

(* a generic consumer loop: `while let Some(response) = stream.next().await { let Ok(r) = response else { continue }; match r {..} }`
   handle returns Some result to leave the loop (return / bail!), None to go on, threading an accumulator *)
Fixpoint consume {A B} (fuel : nat) (cfg : config) (r : rstate) (w : world) (acc : A)
         (handle : A -> N -> value -> (option (cres B)) * A) (finish : A -> cres B) : cres B * world :=
  match fuel with
  | O => (finish acc, w)
  | S f =>
      match retry_next RFUEL cfg r w with
      | (None, _, w') => (finish acc, w')
      | (Some (IErr _), r', w') => consume f cfg r' w' acc handle finish
      | (Some (IOk i v), r', w') =>
          match handle acc i v with
          | (Some res, _) => (res, w')
          | (None, acc') => consume f cfg r' w' acc' handle finish
          end
      end
  end.

(* the same loop over a plain list of Ok items: what `consume` computes (ClientProps.consume_is_fold) *)
Fixpoint run_handler {A B} (handle : A -> N -> value -> (option (cres B)) * A) (finish : A -> cres B)
         (acc : A) (its : list (N * value)) : cres B :=
  match its with
  | [] => finish acc
  | (i, v) :: r => match handle acc i v with
                   | (Some res, _) => res
                   | (None, acc') => run_handler handle finish acc' r
                   end
  end.

Definition ERRORS_KNOWN (c : N) : bool := existsb (fun x => fst (fst x) =? c) error_table.

Definition abort_code (v : value) : N := match first_pos v with Some (VInt c) => c | _ => 0 end.

(* ---- the match arms of the consumer loops, as named pure functions (ClientProps proves C18/C19/C20 on them) *)
Definition h_sysinfo (ixc : N) (_ : unit) (i : N) (v : value) : option (cres value) * unit :=
  (Some (if i =? ixc then ROk v else RErr (EAborted (abort_code v))), tt).
Definition h_completion_or_abort (ixc : N) (_ : unit) (i : N) (v : value) : option (cres unit) * unit :=
  (Some (if i =? ixc then ROk tt else RErr (EAborted (abort_code v))), tt).
Definition h_until_completion (ixc ixa : N) (_ : unit) (i : N) (v : value) : option (cres unit) * unit :=
  (if i =? ixc then Some (ROk tt) else if i =? ixa then Some (RErr (EAborted (abort_code v))) else None, tt).
Definition h_pending (ixa : N) (skips : list N) (_ : unit) (i : N) (v : value) : option (cres (list N)) * unit :=
  if i =? ixa then
    (Some ((* since the fix of F11: the answer to the query carries ErrorPreAuthorization (0xB8); any other code aborts the query *)
           if negb (abort_code v =? 184) then RErr (EAborted (abort_code v)) else
           match field_of "zvt::packets::PartialReversalAbort" v 135 with
           | Some (VSome (VInt r)) => if r =? 65535 then ROk [] else ROk [r]
           | _ => ROk []
           end), tt)
  else if existsb (N.eqb i) skips then (None, tt)     (* since the fix of F17: progress reports are skipped, as in every other exchange *)
  else (Some (RErr EUnexpectedPacket), tt).
Definition h_eod (ixc ixa : N) (_ : unit) (i : N) (v : value) : option (cres unit) * unit :=
  (if i =? ixc then Some (ROk tt)
   else if i =? ixa then Some (if abort_code v =? 160 then ROk tt else RErr (EAborted (abort_code v)))
   else None, tt).

(* get_system_info *)
Definition get_system_info (cfg : config) (w : world) : cres value * world :=
  let q := seq_of "zvt::feig::sequences::GetSystemInfo" sysinfo_cmd in
  let ixc := variant_ix "zvt::feig::sequences::GetSystemInfoResponse" "CVendFunctionsEnhancedSystemInformationCompletion" in
  let '(r, w') := consume LOOPFUEL cfg (start_retry q TIMEOUT) w tt (h_sysinfo ixc) (fun _ => RErr EIncomplete) in
  (* since the fix of F18: the serial number is compared here as well (as in connect); a terminal which reports another one now
     is abandoned (TcpStream::reset) *)
  match r with
  | ROk si =>
      match first_pos si with
      | Some (VStr dev) => if list_eqb (map lower dev) (map lower (c_serial cfg)) then (ROk si, w') else (RErr EWrongDevice, drop_cur w')
      | _ => (RErr EWrongDevice, drop_cur w')
      end
  | RErr e => (RErr e, w')
  end.

Definition digits_value (s : list N) : option N :=
  fold_left (fun acc c => match acc with
                          | Some a => if (48 <=? c) && (c <=? 57) then Some (a * 10 + (c - 48)) else None
                          | None => None end) s (match s with [] => None | _ => Some 0 end).

(* set_terminal_id *)
Definition set_terminal_id (cfg : config) (w : world) : cres unit * world :=
  match get_system_info cfg w with
  | (RErr e, w1) => (RErr e, w1)
  | (ROk si, w1) =>
      let tid := match si with VRec [_; _; VStr t; _] => t | _ => [] end in
      if list_eqb (c_terminal_id cfg) tid then (ROk tt, w1) else
      match digits_value (c_terminal_id cfg) with
      | None => (RErr EParseTid, w1)
      | Some n =>
          (* since the fix of F14: an id of more than eight digits does not fit BMP 29 and is refused (it panicked in Fixed<4>) *)
          if 99999999 <? n then (RErr ETidTooLong, w1) else
          let cmd := mk_cmd "zvt::packets::SetTerminalId" [VInt (c_password cfg)] [(41, VSome (VInt n))] in
          let q := seq_of "zvt::sequences::SetTerminalId" cmd in
          let ixc := variant_ix "zvt::sequences::SetTerminalIdResponse" "CompletionData" in
          consume LOOPFUEL cfg (start_retry q TIMEOUT) w1 tt (h_completion_or_abort ixc) (fun _ => RErr EIncomplete)
      end
  end.

(* initialize *)
Definition initialize (cfg : config) (w : world) : cres unit * world :=
  let cmd := mk_cmd "zvt::packets::Initialization" [VInt (c_password cfg)] [] in
  let q := seq_of "zvt::sequences::Initialization" cmd in
  let ixc := variant_ix "zvt::sequences::InitializationResponse" "CompletionData" in
  let ixa := variant_ix "zvt::sequences::InitializationResponse" "Abort" in
  consume LOOPFUEL cfg (start_retry q TIMEOUT) w tt (h_until_completion ixc ixa) (fun _ => RErr EIncomplete).

(* get_pending: PartialReversal with receipt 0xFFFF *)
Definition get_pending (cfg : config) (w : world) : cres (list N) * world :=
  let cmd := mk_cmd "zvt::packets::PartialReversal" [] [(135, VSome (VInt 65535))] in
  let q := seq_of "zvt::sequences::PartialReversal" cmd in
  let ixa := variant_ix "zvt::sequences::PartialReversalResponse" "PartialReversalAbort" in
  let skips := [variant_ix "zvt::sequences::PartialReversalResponse" "IntermediateStatusInformation";
                variant_ix "zvt::sequences::PartialReversalResponse" "PrintLine";
                variant_ix "zvt::sequences::PartialReversalResponse" "PrintTextBlock"] in
  let '(r, w') := consume LOOPFUEL cfg (start_retry q TIMEOUT) w tt (h_pending ixa skips) (fun _ => RErr EIncomplete) in
  (* since the fix of F13: an unexpected reply leaves the exchange unfinished, so the connection is abandoned (TcpStream::reset) *)
  match r with
  | RErr EUnexpectedPacket => (r, drop_cur w')
  | _ => (r, w')
  end.

(* cancel_transaction_by_receipt_no: PreAuthReversal *)
Definition cancel_by_receipt (cfg : config) (receipt : N) (w : world) : cres unit * world :=
  let cmd := mk_cmd "zvt::packets::PreAuthReversal" [] [(25, VSome (VInt 64)); (73, VSome (VInt (c_currency cfg))); (135, VSome (VInt receipt))] in
  let q := seq_of "zvt::sequences::PreAuthReversal" cmd in
  let ixc := variant_ix "zvt::sequences::PartialReversalResponse" "CompletionData" in
  let ixa := variant_ix "zvt::sequences::PartialReversalResponse" "PartialReversalAbort" in
  consume LOOPFUEL cfg (start_retry q TIMEOUT) w tt (h_until_completion ixc ixa) (fun _ => RErr EIncomplete).

(* end_of_day: cancel_pending (clears the map!), then EndOfDay *)
Definition end_of_day (cfg : config) (st : cstate) (w : world) : cres unit * cstate * world :=
  let st := {| s_txs := []; s_max := s_max st |} in
  match get_pending cfg w with
  | (RErr e, w1) => (RErr e, st, w1)
  | (ROk pend, w1) =>
      let '(r, w2) := fold_left (fun acc p => match acc with
                                              | (ROk _, w) => cancel_by_receipt cfg p w
                                              | other => other end) pend (ROk tt, w1) in
      match r with
      | RErr e => (RErr e, st, w2)
      | ROk _ =>
          let cmd := mk_cmd "zvt::packets::EndOfDay" [VInt (c_password cfg)] [] in
          let q := seq_of "zvt::sequences::EndOfDay" cmd in
          let ixc := variant_ix "zvt::sequences::EndOfDayResponse" "CompletionData" in
          let ixa := variant_ix "zvt::sequences::EndOfDayResponse" "Abort" in
          let '(r3, w3) := consume LOOPFUEL cfg (start_retry q TIMEOUT) w2 tt (h_eod ixc ixa) (fun _ => RErr EIncomplete) in
          (r3, st, w3)
      end
  end.

Definition configure (cfg : config) (st : cstate) (w : world) : cres unit * cstate * world :=
  match set_terminal_id cfg w with
  | (RErr e, w1) => (RErr e, st, w1)
  | (ROk _, w1) =>
      match initialize cfg w1 with
      | (RErr e, w2) => (RErr e, st, w2)
      | (ROk _, w2) => end_of_day cfg st w2
      end
  end.

(* read_card *)
Inductive card := CBank | CMember (id : list N).

Definition canon_uid (u : list N) : list N :=
  let u := map upper u in
  if (14 <? N.of_nat (length u)) then
    let last14 := skipn (length u - 14) u in
    match last14 with
    | 48 :: 48 :: 48 :: 48 :: 48 :: 48 :: r => r
    | _ => last14
    end
  else u.

(* an entry of the application list that names a payment application (tag 0x43) *)
Definition has_application (s : value) : bool :=
  match field_of "zvt::packets::tlv::Subs" s 67 with Some (VSome _) => true | _ => false end.

(* every application entry the terminal lists for the card: top level, then the "applications on card" container *)
Definition application_list (tlv : value) : list value :=
  (match field_of "zvt::packets::tlv::StatusInformation" tlv 96 with Some (VList l) => l | _ => [] end) ++
  (match field_of "zvt::packets::tlv::StatusInformation" tlv 98 with Some (VSome (VRec [VList l])) => l | _ => [] end).

(* the classification of read_card: a fold over the replies *)
Definition h_read_card (ixa ixs : N) (acc : option card) (i : N) (v : value) : option (cres card) * option card :=
  if i =? ixa then
    let c := abort_code v in
    (Some (if negb (ERRORS_KNOWN c) then RErr (EUnknownCode c) else if c =? 108 then RErr ENoCard else RErr (EUnhandled c)), acc)
  else if i =? ixs then
    match field_of "zvt::packets::StatusInformation" v 6 with
    | Some (VSome tlv) =>
        (* since the fix of F16: the applications are listed at the top level (tag 0x60) or in the "applications on card"
           container (tag 0x62), as the cVEND sends them *)
        match application_list tlv with
        | s0 :: sr =>
            (* since the fix of F12: a payment application ANYWHERE in the list (before: only in its first entry) *)
            if existsb has_application (s0 :: sr) then (None, Some CBank) else (Some (RErr EUnknownCardType), acc)
        | [] =>
            match field_of "zvt::packets::tlv::StatusInformation" tlv 76 with
            | Some (VSome (VStr u)) => (None, Some (CMember (canon_uid u)))
            | _ => (Some (RErr EIncomplete), acc)
            end
        end
    | _ => (Some (RErr EIncomplete), acc)
    end
  else (None, acc).
Definition f_read_card (acc : option card) : cres card := match acc with Some c => ROk c | None => RErr EIncomplete end.

Definition read_card (cfg : config) (w : world) : cres card * world :=
  let t := c_read_card_timeout cfg in
  let cmd := mk_cmd "zvt::packets::ReadCard" [VInt t]
               [(25, VSome (VInt 16)); (252, VSome (VInt 2));
                (6, VSome (VRec (build_rec (snd (layout_of "zvt::packets::tlv::ReadCard")) [] [(7957, VSome (VInt 208)); (8032, VSome (VInt 7))])))] in
  let q := seq_of "zvt::sequences::ReadCard" cmd in
  let ixa := variant_ix "zvt::sequences::ReadCardResponse" "Abort" in
  let ixs := variant_ix "zvt::sequences::ReadCardResponse" "StatusInformation" in
  consume LOOPFUEL cfg (start_retry q ((t + 2) * 1000)) w None (h_read_card ixa ixs) f_read_card.

Fixpoint assoc_tok (k : list N) (l : list (list N * N)) : option N :=
  match l with [] => None | (k', v) :: r => if list_eqb k k' then Some v else assoc_tok k r end.
Fixpoint remove_tok (k : list N) (l : list (list N * N)) : list (list N * N) :=
  match l with [] => [] | (k', v) :: r => if list_eqb k k' then r else (k', v) :: remove_tok k r end.

Definition bmp60 (tok : list N) : value :=
  VSome (VRec [VSome (VRec [VStr [65; 67]; VStr tok])]).      (* PreAuthData { bmp_data: Bmp60 { "AC", token } } *)

Definition h_begin (ixa ixs : N) (acc : option N) (i : N) (v : value) : option (cres N) * option N :=
  if i =? ixa then
    let c := abort_code v in
    (Some (if negb (ERRORS_KNOWN c) then RErr (EUnknownCode c) else if c =? 252 then RErr ENeedsPin else RErr (EAborted c)), acc)
  else if i =? ixs then
    match field_of "zvt::packets::StatusInformation" v 135 with
    | Some (VSome (VInt rn)) => (None, Some rn)
    | _ => (None, acc)
    end
  else (None, acc).
Definition f_begin (acc : option N) : cres N := match acc with Some rn => ROk rn | None => RErr EIncomplete end.

(* begin_transaction *)
Definition begin_transaction (cfg : config) (st : cstate) (tok : list N) (w : world) : cres unit * cstate * world :=
  if N.of_nat (length (s_txs st)) =? s_max st then (RErr EActiveMax, st, w)
  else match assoc_tok tok (s_txs st) with
  | Some _ => (RErr EActiveInUse, st, w)
  | None =>
      let cmd := mk_cmd "zvt::packets::Reservation" []
                   [(73, VSome (VInt (c_currency cfg))); (4, VSome (VInt (c_amount cfg))); (25, VSome (VInt 64)); (6, bmp60 tok)] in
      let q := seq_of "zvt::sequences::Reservation" cmd in
      let ixa := variant_ix "zvt::sequences::AuthorizationResponse" "Abort" in
      let ixs := variant_ix "zvt::sequences::AuthorizationResponse" "StatusInformation" in
      let '(r, w1) := consume LOOPFUEL cfg (start_retry q TIMEOUT) w None (h_begin ixa ixs) f_begin in
      match r with
      | RErr e => (RErr e, st, w1)
      | ROk rn => (ROk tt, {| s_txs := (tok, rn) :: s_txs st; s_max := s_max st |}, w1)
      end
  end.

(* cancel_transaction *)
Definition cancel_transaction (cfg : config) (st : cstate) (tok : list N) (w : world) : cres unit * cstate * world :=
  match assoc_tok tok (s_txs st) with
  | None => (RErr EUnknownToken, st, w)
  | Some rn =>
      let st1 := {| s_txs := remove_tok tok (s_txs st); s_max := s_max st |} in
      match cancel_by_receipt cfg rn w with
      | (RErr e, w1) => (RErr e, st1, w1)
      | (ROk _, w1) =>
          match s_txs st1 with
          | [] => end_of_day cfg st1 w1
          | _ => (ROk tt, st1, w1)
          end
      end
  end.

(* format!("{:0w$}", n): the decimal digits of n, at least w of them (zero-padded in front) *)
Fixpoint dec_digits (fuel : nat) (n : N) : list N :=
  match fuel with
  | O => []
  | S f => if n <? 10 then [48 + n] else dec_digits f (n / 10) ++ [48 + n mod 10]
  end.
Definition pad_dec (w : nat) (n : N) : list N :=
  let d := dec_digits 40 n in repeat 48 (w - length d) ++ d.

(* TransactionSummary: terminal id ({:08} since the fix of F10; was to_string()), date ({:04}) and time ({:06}) are text *)
Record summary := { m_tid : option (list N); m_amount : option N; m_trace : option N; m_date : option (list N); m_time : option (list N) }.

Definition h_commit (ixa ixs : N) (acc : option value) (i : N) (v : value) : option (cres (option value)) * option value :=
  if i =? ixa then (Some (RErr (EAborted (abort_code v))), acc)
  else if i =? ixs then (None, Some v)
  else (None, acc).

(* commit_transaction *)
Definition commit_transaction (cfg : config) (st : cstate) (tok : list N) (amount : N) (w : world)
  : cres summary * cstate * world :=
  match assoc_tok tok (s_txs st) with
  | None => (RErr EUnknownToken, st, w)
  | Some rn =>
      let st1 := {| s_txs := remove_tok tok (s_txs st); s_max := s_max st |} in
      let reversal := c_amount cfg - amount in                       (* saturating_sub: N subtraction truncates at 0 *)
      let cmd := mk_cmd "zvt::packets::PartialReversal" []
                   [(135, VSome (VInt rn)); (73, VSome (VInt (c_currency cfg))); (4, VSome (VInt reversal)); (25, VSome (VInt 64)); (6, bmp60 tok)] in
      let q := seq_of "zvt::sequences::PartialReversal" cmd in
      let ixa := variant_ix "zvt::sequences::PartialReversalResponse" "PartialReversalAbort" in
      let ixs := variant_ix "zvt::sequences::PartialReversalResponse" "StatusInformation" in
      let '(r, w1) := consume LOOPFUEL cfg (start_retry q TIMEOUT) w None (h_commit ixa ixs) (fun acc => ROk acc) in
      match r with
      | RErr e => (RErr e, st1, w1)
      | ROk si =>
          let '(r2, st2, w2) := match s_txs st1 with
                                | [] => end_of_day cfg st1 w1
                                | _ => (ROk tt, st1, w1)
                                end in
          match r2 with
          | RErr e => (RErr e, st2, w2)
          | ROk _ =>
              match si with
              | None => (RErr EIncomplete, st2, w2)
              | Some v =>
                  let g tg := match field_of "zvt::packets::StatusInformation" v tg with Some (VSome (VInt n)) => Some n | _ => None end in
                  (ROk {| m_tid := option_map (pad_dec 8) (g 41); m_amount := g 4; m_trace := g 11;
                          m_date := option_map (pad_dec 4) (g 13); m_time := option_map (pad_dec 6) (g 12) |}, st2, w2)
              end
          end
      end
  end.

(* ------------------------------------------------------------------ a history of calls *)

Inductive op := OConfigure | OReadCard | OBegin (tok : list N) | OCommit (tok : list N) (amount : N) | OCancel (tok : list N).

Inductive opres :=
| PUnit (r : cres unit) | PCard (r : cres card) | PSummary (r : cres summary).

Definition run_op (cfg : config) (st : cstate) (o : op) (w : world) : opres * cstate * world :=
  match o with
  | OConfigure => let '(r, st', w') := configure cfg st w in (PUnit r, st', w')
  | OReadCard => let '(r, w') := read_card cfg w in (PCard r, st, w')
  | OBegin tok => let '(r, st', w') := begin_transaction cfg st tok w in (PUnit r, st', w')
  | OCancel tok => let '(r, st', w') := cancel_transaction cfg st tok w in (PUnit r, st', w')
  | OCommit tok a => let '(r, st', w') := commit_transaction cfg st tok a w in (PSummary r, st', w')
  end.

(* Feig::new: TcpStream::new replaces an empty terminal id by "00000000"; configure() once, outcome ignored *)
Definition new_client (cfg : config) (scripts : list cscript) : config * cstate * world :=
  let cfg := match c_terminal_id cfg with
             | [] => {| c_serial := c_serial cfg; c_terminal_id := [48;48;48;48;48;48;48;48]; c_currency := c_currency cfg;
                        c_amount := c_amount cfg; c_read_card_timeout := c_read_card_timeout cfg; c_password := c_password cfg; c_max := c_max cfg |}
             | _ => cfg end in
  let w0 := {| w_conns := []; w_scripts := scripts; w_cur := None; w_now := 0; w_log := [] |} in
  let st0 := {| s_txs := []; s_max := c_max cfg |} in
  let '(_, st1, w1) := configure cfg st0 w0 in
  (cfg, st1, w1).

Fixpoint run_ops (cfg : config) (st : cstate) (ops : list op) (w : world) (acc : list (opres * N * N))
  : list (opres * N * N) * cstate * world :=
  match ops with
  | [] => (rev acc, st, w)
  | o :: r => let t0 := w_now w in
              let '(res, st', w') := run_op cfg st o w in
              run_ops cfg st' r w' ((res, t0, w_now w' - t0) :: acc)
  end.

(* TcpStream::new (since the fix of F14): a configuration whose password, currency or amount does not fit its fixed-width field
   on the wire is refused — before, every call that had to send it panicked in Fixed<N>::serialize *)
Definition cfg_ok (cfg : config) : bool :=
  (c_password cfg <? 10 ^ 6) && (c_currency cfg <? 10 ^ 4) && (c_amount cfg <? 10 ^ 12).

Definition run_history (cfg : config) (ops : list op) (scripts : list cscript)
  : N * list (opres * N * N) * cstate * world :=
  let '(cfg', st, w) := new_client cfg scripts in
  let '(rs, st', w') := run_ops cfg' st ops w [] in
  (w_now w, rs, st', match w_cur w' with Some id => drop_conn w' id | None => w' end).

(* Feig::new(config) and the calls made on the client it returns: None = Feig::new returned an error, no client exists *)
Definition feig_history (cfg : config) (ops : list op) (scripts : list cscript)
  : option (N * list (opres * N * N) * cstate * world) :=
  if cfg_ok cfg then Some (run_history cfg ops scripts) else None.
