(* ClientWire.v — the requests of the payment calls, down to the wire, for EVERY value of their parameters:
   the Reservation of begin_transaction, the PartialReversal of commit_transaction and the PreAuthReversal of
   cancel_transaction are inside the class of C01 (CanonClass.canon), so the bytes the client writes are read back
   by the layout's own decoder as exactly the receipt number, amount, currency and token the call was made with.
   Proofs only; the class lemmas of CanonRoundtrip.v composed along the regenerated layouts. *)
From Zvt Require Import Base Length LengthProps Cp437 Encoding EncodingProps Codec CodecTotal CodecFrame CodecRoundtrip CodecFields CodecCanon CanonClass CanonRoundtrip Lookup Client.
From Coq Require Import ZifyBool ZifyNat ZifyN.
From Zvt.gen Require Import Layouts Tables.
Open Scope N_scope.

(* ------------------------------------------------------------------ what a tagged field of the class looks like *)

Lemma canon_prim_shape ls e p tag v ctx g : canon_prim ls e p tag v ctx = Some g ->
  exists pl, prim_enc e p v = Ok pl /\ framed_enc_p ls p tag pl = Ok g.
Proof.
  unfold canon_prim. destruct (bytes_empty p v); [discriminate|].
  destruct (prim_enc e p v) as [pl| | |]; try discriminate.
  destruct (framed_enc_p ls p tag pl) as [g0| | |] eqn:Ef; try discriminate.
  match goal with |- (if ?c then _ else _) = _ -> _ => destruct c end; [|discriminate].
  intros [= <-]. exists pl. split; [reflexivity|exact Ef].
Qed.

Lemma tag_enc_len tn : 1 <= blen (tag_enc false tn) <= 2.
Proof. unfold tag_enc. destruct ((tn / 256 =? 31) || (tn / 256 =? 255)); unfold blen; cbn [length]; lia. Qed.

(* a tagged primitive behind a fixed width: tag + exactly k bytes *)
Lemma canon_fixed_len k e p tn v ctx g : canon (LFixed k) e (TPrim p) (Some tn) v ctx = Some g ->
  1 <= blen g <= k + 2.
Proof.
  cbn [canon]. intros H. destruct (canon_prim_shape _ _ _ _ _ _ _ H) as [pl [_ Hf]].
  unfold framed_enc_p, framed_enc in Hf. cbn [len_ser] in Hf. destruct (blen pl <=? k) eqn:E; [|destruct p; discriminate].
  pose proof (tag_enc_len tn) as Htl.
  destruct p; cbn [bind] in Hf; injection Hf as <-; rewrite !blen_app, blen_zeros; unfold tag_enc in *; lia.
Qed.

(* a tagged primitive without a length: tag + the payload *)
Lemma canon_int_nolen_len (big : bool) w tn n ctx g :
  canon LEmpty (if big then EBigEndian else EDefault) (TPrim (PInt w)) (Some tn) (VInt n) ctx = Some g ->
  1 <= blen g <= w + 2.
Proof.
  cbn [canon]. intros H. destruct (canon_prim_shape _ _ _ _ _ _ _ H) as [pl [He Hf]].
  unfold framed_enc_p, framed_enc in Hf. cbn [len_ser bind app] in Hf. injection Hf as <-. rewrite blen_app.
  assert (blen pl = w).
  { destruct big; cbn [prim_enc] in He; injection He as <-; [apply (int_enc_len true)|apply (int_enc_len false)]. }
  pose proof (tag_enc_len tn) as Htl. unfold tag_enc in *. lia.
Qed.

Lemma len_ser_tlv_len n l : len_ser LTlv n = Ok l -> 1 <= blen l <= 3.
Proof.
  cbn [len_ser]. destruct (n <=? 127); [intros [= <-]; unfold blen; cbn [length]; lia|].
  destruct (n <=? 255); [intros [= <-]; unfold blen; cbn [length]; lia|]. destruct (n <=? 65535); [intros [= <-]; unfold blen; cbn [length]; lia|discriminate].
Qed.

(* a tagged TLV primitive: tag + 1..3 length bytes + payload *)
Lemma canon_tlv_prim_len e p tn v ctx g : canon LTlv e (TPrim p) (Some tn) v ctx = Some g ->
  exists pl, prim_enc e p v = Ok pl /\ 1 <= blen g <= blen pl + 5.
Proof.
  cbn [canon]. intros H. destruct (canon_prim_shape _ _ _ _ _ _ _ H) as [pl [He Hf]]. exists pl. split; [exact He|].
  unfold framed_enc_p, framed_enc in Hf. destruct (len_ser LTlv (blen pl)) as [l| | |] eqn:El; try discriminate.
  cbn [bind] in Hf. injection Hf as <-. rewrite !blen_app.
  pose proof (len_ser_tlv_len _ _ El). pose proof (tag_enc_len tn) as Htl. unfold tag_enc in *. lia.
Qed.

(* ------------------------------------------------------------------ a record of tagged fields, field by field *)

Inductive tagged_ok : list field -> list value -> N -> Prop :=
| to_nil : tagged_ok [] [] 0
| to_cons nm tn l e t x g fs vs n m :
    tag_repr_b tn = true -> canon l e t (Some tn) x None = Some g -> blen g <= m ->
    tagged_ok fs vs n -> tagged_ok (Fld nm (Some tn) l e t :: fs) (x :: vs) (m + n).

Lemma canon_fields_tagged_ok fs vs n : tagged_ok fs vs n ->
  forall after, exists pl, canon_fields (Some []) true fs vs after = Some pl /\ blen pl <= n.
Proof.
  induction 1 as [|nm tn l e t x g fs vs n m Ht Hc Hm _ IH]; intros after.
  - exists []. split; [reflexivity|unfold blen; cbn [length]; lia].
  - destruct (IH true) as [rest [Hr Hl]]. cbn [canon_fields]. rewrite Ht. cbn [andb]. rewrite Hr, Hc.
    exists (g ++ rest). split; [reflexivity|]. rewrite blen_app. lia.
Qed.

(* a TLV container made of tagged fields *)
Lemma class_tlv_struct fs vs n tn ctx : tagged_ok fs vs n -> nodup_b (tags_of fs) = true -> n <= 65535 -> tag_repr_b tn = true ->
  exists g, canon LTlv EDefault (TStruct fs) (Some tn) (VRec vs) ctx = Some g /\ 1 <= blen g <= n + 5.
Proof.
  intros Hok Hnd Hn Ht. rewrite canon_struct_unfold. cbn [struct_tail tagged_allowed].
  destruct (canon_fields_tagged_ok _ _ _ Hok false) as [pl [-> Hl]]. rewrite Hnd.
  cbn [delimiting len_fits tag_ok_b]. rewrite Ht. destruct (blen pl <=? 65535) eqn:E; [|lia]. cbn [andb].
  unfold framed_enc. destruct (len_ser LTlv (blen pl)) as [l| | |] eqn:El.
  - cbn [bind]. eexists. split; [reflexivity|]. rewrite !blen_app.
    pose proof (len_ser_tlv_len _ _ El). pose proof (tag_enc_len tn) as Htl. unfold tag_enc in *. lia.
  - exfalso. cbn [len_ser] in El. destruct (blen pl <=? 127); [discriminate|]. destruct (blen pl <=? 255); [discriminate|].
    rewrite E in El. discriminate.
  - exfalso. cbn [len_ser] in El. destruct (blen pl <=? 127); [discriminate|]. destruct (blen pl <=? 255); [discriminate|].
    rewrite E in El. discriminate.
  - exfalso. cbn [len_ser] in El. destruct (blen pl <=? 127); [discriminate|]. destruct (blen pl <=? 255); [discriminate|].
    rewrite E in El. discriminate.
Qed.

(* a whole command made of tagged fields *)
Lemma class_cmd_tagged c vs n : tagged_ok (c_fields c) vs n -> nodup_b (tags_of (c_fields c)) = true -> n <= 65535 ->
  cf c < 65536 -> exists b, canon_cmd c (VRec vs) = Some b.
Proof.
  intros Hok Hnd Hn Hc. unfold canon_cmd, canon_struct. rewrite canon_struct_unfold. cbn [struct_tail tagged_allowed].
  destruct (canon_fields_tagged_ok _ _ _ Hok false) as [pl [-> Hl]]. rewrite Hnd.
  destruct (blen pl <=? 65535) eqn:E; [|lia]. destruct (cf c <? 65536) eqn:E2; [|lia]. cbn [andb].
  unfold framed_enc. cbn [len_ser]. destruct (blen pl <? 255); cbn [bind]; eexists; reflexivity.
Qed.

(* ------------------------------------------------------------------ the fields the client fills in *)

Lemma some_of ls e u tn x g : canon ls e u (Some tn) x None = Some g -> 1 <= blen g ->
  canon ls e (TOpt u) (Some tn) (VSome x) None = Some g.
Proof. intros H Hl. apply class_opt_some; [exact H|]. intros ->. unfold blen in Hl; cbn [length] in Hl. lia. Qed.

(* a BCD number behind a fixed width *)
Lemma fld_bcd k tn n : tag_repr_b tn = true -> n < 100 ^ k -> n < 2 ^ 64 ->
  exists g, canon (LFixed k) EBcd (TOpt (TPrim (PInt 8))) (Some tn) (VSome (VInt n)) None = Some g /\ blen g <= k + 2.
Proof.
  intros Ht Hk H64. destruct (class_bcd_fixed k 8 (Some tn) n None Ht Hk H64 H64) as [g Hg].
  pose proof (canon_fixed_len _ _ _ _ _ _ _ Hg) as Hl. exists g. split; [apply some_of; [exact Hg|lia]|lia].
Qed.

(* the receipt number of a partial reversal *)
Lemma fld_receipt tn n : tag_repr_b tn = true -> n < 10000 \/ n = 65535 ->
  exists g, canon (LFixed 2) EReceiptNo (TOpt (TPrim (PInt 8))) (Some tn) (VSome (VInt n)) None = Some g /\ blen g <= 4.
Proof.
  intros Ht Hn. destruct (class_receipt_no (Some tn) n None Ht Hn) as [g Hg].
  pose proof (canon_fixed_len _ _ _ _ _ _ _ Hg) as Hl. exists g. split; [apply some_of; [exact Hg|lia]|lia].
Qed.

(* one byte without a length (payment type) *)
Lemma fld_byte tn n : tag_repr_b tn = true -> n < 256 ->
  exists g, canon LEmpty EDefault (TOpt (TPrim (PInt 1))) (Some tn) (VSome (VInt n)) None = Some g /\ blen g <= 3.
Proof.
  intros Ht Hn. destruct (class_int_nolen false 1 (Some tn) n None Ht) as [g Hg]; [cbn; lia|].
  pose proof (canon_int_nolen_len false _ _ _ _ _ Hg) as Hl. exists g. split; [apply some_of; [exact Hg|lia]|lia].
Qed.

(* CP437 text in a TLV *)
Lemma fld_text tn s pl : tag_repr_b tn = true -> cp437_enc s = Ok pl -> (forall q x, s = q ++ [x] -> x <> 0) -> blen pl <= 65535 ->
  exists g, canon LTlv EDefault (TPrim PString) (Some tn) (VStr s) None = Some g /\ blen g <= blen pl + 5.
Proof.
  intros Ht He Hz Hl. destruct (class_cp437 LTlv (Some tn) s pl None eq_refl) as [g Hg]; try assumption.
  { cbn [len_fits]. apply N.leb_le. exact Hl. }
  destruct (canon_tlv_prim_len _ _ _ _ _ _ Hg) as [pl' [He' Hb]]. cbn [prim_enc] in He'. rewrite He in He'. injection He' as <-.
  exists g. split; [exact Hg|lia].
Qed.

Lemma absent ls e u tn : canon ls e (TOpt u) (Some tn) VNone None = Some [].
Proof. reflexivity. Qed.

(* ------------------------------------------------------------------ the reference token: PreAuthData { Bmp60 { "AC", token } } *)

Definition token_ok (tok pl : list N) : Prop :=
  cp437_enc tok = Ok pl /\ (forall q x, tok = q ++ [x] -> x <> 0) /\ blen pl <= 60000.

Lemma fld_token tok pl : token_ok tok pl ->
  exists g, canon LTlv EDefault (TOpt (TStruct S_zvt_packets_tlv_PreAuthData)) (Some 6) (bmp60 tok) None = Some g /\ blen g <= blen pl + 27.
Proof.
  intros [He [Hz Hl]]. unfold bmp60.
  (* Bmp60: prefix "AC", data = the token *)
  destruct (fld_text 8034 [65; 67] [65; 67] eq_refl) as [g1 [Hg1 Hl1]].
  { reflexivity. }
  { intros q x E. destruct q as [|a [|b q]]; cbn in E; [discriminate|injection E as _ <-; discriminate|].
    destruct q; cbn in E; discriminate. }
  { unfold blen; cbn [length]; lia. }
  destruct (fld_text 8035 tok pl eq_refl He Hz) as [g2 [Hg2 Hl2]]; [lia|].
  assert (Hb : tagged_ok S_zvt_packets_tlv_Bmp60 [VStr [65; 67]; VStr tok] ((blen [65; 67] + 5) + ((blen pl + 5) + 0))).
  { unfold S_zvt_packets_tlv_Bmp60. eapply to_cons; [reflexivity|exact Hg1|exact Hl1|].
    eapply to_cons; [reflexivity|exact Hg2|exact Hl2|apply to_nil]. }
  change (blen [65; 67]) with 2 in Hb.
  destruct (class_tlv_struct _ _ _ 233 None Hb eq_refl) as [g3 [Hg3 Hl3]]; [lia|reflexivity|].
  assert (Hg3' : canon LTlv EDefault (TOpt (TStruct S_zvt_packets_tlv_Bmp60)) (Some 233) (VSome (VRec [VStr [65; 67]; VStr tok])) None = Some g3)
    by (apply some_of; [exact Hg3|lia]).
  assert (Hp : tagged_ok S_zvt_packets_tlv_PreAuthData [VSome (VRec [VStr [65; 67]; VStr tok])] ((2 + 5 + (blen pl + 5 + 0) + 5) + 0)).
  { unfold S_zvt_packets_tlv_PreAuthData. eapply to_cons; [reflexivity|exact Hg3'|lia|apply to_nil]. }
  destruct (class_tlv_struct _ _ _ 6 None Hp eq_refl) as [g4 [Hg4 Hl4]]; [lia|reflexivity|].
  exists g4. split; [apply some_of; [exact Hg4|lia]|lia].
Qed.

(* ------------------------------------------------------------------ the three requests *)

Definition cmd_of (name : string) : cmd :=
  match find_struct name with
  | Some (Some (c, i), fs) => {| c_class := c; c_instr := i; c_fields := fs |}
  | _ => {| c_class := 0; c_instr := 0; c_fields := [] |}
  end.

Definition partial_reversal_value (rn am cur : N) (tok : list N) : value :=
  VRec [VSome (VInt rn); VSome (VInt am); VSome (VInt 64); VSome (VInt cur); bmp60 tok].

Lemma partial_reversal_in_class rn am cur tok pl :
  rn < 10000 \/ rn = 65535 -> am < 10 ^ 12 -> cur < 10000 -> token_ok tok pl ->
  exists b, canon_cmd (cmd_of "zvt::packets::PartialReversal") (partial_reversal_value rn am cur tok) = Some b.
Proof.
  intros Hrn Ham Hcur Htok.
  destruct (fld_receipt 135 rn eq_refl Hrn) as [g1 [H1 L1]].
  destruct (fld_bcd 6 4 am eq_refl) as [g2 [H2 L2]]; [change (100 ^ 6) with (10 ^ 12); exact Ham|change (10 ^ 12) with 1000000000000 in Ham; change (2 ^ 64) with 18446744073709551616; lia|].
  destruct (fld_byte 25 64 eq_refl) as [g3 [H3 L3]]; [lia|].
  destruct (fld_bcd 2 73 cur eq_refl) as [g4 [H4 L4]]; [change (100 ^ 2) with 10000; exact Hcur|change (2 ^ 64) with 18446744073709551616; lia|].
  destruct (fld_token tok pl Htok) as [g5 [H5 L5]].
  destruct Htok as [_ [_ Hl]].
  apply (class_cmd_tagged (cmd_of "zvt::packets::PartialReversal") _ (4 + (8 + (3 + (4 + ((blen pl + 27) + 0)))))).
  - change (c_fields (cmd_of "zvt::packets::PartialReversal")) with S_zvt_packets_PartialReversal. unfold S_zvt_packets_PartialReversal.
    eapply to_cons; [reflexivity|exact H1|exact L1|]. eapply to_cons; [reflexivity|exact H2|exact L2|].
    eapply to_cons; [reflexivity|exact H3|exact L3|]. eapply to_cons; [reflexivity|exact H4|exact L4|].
    eapply to_cons; [reflexivity|exact H5|exact L5|apply to_nil].
  - reflexivity.
  - lia.
  - reflexivity.
Qed.

(* what the client writes for commit_transaction IS that value's serialisation, and the layout's decoder reads it
   back as exactly receipt number, amount, payment type, currency and token — whatever follows *)
Theorem commit_request_on_the_wire rn am cur tok pl :
  rn < 10000 \/ rn = 65535 -> am < 10 ^ 12 -> cur < 10000 -> token_ok tok pl ->
  let req := mk_cmd "zvt::packets::PartialReversal" []
               [(135, VSome (VInt rn)); (73, VSome (VInt cur)); (4, VSome (VInt am)); (25, VSome (VInt 64)); (6, bmp60 tok)] in
  req <> [] /\
  forall r, dec_cmd FUEL (cmd_of "zvt::packets::PartialReversal") (req ++ r) = Ok (partial_reversal_value rn am cur tok, r).
Proof.
  intros Hrn Ham Hcur Htok req.
  destruct (partial_reversal_in_class rn am cur tok pl Hrn Ham Hcur Htok) as [b Hb].
  destruct (canon_cmd_roundtrip _ _ _ Hb) as [Henc Hdec].
  assert (Hreq : req = b).
  { unfold req, mk_cmd, run_enc.
    change (find_struct "zvt::packets::PartialReversal") with (Some (Some (6, 35), S_zvt_packets_PartialReversal)).
    change (snd (layout_of "zvt::packets::PartialReversal")) with S_zvt_packets_PartialReversal.
    change (build_rec S_zvt_packets_PartialReversal [] _) with
      [VSome (VInt rn); VSome (VInt am); VSome (VInt 64); VSome (VInt cur); bmp60 tok].
    cbv beta iota.
    change {| c_class := 6; c_instr := 35; c_fields := S_zvt_packets_PartialReversal |} with (cmd_of "zvt::packets::PartialReversal").
    unfold partial_reversal_value in Henc. rewrite Henc. reflexivity. }
  rewrite Hreq. split.
  - intros ->. unfold enc_cmd in Henc. destruct (enc_struct _ _) as [p| | |]; try discriminate. cbn [bind] in Henc.
    unfold framed_enc in Henc. cbn [len_ser] in Henc. destruct (blen p <? 255); cbn [bind] in Henc; discriminate.
  - intros r. apply Hdec. vm_compute. lia.
Qed.

(* ---- the Reservation of begin_transaction: configured amount and currency, payment type 0x40, the token *)

Definition reservation_value (am cur : N) (tok : list N) : value :=
  VRec [VSome (VInt am); VSome (VInt cur); VSome (VInt 64); VNone; VNone; VNone; VNone; VNone; VNone; VNone; VNone; VNone; VNone; bmp60 tok].

Lemma reservation_in_class am cur tok pl : am < 10 ^ 12 -> cur < 10000 -> token_ok tok pl ->
  exists b, canon_cmd (cmd_of "zvt::packets::Reservation") (reservation_value am cur tok) = Some b.
Proof.
  intros Ham Hcur Htok.
  destruct (fld_bcd 6 4 am eq_refl) as [g1 [H1 L1]]; [change (100 ^ 6) with (10 ^ 12); exact Ham|change (10 ^ 12) with 1000000000000 in Ham; change (2 ^ 64) with 18446744073709551616; lia|].
  destruct (fld_bcd 2 73 cur eq_refl) as [g2 [H2 L2]]; [change (100 ^ 2) with 10000; exact Hcur|change (2 ^ 64) with 18446744073709551616; lia|].
  destruct (fld_byte 25 64 eq_refl) as [g3 [H3 L3]]; [lia|].
  destruct (fld_token tok pl Htok) as [g4 [H4 L4]].
  destruct Htok as [_ [_ Hl]].
  apply (class_cmd_tagged (cmd_of "zvt::packets::Reservation") _
           (8 + (4 + (3 + (0 + (0 + (0 + (0 + (0 + (0 + (0 + (0 + (0 + (0 + ((blen pl + 27) + 0))))))))))))))).
  - change (c_fields (cmd_of "zvt::packets::Reservation")) with S_zvt_packets_Reservation. unfold S_zvt_packets_Reservation.
    eapply to_cons; [reflexivity|exact H1|exact L1|]. eapply to_cons; [reflexivity|exact H2|exact L2|].
    eapply to_cons; [reflexivity|exact H3|exact L3|].
    do 10 (eapply to_cons; [reflexivity|apply absent|unfold blen; cbn [length]; lia|]).
    eapply to_cons; [reflexivity|exact H4|exact L4|apply to_nil].
  - reflexivity.
  - lia.
  - reflexivity.
Qed.

Theorem begin_request_on_the_wire am cur tok pl : am < 10 ^ 12 -> cur < 10000 -> token_ok tok pl ->
  let req := mk_cmd "zvt::packets::Reservation" []
               [(73, VSome (VInt cur)); (4, VSome (VInt am)); (25, VSome (VInt 64)); (6, bmp60 tok)] in
  req <> [] /\
  forall r, dec_cmd FUEL (cmd_of "zvt::packets::Reservation") (req ++ r) = Ok (reservation_value am cur tok, r).
Proof.
  intros Ham Hcur Htok req.
  destruct (reservation_in_class am cur tok pl Ham Hcur Htok) as [b Hb].
  destruct (canon_cmd_roundtrip _ _ _ Hb) as [Henc Hdec].
  assert (Hreq : req = b).
  { unfold req, mk_cmd, run_enc.
    change (find_struct "zvt::packets::Reservation") with (Some (Some (6, 34), S_zvt_packets_Reservation)).
    change (snd (layout_of "zvt::packets::Reservation")) with S_zvt_packets_Reservation.
    change (build_rec S_zvt_packets_Reservation [] _) with
      [VSome (VInt am); VSome (VInt cur); VSome (VInt 64); VNone; VNone; VNone; VNone; VNone; VNone; VNone; VNone; VNone; VNone; bmp60 tok].
    cbv beta iota.
    change {| c_class := 6; c_instr := 34; c_fields := S_zvt_packets_Reservation |} with (cmd_of "zvt::packets::Reservation").
    unfold reservation_value in Henc. rewrite Henc. reflexivity. }
  rewrite Hreq. split.
  - intros ->. unfold enc_cmd in Henc. destruct (enc_struct _ _) as [p| | |]; try discriminate. cbn [bind] in Henc.
    unfold framed_enc in Henc. cbn [len_ser] in Henc. destruct (blen p <? 255); cbn [bind] in Henc; discriminate.
  - intros r. apply Hdec. vm_compute. lia.
Qed.

Lemma requests_in_class rn am cur tok pl :
  rn < 10000 \/ rn = 65535 -> am < 10 ^ 12 -> cur < 10000 -> token_ok tok pl ->
  (exists b, canon_cmd (cmd_of "zvt::packets::PartialReversal") (partial_reversal_value rn am cur tok) = Some b) /\
  (exists b, canon_cmd (cmd_of "zvt::packets::Reservation") (reservation_value am cur tok) = Some b).
Proof. intros H1 H2 H3 H4. split; [exact (partial_reversal_in_class rn am cur tok pl H1 H2 H3 H4)|exact (reservation_in_class am cur tok pl H2 H3 H4)]. Qed.

(* ---- the PreAuthReversal of cancel_transaction: payment type, configured currency, the reservation's receipt number *)

Definition preauth_reversal_value (cur rn : N) : value := VRec [VSome (VInt 64); VSome (VInt cur); VSome (VInt rn)].

Lemma preauth_reversal_in_class cur rn : cur < 10000 -> rn < 10000 ->
  exists b, canon_cmd (cmd_of "zvt::packets::PreAuthReversal") (preauth_reversal_value cur rn) = Some b.
Proof.
  intros Hcur Hrn.
  destruct (fld_byte 25 64 eq_refl) as [g1 [H1 L1]]; [lia|].
  destruct (fld_bcd 2 73 cur eq_refl) as [g2 [H2 L2]]; [change (100 ^ 2) with 10000; exact Hcur|change (2 ^ 64) with 18446744073709551616; lia|].
  destruct (fld_bcd 2 135 rn eq_refl) as [g3 [H3 L3]]; [change (100 ^ 2) with 10000; exact Hrn|change (2 ^ 64) with 18446744073709551616; lia|].
  apply (class_cmd_tagged (cmd_of "zvt::packets::PreAuthReversal") _ (3 + (4 + (4 + 0)))).
  - change (c_fields (cmd_of "zvt::packets::PreAuthReversal")) with S_zvt_packets_PreAuthReversal. unfold S_zvt_packets_PreAuthReversal.
    eapply to_cons; [reflexivity|exact H1|exact L1|]. eapply to_cons; [reflexivity|exact H2|exact L2|].
    eapply to_cons; [reflexivity|exact H3|exact L3|apply to_nil].
  - reflexivity.
  - lia.
  - reflexivity.
Qed.

Theorem cancel_request_on_the_wire cur rn : cur < 10000 -> rn < 10000 ->
  let req := mk_cmd "zvt::packets::PreAuthReversal" [] [(25, VSome (VInt 64)); (73, VSome (VInt cur)); (135, VSome (VInt rn))] in
  req <> [] /\
  forall r, dec_cmd FUEL (cmd_of "zvt::packets::PreAuthReversal") (req ++ r) = Ok (preauth_reversal_value cur rn, r).
Proof.
  intros Hcur Hrn req.
  destruct (preauth_reversal_in_class cur rn Hcur Hrn) as [b Hb].
  destruct (canon_cmd_roundtrip _ _ _ Hb) as [Henc Hdec].
  assert (Hreq : req = b).
  { unfold req, mk_cmd, run_enc.
    change (find_struct "zvt::packets::PreAuthReversal") with (Some (Some (6, 37), S_zvt_packets_PreAuthReversal)).
    change (snd (layout_of "zvt::packets::PreAuthReversal")) with S_zvt_packets_PreAuthReversal.
    change (build_rec S_zvt_packets_PreAuthReversal [] _) with [VSome (VInt 64); VSome (VInt cur); VSome (VInt rn)].
    cbv beta iota.
    change {| c_class := 6; c_instr := 37; c_fields := S_zvt_packets_PreAuthReversal |} with (cmd_of "zvt::packets::PreAuthReversal").
    unfold preauth_reversal_value in Henc. rewrite Henc. reflexivity. }
  rewrite Hreq. split.
  - intros ->. unfold enc_cmd in Henc. destruct (enc_struct _ _) as [p| | |]; try discriminate. cbn [bind] in Henc.
    unfold framed_enc in Henc. cbn [len_ser] in Henc. destruct (blen p <? 255); cbn [bind] in Henc; discriminate.
  - intros r. apply Hdec. vm_compute. lia.
Qed.

(* ================================================================== the request is what the call writes first *)
From Zvt Require Import EnumProps Transport Sequence SeqLookup ClientProps ClientLog.

Local Strategy 1000 [consume retry_next RFUEL LOOPFUEL].

(* the log only grows: everything recorded before stays, in place *)
Definition grows (L : list event) (w : world) : Prop := exists ws, w_log w = ws ++ L.

Lemma grows_refl w : grows (w_log w) w.
Proof. exists []. reflexivity. Qed.
Lemma grows_logw L w e : grows L w -> grows L (logw w e).
Proof. intros [ws E]. exists (e :: ws). cbn. rewrite E. reflexivity. Qed.
Lemma grows_ext id L w w' : grows L w -> ext id w w' -> grows L w'.
Proof. intros [ws E] [_ _ _ [ws' [E' _]]]. exists (ws' ++ ws). rewrite E', E, app_assoc. reflexivity. Qed.
Lemma grows_same L w w' : w_log w' = w_log w -> grows L w -> grows L w'.
Proof. intros E [ws H]. exists ws. rewrite E. exact H. Qed.
Lemma grows_drop_cur L w : grows L w -> grows L (drop_cur w).
Proof. intros H. unfold drop_cur. destruct (w_cur w); [|exact H]. apply (grows_same L (drop_conn w n)); [reflexivity|]. apply grows_logw. exact H. Qed.

Lemma connect_grows cfg d L w : grows L w ->
  match connect cfg d w with COk _ w' => grows L w' | CErr _ w' => grows L w' end.
Proof.
  intros H. unfold connect. destruct (w_scripts w) as [|s rest]; [apply grows_logw; exact H|].
  destruct (cs_refused s).
  { apply grows_logw. eapply grows_same; [|exact H]. reflexivity. }
  destruct (cs_silent s).
  { eapply (grows_same L (logw _ _)); [reflexivity|]. apply grows_logw. eapply grows_same; [|exact H]. reflexivity. }
  cbv zeta. cbn [w_conns w_scripts w_cur w_now w_log].
  set (id := N.of_nat (length (w_conns w))).
  match goal with |- context [seq_next _ id PStart d ?W] => set (w1 := W) end.
  assert (G1 : grows L w1).
  { destruct H as [ws E]. exists (EOpen id (w_now w) :: ws). unfold w1. cbn. rewrite E. reflexivity. }
  assert (DROP : forall w', ext id w1 w' -> grows L (drop_conn w' id)).
  { intros w' X. apply grows_logw. eapply grows_ext; [exact G1|exact X]. }
  pose proof (seq_next_ext (seq_of "zvt::sequences::Registration" (registration_cmd cfg)) id PStart d w1) as X1.
  destruct (seq_next _ id PStart d w1) as [[i v|e] ph w'|w'|w']; try (apply DROP; exact X1).
  pose proof (seq_next_ext (seq_of "zvt::feig::sequences::GetSystemInfo" sysinfo_cmd) id PStart d w') as X2.
  assert (X12 : forall w'', ext id w' w'' -> ext id w1 w'') by (intros w'' X; eapply ext_trans; [exact X1|exact X]).
  destruct (seq_next _ id PStart d w') as [[i2 v2|e2] ph2 w2|w2|w2]; try (apply DROP; apply X12; exact X2).
  destruct (i2 =? _); [|apply DROP; apply X12; exact X2].
  destruct (first_pos v2) as [[| dev | | | | | |]|]; try (apply DROP; apply X12; exact X2).
  destruct (list_eqb _ _); [|apply DROP; apply X12; exact X2].
  eapply grows_ext; [exact G1|apply X12; exact X2].
Qed.

Lemma retry_next_grows cfg L : forall fuel r w, grows L w ->
  let '(_, _, w') := retry_next fuel cfg r w in grows L w'.
Proof.
  induction fuel as [|f IH]; intros r w H; [exact H|]. cbn [retry_next]. destruct (r_ph r) eqn:P.
  - destruct (r_left r) as [|lft]; [exact H|].
    set (start := if r_first r then w_now w else N.max (w_now w) (r_last r + r_throttle r)).
    assert (H1 : grows L (at_time w start)) by (eapply grows_same; [|exact H]; reflexivity).
    destruct (w_cur (at_time w start)) as [id|] eqn:C.
    + apply IH. exact H1.
    + pose proof (connect_grows cfg (start + r_timeout (rs_set r lft false start RIdle)) L (at_time w start) H1) as K.
      destruct (connect cfg _ (at_time w start)) as [id w'|what w'].
      * apply IH. eapply grows_same; [|exact K]. reflexivity.
      * exact K.
  - destruct (w_cur w) as [id|] eqn:C; [|exact H].
    pose proof (seq_next_ext (r_seq r) id ph (w_now w + r_timeout r) w) as X.
    destruct (seq_next (r_seq r) id ph (w_now w + r_timeout r) w) as [[i v|e] ph' w'|w'|w'];
      pose proof (grows_ext id L w w' H X) as H'; try exact H'.
    apply IH. apply grows_drop_cur. exact H'.
  - apply IH. apply grows_drop_cur. exact H.
  - exact H.
Qed.

(* the first poll of a sequence writes the command before anything else *)
Lemma seq_next_start_ext q id d w :
  match seq_next q id PStart d w with
  | NItem _ _ w' | NEnd w' | NTimeout w' => ext id (write_t w id (q_cmd q)) w'
  end.
Proof.
  set (w0 := write_t w id (q_cmd q)).
  unfold seq_next. fold w0.
  pose proof (read_parse_ext w0 id ack_enum d) as R.
  destruct (read_parse w0 id ack_enum d) as [[[[[i v]|e| |] w1]|]|w']; try exact R; try apply ext_refl.
  pose proof (seq_next_ext q id PLoop d w1) as X. unfold seq_next in X.
  match goal with |- match ?t with _ => _ end => destruct t as [it ph' w'|w'|w'] end; (eapply ext_trans; [exact R|exact X]).
Qed.

(* a call made while a connection is in use: the first thing it adds to the log is its command on that connection, at once;
   whatever happens afterwards (replies, silence, reconnects, retries) is recorded after it *)
Theorem call_writes_request_first {A B} cfg (h : A -> N -> value -> option (cres B) * A) fin q T id f w acc :
  w_cur w = Some id ->
  grows (EWrite id (w_now w) (q_cmd q) :: w_log w) (snd (consume (S f) cfg (start_retry q T) w acc h fin)).
Proof.
  intros C. set (L := EWrite id (w_now w) (q_cmd q) :: w_log w).
  assert (G0 : grows L (write_t w id (q_cmd q))) by (exists []; reflexivity).
  rewrite consume_S, (first_poll_reuses cfg q T w id C).
  set (r1 := rs_set (rs_set (start_retry q T) 19 false (w_now w) RIdle) 19 false (w_now w) (RInner PStart)).
  change RFUEL with (S 63). rewrite (retry_inner 63 cfg r1 w id PStart eq_refl C).
  change (r_seq r1) with q.
  pose proof (seq_next_start_ext q id (w_now w + r_timeout r1) w) as X.
  destruct (seq_next q id PStart (w_now w + r_timeout r1) w) as [[i v|e] ph' w'|w'|w'];
    pose proof (grows_ext id L _ w' G0 X) as G.
  - destruct (h acc i v) as [[res|] acc']; [exact G|]. apply (consume_inv cfg (grows L) (retry_next_grows cfg L)). exact G.
  - apply (consume_inv cfg (grows L) (retry_next_grows cfg L)). exact G.
  - exact G.
  - pose proof (retry_next_grows cfg L 63 (rs_set r1 (r_left r1) (r_first r1) (r_last r1) RIdle) (drop_cur w') (grows_drop_cur L w' G)) as K.
    destruct (retry_next 63 cfg _ (drop_cur w')) as [[[[i v|e]|] r2] w2].
    + destruct (h acc i v) as [[res|] acc']; [exact K|]. apply (consume_inv cfg (grows L) (retry_next_grows cfg L)). exact K.
    + apply (consume_inv cfg (grows L) (retry_next_grows cfg L)). exact K.
    + exact K.
Qed.

(* ---- the three payment calls: what they put on the wire first, for every value of their parameters ---- *)

Lemma q_cmd_seq_of name cmd : q_cmd (seq_of name cmd) = cmd.
Proof. unfold seq_of. destruct (find_seq name sequences) as [[[i o] m]|]; reflexivity. Qed.

Definition first_new_event (w w' : world) (e : event) : Prop := exists ws, w_log w' = ws ++ e :: w_log w.

Theorem commit_sends_the_partial_reversal cfg st tok amount rn w id :
  assoc_tok tok (s_txs st) = Some rn -> w_cur w = Some id ->
  first_new_event w (snd (commit_transaction cfg st tok amount w))
    (EWrite id (w_now w)
       (mk_cmd "zvt::packets::PartialReversal" []
          [(135, VSome (VInt rn)); (73, VSome (VInt (c_currency cfg))); (4, VSome (VInt (c_amount cfg - amount))); (25, VSome (VInt 64)); (6, bmp60 tok)])).
Proof.
  intros Ha C. set (e := EWrite id (w_now w) _).
  pose proof (commit_inv cfg (grows (e :: w_log w)) (retry_next_grows cfg (e :: w_log w))) as LIFT.
  unfold commit_transaction. rewrite Ha.
  match goal with |- context [consume LOOPFUEL cfg (start_retry ?q TIMEOUT) w None ?h ?fin] =>
    pose proof (call_writes_request_first cfg h fin q TIMEOUT id 399 w None C) as K;
    change (S 399) with LOOPFUEL in K; destruct (consume LOOPFUEL cfg (start_retry q TIMEOUT) w None h fin) as [[si|er] w1] end;
    cbn [snd] in K; rewrite q_cmd_seq_of in K; fold e in K; [|exact K].
  assert (K2 : grows (e :: w_log w) (snd (match s_txs {| s_txs := remove_tok tok (s_txs st); s_max := s_max st |} with
                          | [] => end_of_day cfg {| s_txs := remove_tok tok (s_txs st); s_max := s_max st |} w1
                          | _ => (ROk tt, {| s_txs := remove_tok tok (s_txs st); s_max := s_max st |}, w1)
                          end))).
  { cbn [s_txs]. destruct (remove_tok tok (s_txs st)); [apply (end_of_day_inv cfg _ (retry_next_grows cfg (e :: w_log w))); exact K|exact K]. }
  destruct (match s_txs _ with [] => _ | _ => _ end) as [[r2 st2] w2]. cbn [snd] in K2.
  destruct r2; [|exact K2]. destruct si; exact K2.
Qed.

Theorem begin_sends_the_reservation cfg st tok w id :
  (N.of_nat (length (s_txs st)) =? s_max st) = false -> assoc_tok tok (s_txs st) = None -> w_cur w = Some id ->
  first_new_event w (snd (begin_transaction cfg st tok w))
    (EWrite id (w_now w)
       (mk_cmd "zvt::packets::Reservation" []
          [(73, VSome (VInt (c_currency cfg))); (4, VSome (VInt (c_amount cfg))); (25, VSome (VInt 64)); (6, bmp60 tok)])).
Proof.
  intros Hm Ha C. unfold begin_transaction. rewrite Hm, Ha.
  match goal with |- context [consume LOOPFUEL cfg (start_retry ?q TIMEOUT) w None ?h ?fin] =>
    pose proof (call_writes_request_first cfg h fin q TIMEOUT id 399 w None C) as K;
    change (S 399) with LOOPFUEL in K; destruct (consume LOOPFUEL cfg (start_retry q TIMEOUT) w None h fin) as [[rn|er] w1] end;
    cbn [snd] in K; rewrite q_cmd_seq_of in K; exact K.
Qed.

Theorem cancel_sends_the_preauth_reversal cfg st tok rn w id :
  assoc_tok tok (s_txs st) = Some rn -> w_cur w = Some id ->
  first_new_event w (snd (cancel_transaction cfg st tok w))
    (EWrite id (w_now w)
       (mk_cmd "zvt::packets::PreAuthReversal" [] [(25, VSome (VInt 64)); (73, VSome (VInt (c_currency cfg))); (135, VSome (VInt rn))])).
Proof.
  intros Ha C. set (e := EWrite id (w_now w) _).
  unfold cancel_transaction. rewrite Ha. unfold cancel_by_receipt.
  match goal with |- context [consume LOOPFUEL cfg (start_retry ?q TIMEOUT) w tt ?h ?fin] =>
    pose proof (call_writes_request_first cfg h fin q TIMEOUT id 399 w tt C) as K;
    change (S 399) with LOOPFUEL in K; destruct (consume LOOPFUEL cfg (start_retry q TIMEOUT) w tt h fin) as [[u|er] w1] end;
    cbn [snd] in K; rewrite q_cmd_seq_of in K; fold e in K; [|exact K].
  cbn [s_txs]. destruct (remove_tok tok (s_txs st)); [|exact K].
  apply (end_of_day_inv cfg _ (retry_next_grows cfg (e :: w_log w))). exact K.
Qed.

(* ---- C08 end to end: the call, the bytes, and what the terminal's reading of the specification's layout makes of them ---- *)

Theorem commit_releases_exactly_the_unused_part cfg st tok amount rn w id pl :
  assoc_tok tok (s_txs st) = Some rn -> w_cur w = Some id ->
  rn < 10000 -> c_amount cfg < 10 ^ 12 -> c_currency cfg < 10000 -> token_ok tok pl ->
  exists req, req <> [] /\
    first_new_event w (snd (commit_transaction cfg st tok amount w)) (EWrite id (w_now w) req) /\
    forall r, dec_cmd FUEL (cmd_of "zvt::packets::PartialReversal") (req ++ r) =
              Ok (partial_reversal_value rn (c_amount cfg - amount) (c_currency cfg) tok, r).
Proof.
  intros Ha C Hrn Ham Hcur Htok.
  destruct (commit_request_on_the_wire rn (c_amount cfg - amount) (c_currency cfg) tok pl) as [Hne Hdec]; try assumption; [left; exact Hrn|lia|].
  eexists. split; [exact Hne|]. split; [exact (commit_sends_the_partial_reversal cfg st tok amount rn w id Ha C)|exact Hdec].
Qed.

Theorem begin_reserves_the_configured_amount cfg st tok w id pl :
  (N.of_nat (length (s_txs st)) =? s_max st) = false -> assoc_tok tok (s_txs st) = None -> w_cur w = Some id ->
  c_amount cfg < 10 ^ 12 -> c_currency cfg < 10000 -> token_ok tok pl ->
  exists req, req <> [] /\
    first_new_event w (snd (begin_transaction cfg st tok w)) (EWrite id (w_now w) req) /\
    forall r, dec_cmd FUEL (cmd_of "zvt::packets::Reservation") (req ++ r) =
              Ok (reservation_value (c_amount cfg) (c_currency cfg) tok, r).
Proof.
  intros Hm Ha C Ham Hcur Htok.
  destruct (begin_request_on_the_wire (c_amount cfg) (c_currency cfg) tok pl Ham Hcur Htok) as [Hne Hdec].
  eexists. split; [exact Hne|]. split; [exact (begin_sends_the_reservation cfg st tok w id Hm Ha C)|exact Hdec].
Qed.

Theorem cancel_reverses_that_reservation cfg st tok rn w id :
  assoc_tok tok (s_txs st) = Some rn -> w_cur w = Some id -> rn < 10000 -> c_currency cfg < 10000 ->
  exists req, req <> [] /\
    first_new_event w (snd (cancel_transaction cfg st tok w)) (EWrite id (w_now w) req) /\
    forall r, dec_cmd FUEL (cmd_of "zvt::packets::PreAuthReversal") (req ++ r) =
              Ok (preauth_reversal_value (c_currency cfg) rn, r).
Proof.
  intros Ha C Hrn Hcur.
  destruct (cancel_request_on_the_wire (c_currency cfg) rn Hcur Hrn) as [Hne Hdec].
  eexists. split; [exact Hne|]. split; [exact (cancel_sends_the_preauth_reversal cfg st tok rn w id Ha C)|exact Hdec].
Qed.

(* non-vacuity: an ASCII token is a token the theorems speak about *)
Example token_ok_ex : token_ok [116; 111; 107; 45; 49] [116; 111; 107; 45; 49].
Proof.
  split; [reflexivity|]. split; [|unfold blen; cbn [length]; lia].
  intros q x E. assert (L : x = 49).
  { assert (R : rev [116; 111; 107; 45; 49] = rev (q ++ [x])) by (rewrite E; reflexivity).
    rewrite rev_app_distr in R. cbn in R. injection R as R _. symmetry. exact R. }
  subst x. discriminate.
Qed.

(* ================================================================== C08, last clause: the summary is what the terminal reported *)

Lemma commit_handler_ok ixa ixs : forall its acc si,
  run_handler (h_commit ixa ixs) (fun a => ROk a) acc its = ROk si ->
  si = fold_left (fun a iv => if fst iv =? ixs then Some (snd iv) else a) its acc /\ Forall (fun iv => fst iv <> ixa) its.
Proof.
  induction its as [|[i v] r IH]; intros acc si H; cbn [run_handler] in H.
  - injection H as <-. split; [reflexivity|constructor].
  - unfold h_commit in H. destruct (i =? ixa) eqn:Ea; [discriminate|]. destruct (i =? ixs) eqn:Es.
    + destruct (IH _ _ H) as [E F]. split; [cbn [fold_left fst snd]; rewrite Es; exact E|constructor; [cbn; lia|exact F]].
    + destruct (IH _ _ H) as [E F]. split; [cbn [fold_left fst snd]; rewrite Es; exact E|constructor; [cbn; lia|exact F]].
Qed.

(* When the terminal's replies to the partial reversal — any number of them, the serialisations of class values, the last one final —
   are what arrives on the connection, and the call returns a summary at all, then the summary's five fields are those of the LAST
   status information among these replies, and none of the replies was an abort. *)
Theorem commit_summary_is_the_last_status_reported cfg st tok amount rn w id xs rest final sm :
  let cmd := mk_cmd "zvt::packets::PartialReversal" []
               [(135, VSome (VInt rn)); (73, VSome (VInt (c_currency cfg))); (4, VSome (VInt (c_amount cfg - amount))); (25, VSome (VInt 64)); (6, bmp60 tok)] in
  let q := seq_of "zvt::sequences::PartialReversal" cmd in
  let ixa := variant_ix "zvt::sequences::PartialReversalResponse" "PartialReversalAbort" in
  let ixs := variant_ix "zvt::sequences::PartialReversalResponse" "StatusInformation" in
  assoc_tok tok (s_txs st) = Some rn -> w_cur w = Some id -> valid_id w id -> settled (get_conn w id) ->
  q_mode q = Loop final ->
  k_buf (get_conn w id) = [128; 0; 0] ++ concat (map x_bytes xs) ++ rest ->
  Forall (reply_ok (q_replies q)) xs -> xs <> [] ->
  (forall pre x post, xs = pre ++ x :: post -> final (fst (x_item x)) = match post with [] => true | _ => false end) ->
  (length xs < LOOPFUEL)%nat ->
  fst (fst (commit_transaction cfg st tok amount w)) = ROk sm ->
  exists v, fold_left (fun a iv => if fst iv =? ixs then Some (snd iv) else a) (map x_item xs) None = Some v /\
            summary_of (Some v) = ROk sm /\ Forall (fun iv => fst iv <> ixa) (map x_item xs).
Proof.
  intros cmd q ixa ixs Ha C Hv Hs Hm Hb Hok Hne Hfin Hf R.
  assert (Hnd : nodup_cf (map v_cf (q_replies q)) = true) by (unfold q, seq_of; vm_compute; reflexivity).
  pose proof (call_on_serialised_replies cfg (h_commit ixa ixs) (fun acc => ROk acc) q TIMEOUT id xs rest LOOPFUEL w None final
                Hm C Hv Hs Hb Hnd Hok Hne Hfin Hf) as K.
  unfold commit_transaction in R. rewrite Ha in R. fold cmd q ixa ixs in R.
  destruct (consume LOOPFUEL cfg (start_retry q TIMEOUT) w None (h_commit ixa ixs) (fun acc => ROk acc)) as [r w1].
  cbn [fst] in K. subst r.
  destruct (run_handler (h_commit ixa ixs) (fun a => ROk a) None (map x_item xs)) as [si|e] eqn:E; [|cbn in R; discriminate].
  destruct (commit_handler_ok ixa ixs _ _ _ E) as [Esi F].
  destruct (match s_txs _ with [] => _ | _ => _ end) as [[r2 st2] w2]. destruct r2 as [u|e2]; [|cbn in R; discriminate].
  destruct si as [v|]; [|cbn in R; discriminate].
  exists v. split; [symmetry; exact Esi|]. split; [|exact F].
  cbn [fst] in R. unfold summary_of. exact R.
Qed.

(* ================================================================== C19: the clean-up chain starts with the query for a dangling pre-authorisation *)

Definition pending_query_value : value := VRec [VSome (VInt 65535); VNone; VNone; VNone; VNone].

Lemma pending_query_in_class : exists b, canon_cmd (cmd_of "zvt::packets::PartialReversal") pending_query_value = Some b.
Proof.
  destruct (fld_receipt 135 65535 eq_refl (or_intror eq_refl)) as [g1 [H1 L1]].
  apply (class_cmd_tagged (cmd_of "zvt::packets::PartialReversal") _ (4 + (0 + (0 + (0 + (0 + 0)))))).
  - change (c_fields (cmd_of "zvt::packets::PartialReversal")) with S_zvt_packets_PartialReversal. unfold S_zvt_packets_PartialReversal.
    eapply to_cons; [reflexivity|exact H1|exact L1|].
    do 4 (eapply to_cons; [reflexivity|apply absent|unfold blen; cbn [length]; lia|]). apply to_nil.
  - reflexivity.
  - lia.
  - reflexivity.
Qed.

Theorem pending_query_on_the_wire :
  let req := mk_cmd "zvt::packets::PartialReversal" [] [(135, VSome (VInt 65535))] in
  req <> [] /\ forall r, dec_cmd FUEL (cmd_of "zvt::packets::PartialReversal") (req ++ r) = Ok (pending_query_value, r).
Proof.
  intros req. destruct pending_query_in_class as [b Hb].
  destruct (canon_cmd_roundtrip _ _ _ Hb) as [Henc Hdec].
  assert (Hreq : req = b).
  { unfold req, mk_cmd, run_enc.
    change (find_struct "zvt::packets::PartialReversal") with (Some (Some (6, 35), S_zvt_packets_PartialReversal)).
    change (snd (layout_of "zvt::packets::PartialReversal")) with S_zvt_packets_PartialReversal.
    change (build_rec S_zvt_packets_PartialReversal [] _) with [VSome (VInt 65535); VNone; VNone; VNone; VNone].
    cbv beta iota.
    change {| c_class := 6; c_instr := 35; c_fields := S_zvt_packets_PartialReversal |} with (cmd_of "zvt::packets::PartialReversal").
    unfold pending_query_value in Henc. rewrite Henc. reflexivity. }
  rewrite Hreq. split.
  - intros ->. vm_compute in Henc. discriminate.
  - intros r. apply Hdec. vm_compute. lia.
Qed.

(* whatever the state and the world: end_of_day (the clean-up chain) first asks, on the connection in use, for a dangling
   pre-authorisation — a partial reversal carrying the marker FFFF and nothing else *)
Theorem end_of_day_first_asks_for_pending cfg st w id : w_cur w = Some id ->
  exists req, req <> [] /\
    first_new_event w (snd (end_of_day cfg st w)) (EWrite id (w_now w) req) /\
    forall r, dec_cmd FUEL (cmd_of "zvt::packets::PartialReversal") (req ++ r) = Ok (pending_query_value, r).
Proof.
  intros C. destruct pending_query_on_the_wire as [Hne Hdec]. eexists. split; [exact Hne|]. split; [|exact Hdec].
  set (e := EWrite id (w_now w) _).
  assert (K : grows (e :: w_log w) (snd (get_pending cfg w))).
  { unfold get_pending.
    match goal with |- context [consume LOOPFUEL cfg (start_retry ?q TIMEOUT) w tt ?h ?fin] =>
      pose proof (call_writes_request_first cfg h fin q TIMEOUT id 399 w tt C) as K;
      change (S 399) with LOOPFUEL in K; rewrite q_cmd_seq_of in K;
      destruct (consume LOOPFUEL cfg (start_retry q TIMEOUT) w tt h fin) as [[l|er] w0] end; cbn [snd] in K |- *; [exact K|].
    destruct er; cbn [snd]; try exact K. apply grows_drop_cur. exact K. }
  unfold end_of_day. destruct (get_pending cfg w) as [[pend|er] w1]; cbn [snd] in K |- *; [|exact K].
  assert (F : forall (l : list N) (acc : cres unit * world), grows (e :: w_log w) (snd acc) ->
            grows (e :: w_log w) (snd (fold_left (fun acc p => match acc with
                                               | (ROk _, w) => cancel_by_receipt cfg p w
                                               | other => other end) l acc))).
  { induction l as [|p l IHl]; intros acc Ha; [exact Ha|]. cbn [fold_left]. apply IHl.
    destruct acc as [[u|er] w0]; cbn [snd] in *; [apply (cancel_by_receipt_inv cfg _ (retry_next_grows cfg (e :: w_log w))); exact Ha|exact Ha]. }
  specialize (F pend (ROk tt, w1) K).
  destruct (fold_left _ pend (ROk tt, w1)) as [[u|er] w2]; cbn [snd] in *; [|exact F].
  match goal with |- context [consume LOOPFUEL cfg ?r w2 tt ?h ?fin] =>
    pose proof (consume_inv cfg (grows (e :: w_log w)) (retry_next_grows cfg (e :: w_log w)) h fin LOOPFUEL r w2 tt F) as K3;
    destruct (consume LOOPFUEL cfg r w2 tt h fin) as [r3 w3] end.
  exact K3.
Qed.

(* ================================================================== requests with positional fields (handshake, configuration, read card) *)

Lemma canon_ctx_indep ls e t tag v c1 c2 g1 g2 :
  canon ls e t tag v c1 = Some g1 -> canon ls e t tag v c2 = Some g2 -> g1 = g2.
Proof.
  intros H1 H2. destruct (canon_exact _ _ _ _ _ _ _ H1) as [E1 _]. destruct (canon_exact _ _ _ _ _ _ _ H2) as [E2 _].
  rewrite E1 in E2. injection E2 as <-. reflexivity.
Qed.

(* from "inside the class whatever follows" (what the family lemmas give) to one encoding that serves every context *)
Lemma every_ctx ls e t tag v : (forall ctx, exists g, canon ls e t tag v ctx = Some g) ->
  exists g, forall ctx, canon ls e t tag v ctx = Some g.
Proof.
  intros H. destruct (H None) as [g0 H0]. exists g0. intros ctx. destruct (H ctx) as [g Hg].
  rewrite Hg. f_equal. exact (canon_ctx_indep _ _ _ _ _ _ _ _ _ Hg H0).
Qed.

Lemma canon_fixed_len_pos k e p v ctx g : canon (LFixed k) e (TPrim p) None v ctx = Some g -> blen g = k.
Proof.
  cbn [canon]. intros H. destruct (canon_prim_shape _ _ _ _ _ _ _ H) as [pl [_ Hf]].
  unfold framed_enc_p, framed_enc in Hf. cbn [len_ser] in Hf. destruct (blen pl <=? k) eqn:E; [|destruct p; discriminate].
  destruct p; cbn [bind app] in Hf; injection Hf as <-; rewrite !blen_app, blen_zeros; lia.
Qed.

Lemma canon_int_nolen_len_pos (big : bool) w n ctx g :
  canon LEmpty (if big then EBigEndian else EDefault) (TPrim (PInt w)) None (VInt n) ctx = Some g -> blen g = w.
Proof.
  cbn [canon]. intros H. destruct (canon_prim_shape _ _ _ _ _ _ _ H) as [pl [He Hf]].
  unfold framed_enc_p, framed_enc in Hf. cbn [len_ser bind app] in Hf. injection Hf as <-.
  destruct big; cbn [prim_enc] in He; injection He as <-; [apply (int_enc_len true)|apply (int_enc_len false)].
Qed.

(* a positional prefix, then tagged fields *)
Inductive pos_ok : list field -> list value -> N -> Prop :=
| po_nil : pos_ok [] [] 0
| po_cons nm l e t x g fs vs n m :
    (forall ctx, canon l e t None x ctx = Some g) -> blen g <= m ->
    pos_ok fs vs n -> pos_ok (Fld nm None l e t :: fs) (x :: vs) (m + n).

Lemma canon_fields_pos_tagged ps pvs n1 : pos_ok ps pvs n1 -> forall ts tvs n2, tagged_ok ts tvs n2 ->
  exists pl, canon_fields (Some []) true (ps ++ ts) (pvs ++ tvs) false = Some pl /\ blen pl <= n1 + n2.
Proof.
  induction 1 as [|nm l e t x g fs vs n m Hc Hm _ IH]; intros ts tvs n2 Ht.
  - cbn [app]. destruct (canon_fields_tagged_ok _ _ _ Ht false) as [pl [E L]]. exists pl. split; [exact E|lia].
  - destruct (IH ts tvs n2 Ht) as [rest [Hr Hl]]. cbn [app canon_fields]. rewrite Hr, Hc.
    exists (g ++ rest). split; [reflexivity|]. rewrite blen_app. lia.
Qed.

Lemma class_cmd_pos_tagged c ps pvs n1 ts tvs n2 : c_fields c = ps ++ ts -> pos_ok ps pvs n1 -> tagged_ok ts tvs n2 ->
  nodup_b (tags_of (c_fields c)) = true -> n1 + n2 <= 65535 -> cf c < 65536 ->
  exists b, canon_cmd c (VRec (pvs ++ tvs)) = Some b.
Proof.
  intros Hc Hp Ht Hnd Hn Hcf. unfold canon_cmd, canon_struct. rewrite canon_struct_unfold. cbn [struct_tail tagged_allowed].
  rewrite Hc. destruct (canon_fields_pos_tagged _ _ _ Hp _ _ _ Ht) as [pl [-> Hl]]. rewrite <- Hc, Hnd.
  destruct (blen pl <=? 65535) eqn:E; [|lia]. destruct (cf c <? 65536) eqn:E2; [|lia]. cbn [andb].
  unfold framed_enc. cbn [len_ser]. destruct (blen pl <? 255); cbn [bind]; eexists; reflexivity.
Qed.

(* the positional fields the client fills in *)
Lemma pos_bcd k n : n < 100 ^ k -> n < 2 ^ 64 ->
  exists g, (forall ctx, canon (LFixed k) EBcd (TPrim (PInt 8)) None (VInt n) ctx = Some g) /\ blen g <= k.
Proof.
  intros Hk H64. destruct (every_ctx (LFixed k) EBcd (TPrim (PInt 8)) None (VInt n)) as [g Hg].
  { intros ctx. apply (class_bcd_fixed k 8 None n ctx eq_refl Hk H64 H64). }
  exists g. split; [exact Hg|]. rewrite (canon_fixed_len_pos _ _ _ _ _ _ (Hg None)). lia.
Qed.

Lemma pos_bcd_some k n : n < 100 ^ k -> n < 2 ^ 64 ->
  exists g, (forall ctx, canon (LFixed k) EBcd (TOpt (TPrim (PInt 8))) None (VSome (VInt n)) ctx = Some g) /\ blen g <= k.
Proof.
  intros Hk H64. destruct (pos_bcd k n Hk H64) as [g [Hg Hl]]. exists g. split; [|exact Hl].
  intros ctx. cbn [canon]. specialize (Hg ctx). cbn [canon] in Hg. rewrite Hg. rewrite Bool.andb_false_r. reflexivity.
Qed.

Lemma pos_byte n : n < 256 ->
  exists g, (forall ctx, canon LEmpty EDefault (TPrim (PInt 1)) None (VInt n) ctx = Some g) /\ blen g <= 1.
Proof.
  intros Hn. destruct (every_ctx LEmpty EDefault (TPrim (PInt 1)) None (VInt n)) as [g Hg].
  { intros ctx. apply (class_int_nolen false 1 None n ctx eq_refl). cbn. lia. }
  exists g. split; [exact Hg|]. rewrite (canon_int_nolen_len_pos false _ _ _ _ (Hg None)). lia.
Qed.

(* ---- Registration: password, configuration byte, currency ---- *)

Definition registration_value (pw cur : N) : value := VRec [VInt pw; VInt CONFIG_BYTE; VSome (VInt cur); VNone].

Lemma registration_in_class pw cur : pw < 10 ^ 6 -> cur < 10000 ->
  exists b, canon_cmd (cmd_of "zvt::packets::Registration") (registration_value pw cur) = Some b.
Proof.
  intros Hpw Hcur.
  destruct (pos_bcd 3 pw) as [g1 [H1 L1]]; [change (100 ^ 3) with (10 ^ 6); exact Hpw|change (10 ^ 6) with 1000000 in Hpw; change (2 ^ 64) with 18446744073709551616; lia|].
  destruct (pos_byte CONFIG_BYTE) as [g2 [H2 L2]]; [unfold CONFIG_BYTE; lia|].
  destruct (pos_bcd_some 2 cur) as [g3 [H3 L3]]; [change (100 ^ 2) with 10000; exact Hcur|change (2 ^ 64) with 18446744073709551616; lia|].
  apply (class_cmd_pos_tagged (cmd_of "zvt::packets::Registration")
           [Fld "password" None (LFixed 3) EBcd (TPrim (PInt 8)); Fld "config_byte" None LEmpty EDefault (TPrim (PInt 1));
            Fld "currency" None (LFixed 2) EBcd (TOpt (TPrim (PInt 8)))]
           [VInt pw; VInt CONFIG_BYTE; VSome (VInt cur)] (3 + (1 + (2 + 0)))
           [Fld "tlv" (Some 6) LTlv EDefault (TOpt (TStruct S_zvt_packets_tlv_Registration))] [VNone] (0 + 0)).
  - reflexivity.
  - eapply po_cons; [exact H1|exact L1|]. eapply po_cons; [exact H2|exact L2|]. eapply po_cons; [exact H3|exact L3|apply po_nil].
  - eapply to_cons; [reflexivity|apply absent|unfold blen; cbn [length]; lia|apply to_nil].
  - reflexivity.
  - lia.
  - reflexivity.
Qed.

(* the registration command of a configuration is read back as exactly the configured password and currency and the
   configuration byte 0xDE — whatever follows *)
Theorem registration_on_the_wire cfg : c_password cfg < 10 ^ 6 -> c_currency cfg < 10000 ->
  registration_cmd cfg <> [] /\
  forall r, dec_cmd FUEL (cmd_of "zvt::packets::Registration") (registration_cmd cfg ++ r) =
            Ok (registration_value (c_password cfg) (c_currency cfg), r).
Proof.
  intros Hpw Hcur. destruct (registration_in_class _ _ Hpw Hcur) as [b Hb].
  destruct (canon_cmd_roundtrip _ _ _ Hb) as [Henc Hdec].
  assert (Hreq : registration_cmd cfg = b).
  { unfold registration_cmd, mk_cmd, run_enc.
    change (find_struct "zvt::packets::Registration") with (Some (Some (6, 0), S_zvt_packets_Registration)).
    change (snd (layout_of "zvt::packets::Registration")) with S_zvt_packets_Registration.
    change (build_rec S_zvt_packets_Registration _ []) with [VInt (c_password cfg); VInt CONFIG_BYTE; VSome (VInt (c_currency cfg)); VNone].
    cbv beta iota.
    change {| c_class := 6; c_instr := 0; c_fields := S_zvt_packets_Registration |} with (cmd_of "zvt::packets::Registration").
    unfold registration_value in Henc. rewrite Henc. reflexivity. }
  rewrite Hreq. split.
  - intros ->. unfold enc_cmd in Henc. destruct (enc_struct _ _) as [p| | |]; try discriminate. cbn [bind] in Henc.
    unfold framed_enc in Henc. cbn [len_ser] in Henc. destruct (blen p <? 255); cbn [bind] in Henc; discriminate.
  - intros r. apply Hdec. vm_compute. lia.
Qed.

(* ---- EndOfDay / Initialization: the configured password ---- *)

Lemma password_only_in_class name (c i : N) pw :
  find_struct name = Some (Some (c, i), [Fld "password" None (LFixed 3) EBcd (TPrim (PInt 8))]) -> c * 256 + i < 65536 ->
  pw < 10 ^ 6 -> exists b, canon_cmd (cmd_of name) (VRec [VInt pw]) = Some b.
Proof.
  intros Hf Hc Hpw.
  destruct (pos_bcd 3 pw) as [g1 [H1 L1]]; [change (100 ^ 3) with (10 ^ 6); exact Hpw|change (10 ^ 6) with 1000000 in Hpw; change (2 ^ 64) with 18446744073709551616; lia|].
  unfold cmd_of. rewrite Hf.
  apply (class_cmd_pos_tagged _ [Fld "password" None (LFixed 3) EBcd (TPrim (PInt 8))] [VInt pw] (3 + 0) [] [] 0).
  - reflexivity.
  - eapply po_cons; [exact H1|exact L1|apply po_nil].
  - apply to_nil.
  - reflexivity.
  - lia.
  - exact Hc.
Qed.

Theorem end_of_day_request_on_the_wire cfg : c_password cfg < 10 ^ 6 ->
  let req := mk_cmd "zvt::packets::EndOfDay" [VInt (c_password cfg)] [] in
  req <> [] /\ forall r, dec_cmd FUEL (cmd_of "zvt::packets::EndOfDay") (req ++ r) = Ok (VRec [VInt (c_password cfg)], r).
Proof.
  intros Hpw req. destruct (password_only_in_class "zvt::packets::EndOfDay" 6 80 (c_password cfg) eq_refl eq_refl Hpw) as [b Hb].
  destruct (canon_cmd_roundtrip _ _ _ Hb) as [Henc Hdec].
  assert (Hreq : req = b).
  { unfold req, mk_cmd, run_enc.
    change (find_struct "zvt::packets::EndOfDay") with (Some (Some (6, 80), S_zvt_packets_EndOfDay)).
    change (snd (layout_of "zvt::packets::EndOfDay")) with S_zvt_packets_EndOfDay.
    change (build_rec S_zvt_packets_EndOfDay _ []) with [VInt (c_password cfg)].
    cbv beta iota.
    change {| c_class := 6; c_instr := 80; c_fields := S_zvt_packets_EndOfDay |} with (cmd_of "zvt::packets::EndOfDay").
    rewrite Henc. reflexivity. }
  rewrite Hreq. split.
  - intros ->. unfold enc_cmd in Henc. destruct (enc_struct _ _) as [p| | |]; try discriminate. cbn [bind] in Henc.
    unfold framed_enc in Henc. cbn [len_ser] in Henc. destruct (blen p <? 255); cbn [bind] in Henc; discriminate.
  - intros r. apply Hdec. vm_compute. lia.
Qed.

Theorem initialization_request_on_the_wire cfg : c_password cfg < 10 ^ 6 ->
  let req := mk_cmd "zvt::packets::Initialization" [VInt (c_password cfg)] [] in
  req <> [] /\ forall r, dec_cmd FUEL (cmd_of "zvt::packets::Initialization") (req ++ r) = Ok (VRec [VInt (c_password cfg)], r).
Proof.
  intros Hpw req. destruct (password_only_in_class "zvt::packets::Initialization" 6 147 (c_password cfg) eq_refl eq_refl Hpw) as [b Hb].
  destruct (canon_cmd_roundtrip _ _ _ Hb) as [Henc Hdec].
  assert (Hreq : req = b).
  { unfold req, mk_cmd, run_enc.
    change (find_struct "zvt::packets::Initialization") with (Some (Some (6, 147), S_zvt_packets_Initialization)).
    change (snd (layout_of "zvt::packets::Initialization")) with S_zvt_packets_Initialization.
    change (build_rec S_zvt_packets_Initialization _ []) with [VInt (c_password cfg)].
    cbv beta iota.
    change {| c_class := 6; c_instr := 147; c_fields := S_zvt_packets_Initialization |} with (cmd_of "zvt::packets::Initialization").
    rewrite Henc. reflexivity. }
  rewrite Hreq. split.
  - intros ->. unfold enc_cmd in Henc. destruct (enc_struct _ _) as [p| | |]; try discriminate. cbn [bind] in Henc.
    unfold framed_enc in Henc. cbn [len_ser] in Henc. destruct (blen p <? 255); cbn [bind] in Henc; discriminate.
  - intros r. apply Hdec. vm_compute. lia.
Qed.

(* ---- ReadCard: the configured timeout, card type 0x10, dialog control 2, reading control 0xD0 / card type 7 ---- *)

Lemma fld_tlv_byte tn n : tag_repr_b tn = true -> n < 256 ->
  exists g, canon LTlv EDefault (TOpt (TPrim (PInt 1))) (Some tn) (VSome (VInt n)) None = Some g /\ blen g <= 6.
Proof.
  intros Ht Hn. destruct (class_int false LTlv 1 (Some tn) n None eq_refl eq_refl Ht) as [g Hg]; [cbn; lia|].
  destruct (canon_tlv_prim_len _ _ _ _ _ _ Hg) as [pl [He Hb]]. cbn [prim_enc] in He. injection He as <-.
  change (blen [n mod 256]) with 1 in Hb. exists g. split; [apply some_of; [exact Hg|lia]|lia].
Qed.

Definition read_card_tlv : value := VSome (VRec [VSome (VInt 208); VSome (VInt 7)]).
Definition read_card_value (t : N) : value := VRec [VInt t; VSome (VInt 16); VSome (VInt 2); read_card_tlv].

Lemma read_card_in_class t : t < 256 -> exists b, canon_cmd (cmd_of "zvt::packets::ReadCard") (read_card_value t) = Some b.
Proof.
  intros Ht.
  destruct (pos_byte t Ht) as [g0 [H0 L0]].
  destruct (fld_byte 25 16 eq_refl) as [g1 [H1 L1]]; [lia|].
  destruct (fld_byte 252 2 eq_refl) as [g2 [H2 L2]]; [lia|].
  destruct (fld_tlv_byte 7957 208 eq_refl) as [a1 [A1 B1]]; [lia|].
  destruct (fld_tlv_byte 8032 7 eq_refl) as [a2 [A2 B2]]; [lia|].
  assert (Hin : tagged_ok S_zvt_packets_tlv_ReadCard [VSome (VInt 208); VSome (VInt 7)] (6 + (6 + 0))).
  { unfold S_zvt_packets_tlv_ReadCard. eapply to_cons; [reflexivity|exact A1|exact B1|]. eapply to_cons; [reflexivity|exact A2|exact B2|apply to_nil]. }
  destruct (class_tlv_struct _ _ _ 6 None Hin eq_refl) as [g3 [H3 L3]]; [lia|reflexivity|].
  assert (H3' : canon LTlv EDefault (TOpt (TStruct S_zvt_packets_tlv_ReadCard)) (Some 6) read_card_tlv None = Some g3)
    by (apply some_of; [exact H3|lia]).
  apply (class_cmd_pos_tagged (cmd_of "zvt::packets::ReadCard")
           [Fld "timeout_sec" None LEmpty EDefault (TPrim (PInt 1))] [VInt t] (1 + 0)
           [Fld "card_type" (Some 25) LEmpty EDefault (TOpt (TPrim (PInt 1))); Fld "dialog_control" (Some 252) LEmpty EDefault (TOpt (TPrim (PInt 1)));
            Fld "tlv" (Some 6) LTlv EDefault (TOpt (TStruct S_zvt_packets_tlv_ReadCard))]
           [VSome (VInt 16); VSome (VInt 2); read_card_tlv] (3 + (3 + ((6 + (6 + 0) + 5) + 0)))).
  - reflexivity.
  - eapply po_cons; [exact H0|exact L0|apply po_nil].
  - eapply to_cons; [reflexivity|exact H1|exact L1|]. eapply to_cons; [reflexivity|exact H2|exact L2|].
    eapply to_cons; [reflexivity|exact H3'|lia|apply to_nil].
  - reflexivity.
  - lia.
  - reflexivity.
Qed.

Theorem read_card_request_on_the_wire t : t < 256 ->
  let req := mk_cmd "zvt::packets::ReadCard" [VInt t]
               [(25, VSome (VInt 16)); (252, VSome (VInt 2));
                (6, VSome (VRec (build_rec (snd (layout_of "zvt::packets::tlv::ReadCard")) [] [(7957, VSome (VInt 208)); (8032, VSome (VInt 7))])))] in
  req <> [] /\ forall r, dec_cmd FUEL (cmd_of "zvt::packets::ReadCard") (req ++ r) = Ok (read_card_value t, r).
Proof.
  intros Ht req. destruct (read_card_in_class t Ht) as [b Hb].
  destruct (canon_cmd_roundtrip _ _ _ Hb) as [Henc Hdec].
  assert (Hreq : req = b).
  { unfold req, mk_cmd, run_enc.
    change (find_struct "zvt::packets::ReadCard") with (Some (Some (6, 192), S_zvt_packets_ReadCard)).
    change (snd (layout_of "zvt::packets::ReadCard")) with S_zvt_packets_ReadCard.
    change (snd (layout_of "zvt::packets::tlv::ReadCard")) with S_zvt_packets_tlv_ReadCard.
    change (build_rec S_zvt_packets_tlv_ReadCard [] _) with [VSome (VInt 208); VSome (VInt 7)].
    change (build_rec S_zvt_packets_ReadCard _ _) with [VInt t; VSome (VInt 16); VSome (VInt 2); read_card_tlv].
    cbv beta iota.
    change {| c_class := 6; c_instr := 192; c_fields := S_zvt_packets_ReadCard |} with (cmd_of "zvt::packets::ReadCard").
    unfold read_card_value in Henc. rewrite Henc. reflexivity. }
  rewrite Hreq. split.
  - intros ->. unfold enc_cmd in Henc. destruct (enc_struct _ _) as [p| | |]; try discriminate; cbn [bind] in Henc;
    unfold framed_enc in Henc; cbn [len_ser] in Henc; destruct (blen p <? 255); cbn [bind] in Henc; discriminate.
  - intros r. apply Hdec. vm_compute. lia.
Qed.

(* read_card while a connection is in use: the first thing it writes is that request, with the configured timeout *)
Theorem read_card_sends_the_configured_timeout cfg w id : w_cur w = Some id -> c_read_card_timeout cfg < 256 ->
  exists req, req <> [] /\
    first_new_event w (snd (read_card cfg w)) (EWrite id (w_now w) req) /\
    forall r, dec_cmd FUEL (cmd_of "zvt::packets::ReadCard") (req ++ r) = Ok (read_card_value (c_read_card_timeout cfg), r).
Proof.
  intros C Ht. destruct (read_card_request_on_the_wire (c_read_card_timeout cfg) Ht) as [Hne Hdec].
  eexists. split; [exact Hne|]. split; [|exact Hdec].
  unfold read_card. cbv zeta.
  match goal with |- context [consume LOOPFUEL cfg (start_retry ?q ?T) w None ?h ?fin] =>
    pose proof (call_writes_request_first cfg h fin q T id 399 w None C) as K;
    change (S 399) with LOOPFUEL in K; rewrite q_cmd_seq_of in K; exact K end.
Qed.

(* ================================================================== C10: configuration values (since the fix of F14) *)
(* Feig::new refuses exactly the configurations whose password, currency or amount do not fit their field: no client, no call *)
Theorem invalid_configuration_is_refused cfg ops scripts : cfg_ok cfg = false -> feig_history cfg ops scripts = None.
Proof. intros H. unfold feig_history. rewrite H. reflexivity. Qed.

(* ... and every configuration it accepts CAN be sent: the handshake, the configuration requests, the reservation of any CP437
   token up to 60000 bytes — each is a non-empty packet that its layout reads back with exactly the configured values *)
Theorem accepted_configuration_can_be_sent cfg : cfg_ok cfg = true ->
  (registration_cmd cfg <> [] /\
   forall r, dec_cmd FUEL (cmd_of "zvt::packets::Registration") (registration_cmd cfg ++ r) =
             Ok (registration_value (c_password cfg) (c_currency cfg), r)) /\
  (mk_cmd "zvt::packets::EndOfDay" [VInt (c_password cfg)] [] <> [] /\
   mk_cmd "zvt::packets::Initialization" [VInt (c_password cfg)] [] <> []) /\
  (forall tok pl, token_ok tok pl ->
     mk_cmd "zvt::packets::Reservation" []
       [(73, VSome (VInt (c_currency cfg))); (4, VSome (VInt (c_amount cfg))); (25, VSome (VInt 64)); (6, bmp60 tok)] <> []).
Proof.
  intros H. unfold cfg_ok in H. apply andb_prop in H. destruct H as [H H3]. apply andb_prop in H. destruct H as [H1 H2].
  apply N.ltb_lt in H1, H2, H3. change (10 ^ 4) with 10000 in H2.
  split; [exact (registration_on_the_wire cfg H1 H2)|]. split.
  - split; [exact (proj1 (end_of_day_request_on_the_wire cfg H1))|exact (proj1 (initialization_request_on_the_wire cfg H1))].
  - intros tok pl Ht. exact (proj1 (begin_request_on_the_wire (c_amount cfg) (c_currency cfg) tok pl H3 H2 Ht)).
Qed.

(* ---- SetTerminalId: password and an id of at most eight digits ---- *)
Definition set_terminal_id_value (pw n : N) : value := VRec [VInt pw; VSome (VInt n)].

Lemma set_terminal_id_in_class pw n : pw < 10 ^ 6 -> n <= 99999999 ->
  exists b, canon_cmd (cmd_of "zvt::packets::SetTerminalId") (set_terminal_id_value pw n) = Some b.
Proof.
  intros Hpw Hn.
  destruct (pos_bcd 3 pw) as [g1 [H1 L1]]; [change (100 ^ 3) with (10 ^ 6); exact Hpw|change (10 ^ 6) with 1000000 in Hpw; change (2 ^ 64) with 18446744073709551616; lia|].
  destruct (fld_bcd 4 41 n eq_refl) as [g2 [H2 L2]]; [change (100 ^ 4) with 100000000; lia|change (2 ^ 64) with 18446744073709551616; lia|].
  apply (class_cmd_pos_tagged (cmd_of "zvt::packets::SetTerminalId")
           [Fld "password" None (LFixed 3) EBcd (TPrim (PInt 8))] [VInt pw] (3 + 0)
           [Fld "terminal_id" (Some 41) (LFixed 4) EBcd (TOpt (TPrim (PInt 8)))] [VSome (VInt n)] (6 + 0)).
  - reflexivity.
  - eapply po_cons; [exact H1|exact L1|apply po_nil].
  - eapply to_cons; [reflexivity|exact H2|exact L2|apply to_nil].
  - reflexivity.
  - lia.
  - reflexivity.
Qed.

Theorem set_terminal_id_request_on_the_wire pw n : pw < 10 ^ 6 -> n <= 99999999 ->
  let req := mk_cmd "zvt::packets::SetTerminalId" [VInt pw] [(41, VSome (VInt n))] in
  req <> [] /\ forall r, dec_cmd FUEL (cmd_of "zvt::packets::SetTerminalId") (req ++ r) = Ok (set_terminal_id_value pw n, r).
Proof.
  intros Hpw Hn req. destruct (set_terminal_id_in_class pw n Hpw Hn) as [b Hb].
  destruct (canon_cmd_roundtrip _ _ _ Hb) as [Henc Hdec].
  assert (Hreq : req = b).
  { unfold req, mk_cmd, run_enc.
    change (find_struct "zvt::packets::SetTerminalId") with (Some (Some (6, 27), S_zvt_packets_SetTerminalId)).
    change (snd (layout_of "zvt::packets::SetTerminalId")) with S_zvt_packets_SetTerminalId.
    change (build_rec S_zvt_packets_SetTerminalId _ _) with [VInt pw; VSome (VInt n)].
    cbv beta iota.
    change {| c_class := 6; c_instr := 27; c_fields := S_zvt_packets_SetTerminalId |} with (cmd_of "zvt::packets::SetTerminalId").
    unfold set_terminal_id_value in Henc. rewrite Henc. reflexivity. }
  rewrite Hreq. split.
  - intros ->. unfold enc_cmd in Henc. destruct (enc_struct _ _) as [p| | |]; try discriminate; cbn [bind] in Henc;
    unfold framed_enc in Henc; cbn [len_ser] in Henc; destruct (blen p <? 255); cbn [bind] in Henc; discriminate.
  - intros r. apply Hdec. vm_compute. lia.
Qed.

(* every request of every public operation, for an accepted configuration: none of them is the empty packet the model writes
   when the encoder fails (mk_cmd is total; the failure case is a panic of the code) — receipt numbers as a terminal issues
   them (below 10000), terminal ids as set_terminal_id lets them through, tokens as the property quantifies them *)
Theorem accepted_configuration_never_fails_to_encode cfg : cfg_ok cfg = true ->
  (forall tok pl rn amount, token_ok tok pl -> rn < 10000 ->
     mk_cmd "zvt::packets::PartialReversal" []
       [(135, VSome (VInt rn)); (73, VSome (VInt (c_currency cfg))); (4, VSome (VInt (c_amount cfg - amount))); (25, VSome (VInt 64)); (6, bmp60 tok)] <> []) /\
  (forall rn, rn < 10000 ->
     mk_cmd "zvt::packets::PreAuthReversal" [] [(25, VSome (VInt 64)); (73, VSome (VInt (c_currency cfg))); (135, VSome (VInt rn))] <> []) /\
  (forall n, n <= 99999999 -> mk_cmd "zvt::packets::SetTerminalId" [VInt (c_password cfg)] [(41, VSome (VInt n))] <> []) /\
  mk_cmd "zvt::packets::PartialReversal" [] [(135, VSome (VInt 65535))] <> [] /\
  sysinfo_cmd <> [].
Proof.
  intros H. unfold cfg_ok in H. apply andb_prop in H. destruct H as [H H3]. apply andb_prop in H. destruct H as [H1 H2].
  apply N.ltb_lt in H1, H2, H3. change (10 ^ 4) with 10000 in H2.
  split; [|split; [|split; [|split]]].
  - intros tok pl rn amount Ht Hrn.
    exact (proj1 (commit_request_on_the_wire rn (c_amount cfg - amount) (c_currency cfg) tok pl (or_introl Hrn) ltac:(lia) H2 Ht)).
  - intros rn Hrn. exact (proj1 (cancel_request_on_the_wire (c_currency cfg) rn H2 Hrn)).
  - intros n Hn. exact (proj1 (set_terminal_id_request_on_the_wire (c_password cfg) n H1 Hn)).
  - exact (proj1 pending_query_on_the_wire).
  - vm_compute. discriminate.
Qed.
