(* CodecFields.v — step 2 of C01: one field of every canonical (length style, encoding, type)
   combination reads back exactly, whatever follows it. *)
From Zvt Require Import Base Length LengthProps Cp437 Encoding EncodingProps Codec CodecTotal CodecFrame CodecRoundtrip.
From Coq Require Import ZifyBool ZifyNat ZifyN.
Ltac Zify.zify_post_hook ::= Z.div_mod_to_equations.
Open Scope N_scope.

(* ---------- payload level: the value's bytes decode back to the value with nothing left ---------- *)

Definition payload_ok (e : Encoding.enc) (p : prim) (v : value) (pl : bytes) : Prop :=
  prim_enc e p v = Ok pl /\ prim_dec e p pl = Ok (v, []).

Lemma drop_all (a : bytes) : drop (blen a) a = [].
Proof. unfold drop, blen. rewrite Nat2N.id. apply skipn_all. Qed.

Lemma payload_int (big : bool) w n : n < 256 ^ w ->
  payload_ok (if big then EBigEndian else EDefault) (PInt w) (VInt n) (int_enc big w n) /\ blen (int_enc big w n) = w.
Proof.
  intros H. split; [|apply int_enc_len]. unfold payload_ok.
  pose proof (int_roundtrip big w n [] H) as R. rewrite app_nil_r in R.
  destruct big; cbn [prim_enc prim_dec]; (split; [reflexivity|]); rewrite R; reflexivity.
Qed.

Lemma payload_bcd w n : n < 2 ^ (8 * w) -> n < 2 ^ 64 ->
  exists pl, payload_ok EBcd (PInt w) (VInt n) pl.
Proof.
  intros H1 H2. destruct (bcd_roundtrip w n H1 H2) as [bs [He [_ [_ [_ [_ Hd]]]]]].
  exists bs. split; cbn [prim_enc prim_dec]; [exact He|]. rewrite Hd. reflexivity.
Qed.

Lemma payload_hex n s : length s = (2 * n)%nat -> Forall lower_hex s ->
  exists pl, payload_ok EHex PString (VStr s) pl /\ length pl = n.
Proof.
  intros Hl Hs. destruct (hex_roundtrip_str n s Hl Hs) as [bs [He [_ Hh]]].
  exists bs. split; [split; cbn [prim_enc prim_dec]; [exact He|rewrite Hh; reflexivity]|].
  assert (L : forall b, length (hex_of_bytes b) = (2 * length b)%nat).
  { induction b as [|x b IH]; cbn [hex_of_bytes length]; lia. }
  rewrite <- Hh, L in Hl. lia.
Qed.

Lemma payload_cp437 s pl : cp437_enc s = Ok pl -> (forall q x, s = q ++ [x] -> x <> 0) ->
  payload_ok EDefault PString (VStr s) pl.
Proof.
  intros He Hl. split; cbn [prim_enc prim_dec]; [exact He|]. rewrite (cp437_str_roundtrip s pl He Hl). reflexivity.
Qed.

Lemma payload_bytes b : payload_ok ECustom PBytes (VBytes b) b.
Proof. split; reflexivity. Qed.

(* ---------- frame level for primitive fields ---------- *)

Lemma dec_prim_unfold f ls e p tag bs :
  dec (S f) ls e (TPrim p) tag bs = framed_dec ls false tag (prim_dec e p) bs.
Proof. reflexivity. Qed.

Lemma enc_prim_unfold ls e p tag v : (forall b, v <> VBytes b) \/ p <> PBytes ->
  enc ls e (TPrim p) tag v = (let* pl := prim_enc e p v in framed_enc_p ls p tag pl).
Proof.
  intros H. destruct p; try reflexivity. destruct v as [| |b| | | | |]; try reflexivity.
  destruct H as [H|H]; [exfalso; apply (H b); reflexivity|congruence].
Qed.

(* a payload that fits its field exactly is framed the same way whatever the primitive: there is no padding to place *)
Lemma framed_enc_p_fit ls p tag pl : len_fits ls (blen pl) = true -> framed_enc_p ls p tag pl = framed_enc ls false tag pl.
Proof.
  intros Hf. destruct ls as [|n| | | |]; try reflexivity. destruct p; try reflexivity.
  cbn [len_fits] in Hf. apply N.eqb_eq in Hf. unfold framed_enc_p, framed_enc. cbn [len_ser]. rewrite Hf.
  destruct (n <=? n) eqn:E; [|lia]. cbn [bind]. rewrite N.sub_diag. change (zeros 0) with (@nil N). rewrite app_nil_r. reflexivity.
Qed.
(* and so is everything that is not text behind a fixed width *)
Lemma framed_enc_p_other ls p tag pl : (forall n, ls <> LFixed n) \/ p <> PString -> framed_enc_p ls p tag pl = framed_enc ls false tag pl.
Proof.
  intros [H|H]; destruct ls as [|n| | | |]; try reflexivity; destruct p; try reflexivity; [exfalso; apply (H n); reflexivity|congruence].
Qed.

(* every delimiting style, payload that fits exactly *)
Theorem prim_field_exact ls e p tag v pl :
  delimiting ls = true -> len_fits ls (blen pl) = true -> tag_ok false tag ->
  payload_ok e p v pl -> ((forall b, v <> VBytes b) \/ p <> PBytes) ->
  exists g, enc ls e (TPrim p) tag v = Ok g /\ forall f r, dec (S f) ls e (TPrim p) tag (g ++ r) = Ok (v, r).
Proof.
  intros Hd Hf Ht [He Hdec] Hb.
  destruct (framed_roundtrip ls false tag (prim_dec e p) pl v [] Hd Hf Ht Hdec) as [g [Hg _]].
  exists g. split.
  - rewrite enc_prim_unfold by exact Hb. rewrite He. cbn [bind]. rewrite framed_enc_p_fit by exact Hf. exact Hg.
  - intros f r. rewrite dec_prim_unfold.
    destruct (framed_roundtrip ls false tag (prim_dec e p) pl v r Hd Hf Ht Hdec) as [g' [Hg' Hr]].
    rewrite Hg in Hg'. injection Hg' as <-. exact Hr.
Qed.

(* non-empty binary payload under a TLV tag (the hand-written impl for Vec<u8>) *)
Theorem bytes_field_exact tag b : b <> [] -> blen b <= 65535 -> tag_ok false tag ->
  exists g, enc LTlv ECustom (TPrim PBytes) tag (VBytes b) = Ok g /\
            forall f r, dec (S f) LTlv ECustom (TPrim PBytes) tag (g ++ r) = Ok (VBytes b, r).
Proof.
  intros Hne Hl Ht.
  destruct (framed_roundtrip LTlv false tag (prim_dec ECustom PBytes) b (VBytes b) [] eq_refl) as [g [Hg _]];
    [cbn; lia|exact Ht|reflexivity|].
  exists g. split.
  - cbn [enc]. destruct b as [|x b]; [congruence|]. cbn [prim_enc bind]. exact Hg.
  - intros f r. rewrite dec_prim_unfold.
    destruct (framed_roundtrip LTlv false tag (prim_dec ECustom PBytes) b (VBytes b) r eq_refl) as [g' [Hg' Hr]];
      [cbn; lia|exact Ht|reflexivity|].
    rewrite Hg in Hg'. injection Hg' as <-. exact Hr.
Qed.

(* fixed-width binary integer without a length (LEmpty): consumes exactly its w bytes *)
Theorem int_empty_exact (big : bool) w n : n < 256 ^ w ->
  let e := if big then EBigEndian else EDefault in
  exists g, enc LEmpty e (TPrim (PInt w)) None (VInt n) = Ok g /\ blen g = w /\
            forall f r, dec (S f) LEmpty e (TPrim (PInt w)) None (g ++ r) = Ok (VInt n, r).
Proof.
  intros H e. exists (int_enc big w n). split; [|split; [apply int_enc_len|]].
  - unfold e. destruct big; reflexivity.
  - intros f r. rewrite dec_prim_unfold. unfold framed_dec. cbn [bind len_de].
    destruct (blen (int_enc big w n ++ r) <? blen (int_enc big w n ++ r)) eqn:E; [lia|].
    rewrite take_all.
    assert (P : prim_dec e (PInt w) (int_enc big w n ++ r) = Ok (VInt n, r)).
    { unfold e. destruct big; cbn [prim_dec]; rewrite (int_roundtrip _ w n r H); reflexivity. }
    rewrite P. cbn [bind]. rewrite blen_app, int_enc_len.
    destruct (blen r <=? w + blen r) eqn:E2; [|lia].
    replace (w + blen r - blen r) with (blen (int_enc big w n)) by (rewrite int_enc_len; lia).
    rewrite drop_app_exact. reflexivity.
Qed.

(* ---------- Fixed<k> over BCD: the writer left-pads with zeros, the reader reads the padded digits ---------- *)

Lemma bcd_acc_zeros k : forall rv, bcd_acc (zeros k) rv = rv * 100 ^ k.
Proof.
  unfold zeros. induction (N.to_nat k) as [|m IH] eqn:E in k |- *; intros rv.
  - assert (k = 0) by lia. subst. cbn. lia.
  - assert (k = N.succ (k - 1)) by lia.
    cbn [repeat bcd_acc]. change (0 mod 16) with 0. change (0 / 16) with 0. cbn [N.eqb].
    replace (0 =? 15) with false by reflexivity.
    specialize (IH (k - 1) ltac:(lia) (rv * 100 + 0 * 10 + 0)). rewrite IH.
    rewrite H at 2. rewrite N.pow_succ_r'. lia.
Qed.

Lemma bcd_dec_padded w k pl : bcd_dec w (zeros k ++ pl) = bcd_dec w pl.
Proof. rewrite !bcd_dec_spec, bcd_acc_app, bcd_acc_zeros. reflexivity. Qed.

Lemma bcd_enc_loop_len fuel : forall k acc, k < 100 ^ N.of_nat fuel ->
  exists pre, bcd_enc_loop fuel k acc = Ok (pre ++ acc) /\
              (k <> 0 -> 100 ^ (blen pre - 1) <= k /\ 1 <= blen pre) /\ (k = 0 -> pre = []).
Proof.
  induction fuel as [|fuel IH]; intros k acc Hk.
  - cbn in Hk. assert (k = 0) by lia. subst. exists []. cbn. repeat split; try lia.
  - cbn [bcd_enc_loop]. destruct (k =? 0) eqn:E0.
    + assert (k = 0) by lia. subst. exists []. repeat split; try lia.
    + rewrite Nat2N.inj_succ, N.pow_succ_r' in Hk.
      set (b := (k / 10) mod 10 * 16 + k mod 10).
      destruct (IH (k / 10 / 10) (b :: acc)) as [pre [Hs [Hnz Hz]]]; [lia|].
      exists (pre ++ [b]). rewrite <- app_assoc. split; [exact Hs|]. split; [|lia].
      intros _. rewrite blen_app. change (blen [b]) with 1. split; [|lia].
      replace (blen pre + 1 - 1) with (blen pre) by lia.
      destruct (N.eq_dec (k / 10 / 10) 0) as [Ez|Enz].
      * rewrite (Hz Ez). change (blen []) with 0. cbn. lia.
      * destruct (Hnz Enz) as [Hp H1].
        replace (blen pre) with (N.succ (blen pre - 1)) by lia. rewrite N.pow_succ_r'. lia.
Qed.

Lemma bcd_enc_len n k bs : n < 2 ^ 64 -> n < 100 ^ k -> bcd_enc n = Ok bs -> blen bs <= k.
Proof.
  intros H64 Hk He. unfold bcd_enc in He.
  destruct (bcd_enc_loop_len 40 n []) as [pre [Hs [Hnz Hz]]].
  { change (N.of_nat 40) with 40. pose proof pow100_40. lia. }
  rewrite app_nil_r in Hs. rewrite Hs in He. injection He as <-.
  destruct (N.eq_dec n 0) as [E|E]; [rewrite (Hz E); change (blen []) with 0; lia|].
  destruct (Hnz E) as [Hp H1].
  destruct (N.le_gt_cases (blen pre) k) as [L|G]; [exact L|exfalso].
  assert (100 ^ k <= 100 ^ (blen pre - 1)) by (apply N.pow_le_mono_r; lia). lia.
Qed.

(* a decimal number in a Fixed<k> BCD field: n < 10^(2k) *)
Theorem bcd_fixed_field_exact k w tag n :
  tag_ok false tag -> n < 100 ^ k -> n < 2 ^ (8 * w) -> n < 2 ^ 64 ->
  exists g, enc (LFixed k) EBcd (TPrim (PInt w)) tag (VInt n) = Ok g /\
            forall f r, dec (S f) (LFixed k) EBcd (TPrim (PInt w)) tag (g ++ r) = Ok (VInt n, r).
Proof.
  intros Ht Hk Hw H64.
  destruct (bcd_roundtrip w n Hw H64) as [pl [He [_ [_ [_ [_ Hd]]]]]].
  pose proof (bcd_enc_len n k pl H64 Hk He) as Hl.
  set (tg := match tag with None => [] | Some t => tag_enc false t end).
  exists (tg ++ zeros (k - blen pl) ++ pl). split.
  - rewrite enc_prim_unfold by (right; discriminate). cbn [prim_enc]. rewrite He. cbn [bind].
    unfold framed_enc_p, framed_enc, len_ser. destruct (blen pl <=? k) eqn:E; [|lia]. reflexivity.
  - intros f r. rewrite dec_prim_unfold. unfold framed_dec. rewrite <- !app_assoc.
    pose proof (tag_strip false tag (zeros (k - blen pl) ++ pl ++ r) Ht) as T.
    assert (L : blen (zeros (k - blen pl) ++ pl) = k) by (rewrite blen_app, blen_zeros; lia).
    assert (R : forall x, (let* (len, payload) := len_de (LFixed k) (zeros (k - blen pl) ++ pl ++ x) in
                 if blen payload <? len then Err IncompleteData else
                 let* (data, rem) := prim_dec EBcd (PInt w) (take len payload) in
                 if blen rem <=? len then Ok (data, drop (len - blen rem) payload) else Panic) = Ok (VInt n, x)).
    { intros x. rewrite app_assoc. remember (zeros (k - blen pl) ++ pl) as zp eqn:Ezp.
      cbn [len_de]. rewrite blen_app, L.
      destruct (k + blen x <? k) eqn:E; [lia|]. cbn [bind]. rewrite blen_app, L, E.
      replace (take k (zp ++ x)) with zp by (rewrite <- L; symmetry; apply take_app_exact).
      cbn [prim_dec]. rewrite Ezp, bcd_dec_padded, Hd. cbn [bind]. rewrite <- Ezp.
      change (blen []) with 0. destruct (0 <=? k) eqn:E2; [|lia]. rewrite N.sub_0_r.
      replace (drop k (zp ++ x)) with x by (rewrite <- L; symmetry; apply drop_app_exact). reflexivity. }
    destruct tag as [t|].
    + unfold tg. rewrite T. cbn [bind]. apply R.
    + unfold tg. cbn [app bind]. apply R.
Qed.
