(* Extract.v — extraction of the executable model to OCaml.  ExtrOcamlBasic only
   (bool, option, unit, prod, list, sumbool -> OCaml's); N, positive, nat, Z stay the
   extracted inductives.  No Extract Constant. *)
From Zvt Require Import Base Length Cp437 Encoding Codec Lookup CanonClass CanonRun Transport Sequence SeqLookup Client.
From Zvt.gen Require Import Tables.
From Coq Require Import ExtrOcamlBasic.
Extraction Language OCaml.
Extraction "model.ml" len_ser len_de prim_enc prim_dec tag_enc tag_dec framed_dec framed_enc
  dec enc dec_cmd enc_cmd dec_plain enc_struct parse_enum run_dec run_enc run_enum
  read_frame read_frames read_frame_chunks flat
  run_seq_named run_upload_named
  run_history feig_history cfg_ok error_table
  run_canon canon_cmd canon_struct.
