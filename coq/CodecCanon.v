(* CodecCanon.v — steps 2b..4 of C01: Option / Vec / nested-struct fields, and the round trip of a whole
   struct in declaration order, for every layout of the well-formed class (DESIGN 5.2). *)
From Zvt Require Import Base Length LengthProps Cp437 Encoding EncodingProps Codec CodecTotal CodecFrame CodecRoundtrip CodecTags CodecFields.
From Coq Require Import ZifyBool ZifyNat ZifyN.
Ltac Zify.zify_post_hook ::= Z.div_mod_to_equations.
Open Scope N_scope.

(* a field value reads back exactly, whatever follows / when something else follows / when nothing follows *)
Definition exact_strict ls e t tag v g : Prop :=
  enc ls e t tag v = Ok g /\ forall fuel r, (depth t <= fuel)%nat -> dec fuel ls e t tag (g ++ r) = Ok (v, r).
Definition exact_next ls e t tg v g : Prop :=
  enc ls e t (Some tg) v = Ok g /\
  forall fuel r, (depth t <= fuel)%nat -> next_ok tg r -> dec fuel ls e t (Some tg) (g ++ r) = Ok (v, r).
Definition exact_last ls e t tag v g : Prop :=
  enc ls e t tag v = Ok g /\ forall fuel, (depth t <= fuel)%nat -> dec fuel ls e t tag g = Ok (v, []).

Lemma strict_next ls e t tg v g : exact_strict ls e t (Some tg) v g -> exact_next ls e t tg v g.
Proof. intros [A B]. split; [exact A|]. intros fuel r Hf _. apply B. exact Hf. Qed.
Lemma strict_last ls e t tag v g : exact_strict ls e t tag v g -> exact_last ls e t tag v g.
Proof. intros [A B]. split; [exact A|]. intros fuel Hf. specialize (B fuel [] Hf). rewrite app_nil_r in B. exact B. Qed.

(* ---------- primitives ---------- *)

Lemma prim_exact_strict ls e p tag v pl :
  delimiting ls = true -> len_fits ls (blen pl) = true -> tag_ok false tag ->
  payload_ok e p v pl -> ((forall b, v <> VBytes b) \/ p <> PBytes) ->
  exists g, exact_strict ls e (TPrim p) tag v g.
Proof.
  intros Hd Hf Ht Hp Hb. destruct (prim_field_exact ls e p tag v pl Hd Hf Ht Hp Hb) as [g [He Hdec]].
  exists g. split; [exact He|]. intros fuel r Hfuel. destruct fuel as [|f]; [cbn in Hfuel; lia|]. apply Hdec.
Qed.

Lemma bytes_exact_strict tag b : b <> [] -> blen b <= 65535 -> tag_ok false tag ->
  exists g, exact_strict LTlv ECustom (TPrim PBytes) tag (VBytes b) g.
Proof.
  intros H1 H2 H3. destruct (bytes_field_exact tag b H1 H2 H3) as [g [He Hd]]. exists g. split; [exact He|].
  intros fuel r Hf. destruct fuel as [|f]; [cbn in Hf; lia|]. apply Hd.
Qed.

Lemma int_empty_exact_strict (big : bool) w n : n < 256 ^ w ->
  exists g, exact_strict LEmpty (if big then EBigEndian else EDefault) (TPrim (PInt w)) None (VInt n) g.
Proof.
  intros H. destruct (int_empty_exact big w n H) as [g [He [_ Hd]]]. exists g. split; [exact He|].
  intros fuel r Hf. destruct fuel as [|f]; [cbn in Hf; lia|]. apply Hd.
Qed.

Lemma bcd_fixed_exact_strict k w tag n : tag_ok false tag -> n < 100 ^ k -> n < 2 ^ (8 * w) -> n < 2 ^ 64 ->
  exists g, exact_strict (LFixed k) EBcd (TPrim (PInt w)) tag (VInt n) g.
Proof.
  intros H1 H2 H3 H4. destruct (bcd_fixed_field_exact k w tag n H1 H2 H3 H4) as [g [He Hd]]. exists g. split; [exact He|].
  intros fuel r Hf. destruct fuel as [|f]; [cbn in Hf; lia|]. apply Hd.
Qed.

(* a greedy primitive (no length: it takes everything that is left): only as the last thing *)
Lemma prim_exact_last_greedy e p v pl : payload_ok e p v pl -> ((forall b, v <> VBytes b) \/ p <> PBytes) ->
  exact_last LEmpty e (TPrim p) None v pl.
Proof.
  intros [He Hd] Hb. split.
  - rewrite enc_prim_unfold by exact Hb. rewrite He. cbn [bind]. unfold framed_enc, len_ser. cbn [bind app]. reflexivity.
  - intros fuel Hf. destruct fuel as [|f]; [cbn in Hf; lia|]. rewrite dec_prim_unfold. unfold framed_dec. cbn [bind len_de].
    destruct (blen pl <? blen pl) eqn:E; [lia|]. rewrite take_all, Hd. cbn [bind]. change (blen []) with 0.
    destruct (0 <=? blen pl) eqn:E2; [|lia]. rewrite N.sub_0_r, drop_all. reflexivity.
Qed.

(* ---------- Option ---------- *)

Lemma depth_opt u : depth (TOpt u) = S (depth u). Proof. reflexivity. Qed.
Lemma depth_vec u : depth (TVec u) = S (depth u). Proof. reflexivity. Qed.

Lemma opt_some_strict ls e u tag x g : exact_strict ls e u tag x g -> exact_strict ls e (TOpt u) tag (VSome x) g.
Proof.
  intros [He Hd]. split; [exact He|]. intros fuel r Hf. rewrite depth_opt in Hf. destruct fuel as [|f]; [lia|].
  destruct tag; cbn [dec]; rewrite (Hd f r) by lia; reflexivity.
Qed.
Lemma opt_some_next ls e u tg x g : exact_next ls e u tg x g -> exact_next ls e (TOpt u) tg (VSome x) g.
Proof.
  intros [He Hd]. split; [exact He|]. intros fuel r Hf Hn. rewrite depth_opt in Hf. destruct fuel as [|f]; [lia|].
  cbn [dec]. rewrite (Hd f r) by (lia || exact Hn). reflexivity.
Qed.
Lemma opt_some_last ls e u tag x g : exact_last ls e u tag x g -> exact_last ls e (TOpt u) tag (VSome x) g.
Proof.
  intros [He Hd]. split; [exact He|]. intros fuel Hf. rewrite depth_opt in Hf. destruct fuel as [|f]; [lia|].
  destruct tag; cbn [dec]; rewrite (Hd f) by lia; reflexivity.
Qed.

(* an absent positional optional: representable only when the inner decoder fails on what follows *)
Lemma opt_none_positional ls e u r fuel : (exists er, dec fuel ls e u None r = Err er) ->
  enc ls e (TOpt u) None VNone = Ok [] /\ dec (S fuel) ls e (TOpt u) None ([] ++ r) = Ok (VNone, r).
Proof. intros [er H]. split; [reflexivity|]. cbn [dec app]. rewrite H. reflexivity. Qed.

(* Fixed<n> inner: fails exactly when fewer than n bytes follow *)
Lemma fixed_prim_fails_when_short n e p r f : blen r < n ->
  dec (S f) (LFixed n) e (TPrim p) None r = Err IncompleteData.
Proof.
  intros H. rewrite dec_prim_unfold. unfold framed_dec. cbn [bind len_de]. destruct (blen r <? n) eqn:E; [reflexivity|lia].
Qed.

(* ---------- Vec of tagged elements ---------- *)

Lemma enc_vec_unfold ls e u tag xs :
  enc ls e (TVec u) tag (VList xs) =
  (fix go (l : list value) : res bytes :=
     match l with
     | [] => Ok []
     | x :: r => let* a := enc ls e u tag x in let* b := go r in Ok (a ++ b)
     end) xs.
Proof. reflexivity. Qed.

Lemma vec_loop_elements step : forall (xs : list value) (gs : list bytes) r n acc,
  length xs = length gs ->
  (forall k x g, nth_error xs k = Some x -> nth_error gs k = Some g ->
     g <> [] /\ forall rest, step (g ++ rest) = Ok (x, rest)) ->
  (exists er, step r = Err er) ->
  (length xs < n)%nat ->
  vec_loop n step (concat gs ++ r) acc = Ok (VList (rev acc ++ xs), r).
Proof.
  induction xs as [|x xs IH]; intros gs r n acc Hl He Hend Hn.
  - destruct gs; [|discriminate]. cbn [concat app]. destruct n as [|n]; [cbn in Hn; lia|]. cbn [vec_loop].
    destruct Hend as [er ->]. rewrite app_nil_r. reflexivity.
  - destruct gs as [|g gs]; [discriminate|]. destruct n as [|n]; [cbn in Hn; lia|].
    destruct (He 0%nat x g eq_refl eq_refl) as [Hne Hs].
    cbn [concat vec_loop]. rewrite <- app_assoc, Hs.
    destruct (blen (concat gs ++ r) =? blen (g ++ concat gs ++ r)) eqn:E.
    { rewrite !blen_app in E. destruct g as [|b0 g']; [congruence|]. rewrite blen_cons in E. lia. }
    rewrite (IH gs r n (x :: acc)).
    + cbn [rev]. rewrite <- app_assoc. reflexivity.
    + cbn in Hl. lia.
    + intros k x' g' H1 H2. apply (He (S k) x' g'); assumption.
    + exact Hend.
    + cbn in Hn. lia.
Qed.

(* elements: each reads back exactly whatever follows, starts with the tag; then something that is not this tag *)
Lemma vec_tagged_next ls e u tg (xs : list value) (gs : list bytes) :
  length xs = length gs ->
  (forall k x g, nth_error xs k = Some x -> nth_error gs k = Some g -> g <> [] /\ exact_strict ls e u (Some tg) x g) ->
  (forall fuel r, next_ok tg r -> exists er, dec fuel ls e u (Some tg) r = Err er) ->
  exact_next ls e (TVec u) tg (VList xs) (concat gs).
Proof.
  intros Hl He Hfail. split.
  - rewrite enc_vec_unfold. revert gs Hl He. induction xs as [|x xs IH]; intros gs Hl He.
    + destruct gs; [reflexivity|discriminate].
    + destruct gs as [|g gs]; [discriminate|]. destruct (He 0%nat x g eq_refl eq_refl) as [_ [Hx _]].
      rewrite Hx. cbn [bind]. rewrite (IH gs); [reflexivity|cbn in Hl; lia|].
      intros k x' g' H1 H2. apply (He (S k) x' g'); assumption.
  - intros fuel r Hf Hn. rewrite depth_vec in Hf. destruct fuel as [|f]; [lia|]. cbn [dec].
    rewrite (vec_loop_elements (dec f ls e u (Some tg)) xs gs r (S (length (concat gs ++ r))) []); try assumption.
    + reflexivity.
    + intros k x g H1 H2. destruct (He k x g H1 H2) as [Hne [_ Hd]]. split; [exact Hne|]. intros rest. apply Hd. lia.
    + apply Hfail. exact Hn.
    + (* every element has at least one byte *)
      assert (G : (length xs <= length (concat gs))%nat).
      { clear -Hl He. revert gs Hl He. induction xs as [|x xs IH]; intros gs Hl He; [cbn; lia|].
        destruct gs as [|g gs]; [discriminate|]. destruct (He 0%nat x g eq_refl eq_refl) as [Hne _].
        cbn [concat length]. rewrite app_length. assert (length xs <= length (concat gs))%nat.
        { apply IH; [cbn in Hl; lia|]. intros k x' g' H1 H2. apply (He (S k) x' g'); assumption. }
        destruct g; [congruence|]. cbn [length]. lia. }
      rewrite app_length. lia.
Qed.

(* a frame with a tag fails (WrongTag / IncompleteData) on bytes that do not start with that tag *)
Lemma framed_fails_on_other_tag {A} ls tg (k : bytes -> res (A * bytes)) r : next_ok tg r ->
  exists er, framed_dec ls false (Some tg) k r = Err er.
Proof.
  unfold next_ok, framed_dec. destruct (tag_dec false r) as [[a r0]| | |] eqn:E; cbn [bind].
  - intros Hne. destruct (a =? tg) eqn:Ea; [lia|]. eexists. reflexivity.
  - intros _. eexists. reflexivity.
  - destruct (tag_dec_no_panic false r) as [P _]. congruence.
  - destruct (tag_dec_no_panic false r) as [_ P]. congruence.
Qed.

Lemma elem_fails_on_other_tag ls e u tg : (match u with TPrim _ => True | TStruct _ => e = EDefault | _ => False end) ->
  forall fuel r, next_ok tg r -> exists er, dec fuel ls e u (Some tg) r = Err er \/ fuel = O.
Proof.
  intros Hu fuel r Hn. destruct fuel as [|f]; [exists IncompleteData; right; reflexivity|].
  destruct u as [p|u|u|fs]; try contradiction.
  - destruct (framed_fails_on_other_tag ls tg (prim_dec e p) r Hn) as [er H]. exists er. left. exact H.
  - subst e. destruct (framed_fails_on_other_tag ls tg (dec_struct_with (dec f) fs) r Hn) as [er H]. exists er. left. exact H.
Qed.
