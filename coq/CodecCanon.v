(* CodecCanon.v — steps 2b..4 of C01: Option / Vec / nested-struct fields, and the round trip of a whole
   struct in declaration order, for every layout of the well-formed class (DESIGN 5.2). *)
From Zvt Require Import Base Length LengthProps Cp437 Encoding EncodingProps Codec CodecTotal CodecFrame CodecRoundtrip CodecTags CodecFields.
From Coq Require Import ZifyBool ZifyNat ZifyN Permutation.
Ltac Zify.zify_post_hook ::= Z.div_mod_to_equations.
Open Scope N_scope.

(* a field value reads back exactly, whatever follows / when something else follows / when nothing follows *)
Definition exact_strict ls e t tag v g : Prop :=
  enc ls e t tag v = Ok g /\ forall fuel r, (depth t <= fuel)%nat -> dec fuel ls e t tag (g ++ r) = Ok (v, r).
Definition exact_next ls e t tg v g : Prop :=
  enc ls e t (Some tg) v = Ok g /\
  forall fuel r, (depth t <= fuel)%nat -> next_ok tg r -> dec fuel ls e t (Some tg) (g ++ r) = Ok (v, r).
Definition exact_last ls e t tag v g : Prop :=
  enc ls e t tag v = Ok g /\ forall fuel, (depth t <= fuel)%nat -> dec fuel ls e t tag g = Ok (v, []).

Lemma strict_next ls e t tg v g : exact_strict ls e t (Some tg) v g -> exact_next ls e t tg v g.
Proof. intros [A B]. split; [exact A|]. intros fuel r Hf _. apply B. exact Hf. Qed.
Lemma strict_last ls e t tag v g : exact_strict ls e t tag v g -> exact_last ls e t tag v g.
Proof. intros [A B]. split; [exact A|]. intros fuel Hf. specialize (B fuel [] Hf). rewrite app_nil_r in B. exact B. Qed.

(* ---------- primitives ---------- *)

Lemma prim_exact_strict ls e p tag v pl :
  delimiting ls = true -> len_fits ls (blen pl) = true -> tag_ok false tag ->
  payload_ok e p v pl -> ((forall b, v <> VBytes b) \/ p <> PBytes) ->
  exists g, exact_strict ls e (TPrim p) tag v g.
Proof.
  intros Hd Hf Ht Hp Hb. destruct (prim_field_exact ls e p tag v pl Hd Hf Ht Hp Hb) as [g [He Hdec]].
  exists g. split; [exact He|]. intros fuel r Hfuel. destruct fuel as [|f]; [cbn in Hfuel; lia|]. apply Hdec.
Qed.

Lemma bytes_exact_strict tag b : b <> [] -> blen b <= 65535 -> tag_ok false tag ->
  exists g, exact_strict LTlv ECustom (TPrim PBytes) tag (VBytes b) g.
Proof.
  intros H1 H2 H3. destruct (bytes_field_exact tag b H1 H2 H3) as [g [He Hd]]. exists g. split; [exact He|].
  intros fuel r Hf. destruct fuel as [|f]; [cbn in Hf; lia|]. apply Hd.
Qed.

Lemma int_empty_exact_strict (big : bool) w n : n < 256 ^ w ->
  exists g, exact_strict LEmpty (if big then EBigEndian else EDefault) (TPrim (PInt w)) None (VInt n) g.
Proof.
  intros H. destruct (int_empty_exact big w n H) as [g [He [_ Hd]]]. exists g. split; [exact He|].
  intros fuel r Hf. destruct fuel as [|f]; [cbn in Hf; lia|]. apply Hd.
Qed.

Lemma bcd_fixed_exact_strict k w tag n : tag_ok false tag -> n < 100 ^ k -> n < 2 ^ (8 * w) -> n < 2 ^ 64 ->
  exists g, exact_strict (LFixed k) EBcd (TPrim (PInt w)) tag (VInt n) g.
Proof.
  intros H1 H2 H3 H4. destruct (bcd_fixed_field_exact k w tag n H1 H2 H3 H4) as [g [He Hd]]. exists g. split; [exact He|].
  intros fuel r Hf. destruct fuel as [|f]; [cbn in Hf; lia|]. apply Hd.
Qed.

(* a greedy primitive (no length: it takes everything that is left): only as the last thing *)
Lemma prim_exact_last_greedy e p v pl : payload_ok e p v pl -> ((forall b, v <> VBytes b) \/ p <> PBytes) ->
  exact_last LEmpty e (TPrim p) None v pl.
Proof.
  intros [He Hd] Hb. split.
  - rewrite enc_prim_unfold by exact Hb. rewrite He. cbn [bind]. unfold framed_enc, len_ser. cbn [bind app]. reflexivity.
  - intros fuel Hf. destruct fuel as [|f]; [cbn in Hf; lia|]. rewrite dec_prim_unfold. unfold framed_dec. cbn [bind len_de].
    destruct (blen pl <? blen pl) eqn:E; [lia|]. rewrite take_all, Hd. cbn [bind]. change (blen []) with 0.
    destruct (0 <=? blen pl) eqn:E2; [|lia]. rewrite N.sub_0_r, drop_all. reflexivity.
Qed.

(* ---------- Option ---------- *)

Lemma depth_opt u : depth (TOpt u) = S (depth u). Proof. reflexivity. Qed.
Lemma depth_vec u : depth (TVec u) = S (depth u). Proof. reflexivity. Qed.

Lemma opt_some_strict ls e u tag x g : exact_strict ls e u tag x g -> exact_strict ls e (TOpt u) tag (VSome x) g.
Proof.
  intros [He Hd]. split; [exact He|]. intros fuel r Hf. rewrite depth_opt in Hf. destruct fuel as [|f]; [lia|].
  destruct tag; cbn [dec]; rewrite (Hd f r) by lia; reflexivity.
Qed.
Lemma opt_some_next ls e u tg x g : exact_next ls e u tg x g -> exact_next ls e (TOpt u) tg (VSome x) g.
Proof.
  intros [He Hd]. split; [exact He|]. intros fuel r Hf Hn. rewrite depth_opt in Hf. destruct fuel as [|f]; [lia|].
  cbn [dec]. rewrite (Hd f r) by (lia || exact Hn). reflexivity.
Qed.
Lemma opt_some_last ls e u tag x g : exact_last ls e u tag x g -> exact_last ls e (TOpt u) tag (VSome x) g.
Proof.
  intros [He Hd]. split; [exact He|]. intros fuel Hf. rewrite depth_opt in Hf. destruct fuel as [|f]; [lia|].
  destruct tag; cbn [dec]; rewrite (Hd f) by lia; reflexivity.
Qed.

(* an absent positional optional: representable only when the inner decoder fails on what follows *)
Lemma opt_none_positional ls e u r fuel : (exists er, dec fuel ls e u None r = Err er) ->
  enc ls e (TOpt u) None VNone = Ok [] /\ dec (S fuel) ls e (TOpt u) None ([] ++ r) = Ok (VNone, r).
Proof. intros [er H]. split; [reflexivity|]. cbn [dec app]. rewrite H. reflexivity. Qed.

(* Fixed<n> inner: fails exactly when fewer than n bytes follow *)
Lemma fixed_prim_fails_when_short n e p r f : blen r < n ->
  dec (S f) (LFixed n) e (TPrim p) None r = Err IncompleteData.
Proof.
  intros H. rewrite dec_prim_unfold. unfold framed_dec. cbn [bind len_de]. destruct (blen r <? n) eqn:E; [reflexivity|lia].
Qed.

(* ---------- Vec of tagged elements ---------- *)

Lemma enc_vec_unfold ls e u tag xs :
  enc ls e (TVec u) tag (VList xs) =
  (fix go (l : list value) : res bytes :=
     match l with
     | [] => Ok []
     | x :: r => let* a := enc ls e u tag x in let* b := go r in Ok (a ++ b)
     end) xs.
Proof. reflexivity. Qed.

Lemma vec_loop_elements step : forall (xs : list value) (gs : list bytes) r n acc,
  length xs = length gs ->
  (forall k x g, nth_error xs k = Some x -> nth_error gs k = Some g ->
     g <> [] /\ forall rest, step (g ++ rest) = Ok (x, rest)) ->
  (exists er, step r = Err er) ->
  (length xs < n)%nat ->
  vec_loop n step (concat gs ++ r) acc = Ok (VList (rev acc ++ xs), r).
Proof.
  induction xs as [|x xs IH]; intros gs r n acc Hl He Hend Hn.
  - destruct gs; [|discriminate]. cbn [concat app]. destruct n as [|n]; [cbn in Hn; lia|]. cbn [vec_loop].
    destruct Hend as [er ->]. rewrite app_nil_r. reflexivity.
  - destruct gs as [|g gs]; [discriminate|]. destruct n as [|n]; [cbn in Hn; lia|].
    destruct (He 0%nat x g eq_refl eq_refl) as [Hne Hs].
    cbn [concat vec_loop]. rewrite <- app_assoc, Hs.
    destruct (blen (concat gs ++ r) =? blen (g ++ concat gs ++ r)) eqn:E.
    { rewrite !blen_app in E. destruct g as [|b0 g']; [congruence|]. rewrite blen_cons in E. lia. }
    rewrite (IH gs r n (x :: acc)).
    + cbn [rev]. rewrite <- app_assoc. reflexivity.
    + cbn in Hl. lia.
    + intros k x' g' H1 H2. apply (He (S k) x' g'); assumption.
    + exact Hend.
    + cbn in Hn. lia.
Qed.

(* elements: each reads back exactly whatever follows; the loop stops at r because the element reader fails there *)
Lemma vec_exact_gen ls e u tag (xs : list value) (gs : list bytes) r :
  length xs = length gs ->
  (forall k x g, nth_error xs k = Some x -> nth_error gs k = Some g -> g <> [] /\ exact_strict ls e u tag x g) ->
  (forall fuel, (depth u <= fuel)%nat -> exists er, dec fuel ls e u tag r = Err er) ->
  enc ls e (TVec u) tag (VList xs) = Ok (concat gs) /\
  forall fuel, (depth (TVec u) <= fuel)%nat -> dec fuel ls e (TVec u) tag (concat gs ++ r) = Ok (VList xs, r).
Proof.
  intros Hl He Hfail. split.
  - rewrite enc_vec_unfold. revert gs Hl He. induction xs as [|x xs IH]; intros gs Hl He.
    + destruct gs; [reflexivity|discriminate].
    + destruct gs as [|g gs]; [discriminate|]. destruct (He 0%nat x g eq_refl eq_refl) as [_ [Hx _]].
      rewrite Hx. cbn [bind]. rewrite (IH gs); [reflexivity|cbn in Hl; lia|].
      intros k x' g' H1 H2. apply (He (S k) x' g'); assumption.
  - intros fuel Hf. rewrite depth_vec in Hf. destruct fuel as [|f]; [lia|]. cbn [dec].
    rewrite (vec_loop_elements (dec f ls e u tag) xs gs r (S (length (concat gs ++ r))) []); try assumption.
    + reflexivity.
    + intros k x g H1 H2. destruct (He k x g H1 H2) as [Hne [_ Hd]]. split; [exact Hne|]. intros rest. apply Hd. lia.
    + apply Hfail. lia.
    + (* every element has at least one byte *)
      assert (G : (length xs <= length (concat gs))%nat).
      { clear -Hl He. revert gs Hl He. induction xs as [|x xs IH]; intros gs Hl He; [cbn; lia|].
        destruct gs as [|g gs]; [discriminate|]. destruct (He 0%nat x g eq_refl eq_refl) as [Hne _].
        cbn [concat length]. rewrite app_length. assert (length xs <= length (concat gs))%nat.
        { apply IH; [cbn in Hl; lia|]. intros k x' g' H1 H2. apply (He (S k) x' g'); assumption. }
        destruct g; [congruence|]. cbn [length]. lia. }
      rewrite app_length. lia.
Qed.

Lemma vec_tagged_next ls e u tg (xs : list value) (gs : list bytes) :
  length xs = length gs ->
  (forall k x g, nth_error xs k = Some x -> nth_error gs k = Some g -> g <> [] /\ exact_strict ls e u (Some tg) x g) ->
  (forall fuel r, (depth u <= fuel)%nat -> next_ok tg r -> exists er, dec fuel ls e u (Some tg) r = Err er) ->
  exact_next ls e (TVec u) tg (VList xs) (concat gs).
Proof.
  intros Hl He Hfail. split.
  - apply (vec_exact_gen ls e u (Some tg) xs gs [] Hl He). intros fuel Hf. apply Hfail; [exact Hf|]. unfold next_ok. cbn. exact I.
  - intros fuel r Hf Hn. apply (vec_exact_gen ls e u (Some tg) xs gs r Hl He); [|exact Hf]. intros fuel' Hf'. apply Hfail; assumption.
Qed.

(* a frame with a tag fails (WrongTag / IncompleteData) on bytes that do not start with that tag *)
Lemma framed_fails_on_other_tag {A} ls tg (k : bytes -> res (A * bytes)) r : next_ok tg r ->
  exists er, framed_dec ls false (Some tg) k r = Err er.
Proof.
  unfold next_ok, framed_dec. destruct (tag_dec false r) as [[a r0]| | |] eqn:E; cbn [bind].
  - intros Hne. destruct (a =? tg) eqn:Ea; [lia|]. eexists. reflexivity.
  - intros _. eexists. reflexivity.
  - destruct (tag_dec_no_panic false r) as [P _]. congruence.
  - destruct (tag_dec_no_panic false r) as [_ P]. congruence.
Qed.

Lemma elem_fails_on_other_tag ls e u tg : (match u with TPrim _ => True | TStruct _ => e = EDefault | _ => False end) ->
  forall fuel r, next_ok tg r -> exists er, dec fuel ls e u (Some tg) r = Err er \/ fuel = O.
Proof.
  intros Hu fuel r Hn. destruct fuel as [|f]; [exists IncompleteData; right; reflexivity|].
  destruct u as [p|u|u|fs]; try contradiction.
  - destruct (framed_fails_on_other_tag ls tg (prim_dec e p) r Hn) as [er H]. exists er. left. exact H.
  - subst e. destruct (framed_fails_on_other_tag ls tg (dec_struct_with (dec f) fs) r Hn) as [er H]. exists er. left. exact H.
Qed.

(* ================================================================== the struct level *)


Lemma untagged_app pfs tfs : forallb untagged_field pfs = true -> forallb (fun f => negb (untagged_field f)) tfs = true ->
  untagged (pfs ++ tfs) = pfs.
Proof.
  intros Hp Ht. unfold untagged. rewrite filter_app.
  assert (A : filter (fun f => match f_tag f with None => true | Some _ => false end) pfs = pfs).
  { clear -Hp. induction pfs as [|f pfs IH]; [reflexivity|]. cbn [forallb] in Hp. apply andb_prop in Hp. destruct Hp as [H1 H2].
    cbn [filter]. unfold untagged_field in H1. rewrite H1, (IH H2). reflexivity. }
  assert (B : filter (fun f => match f_tag f with None => true | Some _ => false end) tfs = []).
  { clear -Ht. induction tfs as [|f tfs IH]; [reflexivity|]. cbn [forallb] in Ht. apply andb_prop in Ht. destruct Ht as [H1 H2].
    cbn [filter]. unfold untagged_field in H1. destruct (f_tag f); [apply IH; exact H2|discriminate]. }
  rewrite A, B. apply app_nil_r.
Qed.

Lemma find_tagged_skip pfs : forallb untagged_field pfs = true -> forall l t i,
  find_tagged (pfs ++ l) t i = find_tagged l t (i + length pfs)%nat.
Proof.
  induction pfs as [|f pfs IH]; intros Hp l t i; [cbn; f_equal; lia|].
  cbn [forallb] in Hp. apply andb_prop in Hp. destruct Hp as [H1 H2]. unfold untagged_field in H1.
  cbn [app find_tagged]. destruct (f_tag f); [discriminate|]. rewrite (IH H2). f_equal. cbn [length]. lia.
Qed.


Lemma find_tagged_unique tfs : NoDup (tags_of tfs) -> forall k f t i,
  nth_error tfs k = Some f -> f_tag f = Some t -> find_tagged tfs t i = Some ((i + k)%nat, f).
Proof.
  induction tfs as [|g tfs IH]; intros Hnd k f t i Hn Ht; [destruct k; discriminate|].
  cbn [find_tagged]. destruct k as [|k].
  - injection Hn as ->. rewrite Ht, N.eqb_refl. do 2 f_equal. lia.
  - cbn [nth_error] in Hn. unfold tags_of in Hnd. cbn [flat_map] in Hnd. destruct (f_tag g) as [tg|] eqn:Eg.
    + cbn [app] in Hnd. inversion Hnd as [|? ? Hnotin Hnd']; subst.
      destruct (tg =? t) eqn:E.
      * exfalso. apply Hnotin. assert (tg = t) by lia. subst. apply in_flat_map. exists f. split; [eapply nth_error_In; exact Hn|].
        rewrite Ht. left. reflexivity.
      * rewrite (IH Hnd' k f t (S i) Hn Ht). do 2 f_equal. lia.
    + cbn [app] in Hnd. rewrite (IH Hnd k f t (S i) Hn Ht). do 2 f_equal. lia.
Qed.

(* a tagged slot: the field, its value, and its bytes on the wire if it is present *)
Definition tslot := (field * value * option bytes)%type.

Fixpoint groups_from (k : nat) (ts : list tslot) : list group :=
  match ts with
  | [] => []
  | (f, v, Some g) :: r =>
      {| g_idx := k; g_tag := match f_tag f with Some t => t | None => 0 end; g_val := v; g_bytes := g |} :: groups_from (S k) r
  | (_, _, None) :: r => groups_from (S k) r
  end.

Lemma set_nth_app_here {A} (pre : list A) d rest v : set_nth (pre ++ d :: rest) (length pre) v = pre ++ v :: rest.
Proof. induction pre as [|x pre IH]; [reflexivity|]. cbn [app length set_nth]. rewrite IH. reflexivity. Qed.

Lemma apply_groups_slots : forall (ts : list tslot) (pre : list value),
  (forall f v, In (f, v, None) ts -> v = default_value (f_ty f)) ->
  apply_groups (pre ++ map (fun s => default_value (f_ty (fst (fst s)))) ts) (groups_from (length pre) ts)
    = pre ++ map (fun s => snd (fst s)) ts.
Proof.
  induction ts as [|[[f v] [g|]] ts IH]; intros pre Habs.
  - cbn. reflexivity.
  - cbn [map groups_from apply_groups fold_left g_idx g_val fst snd].
    rewrite set_nth_app_here.
    replace (pre ++ v :: map (fun s => default_value (f_ty (fst (fst s)))) ts)
      with ((pre ++ [v]) ++ map (fun s => default_value (f_ty (fst (fst s)))) ts) by (rewrite <- app_assoc; reflexivity).
    replace (S (length pre)) with (length (pre ++ [v])) by (rewrite app_length; cbn; lia).
    change (fold_left (fun vs g0 => set_nth vs (g_idx g0) (g_val g0)) (groups_from (length (pre ++ [v])) ts)
              ((pre ++ [v]) ++ map (fun s => default_value (f_ty (fst (fst s)))) ts))
      with (apply_groups ((pre ++ [v]) ++ map (fun s => default_value (f_ty (fst (fst s)))) ts) (groups_from (length (pre ++ [v])) ts)).
    rewrite IH by (intros f' v' Hin; apply Habs; right; exact Hin). rewrite <- app_assoc. reflexivity.
  - cbn [map groups_from fst snd].
    rewrite (Habs f v (or_introl eq_refl)).
    replace (pre ++ default_value (f_ty f) :: map (fun s => default_value (f_ty (fst (fst s)))) ts)
      with ((pre ++ [default_value (f_ty f)]) ++ map (fun s => default_value (f_ty (fst (fst s)))) ts) by (rewrite <- app_assoc; reflexivity).
    replace (S (length pre)) with (length (pre ++ [default_value (f_ty f)])) by (rewrite app_length; cbn; lia).
    rewrite IH by (intros f' v' Hin; apply Habs; right; exact Hin). rewrite <- app_assoc. reflexivity.
Qed.

Lemma init_slots_app pfs tfs pos : forallb untagged_field pfs = true -> forallb (fun f => negb (untagged_field f)) tfs = true ->
  length pos = length pfs ->
  init_slots (pfs ++ tfs) pos = pos ++ map (fun f => default_value (f_ty f)) tfs.
Proof.
  revert pos. induction pfs as [|[nm tg ls e t] pfs IH]; intros pos Hp Ht Hl.
  - destruct pos; [|discriminate]. cbn [app]. clear -Ht. induction tfs as [|[nm tg ls e t] tfs IH]; [reflexivity|].
    cbn [forallb] in Ht. apply andb_prop in Ht. destruct Ht as [H1 H2]. unfold untagged_field in H1. cbn [f_tag] in H1.
    destruct tg; [|discriminate]. cbn [init_slots map f_ty]. rewrite (IH H2). reflexivity.
  - cbn [forallb] in Hp. apply andb_prop in Hp. destruct Hp as [H1 H2]. unfold untagged_field in H1. cbn [f_tag] in H1.
    destruct tg; [discriminate|]. destruct pos as [|v pos]; [discriminate|]. cbn [app init_slots]. rewrite (IH pos H2 Ht); [reflexivity|cbn in Hl; lia].
Qed.

(* the bytes of the present tagged slots, in order *)
Definition tbytes (ts : list tslot) : bytes := concat (map (fun s => match snd s with Some g => g | None => [] end) ts).

Lemma gbytes_groups_from k ts : gbytes (groups_from k ts) = tbytes ts.
Proof.
  revert k. induction ts as [|[[f v] [g|]] ts IH]; intros k; [reflexivity| |].
  - unfold gbytes, tbytes in *. cbn [groups_from map concat g_bytes snd]. f_equal. apply IH.
  - unfold gbytes, tbytes in *. cbn [groups_from map concat snd app]. apply IH.
Qed.

Lemma groups_from_tags k ts t : In t (map g_tag (groups_from k ts)) ->
  exists f v g, In (f, v, Some g) ts /\ t = match f_tag f with Some t => t | None => 0 end.
Proof.
  revert k. induction ts as [|[[f v] [g|]] ts IH]; intros k Hin; [destruct Hin| |].
  - cbn [groups_from map g_tag] in Hin. destruct Hin as [<-|Hin].
    + exists f, v, g. split; [left; reflexivity|reflexivity].
    + destruct (IH _ Hin) as [f' [v' [g' [A B]]]]. exists f', v', g'. split; [right; exact A|exact B].
  - cbn [groups_from] in Hin. destruct (IH _ Hin) as [f' [v' [g' [A B]]]]. exists f', v', g'. split; [right; exact A|exact B].
Qed.

Lemma groups_from_nodup : forall (ts : list tslot) k,
  forallb (fun f => negb (untagged_field f)) (map (fun s : tslot => fst (fst s)) ts) = true ->
  NoDup (tags_of (map (fun s : tslot => fst (fst s)) ts)) -> NoDup (map g_tag (groups_from k ts)).
Proof.
  induction ts as [|[[f v] og] ts IH]; intros k Ht Hnd; [constructor|].
  cbn [map fst forallb] in Ht, Hnd. apply andb_prop in Ht. destruct Ht as [H1 H2].
  unfold tags_of in Hnd. cbn [flat_map] in Hnd. unfold untagged_field in H1.
  destruct (f_tag f) as [t|] eqn:Et; [|discriminate]. cbn [app] in Hnd. inversion Hnd as [|? ? Hnotin Hnd']; subst.
  destruct og as [g|]; cbn [groups_from]; [|apply IH; assumption].
  cbn [map g_tag]. rewrite Et. constructor; [|apply IH; assumption].
  intros Hin. destruct (groups_from_tags _ _ _ Hin) as [f' [v' [g' [A B]]]]. apply Hnotin.
  apply in_flat_map. exists f'. split.
  - apply in_map_iff. exists (f', v', Some g'). split; [reflexivity|exact A].
  - assert (Hf' : negb (untagged_field f') = true).
    { rewrite forallb_forall in H2. apply H2. apply in_map_iff. exists (f', v', Some g'). split; [reflexivity|exact A]. }
    unfold untagged_field in Hf'. destruct (f_tag f') as [t'|]; [|discriminate]. subst t. left. reflexivity.
Qed.

Lemma groups_from_present k ts f v g : In (f, v, Some g) ts -> forall t, f_tag f = Some t -> In t (map g_tag (groups_from k ts)).
Proof.
  revert k. induction ts as [|[[f' v'] [g'|]] ts IH]; intros k Hin t Ht; [destruct Hin| |].
  - cbn [groups_from map g_tag]. destruct Hin as [E|Hin].
    + injection E as -> -> ->. rewrite Ht. left. reflexivity.
    + right. apply IH; assumption.
  - cbn [groups_from]. destruct Hin as [E|Hin]; [discriminate|]. apply IH; assumption.
Qed.

Lemma groups_from_idx k ts : forall g, In g (groups_from k ts) -> (k <= g_idx g)%nat.
Proof.
  revert k. induction ts as [|[[f v] [b|]] ts IH]; intros k g Hin; [destruct Hin| |].
  - cbn [groups_from] in Hin. destruct Hin as [<-|Hin]; [cbn; lia|]. specialize (IH (S k) g Hin). lia.
  - cbn [groups_from] in Hin. specialize (IH (S k) g Hin). lia.
Qed.
Lemma groups_from_idx_nodup ts : forall k, NoDup (map g_idx (groups_from k ts)).
Proof.
  induction ts as [|[[f v] [b|]] ts IH]; intros k; [constructor| |].
  - cbn [groups_from map g_idx]. constructor; [|apply IH]. intros Hin. apply in_map_iff in Hin. destruct Hin as [g [E Hg]].
    pose proof (groups_from_idx (S k) ts g Hg). lia.
  - cbn [groups_from]. apply IH.
Qed.

(* what the slot view of a struct gives about its groups (shared by the in-order and the permuted theorem) *)
Lemma slots_facts D (ps : list (field * value * bytes)) (ts : list tslot) :
  let pfs := map (fun x => fst (fst x)) ps in
  let tfs := map (fun s : tslot => fst (fst s)) ts in
  let gs := groups_from (length pfs) ts in
  forallb untagged_field pfs = true -> forallb (fun f => negb (untagged_field f)) tfs = true ->
  NoDup (tags_of tfs) ->
  (forall k f v g, nth_error ts k = Some (f, v, Some g) ->
     exists nm t ls e ty, f = Fld nm (Some t) ls e ty /\
       (forall r, exists rest, tag_dec false (g ++ r) = Ok (t, rest)) /\
       (forall r, next_ok t r -> D ls e ty (Some t) (g ++ r) = Ok (v, r))) ->
  (forall f v, In (f, v, None) ts -> v = default_value (f_ty f) /\ is_optional (f_ty f) = true) ->
  untagged (pfs ++ tfs) = pfs /\ Forall (group_ok D (pfs ++ tfs)) gs /\ NoDup (map g_tag gs) /\ NoDup (map g_idx gs) /\
  all_required_present (pfs ++ tfs) gs /\ gbytes gs = tbytes ts /\
  apply_groups (init_slots (pfs ++ tfs) (map (fun x => snd (fst x)) ps)) gs
    = map (fun x => snd (fst x)) ps ++ map (fun s : tslot => snd (fst s)) ts.
Proof.
  intros pfs tfs gs Hp Ht Hnd Hpres Habs.
  set (pre := map (fun x : field * value * bytes => snd (fst x)) ps).
  assert (Hlen : length pre = length pfs) by (unfold pre, pfs; rewrite !map_length; reflexivity).
  split; [apply untagged_app; assumption|]. split; [|split; [apply groups_from_nodup; assumption|split; [apply groups_from_idx_nodup|split; [|split; [apply gbytes_groups_from|]]]]].
  - (* group_ok for every generated group *)
    unfold gs.
    assert (G : forall ts' k0, (forall k f v g, nth_error ts' k = Some (f, v, Some g) -> nth_error ts (k0 + k) = Some (f, v, Some g)) ->
              Forall (group_ok D (pfs ++ tfs)) (groups_from (length pfs + k0) ts')).
    { induction ts' as [|[[f v] [g|]] ts' IH]; intros k0 Hsub; [constructor| |].
      - cbn [groups_from]. constructor.
        + pose proof (Hsub 0%nat f v g eq_refl) as Hn. rewrite Nat.add_0_r in Hn.
          destruct (Hpres k0 f v g Hn) as [nm [t [ls [e [ty [-> [Htag Hdec]]]]]]].
          exists nm, ls, e, ty. cbn [g_tag g_idx g_val g_bytes f_tag]. split; [|split; assumption].
          rewrite (find_tagged_skip pfs Hp).
          rewrite (find_tagged_unique tfs Hnd k0 (Fld nm (Some t) ls e ty) t (0 + length pfs)%nat).
          * replace (0 + length pfs + k0)%nat with (length pfs + k0)%nat by lia. reflexivity.
          * unfold tfs. rewrite nth_error_map, Hn. reflexivity.
          * reflexivity.
        + replace (S (length pfs + k0)) with (length pfs + S k0)%nat by lia. apply IH.
          intros k f' v' g' H. replace (S k0 + k)%nat with (k0 + S k)%nat by lia. apply (Hsub (S k)). exact H.
      - cbn [groups_from]. replace (S (length pfs + k0)) with (length pfs + S k0)%nat by lia. apply IH.
        intros k f' v' g' H. replace (S k0 + k)%nat with (k0 + S k)%nat by lia. apply (Hsub (S k)). exact H. }
    specialize (G ts 0%nat (fun k f v g H => H)). rewrite Nat.add_0_r in G. exact G.
  - (* all required tags are among the present ones *)
    intros t Hin. unfold required_tags in Hin. apply in_flat_map in Hin. destruct Hin as [f [Hf Hin]].
    apply in_app_or in Hf. destruct Hf as [Hf|Hf].
    + rewrite forallb_forall in Hp. specialize (Hp f Hf). unfold untagged_field in Hp. destruct (f_tag f); [discriminate|destruct Hin].
    + unfold tfs in Hf. apply in_map_iff in Hf. destruct Hf as [[[f' v] og] [E Hs]]. cbn [fst] in E. subst f'.
      destruct (f_tag f) as [t'|] eqn:Et; [|destruct Hin].
      destruct (is_optional (f_ty f)) eqn:Eo; [destruct Hin|]. destruct Hin as [<-|[]].
      destruct og as [g|].
      * eapply groups_from_present; eassumption.
      * destruct (Habs f v Hs) as [_ Hopt]. congruence.
  - fold pre. rewrite init_slots_app; try assumption.
    unfold tfs. rewrite map_map. unfold gs. rewrite <- Hlen.
    apply apply_groups_slots. intros f v Hin. apply (Habs f v Hin).
Qed.

(* the same groups are STRICT (decodable whatever follows) when every present slot is: the case of layouts without a repeated
   tagged field, for which a duplicated group is always rejected (C13) *)
Lemma slots_groups_strict D (ps : list (field * value * bytes)) (ts : list tslot) :
  let pfs := map (fun x => fst (fst x)) ps in
  let tfs := map (fun s : tslot => fst (fst s)) ts in
  forallb untagged_field pfs = true -> NoDup (tags_of tfs) ->
  (forall k f v g, nth_error ts k = Some (f, v, Some g) ->
     exists nm t ls e ty, f = Fld nm (Some t) ls e ty /\
       (forall r, exists rest, tag_dec false (g ++ r) = Ok (t, rest)) /\
       (forall r, D ls e ty (Some t) (g ++ r) = Ok (v, r))) ->
  Forall (group_strict D (pfs ++ tfs)) (groups_from (length pfs) ts).
Proof.
  intros pfs tfs Hp Hnd Hpres.
  assert (G : forall ts' k0, (forall k f v g, nth_error ts' k = Some (f, v, Some g) -> nth_error ts (k0 + k) = Some (f, v, Some g)) ->
            Forall (group_strict D (pfs ++ tfs)) (groups_from (length pfs + k0) ts')).
  { induction ts' as [|[[f v] [g|]] ts' IH]; intros k0 Hsub; [constructor| |].
    - cbn [groups_from]. constructor.
      + pose proof (Hsub 0%nat f v g eq_refl) as Hn. rewrite Nat.add_0_r in Hn.
        destruct (Hpres k0 f v g Hn) as [nm [t [ls [e [ty [-> [Htag Hdec]]]]]]].
        exists nm, ls, e, ty. cbn [g_tag g_idx g_val g_bytes f_tag]. split; [|split; assumption].
        rewrite (find_tagged_skip pfs Hp).
        rewrite (find_tagged_unique tfs Hnd k0 (Fld nm (Some t) ls e ty) t (0 + length pfs)%nat).
        * replace (0 + length pfs + k0)%nat with (length pfs + k0)%nat by lia. reflexivity.
        * unfold tfs. rewrite nth_error_map, Hn. reflexivity.
        * reflexivity.
      + replace (S (length pfs + k0)) with (length pfs + S k0)%nat by lia. apply IH.
        intros k f' v' g' H. replace (S k0 + k)%nat with (k0 + S k)%nat by lia. apply (Hsub (S k)). exact H.
    - cbn [groups_from]. replace (S (length pfs + k0)) with (length pfs + S k0)%nat by lia. apply IH.
      intros k f' v' g' H. replace (S k0 + k)%nat with (k0 + S k)%nat by lia. apply (Hsub (S k)). exact H. }
  specialize (G ts 0%nat (fun k f v g H => H)). rewrite Nat.add_0_r in G. exact G.
Qed.

(* THE struct lemma in declaration order: positional triples, then tagged slots (present or absent) *)
Theorem dec_struct_slots D (ps : list (field * value * bytes)) (ts : list tslot) (tail : bytes) :
  let pfs := map (fun x => fst (fst x)) ps in
  let tfs := map (fun s : tslot => fst (fst s)) ts in
  forallb untagged_field pfs = true -> forallb (fun f => negb (untagged_field f)) tfs = true ->
  NoDup (tags_of tfs) ->
  tail_ok (pfs ++ tfs) tail ->
  pos_ok D ps (tbytes ts ++ tail) ->
  (* every present tagged slot is a well-formed group *)
  (forall k f v g, nth_error ts k = Some (f, v, Some g) ->
     exists nm t ls e ty, f = Fld nm (Some t) ls e ty /\
       (forall r, exists rest, tag_dec false (g ++ r) = Ok (t, rest)) /\
       (forall r, next_ok t r -> D ls e ty (Some t) (g ++ r) = Ok (v, r))) ->
  (* every absent one is optional and holds the default *)
  (forall f v, In (f, v, None) ts -> v = default_value (f_ty f) /\ is_optional (f_ty f) = true) ->
  dec_struct_with D (pfs ++ tfs) (concat (map snd ps) ++ tbytes ts ++ tail)
    = Ok (VRec (map (fun x => snd (fst x)) ps ++ map (fun s : tslot => snd (fst s)) ts), tail).
Proof.
  intros pfs tfs Hp Ht Hnd Htail Hpos Hpres Habs.
  destruct (slots_facts D ps ts Hp Ht Hnd Hpres Habs) as [Hu [Hok [Hnt [Hni [Hreq [Hgb Happ]]]]]].
  fold pfs tfs in Hu, Hok, Hreq, Happ, Hgb, Hnt, Hni.
  pose proof (dec_struct_groups D (pfs ++ tfs) ps (groups_from (length pfs) ts) tail) as T.
  rewrite Hgb, Happ in T. apply T; try assumption.
Qed.

(* ... and with the tagged groups in ANY order *)
Theorem dec_struct_slots_perm D (ps : list (field * value * bytes)) (ts : list tslot) (tail : bytes) gs' :
  let pfs := map (fun x => fst (fst x)) ps in
  let tfs := map (fun s : tslot => fst (fst s)) ts in
  forallb untagged_field pfs = true -> forallb (fun f => negb (untagged_field f)) tfs = true ->
  NoDup (tags_of tfs) ->
  tail_ok (pfs ++ tfs) tail ->
  Permutation (groups_from (length pfs) ts) gs' ->
  pos_ok D ps (gbytes gs' ++ tail) ->
  (forall k f v g, nth_error ts k = Some (f, v, Some g) ->
     exists nm t ls e ty, f = Fld nm (Some t) ls e ty /\
       (forall r, exists rest, tag_dec false (g ++ r) = Ok (t, rest)) /\
       (forall r, next_ok t r -> D ls e ty (Some t) (g ++ r) = Ok (v, r))) ->
  (forall f v, In (f, v, None) ts -> v = default_value (f_ty f) /\ is_optional (f_ty f) = true) ->
  dec_struct_with D (pfs ++ tfs) (concat (map snd ps) ++ gbytes gs' ++ tail)
    = Ok (VRec (map (fun x => snd (fst x)) ps ++ map (fun s : tslot => snd (fst s)) ts), tail).
Proof.
  intros pfs tfs Hp Ht Hnd Htail HP Hpos Hpres Habs.
  destruct (slots_facts D ps ts Hp Ht Hnd Hpres Habs) as [Hu [Hok [Hnt [Hni [Hreq [Hgb Happ]]]]]].
  fold pfs tfs in Hu, Hok, Hreq, Happ, Hgb, Hnt, Hni.
  pose proof (perm_invariant D (pfs ++ tfs) ps (groups_from (length pfs) ts) gs' tail HP) as T.
  rewrite Happ in T. apply T; try assumption.
Qed.
