//! Shared helpers of the correspondence harness: hex, case-file reading, panic capture,
//! canonical result text.  Every binary reads a case file (one case per line, tab separated)
//! and prints exactly one result line per case, in the same canonical text the OCaml driver
//! of the extracted Coq model prints, so that the comparison is a line diff.
pub mod debugparse;
use std::io::{BufRead, Write};

pub fn hex(bs: &[u8]) -> String {
    let mut s = String::with_capacity(bs.len() * 2);
    for b in bs {
        s.push_str(&format!("{:02x}", b));
    }
    if s.is_empty() {
        s.push('-');
    }
    s
}

pub fn unhex(s: &str) -> Vec<u8> {
    if s == "-" {
        return vec![];
    }
    let b = s.as_bytes();
    assert!(b.len() % 2 == 0, "odd hex {s}");
    (0..b.len() / 2)
        .map(|i| u8::from_str_radix(&s[2 * i..2 * i + 2], 16).expect("hex"))
        .collect()
}

pub fn zerr(e: &zvt_builder::ZVTError) -> String {
    use zvt_builder::ZVTError::*;
    match e {
        IncompleteData => "Err IncompleteData".to_string(),
        NonImplemented => "Err NonImplemented".to_string(),
        WrongTag(t) => format!("Err WrongTag:{}", t.0),
        DuplicateTag(t) => format!("Err DuplicateTag:{}", t.0),
        MissingRequiredTags(ts) => format!(
            "Err MissingRequiredTags:{}",
            ts.iter().map(|t| t.0.to_string()).collect::<Vec<_>>().join(",")
        ),
        Aborted(c) => format!("Err Aborted:{}", c),
    }
}

/// Runs `f`, mapping a panic to the text `Panic`.
pub fn guarded<F: FnOnce() -> String + std::panic::UnwindSafe>(f: F) -> String {
    match std::panic::catch_unwind(f) {
        Ok(s) => s,
        Err(_) => "Panic".to_string(),
    }
}

/// With ZVT_HARNESS_LOG=1 a logger that accepts EVERY level is installed and every record is formatted (into a sink): the
/// arguments of the library's `debug!` / `trace!` lines are then evaluated and their `Debug` / `Display` impls run, as under
/// `RUST_LOG=trace` — a panic hidden in a log line is a panic of the decoder (C02).
struct SinkLogger;
impl log::Log for SinkLogger {
    fn enabled(&self, _: &log::Metadata) -> bool {
        true
    }
    fn log(&self, record: &log::Record) {
        use std::fmt::Write;
        let mut s = String::new();
        let _ = write!(s, "{}", record.args());
        std::hint::black_box(s);
    }
    fn flush(&self) {}
}
static SINK_LOGGER: SinkLogger = SinkLogger;

pub fn maybe_install_logger() {
    if std::env::var("ZVT_HARNESS_LOG").map(|v| v == "1").unwrap_or(false) {
        install_logger();
    }
}

/// unconditionally (the sequence, transport and client harnesses: their case counts are small)
pub fn install_logger() {
    let _ = log::set_logger(&SINK_LOGGER);
    log::set_max_level(log::LevelFilter::Trace);
}

pub fn silence_panics() {
    maybe_install_logger();
    std::panic::set_hook(Box::new(|_| {}));
}

/// Reads the case file given as argv[1] (or stdin), calls `f` on the tab-split fields of each
/// non-empty line, writes results to argv[2] (or stdout).
pub fn run_cases<F: FnMut(&[&str], &mut dyn FnMut(String))>(mut f: F) {
    let args: Vec<String> = std::env::args().collect();
    let input: Box<dyn BufRead> = if args.len() > 1 && args[1] != "-" {
        Box::new(std::io::BufReader::new(std::fs::File::open(&args[1]).expect("case file")))
    } else {
        Box::new(std::io::BufReader::new(std::io::stdin()))
    };
    let out: Box<dyn Write> = if args.len() > 2 {
        Box::new(std::fs::File::create(&args[2]).expect("out file"))
    } else {
        Box::new(std::io::stdout())
    };
    let mut out = std::io::BufWriter::with_capacity(1 << 20, out);
    for line in input.lines() {
        let line = line.expect("read");
        if line.is_empty() || line.starts_with('#') {
            continue;
        }
        next_case();
        let fields: Vec<&str> = line.split('\t').collect();
        let mut emit = |s: String| {
            out.write_all(s.as_bytes()).unwrap();
            out.write_all(b"\n").unwrap();
        };
        f(&fields, &mut emit);
    }
    out.flush().unwrap();
}

/// Watchdog: if one case runs longer than `secs`, the case line is written to <out>.hang and the
/// process exits with status 3 (reported by ./check as a hang of that case).
static CASE_NO: std::sync::atomic::AtomicUsize = std::sync::atomic::AtomicUsize::new(0);
pub fn start_watchdog(secs: u64) {
    std::thread::spawn(move || {
        let mut last = usize::MAX;
        let mut since = std::time::Instant::now();
        loop {
            std::thread::sleep(std::time::Duration::from_millis(500));
            let cur = CASE_NO.load(std::sync::atomic::Ordering::Relaxed);
            if cur != last {
                last = cur;
                since = std::time::Instant::now();
            } else if since.elapsed().as_secs() >= secs {
                let args: Vec<String> = std::env::args().collect();
                if args.len() > 2 {
                    let _ = std::fs::write(format!("{}.hang", args[2]), format!("{}", cur));
                }
                eprintln!("HANG at case {}", cur);
                std::process::exit(3);
            }
        }
    });
}
pub fn next_case() {
    CASE_NO.fetch_add(1, std::sync::atomic::Ordering::Relaxed);
}

/// decode with the real codec, canonical value text, remainder, re-encoding (shared by codec.rs and
/// the generated derive_gen programs)
pub fn run_struct_plain<T>(bs: &[u8]) -> String
where
    T: zvt_builder::ZvtSerializer + std::fmt::Debug,
    zvt_builder::encoding::Default: zvt_builder::encoding::Encoding<T>,
{
    let bs = bs.to_vec();
    guarded(move || match T::zvt_deserialize(&bs) {
        Ok((v, rem)) => {
            let val = debugparse::canon(&format!("{:?}", v));
            let rem = hex(rem);
            let re = std::panic::catch_unwind(std::panic::AssertUnwindSafe(|| v.zvt_serialize()));
            match re {
                Ok(b) => format!("Ok {} rem={} re={}", val, rem, hex(&b)),
                Err(_) => format!("Ok {} rem={} re=Panic", val, rem),
            }
        }
        Err(e) => zerr(&e),
    })
}
