//! PacketTransport::read_packet over an instrumented AsyncRead that serves a given partition of the
//! byte stream, returns Pending (waking itself) between chunks and counts what was consumed (C04).
use std::future::Future;
use std::pin::Pin;
use std::sync::atomic::{AtomicBool, Ordering};
use std::sync::Arc;
use std::task::{Context, Poll, Wake, Waker};
use tokio::io::{AsyncRead, ReadBuf};
use zvt::io::PacketTransport;
use zvt_builder::{ZVTResult, ZvtParser};
use zvt_verif_harness::*;

enum Chunk {
    Data(Vec<u8>),
    Pend,
}

struct Src {
    chunks: Vec<Chunk>,
    idx: usize,
    off: usize,
    eof: bool,
    consumed: usize,
    polls: usize,
}

impl AsyncRead for Src {
    fn poll_read(mut self: Pin<&mut Self>, cx: &mut Context<'_>, buf: &mut ReadBuf<'_>) -> Poll<std::io::Result<()>> {
        self.polls += 1;
        loop {
            if self.idx >= self.chunks.len() {
                return if self.eof { Poll::Ready(Ok(())) } else { Poll::Pending };
            }
            let idx = self.idx;
            match &self.chunks[idx] {
                Chunk::Pend => {
                    self.idx += 1;
                    cx.waker().wake_by_ref();
                    return Poll::Pending;
                }
                Chunk::Data(d) => {
                    if self.off >= d.len() {
                        self.idx += 1;
                        self.off = 0;
                        continue;
                    }
                    let n = std::cmp::min(buf.remaining(), d.len() - self.off);
                    let (a, b) = (self.off, self.off + n);
                    buf.put_slice(&d[a..b]);
                    self.off += n;
                    self.consumed += n;
                    return Poll::Ready(Ok(()));
                }
            }
        }
    }
}

struct Raw(Vec<u8>);
impl ZvtParser for Raw {
    fn zvt_parse(bytes: &[u8]) -> ZVTResult<Self> {
        Ok(Raw(bytes.to_vec()))
    }
}

struct Flag(AtomicBool);
impl Wake for Flag {
    fn wake(self: Arc<Self>) {
        self.0.store(true, Ordering::SeqCst);
    }
    fn wake_by_ref(self: &Arc<Self>) {
        self.0.store(true, Ordering::SeqCst);
    }
}

fn run(chunks: &str, eof: bool, k: usize) -> String {
    let chunks: Vec<Chunk> = if chunks == "-" {
        vec![]
    } else {
        chunks.split(',').map(|c| if c == "P" { Chunk::Pend } else { Chunk::Data(unhex(c)) }).collect()
    };
    let mut pt = PacketTransport { source: Src { chunks, idx: 0, off: 0, eof, consumed: 0, polls: 0 } };
    let flag = Arc::new(Flag(AtomicBool::new(false)));
    let waker = Waker::from(flag.clone());
    let mut out = Vec::new();
    for _ in 0..k {
        let res = {
            let mut fut = Box::pin(pt.read_packet::<Raw>());
            let mut cx = Context::from_waker(&waker);
            loop {
                flag.0.store(false, Ordering::SeqCst);
                match fut.as_mut().poll(&mut cx) {
                    Poll::Ready(r) => break Some(r),
                    Poll::Pending => {
                        if !flag.0.load(Ordering::SeqCst) {
                            break None; // nobody will wake us: the stream is open but silent
                        }
                    }
                }
            }
        };
        match res {
            Some(Ok(Raw(f))) => out.push(format!("Ok {} consumed={}", hex(&f), pt.source.consumed)),
            Some(Err(_)) => {
                out.push("Err".to_string());
                break;
            }
            None => {
                out.push("Blocked".to_string());
                break;
            }
        }
    }
    out.join(" | ")
}

/// the real writer: PrintLine with a body of `len` bytes (Ack for 0), written through write_packet
fn written(len: usize) -> Vec<u8> {
    let mut sink = PacketTransport { source: Vec::<u8>::new() };
    let fut = async {
        if len == 0 {
            sink.write_packet(&zvt::packets::Ack {}).await.unwrap();
        } else {
            let p = zvt::packets::PrintLine { attribute: 0x41, text: "B".repeat(len - 1) };
            sink.write_packet(&p).await.unwrap();
        }
    };
    futures::executor::block_on(fut);
    sink.source
}

fn wr(len: usize) -> String {
    let w = written(len);
    let hdr = hex(&w[..std::cmp::min(5, w.len())]);
    let mut stream = w.clone();
    stream.extend_from_slice(&[0xde, 0xad]);
    let r = run(&hex(&stream), true, 1);
    let r = if r.len() > 60 { format!("{}..{}", &r[..20], &r[r.len() - 30..]) } else { r };
    format!("wrote={} hdr={} {}", w.len(), &hdr[..std::cmp::min(10, hdr.len())], r)
}

fn main() {
    silence_panics();
    install_logger(); // every log line of the library is evaluated and formatted, as under RUST_LOG=trace
    run_cases(|f, emit| match f[0] {
        // wr_range <from> <to>: write a packet with an n-byte body with the real writer, read it back
        "wr_range" => {
            let (a, b): (usize, usize) = (f[1].parse().unwrap(), f[2].parse().unwrap());
            for n in a..=b {
                emit(guarded(move || wr(n)));
            }
        }
        // read <chunks: hex or P, comma separated> <eof|open> <k>
        "read" => {
            let (c, e, k) = (f[1].to_string(), f[2] == "eof", f[3].parse().unwrap());
            emit(guarded(move || run(&c, e, k)))
        }
        other => panic!("unknown case kind {other}"),
    });
}
