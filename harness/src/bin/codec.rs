//! Every shipped packet / TLV struct and every reply enum: decode, canonical value, re-encode.
//! (C01 C02 C03 C13 C14 C15).  The dispatch table is regenerated from /repo by zvt2coq.
use std::fmt::Debug;
use zvt_builder::encoding::{self, Encoding};
use zvt_builder::ZvtSerializer;
use zvt_verif_harness::debugparse::canon;
use zvt_verif_harness::*;

fn run_struct<T>(bs: &[u8]) -> String
where
    T: ZvtSerializer + Debug,
    encoding::Default: Encoding<T>,
{
    let bs = bs.to_vec();
    guarded(move || match T::zvt_deserialize(&bs) {
        Ok((v, rem)) => {
            let val = canon(&format!("{:?}", v));
            let rem = hex(rem);
            let re = std::panic::catch_unwind(std::panic::AssertUnwindSafe(|| v.zvt_serialize()));
            match re {
                Ok(b) => format!("Ok {} rem={} re={}", val, rem, hex(&b)),
                Err(_) => format!("Ok {} rem={} re=Panic", val, rem),
            }
        }
        Err(e) => zerr(&e),
    })
}

fn show_variant<T: Debug>(i: usize, p: &T) -> String {
    format!("Ok {} {}", i, canon(&format!("{:?}", p)))
}

include!("../gen_dispatch.rs");

fn main() {
    silence_panics();
    run_cases(|f, emit| match f[0] {
        // dec <abs struct name> <hex>
        "dec" => emit(dispatch_struct(f[1], &unhex(f[2])).unwrap_or_else(|| "NoSuchType".to_string())),
        // enum <abs enum name> <hex>
        "enum" => {
            let bs = unhex(f[2]);
            let name = f[1].to_string();
            emit(guarded(move || dispatch_enum(&name, &bs).unwrap_or_else(|| "NoSuchType".to_string())))
        }
        other => panic!("unknown case kind {other}"),
    });
}
