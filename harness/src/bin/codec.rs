//! Every shipped packet / TLV struct and every reply enum: decode, canonical value, re-encode.
//! (C01 C02 C03 C13 C14 C15).  The dispatch table is regenerated from /repo by zvt2coq.
use std::fmt::Debug;
use zvt_builder::encoding::{self, Encoding};
use zvt_builder::ZvtSerializer;
use zvt_verif_harness::debugparse::canon;
use zvt_verif_harness::*;

// ---- counting allocator: peak heap growth during one decode call (C02: bounded allocation)
use std::alloc::{GlobalAlloc, Layout, System};
use std::sync::atomic::{AtomicBool, AtomicUsize, Ordering};
struct Counting;
static CUR: AtomicUsize = AtomicUsize::new(0);
static PEAK: AtomicUsize = AtomicUsize::new(0);
static MEASURE: AtomicBool = AtomicBool::new(false);
unsafe impl GlobalAlloc for Counting {
    unsafe fn alloc(&self, l: Layout) -> *mut u8 {
        let c = CUR.fetch_add(l.size(), Ordering::Relaxed) + l.size();
        PEAK.fetch_max(c, Ordering::Relaxed);
        System.alloc(l)
    }
    unsafe fn dealloc(&self, p: *mut u8, l: Layout) {
        CUR.fetch_sub(l.size(), Ordering::Relaxed);
        System.dealloc(p, l)
    }
}
#[global_allocator]
static A: Counting = Counting;

fn measure_struct<T>(bs: &[u8]) -> String
where
    T: ZvtSerializer + Debug,
    encoding::Default: Encoding<T>,
{
    let bs = bs.to_vec();
    guarded(move || {
        let base = CUR.load(Ordering::Relaxed);
        PEAK.store(base, Ordering::Relaxed);
        let r = T::zvt_deserialize(&bs);
        let peak = PEAK.load(Ordering::Relaxed);
        drop(r);
        format!("alloc {}", peak - base)
    })
}

fn run_struct<T>(bs: &[u8]) -> String
where
    T: ZvtSerializer + Debug,
    encoding::Default: Encoding<T>,
{
    let bs = bs.to_vec();
    if MEASURE.load(Ordering::Relaxed) {
        return measure_struct::<T>(&bs);
    }
    guarded(move || match T::zvt_deserialize(&bs) {
        Ok((v, rem)) => {
            let val = canon(&format!("{:?}", v));
            let rem = hex(rem);
            let re = std::panic::catch_unwind(std::panic::AssertUnwindSafe(|| v.zvt_serialize()));
            match re {
                Ok(b) => format!("Ok {} rem={} re={}", val, rem, hex(&b)),
                Err(_) => format!("Ok {} rem={} re=Panic", val, rem),
            }
        }
        Err(e) => zerr(&e),
    })
}

fn show_variant<T: Debug>(i: usize, p: &T) -> String {
    format!("Ok {} {}", i, canon(&format!("{:?}", p)))
}

include!("../gen_dispatch.rs");

fn one(is_struct: bool, name: &str, bs: &[u8]) -> String {
    if is_struct {
        dispatch_struct(name, bs).unwrap_or_else(|| "NoSuchType".to_string())
    } else {
        let (name, bs) = (name.to_string(), bs.to_vec());
        guarded(move || dispatch_enum(&name, &bs).unwrap_or_else(|| "NoSuchType".to_string()))
    }
}

fn main() {
    silence_panics();
    start_watchdog(10);
    run_cases(|f, emit| match f[0] {
        // deca <abs struct name> <hex>: peak heap growth of the decode call
        "deca" => {
            MEASURE.store(true, Ordering::Relaxed);
            let r = dispatch_struct(f[1], &unhex(f[2])).unwrap_or_else(|| "NoSuchType".to_string());
            MEASURE.store(false, Ordering::Relaxed);
            emit(r)
        }
        // dec_all|enum_all <name> <prefix hex> <k>: prefix followed by every k-byte string
        "dec_all" | "enum_all" => {
            let prefix = unhex(f[2]);
            let k: u32 = f[3].parse().unwrap();
            for i in 0..(1u64 << (8 * k)) {
                let mut bs = prefix.clone();
                bs.extend((0..k).map(|j| (i >> (8 * (k - 1 - j))) as u8));
                emit(one(f[0] == "dec_all", f[1], &bs));
            }
        }
        // enum_cf_all <enum> <body hex>: every (class, instr) x this body, with a correct APDU length
        "enum_cf_all" => {
            let body = unhex(f[2]);
            for c in 0..=255u8 {
                for i in 0..=255u8 {
                    let mut bs = vec![c, i, body.len() as u8];
                    bs.extend_from_slice(&body);
                    emit(one(false, f[1], &bs));
                }
            }
        }
        // dec_trunc|enum_trunc <name> <hex>: every proper prefix
        "dec_trunc" | "enum_trunc" => {
            let bs = unhex(f[2]);
            for n in 0..bs.len() {
                emit(one(f[0] == "dec_trunc", f[1], &bs[..n]));
            }
        }
        // dec_subst|enum_subst <name> <hex>: every single-byte substitution
        "dec_subst" | "enum_subst" => {
            let bs = unhex(f[2]);
            for off in 0..bs.len() {
                for v in 0..=255u8 {
                    let mut b2 = bs.clone();
                    b2[off] = v;
                    emit(one(f[0] == "dec_subst", f[1], &b2));
                }
            }
        }
        // errtab: the result-code table as the running code has it: code, variant name (Debug), text (Display, hex)
        "errtab" => {
            #[allow(unused_imports)]
            use num_traits::FromPrimitive;
            let mut rows = Vec::new();
            for c in 0..=255u8 {
                if let Some(e) = zvt::constants::ErrorMessages::from_u8(c) {
                    rows.push(format!("{}:{:?}:{}", c, e, hex(format!("{}", e).as_bytes())));
                }
            }
            emit(rows.join(";"))
        }
        // dec <abs struct name> <hex>
        "dec" => emit(dispatch_struct(f[1], &unhex(f[2])).unwrap_or_else(|| "NoSuchType".to_string())),
        // enum <abs enum name> <hex>
        "enum" => {
            let bs = unhex(f[2]);
            let name = f[1].to_string();
            emit(guarded(move || dispatch_enum(&name, &bs).unwrap_or_else(|| "NoSuchType".to_string())))
        }
        other => panic!("unknown case kind {other}"),
    });
}
