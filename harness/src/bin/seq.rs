//! All Sequence impls and the firmware upload driven against a scripted in-memory peer that logs, in
//! one sequence, every write, every read and every item the stream yields (C05 C06 C11).
use std::fmt::Debug;
use std::pin::Pin;
use std::sync::{Arc, Mutex};
use std::task::{Context, Poll};
use tokio::io::{AsyncRead, AsyncWrite, ReadBuf};
use zvt::io::PacketTransport;
use zvt_builder::ZvtSerializer;
use zvt_verif_harness::debugparse::canon;
use zvt_verif_harness::*;

pub type Log = Arc<Mutex<Vec<String>>>;

pub fn push(log: &Log, s: String) {
    log.lock().unwrap().push(s);
}

/// consecutive reads coalesce into one R: event
fn push_read(log: &Log, bs: &[u8]) {
    let mut l = log.lock().unwrap();
    if let Some(last) = l.last_mut() {
        if last.starts_with("R:") {
            last.push_str(&hex(bs));
            return;
        }
    }
    l.push(format!("R:{}", hex(bs)));
}

struct Peer {
    input: Vec<u8>,
    pos: usize,
    log: Log,
}

impl AsyncRead for Peer {
    fn poll_read(mut self: Pin<&mut Self>, _: &mut Context<'_>, buf: &mut ReadBuf<'_>) -> Poll<std::io::Result<()>> {
        let n = std::cmp::min(buf.remaining(), self.input.len() - self.pos);
        if n > 0 {
            let (a, b) = (self.pos, self.pos + n);
            buf.put_slice(&self.input[a..b]);
            push_read(&self.log, &self.input[a..b]);
            self.pos += n;
        }
        Poll::Ready(Ok(())) // n == 0: end of stream
    }
}

impl AsyncWrite for Peer {
    fn poll_write(self: Pin<&mut Self>, _: &mut Context<'_>, buf: &[u8]) -> Poll<std::io::Result<usize>> {
        push(&self.log, format!("W:{}", hex(buf)));
        Poll::Ready(Ok(buf.len()))
    }
    fn poll_flush(self: Pin<&mut Self>, _: &mut Context<'_>) -> Poll<std::io::Result<()>> {
        Poll::Ready(Ok(()))
    }
    fn poll_shutdown(self: Pin<&mut Self>, _: &mut Context<'_>) -> Poll<std::io::Result<()>> {
        Poll::Ready(Ok(()))
    }
}

fn show_variant<T: Debug>(i: usize, p: &T) -> String {
    format!("{}{}", i, canon(&format!("{:?}", p)))
}

include!("../gen_seq_dispatch.rs");

fn run_seq(name: &str, input: &[u8], script: &[u8]) -> String {
    let log: Log = Arc::new(Mutex::new(Vec::new()));
    let mut pt = PacketTransport { source: Peer { input: script.to_vec(), pos: 0, log: log.clone() } };
    let ok = futures::executor::block_on(dispatch_seq(name, input, &mut pt, &log));
    if ok.is_none() {
        return "NoSuchSequenceOrBadInput".to_string();
    }
    let left = pt.source.input.len() - pt.source.pos;
    let l = log.lock().unwrap();
    format!("{} left={}", l.join(" "), left)
}

fn run_upload(dir: &str, block: u32, password: usize, script: &[u8]) -> String {
    use futures::StreamExt;
    let log: Log = Arc::new(Mutex::new(Vec::new()));
    let mut pt = PacketTransport { source: Peer { input: script.to_vec(), pos: 0, log: log.clone() } };
    futures::executor::block_on(async {
        let mut st = zvt::feig::sequences::WriteFile::into_stream(std::path::PathBuf::from(dir), password, block, &mut pt);
        while let Some(item) = st.next().await {
            match item {
                Ok(v) => push(&log, format!("Y:{}", show_zvt_feig_sequences_WriteFileResponse(&v))),
                Err(_) => push(&log, "Y:Err".to_string()),
            }
        }
    });
    let left = pt.source.input.len() - pt.source.pos;
    let mut l = log.lock().unwrap().clone();
    // the announcement: HashMap order is not part of the behaviour -> canonical (password, sorted (id, size))
    if let Some(first) = l.first_mut() {
        if first.starts_with("W:0814") {
            let bytes = unhex(&first[2..]);
            if let Ok((p, _)) = zvt::feig::packets::WriteFile::zvt_deserialize(&bytes) {
                let mut files: Vec<(u8, u32)> = p
                    .tlv
                    .map(|t| t.files.iter().map(|f| (f.file_id.unwrap_or(0), f.file_size.unwrap_or(0))).collect())
                    .unwrap_or_default();
                files.sort();
                *first = format!(
                    "W:manifest pw={} [{}]",
                    p.password,
                    files.iter().map(|(i, s)| format!("({},{})", i, s)).collect::<Vec<_>>().join(";")
                );
            }
        }
    }
    format!("{} left={}", l.join(" "), left)
}

fn main() {
    silence_panics();
    install_logger(); // every log line of the library is evaluated and formatted, as under RUST_LOG=trace
    start_watchdog(20);
    run_cases(|f, emit| match f[0] {
        // seq <sequence name> <input packet hex> <script hex>
        "seq" => {
            let (n, i, s) = (f[1].to_string(), unhex(f[2]), unhex(f[3]));
            emit(guarded(move || run_seq(&n, &i, &s)))
        }
        // upload <dir> <block> <password> <script hex>
        "upload" => {
            let (d, b, p, s) = (f[1].to_string(), f[2].parse().unwrap(), f[3].parse().unwrap(), unhex(f[4]));
            emit(guarded(move || run_upload(&d, b, p, &s)))
        }
        other => panic!("unknown case kind {other}"),
    });
}
