//! Length styles and value encodings of zvt_builder called directly (C16, C17).
use zvt_builder::length::{self, Length};
use zvt_verif_harness::*;

fn len_ser_s(style: &str, n: usize) -> String {
    macro_rules! go {
        ($t:ty) => {
            guarded(move || format!("Ok {}", hex(&<$t>::serialize(n))))
        };
    }
    macro_rules! fixed {
        ($($k:literal),*) => {
            match style {
                "Empty" => go!(length::Empty),
                "Tlv" => go!(length::Tlv),
                "Adpu" => go!(length::Adpu),
                "Llv:1" => go!(length::LlvImpl<1>),
                "Llv:2" => go!(length::LlvImpl<2>),
                "Llv:3" => go!(length::LlvImpl<3>),
                "Llv:4" => go!(length::LlvImpl<4>),
                $(concat!("Fixed:", $k) => go!(length::Fixed<$k>),)*
                _ => panic!("unknown style {style}"),
            }
        };
    }
    fixed!(0, 1, 2, 3, 4, 5, 6, 7, 8, 9, 10, 11, 12, 13, 14, 15, 16, 17)
}

fn len_de_s(style: &str, bs: &[u8]) -> String {
    macro_rules! go {
        ($t:ty) => {{
            let bs = bs.to_vec();
            guarded(move || match <$t>::deserialize(&bs) {
                Ok((n, r)) => format!("Ok {} {}", n, hex(r)),
                Err(e) => zerr(&e),
            })
        }};
    }
    macro_rules! fixed {
        ($($k:literal),*) => {
            match style {
                "Empty" => go!(length::Empty),
                "Tlv" => go!(length::Tlv),
                "Adpu" => go!(length::Adpu),
                "Llv:1" => go!(length::LlvImpl<1>),
                "Llv:2" => go!(length::LlvImpl<2>),
                "Llv:3" => go!(length::LlvImpl<3>),
                "Llv:4" => go!(length::LlvImpl<4>),
                $(concat!("Fixed:", $k) => go!(length::Fixed<$k>),)*
                _ => panic!("unknown style {style}"),
            }
        };
    }
    fixed!(0, 1, 2, 3, 4, 5, 6, 7, 8, 9, 10, 11, 12, 13, 14, 15, 16, 17)
}

use chrono::{Datelike, NaiveDate, NaiveDateTime, Timelike};
use zvt::feig::packets::tlv::Custom;
use zvt::packets::PartialReversalReceiptNo;
use zvt_builder::encoding::{self, Encoding};
use zvt_builder::Tag;

fn p_enc_s(enc: &str, prim: &str, val: &str) -> String {
    let val = val.to_string();
    macro_rules! int {
        ($e:ty, $t:ty) => {
            guarded(move || match val.parse::<$t>() {
                Ok(v) => format!("Ok {}", hex(&<$e as Encoding<$t>>::encode(&v))),
                Err(_) => "Unrepresentable".to_string(),
            })
        };
    }
    macro_rules! strg {
        ($e:ty) => {
            guarded(move || match parse_str(&val) {
                Some(v) => format!("Ok {}", hex(&<$e as Encoding<String>>::encode(&v))),
                None => "Unrepresentable".to_string(),
            })
        };
    }
    match (enc, prim) {
        ("Default", "u8") => int!(encoding::Default, u8),
        ("Default", "u16") => int!(encoding::Default, u16),
        ("Default", "u32") => int!(encoding::Default, u32),
        ("Default", "u64") => int!(encoding::Default, u64),
        ("Default", "usize") => int!(encoding::Default, usize),
        ("BigEndian", "u8") => int!(encoding::BigEndian, u8),
        ("BigEndian", "u16") => int!(encoding::BigEndian, u16),
        ("BigEndian", "u32") => int!(encoding::BigEndian, u32),
        ("BigEndian", "u64") => int!(encoding::BigEndian, u64),
        ("BigEndian", "usize") => int!(encoding::BigEndian, usize),
        ("Bcd", "u8") => int!(encoding::Bcd, u8),
        ("Bcd", "u16") => int!(encoding::Bcd, u16),
        ("Bcd", "u32") => int!(encoding::Bcd, u32),
        ("Bcd", "u64") => int!(encoding::Bcd, u64),
        ("Bcd", "usize") => int!(encoding::Bcd, usize),
        ("ReceiptNo", "usize") => int!(PartialReversalReceiptNo, usize),
        ("Default", "String") => strg!(encoding::Default),
        ("Hex", "String") => strg!(encoding::Hex),
        ("Utf8", "String") => strg!(encoding::Utf8),
        ("Custom", "Bytes") => guarded(move || {
            format!("Ok {}", hex(&<Custom as Encoding<Vec<u8>>>::encode(&unhex(&val[2..]))))
        }),
        ("Default", "DateTime") => guarded(move || match parse_date(&val) {
            Some(v) => format!("Ok {}", hex(&<encoding::Default as Encoding<NaiveDateTime>>::encode(&v))),
            None => "Unrepresentable".to_string(),
        }),
        _ => panic!("no such impl {enc} {prim}"),
    }
}

pub fn parse_str(v: &str) -> Option<String> {
    let body = &v[2..];
    if body == "-" {
        return Some(String::new());
    }
    let mut s = String::new();
    for cp in body.split('.') {
        s.push(char::from_u32(u32::from_str_radix(cp, 16).ok()?)?);
    }
    Some(s)
}

pub fn show_str(s: &str) -> String {
    if s.is_empty() {
        return "s:-".to_string();
    }
    format!("s:{}", s.chars().map(|c| format!("{:x}", c as u32)).collect::<Vec<_>>().join("."))
}

pub fn parse_date(v: &str) -> Option<NaiveDateTime> {
    let p: Vec<i64> = v[2..].split(',').map(|x| x.parse().unwrap()).collect();
    NaiveDate::from_ymd_opt(p[0] as i32, p[1] as u32, p[2] as u32)?.and_hms_opt(p[3] as u32, p[4] as u32, p[5] as u32)
}

pub fn show_date(d: &NaiveDateTime) -> String {
    format!("d:{},{},{},{},{},{}", d.year(), d.month(), d.day(), d.hour(), d.minute(), d.second())
}

fn p_dec_s(enc: &str, prim: &str, bs: &[u8]) -> String {
    let bs = bs.to_vec();
    macro_rules! int {
        ($e:ty, $t:ty) => {
            guarded(move || match <$e as Encoding<$t>>::decode(&bs) {
                Ok((v, r)) => format!("Ok {} {}", v, hex(r)),
                Err(e) => zerr(&e),
            })
        };
    }
    macro_rules! strg {
        ($e:ty) => {
            guarded(move || match <$e as Encoding<String>>::decode(&bs) {
                Ok((v, r)) => format!("Ok {} {}", show_str(&v), hex(r)),
                Err(e) => zerr(&e),
            })
        };
    }
    match (enc, prim) {
        ("Default", "u8") => int!(encoding::Default, u8),
        ("Default", "u16") => int!(encoding::Default, u16),
        ("Default", "u32") => int!(encoding::Default, u32),
        ("Default", "u64") => int!(encoding::Default, u64),
        ("Default", "usize") => int!(encoding::Default, usize),
        ("BigEndian", "u8") => int!(encoding::BigEndian, u8),
        ("BigEndian", "u16") => int!(encoding::BigEndian, u16),
        ("BigEndian", "u32") => int!(encoding::BigEndian, u32),
        ("BigEndian", "u64") => int!(encoding::BigEndian, u64),
        ("BigEndian", "usize") => int!(encoding::BigEndian, usize),
        ("Bcd", "u8") => int!(encoding::Bcd, u8),
        ("Bcd", "u16") => int!(encoding::Bcd, u16),
        ("Bcd", "u32") => int!(encoding::Bcd, u32),
        ("Bcd", "u64") => int!(encoding::Bcd, u64),
        ("Bcd", "usize") => int!(encoding::Bcd, usize),
        ("ReceiptNo", "usize") => int!(PartialReversalReceiptNo, usize),
        ("Default", "String") => strg!(encoding::Default),
        ("Hex", "String") => strg!(encoding::Hex),
        ("Utf8", "String") => strg!(encoding::Utf8),
        ("Custom", "Bytes") => guarded(move || match <Custom as Encoding<Vec<u8>>>::decode(&bs) {
            Ok((v, r)) => format!("Ok [{}] {}", v.iter().map(|b| b.to_string()).collect::<Vec<_>>().join(";"), hex(r)),
            Err(e) => zerr(&e),
        }),
        ("Default", "DateTime") => guarded(move || match <encoding::Default as Encoding<NaiveDateTime>>::decode(&bs) {
            Ok((v, r)) => format!("Ok {} {}", show_date(&v), hex(r)),
            Err(e) => zerr(&e),
        }),
        _ => panic!("no such impl {enc} {prim}"),
    }
}

fn tag_enc_s(big: bool, t: u16) -> String {
    guarded(move || {
        let b = if big {
            <encoding::BigEndian as Encoding<Tag>>::encode(&Tag(t))
        } else {
            <encoding::Default as Encoding<Tag>>::encode(&Tag(t))
        };
        format!("Ok {}", hex(&b))
    })
}

fn tag_dec_s(big: bool, bs: &[u8]) -> String {
    let bs = bs.to_vec();
    guarded(move || {
        let r = if big {
            <encoding::BigEndian as Encoding<Tag>>::decode(&bs)
        } else {
            <encoding::Default as Encoding<Tag>>::decode(&bs)
        };
        match r {
            Ok((t, r)) => format!("Ok {} {}", t.0, hex(r)),
            Err(e) => zerr(&e),
        }
    })
}

fn main() {
    silence_panics();
    install_logger(); // every log line of the library is evaluated and formatted, as under RUST_LOG=trace
    run_cases(|f, emit| match f[0] {
        // p_enc <enc> <prim> <value>      p_dec <enc> <prim> <hex>
        "p_enc" => emit(p_enc_s(f[1], f[2], f[3])),
        "p_dec" => emit(p_dec_s(f[1], f[2], &unhex(f[3]))),
        // p_enc_range <enc> <prim> <from> <to>
        "p_enc_range" => {
            let (a, b): (u64, u64) = (f[3].parse().unwrap(), f[4].parse().unwrap());
            for n in a..=b {
                emit(p_enc_s(f[1], f[2], &n.to_string()));
            }
        }
        // p_dec_all <enc> <prim> <k>: every k-byte string
        "p_dec_all" => {
            let k: u32 = f[3].parse().unwrap();
            for i in 0..(1u64 << (8 * k)) {
                let bs: Vec<u8> = (0..k).map(|j| (i >> (8 * (k - 1 - j))) as u8).collect();
                emit(p_dec_s(f[1], f[2], &bs));
            }
        }
        "tag_enc" => emit(tag_enc_s(f[1] == "1", f[2].parse().unwrap())),
        "tag_enc_all" => {
            for t in 0..=65535u16 {
                emit(tag_enc_s(f[1] == "1", t));
            }
        }
        "tag_dec" => emit(tag_dec_s(f[1] == "1", &unhex(f[2]))),
        "tag_dec_all" => {
            let k: u32 = f[2].parse().unwrap();
            let suffix = unhex(f[3]);
            for i in 0..(1u64 << (8 * k)) {
                let mut bs: Vec<u8> = (0..k).map(|j| (i >> (8 * (k - 1 - j))) as u8).collect();
                bs.extend_from_slice(&suffix);
                emit(tag_dec_s(f[1] == "1", &bs));
            }
        }
        // len_ser <style> <n>
        "len_ser" => emit(len_ser_s(f[1], f[2].parse().unwrap())),
        // len_ser_range <style> <from> <to>   (inclusive)
        "len_ser_range" => {
            let (a, b): (usize, usize) = (f[2].parse().unwrap(), f[3].parse().unwrap());
            for n in a..=b {
                emit(len_ser_s(f[1], n));
            }
        }
        // len_de <style> <hex>
        "len_de" => emit(len_de_s(f[1], &unhex(f[2]))),
        // len_de_all <style> <k> <hex suffix>: every k-byte string (k <= 3), in order, followed by suffix
        "len_de_all" => {
            let k: u32 = f[2].parse().unwrap();
            let suffix = unhex(f[3]);
            for i in 0..(1u64 << (8 * k)) {
                let mut bs: Vec<u8> = (0..k).map(|j| (i >> (8 * (k - 1 - j))) as u8).collect();
                bs.extend_from_slice(&suffix);
                emit(len_de_s(f[1], &bs));
            }
        }
        other => panic!("unknown case kind {other}"),
    });
}
